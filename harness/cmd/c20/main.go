// C20 harness: miner registry and stake accounting.
// Every generated block (1-4 miner transactions of the five types) is executed by the REAL VMExecutor loop
// (core.VerifC06ExecuteBlockCtx -> miner executors -> MinerManager / RefundManager -> AccountDB) on an in-memory
// state, followed by RefundManager.Add / CheckAndMove and a block boundary (IntermediateRoot + Commit + fresh
// AccountDB).
// (a) the property is evaluated directly on the implementation after every block: the three lookup paths
//
//	(GetMinerById, GetMinerIdByAccount, MinerIterator) agree, stake = applied + added - refunded, proposer total
//	and count = sum over active records, liquid + locked + scheduled constant, an account controls at most one
//	miner, a rejected transaction changes nothing but the fee;
//
// (b) the block is written as a model case (state before, transactions, result classes, state after, iterator
//
//	views) and replayed through coq/C20/Model.v.
package main

import (
	"bytes"
	"encoding/binary"
	"encoding/json"
	"fmt"
	"math/big"
	"os"
	"path/filepath"
	"regexp"
	"runtime/debug"
	"sort"
	"strconv"
	"strings"

	"com.tuntun.rangers/node/src/common"
	"com.tuntun.rangers/node/src/consensus/access"
	"com.tuntun.rangers/node/src/consensus/groupsig"
	"com.tuntun.rangers/node/src/middleware/types"
	"com.tuntun.rangers/node/src/service"
	"com.tuntun.rangers/node/src/storage/account"
	"verif/harness/hx"
)

const refundDelay = uint64(36000)

var feeWei = wei("0.001")
var tenTok = tokens(10)

// ---- world ----
type world struct {
	*nodeWorld
	ids       [][]byte    // id universe, sorted by key bytes; model index = position + 1
	accts     [][]byte    // account universe (byte strings); model index = position + 1 (0 = the empty byte string); accts[0] = FeeAccount
	addrOf    []int       // account index -> index of common.BytesToAddress(bytes) (itself for 20-byte accounts); addrOf[0] = 0
	addrU     []int       // address universe for balances / escrow: 0 (zero address) and every 20-byte account
	senders   []int       // model indices of the senders
	actors    []int       // senders and the funded contract accounts: transaction sources (a contract acts through UNSTAKE-type opcodes; here its address is the transaction source)
	contracts []int       // model indices of the accounts that carry code
	ncOf      map[int]int // sender index -> index of the address the main-node stub reports for it
	mnCode    bool        // the main-node contract is deployed
	h         uint64
	heights   map[uint64]bool
	ghost     map[string]int64 // id -> applied + added - refunded, from the receipts
	blocks    int
	keyBytes  []string
	fixedQh   uint64 // when non-zero: the query height of viewsCheck (sibling states are asked at one height)
}

func (w *world) acctIdx(b []byte) int {
	if len(b) == 0 {
		return 0
	}
	for i, a := range w.accts {
		if bytes.Equal(a, b) {
			return i + 1
		}
	}
	return -1
}

// acctIdxJunk: acctIdx, and for byte strings that are another slot's value (storage-key aliasing) the tagged numbers
// of coq/C20/KeyModel.v: the json record of id j, 8 stake bytes, 1 status byte
func (w *world) acctIdxJunk(b []byte, adb *account.AccountDB) int {
	if i := w.acctIdx(b); i >= 0 {
		return i
	}
	for k := 0; k <= 1; k++ {
		db := []common.Address{common.ValidatorDBAddress, common.ProposerDBAddress}[k]
		for j, id := range w.ids {
			if d := adb.GetData(db, id); len(d) > 8 && bytes.Equal(d, b) {
				return 1000000 + j + 1
			}
		}
	}
	if len(b) == 8 {
		return 2000000 + int(binary.BigEndian.Uint64(b))
	}
	if len(b) == 1 {
		return 3000000 + int(b[0])
	}
	return -1
}

func (w *world) addrIdx(a common.Address) int {
	if a == (common.Address{}) {
		return 0
	}
	return w.acctIdx(a.Bytes())
}

func (w *world) address(i int) common.Address {
	if i == 0 {
		return common.Address{}
	}
	return common.BytesToAddress(w.accts[i-1])
}

func (w *world) addAcct(b []byte) int {
	w.accts = append(w.accts, b)
	return len(w.accts)
}

func newWorld(r *hx.Rng) *world {
	return newWorldCfg(r, false, 0)
}

func newWorldCfg(r *hx.Rng, sub bool, regime int) *world {
	activate(sub, regime)
	w := &world{nodeWorld: newNodeWorld(), heights: map[uint64]bool{}, ghost: map[string]int64{}, ncOf: map[int]int{}}
	w.Sub = sub
	w.Regime = regime
	w.h = 20 + uint64(r.Intn(1000))
	// ids: four 32-byte ids (first byte != 0x70), two short ones; no id is a prefix of another
	for i := 0; i < 4; i++ {
		id := r.Bytes(32)
		if id[0] == 0x70 || id[0] == 0 {
			id[0] = 0x55
		}
		w.ids = append(w.ids, id)
	}
	w.ids = append(w.ids, []byte{0x70, 0x01}, []byte{0x70, 0x02})
	sort.Slice(w.ids, func(i, j int) bool { return bytes.Compare(w.ids[i], w.ids[j]) < 0 })
	// accounts
	w.addAcct(common.FeeAccount.Bytes())
	for i := 1; i <= 4; i++ { // senders: indices 2..5
		w.senders = append(w.senders, w.addAcct(addr(i).Bytes()))
	}
	w.addAcct(addr(0x11).Bytes()) // plain non-senders: 6, 7
	w.addAcct(addr(0x12).Bytes())
	w.contracts = append(w.contracts, w.addAcct(addr(0x31).Bytes())) // a contract: 8
	for i := 1; i <= 4; i++ { // what the main-node stub reports for sender i: ORIGIN + 0x40
		n := w.addAcct(addr(0x40 + i).Bytes())
		w.ncOf[w.senders[i-1]] = n
		if i <= 2 {
			w.contracts = append(w.contracts, n)
		}
	}
	// account byte strings that are not 20 bytes long, and the addresses BytesToAddress maps them to
	odd := [][]byte{{0x0b, 0x0c, 0x0d}, append([]byte{0x00}, addr(1).Bytes()...), append(append([]byte{0xee}, r.Bytes(30)...), 0x07)}
	for _, o := range odd {
		w.addAcct(o)
		if w.acctIdx(common.BytesToAddress(o).Bytes()) < 0 {
			w.addAcct(common.BytesToAddress(o).Bytes())
		}
	}
	w.addrOf = []int{0}
	w.addrU = []int{0}
	for i, a := range w.accts {
		w.addrOf = append(w.addrOf, w.acctIdx(common.BytesToAddress(a).Bytes()))
		if len(a) == 20 {
			w.addrU = append(w.addrU, i+1)
		}
	}
	adb := w.ADB
	w.actors = append([]int{}, w.senders...)
	for _, c := range w.contracts {
		adb.SetNonce(w.address(c), 1)
		adb.SetCode(w.address(c), []byte{0x00})
		adb.SetBalance(w.address(c), tokens(20))
		w.actors = append(w.actors, c)
	}
	adb.SetBalance(addr(1), tokens(uint64(15000+r.Intn(10000))))
	adb.SetBalance(addr(2), tokens(uint64(3000+r.Intn(4000))))
	adb.SetBalance(addr(3), wei(strconv.Itoa(300+r.Intn(2400))+".5"))
	adb.SetBalance(addr(4), wei([]string{"0.0005", "0.0015", "12"}[r.Intn(3)]))
	// main-node contract stub: MSTORE(0, ORIGIN + 0x40); four LOG0 of 32 bytes; STOP
	w.mnCode = r.Intn(5) != 0
	if w.mnCode {
		code := []byte{0x32, 0x60, 0x40, 0x01, 0x60, 0x00, 0x52}
		for i := 0; i < 4; i++ {
			code = append(code, 0x60, 0x20, 0x60, 0x00, 0xa0)
		}
		code = append(code, 0x00)
		mn := common.MainNodeContract()
		adb.SetNonce(mn, 1)
		adb.SetCode(mn, code)
	}
	w.boundary()
	return w
}

// ---- observation of the implementation ----
type mrec struct {
	K, I         int
	Apply, Stake uint64
	Acct, Stat   int
}

type escEntry struct {
	H uint64
	A int
	V *big.Int
}

type ostate struct {
	miners []mrec
	bals   []*big.Int // per entry of addrU
	esc    []escEntry
	gm     []int // the typeless MinerManager.GetMiner(id) per id: 0 nil, 1 validator, 2 proposer
	bad    string
}

// midobs: what a probe transaction reads inside the running block
type midobs struct {
	ostate
	byAcct []int // GetMinerIdByAccount for the empty account and every account; 0 = nil
	iter   [2][]int
}

func (w *world) sortedHeights() []uint64 {
	hs := make([]uint64, 0, len(w.heights))
	for h := range w.heights {
		hs = append(hs, h)
	}
	sort.Slice(hs, func(i, j int) bool { return hs[i] < hs[j] })
	return hs
}

func (w *world) idIdx(id []byte) int {
	for i, x := range w.ids {
		if bytes.Equal(x, id) {
			return i + 1
		}
	}
	return -1
}

// observeReg: every record GetMinerById finds, every balance (no escrow: GetAllRefund creates account objects)
func (w *world) observeReg(adb *account.AccountDB) ostate {
	var o ostate
	for k := 0; k <= 1; k++ {
		for i, id := range w.ids {
			m := service.MinerManagerImpl.GetMinerById(id, byte(k), adb)
			if m == nil {
				continue
			}
			ai := w.acctIdxJunk(m.Account, adb)
			if ai < 0 {
				o.bad = "account outside the universe: " + common.ToHex(m.Account)
			}
			if int(m.Type) != k || !bytes.Equal(m.Id, id) {
				o.bad = fmt.Sprintf("record under kind %d id %s carries type %d id %s", k, common.ToHex(id), m.Type, common.ToHex(m.Id))
			}
			o.miners = append(o.miners, mrec{k, i + 1, m.ApplyHeight, m.Stake, ai, int(m.Status)})
		}
	}
	for _, a := range w.addrU {
		o.bals = append(o.bals, adb.GetBalance(w.address(a)))
	}
	for _, id := range w.ids {
		g := 0
		if m := service.MinerManagerImpl.GetMiner(id, adb); m != nil {
			g = int(m.Type) + 1
		}
		o.gm = append(o.gm, g)
	}
	return o
}

func (w *world) observe() ostate {
	o := w.observeReg(w.ADB)
	for _, h := range w.sortedHeights() {
		m := escrowOf(w.ADB, h)
		for a := range m {
			if w.addrIdx(a) < 0 {
				o.bad = "escrow beneficiary outside the universe: " + a.GetHexString()
			}
		}
		for _, a := range w.addrU {
			if v, ok := m[w.address(a)]; ok {
				o.esc = append(o.esc, escEntry{h, a, v})
			}
		}
	}
	return o
}

func (w *world) observeMid(adb *account.AccountDB) midobs {
	mo := midobs{ostate: w.observeReg(adb)}
	for ai := 0; ai <= len(w.accts); ai++ {
		got := service.MinerManagerImpl.GetMinerIdByAccount(w.acctBytes(ai), adb)
		gi := 0
		if got != nil {
			gi = w.idIdx(got)
		}
		mo.byAcct = append(mo.byAcct, gi)
	}
	for k := 0; k <= 1; k++ {
		for _, m := range service.VerifC20Iterate(byte(k), adb) {
			mo.iter[k] = append(mo.iter[k], w.idIdx(m.Id))
		}
	}
	return mo
}

func (o ostate) total() *big.Int {
	s := new(big.Int)
	for _, b := range o.bals {
		s.Add(s, b)
	}
	for _, m := range o.miners {
		s.Add(s, tokens(m.Stake))
	}
	for _, e := range o.esc {
		s.Add(s, e.V)
	}
	return s
}

func minersCoq(ms []mrec) string {
	var out []string
	for _, m := range ms {
		out = append(out, fmt.Sprintf("(%d%%N,%d%%N,%d%%N,%d%%N,%d%%N,%d%%N)", m.K, m.I, m.Apply, m.Stake, m.Acct, m.Stat))
	}
	return hx.CoqList(out)
}

func (w *world) balsCoq(bs []*big.Int) string {
	var out []string
	for i, b := range bs {
		out = append(out, fmt.Sprintf("(%d%%N,%s)", w.addrU[i], hx.CoqZ(b.String())))
	}
	return hx.CoqList(out)
}

func optIds(xs []int) string {
	out := make([]string, len(xs))
	for i, x := range xs {
		if x == 0 {
			out[i] = "None"
		} else {
			out[i] = fmt.Sprintf("Some %d%%N", x)
		}
	}
	return hx.CoqList(out)
}

func (w *world) stateCoq(o ostate) string {
	var es []string
	for _, e := range o.esc {
		es = append(es, fmt.Sprintf("(%d%%N,%d%%N,%s)", e.H, e.A, hx.CoqZ(e.V.String())))
	}
	return "(OS " + minersCoq(o.miners) + " " + w.balsCoq(o.bals) + " " + hx.CoqList(es) + ")"
}

func (o ostate) js() map[string]interface{} {
	var ms, es []string
	for _, m := range o.miners {
		ms = append(ms, fmt.Sprintf("k%d/id%d/apply%d/stake%d/acct%d/stat%d", m.K, m.I, m.Apply, m.Stake, m.Acct, m.Stat))
	}
	var bs []string
	for _, b := range o.bals {
		bs = append(bs, b.String())
	}
	for _, e := range o.esc {
		es = append(es, fmt.Sprintf("h%d/addr%d/%s", e.H, e.A, e.V.String()))
	}
	return map[string]interface{}{"miners": ms, "balances": bs, "escrow": es}
}

func (o ostate) find(k, i int) *mrec {
	for x := range o.miners {
		if o.miners[x].K == k && o.miners[x].I == i {
			return &o.miners[x]
		}
	}
	return nil
}

// getMiner mirrors MinerManager.GetMiner (proposer first) on an observed state
func (o ostate) getMiner(i int) *mrec {
	if m := o.find(1, i); m != nil {
		return m
	}
	return o.find(0, i)
}

func (o ostate) holders(a int) []mrec {
	var res []mrec
	for _, m := range o.miners {
		if m.Acct == a {
			res = append(res, m)
		}
	}
	return res
}

// ---- generated transactions ----
type gtx struct {
	kind  string // apply | add | refund | change | opnode
	src   int
	tx    *types.Transaction
	term  string
	desc  map[string]interface{}
	id    int    // model id index (0 when not applicable)
	stake uint64 // apply stake / add delta
	amt   string // refund amount
	acct  int    // apply / change account index as sent (0 = empty)
}

func (w *world) srcHex(s int) string { return w.address(s).GetHexString() }

func (w *world) acctBytes(a int) []byte {
	if a == 0 {
		return nil
	}
	return w.accts[a-1]
}

func (w *world) pickSender(r *hx.Rng) int {
	switch k := r.Intn(10); {
	case k < 4:
		return w.senders[0]
	case k < 7:
		return w.senders[1]
	case k < 9:
		return w.senders[2]
	default:
		return w.senders[3]
	}
}

func (w *world) pickId(r *hx.Rng, pre ostate, registered bool) int {
	var cand []int
	for i := range w.ids {
		if (pre.getMiner(i+1) != nil) == registered {
			cand = append(cand, i+1)
		}
	}
	if len(cand) == 0 || r.Intn(6) == 0 {
		return 1 + r.Intn(len(w.ids))
	}
	return cand[r.Intn(len(cand))]
}

// pickHeld returns (id, sender) of a registered miner whose account is a sender, if there is one
func (w *world) pickHeld(r *hx.Rng, pre ostate) (int, int) {
	var cand []mrec
	for _, m := range pre.miners {
		for _, s := range w.actors {
			if m.Acct == s {
				cand = append(cand, m)
				if w.isContract(s) { // contract-owned miners are rarer: weigh them up
					cand = append(cand, m, m)
				}
			}
		}
	}
	if len(cand) == 0 {
		return 0, 0
	}
	m := cand[r.Intn(len(cand))]
	return m.I, m.Acct
}

func (w *world) pickAcct(r *hx.Rng) int {
	return r.Intn(len(w.accts) + 1) // 0 = empty
}

func optN(ok bool, v uint64) string {
	if !ok {
		return "None"
	}
	return fmt.Sprintf("(Some %d%%N)", v)
}

func (w *world) genApply(r *hx.Rng, pre ostate, src int, id int, acct int) gtx {
	typ := r.Intn(2)
	if r.Intn(14) == 0 {
		typ = 2 + r.Intn(2)
	}
	var stake uint64
	switch k := r.Intn(10); {
	case k < 6:
		stake = []uint64{400, 2000}[typ&1] + []uint64{0, 0, 1, 400, 800, 2100}[r.Intn(6)]
	case k < 7:
		stake = []uint64{399, 1999}[typ&1]
	default:
		stake = []uint64{0, 1, 400, 2000, 100000, 4000}[r.Intn(6)]
	}
	keysOK := r.Intn(14) != 0
	m := types.Miner{Id: w.ids[id-1], PublicKey: []byte{1, 2}, VrfPublicKey: []byte{3}, Type: byte(typ), Stake: stake, Account: w.acctBytes(acct)}
	if !keysOK {
		if r.Bool() {
			m.PublicKey = nil
		} else {
			m.VrfPublicKey = []byte{0, 0}
		}
	}
	md, _ := json.Marshal(m)
	jsonOK := true
	data := string(md)
	if r.Intn(25) == 0 {
		data, jsonOK = data[:len(data)/2], false
	}
	tx := newTx(types.TransactionTypeMinerApply, w.srcHex(src), data)
	return gtx{kind: "apply", src: src, tx: tx, id: id, stake: stake, acct: acct,
		term: fmt.Sprintf("TApply %d%%N %s %d%%N %d%%N %d%%N %d%%N %s", src, hx.CoqBool(jsonOK), typ, id, stake, acct, hx.CoqBool(keysOK)),
		desc: map[string]interface{}{"tx": "apply", "src": src, "type": typ, "id": id, "stake": stake, "account": acct, "keys": keysOK, "json": jsonOK}}
}

func (w *world) generate(r *hx.Rng, pre ostate) gtx {
	src := w.pickSender(r)
	switch k := r.Intn(100); {
	case k < 30:
		id := w.pickId(r, pre, false)
		acct := 0
		switch q := r.Intn(10); {
		case q < 5:
		case q < 6:
			acct = src
		default:
			acct = 2 + r.Intn(len(w.accts)-1)
		}
		return w.genApply(r, pre, src, id, acct)
	case k < 45:
		id := w.pickId(r, pre, true)
		delta := []uint64{0, 1, 100, 400, 1601, 5000, 999999, 37}[r.Intn(8)]
		// top-ups around the minimum stake (an aborted miner turns normal only ABOVE the minimum)
		var low []mrec
		for _, m := range pre.miners {
			if m.Stake <= []uint64{400, 2000}[m.K] {
				low = append(low, m)
			}
		}
		if len(low) > 0 && r.Intn(2) == 0 {
			m := low[r.Intn(len(low))]
			id = m.I
			gap := []uint64{400, 2000}[m.K] - m.Stake
			delta = gap + uint64(r.Intn(3))
			if delta > 0 && r.Intn(3) == 0 {
				delta--
			}
		}
		md, _ := json.Marshal(types.Miner{Id: w.ids[id-1], Stake: delta})
		jsonOK := true
		data := string(md)
		if r.Intn(25) == 0 {
			data, jsonOK = "{"+data, false
		}
		tx := newTx(types.TransactionTypeMinerAdd, w.srcHex(src), data)
		return gtx{kind: "add", src: src, tx: tx, id: id, stake: delta,
			term: fmt.Sprintf("TAdd %d%%N %s %d%%N %d%%N", src, hx.CoqBool(jsonOK), id, delta),
			desc: map[string]interface{}{"tx": "add", "src": src, "id": id, "delta": delta, "json": jsonOK}}
	case k < 72:
		id := w.pickId(r, pre, true)
		if hid, _ := w.pickHeld(r, pre); hid != 0 && r.Intn(4) > 0 {
			id = hid
		}
		var stake uint64
		minS := uint64(400)
		if m := pre.getMiner(id); m != nil {
			stake = m.Stake
			if m.K == 1 {
				minS = 2000
			}
			// let the holder ask, most of the time
			if r.Intn(5) > 0 {
				for _, s := range w.actors {
					if s == m.Acct {
						src = s
					}
				}
			}
		}
		amts := []string{"0", "1", "100", "400", "399", "2000", "18446744073709551615", "99999", "abc", "-1", "1.5", "18446744073709551616", ""}
		amt := amts[r.Intn(len(amts))]
		switch r.Intn(8) {
		case 6:
			amt = strconv.FormatUint(stake+1, 10) // one more than the stake
		case 7:
			if stake > 0 {
				amt = strconv.FormatUint(stake-1, 10)
			}
		case 0:
			amt = strconv.FormatUint(stake, 10)
		case 1:
			if stake >= minS {
				amt = strconv.FormatUint(stake-minS, 10)
			}
		case 2:
			if stake >= minS {
				amt = strconv.FormatUint(stake-minS+1, 10)
			}
		}
		data, _ := json.Marshal(map[string]string{"Amount": amt, "MinerId": common.ToHex(w.ids[id-1])})
		jsonOK := true
		ds := string(data)
		if r.Intn(25) == 0 {
			ds, jsonOK = ds[1:], false
		}
		tx := newTx(types.TransactionTypeMinerRefund, w.srcHex(src), ds)
		val, perr := strconv.ParseUint(amt, 10, 64)
		return gtx{kind: "refund", src: src, tx: tx, id: id, amt: amt,
			term: fmt.Sprintf("TRefund %d%%N %s %s %d%%N", src, hx.CoqBool(jsonOK), optN(perr == nil, val), id),
			desc: map[string]interface{}{"tx": "refund", "src": src, "id": id, "amount": amt, "json": jsonOK}}
	case k < 88:
		id := w.pickId(r, pre, true)
		if hid, _ := w.pickHeld(r, pre); hid != 0 && r.Intn(4) > 0 {
			id = hid
		}
		if m := pre.getMiner(id); m != nil && r.Intn(5) > 0 {
			for _, s := range w.actors {
				if s == m.Acct {
					src = s
				}
			}
		}
		acct := w.pickAcct(r)
		md, _ := json.Marshal(types.Miner{Id: w.ids[id-1], Account: w.acctBytes(acct)})
		jsonOK := true
		data := string(md)
		if r.Intn(25) == 0 {
			data, jsonOK = data+"}", false
		}
		tx := newTx(types.TransactionTypeMinerChangeAccount, w.srcHex(src), data)
		return gtx{kind: "change", src: src, tx: tx, id: id, acct: acct,
			term: fmt.Sprintf("TChange %d%%N %s %d%%N %d%%N", src, hx.CoqBool(jsonOK), id, acct),
			desc: map[string]interface{}{"tx": "change", "src": src, "id": id, "account": acct, "json": jsonOK}}
	default:
		// prefer a sender that holds a miner
		if _, hs := w.pickHeld(r, pre); hs != 0 && indexOf(w.senders, hs) >= 0 && r.Intn(4) > 0 {
			src = hs
		}
		tx := newTx(types.TransactionTypeOperatorNode, w.srcHex(src), "")
		evm := "None"
		if w.mnCode {
			evm = fmt.Sprintf("(Some %d%%N)", w.ncOf[src])
		}
		return gtx{kind: "opnode", src: src, tx: tx,
			term: fmt.Sprintf("TOpNode %d%%N %s", src, evm),
			desc: map[string]interface{}{"tx": "opnode", "src": src, "mainNodeDeployed": w.mnCode, "reports": w.ncOf[src]}}
	}
}

// ---- result classes ----
var resNames = []string{"ok", "evict", "json", "type", "min-stake", "keys", "balance", "id-exists", "acct-exists", "no-miner", "auth", "stake", "same", "evm", "parse"}

func classify(kind string, rc *types.Receipt) int {
	if rc == nil {
		return 1
	}
	if rc.Status == 1 {
		return 0
	}
	m := rc.Msg
	has := func(s string) bool { return strings.Contains(m, s) }
	switch {
	case has("json Unmarshal error"):
		return 2
	case kind == "refund" && has("fail to refund") && has(",err: "):
		return 2
	case has("miner type error"):
		return 3
	case has("not enough stake, minerId"):
		return 4
	case has("VrfPublicKey or PublicKey is empty"):
		return 5
	case has("not enough max") && !has("stake:"):
		return 1 // ProcessFee refused in BeforeExecute: nothing is charged, the receipt records the failure
	case has("not enough max"), has("not enough balance"), has("not enough rpg"):
		return 6
	case has("miner is existed"):
		return 7
	case has("miner account is existed"), has("cannot use account"):
		return 8
	case has("miner is not existed"), has("miner not existed"), has("fail to getMiner"):
		return 9
	case has("auth error"), has("fail to auth"):
		return 10
	case has("err: not enough stake"):
		return 11
	case has("no need to change"):
		return 12
	case has("fail to call create2"):
		return 13
	case kind == "refund" && has("fail to refund"):
		return 14
	}
	return 99
}

func main() {
	a := hx.ParseArgs()
	rng := hx.NewRng(a.Seed)
	res := hx.NewResult("a block is non-trivial when at least one of its transactions passed the fee step and reached the registry checks of its executor (result other than evict/json); distinct = distinct (transaction kinds, result classes, registry size before, escrow credited or not)")
	cs := hx.NewCases(a.Out, "From V.C20 Require Import Model KeyModel Harness.", "case", "check", 60)
	litCases = hx.NewCasesNamed(a.Out, "lit", "From V.C20 Require Import Model KeyModel Harness.", "lcase", "check_lit", 12)
	litLeft = 5
	if a.Tier == "thorough" {
		litLeft = 60
	}
	boot(20)

	blocksPerWorld := 45
	var w *world
	worlds := 0
	for i := 0; i < a.N; i++ {
		if w == nil || w.blocks >= blocksPerWorld {
			worlds++
			// world families in turn: main chain, sub chain, before proposal002/003, before every proposal
			w = newWorldCfg(rng, worlds%4 == 2, map[int]int{3: 1, 0: 2}[worlds%4])
		}
		w.step(rng, res, cs)
	}
	aliasSearch(rng, res, cs)
	switchNotes(res)
	cs.Close()
	litCases.Close()
	res.ModelCases = cs.Total() + litCases.Total()
	res.Write(a.Out)
	fmt.Printf("c20: %d evaluations, %d model cases, %d distinct non-trivial\n", res.Evaluations, cs.Total(), res.DistinctNontrivial)
	keys := make([]string, 0, len(res.Histogram))
	for k := range res.Histogram {
		keys = append(keys, k)
	}
	sort.Strings(keys)
	for _, k := range keys {
		fmt.Printf("  %6d  %s\n", res.Histogram[k], k)
	}
}

func nlist(xs []int) string {
	ss := make([]string, len(xs))
	for i, x := range xs {
		ss[i] = fmt.Sprintf("%d%%N", x)
	}
	return hx.CoqList(ss)
}

func (w *world) nextHeight(r *hx.Rng) uint64 {
	var next uint64
	for _, h := range w.sortedHeights() {
		if h > w.h {
			next = h
			break
		}
	}
	if next != 0 && (next <= w.h+3 || r.Intn(5) == 0) {
		return next
	}
	return w.h + 1 + uint64(r.Intn(3))
}

// envCoq: the constant part of a case: ids, storage keys, SHA-256 table, account tables.
// Keys are INTERNED: every distinct real key byte string (the id bytes and their SHA-256 chains, computed with the
// node's common.Sha256) gets a small number; two model keys are equal iff the real key bytes are equal. The table
// interned number -> real bytes travels with the case's JSON description (cases.jsonl).
// envLit: the same with LITERAL key bytes (0x01 followed by the bytes, as a number) and no hash table: the model
// computes the SHA-256 chains itself (coq/C20/Sha256.v); second result = the chains common.Sha256 produced.
func (w *world) envLit() (string, string) {
	ids := make([]int, len(w.ids))
	var ik, ch []string
	for i, id := range w.ids {
		ids[i] = i + 1
		ik = append(ik, fmt.Sprintf("(%d%%N,%s)", i+1, keyN(id)))
		x := id
		for n := 0; n < 7; n++ {
			y := common.Sha256(x)
			ch = append(ch, fmt.Sprintf("(%s,%s)", keyN(x), keyN(y)))
			x = y
		}
	}
	var au, ad []string
	accts := make([]int, len(w.accts))
	for i, a := range w.accts {
		accts[i] = i + 1
		var u uint64
		if len(a) >= 8 {
			u = binary.BigEndian.Uint64(a[:8])
		}
		au = append(au, fmt.Sprintf("(%d%%N,%d%%N)", i+1, u))
		ad = append(ad, fmt.Sprintf("(%d%%N,%d%%N)", i+1, w.addrOf[i+1]))
	}
	return fmt.Sprintf("%s %s %s [] %s %s %s %s %s", w.gatesCoq(), nlist(ids), hx.CoqList(ik), hx.CoqList(au), hx.CoqList(ad),
		nlist(w.contracts), nlist(accts), nlist(w.addrU)), hx.CoqList(ch)
}

var litCases *hx.Cases
var litLeft int

func (w *world) addLit(rest string, js interface{}) {
	env, chain := w.envLit()
	litCases.Add(fmt.Sprintf("CSL (CS %s %s) %s", env, rest, chain), js)
}

func (w *world) gatesCoq() string {
	switch w.Regime {
	case 1:
		return "(GT false false true true true)"
	case 2:
		return "(GT false false false false false)"
	}
	return "(GT true true true true true)"
}

func (w *world) fee() *big.Int {
	if w.Regime == 2 {
		return wei("0.0001")
	}
	return feeWei
}

func (w *world) envCoq() string {
	ids := make([]int, len(w.ids))
	intern := map[string]int{}
	var kb []string
	in := func(b []byte) int {
		if n, ok := intern[string(b)]; ok {
			return n
		}
		n := len(intern) + 1
		intern[string(b)] = n
		kb = append(kb, fmt.Sprintf("%d=%s", n, common.ToHex(b)))
		return n
	}
	var ik, ht []string
	seen := map[int]bool{}
	for i, id := range w.ids {
		ids[i] = i + 1
		ik = append(ik, fmt.Sprintf("(%d%%N,%d%%N)", i+1, in(id)))
		x := id
		for n := 0; n < 7; n++ {
			y := common.Sha256(x)
			if !seen[in(x)] {
				seen[in(x)] = true
				ht = append(ht, fmt.Sprintf("(%d%%N,%d%%N)", in(x), in(y)))
			}
			x = y
		}
	}
	var au, ad []string
	accts := make([]int, len(w.accts))
	for i, a := range w.accts {
		accts[i] = i + 1
		var u uint64
		if len(a) >= 8 {
			u = binary.BigEndian.Uint64(a[:8])
		}
		au = append(au, fmt.Sprintf("(%d%%N,%d%%N)", i+1, u))
		ad = append(ad, fmt.Sprintf("(%d%%N,%d%%N)", i+1, w.addrOf[i+1]))
	}
	w.keyBytes = kb
	return fmt.Sprintf("%s %s %s %s %s %s %s %s %s", w.gatesCoq(), nlist(ids), hx.CoqList(ik), hx.CoqList(ht), hx.CoqList(au), hx.CoqList(ad),
		nlist(w.contracts), nlist(accts), nlist(w.addrU))
}

// keyN: key bytes as a Coq N: 0x01 followed by the bytes, big-endian
func keyN(b []byte) string {
	return new(big.Int).SetBytes(append([]byte{1}, b...)).String() + "%N"
}

type blockRun struct {
	term    string
	post    ostate
	codes   []int
	classes []string
	mids    []midobs
	panicked string
	rewards []escEntry
}

// runCaseBlock executes one block (real loop, probes after every transaction, real after(), boundary), evaluates the
// property on the implementation and returns the block's model term.
func (w *world) runCaseBlock(r *hx.Rng, res *hx.Result, h uint64, g []gtx, castor int, members []int, pre ostate, input map[string]interface{}) blockRun {
	var br blockRun
	txs := make([]*types.Transaction, len(g))
	for i := range g {
		txs[i] = g[i].tx
	}
	// (the caller has put h+36000 and, with a group, the reward height into w.heights before observing pre)
	rh := ((h + 35999) / 36000) * 36000
	var groupId []byte
	if members != nil {
		groupId = []byte{0x67, byte(w.blocks), byte(h)}
		var ms [][]byte
		for _, m := range members {
			ms = append(ms, w.ids[m-1])
		}
		groups[string(groupId)] = &types.Group{Id: groupId, Members: ms}
		putGroup(&types.Group{Id: groupId, Members: ms})
	}
	if w.Sub {
		// sub chain: after() pays rewards through the economy / RPG-reward contracts (calcSubReward: two EVM calls, no code
		// at those addresses in this world) instead of the reward table: nothing is scheduled by the block
		members = nil
	}
	br.mids = make([]midobs, len(g))
	var rcs []*types.Receipt
	func() {
		defer func() {
			if x := recover(); x != nil {
				br.panicked = fmt.Sprint(x)
				if os.Getenv("C20_DEBUG") != "" {
					fmt.Println(string(debug.Stack()))
				}
			}
		}()
		rcs = runBlock(w.nodeWorld, h, w.ids[castor-1], groupId, txs, func(i int, adb *account.AccountDB) { br.mids[i] = w.observeMid(adb) })
		w.boundary()
	}()
	if br.panicked != "" {
		return br
	}
	byHash := map[common.Hash]*types.Receipt{}
	for _, rc := range rcs {
		byHash[rc.TxHash] = rc
	}
	br.codes = make([]int, len(g))
	var kinds []string
	for i := range g {
		br.codes[i] = classify(g[i].kind, byHash[g[i].tx.Hash])
		name := "unclassified"
		if br.codes[i] < len(resNames) {
			name = resNames[br.codes[i]]
		} else {
			res.Violate("C20/harness:unclassified-message", "receipt message not classified: "+byHash[g[i].tx.Hash].Msg, input)
		}
		kinds = append(kinds, g[i].kind)
		br.classes = append(br.classes, g[i].kind+":"+name)
		res.Histogram["tx "+g[i].kind+":"+name]++
	}
	input["results"] = br.classes
	post := w.observe()
	br.post = post
	input["after"] = post.js()
	bad := pre.bad + post.bad
	for _, m := range br.mids {
		bad += m.bad
	}
	if bad != "" {
		res.Violate("C20/universe:escaped", "state left the closed universe: "+bad, input)
		br.panicked = "universe"
		return br
	}
	codes := br.codes

	// ---- (a) the property on the implementation, transaction by transaction ----
	prev := midobs{ostate: pre}
	havePrev := false // by-account / iterator views before the first transaction are those of the boundary
	burnedNow := new(big.Int)
	for i := range g {
		cur := br.mids[i]
		tag := fmt.Sprintf("tx %d (%s)", i, br.classes[i])
		// a rejected transaction changes nothing but the fee
		if codes[i] != 0 {
			exp := cloneState(prev.ostate)
			exp.esc = nil
			if codes[i] != 1 {
				si := indexOf(w.addrU, g[i].src)
				exp.bals[si] = new(big.Int).Sub(exp.bals[si], w.fee())
				fi := indexOf(w.addrU, 1)
				exp.bals[fi] = new(big.Int).Add(exp.bals[fi], w.fee())
				if w.Regime > 0 && g[i].kind == "opnode" && (codes[i] == 9 || codes[i] == 13) {
					// before proposal002 balance writes are not journalled: the 10-token charge survives the revert
					exp.bals[si] = new(big.Int).Sub(exp.bals[si], tenTok)
					burnedNow.Add(burnedNow, tenTok)
					res.Violate("C20/rejected-noop:pre-proposal002:operator-node-charge-not-reverted", tag+" was rejected, its 10-token charge is not undone (SubFT wrote through the unjournalled setData before proposal002)", input)
				}
			}
			got := cloneState(cur.ostate)
			got.esc = nil
			if d := diffState(exp, got); d != "" {
				res.Violate("C20/rejected-noop:"+br.classes[i], tag+" was rejected and changed more than the fee: "+d, input)
			}
			if havePrev && (fmt.Sprint(prev.byAcct) != fmt.Sprint(cur.byAcct) || fmt.Sprint(prev.iter) != fmt.Sprint(cur.iter)) {
				res.Violate("C20/rejected-noop:"+br.classes[i], tag+" was rejected and changed what GetMinerIdByAccount / the iterator return", input)
			}
		}
		// ghost ledger: stake = applied + added - refunded
		if codes[i] == 0 {
			key := ""
			if g[i].id > 0 {
				key = string(w.ids[g[i].id-1])
			}
			switch g[i].kind {
			case "apply":
				w.ghost[key] = int64(g[i].stake)
			case "add":
				w.ghost[key] += int64(g[i].stake)
			case "refund":
				v, _ := strconv.ParseUint(g[i].amt, 10, 64)
				if v == ^uint64(0) {
					w.ghost[key] = 0
				} else {
					w.ghost[key] -= int64(v)
				}
			case "opnode":
				burnedNow.Add(burnedNow, tenTok)
			}
		}
		for j, id := range w.ids {
			m := cur.getMiner(j + 1)
			var got int64
			if m != nil {
				got = int64(m.Stake)
			}
			if want := w.ghost[string(id)]; got != want {
				res.Violate("C20/stake-accounting:"+g[i].kind, fmt.Sprintf("after %s id %d: registry stake %d, applied+added-refunded %d", tag, j+1, got, want), input)
				w.ghost[string(id)] = got
			}
			wantGm := 0
			if cur.find(1, j+1) != nil {
				wantGm = 2
			} else if cur.find(0, j+1) != nil {
				wantGm = 1
			}
			if cur.gm[j] != wantGm {
				res.Violate("C20/views-agree:typeless-getminer", fmt.Sprintf("after %s GetMiner(id %d) without a type answers %d (0 nil, 1 validator, 2 proposer); the typed lookups give %d", tag, j+1, cur.gm[j], wantGm), input)
			}
			if cur.find(0, j+1) != nil && cur.find(1, j+1) != nil {
				res.Violate("C20/views-agree:id-in-both-registries", fmt.Sprintf("after %s id %d is registered as validator and as proposer", tag, j+1), input)
			}
		}
		// the three lookup paths inside the block
		for _, m := range cur.miners {
			if indexOf(cur.iter[m.K], m.I) < 0 {
				res.Violate("C20/views-agree:mid-block-iterator-misses-dirty", fmt.Sprintf("after %s GetMinerById finds id %d of kind %d, the iterator does not yield it", tag, m.I, m.K), input)
			}
			if m.Acct >= 0 && m.Acct <= len(w.accts) {
				ok := false
				if bi := cur.byAcct[m.Acct]; bi != 0 {
					for _, hm := range cur.holders(m.Acct) {
						if hm.I == bi {
							ok = true
						}
					}
				}
				if !ok && len(cur.holders(m.Acct)) == 1 {
					key := "C20/views-agree:mid-block-by-account-wrong" // the iterator yields the miner: not the unflushed-write case
					if indexOf(cur.iter[m.K], m.I) < 0 {
						key = "C20/views-agree:mid-block-iterator-misses-dirty"
					} else if bi := cur.byAcct[m.Acct]; bi > 0 && cur.getMiner(bi) == nil {
						// the answer is a miner removed in this block whose json entry the unflushed trie still holds
						// (its account reads as empty): the other known face of the two-level view
						key = "C20/views-agree:mid-block-iterator-yields-removed"
					}
					res.Violate(key, fmt.Sprintf("after %s id %d carries account %d but GetMinerIdByAccount(account %d) = id %d", tag, m.I, m.Acct, m.Acct, cur.byAcct[m.Acct]), input)
				}
			}
		}
		for k := 0; k <= 1; k++ {
			for _, it := range cur.iter[k] {
				if cur.find(k, it) == nil {
					res.Violate("C20/views-agree:mid-block-iterator-yields-removed", fmt.Sprintf("after %s the kind-%d iterator yields id %d which GetMinerById no longer finds", tag, k, it), input)
				}
			}
		}
		// an account controls at most one miner
		for ai := 0; ai <= len(w.accts); ai++ {
			hp, hq := prev.holders(ai), cur.holders(ai)
			if len(hq) > 1 && len(hq) > len(hp) {
				key := "C20/account-unique:other"
				eff := g[i].acct
				if g[i].kind == "apply" && eff == 0 {
					eff = g[i].src
				}
				switch {
				case g[i].kind == "opnode":
					key = "C20/account-unique:operator-node-no-target-check"
				case (g[i].kind == "apply" || g[i].kind == "change") && eff == ai && indexOf(cur.iter[hp0(hp).K], hp0(hp).I) < 0:
					key = "C20/account-unique:same-block-iterator-misses-dirty"
				}
				res.Violate(key, fmt.Sprintf("after %s account %d controls %d miners (%d before)", tag, ai, len(hq), len(hp)), input)
			}
		}
		prev, havePrev = cur, true
	}
	// conservation over the block: liquid + locked + scheduled (+ operator-node charge) - rewards minted
	minted := new(big.Int)
	if members != nil {
		for _, e := range post.esc {
			if e.H != rh {
				continue
			}
			d := new(big.Int).Set(e.V)
			for _, p := range pre.esc {
				if p.H == rh && p.A == e.A {
					d.Sub(d, p.V)
				}
			}
			if d.Sign() != 0 {
				br.rewards = append(br.rewards, escEntry{rh, e.A, d})
				minted.Add(minted, d)
			}
		}
	}
	d := new(big.Int).Sub(new(big.Int).Add(post.total(), burnedNow), pre.total())
	d.Sub(d, minted)
	if d.Sign() != 0 {
		res.Violate("C20/conservation:"+strings.Join(uniq(br.classes), "+"), "liquid + locked + scheduled changed by "+d.String()+" wei beyond the scheduled rewards", input)
	}
	if minted.Sign() < 0 {
		res.Violate("C20/conservation:reward-negative", "the escrow at the reward height shrank", input)
	}
	// the boundary: registry after the flush = registry the last probe saw
	if len(g) > 0 {
		last := cloneState(br.mids[len(g)-1].ostate)
		pc := cloneState(post)
		last.esc, pc.esc, last.bals, pc.bals = nil, nil, nil, nil
		if dd := diffState(last, pc); dd != "" {
			res.Violate("C20/views-agree:flush-changed-registry", "the registry read after the boundary differs from the registry after the last transaction: "+dd, input)
		}
	}
	views, vdesc := w.viewsCheck(post, res, input, h, r)
	input["views"] = vdesc

	// ---- (b) the block's model term ----
	var terms, obs, rws []string
	for i := range g {
		terms = append(terms, "("+g[i].term+")")
		m := br.mids[i]
		obs = append(obs, fmt.Sprintf("TO %d%%N %s %s %s %s %s %s", codes[i], minersCoq(m.miners), optIds(m.byAcct), nlist(m.iter[0]), nlist(m.iter[1]), w.balsCoq(m.bals), nlist(m.gm)))
	}
	for _, e := range br.rewards {
		rws = append(rws, fmt.Sprintf("(%d%%N,%d%%N,%s)", e.H, e.A, hx.CoqZ(e.V.String())))
	}
	rinfo := "None"
	if members != nil {
		rinfo = fmt.Sprintf("(Some (%d%%N, %s, %s))", castor, nlist(members), hx.CoqZ(strconv.FormatUint(common.GetBlocksPerEpoch(), 10)))
		input["reward"] = map[string]interface{}{"castor": castor, "members": members, "height": rh, "minted": minted.String()}
	}
	br.term = fmt.Sprintf("BK %d%%N %s %s %s %s %s %s", h, hx.CoqList(terms), hx.CoqList(obs), hx.CoqList(rws), rinfo, w.stateCoq(post), views)
	return br
}

func hp0(h []mrec) mrec {
	if len(h) == 0 {
		return mrec{K: 0, I: -1}
	}
	return h[0]
}

func indexOf(xs []int, x int) int {
	for i, y := range xs {
		if y == x {
			return i
		}
	}
	return -1
}

func (w *world) heightsCoq() string {
	var hs []string
	for _, x := range w.sortedHeights() {
		hs = append(hs, fmt.Sprintf("%d%%N", x))
	}
	return hx.CoqList(hs)
}

func (w *world) step(r *hx.Rng, res *hx.Result, cs *hx.Cases) {
	w.blocks++
	w.h = w.nextHeight(r)
	h := w.h
	rh := ((h + 35999) / 36000) * 36000
	withGroup := r.Intn(4) == 0 && rh != h // a block with a verifying group: rewards are scheduled at rh
	w.heights[h+refundDelay] = true
	if w.Regime == 2 { // the refund heights of the rule before proposal012 / proposal004
		w.heights[0] = true
		w.heights[((h+35999)/36000)*36000+50] = true
	}
	if withGroup {
		w.heights[rh] = true
	}
	pre := w.observe()

	// the block
	n := []int{1, 1, 1, 2, 2, 2, 3, 3, 4, 5}[r.Intn(10)]
	var g []gtx
	if r.Intn(12) == 0 {
		// two registrations naming one account in one block (different ids), by apply or change-account
		src := w.senders[r.Intn(2)]
		acct := []int{0, src, 6, 7, 8}[r.Intn(5)]
		id1 := w.pickId(r, pre, false)
		id2 := w.pickId(r, pre, false)
		g = append(g, w.genApply(r, pre, src, id1, acct), w.genApply(r, pre, w.senders[r.Intn(2)], id2, func() int {
			if acct == 0 {
				return src
			}
			return acct
		}()))
		n -= 2
	}
	if r.Intn(15) == 0 {
		// every sender that holds a miner asks for a refund in the same block
		for _, m := range pre.miners {
			for _, sdr := range w.actors {
				if m.Acct == sdr {
					amt := []string{"1", "18446744073709551615", strconv.FormatUint(m.Stake/2, 10), "18446744073709551615"}[r.Intn(4)]
					data, _ := json.Marshal(map[string]string{"Amount": amt, "MinerId": common.ToHex(w.ids[m.I-1])})
					val, _ := strconv.ParseUint(amt, 10, 64)
					g = append(g, gtx{kind: "refund", src: sdr, tx: newTx(types.TransactionTypeMinerRefund, w.srcHex(sdr), string(data)), id: m.I, amt: amt,
						term: fmt.Sprintf("TRefund %d%%N true %s %d%%N", sdr, optN(true, val), m.I),
						desc: map[string]interface{}{"tx": "refund", "src": sdr, "id": m.I, "amount": amt, "json": true}})
				}
			}
		}
	}
	for i := 0; i < n; i++ {
		g = append(g, w.generate(r, pre))
	}
	blockDesc := make([]interface{}, len(g))
	for i := range g {
		blockDesc[i] = g[i].desc
	}
	input := map[string]interface{}{"height": h, "txs": blockDesc, "before": pre.js(), "ids": len(w.ids), "contracts": w.contracts}
	castor := 1 + r.Intn(len(w.ids))
	var members []int
	if withGroup {
		for i := range w.ids {
			if r.Intn(2) == 0 {
				members = append(members, i+1)
			}
		}
		if members == nil {
			members = []int{}
		}
		// prefer a registered proposer as castor
		for _, m := range pre.miners {
			if m.K == 1 && r.Intn(2) == 0 {
				castor = m.I
			}
		}
	}
	// sibling: a second, different block on the same parent at the same height (a fork), built after the main one
	doSib := r.Intn(3) == 0
	parentRoot := w.Root
	ghost0 := map[string]int64{}
	for k, v := range w.ghost {
		ghost0[k] = v
	}
	if doSib {
		w.fixedQh = h + []uint64{300, 1000000, 301}[r.Intn(3)]
	}
	defer func() { w.fixedQh = 0 }()
	br := w.runCaseBlock(r, res, h, g, castor, members, pre, input)
	if br.panicked != "" {
		if br.panicked != "universe" {
			res.Violate("C20/total:panic", "executing the block panicked: "+br.panicked, input)
			res.Count("panic", "panic:"+br.panicked, true)
		}
		w.blocks = 1 << 30 // abandon the world
		return
	}
	envTerm := w.envCoq()
	input["keys"] = w.keyBytes
	cs.Add(fmt.Sprintf("CS %s %s %s %s", envTerm, w.heightsCoq(), w.stateCoq(pre), hx.CoqList([]string{"(" + br.term + ")"})), input)
	if litLeft > 0 && len(pre.miners) > 0 {
		litLeft--
		w.addLit(fmt.Sprintf("%s %s %s", w.heightsCoq(), w.stateCoq(pre), hx.CoqList([]string{"(" + br.term + ")"})), input)
	}

	if doSib {
		rootA := w.Root
		var gB []gtx
		for _, x := range g { // the same requests as fresh transactions
			y := x
			y.tx = newTx(x.tx.Type, x.tx.Source, x.tx.Data)
			gB = append(gB, y)
		}
		// ... plus one that changes the set of active proposers: a new proposer, or the refund of a whole proposer stake
		freeAcct := 0
		for a := 6; a <= len(w.accts); a++ {
			if len(pre.holders(a)) == 0 {
				freeAcct = a
				break
			}
		}
		xid := w.pickId(r, pre, false)
		xm := types.Miner{Id: w.ids[xid-1], PublicKey: []byte{1, 2}, VrfPublicKey: []byte{3}, Type: 1, Stake: 2000, Account: w.acctBytes(freeAcct)}
		xd, _ := json.Marshal(xm)
		extra := gtx{kind: "apply", src: w.senders[0], tx: newTx(types.TransactionTypeMinerApply, w.srcHex(w.senders[0]), string(xd)), id: xid, stake: 2000, acct: freeAcct,
			term: fmt.Sprintf("TApply %d%%N true 1%%N %d%%N 2000%%N %d%%N true", w.senders[0], xid, freeAcct),
			desc: map[string]interface{}{"tx": "apply", "src": w.senders[0], "type": 1, "id": xid, "stake": 2000, "account": freeAcct}}
		for _, m := range pre.miners {
			if m.K == 1 && m.Stat == 0 && indexOf(w.senders, m.Acct) >= 0 && r.Intn(2) == 0 {
				data, _ := json.Marshal(map[string]string{"Amount": "18446744073709551615", "MinerId": common.ToHex(w.ids[m.I-1])})
				extra = gtx{kind: "refund", src: m.Acct, tx: newTx(types.TransactionTypeMinerRefund, w.srcHex(m.Acct), string(data)), id: m.I, amt: "18446744073709551615",
					term: fmt.Sprintf("TRefund %d%%N true (Some 18446744073709551615%%N) %d%%N", m.Acct, m.I),
					desc: map[string]interface{}{"tx": "refund", "src": m.Acct, "id": m.I, "amount": "all"}}
			}
		}
		gB = append([]gtx{extra}, gB...)
		descB := make([]interface{}, len(gB))
		for i := range gB {
			descB[i] = gB[i].desc
		}
		inputB := map[string]interface{}{"height": h, "txs": descB, "before": pre.js(), "sibling-of": input["txs"]}
		mainNW, ghostA := w.nodeWorld, w.ghost
		sibADB, err := account.NewAccountDB(parentRoot, mainNW.TDB)
		if err != nil {
			panic(err)
		}
		w.nodeWorld = &nodeWorld{TDB: mainNW.TDB, ADB: sibADB, Root: parentRoot, Sub: mainNW.Sub, Regime: mainNW.Regime}
		w.ghost = ghost0
		brB := w.runCaseBlock(r, res, h, gB, castor, nil, pre, inputB)
		rootB := w.Root
		w.nodeWorld, w.ghost = mainNW, ghostA
		if brB.panicked == "" {
			envB := w.envCoq()
			inputB["keys"] = w.keyBytes
			cs.Add(fmt.Sprintf("CS %s %s %s %s", envB, w.heightsCoq(), w.stateCoq(pre), hx.CoqList([]string{"(" + brB.term + ")"})), inputB)
			res.Count("sibling block", fmt.Sprintf("sib|%s", strings.Join(brB.classes, ",")), true)
			inputB["rootA"], inputB["rootB"] = rootA.Hex(), rootB.Hex()
			w.purityCheck(res, rootA, rootB, w.fixedQh, inputB)
		} else if brB.panicked != "universe" {
			res.Violate("C20/total:panic", "executing the sibling block panicked: "+brB.panicked, inputB)
		}
	}

	reached := false
	var kinds []string
	for i := range g {
		kinds = append(kinds, g[i].kind)
		if br.codes[i] != 1 && br.codes[i] != 2 {
			reached = true
		}
	}
	credited := false
	for _, e := range pre.esc {
		if e.H == h {
			credited = true
		}
	}
	ident := fmt.Sprintf("%s|%v|n%d|c%v|r%d", strings.Join(br.classes, ","), kinds, len(pre.miners), credited, len(br.rewards))
	nb := len(g)
	if nb > 6 {
		nb = 6
	}
	if w.Sub {
		ident = "sub|" + ident
		res.Histogram["block on a sub-chain world"]++
	}
	if w.Regime > 0 {
		ident = fmt.Sprintf("regime%d|", w.Regime) + ident
		res.Histogram[fmt.Sprintf("block on a %s world", []string{"", "pre-proposal002/003", "pre-every-proposal"}[w.Regime])]++
	}
	res.Count("block["+strconv.Itoa(nb)+"]", ident, reached)
	if len(br.rewards) > 0 {
		res.Histogram["block with rewards"]++
	}
	if reached && len(pre.miners) > 0 {
		res.Sample(input)
	}
}

func uniq(xs []string) []string {
	seen := map[string]bool{}
	var out []string
	for _, x := range xs {
		if !seen[x] {
			seen[x] = true
			out = append(out, x)
		}
	}
	sort.Strings(out)
	return out
}

func cloneState(o ostate) ostate {
	c := ostate{miners: append([]mrec{}, o.miners...), esc: append([]escEntry{}, o.esc...)}
	for _, b := range o.bals {
		c.bals = append(c.bals, new(big.Int).Set(b))
	}
	return c
}

func diffState(a, b ostate) string {
	if len(a.miners) != len(b.miners) {
		return fmt.Sprintf("registry size %d vs %d", len(a.miners), len(b.miners))
	}
	for i := range a.miners {
		if a.miners[i] != b.miners[i] {
			return fmt.Sprintf("record %+v vs %+v", a.miners[i], b.miners[i])
		}
	}
	for i := range a.bals {
		if a.bals[i].Cmp(b.bals[i]) != 0 {
			return fmt.Sprintf("balance of account %d: %s vs %s", i+1, a.bals[i], b.bals[i])
		}
	}
	if len(a.esc) != len(b.esc) {
		return fmt.Sprintf("escrow entries %d vs %d", len(a.esc), len(b.esc))
	}
	for i := range a.esc {
		if a.esc[i].H != b.esc[i].H || a.esc[i].A != b.esc[i].A || a.esc[i].V.Cmp(b.esc[i].V) != 0 {
			return fmt.Sprintf("escrow entry %d differs", i)
		}
	}
	return ""
}

// viewsCheck reads the iterator-based entry points on the state after the boundary, checks them against the
// by-id view, and returns the Coq term of what they returned.
func (w *world) viewsCheck(post ostate, res *hx.Result, input map[string]interface{}, h uint64, r *hx.Rng) (string, map[string]interface{}) {
	idIdx := func(id []byte) int {
		for i, x := range w.ids {
			if bytes.Equal(x, id) {
				return i + 1
			}
		}
		return -1
	}
	// by account (the empty account first)
	var ba []string
	var baDesc []int
	for ai := 0; ai <= len(w.accts); ai++ {
		got := service.MinerManagerImpl.GetMinerIdByAccount(w.acctBytes(ai), w.ADB)
		hs := post.holders(ai)
		gi := 0
		if got != nil {
			gi = idIdx(got)
		}
		baDesc = append(baDesc, gi)
		if got == nil {
			ba = append(ba, "None")
			if len(hs) > 0 {
				res.Violate("C20/views-agree:by-account-misses", fmt.Sprintf("GetMinerIdByAccount(account %d) = nil but miner id %d carries that account", ai, hs[0].I), input)
			}
		} else {
			ba = append(ba, fmt.Sprintf("Some %d%%N", gi))
			ok := false
			for _, m := range hs {
				if m.I == gi {
					ok = true
				}
			}
			if !ok {
				res.Violate("C20/views-agree:by-account-wrong", fmt.Sprintf("GetMinerIdByAccount(account %d) = id %d whose record does not carry that account", ai, gi), input)
			}
		}
	}
	// iteration
	var iters [2][]int
	for k := 0; k <= 1; k++ {
		seen := map[int]bool{}
		for _, m := range service.VerifC20Iterate(byte(k), w.ADB) {
			i := idIdx(m.Id)
			iters[k] = append(iters[k], i)
			seen[i] = true
			rec := post.find(k, i)
			if rec == nil {
				res.Violate("C20/views-agree:iterator-extra", fmt.Sprintf("the kind-%d iterator yields id %d which GetMinerById does not find", k, i), input)
				continue
			}
			if rec.Stake != m.Stake || rec.Acct != w.acctIdxJunk(m.Account, w.ADB) || rec.Stat != int(m.Status) || rec.Apply != m.ApplyHeight || int(m.Type) != k {
				res.Violate("C20/views-agree:iterator-record", fmt.Sprintf("the kind-%d iterator record of id %d differs from GetMinerById", k, i), input)
			}
		}
		for _, m := range post.miners {
			if m.K == k && !seen[m.I] {
				res.Violate("C20/views-agree:iterator-misses", fmt.Sprintf("GetMinerById finds id %d of kind %d, the iterator does not yield it", m.I, k), input)
			}
		}
	}
	// totals used for leader election
	qh := h + []uint64{0, 300, 299, 1000000, 150}[r.Intn(5)]
	if w.fixedQh != 0 {
		qh = w.fixedQh
	}
	total, detail := service.MinerManagerImpl.GetProposerTotalStakeWithDetail(qh, w.ADB)
	var want uint64
	cnt := 0
	for _, m := range post.miners {
		if m.K == 1 && m.Stat == 0 && m.Apply <= qh {
			want += m.Stake
			cnt++
			if detail[common.ToHex(w.ids[m.I-1])] != m.Stake {
				res.Violate("C20/totals:proposer-detail", fmt.Sprintf("detail of proposer id %d is %d, record stake %d", m.I, detail[common.ToHex(w.ids[m.I-1])], m.Stake), input)
			}
		}
	}
	if total != want || len(detail) != cnt {
		res.Violate("C20/totals:proposer-total", fmt.Sprintf("GetProposerTotalStakeWithDetail(%d) = %d over %d proposers; sum over active records = %d over %d", qh, total, len(detail), want, cnt), input)
	}
	// the consumer side: what leader election actually asks (consensus/access MinerPoolReader, by state root)
	readerCount := w.readerChecks(post, res, input, qh, cnt)
	props, vals := service.MinerManagerImpl.GetAllMinerIdAndAccount(qh, w.ADB)
	var all [2][]string
	for k, mp := range []map[string]common.Address{vals, props} {
		n := 0
		for i, id := range w.ids {
			if a, ok := mp[common.ToHex(id)]; ok {
				n++
				rec := post.find(k, i+1)
				ax := w.addrIdx(a)
				if ax < 0 && rec != nil && rec.Acct >= 1000000 {
					ax = rec.Acct // a junk account value (storage-key aliasing): the model keeps its tag
				}
				all[k] = append(all[k], fmt.Sprintf("(%d%%N,%d%%N)", i+1, ax))
				if rec == nil || rec.Stat != 0 || rec.Apply > qh || rec.Acct < 0 || (rec.Acct < len(w.addrOf) && w.addrOf[rec.Acct] != w.addrIdx(a)) {
					res.Violate("C20/totals:all-id-account", fmt.Sprintf("GetAllMinerIdAndAccount lists id %d of kind %d with account %d against its record", i+1, k, w.addrIdx(a)), input)
				}
			}
		}
		if n != len(mp) {
			res.Violate("C20/totals:all-id-account", "GetAllMinerIdAndAccount lists an id outside the universe", input)
		}
		for _, m := range post.miners {
			if m.K == k && m.Stat == 0 && m.Apply <= qh {
				if _, ok := mp[common.ToHex(w.ids[m.I-1])]; !ok {
					res.Violate("C20/totals:all-id-account", fmt.Sprintf("GetAllMinerIdAndAccount misses active id %d of kind %d", m.I, k), input)
				}
			}
		}
	}
	vtotal, _ := service.MinerManagerImpl.GetValidatorsStake(w.ids, w.ADB)
	term := fmt.Sprintf("%d%%N (VW %s %s %s %d%%N %d%%N %s %s %d%%N)", qh, hx.CoqList(ba), nlist(iters[0]), nlist(iters[1]), total, readerCount,
		hx.CoqList(all[0]), hx.CoqList(all[1]), vtotal)
	return term, map[string]interface{}{"queryHeight": qh, "byAccount": baDesc, "iter": iters, "proposerTotal": total, "proposerCount": len(detail), "validatorsStake": vtotal}
}

// aliasSearch: the four storage keys of a miner are id, H(id), H(H(id)), H(H(H(id))) in ONE key space, and the id
// of a MinerApply is taken from the transaction data as it is. A second miner registered under the id
// H^n(victim id) writes its own slots over the victim's stake / account / status slot. The scenarios run through the
// same block runner as the generated blocks and are written as model cases: coq/C20/KeyModel.v derives the storage
// keys from the real id bytes and the SHA-256 table, so the model must reproduce the corrupted record.
func aliasSearch(r *hx.Rng, res *hx.Result, cs *hx.Cases) {
	for run := 0; run < 6; run++ {
		n := run%3 + 1
		// cross: the victim X is a PROPOSER and the second miner a VALIDATOR whose id is SHA256^n(X): the two registries
		// are different accounts, the equal keys never meet - harmless for the typed lookups and for the typeless
		// GetMiner (proposer decode first, validator registry as fallback)
		cross := run >= 3
		w := newWorld(r)
		victim := r.Bytes(32)
		victim[0] = 0x33
		alias := victim
		for i := 0; i < n; i++ {
			alias = common.Sha256(alias)
		}
		w.ids = [][]byte{victim, alias, {0x70, 0x01}, {0x70, 0x02}}
		sort.Slice(w.ids, func(i, j int) bool { return bytes.Compare(w.ids[i], w.ids[j]) < 0 })
		vi, ai := w.idIdx(victim), w.idIdx(alias)
		s1, s2 := w.senders[0], w.senders[1]
		apply := func(src int, id int, typ int, stake uint64) gtx {
			md, _ := json.Marshal(types.Miner{Id: w.ids[id-1], PublicKey: []byte{1, 2}, VrfPublicKey: []byte{3}, Type: byte(typ), Stake: stake})
			return gtx{kind: "apply", src: src, id: id, stake: stake, tx: newTx(types.TransactionTypeMinerApply, w.srcHex(src), string(md)),
				term: fmt.Sprintf("TApply %d%%N true %d%%N %d%%N %d%%N 0%%N true", src, typ, id, stake),
				desc: map[string]interface{}{"tx": "apply", "src": src, "type": typ, "id": id, "stake": stake}}
		}
		blocks := [][]gtx{{apply(s1, vi, 0, 800)}}
		steps := []string{"S1 MinerApply validator id=X stake=800"}
		if cross {
			blocks = [][]gtx{{apply(s1, vi, 1, 2000)}}
			steps = []string{"S1 MinerApply PROPOSER id=X stake=2000"}
		}
		if n == 3 && !cross { // an aborted victim: refund below the minimum
			data, _ := json.Marshal(map[string]string{"Amount": "401", "MinerId": common.ToHex(victim)})
			blocks = append(blocks, []gtx{{kind: "refund", src: s1, id: vi, amt: "401", tx: newTx(types.TransactionTypeMinerRefund, w.srcHex(s1), string(data)),
				term: fmt.Sprintf("TRefund %d%%N true (Some 401%%N) %d%%N", s1, vi), desc: map[string]interface{}{"tx": "refund", "src": s1, "id": vi, "amount": "401"}}})
			steps = append(steps, "S1 MinerRefund 401 of X (left 399 < 400: aborted)")
		}
		if cross {
			blocks = append(blocks, []gtx{apply(s2, ai, 0, 800)})
			steps = append(steps, fmt.Sprintf("S2 MinerApply VALIDATOR id=SHA256^%d(X) stake=800", n))
			data, _ := json.Marshal(map[string]string{"Amount": "100", "MinerId": common.ToHex(alias)})
			cd, _ := json.Marshal(types.Miner{Id: alias, Account: w.acctBytes(6)})
			blocks = append(blocks, []gtx{
				{kind: "refund", src: s2, id: ai, amt: "100", tx: newTx(types.TransactionTypeMinerRefund, w.srcHex(s2), string(data)),
					term: fmt.Sprintf("TRefund %d%%N true (Some 100%%N) %d%%N", s2, ai), desc: map[string]interface{}{"tx": "refund", "src": s2, "id": ai, "amount": "100"}},
				{kind: "change", src: s2, id: ai, acct: 6, tx: newTx(types.TransactionTypeMinerChangeAccount, w.srcHex(s2), string(cd)),
					term: fmt.Sprintf("TChange %d%%N true %d%%N 6%%N", s2, ai), desc: map[string]interface{}{"tx": "change", "src": s2, "id": ai, "account": 6}}})
			steps = append(steps, "S2 MinerRefund 100 of it, then change-account (both look the miner up by id WITHOUT a type)")
		} else {
			blocks = append(blocks, []gtx{apply(s2, ai, 0, 400)})
			steps = append(steps, fmt.Sprintf("S2 MinerApply validator id=SHA256^%d(X) stake=400", n))
		}
		for range blocks {
			w.h++
			w.heights[w.h+refundDelay] = true
		}
		w.h -= uint64(len(blocks))
		pre0 := w.observe()
		scratch := hx.NewResult("")
		if cross {
			scratch = res // nothing may go wrong here: the direct checks report to the run's result
		}
		var terms []string
		var before *types.Miner
		ok := true
		for bi, g := range blocks {
			w.h++
			w.blocks++
			if bi == len(blocks)-1 || (cross && bi == 1) {
				before = service.MinerManagerImpl.GetMinerById(victim, byte(boolInt(cross)), w.ADB)
			}
			br := w.runCaseBlock(r, scratch, w.h, g, 1, nil, w.observe(), map[string]interface{}{})
			if br.panicked != "" {
				res.Violate("C20/harness:alias-setup", "alias scenario could not be observed: "+br.panicked, steps)
				ok = false
				break
			}
			steps[bi] += " -> " + strings.Join(br.classes, ",")
			terms = append(terms, "("+br.term+")")
		}
		if !ok || before == nil {
			continue
		}
		after := service.MinerManagerImpl.GetMinerById(victim, byte(boolInt(cross)), w.ADB)
		input := map[string]interface{}{"X": common.ToHex(victim), "n": n, "steps": steps, "cross-registry": cross}
		envTerm := w.envCoq()
		input["keys"] = w.keyBytes
		cs.Add(fmt.Sprintf("CS %s %s %s %s", envTerm, w.heightsCoq(), w.stateCoq(pre0), hx.CoqList(terms)), input)
		w.addLit(fmt.Sprintf("%s %s %s", w.heightsCoq(), w.stateCoq(pre0), hx.CoqList(terms)), input)
		class := "alias-refused"
		if cross {
			al := service.MinerManagerImpl.GetMiner(alias, w.ADB)
			class = "cross-registry-alias-harmless"
			if after == nil || after.Stake != before.Stake || !bytes.Equal(after.Account, before.Account) || after.Status != before.Status ||
				al == nil || al.Type != 0 || al.Stake != 700 || !bytes.Equal(al.Account, w.acctBytes(6)) {
				class = "cross-registry-alias-broken"
				res.Violate("C20/views-agree:cross-registry-key-aliasing", "a validator whose id is SHA256^n(id of a proposer): the proposer's record changed, or the validator is not found / not served by the typeless GetMiner (refund 100 and change-account must have succeeded)", input)
			}
			res.Count(class, fmt.Sprintf("cross%d:%s", n, class), true)
			continue
		}
		switch {
		case after == nil:
			class = "alias-victim-gone"
			res.Violate("C20/views-agree:id-key-aliasing", "the victim's record disappeared after a MinerApply that does not name it", input)
		case after.Stake != before.Stake:
			class = "alias-stake-overwritten"
			input["victim"] = fmt.Sprintf("stake %d -> %d", before.Stake, after.Stake)
			res.Violate("C20/stake-accounting:id-key-aliasing", fmt.Sprintf("a MinerApply with id SHA256(X) overwrote the stake slot of miner X: stake %d -> %d without any add/refund naming X", before.Stake, after.Stake), input)
		case !bytes.Equal(after.Account, before.Account):
			class = "alias-account-overwritten"
			input["victim"] = fmt.Sprintf("account %s -> %d bytes of json", common.ToHex(before.Account), len(after.Account))
			res.Violate("C20/views-agree:id-key-aliasing", fmt.Sprintf("a MinerApply with id SHA256^2(X) overwrote the account slot of miner X (%d bytes now): GetMinerIdByAccount(owner) no longer finds X and the owner cannot refund", len(after.Account)), input)
		case after.Status != before.Status:
			class = "alias-status-overwritten"
			input["victim"] = fmt.Sprintf("status %d -> %d", before.Status, after.Status)
			res.Violate("C20/views-agree:id-key-aliasing", fmt.Sprintf("a MinerApply with id SHA256^3(X) overwrote the status slot of the aborted miner X: status %d -> %d, it counts as active again", before.Status, after.Status), input)
		}
		res.Count(class, fmt.Sprintf("alias%d:%s", n, class), true)
	}
	phantomSearch(r, res)
	oddSourceSearch(r, res)
}

// phantomSearch: the iterator parses EVERY value of the registry account as a miner json, and the account of a
// MinerApply is any byte string: an account that reads as {"id":"0x<victim>","type":1} makes the proposer
// iterator yield the victim a second time (stake/status re-read from the victim's slots, applyHeight 0).
func phantomSearch(r *hx.Rng, res *hx.Result) {
	w := newWorld(r)
	victim, other := w.ids[0], w.ids[1]
	s1 := w.senders[0]
	mk := func(id []byte, acct []byte) *types.Transaction {
		md, _ := json.Marshal(types.Miner{Id: id, PublicKey: []byte{1, 2}, VrfPublicKey: []byte{3}, Type: 1, Stake: 2000, Account: acct})
		return newTx(types.TransactionTypeMinerApply, w.srcHex(s1), string(md))
	}
	w.h++
	rs1 := runBlock(w.nodeWorld, w.h, []byte{0xca}, nil, []*types.Transaction{mk(victim, addr(0x11).Bytes())}, nil)
	w.boundary()
	phantom := []byte(fmt.Sprintf("{\"id\":\"%s\",\"type\":1}", common.ToHex(victim)))
	w.h++
	rs2 := runBlock(w.nodeWorld, w.h, []byte{0xca}, nil, []*types.Transaction{mk(other, phantom)}, nil)
	w.boundary()
	if len(rs1) != 1 || rs1[0].Status != 1 || len(rs2) != 1 || rs2[0].Status != 1 {
		res.Count("phantom-refused", "phantom-refused", true)
		return
	}
	qh := w.h + 1000
	total, detail := service.MinerManagerImpl.GetProposerTotalStakeWithDetail(qh, w.ADB)
	var sum uint64
	n := 0
	for _, id := range w.ids {
		if m := service.MinerManagerImpl.GetMinerById(id, 1, w.ADB); m != nil && m.Status == 0 && m.ApplyHeight <= qh {
			sum += m.Stake
			n++
		}
	}
	iter := service.VerifC20Iterate(1, w.ADB)
	input := map[string]interface{}{"steps": []string{"S1 MinerApply proposer id=X stake=2000 account=T1", "S1 MinerApply proposer id=Y stake=2000 account=bytes of " + string(phantom)},
		"proposerTotal": total, "proposerCount": len(detail), "sumOverRecords": sum, "records": n, "iteratorYields": len(iter)}
	if total != sum || len(iter) != n {
		res.Violate("C20/totals:account-bytes-parsed-as-record", fmt.Sprintf("GetProposerTotalStakeWithDetail = %d and the iterator yields %d records, but the registry holds %d active proposers with %d stake in total", total, len(iter), n, sum), input)
		res.Count("phantom-counted", "phantom-counted", true)
		return
	}
	res.Count("phantom-ignored", "phantom-ignored", true)
}

// oddSourceSearch: escrow keys are the miner's account bytes and RefundManager.getAllRefund / CheckAndMove map them
// through BytesToAddress, which is not injective on byte strings of other lengths. The account of a refund equals
// FromHex(tx.Source), and transaction admission (verifyTransactionSign) only lets the canonical 20-byte hex of the
// signer through, so the collision needs a non-canonical Source that the executors alone would accept. Executed here
// WITHOUT admission to record what the executors do with it (class in the histogram; not a violation of C20).
func oddSourceSearch(r *hx.Rng, res *hx.Result) {
	w := newWorld(r)
	a1 := addr(1)
	odd := "0x00" + a1.GetHexString()[2:] // 21 bytes, same address
	mk := func(id []byte, src string, acct []byte) *types.Transaction {
		md, _ := json.Marshal(types.Miner{Id: id, PublicKey: []byte{1, 2}, VrfPublicKey: []byte{3}, Type: 0, Stake: 800, Account: acct})
		return newTx(types.TransactionTypeMinerApply, src, string(md))
	}
	rf := func(id []byte, src string) *types.Transaction {
		data, _ := json.Marshal(map[string]string{"Amount": "100", "MinerId": common.ToHex(id)})
		return newTx(types.TransactionTypeMinerRefund, src, string(data))
	}
	w.ADB.SetBalance(common.HexStringToAddress(odd), tokens(5)) // ProcessFee charges HexStringToAddress(Source), another address for 21 bytes
	w.boundary()
	w.h++
	r1 := runBlock(w.nodeWorld, w.h, []byte{0xca}, nil, []*types.Transaction{mk(w.ids[0], a1.GetHexString(), nil), mk(w.ids[1], a1.GetHexString(), common.FromHex(odd))}, nil)
	w.boundary()
	w.h++
	due := w.h + refundDelay
	r2 := runBlock(w.nodeWorld, w.h, []byte{0xca}, nil, []*types.Transaction{rf(w.ids[0], a1.GetHexString()), rf(w.ids[1], odd)}, nil)
	w.boundary()
	okAll := len(r1) == 2 && r1[0].Status == 1 && r1[1].Status == 1 && len(r2) == 2 && r2[0].Status == 1 && r2[1].Status == 1
	class := "odd-source:refused"
	if !okAll {
		var ms []string
		for _, rc := range append(append([]*types.Receipt{}, r1...), r2...) {
			ms = append(ms, fmt.Sprintf("%d:%s", rc.Status, rc.Msg))
		}
		res.Note("non-canonical Source executed without admission was refused by the executors: " + strings.Join(ms, " | "))
	}
	if okAll {
		before := w.ADB.GetBalance(a1)
		w.h = due
		runBlock(w.nodeWorld, w.h, []byte{0xca}, nil, nil, nil)
		w.boundary()
		got := new(big.Int).Sub(w.ADB.GetBalance(a1), before)
		left := w.ADB.GetData(refundAddress(due), common.FromHex(odd))
		class = fmt.Sprintf("odd-source:two-escrow-keys-one-address credited=%s of %s, 21-byte key left behind=%v", got.String(), tokens(200).String(), len(left) > 0)
		res.Note("non-canonical Source executed without admission: one address held miners under a 20-byte and a 21-byte account string; both refunds of 100 were scheduled under distinct escrow keys that BytesToAddress maps to one address; at the due height the address was credited " + got.String() + " wei and the 21-byte entry stayed in the refund account: " + fmt.Sprint(len(left) > 0) + " (unreachable through verifyTransactionSign, which only admits the canonical hex of the signer)")
	}
	res.Count(strings.SplitN(class, " ", 2)[0], class, true)
}

var readerConvertBroken = false

// readerChecks: MinerPoolReader (the functions round_sign / processor / group creation call) on the committed state
// w.Root against the records of that state. Returns GetTotalStake (the proposer count used by the VRF threshold).
func (w *world) readerChecks(post ostate, res *hx.Result, input map[string]interface{}, qh uint64, cnt int) uint64 {
	reader := access.NewMinerPoolReader()
	got := reader.GetTotalStake(qh, w.Root)
	if got != uint64(cnt) {
		res.Violate("C20/totals:access-reader-disagrees:GetTotalStake", fmt.Sprintf("MinerPoolReader.GetTotalStake(%d, root) = %d; the state of that root holds %d active proposer records", qh, got, cnt), input)
	}
	if readerConvertBroken {
		return got
	}
	func() {
		defer func() {
			if x := recover(); x != nil {
				readerConvertBroken = true
				res.Note("MinerPoolReader.GetProposeMiner / GetCandidateMiners panic on the harness's synthetic public keys (" + fmt.Sprint(x) + "): only GetTotalStake is observed")
			}
		}()
		for i, id := range w.ids {
			if len(id) != 32 {
				continue
			}
			md := reader.GetProposeMiner(groupsig.DeserializeID(id), w.Root)
			rec := post.find(1, i+1)
			switch {
			case (md == nil) != (rec == nil):
				res.Violate("C20/totals:access-reader-disagrees:GetProposeMiner", fmt.Sprintf("GetProposeMiner(id %d) found=%v, the proposer registry of that state found=%v", i+1, md != nil, rec != nil), input)
			case md != nil && (md.Stake != rec.Stake || md.ApplyHeight != rec.Apply || md.MinerType != 1):
				res.Violate("C20/totals:access-reader-disagrees:GetProposeMiner", fmt.Sprintf("GetProposeMiner(id %d) = stake %d apply %d, record stake %d apply %d", i+1, md.Stake, md.ApplyHeight, rec.Stake, rec.Apply), input)
			}
		}
		want := map[string]uint64{}
		for _, m := range post.miners {
			if m.K == 0 && m.Stat == 0 && qh > m.Apply {
				want[common.ToHex(w.ids[m.I-1])] = m.Stake
			}
		}
		cands := reader.GetCandidateMiners(qh, w.Root)
		seen := map[string]bool{}
		for _, c := range cands {
			var hexId string
			for _, id := range w.ids { // short ids come back padded to 32 bytes
				if bytes.Equal(groupsig.DeserializeID(id).Serialize(), c.ID.Serialize()) {
					hexId = common.ToHex(id)
				}
			}
			seen[hexId] = true
			if st, ok := want[hexId]; !ok || st != c.Stake {
				res.Violate("C20/totals:access-reader-disagrees:GetCandidateMiners", fmt.Sprintf("GetCandidateMiners(%d) lists %s with stake %d against the validator records (normal, applyHeight < height)", qh, hexId, c.Stake), input)
			}
		}
		for k := range want {
			if !seen[k] {
				res.Violate("C20/totals:access-reader-disagrees:GetCandidateMiners", fmt.Sprintf("GetCandidateMiners(%d) misses validator %s", qh, k), input)
			}
		}
	}()
	return got
}

// activeProposers: the count over the records of the state at root (GetMinerById per id, no iterator)
func (w *world) activeProposers(root common.Hash, qh uint64) uint64 {
	adb, err := account.NewAccountDB(root, w.TDB)
	if err != nil {
		panic(err)
	}
	n := uint64(0)
	for _, id := range w.ids {
		if m := service.MinerManagerImpl.GetMinerById(id, 1, adb); m != nil && m.Status == 0 && m.ApplyHeight <= qh {
			n++
		}
	}
	return n
}

// purityCheck: two DIFFERENT states (siblings of one parent) asked at the SAME height, in both orders and repeatedly,
// interleaved with another height: every answer must be the count of the state asked about, and the answer for one
// (state, height) must not depend on what was asked before.
func (w *world) purityCheck(res *hx.Result, rootA, rootB common.Hash, qh uint64, input map[string]interface{}) {
	reader := access.NewMinerPoolReader()
	type q struct {
		root common.Hash
		h    uint64
		name string
	}
	seq := []q{{rootA, qh, "A"}, {rootB, qh, "B"}, {rootA, qh, "A"}, {rootB, qh, "B"}, {rootB, qh, "B"}, {rootA, qh, "A"},
		{rootB, qh + 1, "B'"}, {rootB, qh, "B"}, {rootA, qh + 1, "A'"}, {rootA, qh, "A"}, {rootB, qh, "B"}}
	first := map[string]uint64{}
	var trace []string
	for _, x := range seq {
		got := reader.GetTotalStake(x.h, x.root)
		want := w.activeProposers(x.root, x.h)
		trace = append(trace, fmt.Sprintf("%s@%d=%d(want %d)", x.name, x.h, got, want))
		key := fmt.Sprintf("%s@%d", x.name, x.h)
		if f, ok := first[key]; ok && f != got {
			input["queries"] = trace
			res.Violate("C20/totals:access-reader-impure:GetTotalStake", fmt.Sprintf("GetTotalStake for one (state, height) answered %d and later %d: the answer depends on earlier queries", f, got), input)
		} else if !ok {
			first[key] = got
		}
		if got != want {
			input["queries"] = trace
			res.Violate("C20/totals:access-reader-disagrees:GetTotalStake", fmt.Sprintf("sibling states at one height: GetTotalStake(%d, state %s) = %d, that state holds %d active proposer records", x.h, x.name, got, want), input)
		}
	}
	// the other readers in the same fork order: the per-miner lookup and the candidate list
	if !readerConvertBroken {
		func() {
			defer func() {
				if x := recover(); x != nil {
					readerConvertBroken = true
				}
			}()
			descMiner := func(root common.Hash, id []byte) string {
				md := reader.GetProposeMiner(groupsig.DeserializeID(id), root)
				if md == nil {
					return "-"
				}
				return fmt.Sprintf("stake%d/apply%d/type%d", md.Stake, md.ApplyHeight, md.MinerType)
			}
			wantMiner := func(root common.Hash, id []byte) string {
				adb, _ := account.NewAccountDB(root, w.TDB)
				m := service.MinerManagerImpl.GetMinerById(id, 1, adb)
				if m == nil {
					return "-"
				}
				return fmt.Sprintf("stake%d/apply%d/type%d", m.Stake, m.ApplyHeight, m.Type)
			}
			descCands := func(root common.Hash, h uint64) string {
				var out []string
				for _, c := range reader.GetCandidateMiners(h, root) {
					out = append(out, fmt.Sprintf("%s:%d", common.ToHex(c.ID.Serialize()), c.Stake))
				}
				sort.Strings(out)
				return strings.Join(out, ",")
			}
			wantCands := func(root common.Hash, h uint64) string {
				adb, _ := account.NewAccountDB(root, w.TDB)
				var out []string
				for _, id := range w.ids {
					if m := service.MinerManagerImpl.GetMinerById(id, 0, adb); m != nil && m.Status == 0 && h > m.ApplyHeight {
						out = append(out, fmt.Sprintf("%s:%d", common.ToHex(groupsig.DeserializeID(id).Serialize()), m.Stake))
					}
				}
				sort.Strings(out)
				return strings.Join(out, ",")
			}
			firstM, firstC := map[string]string{}, map[string]string{}
			for _, x := range seq {
				for i, id := range w.ids {
					if len(id) != 32 {
						continue
					}
					got, want := descMiner(x.root, id), wantMiner(x.root, id)
					key := fmt.Sprintf("%s/id%d", x.name[:1], i+1)
					if f, ok := firstM[key]; ok && f != got {
						res.Violate("C20/totals:access-reader-impure:GetProposeMiner", fmt.Sprintf("GetProposeMiner(id %d, state %s) answered %s and later %s", i+1, x.name[:1], f, got), input)
					}
					firstM[key] = got
					if got != want {
						res.Violate("C20/totals:access-reader-disagrees:GetProposeMiner", fmt.Sprintf("sibling states: GetProposeMiner(id %d, state %s) = %s, the proposer record of that state is %s", i+1, x.name[:1], got, want), input)
					}
				}
				got, want := descCands(x.root, x.h), wantCands(x.root, x.h)
				key := fmt.Sprintf("%s@%d", x.name, x.h)
				if f, ok := firstC[key]; ok && f != got {
					res.Violate("C20/totals:access-reader-impure:GetCandidateMiners", fmt.Sprintf("GetCandidateMiners(%d, state %s) answered [%s] and later [%s]", x.h, x.name, f, got), input)
				}
				firstC[key] = got
				if got != want {
					res.Violate("C20/totals:access-reader-disagrees:GetCandidateMiners", fmt.Sprintf("sibling states: GetCandidateMiners(%d, state %s) = [%s], the validator records of that state give [%s]", x.h, x.name, got, want), input)
				}
			}
		}()
	}
	if w.activeProposers(rootA, qh) != w.activeProposers(rootB, qh) {
		res.Histogram["sibling states with different proposer counts"]++
	} else {
		res.Histogram["sibling states with equal proposer counts"]++
	}
}

// switchNotes: the configuration switches (package common) called on the execution path of this check - found by
// scanning the sources of the path in the repository under test - with the values each world family ran under, so
// that a branch no run exercised is visible in the evidence.
func switchNotes(res *hx.Result) {
	repo := os.Getenv("VERIF_REPO")
	if repo == "" {
		repo = "/repo"
	}
	files := []string{"src/core/vmexecutor.go", "src/core/vmexecutor_sub.go", "src/executor/miner_executor.go", "src/executor/miner_node_executor.go",
		"src/executor/base_executor.go", "src/service/miner_manager.go", "src/service/refund_manager.go", "src/service/reward_calculator.go",
		"src/service/transaction_pool.go", "src/storage/account/accountdb_tuntun.go", "src/consensus/access/miner_access.go"}
	re := regexp.MustCompile(`common\.(Is[A-Za-z0-9]+)\(`)
	used := map[string][]string{}
	for _, f := range files {
		b, err := os.ReadFile(filepath.Join(repo, f))
		if err != nil {
			continue
		}
		seen := map[string]bool{}
		for _, m := range re.FindAllStringSubmatch(string(b), -1) {
			if !seen[m[1]] {
				seen[m[1]] = true
				used[m[1]] = append(used[m[1]], filepath.Base(f))
			}
		}
	}
	names := make([]string, 0, len(used))
	for n := range used {
		names = append(names, n)
	}
	sort.Strings(names)
	var lines []string
	for _, n := range names {
		cov := []string{}
		for _, fam := range families {
			v := switchCover[fam][n]
			switch {
			case v == nil:
				cov = append(cov, fam+": not evaluated")
			case v[true] > 0 && v[false] > 0:
				cov = append(cov, fam+": true and false")
			case v[true] > 0:
				cov = append(cov, fam+": true only")
			default:
				cov = append(cov, fam+": false only")
			}
		}
		lines = append(lines, fmt.Sprintf("%s (%s) - %s", n, strings.Join(used[n], ","), strings.Join(cov, "; ")))
	}
	res.Note("configuration switches on the execution path and the values the runs covered (dev chain config; the proposal fork heights are moved per world family): " + strings.Join(lines, " | "))
}

func boolInt(b bool) int {
	if b {
		return 1
	}
	return 0
}

func (w *world) isContract(i int) bool { return indexOf(w.contracts, i) >= 0 }
