package main

import (
	"encoding/json"
	"fmt"
	"math/big"

	"com.tuntun.rangers/node/src/common"
	"com.tuntun.rangers/node/src/core"
	"com.tuntun.rangers/node/src/middleware/types"
	"com.tuntun.rangers/node/src/service"
	"com.tuntun.rangers/node/src/storage/account"
	nx "verif/harness/nodehx"
	"com.tuntun.rangers/node/src/utility"
)

var reqId uint64

func tx(typ int32, src, tgt, data, extra string) *types.Transaction {
	reqId++
	t := &types.Transaction{Source: src, Target: tgt, Type: typ, Data: data, ExtraData: extra, RequestId: reqId, Sign: &common.Sign{}}
	t.Hash = t.GenHash()
	return t
}

func sum(adb *account.AccountDB, as []common.Address) *big.Int {
	s := new(big.Int)
	for _, a := range as {
		s.Add(s, adb.GetBalance(a))
	}
	return s
}

func block(w *nx.World, h uint64, sit string, txs ...*types.Transaction) []*types.Receipt {
	common.SetBlockHeight(h)
	b := &types.Block{Header: nx.Header(h), Transactions: txs}
	_, _, _, rs := core.VerifC06ExecuteBlock(w.ADB, b, sit)
	return rs
}
func ctx(gas, val string, data []byte) string {
	cd, _ := json.Marshal(types.ContractData{GasLimit: gas, TransferValue: val, AbiData: common.ToHex(data)})
	return string(cd)
}

func main() {
	nx.Boot(10)
	w := nx.NewWorld()
	A, B, C, K, R := nx.Addr(1), nx.Addr(2), nx.Addr(3), nx.Addr(4), nx.Addr(5)
	uni := []common.Address{A, B, C, K, R, common.FeeAccount}
	w.ADB.SetBalance(A, nx.Tokens(10000))
	w.ADB.SetBalance(B, nx.Tokens(5000))
	// K: unstake contract
	kc := (&nx.Asm{}).Op(nx.ADDRESS).PushU(0).Op(nx.CALLDATALOAD, nx.UNSTAKE, nx.POP, nx.STOP).B
	w.ADB.SetCode(K, kc)
	w.ADB.SetNonce(K, 1)
	w.Boundary()
	fmt.Println("sum0", sum(w.ADB, uni))

	// C: negative transferValue contract call
	before := sum(w.ADB, uni)
	rs := block(w, 12, "testing", tx(types.TransactionTypeContract, nx.AddrHex(B), nx.AddrHex(C), ctx("1000000", "-5", nil), ""))
	fmt.Println("negcall:", rs[0].Status, rs[0].Msg, rs[0].GasUsed, "before", before, "after", sum(w.ADB, uni), "B", w.ADB.GetBalance(B), "C", w.ADB.GetBalance(C))
	before = sum(w.ADB, uni)
	rs = block(w, 12, "testing", tx(types.TransactionTypeContract, nx.AddrHex(B), "", ctx("3000000", "-7", nx.Initcode([]byte{0})), ""))
	fmt.Println("negcreate:", rs[0].Status, rs[0].Msg, rs[0].GasUsed, "before", before, "after", sum(w.ADB, uni), "B", w.ADB.GetBalance(B), "new", w.ADB.GetBalance(rs[0].ContractAddress))

	// D: UNSTAKE fractional
	m := types.Miner{Id: common.FromHex("0x3333"), PublicKey: []byte{1, 2}, VrfPublicKey: []byte{3}, Type: common.MinerTypeValidator, Stake: 400, Account: K.Bytes()}
	md, _ := json.Marshal(m)
	rs = block(w, 13, "verif", tx(types.TransactionTypeMinerApply, nx.AddrHex(A), "", string(md), ""))
	fmt.Println("applyK:", rs[0].Status, rs[0].Msg)
	w.Boundary()
	half := nx.Wei("0.5")
	arg := utility.LeftPadBytes(half.Bytes(), 32)
	before = sum(w.ADB, uni)
	rs = block(w, 14, "verif", tx(types.TransactionTypeContract, nx.AddrHex(B), nx.AddrHex(K), ctx("3000000", "0", arg), ""))
	fmt.Println("unstake0.5:", rs[0].Status, rs[0].Msg, "before", before, "after", sum(w.ADB, uni), "escrow", nx.Escrow(w.ADB, 14+36000), nx.ViewOf(service.MinerManagerImpl.GetMiner(m.Id, w.ADB)))
	huge := new(big.Int).Lsh(big.NewInt(1), 200)
	rs = block(w, 15, "verif", tx(types.TransactionTypeContract, nx.AddrHex(B), nx.AddrHex(K), ctx("3000000", "0", utility.LeftPadBytes(huge.Bytes(), 32)), ""))
	fmt.Println("unstakeHuge:", rs[0].Status, rs[0].Msg, "escrow", nx.Escrow(w.ADB, 15+36000), nx.ViewOf(service.MinerManagerImpl.GetMiner(m.Id, w.ADB)))

	// F: gas mint
	w2 := nx.NewWorld()
	O, X := nx.Addr(10), nx.Addr(11)
	inv := nx.Addr(12)
	priv := make([]byte, 32)
	priv[31] = 7
	var commit [32]byte
	cd, auth := nx.AuthSig(priv, common.GetChainId(20), inv, commit)
	a := &nx.Asm{}
	a.Op(nx.CALLDATASIZE).PushU(0).PushU(0).Op(nx.CALLDATACOPY)
	a.PushU(128).PushU(0).PushAddr(auth).Op(nx.AUTH, nx.POP)
	a.PushU(0).PushU(0).PushU(0).PushU(0).PushU(0).Op(nx.ORIGIN, nx.BALANCE).PushAddr(X).PushU(0).PushU(0).Op(nx.AUTHCALL, nx.STOP)
	w2.ADB.SetCode(inv, a.B)
	w2.ADB.SetNonce(inv, 1)
	w2.ADB.SetBalance(O, nx.Tokens(100))
	w2.Boundary()
	u2 := []common.Address{O, X, inv, auth, common.FeeAccount}
	before = sum(w2.ADB, u2)
	rs = block(w2, 20, "testing", tx(types.TransactionTypeContract, nx.AddrHex(O), nx.AddrHex(inv), ctx("3000000", "0", cd), ""))
	fmt.Println("gasmint:", rs[0].Status, rs[0].Msg, rs[0].GasUsed, "before", before, "after", sum(w2.ADB, u2), "O", w2.ADB.GetBalance(O), "X", w2.ADB.GetBalance(X), "fee", w2.ADB.GetBalance(common.FeeAccount))
}
