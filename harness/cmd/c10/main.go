// C10 harness: the computational opcodes of the real EVM (vm.NewEVM + evm.Call on code installed in
// an in-memory account database) against
//   (a) an independent big.Int implementation of the Yellow-Paper / EIP definitions and an
//       independent reference machine (stack, memory, pc, return data) written in this file
//       -- the direct search on the implementation -- and
//   (b) the Coq model (impl_op / spec_op, the interpreter loop of Machine.v, codeBitmap /
//       validJumpdest), which evaluates the same cases.
package main

import (
	"crypto/sha256"
	"encoding/hex"
	"encoding/json"
	"fmt"
	"math/big"
	"os"
	"path/filepath"
	"sort"
	"strings"

	"com.tuntun.rangers/node/src/common"
	"com.tuntun.rangers/node/src/storage/account"
	"com.tuntun.rangers/node/src/vm"
	"github.com/holiman/uint256"
	"golang.org/x/crypto/sha3"
	"verif/harness/hx"
	"verif/harness/vmx"
)

var (
	two256 = new(big.Int).Lsh(big.NewInt(1), 256)
	two255 = new(big.Int).Lsh(big.NewInt(1), 255)
	two64  = new(big.Int).Lsh(big.NewInt(1), 64)
	maxW   = new(big.Int).Sub(two256, big.NewInt(1))
)

func bi(s string) *big.Int { v, _ := new(big.Int).SetString(s, 0); return v }
func pow2(k uint) *big.Int { return new(big.Int).Lsh(big.NewInt(1), k) }
func sub(a, b *big.Int) *big.Int {
	return new(big.Int).Sub(a, b)
}
func add(a, b *big.Int) *big.Int { return new(big.Int).Add(a, b) }

// the boundary grid of the brief
var grid = []*big.Int{big.NewInt(0), big.NewInt(1), big.NewInt(2), big.NewInt(31), big.NewInt(32), big.NewInt(255),
	big.NewInt(256), big.NewInt(257), sub(two64, big.NewInt(1)), add(two64, big.NewInt(1)), pow2(128),
	sub(two255, big.NewInt(1)), two255, add(two255, big.NewInt(1)), sub(two256, big.NewInt(2)), maxW}

// a few more for the thorough tier / random draws
var extra = []*big.Int{big.NewInt(3), big.NewInt(7), big.NewInt(8), big.NewInt(30), big.NewInt(33), big.NewInt(63), big.NewInt(64),
	big.NewInt(127), big.NewInt(128), big.NewInt(254), two64, sub(pow2(128), big.NewInt(1)), sub(two256, big.NewInt(255)),
	sub(two256, big.NewInt(256)), sub(two256, big.NewInt(257)), pow2(254), sub(pow2(248), big.NewInt(1)), pow2(248), pow2(8), pow2(15), pow2(16), pow2(7)}

func randWord(r *hx.Rng) *big.Int {
	switch r.Intn(10) {
	case 0:
		return new(big.Int).Set(grid[r.Intn(len(grid))])
	case 1:
		return new(big.Int).Set(extra[r.Intn(len(extra))])
	case 2: // small
		return big.NewInt(int64(r.Intn(300)))
	case 3: // negative small
		return sub(two256, big.NewInt(int64(1+r.Intn(300))))
	case 4: // 2^k +- d
		k := uint(r.Intn(256))
		v := pow2(k)
		d := big.NewInt(int64(r.Intn(3)) - 1)
		v.Add(v, d)
		return v.Mod(v, two256)
	case 5: // random bit length
		n := 1 + r.Intn(256)
		v := new(big.Int).SetBytes(r.Bytes(32))
		return v.Rsh(v, uint(256-n))
	case 6: // ones shifted
		k := uint(r.Intn(256))
		v := new(big.Int).Lsh(maxW, k)
		return v.Mod(v, two256)
	case 7: // sparse bytes
		b := make([]byte, 32)
		for i := 0; i < 3; i++ {
			b[r.Intn(32)] = byte(r.U64())
		}
		return new(big.Int).SetBytes(b)
	}
	return new(big.Int).SetBytes(r.Bytes(32))
}

// ---------------------------------------------------------------------------------------------
// Independent specification of the word operations (Yellow Paper appendix H, EIP-145).

func toSigned(x *big.Int) *big.Int {
	if x.Cmp(two255) < 0 {
		return new(big.Int).Set(x)
	}
	return sub(x, two256)
}
func ofSigned(s *big.Int) *big.Int { return new(big.Int).Mod(s, two256) } // Mod is Euclidean: result in [0, 2^256)
func b2i(b bool) *big.Int {
	if b {
		return big.NewInt(1)
	}
	return big.NewInt(0)
}

type opInfo struct {
	code  byte
	name  string
	arity int
}

var ops = []opInfo{{0x01, "ADD", 2}, {0x02, "MUL", 2}, {0x03, "SUB", 2}, {0x04, "DIV", 2}, {0x05, "SDIV", 2}, {0x06, "MOD", 2},
	{0x07, "SMOD", 2}, {0x08, "ADDMOD", 3}, {0x09, "MULMOD", 3}, {0x0a, "EXP", 2}, {0x0b, "SIGNEXTEND", 2}, {0x10, "LT", 2},
	{0x11, "GT", 2}, {0x12, "SLT", 2}, {0x13, "SGT", 2}, {0x14, "EQ", 2}, {0x15, "ISZERO", 1}, {0x16, "AND", 2}, {0x17, "OR", 2},
	{0x18, "XOR", 2}, {0x19, "NOT", 1}, {0x1a, "BYTE", 2}, {0x1b, "SHL", 2}, {0x1c, "SHR", 2}, {0x1d, "SAR", 2}}

var opByCode = map[byte]opInfo{}

func init() {
	for _, o := range ops {
		opByCode[o.code] = o
	}
}

// x = top of stack, y = second, z = third
func specOp(code byte, x, y, z *big.Int) *big.Int {
	r := new(big.Int)
	switch code {
	case 0x01:
		return r.Mod(r.Add(x, y), two256)
	case 0x02:
		return r.Mod(r.Mul(x, y), two256)
	case 0x03:
		return r.Mod(r.Sub(x, y), two256)
	case 0x04:
		if y.Sign() == 0 {
			return r
		}
		return r.Div(x, y)
	case 0x05:
		if y.Sign() == 0 {
			return r
		}
		return ofSigned(r.Quo(toSigned(x), toSigned(y))) // truncated; -2^255 / -1 = 2^255 -> wraps to -2^255
	case 0x06:
		if y.Sign() == 0 {
			return r
		}
		return r.Mod(x, y)
	case 0x07:
		if y.Sign() == 0 {
			return r
		}
		return ofSigned(r.Rem(toSigned(x), toSigned(y))) // sign of the dividend
	case 0x08:
		if z.Sign() == 0 {
			return r
		}
		return r.Mod(r.Add(x, y), z)
	case 0x09:
		if z.Sign() == 0 {
			return r
		}
		return r.Mod(r.Mul(x, y), z)
	case 0x0a:
		return r.Exp(x, y, two256)
	case 0x0b:
		if x.Cmp(big.NewInt(31)) >= 0 {
			return r.Set(y)
		}
		t := uint(8*x.Uint64() + 7)
		m := pow2(t + 1)
		low := new(big.Int).Mod(y, m)
		if low.Bit(int(t)) == 1 {
			low.Sub(low, m)
		}
		return ofSigned(low)
	case 0x10:
		return b2i(x.Cmp(y) < 0)
	case 0x11:
		return b2i(x.Cmp(y) > 0)
	case 0x12:
		return b2i(toSigned(x).Cmp(toSigned(y)) < 0)
	case 0x13:
		return b2i(toSigned(x).Cmp(toSigned(y)) > 0)
	case 0x14:
		return b2i(x.Cmp(y) == 0)
	case 0x15:
		return b2i(x.Sign() == 0)
	case 0x16:
		return r.And(x, y)
	case 0x17:
		return r.Or(x, y)
	case 0x18:
		return r.Xor(x, y)
	case 0x19:
		return r.Sub(maxW, x)
	case 0x1a:
		if x.Cmp(big.NewInt(32)) >= 0 {
			return r
		}
		r.Rsh(y, uint(8*(31-x.Uint64())))
		return r.And(r, big.NewInt(255))
	case 0x1b:
		if x.Cmp(big.NewInt(256)) >= 0 {
			return r
		}
		return r.Mod(r.Lsh(y, uint(x.Uint64())), two256)
	case 0x1c:
		if x.Cmp(big.NewInt(256)) >= 0 {
			return r
		}
		return r.Rsh(y, uint(x.Uint64()))
	case 0x1d:
		s := toSigned(y)
		if x.Cmp(big.NewInt(256)) >= 0 {
			if s.Sign() < 0 {
				return r.Set(maxW)
			}
			return r
		}
		return ofSigned(r.Rsh(s, uint(x.Uint64()))) // big.Int Rsh on negatives is arithmetic (floor)
	}
	panic("specOp")
}

// ---------------------------------------------------------------------------------------------
// Byte code assembly.

func pushWord(v *big.Int, r *hx.Rng, push0 bool) []byte {
	b := v.Bytes()
	if len(b) == 0 {
		if push0 && r != nil && r.Intn(3) == 0 {
			return []byte{0x5f}
		}
		b = []byte{0}
	}
	if r != nil && r.Intn(6) == 0 && len(b) < 32 { // non-minimal width
		w := len(b) + 1 + r.Intn(32-len(b))
		nb := make([]byte, w)
		copy(nb[w-len(b):], b)
		b = nb
	}
	return append([]byte{byte(0x5f + len(b))}, b...)
}
func push2(v int) []byte { return []byte{0x61, byte(v >> 8), byte(v)} }

func opProgram(o opInfo, x, y, z *big.Int, r *hx.Rng, push0 bool) []byte {
	var c []byte
	if o.arity >= 3 {
		c = append(c, pushWord(z, r, push0)...)
	}
	if o.arity >= 2 {
		c = append(c, pushWord(y, r, push0)...)
	}
	c = append(c, pushWord(x, r, push0)...)
	c = append(c, o.code, 0x60, 0x00, 0x52, 0x60, 0x20, 0x60, 0x00, 0xf3)
	return c
}

// ---------------------------------------------------------------------------------------------
// Running on the real EVM.

type obs struct {
	class string // ok | revert | <error class> | panic
	ret   []byte
	left  uint64
	pan   string
}

var state *account.AccountDB
var stateUses int

// environment of the top-level call: what the environment opcodes read
var (
	curValue    = new(big.Int)           // CALLVALUE of the next run
	baseBalance = big.NewInt(0x5eed1234) // balance of the code account before the call's value arrives
)

func addrZ(b []byte) *big.Int { return new(big.Int).SetBytes(b) }

// callees of the return-data programs besides the precompiles: an address without account, and a helper contract that
// copies its input to memory and REVERTs with the first 5 bytes of it
var (
	codelessAddr = common.HexToAddress("0x00000000000000000000000000000000c0dedead")
	helperAddr   = common.HexToAddress("0x00000000000000000000000000000000c0de0003")
	calleeA      = common.HexToAddress("0x00000000000000000000000000000000c0de000a")
	calleeB      = common.HexToAddress("0x00000000000000000000000000000000c0de000b")
	helperCode   = []byte{0x36, 0x60, 0x00, 0x60, 0x00, 0x37, 0x60, 0x05, 0x60, 0x00, 0xfd}
)

// envWords: ADDRESS ORIGIN CALLER CALLVALUE GASPRICE COINBASE TIMESTAMP NUMBER DIFFICULTY GASLIMIT CHAINID SELFBALANCE
func envWords(gas uint64) [12]*big.Int {
	return [12]*big.Int{addrZ(vmx.CodeAddr.Bytes()), addrZ(vmx.Origin.Bytes()), addrZ(vmx.Origin.Bytes()), new(big.Int).Set(curValue),
		big.NewInt(1), addrZ(vmx.Coinbase.Bytes()), big.NewInt(1700000000), big.NewInt(vmx.RunHeight), big.NewInt(123),
		new(big.Int).SetUint64(gas), common.GetChainId(vmx.RunHeight), new(big.Int).Add(baseBalance, curValue)}
}

var envOpcodes = []byte{0x30, 0x32, 0x33, 0x34, 0x3a, 0x41, 0x42, 0x43, 0x44, 0x45, 0x46, 0x47}

func envCoq(gas uint64) string {
	w := envWords(gas)
	parts := make([]string, 12)
	for i, v := range w {
		parts[i] = zs(v)
	}
	return "(mkEnv " + strings.Join(parts, " ") + ")"
}

func runEVM(code, input []byte, gas uint64) (o obs) {
	if state == nil || stateUses > 500 {
		state = vmx.NewState()
		state.SetBalance(vmx.Origin, new(big.Int).Lsh(big.NewInt(1), 100))
		state.CreateAccount(vmx.CodeAddr)
		state.SetNonce(vmx.CodeAddr, 1)
		state.CreateAccount(helperAddr)
		state.SetNonce(helperAddr, 1)
		state.SetCode(helperAddr, helperCode)
		stateUses = 0
	}
	stateUses++
	state.SetCode(vmx.CodeAddr, code)
	state.SetBalance(vmx.CodeAddr, baseBalance)
	for _, ca := range []common.Address{calleeA, calleeB} {
		if cc, ok := calleeCodes[addrZ(ca.Bytes()).String()]; ok {
			if !state.Exist(ca) {
				state.CreateAccount(ca)
				state.SetNonce(ca, 1)
			}
			state.SetCode(ca, cc)
		}
	}
	evm := vmx.NewEVM(state, state, gas)
	defer func() {
		if p := recover(); p != nil {
			o = obs{class: "panic", pan: fmt.Sprint(p)}
			state = nil
		}
	}()
	ret, left, _, err := evm.Call(vm.AccountRef(vmx.Origin), vmx.CodeAddr, input, gas, new(big.Int).Set(curValue))
	o.ret = append([]byte{}, ret...)
	o.left = left
	switch {
	case err == nil:
		o.class = "ok"
	default:
		o.class = vmx.ErrClass(err)
	}
	return o
}

var errCode = map[string]int{"invalidop": 1, "underflow": 2, "overflow": 3, "oog": 4, "gasoverflow": 5, "badjump": 6, "retdata-oob": 7}

func (o obs) coq() string {
	switch o.class {
	case "ok":
		return fmt.Sprintf("PRet %s %d", hx.CoqHex(o.ret), o.left)
	case "revert":
		return fmt.Sprintf("PRev %s %d", hx.CoqHex(o.ret), o.left)
	}
	if c, ok := errCode[o.class]; ok {
		return fmt.Sprintf("PFail %d", c)
	}
	return "PFail 99"
}

// ---------------------------------------------------------------------------------------------
// Reference machine (specification side of the direct search): no gas, unbounded integers for the
// arithmetic, memory as a byte slice grown in 32-byte words.

type refOut struct {
	kind   string // ok | revert | fail:<why> | skip
	ret    []byte
	bigmem bool
	steps  int
	memlen int
	skipGas bool
	overlap bool // an identity call whose output area rewrote its own input window
	otherPre bool // a call to a precompile other than identity (not in the Coq machines)
	calls   int
}

func boundarySet(code []byte) []bool {
	b := make([]bool, len(code)+1)
	for p := 0; p < len(code); {
		b[p] = true
		if code[p] >= 0x60 && code[p] <= 0x7f {
			p += int(code[p]-0x5f) + 1
		} else {
			p++
		}
	}
	return b
}

var gasyFlag bool
var refMemLen int

const refMemCap = 8 << 20 // no run in this harness can pay for more memory than this
const refMemGasy = 16 << 10 // beyond this the memory fee may exhaust the gas of a run

var refEnv [12]*big.Int

// callee contracts installed for the run (address as a number -> code) and the gas magnification of the fork
var calleeCodes = map[string][]byte{}
var refMag = 1
var refAvail uint64 // upper bound of the gas the top frame still has (a failed creation burns 63/64 of it)

const maxCodeSize = 245760

func refRun(code, input []byte, defined *[256]bool, maxSteps int) (out refOut) {
	gasyFlag = false
	refMemLen = 0
	out = refFrame(code, input, defined, maxSteps, 0)
	out.bigmem = out.bigmem || gasyFlag
	gasyFlag = false
	out.memlen = refMemLen
	return out
}

// one call frame of the reference machine; message calls and creations run their callee in a nested frame
func refFrame(code, input []byte, defined *[256]bool, maxSteps int, depth int) (out refOut) {
	var stack []*big.Int // last = top
	var mem []byte
	pc := 0
	bnd := boundarySet(code)
	steps := 0
	var rd []byte
	hazard := false
	ncalls := 0
	otherPre := false
	defer func() { out.overlap = hazard; out.calls = ncalls; out.otherPre = otherPre }()
	pop := func() *big.Int { v := stack[len(stack)-1]; stack = stack[:len(stack)-1]; return v }
	push := func(v *big.Int) { stack = append(stack, v) }
	// expand returns false when the region is beyond anything payable
	expand := func(off, n *big.Int) (bool, bool) {
		if n.Sign() == 0 {
			return true, false
		}
		end := add(off, n)
		if end.Cmp(big.NewInt(refMemGasy)) > 0 {
			gasyFlag = true
		}
		if end.Cmp(big.NewInt(refMemCap)) > 0 {
			return false, true
		}
		e := int(end.Int64())
		e = (e + 31) / 32 * 32
		for len(mem) < e {
			mem = append(mem, 0)
		}
		if len(mem) > refMemLen {
			refMemLen = len(mem)
		}
		return true, false
	}
	getData := func(data []byte, off, n *big.Int) []byte {
		out := make([]byte, int(n.Int64()))
		if off.Cmp(big.NewInt(int64(len(data)))) < 0 {
			copy(out, data[int(off.Int64()):])
		}
		return out
	}
	need := func(n, pushes int) string {
		if len(stack) < n {
			return "fail:underflow"
		}
		if len(stack)-n+pushes > 1024 {
			return "fail:overflow"
		}
		return ""
	}
	for {
		steps++
		if steps > maxSteps {
			return refOut{kind: "skip", steps: steps}
		}
		var op byte
		if pc < len(code) {
			op = code[pc]
		}
		if !defined[op] {
			return refOut{kind: "fail:invalidop", steps: steps}
		}
		if oi, ok := opByCode[op]; ok {
			if e := need(oi.arity, 1); e != "" {
				return refOut{kind: e, steps: steps}
			}
			var x, y, z *big.Int
			x = pop()
			y, z = big.NewInt(0), big.NewInt(0)
			if oi.arity >= 2 {
				y = pop()
			}
			if oi.arity >= 3 {
				z = pop()
			}
			push(specOp(op, x, y, z))
			pc++
			continue
		}
		fail := func(e string) refOut { return refOut{kind: e, steps: steps} }
		switch {
		case op == 0x00:
			return refOut{kind: "ok", steps: steps}
		case op == 0x35: // CALLDATALOAD
			if e := need(1, 1); e != "" {
				return fail(e)
			}
			off := pop()
			push(new(big.Int).SetBytes(getData(input, off, big.NewInt(32))))
		case op == 0x30 || op == 0x32 || op == 0x33 || op == 0x34 || op == 0x3a || (op >= 0x41 && op <= 0x47):
			if e := need(0, 1); e != "" {
				return fail(e)
			}
			for i, eo := range envOpcodes {
				if eo == op {
					push(new(big.Int).Set(refEnv[i]))
				}
			}
		case op == 0x3d: // RETURNDATASIZE
			if e := need(0, 1); e != "" {
				return fail(e)
			}
			push(big.NewInt(int64(len(rd))))
		case op == 0x3e: // RETURNDATACOPY: the buffer is the immutable output of the last call
			if e := need(3, 0); e != "" {
				return fail(e)
			}
			mo, so, n := pop(), pop(), pop()
			// the implementation sizes (and charges for) the destination range before it looks at the source
			if ok, bm := expand(mo, n); !ok {
				return refOut{kind: "fail:oog", bigmem: bm, steps: steps}
			}
			if add(so, n).Cmp(big.NewInt(int64(len(rd)))) > 0 {
				return fail("fail:retdata-oob")
			}
			if n.Sign() > 0 {
				copy(mem[int(mo.Int64()):], rd[int(so.Int64()):int(so.Int64())+int(n.Int64())])
			}
		case op == 0xf0 || op == 0xf5: // CREATE / CREATE2: the initcode runs in a nested frame
			k := 3
			if op == 0xf5 {
				k = 4
			}
			if e := need(k, 1); e != "" {
				return fail(e)
			}
			value, off, size := pop(), pop(), pop()
			if op == 0xf5 {
				pop()
			}
			if ok, bm := expand(off, size); !ok {
				return refOut{kind: "fail:oog", bigmem: bm, steps: steps}
			}
			if depth > 3 {
				return refOut{kind: "skip", steps: steps}
			}
			var initcode []byte
			if size.Sign() > 0 {
				initcode = append(initcode, mem[int(off.Int64()):int(off.Int64())+int(size.Int64())]...)
			}
			ncalls++
			otherPre = true
			rd = nil
			if value.Cmp(refEnv[11]) > 0 { // more than the creator owns
				push(big.NewInt(0))
				break
			}
			if value.Sign() != 0 {
				return refOut{kind: "skip", steps: steps}
			}
			sub := refFrame(initcode, nil, defined, maxSteps, depth+1)
			switch {
			case sub.kind == "skip":
				return refOut{kind: "skip", steps: steps}
			case sub.kind == "revert": // the only creation failure that leaves return data
				rd = append([]byte{}, sub.ret...)
				push(big.NewInt(0))
			case sub.kind != "ok":
				push(big.NewInt(0))
				refAvail /= 64
			case len(sub.ret) > maxCodeSize:
				push(big.NewInt(0))
				refAvail /= 64
			case uint64(len(sub.ret))*200*uint64(refMag) > refAvail: // the code deposit can not be paid
				push(big.NewInt(0))
				refAvail /= 64
			case uint64(len(sub.ret))*200*uint64(refMag)*4 > refAvail: // payable or not depends on exact gas
				return refOut{kind: "skip", steps: steps}
			default:
				// success: the new address is pushed; the programs of this harness only look at it through ISZERO,
				// so any non-zero stand-in does
				push(big.NewInt(1))
			}
		case op == 0xf1 || op == 0xfa: // CALL / STATICCALL to the identity (4) and SHA-256 (2) precompiles, no value
			k := 6
			if op == 0xf1 {
				k = 7
			}
			if e := need(k, 1); e != "" {
				return fail(e)
			}
			gasArg, addr := pop(), pop()
			if op == 0xf1 {
				if pop().Sign() != 0 {
					return refOut{kind: "skip", steps: steps}
				}
			}
			inOff, inSize, retOff, retSize := pop(), pop(), pop(), pop()
			isCodeless := addr.Cmp(addrZ(codelessAddr.Bytes())) == 0
			isHelper := addr.Cmp(addrZ(helperAddr.Bytes())) == 0
			calleeCode, isCallee := calleeCodes[addr.String()]
			if !(addr.Cmp(big.NewInt(4)) == 0 || addr.Cmp(big.NewInt(2)) == 0 || isCodeless || isHelper || isCallee) || gasArg.Cmp(big.NewInt(100000)) < 0 || depth > 3 {
				return refOut{kind: "skip", steps: steps}
			}
			if ok, bm := expand(inOff, inSize); !ok {
				return refOut{kind: "fail:oog", bigmem: bm, steps: steps}
			}
			if ok, bm := expand(retOff, retSize); !ok {
				return refOut{kind: "fail:oog", bigmem: bm, steps: steps}
			}
			var in []byte
			if inSize.Sign() > 0 {
				in = append(in, mem[int(inOff.Int64()):int(inOff.Int64())+int(inSize.Int64())]...)
			}
			out := in
			success := int64(1)
			switch {
			case addr.Cmp(big.NewInt(2)) == 0:
				h := sha256.Sum256(in)
				out = h[:]
				otherPre = true
			case isCodeless: // no account, no value: nothing runs, empty output, success
				out = nil
				otherPre = true
			case isHelper: // REVERT with the first 5 bytes of the (zero-padded) input: the output is still delivered
				out = make([]byte, 5)
				copy(out, in)
				success = 0
				otherPre = true
			case isCallee: // an installed contract: its code runs in a nested frame
				otherPre = true
				sub := refFrame(calleeCode, in, defined, maxSteps, depth+1)
				switch {
				case sub.kind == "skip":
					return refOut{kind: "skip", steps: steps}
				case sub.kind == "ok":
					out = sub.ret
				case sub.kind == "revert":
					out = sub.ret
					success = 0
				default: // any fault: flag 0, no output, nothing written
					out = nil
					success = 0
					retSize = big.NewInt(0)
				}
			}
			if retSize.Sign() > 0 {
				n := int(retSize.Int64())
				if n > len(out) {
					n = len(out)
				}
				copy(mem[int(retOff.Int64()):], out[:n])
			}
			if addr.Cmp(big.NewInt(4)) == 0 && inSize.Sign() > 0 &&
				hex.EncodeToString(mem[int(inOff.Int64()):int(inOff.Int64())+int(inSize.Int64())]) != hex.EncodeToString(in) {
				hazard = true
			}
			rd = append([]byte{}, out...)
			ncalls++
			push(big.NewInt(success))
		case op == 0x36:
			if e := need(0, 1); e != "" {
				return fail(e)
			}
			push(big.NewInt(int64(len(input))))
		case op == 0x38:
			if e := need(0, 1); e != "" {
				return fail(e)
			}
			push(big.NewInt(int64(len(code))))
		case op == 0x37 || op == 0x39: // CALLDATACOPY / CODECOPY
			if e := need(3, 0); e != "" {
				return fail(e)
			}
			mo, so, n := pop(), pop(), pop()
			ok, bm := expand(mo, n)
			if !ok {
				return refOut{kind: "fail:oog", bigmem: bm, steps: steps}
			}
			src := input
			if op == 0x39 {
				src = code
			}
			if n.Sign() > 0 {
				copy(mem[int(mo.Int64()):], getData(src, so, n))
			}
		case op == 0x5e: // MCOPY
			if e := need(3, 0); e != "" {
				return fail(e)
			}
			dst, src, n := pop(), pop(), pop()
			hi := dst
			if src.Cmp(dst) > 0 {
				hi = src
			}
			ok, bm := expand(hi, n)
			if !ok {
				return refOut{kind: "fail:oog", bigmem: bm, steps: steps}
			}
			if n.Sign() > 0 {
				tmp := append([]byte{}, mem[int(src.Int64()):int(src.Int64())+int(n.Int64())]...)
				copy(mem[int(dst.Int64()):], tmp)
			}
		case op == 0x20: // KECCAK256
			if e := need(2, 1); e != "" {
				return fail(e)
			}
			off, n := pop(), pop()
			ok, bm := expand(off, n)
			if !ok {
				return refOut{kind: "fail:oog", bigmem: bm, steps: steps}
			}
			var data []byte
			if n.Sign() > 0 {
				data = mem[int(off.Int64()) : int(off.Int64())+int(n.Int64())]
			}
			push(new(big.Int).SetBytes(keccak256(data)))
		case op == 0x50:
			if e := need(1, 0); e != "" {
				return fail(e)
			}
			pop()
		case op == 0x51:
			if e := need(1, 1); e != "" {
				return fail(e)
			}
			off := pop()
			ok, bm := expand(off, big.NewInt(32))
			if !ok {
				return refOut{kind: "fail:oog", bigmem: bm, steps: steps}
			}
			push(new(big.Int).SetBytes(mem[int(off.Int64()) : int(off.Int64())+32]))
		case op == 0x52:
			if e := need(2, 0); e != "" {
				return fail(e)
			}
			off, v := pop(), pop()
			ok, bm := expand(off, big.NewInt(32))
			if !ok {
				return refOut{kind: "fail:oog", bigmem: bm, steps: steps}
			}
			b := v.Bytes()
			o := int(off.Int64())
			for i := 0; i < 32; i++ {
				mem[o+i] = 0
			}
			copy(mem[o+32-len(b):], b)
		case op == 0x53:
			if e := need(2, 0); e != "" {
				return fail(e)
			}
			off, v := pop(), pop()
			ok, bm := expand(off, big.NewInt(1))
			if !ok {
				return refOut{kind: "fail:oog", bigmem: bm, steps: steps}
			}
			mem[int(off.Int64())] = byte(new(big.Int).And(v, big.NewInt(255)).Int64())
		case op == 0x56 || op == 0x57:
			n := 1
			if op == 0x57 {
				n = 2
			}
			if e := need(n, 0); e != "" {
				return fail(e)
			}
			d := pop()
			take := true
			if op == 0x57 {
				take = pop().Sign() != 0
			}
			if take {
				if d.Cmp(big.NewInt(int64(len(code)))) >= 0 || code[int(d.Int64())] != 0x5b || !bnd[int(d.Int64())] {
					return fail("fail:badjump")
				}
				pc = int(d.Int64())
				continue
			}
		case op == 0x58:
			if e := need(0, 1); e != "" {
				return fail(e)
			}
			push(big.NewInt(int64(pc)))
		case op == 0x59:
			if e := need(0, 1); e != "" {
				return fail(e)
			}
			push(big.NewInt(int64(len(mem))))
		case op == 0x5a: // GAS: outside the gas-free reference
			return refOut{kind: "skip", skipGas: true, steps: steps}
		case op == 0x5b:
		case op == 0x5f:
			if e := need(0, 1); e != "" {
				return fail(e)
			}
			push(big.NewInt(0))
		case op >= 0x60 && op <= 0x7f:
			if e := need(0, 1); e != "" {
				return fail(e)
			}
			n := int(op - 0x5f)
			d := make([]byte, n)
			if pc+1 < len(code) {
				copy(d, code[pc+1:])
			}
			push(new(big.Int).SetBytes(d))
			pc += n
		case op >= 0x80 && op <= 0x8f:
			n := int(op-0x80) + 1
			if e := need(n, n+1); e != "" {
				return fail(e)
			}
			push(new(big.Int).Set(stack[len(stack)-n]))
		case op >= 0x90 && op <= 0x9f:
			n := int(op-0x90) + 1
			if e := need(n+1, n+1); e != "" {
				return fail(e)
			}
			t := len(stack) - 1
			stack[t], stack[t-n] = stack[t-n], stack[t]
		case op == 0xf3 || op == 0xfd:
			if e := need(2, 0); e != "" {
				return fail(e)
			}
			off, n := pop(), pop()
			ok, bm := expand(off, n)
			if !ok {
				return refOut{kind: "fail:oog", bigmem: bm, steps: steps}
			}
			var ret []byte
			if n.Sign() > 0 {
				ret = append(ret, mem[int(off.Int64()):int(off.Int64())+int(n.Int64())]...)
			}
			k := "ok"
			if op == 0xfd {
				k = "revert"
			}
			return refOut{kind: k, ret: ret, steps: steps}
		default:
			return refOut{kind: "skip", steps: steps}
		}
		pc++
	}
}

// Keccak-256 written out here (FIPS-202 permutation, rate 136, Keccak padding 0x01..0x80) so that the
// reference does not share the hashing library with the implementation.
var kRC = [24]uint64{0x0000000000000001, 0x0000000000008082, 0x800000000000808a, 0x8000000080008000, 0x000000000000808b, 0x0000000080000001,
	0x8000000080008081, 0x8000000000008009, 0x000000000000008a, 0x0000000000000088, 0x0000000080008009, 0x000000008000000a,
	0x000000008000808b, 0x800000000000008b, 0x8000000000008089, 0x8000000000008003, 0x8000000000008002, 0x8000000000000080,
	0x000000000000800a, 0x800000008000000a, 0x8000000080008081, 0x8000000000008080, 0x0000000080000001, 0x8000000080008008}
var kRot = [24]uint{1, 3, 6, 10, 15, 21, 28, 36, 45, 55, 2, 14, 27, 41, 56, 8, 25, 43, 62, 18, 39, 61, 20, 44}
var kPil = [24]int{10, 7, 11, 17, 18, 3, 5, 16, 8, 21, 24, 4, 15, 23, 19, 13, 12, 2, 20, 14, 22, 9, 6, 1}

func keccakF(a *[25]uint64) {
	for round := 0; round < 24; round++ {
		var bc [5]uint64
		for i := 0; i < 5; i++ {
			bc[i] = a[i] ^ a[i+5] ^ a[i+10] ^ a[i+15] ^ a[i+20]
		}
		for i := 0; i < 5; i++ {
			t := bc[(i+4)%5] ^ (bc[(i+1)%5]<<1 | bc[(i+1)%5]>>63)
			for j := 0; j < 25; j += 5 {
				a[j+i] ^= t
			}
		}
		t := a[1]
		for i := 0; i < 24; i++ {
			j := kPil[i]
			b := a[j]
			a[j] = t<<kRot[i] | t>>(64-kRot[i])
			t = b
		}
		for j := 0; j < 25; j += 5 {
			for i := 0; i < 5; i++ {
				bc[i] = a[j+i]
			}
			for i := 0; i < 5; i++ {
				a[j+i] ^= (^bc[(i+1)%5]) & bc[(i+2)%5]
			}
		}
		a[0] ^= kRC[round]
	}
}

func keccak256(data []byte) []byte {
	var st [25]uint64
	const rate = 136
	buf := append([]byte{}, data...)
	buf = append(buf, 0x01)
	for len(buf)%rate != 0 {
		buf = append(buf, 0)
	}
	buf[len(buf)-1] |= 0x80
	for off := 0; off < len(buf); off += rate {
		for i := 0; i < rate/8; i++ {
			var w uint64
			for k := 0; k < 8; k++ {
				w |= uint64(buf[off+8*i+k]) << (8 * uint(k))
			}
			st[i] ^= w
		}
		keccakF(&st)
	}
	out := make([]byte, 32)
	for i := 0; i < 4; i++ {
		for k := 0; k < 8; k++ {
			out[8*i+k] = byte(st[i] >> (8 * uint(k)))
		}
	}
	return out
}

// ---------------------------------------------------------------------------------------------
// Program generator.

type gen struct {
	r     *hx.Rng
	c     []byte
	h     int // static stack height
	mcopy bool
	push0 bool
}

var sha3Emitted bool

var binOps = []byte{0x01, 0x02, 0x03, 0x04, 0x05, 0x06, 0x07, 0x0a, 0x0b, 0x10, 0x11, 0x12, 0x13, 0x14, 0x16, 0x17, 0x18, 0x1a, 0x1b, 0x1c, 0x1d}

func (g *gen) emit(b ...byte) { g.c = append(g.c, b...) }
func (g *gen) pushV(v *big.Int) {
	g.emit(pushWord(v, g.r, g.push0)...)
	g.h++
}
func (g *gen) smallOff() *big.Int {
	switch g.r.Intn(8) {
	case 0:
		return big.NewInt(0)
	case 1:
		return big.NewInt(int64(32 * g.r.Intn(8)))
	case 2:
		return big.NewInt(int64(g.r.Intn(40)))
	case 3:
		return big.NewInt(int64(31 + g.r.Intn(3)))
	}
	return big.NewInt(int64(g.r.Intn(300)))
}
func (g *gen) smallLen() *big.Int {
	switch g.r.Intn(6) {
	case 0:
		return big.NewInt(0)
	case 1:
		return big.NewInt(32)
	case 2:
		return big.NewInt(int64(1 + g.r.Intn(3)))
	}
	return big.NewInt(int64(g.r.Intn(100)))
}

// a run of stack-neutral or stack-growing instructions; never lets h exceed cap or drop below floor
func (g *gen) block(n, floor, cap int) {
	for i := 0; i < n; i++ {
		g.instr(floor, cap)
	}
}

func (g *gen) instr(floor, cap int) {
	r := g.r
	avail := g.h - floor
	for tries := 0; tries < 20; tries++ {
		switch k := r.Intn(24); {
		case k < 5:
			if g.h < cap {
				g.pushV(randWord(r))
				return
			}
		case k < 10:
			if avail >= 2 {
				g.emit(binOps[r.Intn(len(binOps))])
				g.h--
				return
			}
		case k == 10:
			if avail >= 3 {
				g.emit(byte(0x08 + r.Intn(2)))
				g.h -= 2
				return
			}
		case k == 11:
			if avail >= 1 {
				g.emit([]byte{0x15, 0x19}[r.Intn(2)])
				return
			}
		case k == 12:
			if avail >= 1 && g.h < cap {
				n := 1 + r.Intn(min(avail, 16))
				g.emit(byte(0x80 + n - 1))
				g.h++
				return
			}
		case k == 13:
			if avail >= 2 {
				n := 1 + r.Intn(min(avail-1, 16))
				g.emit(byte(0x90 + n - 1))
				return
			}
		case k == 14:
			if avail >= 1 {
				g.emit(0x50)
				g.h--
				return
			}
		case k == 15: // MSTORE / MSTORE8 of the top value
			if avail >= 1 && g.h < cap {
				g.pushV(g.smallOff())
				g.emit([]byte{0x52, 0x52, 0x53}[r.Intn(3)])
				g.h -= 2
				return
			}
		case k == 16: // MLOAD
			if g.h < cap {
				g.pushV(g.smallOff())
				g.emit(0x51)
				return
			}
		case k == 17:
			if g.h < cap {
				if r.Intn(3) == 0 {
					g.emit(append(append([]byte{}, envOpcodes...), 0x3d)[r.Intn(len(envOpcodes)+1)])
				} else {
					g.emit([]byte{0x58, 0x59, 0x36, 0x38}[r.Intn(4)])
				}
				g.h++
				return
			}
		case k == 18: // CALLDATALOAD
			if g.h < cap {
				if r.Intn(8) == 0 {
					g.pushV(randWord(r))
				} else {
					g.pushV(g.smallOff())
				}
				g.emit(0x35)
				return
			}
		case k == 19: // copies
			if g.h+3 <= cap {
				op := []byte{0x37, 0x39, 0x5e}[r.Intn(3)]
				if op == 0x5e && !g.mcopy {
					op = 0x39
				}
				if r.Intn(12) == 0 { // RETURNDATACOPY of nothing from an empty buffer: the only non-faulting form here
					g.pushV(big.NewInt(0))
					g.pushV(big.NewInt(0))
					g.pushV(g.smallOff())
					g.emit(0x3e)
					g.h -= 3
					return
				}
				g.pushV(g.smallLen())
				if r.Intn(10) == 0 {
					g.pushV(randWord(r)) // source offset far beyond the data
				} else {
					g.pushV(g.smallOff())
				}
				g.pushV(g.smallOff())
				g.emit(op)
				g.h -= 3
				return
			}
		case k == 20: // forward JUMP over junk that contains JUMPDEST bytes inside push data
			if g.h < cap {
				junk := g.junk()
				at := len(g.c)
				g.emit(push2(at + 3 + 1 + len(junk))...)
				g.emit(0x56)
				g.emit(junk...)
				g.emit(0x5b)
				return
			}
		case k == 21: // JUMPI on the top value over a stack-neutral block
			if avail >= 1 && g.h < cap {
				g.h--
				sub := &gen{r: r, h: g.h, mcopy: g.mcopy, push0: g.push0}
				// the block is assembled separately so that its absolute position is known
				start := len(g.c) + 3 + 1
				sub.c = make([]byte, start) // placeholder prefix keeps absolute offsets right
				body := 1 + r.Intn(4)
				h0 := sub.h
				sub.block(body, h0, cap)
				for sub.h > h0 {
					sub.emit(0x50)
					sub.h--
				}
				blk := sub.c[start:]
				g.emit(push2(start + len(blk))...)
				g.emit(0x57)
				g.emit(blk...)
				g.emit(0x5b)
				return
			}
		case k == 22: // counted loop with a stack-neutral body
			if g.h+1 < cap && r.Intn(3) == 0 {
				cnt := 1 + r.Intn(6)
				g.pushV(big.NewInt(int64(cnt)))
				top := len(g.c)
				g.emit(0x5b)
				h0 := g.h
				sub := &gen{r: r, h: g.h, mcopy: g.mcopy, push0: g.push0}
				sub.c = make([]byte, len(g.c))
				sub.block(1+r.Intn(3), h0, cap)
				for sub.h > h0 {
					sub.emit(0x50)
					sub.h--
				}
				g.emit(sub.c[len(g.c):]...)
				// counter := counter - 1 ; if counter != 0 goto top
				g.emit(0x60, 0x01, 0x90, 0x03, 0x80)
				g.emit(push2(top)...)
				g.emit(0x57)
				g.emit(0x50)
				g.h--
				return
			}
		case k == 23:
			if g.h < cap && r.Intn(4) == 0 {
				g.emit(0x5a)
				g.h++
				return
			}
			if g.h+2 <= cap && r.Intn(3) == 0 { // KECCAK256 of a memory range (direct search only)
				g.pushV(g.smallLen())
				g.pushV(g.smallOff())
				g.emit(0x20)
				g.h--
				sha3Emitted = true
				return
			}
		}
	}
	g.emit(0x5b)
}

func (g *gen) junk() []byte {
	r := g.r
	var j []byte
	for i := r.Intn(3); i >= 0; i-- {
		n := 1 + r.Intn(32)
		j = append(j, byte(0x5f+n))
		d := r.Bytes(n)
		for k := range d {
			if r.Intn(3) == 0 {
				d[k] = 0x5b
			}
		}
		j = append(j, d...)
		if r.Intn(3) == 0 {
			j = append(j, 0xfe)
		}
	}
	return j
}

// programs around the return-data buffer: input written to memory, CALL/STATICCALL to the identity (or SHA-256)
// precompile, the former input area overwritten by memory opcodes, RETURNDATASIZE / RETURNDATACOPY, dump
var genOtherPre bool // the last genRetData program calls SHA-256 (not in the Coq machines)

func genRetData(r *hx.Rng, f vmx.Fork, overlap bool) []byte {
	g := &gen{r: r, mcopy: f.P022, push0: f.P022}
	// touch the whole dump-free area first so that later writes do not reallocate the memory store
	g.pushV(randWord(r))
	g.emit(push2(0x3e0)...)
	g.emit(0x52)
	g.h--
	g.block(r.Intn(4), 0, 8)
	inOff := r.Intn(64)
	inSize := []int{0, 1, 31, 32, 33, 64}[r.Intn(6)]
	if r.Intn(3) != 0 {
		inSize = 1 + r.Intn(96)
	}
	for o := 0; o < inOff+inSize; o += 32 {
		g.pushV(new(big.Int).SetBytes(r.Bytes(32)))
		g.pushV(big.NewInt(int64(o)))
		g.emit(0x52)
		g.h -= 2
	}
	// a non-zero pattern where the output window (and its neighbourhood) will be: whatever a call or a copy does not
	// write must still be there afterwards
	for o := 0x1e0; o < 0x380; o += 32 {
		w := r.Bytes(32)
		for i := range w {
			if w[i] == 0 {
				w[i] = 0xa5
			}
		}
		g.pushV(new(big.Int).SetBytes(w))
		g.emit(push2(o)...)
		g.emit(0x52)
		g.h--
	}
	addrV := big.NewInt(4)
	outLen := inSize
	genOtherPre = false
	switch r.Intn(8) {
	case 0:
		addrV, outLen = big.NewInt(2), 32
		genOtherPre = true
	case 1:
		addrV, outLen = addrZ(codelessAddr.Bytes()), 0
		genOtherPre = true
	case 2:
		addrV, outLen = addrZ(helperAddr.Bytes()), 5
		genOtherPre = true
	}
	retSize := []int{0, 1, outLen - 1, outLen, outLen + 1, outLen + 31, outLen + 64}[r.Intn(7)]
	if retSize < 0 {
		retSize = 0
	}
	retOff := 0x200 + r.Intn(64)
	if overlap && inSize > 1 && !genOtherPre { // output area shifted inside the input window
		retOff = inOff + 1 + r.Intn(inSize-1)
		retSize = 1 + r.Intn(inSize)
	}
	g.pushV(big.NewInt(int64(retSize)))
	g.pushV(big.NewInt(int64(retOff)))
	g.pushV(big.NewInt(int64(inSize)))
	g.pushV(big.NewInt(int64(inOff)))
	op := byte(0xfa)
	if r.Bool() {
		op = 0xf1
		g.pushV(big.NewInt(0))
	}
	g.pushV(addrV)
	if r.Bool() {
		g.emit(0x5a)
		g.h++
	} else {
		g.pushV(big.NewInt(int64(200000 + r.Intn(1000000))))
	}
	g.emit(op)
	if op == 0xf1 {
		g.h -= 6
	} else {
		g.h -= 5
	}
	if r.Bool() {
		g.emit(0x50)
		g.h--
	}
	// overwrite (parts of) the former input area
	for i := 1 + r.Intn(3); i > 0 && inSize > 0; i-- {
		at := inOff + r.Intn(inSize)
		switch r.Intn(4) {
		case 0:
			g.pushV(new(big.Int).SetBytes(r.Bytes(32)))
			g.pushV(big.NewInt(int64(at)))
			g.emit(0x52)
			g.h -= 2
		case 1:
			g.pushV(big.NewInt(int64(r.Intn(256))))
			g.pushV(big.NewInt(int64(at)))
			g.emit(0x53)
			g.h -= 2
		case 2:
			if g.mcopy {
				g.pushV(big.NewInt(int64(1 + r.Intn(40))))
				g.pushV(big.NewInt(int64(0x300 + r.Intn(64))))
				g.pushV(big.NewInt(int64(at)))
				g.emit(0x5e)
				g.h -= 3
			}
		case 3:
			g.pushV(big.NewInt(int64(1 + r.Intn(40))))
			g.pushV(big.NewInt(int64(r.Intn(8))))
			g.pushV(big.NewInt(int64(at)))
			g.emit(0x37)
			g.h -= 3
		}
	}
	// partial writes inside the pattern region: bytes outside the written range must stay
	for i := r.Intn(3); i > 0; i-- {
		at := 0x1e0 + r.Intn(0x180)
		n := []int{0, 1, 2, 31, 32, 33}[r.Intn(6)]
		switch r.Intn(4) {
		case 0:
			g.pushV(big.NewInt(int64(r.Intn(256))))
			g.pushV(big.NewInt(int64(at)))
			g.emit(0x53)
			g.h -= 2
		case 1: // CALLDATACOPY, source partly or wholly beyond the call data (zero fill of exactly n bytes)
			g.pushV(big.NewInt(int64(n)))
			g.pushV(big.NewInt(int64(r.Intn(120))))
			g.pushV(big.NewInt(int64(at)))
			g.emit(0x37)
			g.h -= 3
		case 2: // CODECOPY
			g.pushV(big.NewInt(int64(n)))
			g.pushV(big.NewInt(int64(r.Intn(2000))))
			g.pushV(big.NewInt(int64(at)))
			g.emit(0x39)
			g.h -= 3
		case 3:
			if g.mcopy {
				g.pushV(big.NewInt(int64(n)))
				g.pushV(big.NewInt(int64(r.Intn(0x3c0))))
				g.pushV(big.NewInt(int64(at)))
				g.emit(0x5e)
				g.h -= 3
			}
		}
	}
	g.block(r.Intn(3), g.h, 10)
	g.emit(0x3d)
	g.h++
	n := outLen
	so := 0
	switch r.Intn(6) {
	case 0:
		if outLen > 0 {
			so = r.Intn(outLen)
			n = outLen - so
		}
	case 1:
		n = outLen + 1 // beyond the buffer: fault
	}
	g.pushV(big.NewInt(int64(n)))
	g.pushV(big.NewInt(int64(so)))
	g.pushV(big.NewInt(int64(0x280 + r.Intn(32))))
	g.emit(0x3e)
	g.h -= 3
	g.block(r.Intn(3), g.h, 12)
	g.epilogue(false)
	return g.c
}

// programs with several code objects in ONE call tree: the parent CREATEs / CREATE2s different initcodes (each with its
// own jumps, reverts, oversized or unpayable runtime code, invalid opcodes, unaffordable endowment) and calls two installed
// contracts with different code; after every frame it records the success flag, RETURNDATASIZE and the return data
func genFrames(r *hx.Rng, f vmx.Fork) ([]byte, uint64) {
	g := &gen{r: r, mcopy: f.P022, push0: f.P022}
	emitPush := func(v int64) { g.emit(pushWord(big.NewInt(v), nil, false)...) }
	g.emit(pushWord(big.NewInt(1), nil, false)...)
	g.emit(push2(0x3e0)...)
	g.emit(0x52)
	writeMem := func(b []byte, at int) {
		for o := 0; o < len(b); o += 32 {
			chunk := make([]byte, 32)
			copy(chunk, b[o:])
			g.emit(0x7f)
			g.emit(chunk...)
			g.emit(push2(at + o)...)
			g.emit(0x52)
		}
	}
	ret := func(n int) []byte { return []byte{0x62, byte(n >> 16), byte(n >> 8), byte(n), 0x60, 0x00, 0xf3} }
	icJ1 := append([]byte{0x60, 0x05, 0x56, 0xfe, 0xfe, 0x5b}, ret(10)...)
	icJ2 := append([]byte{0x60, 0x05, 0x56, 0x62, 0x00, 0x5b, 0x00}, ret(10)...)
	icJ3 := []byte{0x60, 0x30, 0x56}
	for len(icJ3) < 0x30 {
		icJ3 = append(icJ3, 0xfe)
	}
	icJ3 = append(append(icJ3, 0x5b), ret(10)...)
	revN := 1 + r.Intn(32)
	icRev := append(append([]byte{0x7f}, r.Bytes(32)...), 0x60, 0x00, 0x52, 0x60, byte(revN), 0x60, 0x00, 0xfd)
	type ic struct {
		code  []byte
		rdLen int
	}
	pool := []ic{{icJ1, 0}, {icJ2, 0}, {icJ3, 0}, {icRev, revN}, {ret(maxCodeSize + 1), 0}, {ret(60000), 0}, {[]byte{0xfe}, 0},
		{ret(r.Intn(40)), 0}, {nil, 0}, {ret(maxCodeSize), 0}}
	calleeValid := []byte{0x60, 0x04, 0x56, 0xfe, 0x5b, 0x60, 0x2a, 0x60, 0x00, 0x52, 0x60, 0x20, 0x60, 0x00, 0xf3}
	calleeBad := []byte{0x60, 0x04, 0x56, 0x61, 0x5b, 0x5b, 0x60, 0x2a, 0x60, 0x00, 0x52, 0x60, 0x20, 0x60, 0x00, 0xf3}
	calleeRev := []byte{0x60, 0x07, 0x60, 0x00, 0x53, 0x60, 0x03, 0x60, 0x00, 0xfd}
	calleeCodes = map[string][]byte{}
	cv := [][]byte{calleeValid, calleeBad, calleeRev}
	calleeCodes[addrZ(calleeA.Bytes()).String()] = cv[r.Intn(3)]
	calleeCodes[addrZ(calleeB.Bytes()).String()] = cv[r.Intn(3)]
	nsteps := 2 + r.Intn(3)
	runGas := uint64(1000000000000000)
	depositProbe := r.Intn(8) == 0 // a single creation whose code deposit (60000 bytes) exceeds the whole gas of the run
	if depositProbe {
		nsteps, runGas = 1, 3000000
	}
	for st := 0; st < nsteps; st++ {
		slot := 0x200 + st*0x60
		if r.Intn(4) == 0 && !depositProbe { // message call to an installed contract
			emitPush(32)
			g.emit(push2(slot + 64)...)
			emitPush(0)
			emitPush(0)
			op := byte(0xfa)
			if r.Bool() {
				op = 0xf1
				emitPush(0)
			}
			g.emit(pushWord(addrZ([]common.Address{calleeA, calleeB}[r.Intn(2)].Bytes()), nil, false)...)
			emitPush(500000)
			g.emit(op)
		} else {
			var c ic
			switch r.Intn(3) { // jumps in two thirds of the creations, so that consecutive initcodes with different layouts meet
			case 0:
				c = pool[r.Intn(len(pool))]
			default:
				c = pool[r.Intn(3)]
			}
			if depositProbe {
				c = pool[5]
			}
			writeMem(c.code, 0)
			value := big.NewInt(0)
			if r.Intn(12) == 0 {
				value = pow2(100) // more than the creator owns
			}
			if r.Intn(3) == 0 {
				g.emit(pushWord(new(big.Int).SetBytes(r.Bytes(4)), nil, false)...)
				emitPush(int64(len(c.code)))
				emitPush(0)
				g.emit(pushWord(value, nil, false)...)
				g.emit(0xf5)
			} else {
				emitPush(int64(len(c.code)))
				emitPush(0)
				g.emit(pushWord(value, nil, false)...)
				g.emit(0xf0)
			}
			g.emit(0x15, 0x15)
			n := c.rdLen
			if value.Sign() != 0 {
				n = 0
			}
			g.emit(push2(slot)...)
			g.emit(0x52)
			g.emit(0x3d)
			g.emit(push2(slot + 32)...)
			g.emit(0x52)
			if r.Intn(10) == 0 {
				n++ // one byte beyond the buffer: the copy must fault
			}
			emitPush(int64(n))
			emitPush(0)
			g.emit(push2(slot + 64)...)
			g.emit(0x3e)
			continue
		}
		g.emit(push2(slot)...)
		g.emit(0x52)
		g.emit(0x3d)
		g.emit(push2(slot + 32)...)
		g.emit(0x52)
	}
	g.h = 0
	g.epilogue(false)
	return g.c, runGas
}

// rdProbe: one callee frame with a known kind of ending (0 call returned, 1 call reverted, 2 call faulted, 3 creation
// succeeded, 4 creation reverted, 5 creation failed otherwise), after which the whole return-data buffer is returned
func rdProbe(r *hx.Rng) (code []byte, gas uint64, kind int, out []byte) {
	var c []byte
	push := func(v *big.Int) { c = append(c, pushWord(v, nil, false)...) }
	writeMem := func(b []byte) {
		for o := 0; o < len(b); o += 32 {
			chunk := make([]byte, 32)
			copy(chunk, b[o:])
			c = append(c, 0x7f)
			c = append(c, chunk...)
			c = append(c, push2(o)...)
			c = append(c, 0x52)
		}
	}
	ret := func(n int) []byte { return []byte{0x62, byte(n >> 16), byte(n >> 8), byte(n), 0x60, 0x00, 0xf3} }
	gas = 1000000000000000
	calleeCodes = map[string][]byte{}
	kind = r.Intn(6)
	value := big.NewInt(0)
	switch kind {
	case 0, 1, 2:
		cc := [][]byte{
			{0x60, 0x04, 0x56, 0xfe, 0x5b, 0x60, 0x2a, 0x60, 0x00, 0x52, 0x60, 0x20, 0x60, 0x00, 0xf3},
			{0x60, 0x07, 0x60, 0x00, 0x53, 0x60, 0x03, 0x60, 0x00, 0xfd},
			{0x60, 0x04, 0x56, 0x61, 0x5b, 0x5b, 0x60, 0x2a, 0x60, 0x00, 0x52, 0x60, 0x20, 0x60, 0x00, 0xf3}}[kind]
		calleeCodes[addrZ(calleeA.Bytes()).String()] = cc
		switch kind {
		case 0:
			out = make([]byte, 32)
			out[31] = 0x2a
		case 1:
			out = []byte{7, 0, 0}
		}
		push(big.NewInt(0))
		push(big.NewInt(0))
		push(big.NewInt(0))
		push(big.NewInt(0))
		op := byte(0xfa)
		if r.Bool() {
			op = 0xf1
			push(big.NewInt(0))
		}
		push(addrZ(calleeA.Bytes()))
		push(big.NewInt(500000))
		c = append(c, op, 0x50)
	default:
		var ic []byte
		switch kind {
		case 3:
			ic = ret(r.Intn(64))
		case 4:
			n := 1 + r.Intn(32)
			w := r.Bytes(32)
			ic = append(append([]byte{0x7f}, w...), 0x60, 0x00, 0x52, 0x60, byte(n), 0x60, 0x00, 0xfd)
			out = w[:n]
		case 5:
			switch r.Intn(5) {
			case 0:
				ic = append([]byte{0x60, 0x05, 0x56, 0x62, 0x00, 0x5b, 0x00}, ret(10)...) // jump into push data
			case 1:
				ic = []byte{0xfe}
			case 2:
				ic = ret(maxCodeSize + 1)
			case 3:
				ic = ret(60000) // code deposit beyond the gas of the whole run
				gas = 3000000
			case 4:
				ic = ret(5)
				value = pow2(100)
			}
		}
		writeMem(ic)
		if r.Intn(3) == 0 {
			push(new(big.Int).SetBytes(r.Bytes(4)))
			push(big.NewInt(int64(len(ic))))
			push(big.NewInt(0))
			push(value)
			c = append(c, 0xf5)
		} else {
			push(big.NewInt(int64(len(ic))))
			push(big.NewInt(0))
			push(value)
			c = append(c, 0xf0)
		}
		c = append(c, 0x50)
	}
	// RETURNDATACOPY(0x380, 0, RETURNDATASIZE); RETURN(0x380, RETURNDATASIZE)
	c = append(c, 0x3d, 0x60, 0x00, 0x61, 0x03, 0x80, 0x3e, 0x3d, 0x61, 0x03, 0x80, 0xf3)
	return c, gas, kind, out
}

const dumpBase = 0x400

// epilogue: memory size and every stack slot are written behind dumpBase and the whole memory is returned
func (g *gen) epilogue(revert bool) {
	g.emit(0x59)
	g.emit(push2(dumpBase)...)
	g.emit(0x52)
	h := g.h
	for k := 0; k < h; k++ {
		g.emit(push2(dumpBase + 32*(k+1))...)
		g.emit(0x52)
	}
	g.emit(push2(dumpBase + 32*(h+1))...)
	g.emit(0x60, 0x00)
	if revert {
		g.emit(0xfd)
	} else {
		g.emit(0xf3)
	}
}

func min(a, b int) int {
	if a < b {
		return a
	}
	return b
}

func genProgram(r *hx.Rng, f vmx.Fork) []byte {
	g := &gen{r: r, mcopy: f.P022, push0: f.P022}
	n := 4 + r.Intn(28)
	g.block(n, 0, 14)
	g.epilogue(r.Intn(8) == 0)
	return g.c
}

// programs that end in a fault or exercise a limit
func genFaulty(r *hx.Rng, f vmx.Fork, undefined []byte) []byte {
	g := &gen{r: r, mcopy: f.P022, push0: f.P022}
	g.block(2+r.Intn(10), 0, 10)
	switch r.Intn(10) {
	case 9: // RETURNDATACOPY beyond the (empty) return buffer
		g.pushV([]*big.Int{big.NewInt(1), big.NewInt(32), randWord(r)}[r.Intn(3)])
		g.pushV([]*big.Int{big.NewInt(0), big.NewInt(1), randWord(r)}[r.Intn(3)])
		g.pushV(g.smallOff())
		g.emit(0x3e)
		g.h -= 3
	case 0: // undefined opcode
		g.emit(undefined[r.Intn(len(undefined))])
	case 1: // underflow
		for g.h > 0 {
			g.emit(0x50)
			g.h--
		}
		g.emit(binOps[r.Intn(len(binOps))])
	case 2: // stack overflow by a push loop
		top := len(g.c)
		g.emit(0x5b)
		g.emit([]byte{0x58, 0x59, 0x36, 0x80, 0x60}[r.Intn(4)]) // never DUP on an empty stack: index < 4 picks 0..3; DUP1 only when h > 0
		if g.c[len(g.c)-1] == 0x80 && g.h == 0 {
			g.c[len(g.c)-1] = 0x58
		}
		g.emit(push2(top)...)
		g.emit(0x56)
	case 3: // jump into push data holding a JUMPDEST byte
		at := len(g.c)
		g.emit(push2(at + 3 + 1 + 1 + r.Intn(2))...)
		g.emit(0x56)
		g.emit(0x62, 0x5b, 0x5b, 0x5b)
		g.emit(0x5b)
	case 4: // jump to a destination whose low 64 bits are a valid JUMPDEST but which does not fit 64 bits
		at := len(g.c)
		d := add(pow2(uint(64+r.Intn(192))), big.NewInt(int64(at+1+9+1)))
		b := d.Bytes()
		for len(b) < 32 {
			b = append([]byte{0}, b...)
		}
		// PUSH32 is 33 bytes, JUMP 1 byte -> JUMPDEST at at+34; recompute with the right offset
		d = add(pow2(uint(64+r.Intn(192))), big.NewInt(int64(at+34)))
		b = d.Bytes()
		for len(b) < 32 {
			b = append([]byte{0}, b...)
		}
		g.emit(0x7f)
		g.emit(b...)
		g.emit(0x56, 0x5b)
	case 5: // jump out of the code / to a non-JUMPDEST byte
		if r.Bool() {
			g.emit(push2(len(g.c) + 200 + r.Intn(5000))...)
		} else {
			g.emit(push2(r.Intn(len(g.c) + 1))...)
		}
		g.emit(0x56)
	case 6: // memory offset too large to pay for / overflowing offsets
		switch r.Intn(4) {
		case 0:
			g.pushV(randWord(r))
			g.pushV(sub(two64, big.NewInt(int64(r.Intn(40)))))
			g.emit(0x52)
			g.h -= 2
		case 1:
			g.pushV(add(two64, big.NewInt(int64(r.Intn(3)))))
			g.emit(0x51)
		case 2:
			g.pushV(big.NewInt(int64(r.Intn(3))))
			g.pushV(randWord(r))
			g.pushV(sub(two64, big.NewInt(int64(r.Intn(3)))))
			g.emit(0x39)
			g.h -= 3
		case 3:
			if r.Bool() {
				g.pushV(pow2(uint(24 + r.Intn(26)))) // far beyond what 10^7 gas pays for
			} else {
				g.pushV(big.NewInt(int64(4096 + r.Intn(28000)))) // payable, several hundred words at once
			}
			g.emit(0x51)
		}
	case 7: // truncated PUSH as the last instruction: pads with zeros and execution stops
		n := 2 + r.Intn(31)
		g.emit(byte(0x5f + n))
		g.emit(r.Bytes(r.Intn(n))...)
		return g.c
	case 8: // RETURN / REVERT with zero length and a huge offset
		g.pushV(big.NewInt(0))
		g.pushV(randWord(r))
		g.emit([]byte{0xf3, 0xfd}[r.Intn(2)])
		return g.c
	}
	g.epilogue(false)
	return g.c
}

// random soup over the modelled opcodes, undefined opcodes and push data
func genSoup(r *hx.Rng, modelled, undefined []byte) []byte {
	var c []byte
	for i := r.Intn(4); i > 0; i-- {
		c = append(c, pushWord(randWord(r), r, false)...)
	}
	n := 1 + r.Intn(40)
	for i := 0; i < n; i++ {
		switch r.Intn(12) {
		case 0:
			c = append(c, undefined[r.Intn(len(undefined))])
		case 1, 2:
			c = append(c, pushWord(big.NewInt(int64(r.Intn(len(c)+20))), r, false)...)
		case 3:
			c = append(c, 0x5b)
		default:
			c = append(c, modelled[r.Intn(len(modelled))])
		}
	}
	return c
}

// ---------------------------------------------------------------------------------------------

// (pops, pushes) of the instructions of the reference set, written from the Yellow Paper's delta/alpha columns
// (independently of the jump table)
func stackArity(op byte) (int, int, bool) {
	if oi, ok := opByCode[op]; ok {
		return oi.arity, 1, true
	}
	for _, e := range envOpcodes {
		if e == op {
			return 0, 1, true
		}
	}
	switch {
	case op == 0x00 || op == 0x5b:
		return 0, 0, true
	case op == 0x20:
		return 2, 1, true
	case op == 0x35 || op == 0x51:
		return 1, 1, true
	case op == 0x36 || op == 0x38 || op == 0x3d || op == 0x58 || op == 0x59 || op == 0x5a || op == 0x5f:
		return 0, 1, true
	case op == 0x37 || op == 0x39 || op == 0x3e || op == 0x5e:
		return 3, 0, true
	case op == 0x50 || op == 0x56:
		return 1, 0, true
	case op == 0x52 || op == 0x53 || op == 0x57 || op == 0xf3 || op == 0xfd:
		return 2, 0, true
	case op >= 0x60 && op <= 0x7f:
		return 0, 1, true
	case op >= 0x80 && op <= 0x8f:
		return int(op-0x80) + 1, int(op-0x80) + 2, true
	case op >= 0x90 && op <= 0x9f:
		return int(op-0x90) + 2, int(op-0x90) + 2, true
	case op == 0xf1:
		return 7, 1, true
	case op == 0xfa:
		return 6, 1, true
	}
	return 0, 0, false
}

// stackProbe: h items on the stack (PC pushes, one byte each), then op, then room is made and a marker returned
func stackProbe(op byte, h int, r *hx.Rng) []byte {
	c := make([]byte, 0, h+64)
	for i := 0; i < h; i++ {
		c = append(c, 0x58)
	}
	c = append(c, op)
	if op >= 0x60 && op <= 0x7f {
		c = append(c, r.Bytes(int(op-0x5f))...)
	}
	p, q, _ := stackArity(op)
	after := h - p + q
	for ; after > 1021; after-- {
		c = append(c, 0x50)
	}
	return append(c, 0x60, 0xaa, 0x60, 0x00, 0x52, 0x60, 0x20, 0x60, 0x00, 0xf3)
}

var hookPanicNoted bool

func safeValidJumpdest(code []byte, d *uint256.Int) (ok bool, pan string) {
	defer func() {
		if p := recover(); p != nil {
			pan = fmt.Sprint(p)
		}
	}()
	return vm.VerifVMValidJumpdest(code, d), ""
}

func zs(v *big.Int) string { return "(" + v.String() + ")%Z" }

func tableCoq(t [256]vm.VerifVMOp, mag int) string {
	var sb strings.Builder
	sb.WriteString("(mkParams [")
	for i, o := range t {
		if i > 0 {
			sb.WriteString(";")
		}
		if !o.Defined {
			sb.WriteString("NR")
		} else {
			fmt.Fprintf(&sb, "R true %d %d %d", o.ConstantGas, o.MinStack, o.MaxStack)
		}
	}
	fmt.Fprintf(&sb, "] %d)", mag)
	return sb.String()
}

var modelledOps []byte

func init() {
	for _, o := range ops {
		modelledOps = append(modelledOps, o.code)
	}
	modelledOps = append(modelledOps, envOpcodes...)
	modelledOps = append(modelledOps, 0x20, 0x3d, 0x3e, 0x00, 0x35, 0x36, 0x37, 0x38, 0x39, 0x50, 0x51, 0x52, 0x53, 0x56, 0x57, 0x58, 0x59, 0x5a, 0x5b, 0xf3, 0xfd)
	for b := 0x60; b <= 0x9f; b++ {
		modelledOps = append(modelledOps, byte(b))
	}
}

func main() {
	a := hx.ParseArgs()
	rng := hx.NewRng(a.Seed)
	res := hx.NewResult("an opcode case is nontrivial when the opcode under test executed on the real EVM and its result word was read back through MSTORE/RETURN; " +
		"a program case when at least 4 instructions executed (reference machine step count) or the run ended in the fault it was built for; " +
		"a jump-analysis case when the code holds at least one PUSH and one 0x5b byte; identity = fork + code + input + gas")
	restore := vmx.Quiet()
	vmx.Boot(0)
	restore()
	thorough := a.Tier == "thorough"
	if hex.EncodeToString(keccak256(nil)) != "c5d2460186f7233c927e7db2dcc703c0e500b653ca82273b7bfad8045d85a470" ||
		hex.EncodeToString(keccak256([]byte("abc"))) != "4e03657aea45a94fc7d47ba826c8d667c0d1e6e33a64a036ec44f58fa12d6c45" {
		panic("harness keccak256 self-test failed")
	}
	for _, n := range []int{1, 135, 136, 137, 272, 500} { // multi-block sanity of the harness's own implementation
		d := hx.NewRng(uint64(n)).Bytes(n)
		h := sha3.NewLegacyKeccak256()
		h.Write(d)
		if hex.EncodeToString(h.Sum(nil)) != hex.EncodeToString(keccak256(d)) {
			panic("harness keccak256 multi-block self-test failed")
		}
	}

	// ---- jump tables of the 8 proposal configurations, as installed in a live interpreter ----
	var tabs [8][256]vm.VerifVMOp
	var defined [8][256]bool
	var undefinedOps [8][]byte
	var tabTerms []string
	for _, f := range vmx.AllForks {
		vmx.SetFork(f)
		st := vmx.NewState()
		evm := vmx.NewEVM(st, st, 1000)
		live := vm.VerifVMLiveTable(evm)
		if live != vm.VerifVMTable(f.P014, f.P022, f.P026) {
			res.Violate("C10/harness:table-export", "live interpreter table differs from VerifVMTable", f.String())
		}
		i := f.Index()
		tabs[i] = live
		for b := 0; b < 256; b++ {
			defined[i][b] = live[b].Defined
			if !live[b].Defined {
				undefinedOps[i] = append(undefinedOps[i], byte(b))
			}
		}
	}
	for i := 0; i < 8; i++ {
		mag := 1
		if i&4 != 0 {
			mag = 30
		}
		tabTerms = append(tabTerms, tableCoq(tabs[i], mag))
	}
	header := "From V.C10 Require Import Model Machine Harness.\nFrom Coq Require Import ZArith List.\nImport ListNotations.\nLocal Open Scope Z_scope.\n" +
		"Definition NR := no_row.\nDefinition tabs : list params := [\n" + strings.Join(tabTerms, ";\n") + "].\n" +
		"Definition chk (fc : nat * ccase) : bool := check (nth (fst fc) tabs (mkParams [] 1)) (snd fc).\nLocal Close Scope Z_scope."
	perShard := 300
	if a.Tier == "thorough" { // all shards are evaluated in parallel by the driver: fewer, larger shards
		perShard = 700
	}
	cs := hx.NewCases(a.Out, header, "nat * ccase", "chk", perShard)
	// model cases are buffered and written in a seeded shuffle so that every shard holds the same mix of
	// cheap (opcode) and expensive (program) cases
	type pending struct {
		term string
		js   interface{}
	}
	var buf []pending
	addCase := func(f vmx.Fork, term string, js interface{}) {
		buf = append(buf, pending{fmt.Sprintf("(%d%%nat, %s)", f.Index(), term), js})
	}
	gridSel := 0
	thin := func() bool { // quick tier: one third of the grid goes to the model (all of it is searched directly)
		gridSel++
		return thorough || (gridSel+int(a.Seed))%3 == 0
	}
	allOn := vmx.Fork{P014: true, P022: true, P026: true}
	for _, f := range vmx.AllForks { // the live jump table of every configuration agrees with delta/alpha of the Yellow-Paper machine
		addCase(f, "CTable", map[string]interface{}{"kind": "table", "fork": f.String()})
	}
	pickFork := func() vmx.Fork {
		if rng.Intn(2) == 0 {
			return allOn
		}
		return vmx.AllForks[rng.Intn(8)]
	}

	// =========================================================================================
	// (i)/(ii) single opcodes: boundary grid on every operand position, random operands,
	// the repository's own vectors
	opCase := func(f vmx.Fork, o opInfo, x, y, z *big.Int, toModel bool, tag string) {
		vmx.SetFork(f)
		code := opProgram(o, x, y, z, rng, f.P022)
		ob := runEVM(code, nil, 10000000)
		want := specOp(o.code, x, y, z)
		in := map[string]interface{}{"op": o.name, "x": "0x" + x.Text(16), "y": "0x" + y.Text(16), "z": "0x" + z.Text(16), "fork": f.String(), "code": hex.EncodeToString(code)}
		id := fmt.Sprintf("op %s %s %s %s", o.name, x.Text(16), y.Text(16), z.Text(16))
		if ob.class != "ok" || len(ob.ret) != 32 {
			res.Count("op:"+o.name+":abnormal", id, true)
			in["observed"] = ob.class + " " + ob.pan
			res.Violate("C10/opcode:"+o.name, "the opcode program did not return a word ("+ob.class+" "+ob.pan+")", in)
			return
		}
		got := new(big.Int).SetBytes(ob.ret)
		res.Count("op:"+o.name+":"+tag, id, true)
		if got.Cmp(want) != 0 {
			in["observed"] = "0x" + got.Text(16)
			in["expected"] = "0x" + want.Text(16)
			res.Violate("C10/opcode:"+o.name, fmt.Sprintf("%s(top=0x%s, 0x%s, 0x%s) = 0x%s on the EVM, specification 0x%s", o.name, x.Text(16), y.Text(16), z.Text(16), got.Text(16), want.Text(16)), in)
		}
		if toModel {
			in["result"] = "0x" + got.Text(16)
			addCase(f, fmt.Sprintf("COp %d %s %s %s %s", o.code, zs(x), zs(y), zs(z), zs(got)), in)
		}
		if o.name == "SDIV" || o.name == "SAR" || o.name == "EXP" {
			res.Sample(in)
		}
	}
	zero := big.NewInt(0)
	ternModel := []*big.Int{big.NewInt(0), big.NewInt(1), two255, maxW}
	for _, o := range ops {
		switch o.arity {
		case 1:
			for _, x := range append(append([]*big.Int{}, grid...), extra...) {
				opCase(allOn, o, x, zero, zero, true, "grid")
			}
		case 2:
			for _, x := range grid {
				for _, y := range grid {
					opCase(allOn, o, x, y, zero, thin(), "grid")
				}
			}
		case 3:
			// the full 16^3 grid runs on the implementation against the specification; the model
			// evaluates the slice in which at most one operand leaves the small set
			for _, x := range grid {
				for _, y := range grid {
					for _, z := range grid {
						inSmall := func(v *big.Int) bool {
							for _, s := range ternModel {
								if s.Cmp(v) == 0 {
									return true
								}
							}
							return false
						}
						k := 0
						for _, v := range []*big.Int{x, y, z} {
							if !inSmall(v) {
								k++
							}
						}
						opCase(allOn, o, x, y, z, k <= 1 && thin(), "grid")
					}
				}
			}
		}
	}
	if thorough {
		all := append(append([]*big.Int{}, grid...), extra...)
		for _, o := range ops {
			if o.arity != 2 {
				continue
			}
			for _, x := range all {
				for _, y := range all {
					opCase(pickFork(), o, x, y, zero, false, "grid-extended")
				}
			}
		}
	}
	nRand := a.N
	for i := 0; i < nRand; i++ {
		o := ops[rng.Intn(len(ops))]
		x, y, z := randWord(rng), randWord(rng), randWord(rng)
		switch o.name {
		case "BYTE", "SIGNEXTEND":
			if rng.Intn(2) == 0 {
				x = big.NewInt(int64(rng.Intn(40)))
			}
		case "SHL", "SHR", "SAR":
			if rng.Intn(2) == 0 {
				x = big.NewInt(int64(rng.Intn(300)))
			}
		case "EXP":
			if rng.Intn(2) == 0 {
				y = big.NewInt(int64(rng.Intn(600)))
			}
		case "ADDMOD", "MULMOD":
			if rng.Intn(3) == 0 { // make the sum / product cross 2^256 or equal a multiple of the modulus
				x = sub(two256, big.NewInt(int64(1+rng.Intn(5))))
			}
			if rng.Intn(6) == 0 {
				z = new(big.Int).Set(x)
			}
		case "DIV", "MOD", "SDIV", "SMOD", "EQ", "LT", "GT", "SLT", "SGT":
			if rng.Intn(8) == 0 {
				y = new(big.Int).Set(x)
			}
		}
		if o.arity < 3 {
			z = zero
		}
		if o.arity < 2 {
			y = zero
		}
		opCase(pickFork(), o, x, y, z, true, "random")
	}
	// the repository's own vectors (src/vm/testdata/testcases_*.json), which no passing test runs
	vecNames := map[string]byte{"add": 0x01, "mul": 0x02, "sub": 0x03, "div": 0x04, "sdiv": 0x05, "mod": 0x06, "smod": 0x07, "exp": 0x0a,
		"signext": 0x0b, "lt": 0x10, "gt": 0x11, "slt": 0x12, "sgt": 0x13, "eq": 0x14, "and": 0x16, "or": 0x17, "xor": 0x18, "byte": 0x1a,
		"shl": 0x1b, "shr": 0x1c, "sar": 0x1d}
	repo := os.Getenv("VERIF_REPO")
	if repo == "" {
		repo = "/repo"
	}
	vnames := []string{}
	for k := range vecNames {
		vnames = append(vnames, k)
	}
	sort.Strings(vnames)
	nvec := 0
	for _, name := range vnames {
		raw, err := os.ReadFile(filepath.Join(repo, "src/vm/testdata", "testcases_"+name+".json"))
		if err != nil {
			res.Note("vector file missing: " + name)
			continue
		}
		var vecs []struct{ X, Y, Expected string }
		if json.Unmarshal(raw, &vecs) != nil {
			res.Note("vector file unreadable: " + name)
			continue
		}
		o := opByCode[vecNames[name]]
		for i, v := range vecs {
			X, _ := new(big.Int).SetString(v.X, 16)
			Y, _ := new(big.Int).SetString(v.Y, 16)
			E, _ := new(big.Int).SetString(v.Expected, 16)
			// the vectors push X then Y: Y is the top of the stack
			if specOp(o.code, Y, X, zero).Cmp(E) != 0 {
				res.Note(fmt.Sprintf("vector %s[%d] disagrees with the specification in this harness", name, i))
			}
			opCase(allOn, o, Y, X, zero, thorough || i%3 == 0, "vector")
			nvec++
		}
	}
	res.Note(fmt.Sprintf("%d repository vectors replayed", nvec))

	// =========================================================================================
	// (iii) programs
	progCase := func(f vmx.Fork, code, input []byte, gas uint64, kind string, toModel bool) obs {
		vmx.SetFork(f)
		ob := runEVM(code, input, gas)
		refEnv = envWords(gas)
		refAvail = gas
		refMag = 1
		if f.P026 {
			refMag = 30
		}
		in := map[string]interface{}{"fork": f.String(), "code": hex.EncodeToString(code), "input": hex.EncodeToString(input), "gas": gas, "kind": kind, "value": curValue.String(),
			"observed": ob.class, "ret": hex.EncodeToString(ob.ret), "gas_left": ob.left}
		id := fmt.Sprintf("prog %d %x %x %d %s", f.Index(), code, input, gas, curValue.String())
		ref := refRun(code, input, &defined[f.Index()], 60000)
		nontrivial := ref.steps >= 4
		res.Count("prog:"+kind+":"+ob.class, id, nontrivial)
		if ob.class == "panic" {
			res.Violate("C10/program:panic", "the interpreter panicked on a program over the computational opcode set: "+ob.pan, in)
			return ob
		}
		if ob.left > gas {
			res.Violate("C10/program:gas-left", "gas left exceeds the gas supplied", in)
		}
		// direct search: the reference machine has no gas, so out-of-gas endings are comparable only
		// when the reference itself saw an unpayable memory region
		switch {
		case ref.kind == "skip":
		case ob.class == "oog" || ob.class == "gasoverflow":
			if !(ref.bigmem) && gas >= 5000000 && ref.steps < 150 {
				in["reference"] = ref.kind
				res.Violate("C10/program:"+kind, "out of gas with ample gas where the reference machine finishes: "+ref.kind, in)
			}
		default:
			want := ref.kind
			got := ob.class
			if got != "ok" && got != "revert" {
				got = "fail:" + got
			}
			if want != got || ((got == "ok" || got == "revert") && hex.EncodeToString(ob.ret) != hex.EncodeToString(ref.ret)) {
				in["reference"] = ref.kind
				in["reference_ret"] = hex.EncodeToString(ref.ret)
				key := "C10/program:" + kind
				what := "real EVM and reference machine disagree: " + got + " vs " + want
				if ref.overlap {
					// CALL to the identity precompile whose output area overlaps its input window: dataCopy.Run hands back
					// the caller's memory window, opCall writes the output into it, and only then is the buffer copied
					key = "C10/returndata:identity-in-out-overlap"
					what = "return data after a CALL to the identity precompile with overlapping input/output areas is not the precompile's output: " + got + " vs " + want
				} else if kind == "frames" || kind == "rdprobe" {
					key = "C10/frames:" + kind
					what = "success flags / return data / memory after creations and calls in one call tree differ from the reference (per-code jump analysis, return data only after a call or a reverted creation): " + got + " vs " + want
				} else if ref.calls > 0 {
					key = "C10/returndata:" + kind
					what = "return data / memory after a precompile call differ from the reference (immutable return-data snapshot): " + got + " vs " + want
				}
				res.Violate(key, what, in)
			}
		}
		modelOK := !ref.otherPre && ref.memlen <= 1<<16 && (ref.kind != "skip" || ref.skipGas || gas <= 39000)
		if toModel && len(code) < 1400 && modelOK {
			ctor := "CProg"
			if ref.overlap { // the Yellow-Paper machine is expected to differ: known finding
				ctor = "CProgImpl"
			}
			addCase(f, fmt.Sprintf("%s %s %s %d %s (%s)", ctor, hx.CoqHex(code), hx.CoqHex(input), gas, envCoq(gas), ob.coq()), in)
		}
		if kind == "structured" && ob.class == "ok" && len(ob.ret) > dumpBase {
			res.Sample(in)
		}
		return ob
	}
	nProg := a.N
	for i := 0; i < nProg; i++ {
		f := pickFork()
		input := rng.Bytes([]int{0, 4, 31, 32, 33, 68, 100}[rng.Intn(7)])
		switch rng.Intn(4) {
		case 0:
			curValue = big.NewInt(int64(1 + rng.Intn(1000)))
		case 1:
			curValue = new(big.Int).Rsh(new(big.Int).SetBytes(rng.Bytes(11)), uint(rng.Intn(40)))
		default:
			curValue = new(big.Int)
		}
		var code []byte
		kind := "structured"
		sha3Emitted = false
		hasCall := false
		framesGas := uint64(0)
		switch k := rng.Intn(13); {
		case k == 12:
			code, framesGas = genFrames(rng, f)
			kind = "frames"
			hasCall = true
			genOtherPre = true
		case k >= 10:
			ov := rng.Intn(5) == 0
			code = genRetData(rng, f, ov)
			kind = "retdata"
			hasCall = true
		case k < 6:
			code = genProgram(rng, f)
		case k < 9:
			code = genFaulty(rng, f, undefinedOps[f.Index()])
			kind = "faulty"
		default:
			code = genSoup(rng, modelledOps, undefinedOps[f.Index()])
			kind = "soup"
		}
		gas := uint64(10000000)
		if framesGas != 0 {
			gas = framesGas
		}
		if kind == "soup" && rng.Intn(2) == 0 {
			gas = []uint64{0, 1, 2, 5, 20, 100, 1000, 100000}[rng.Intn(8)]
		}
		toModel := !(hasCall && genOtherPre)
		ob := progCase(f, code, input, gas, kind, toModel)
		// gas boundary: exactly enough, one short, half
		if ob.class == "ok" && rng.Intn(3) == 0 && !strings.Contains(kind, "soup") && !hasCall {
			used := gas - ob.left
			hasGasOp := false
			for _, b := range code {
				if b == 0x5a || b == 0x45 { // GAS, GASLIMIT: the result depends on the gas supplied
					hasGasOp = true
				}
			}
			if !hasGasOp {
				ob2 := progCase(f, code, input, used, kind+"-exactgas", true)
				if ob2.class != "ok" || ob2.left != 0 || hex.EncodeToString(ob2.ret) != hex.EncodeToString(ob.ret) {
					res.Violate("C10/program:gas-exact", "a run given exactly the gas it used before does not end the same way", map[string]interface{}{"code": hex.EncodeToString(code), "gas": used, "fork": f.String(), "observed": ob2.class})
				}
				if used > 0 {
					ob3 := progCase(f, code, input, used-1-uint64(rng.Intn(int(min(int(used), 50)))), kind+"-shortgas", true)
					if ob3.class != "oog" {
						res.Violate("C10/program:gas-short", "a run given less gas than it needs does not end out of gas", map[string]interface{}{"code": hex.EncodeToString(code), "gas": used - 1, "fork": f.String(), "observed": ob3.class})
					}
				}
			}
		}
	}

	// return data after exactly one callee frame of every kind of ending (model: rd_after)
	curValue = new(big.Int)
	for i := 0; i < a.N/16+6; i++ {
		f := pickFork()
		code, gas, kind, out := rdProbe(rng)
		genOtherPre = true
		ob := progCase(f, code, nil, gas, "rdprobe", false)
		js := map[string]interface{}{"kind": "rdprobe", "ending": kind, "code": hex.EncodeToString(code), "fork": f.String(), "gas": gas,
			"expected": hex.EncodeToString(out), "observed": ob.class, "ret_len": len(ob.ret)}
		if ob.class != "ok" || hex.EncodeToString(ob.ret) != hex.EncodeToString(out) {
			js["ret_head"] = hex.EncodeToString(ob.ret[:min(len(ob.ret), 64)])
			res.Violate(fmt.Sprintf("C10/returndata:after-frame-%d", kind), fmt.Sprintf("return data after a callee frame of ending %d (0 call ok, 1 call revert, 2 call fault, 3 create ok, 4 create revert, 5 create failure): %d bytes, %s; expected %d bytes", kind, len(ob.ret), ob.class, len(out)), js)
		}
		if ob.class == "ok" && len(ob.ret) < 2000 {
			addCase(f, fmt.Sprintf("CRd %d %s %s", kind, hx.CoqHex(out), hx.CoqHex(ob.ret)), js)
		}
	}
	calleeCodes = map[string][]byte{}

	// =========================================================================================
	// stack limits: for every instruction of the reference set in every live table, the stack one item short of and
	// exactly at the height where it must overflow (1024 items afterwards are allowed, 1025 are not), and one item
	// short of / exactly at the number of items it removes
	curValue = new(big.Int)
	for _, f := range vmx.AllForks {
		fi := f.Index()
		for b := 0; b < 256; b++ {
			op := byte(b)
			p, q, ok := stackArity(op)
			if !ok || !defined[fi][b] {
				continue
			}
			name := fmt.Sprintf("0x%02x", b)
			type probe struct {
				h    int
				want string // "overflow", "underflow" or "" (neither)
			}
			var probes []probe
			if q > p {
				probes = append(probes, probe{1024 - (q - p), ""}, probe{1024 - (q - p) + 1, "overflow"})
			}
			if p > 0 {
				probes = append(probes, probe{p - 1, "underflow"})
				if op != 0xf1 && op != 0xfa {
					probes = append(probes, probe{p, ""})
				}
			}
			for _, pr := range probes {
				code := stackProbe(op, pr.h, rng)
				toModel := rng.Intn(80) == 0 || (op == 0x5f && pr.h >= 1023 && rng.Intn(3) == 0)
				ob := progCase(f, code, nil, 10000000, "stacklimit", toModel)
				isOver, isUnder := ob.class == "overflow", ob.class == "underflow"
				if (pr.want == "overflow") != isOver || (pr.want == "underflow") != isUnder {
					res.Violate("C10/stacklimit:"+name, fmt.Sprintf("opcode %s (removes %d, adds %d) on a stack of %d items ended %q; the stack-height rule demands %q", name, p, q, pr.h, ob.class, pr.want),
						map[string]interface{}{"fork": f.String(), "opcode": name, "height": pr.h, "code": hex.EncodeToString(code), "observed": ob.class, "ret": hex.EncodeToString(ob.ret)})
				}
			}
		}
	}

	// =========================================================================================
	// (iv) jump destination analysis
	sha3Emitted = false
	curValue = new(big.Int)
	nJump := a.N / 4
	for i := 0; i < nJump; i++ {
		var code []byte
		n := rng.Intn(90)
		if rng.Intn(10) == 0 {
			n = 200 + rng.Intn(300)
		}
		for len(code) < n {
			switch rng.Intn(6) {
			case 0, 1:
				k := 1 + rng.Intn(32)
				code = append(code, byte(0x5f+k))
				d := rng.Bytes(k)
				for j := range d {
					switch rng.Intn(4) {
					case 0:
						d[j] = 0x5b
					case 1:
						d[j] = byte(0x60 + rng.Intn(32))
					}
				}
				code = append(code, d...)
			case 2, 3:
				code = append(code, 0x5b)
			case 4:
				code = append(code, byte(rng.U64()))
			case 5:
				code = append(code, byte(0x60+rng.Intn(32))) // a PUSH opcode whose "data" is whatever follows
			}
		}
		if rng.Intn(3) == 0 && len(code) > 0 { // cut inside whatever is last: truncated PUSH at the end
			code = code[:len(code)-rng.Intn(min(len(code), 20))]
		}
		if rng.Intn(4) == 0 { // end in a PUSH32 with fewer than 32 bytes of data
			code = append(code, 0x7f)
			code = append(code, rng.Bytes(rng.Intn(32))...)
		}
		bm := vm.VerifVMCodeBitmap(code)
		bnd := boundarySet(code)
		var dests []string
		var djs []interface{}
		hasPush, has5b := false, false
		for _, b := range code {
			if b >= 0x60 && b <= 0x7f {
				hasPush = true
			}
			if b == 0x5b {
				has5b = true
			}
		}
		probe := func(d *big.Int) {
			u, _ := uint256.FromBig(d)
			got, hookPanic := safeValidJumpdest(code, u)
			if hookPanic != "" {
				// the export builds a bare Contract{Code}; a panic here says the analysis path no longer works without
				// the call-tree context. The executed families (frames, jump-exec) carry the failing inputs.
				if !hookPanicNoted {
					res.Note("validJumpdest panicked on a bare contract through the verif export: " + hookPanic)
					hookPanicNoted = true
				}
				return
			}
			want := d.IsUint64() && d.Uint64() < uint64(len(code)) && code[d.Uint64()] == 0x5b && bnd[d.Uint64()]
			if !d.IsUint64() {
				want = false
			}
			if got != want {
				res.Violate("C10/jumpdest:analysis", fmt.Sprintf("validJumpdest(%s) = %v, specification %v", d.String(), got, want), map[string]interface{}{"code": hex.EncodeToString(code), "dest": d.String()})
			}
			dests = append(dests, fmt.Sprintf("(%s, %s)", zs(d), hx.CoqBool(got)))
			djs = append(djs, []interface{}{d.String(), got})
		}
		for d := 0; d <= len(code)+1; d++ {
			if len(code) > 120 && rng.Intn(4) != 0 {
				continue
			}
			probe(big.NewInt(int64(d)))
		}
		for k := 0; k < 3 && len(code) > 0; k++ {
			probe(add(pow2(uint(64+rng.Intn(192))), big.NewInt(int64(rng.Intn(len(code))))))
		}
		probe(sub(two64, big.NewInt(1)))
		id := fmt.Sprintf("jump %x", code)
		res.Count("jumpdest-analysis", id, hasPush && has5b)
		js := map[string]interface{}{"code": hex.EncodeToString(code), "bitmap": hex.EncodeToString(bm), "dests": djs}
		addCase(allOn, fmt.Sprintf("CJump %s %s %s", hx.CoqHex(code), hx.CoqHex(bm), hx.CoqList(dests)), js)
		if i == 0 {
			res.Sample(js)
		}

		// executed: PUSH2 d JUMP in front of a PUSH/JUMPDEST/STOP-only body; the run must succeed exactly
		// when d is a JUMPDEST at an instruction boundary of the whole code
		if i%2 == 0 {
			var body []byte
			for len(body) < 10+rng.Intn(60) {
				switch rng.Intn(5) {
				case 0, 1:
					k := 1 + rng.Intn(32)
					body = append(body, byte(0x5f+k))
					d := rng.Bytes(k)
					for j := range d {
						if rng.Intn(2) == 0 {
							d[j] = 0x5b
						}
					}
					body = append(body, d...)
				case 2, 3:
					body = append(body, 0x5b)
				case 4:
					body = append(body, 0x00)
				}
			}
			if rng.Intn(3) == 0 {
				body = append(body, 0x7f)
				body = append(body, make([]byte, rng.Intn(32))...)
				for j := len(body) - 1; j >= 0 && body[j] == 0; j-- {
					body[j] = 0x5b
				}
			}
			d := 4 + rng.Intn(len(body)+2)
			if rng.Intn(2) == 0 { // aim at a real JUMPDEST half of the time
				pb0 := boundarySet(append(append(push2(0), 0x56), body...))
				var good []int
				for q := 4; q < 4+len(body); q++ {
					if body[q-4] == 0x5b && pb0[q] {
						good = append(good, q)
					}
				}
				if len(good) > 0 {
					d = good[rng.Intn(len(good))]
				}
			}
			prog := append(append(push2(d), 0x56), body...)
			pb := boundarySet(prog)
			want := d < len(prog) && prog[d] == 0x5b && pb[d]
			f := pickFork()
			ob := progCase(f, prog, nil, 100000, "jump-exec", true)
			if want && ob.class != "ok" || !want && ob.class != "badjump" {
				res.Violate("C10/jumpdest:executed", fmt.Sprintf("JUMP to %d ended %s; destination valid per specification: %v", d, ob.class, want),
					map[string]interface{}{"code": hex.EncodeToString(prog), "dest": d, "fork": f.String()})
			}
		}
	}

	sh := hx.NewRng(a.Seed ^ 0x5eed)
	for i := len(buf) - 1; i > 0; i-- {
		j := sh.Intn(i + 1)
		buf[i], buf[j] = buf[j], buf[i]
	}
	for _, p := range buf {
		cs.Add(p.term, p.js)
	}
	res.ModelCases = cs.Total()
	cs.Close()
	keys := make([]string, 0, len(res.Histogram))
	for k := range res.Histogram {
		keys = append(keys, k)
	}
	sort.Strings(keys)
	for _, k := range keys {
		fmt.Printf("%-40s %d\n", k, res.Histogram[k])
	}
	res.Write(a.Out)
}
