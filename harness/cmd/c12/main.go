// C12 harness: failed / static EVM frames leave no trace; per-transaction scratch state does not leak.
//
// Runs generated trees of nested CALL/CALLCODE/DELEGATECALL/STATICCALL/CREATE/CREATE2 frames (compiled to
// byte code, installed as contracts) on the real EVM (src/vm) over a real AccountDB, as sequences of
// transactions with AccountDB.Prepare in between.
//   (a) direct search on the implementation: a StateDB wrapper records the full query tuple at every
//       Snapshot and compares it after every RevertToSnapshot; top-level STATICCALLs must not append a
//       journal entry nor change a query; after Prepare the access list / transient storage / logs of the
//       new hash must be empty; GetLogs(h) and the returned logs must be the logs of surviving frames;
//   (b) correspondence: the same programs, initial state and observations are written as cases for the
//       Coq model (coq/C12/Model.v).
package main

import (
	"bytes"
	"encoding/hex"
	"fmt"
	"math/big"
	"os"
	"sort"
	"strings"

	"com.tuntun.rangers/node/src/common"
	crypto "com.tuntun.rangers/node/src/eth_crypto"
	"com.tuntun.rangers/node/src/middleware"
	"com.tuntun.rangers/node/src/middleware/db"
	"com.tuntun.rangers/node/src/middleware/types"
	"com.tuntun.rangers/node/src/service"
	"com.tuntun.rangers/node/src/storage/account"
	"com.tuntun.rangers/node/src/utility"
	"com.tuntun.rangers/node/src/vm"

	"verif/harness/hx"
)

// ---------- boot ----------
type stubChain struct{}

func (stubChain) GetBlockHash(h uint64) common.Hash { return common.Hash{} }
func (stubChain) QueryBlockHeaderByHeight(height interface{}, cache bool) *types.BlockHeader {
	return nil
}
func (stubChain) GetAvailableGroupsByMinerId(height uint64, minerId []byte) []*types.Group { return nil }
func (stubChain) GetGroupById(id []byte) *types.Group                                      { return nil }
func (stubChain) GetBlockHeader(height uint64) *types.BlockHeader                          { return nil }

const runHeight = 1000

func boot() {
	common.Init(0, "p.ini", "dev")
	common.SetBlockHeight(runHeight)
	middleware.InitMiddleware()
	service.InitService()
	service.InitRefundManager(stubChain{}, stubChain{})
	vm.InitVM()
}

// ---------- universe ----------
var tokenContract = common.HexToAddress("0x71d9cfd1b7adb1e8eb4c193ce6ffbe19b4aee0db")

const (
	idOrigin  = 1
	idEOA     = 2 // existing account without code
	idAbsent  = 3 // no account object, no balance
	idFunded  = 4 // no account object, but a balance (token slot)
	idC0      = 11
	nContract = 7 // contracts 11..17; 16 and 17 are leaves
	idCreated = 100
)

func addrOf(id int) common.Address {
	var a common.Address
	a[0] = 0xA0
	a[18] = byte(id >> 8)
	a[19] = byte(id)
	return a
}

func keyOf(k uint64) common.Hash   { return common.BigToHash(new(big.Int).SetUint64(k)) }
func hashOf(i uint64) common.Hash  { return common.BytesToHash([]byte{0xee, byte(i >> 8), byte(i)}) }
func wordU(h common.Hash) uint64   { return new(big.Int).SetBytes(h.Bytes()).Uint64() }
func bigU(v uint64) *big.Int       { return new(big.Int).SetUint64(v) }
func isLeaf(id int) bool           { return id >= idC0+nContract-2 }
func contractIDs() []int           { r := []int{}; for i := 0; i < nContract; i++ { r = append(r, idC0+i) }; return r }
func baseIDs() []int               { return append([]int{idOrigin, idEOA, idAbsent, idFunded}, contractIDs()...) }

var keys = []uint64{1, 2, 3}

// ---------- programs ----------
type Action struct {
	Op      string // sstore log tstore call create
	K, V    uint64
	Kind    string // call callcode delegate static
	Target  int
	Value   uint64
	Init    int // program id of the creation code
	Create2 bool
	Salt    uint64
}
type Prog struct {
	Acts   []Action
	Fin    string // stop return revert invalid selfdestruct
	FinArg int    // return: program id to deploy (creation code); selfdestruct: beneficiary id
}

func (p Prog) String() string {
	var sb strings.Builder
	for _, a := range p.Acts {
		switch a.Op {
		case "sstore", "tstore":
			fmt.Fprintf(&sb, "%s(%d,%d);", a.Op, a.K, a.V)
		case "log":
			fmt.Fprintf(&sb, "log(%d);", a.K)
		case "call":
			fmt.Fprintf(&sb, "%s(%d,v%d);", a.Kind, a.Target, a.Value)
		case "create":
			fmt.Fprintf(&sb, "create(v%d,p%d,c2=%v,s%d);", a.Value, a.Init, a.Create2, a.Salt)
		}
	}
	fmt.Fprintf(&sb, "%s", p.Fin)
	if p.Fin == "return" || p.Fin == "selfdestruct" {
		fmt.Fprintf(&sb, "(%d)", p.FinArg)
	}
	return sb.String()
}

// ---------- assembler ----------
type asm struct{ b []byte }

func (a *asm) op(o ...byte) *asm { a.b = append(a.b, o...); return a }
func (a *asm) push(v uint64) *asm {
	b := new(big.Int).SetUint64(v).Bytes()
	if len(b) == 0 {
		b = []byte{0}
	}
	a.b = append(a.b, byte(0x5f+len(b)))
	a.b = append(a.b, b...)
	return a
}
func (a *asm) pushAddr(x common.Address) *asm {
	a.b = append(a.b, 0x73)
	a.b = append(a.b, x.Bytes()...)
	return a
}

// mem writes data at memory offset 0 with PUSH32/MSTORE
func (a *asm) mem(data []byte) *asm {
	for off := 0; off < len(data); off += 32 {
		chunk := make([]byte, 32)
		copy(chunk, data[off:])
		a.b = append(a.b, 0x7f)
		a.b = append(a.b, chunk...)
		a.push(uint64(off)).op(0x52)
	}
	return a
}

const (
	opSTOP, opPOP, opSSTORE, opTSTORE, opLOG1                 = 0x00, 0x50, 0x55, 0x5d, 0xa1
	opCREATE, opCALL, opCALLCODE, opRETURN, opDELEGATECALL    = 0xf0, 0xf1, 0xf2, 0xf3, 0xf4
	opCREATE2, opSTATICCALL, opREVERT, opINVALID, opSELFDESTR = 0xf5, 0xfa, 0xfd, 0xfe, 0xff
	opADDRESS, opCALLDATACOPY, opCALLDATASIZE                 = 0x30, 0x37, 0x36
	opADD, opISZERO, opBLOCKHASH                              = 0x01, 0x15, 0x40
	opSTAKE, opUNSTAKE, opUNSTAKEALL, opAUTH, opAUTHCALL      = 0xee, 0xef, 0xeb, 0xf6, 0xf7
)

// gas handed to a callee contract: callers have a smaller index than callees, budgets shrink by 4 per level
func gasFor(target int) uint64 {
	lvl := target - idC0
	if lvl < 0 || lvl >= nContract {
		lvl = nContract - 1
	}
	return uint64(1e14) >> (2 * uint(lvl+1))
}

const topGas = uint64(1e15)

type table struct {
	progs []Prog // program id = index+1
	code  map[int][]byte
	sites map[[2]int]int // (program id, action index) -> probe site
	kinds []string       // site -> call kind ("call", "callcode", "delegate", "static", "create")
}

// Probes: BLOCKHASH(n) has no effect on the state and reaches the harness through Context.GetHash.
// Before a call/create action the code asks for block probeStart+site, after it for block
// probeEnd+2*site+success. (Block numbers 744..999 are in range at height 1000.)
const (
	probeStart = 744
	probeEnd   = 830
	maxSites   = 80
)

func (t *table) site(id, idx int, kind string) int {
	if t.sites == nil {
		t.sites = map[[2]int]int{}
	}
	k := [2]int{id, idx}
	if s, ok := t.sites[k]; ok {
		return s
	}
	s := len(t.kinds)
	if s >= maxSites {
		t.sites[k] = -1
		return -1
	}
	t.sites[k] = s
	t.kinds = append(t.kinds, kind)
	return s
}

func (t *table) compile(id int, asInit bool) []byte {
	p := t.progs[id-1]
	a := &asm{}
	a.push(uint64(0x7000 + id)).op(opPOP) // unique marker: distinct programs have distinct code
	for ai, x := range p.Acts {
		site := -1
		if x.Op == "call" {
			site = t.site(id, ai, x.Kind)
		} else if x.Op == "create" {
			site = t.site(id, ai, "create")
		}
		if site >= 0 {
			a.push(uint64(probeStart + site)).op(opBLOCKHASH, opPOP)
		}
		switch x.Op {
		case "sstore":
			a.push(x.V).push(x.K).op(opSSTORE)
		case "tstore":
			a.push(x.V).push(x.K).op(opTSTORE)
		case "log":
			a.push(x.K).push(0).push(0).op(opLOG1)
		case "call":
			a.push(0).push(0).push(0).push(0)
			switch x.Kind {
			case "call":
				a.push(x.Value).pushAddr(addrOf(x.Target)).push(gasFor(x.Target)).op(opCALL)
			case "callcode":
				a.push(x.Value).pushAddr(addrOf(x.Target)).push(gasFor(x.Target)).op(opCALLCODE)
			case "delegate":
				a.pushAddr(addrOf(x.Target)).push(gasFor(x.Target)).op(opDELEGATECALL)
			case "static":
				a.pushAddr(addrOf(x.Target)).push(gasFor(x.Target)).op(opSTATICCALL)
			}
			if site >= 0 {
				a.push(uint64(probeEnd + 2*site)).op(opADD, opBLOCKHASH)
			}
			a.op(opPOP)
		case "create":
			init := t.compile(x.Init, true)
			a.mem(init)
			if x.Create2 {
				a.push(x.Salt).push(uint64(len(init))).push(0).push(x.Value).op(opCREATE2)
			} else {
				a.push(uint64(len(init))).push(0).push(x.Value).op(opCREATE)
			}
			if site >= 0 {
				a.op(opISZERO, opISZERO).push(uint64(probeEnd + 2*site)).op(opADD, opBLOCKHASH)
			}
			a.op(opPOP)
		}
	}
	switch p.Fin {
	case "stop":
		a.op(opSTOP)
	case "return":
		if asInit {
			rt := t.compile(p.FinArg, false)
			a.mem(rt).push(uint64(len(rt))).push(0).op(opRETURN)
		} else {
			a.push(0).push(0).op(opRETURN)
		}
	case "revert":
		a.push(0).push(0).op(opREVERT)
	case "invalid":
		a.op(opINVALID)
	case "selfdestruct":
		a.pushAddr(addrOf(p.FinArg)).op(opSELFDESTR)
	}
	return a.b
}

// ---------- generator ----------
type gen struct {
	r *hx.Rng
	t *table
}

func (g *gen) pickFin(allowSD bool, failBias int) (string, int) {
	x := g.r.Intn(100)
	switch {
	case x < failBias/2:
		return "revert", 0
	case x < failBias:
		return "invalid", 0
	case allowSD && x < failBias+12:
		return "selfdestruct", []int{idEOA, idAbsent, idOrigin, idC0 + 6, idC0}[g.r.Intn(5)]
	case x < failBias+30:
		return "return", 0
	}
	return "stop", 0
}

func (g *gen) cheap() Action {
	switch g.r.Intn(3) {
	case 0:
		return Action{Op: "sstore", K: keys[g.r.Intn(len(keys))], V: uint64(g.r.Intn(4))}
	case 1:
		return Action{Op: "tstore", K: keys[g.r.Intn(len(keys))], V: uint64(g.r.Intn(3))}
	}
	return Action{Op: "log", K: uint64(1 + g.r.Intn(9))}
}

func (g *gen) value() uint64 {
	switch g.r.Intn(6) {
	case 0, 1, 2:
		return 0
	case 3:
		return uint64(1 + g.r.Intn(5))
	case 4:
		return uint64(20 + g.r.Intn(30))
	}
	return 5000 // more than most contracts hold
}

func (g *gen) callTo(targets []int) Action {
	kinds := []string{"call", "call", "callcode", "delegate", "static", "static"}
	k := kinds[g.r.Intn(len(kinds))]
	a := Action{Op: "call", Kind: k, Target: targets[g.r.Intn(len(targets))]}
	if k == "static" && g.r.Intn(10) < 6 { // static calls mostly go to the leaves (short programs: the write is reached)
		leaves := []int{}
		for _, t := range targets {
			if isLeaf(t) {
				leaves = append(leaves, t)
			}
		}
		if len(leaves) > 0 {
			a.Target = leaves[g.r.Intn(len(leaves))]
		}
	}
	if k == "call" || k == "callcode" {
		a.Value = g.value()
	}
	return a
}

// leaf program: cheap actions only
func (g *gen) leaf() Prog {
	p := Prog{}
	if g.r.Intn(10) < 5 { // one write, then a clean end: the frame succeeds wherever the write is let through
		p.Acts = []Action{g.cheap()}
		p.Fin = []string{"stop", "return"}[g.r.Intn(2)]
		return p
	}
	for i, n := 0, 1+g.r.Intn(4); i < n; i++ {
		p.Acts = append(p.Acts, g.cheap())
	}
	p.Fin, p.FinArg = g.pickFin(true, 45)
	return p
}

// creation code: cheap actions and calls to leaves / plain addresses; returns runtime program rt
func (g *gen) initProg(rt int) Prog {
	p := Prog{}
	targets := []int{idC0 + nContract - 2, idC0 + nContract - 1, idEOA, idAbsent, idFunded}
	for i, n := 0, 1+g.r.Intn(4); i < n; i++ {
		if g.r.Intn(3) == 0 {
			p.Acts = append(p.Acts, g.callTo(targets))
		} else {
			p.Acts = append(p.Acts, g.cheap())
		}
	}
	x := g.r.Intn(100)
	switch {
	case x < 25:
		p.Fin = "revert"
	case x < 40:
		p.Fin = "invalid"
	case x < 48:
		p.Fin, p.FinArg = "selfdestruct", idEOA
	case x < 55:
		p.Fin = "stop"
	default:
		p.Fin, p.FinArg = "return", rt
	}
	return p
}

// program of contract idC0+lvl: may call contracts with a larger index and plain addresses, and create
func (g *gen) inner(lvl int, inits []int) Prog {
	p := Prog{}
	targets := []int{idEOA, idAbsent, idFunded}
	for j := lvl + 1; j < nContract; j++ {
		targets = append(targets, idC0+j, idC0+j)
	}
	burned := false
	calls := 0
	for i, n := 0, 2+g.r.Intn(5); i < n; i++ {
		x := g.r.Intn(10)
		switch {
		case !burned && calls < 3 && x < 5:
			p.Acts = append(p.Acts, g.callTo(targets))
			calls++
		case !burned && x < 7 && len(inits) > 0:
			in := inits[g.r.Intn(len(inits))]
			a := Action{Op: "create", Init: in, Create2: g.r.Bool(), Salt: uint64(g.r.Intn(2)), Value: []uint64{0, 0, 3, 5000}[g.r.Intn(4)]}
			p.Acts = append(p.Acts, a)
			if g.t.progs[in-1].Fin == "invalid" {
				burned = true // the creation burns 63/64 of the frame's gas: only cheap actions afterwards
			}
			if a.Create2 && g.r.Intn(3) == 0 { // the same CREATE2 again: address collision (all gas gone)
				p.Acts = append(p.Acts, a)
				burned = true
			}
		default:
			p.Acts = append(p.Acts, g.cheap())
		}
	}
	p.Fin, p.FinArg = g.pickFin(true, 40)
	return p
}

type txSpec struct {
	Create bool
	Target int
	Value  uint64
	Init   int
	Static bool // top-level evm.StaticCall (direct search only)
}

type caseSpec struct {
	t         *table
	codeAt    map[int]int // contract id -> program id
	txs       []txSpec
	originObj bool
}

func genCase(r *hx.Rng) *caseSpec {
	g := &gen{r: r, t: &table{}}
	cs := &caseSpec{t: g.t, codeAt: map[int]int{}}
	add := func(p Prog) int { g.t.progs = append(g.t.progs, p); return len(g.t.progs) }
	// runtime programs deployed by creations
	rts := []int{add(g.leaf()), add(g.leaf())}
	inits := []int{}
	for i := 0; i < 3; i++ {
		inits = append(inits, add(g.initProg(rts[r.Intn(len(rts))])))
	}
	for lvl := nContract - 1; lvl >= 0; lvl-- {
		var p Prog
		if isLeaf(idC0 + lvl) {
			p = g.leaf()
		} else {
			p = g.inner(lvl, inits)
		}
		cs.codeAt[idC0+lvl] = add(p)
	}
	ntx := 1 + r.Intn(3)
	for i := 0; i < ntx; i++ {
		x := r.Intn(10)
		switch {
		case x < 6:
			cs.txs = append(cs.txs, txSpec{Target: idC0 + r.Intn(3), Value: []uint64{0, 0, 7}[r.Intn(3)]})
		case x < 8:
			cs.txs = append(cs.txs, txSpec{Target: idC0 + 3 + r.Intn(nContract-3), Value: 0})
		case x < 9:
			cs.txs = append(cs.txs, txSpec{Create: true, Init: inits[r.Intn(len(inits))], Value: []uint64{0, 4}[r.Intn(2)]})
		default:
			cs.txs = append(cs.txs, txSpec{Target: []int{idEOA, idAbsent, idFunded}[r.Intn(3)], Value: []uint64{0, 9}[r.Intn(2)]})
		}
	}
	cs.originObj = r.Intn(4) != 0
	return cs
}

// ---------- world ----------
type world struct {
	disk db.Database
	tdb  account.AccountDatabase
	adb  *account.AccountDB
}

func newWorld() *world {
	md, err := db.NewMemDatabase()
	if err != nil {
		panic(err)
	}
	w := &world{disk: md}
	w.tdb = account.NewDatabase(md)
	adb, err := account.NewAccountDB(common.Hash{}, w.tdb)
	if err != nil {
		panic(err)
	}
	adb.AddERC20Binding(common.BLANCE_NAME, tokenContract, 3, 18)
	adb.GetBalance(addrOf(idOrigin)) // loads the process-global binding cache
	adb.SetNonce(tokenContract, 1)
	w.adb = adb
	return w
}

func (w *world) boundary() {
	w.adb.IntermediateRoot(true)
	root, err := w.adb.Commit(true)
	if err != nil {
		panic(err)
	}
	if err := w.tdb.TrieDB().Commit(root, false); err != nil {
		panic(err)
	}
	adb, err := account.NewAccountDB(root, w.tdb)
	if err != nil {
		panic(err)
	}
	w.adb = adb
}

type iacct struct {
	id           int
	exists       bool
	nonce        uint64
	code         int
	bal          uint64
	st           [][2]uint64
}

func (cs *caseSpec) initial(r *hx.Rng) []iacct {
	l := []iacct{
		{id: idOrigin, exists: cs.originObj, nonce: 5, bal: 1000000},
		{id: idEOA, exists: true, nonce: 1, bal: 10},
		{id: idAbsent},
		{id: idFunded, bal: 33},
	}
	if !cs.originObj {
		l[0].nonce = 0
	}
	for _, c := range contractIDs() {
		a := iacct{id: c, exists: true, nonce: 1, code: cs.codeAt[c], bal: []uint64{0, 100, 100, 40}[r.Intn(4)]}
		for _, k := range keys {
			if r.Intn(3) == 0 {
				a.st = append(a.st, [2]uint64{k, uint64(1 + r.Intn(3))})
			}
		}
		l = append(l, a)
	}
	return l
}

func (cs *caseSpec) build(init []iacct) *world {
	w := newWorld()
	for _, a := range init {
		ad := addrOf(a.id)
		if a.exists {
			w.adb.SetNonce(ad, a.nonce)
		}
		if a.code != 0 {
			w.adb.SetCode(ad, cs.t.compile(a.code, false))
		}
		if a.bal != 0 {
			w.adb.SetBalance(ad, bigU(a.bal))
		}
		for _, kv := range a.st {
			w.adb.SetState(ad, keyOf(kv[0]), keyOf(kv[1]))
		}
	}
	w.boundary()
	return w
}

// ---------- observation ----------
type observer struct {
	addrs  []common.Address
	addrID map[common.Address]int
	codeID map[common.Hash]int
	hashes []common.Hash
	hashID map[common.Hash]int
}

func (o *observer) aid(a common.Address) uint64 {
	if id, ok := o.addrID[a]; ok {
		return uint64(id)
	}
	return 9999
}

func (o *observer) obs(adb *account.AccountDB) []uint64 {
	out := []uint64{}
	b := func(x bool) uint64 {
		if x {
			return 1
		}
		return 0
	}
	for _, a := range o.addrs {
		cid := uint64(0)
		if code := adb.GetCode(a); len(code) > 0 {
			if id, ok := o.codeID[crypto.Keccak256Hash(code)]; ok {
				cid = uint64(id)
			} else {
				cid = 9999
			}
		}
		bal := adb.GetBalance(a)
		bu := bal.Uint64()
		if !bal.IsUint64() {
			bu = 1<<63 + 1
		}
		out = append(out, b(adb.Exist(a)), adb.GetNonce(a), cid, b(adb.HasSuicided(a)), bu, b(adb.AddressInAccessList(a)))
		for _, k := range keys {
			out = append(out, wordU(adb.GetState(a, keyOf(k))))
		}
		for _, k := range keys {
			out = append(out, wordU(adb.GetTransientState(a, keyOf(k))))
		}
	}
	out = append(out, adb.GetRefund())
	for _, h := range o.hashes {
		lg := adb.GetLogs(h)
		out = append(out, uint64(len(lg)))
		for _, l := range lg {
			out = append(out, o.flatLog(l)...)
		}
	}
	return out
}

func (o *observer) flatLog(l *types.Log) []uint64 {
	tp := uint64(9999)
	if len(l.Topics) == 1 {
		tp = wordU(l.Topics[0])
	}
	th := uint64(9999)
	if id, ok := o.hashID[l.TxHash]; ok {
		th = uint64(id)
	}
	return []uint64{o.aid(l.Address), tp, th, uint64(l.TxIndex), uint64(l.Index)}
}

func diffAt(a, b []uint64) int {
	for i := range a {
		if i >= len(b) || a[i] != b[i] {
			return i
		}
	}
	if len(b) > len(a) {
		return len(a)
	}
	return -1
}

// names the observable at flat position i
func (o *observer) fieldName(i int) string {
	per := 6 + 2*len(keys)
	if i < per*len(o.addrs) {
		a, f := i/per, i%per
		names := []string{"exist", "nonce", "code", "suicided", "balance", "accesslist"}
		if f < 6 {
			return fmt.Sprintf("%s(%d)", names[f], o.aid(o.addrs[a]))
		}
		if f < 6+len(keys) {
			return fmt.Sprintf("storage(%d,%d)", o.aid(o.addrs[a]), keys[f-6])
		}
		return fmt.Sprintf("transient(%d,%d)", o.aid(o.addrs[a]), keys[f-6-len(keys)])
	}
	if i == per*len(o.addrs) {
		return "refund"
	}
	return "logs"
}

func fieldClass(n string) string {
	if i := strings.Index(n, "("); i >= 0 {
		return n[:i]
	}
	return n
}

// ---------- StateDB wrapper: records created addresses, checks every revert, keeps a shadow log stack ----------
type frameRec struct {
	id      int
	obs     []uint64
	jlen    int
	logMark int
}

type marker struct {
	site    int
	kind    string
	hasSnap bool
	obs     []uint64
	jlen    int
}

type recDB struct {
	*account.AccountDB
	tab      *table
	markers  []marker
	nested   []string // findings of the probe-based checks: key suffix
	nestedD  []string
	failedN  int // nested frames seen to fail (success flag 0)
	staticN  int // nested static frames completed
	o        *observer
	check    bool
	created  []common.Address
	frames   []frameRec
	shadow   []*types.Log // logs of frames that have not been reverted
	undone   int          // journal entries undone by reverts
	reverts  int
	snaps    int
	problems []string // field names that differed after a revert
	detail   []string
}

func (r *recDB) AddAddressToAccessList(a common.Address) {
	r.created = append(r.created, a)
	r.AccountDB.AddAddressToAccessList(a)
}
func (r *recDB) AddLog(l *types.Log) {
	r.shadow = append(r.shadow, l)
	r.AccountDB.AddLog(l)
}
func (r *recDB) Snapshot() int {
	id := r.AccountDB.Snapshot()
	f := frameRec{id: id, jlen: r.AccountDB.VerifJournalLen(), logMark: len(r.shadow)}
	if r.check {
		f.obs = r.o.obs(r.AccountDB)
	}
	r.frames = append(r.frames, f)
	r.snaps++
	if n := len(r.markers); n > 0 && !r.markers[n-1].hasSnap {
		m := &r.markers[n-1]
		m.hasSnap, m.obs, m.jlen = true, f.obs, f.jlen
	}
	return id
}

// probe receives the BLOCKHASH numbers of the generated code
func (r *recDB) probe(n uint64) {
	switch {
	case n >= probeStart && n < probeStart+maxSites:
		site := int(n - probeStart)
		k := "?"
		if site < len(r.tab.kinds) {
			k = r.tab.kinds[site]
		}
		r.markers = append(r.markers, marker{site: site, kind: k})
	case n >= probeEnd && n < probeEnd+2*maxSites:
		site, ok := int(n-probeEnd)/2, (n-probeEnd)%2 == 1
		// frames that died between their probes left stale markers above ours
		i := len(r.markers) - 1
		for i >= 0 && r.markers[i].site != site {
			i--
		}
		if i < 0 {
			return
		}
		m := r.markers[i]
		r.markers = r.markers[:i]
		if !m.hasSnap || !r.check {
			return
		}
		if !ok {
			r.failedN++
		}
		if m.kind == "static" {
			r.staticN++
		}
		if !ok || m.kind == "static" {
			what := "failed-frame:nested-" + m.kind
			if ok {
				what = "static-frame:nested"
			}
			now := r.o.obs(r.AccountDB)
			if d := diffAt(m.obs, now); d >= 0 {
				nm := r.o.fieldName(d)
				r.nested = append(r.nested, what+":"+fieldClass(nm))
				r.nestedD = append(r.nestedD, fmt.Sprintf("%s: a %s frame (success flag %v) ended and %s differs from the value at its Snapshot: %d -> %d", what, m.kind, ok, nm, m.obs[d], now[d]))
			} else if jl := r.AccountDB.VerifJournalLen(); jl != m.jlen {
				r.nested = append(r.nested, what+":journal-length")
				r.nestedD = append(r.nestedD, fmt.Sprintf("%s: a %s frame (success flag %v) ended with %d journal entries, %d at its Snapshot: %v", what, m.kind, ok, jl, m.jlen, uniq(r.AccountDB.VerifJournalKinds(m.jlen))))
			}
		}
	}
}
func (r *recDB) RevertToSnapshot(id int) {
	jl := r.AccountDB.VerifJournalLen()
	r.AccountDB.RevertToSnapshot(id)
	r.reverts++
	for i := len(r.frames) - 1; i >= 0; i-- {
		if r.frames[i].id == id {
			f := r.frames[i]
			r.frames = r.frames[:i]
			r.shadow = r.shadow[:f.logMark]
			r.undone += jl - f.jlen
			if r.AccountDB.VerifJournalLen() != f.jlen {
				r.problems = append(r.problems, "journal-length")
				r.detail = append(r.detail, fmt.Sprintf("journal length %d after revert, %d at snapshot", r.AccountDB.VerifJournalLen(), f.jlen))
			}
			if r.check {
				now := r.o.obs(r.AccountDB)
				if d := diffAt(f.obs, now); d >= 0 {
					n := r.o.fieldName(d)
					r.problems = append(r.problems, fieldClass(n))
					r.detail = append(r.detail, fmt.Sprintf("%s differs after RevertToSnapshot(%d)", n, id))
				}
			}
			return
		}
	}
	r.problems = append(r.problems, "unknown-revision")
}

func newEVM(st vm.StateDB, adb *account.AccountDB, origin common.Address) *vm.EVM {
	getHash := func(n uint64) common.Hash { return common.Hash{} }
	if r, ok := st.(*recDB); ok {
		getHash = func(n uint64) common.Hash { r.probe(n); return common.Hash{} }
	}
	ctx := vm.Context{
		CanTransfer: vm.CanTransfer, Transfer: vm.Transfer,
		GetHash:     getHash,
		Origin:      origin, Coinbase: addrOf(0x77), GasPrice: big.NewInt(1), GasLimit: topGas,
		BlockNumber: new(big.Int).SetUint64(runHeight), Time: big.NewInt(1700000000), Difficulty: big.NewInt(123),
	}
	return vm.NewEVMWithNFT(ctx, st, adb)
}

func errCode(err error) uint64 {
	switch {
	case err == nil:
		return 0
	case err == vm.ErrExecutionReverted:
		return 1
	case err == vm.ErrDepth:
		return 11
	case err == vm.ErrInsufficientBalance:
		return 12
	case err == vm.ErrWriteProtection:
		return 13
	case strings.Contains(err.Error(), "invalid opcode"):
		return 14
	case err == vm.ErrContractAddressCollision:
		return 15
	case err == vm.ErrOutOfGas:
		return 51
	}
	return 50
}

type txRun struct {
	prep, post []uint64
	out        uint64
	retLogs    [][2]uint64
	created    []common.Address
	panicMsg   string
	rec        *recDB
	jGrowth    int
	jKinds     []string
	retRaw     []*types.Log
}

// runTx: Prepare, observe, one top-level call, observe.
func runTx(w *world, o *observer, i int, t txSpec, check bool) txRun {
	adb := w.adb
	adb.Prepare(hashOf(uint64(i+1)), common.Hash{}, i)
	res := txRun{}
	res.prep = o.obs(adb)
	rec := &recDB{AccountDB: adb, o: o, check: check, tab: curTable}
	res.rec = rec
	origin := addrOf(idOrigin)
	evm := newEVM(rec, adb, origin)
	j0 := adb.VerifJournalLen()
	var err error
	var logs []*types.Log
	func() {
		defer func() {
			if p := recover(); p != nil {
				res.panicMsg = fmt.Sprint(p)
			}
		}()
		switch {
		case t.Create:
			_, _, _, logs, err = evm.Create(vm.AccountRef(origin), w.initCode(t.Init), topGas, bigU(t.Value))
		case t.Static:
			_, _, logs, err = evm.StaticCall(vm.AccountRef(origin), addrOf(t.Target), nil, topGas)
		default:
			_, _, logs, err = evm.Call(vm.AccountRef(origin), addrOf(t.Target), nil, topGas, bigU(t.Value))
		}
	}()
	res.jGrowth = adb.VerifJournalLen() - j0
	if res.jGrowth > 0 {
		res.jKinds = adb.VerifJournalKinds(j0)
	}
	res.out = errCode(err)
	res.retRaw = logs
	for _, l := range logs {
		f := o.flatLog(l)
		res.retLogs = append(res.retLogs, [2]uint64{f[0], f[1]})
	}
	res.created = rec.created
	res.post = o.obs(adb)
	return res
}

var curTable *table
var totalFailedNested, totalStaticNested, rootChecks int

func (w *world) initCode(id int) []byte { return curTable.compile(id, true) }

// ---------- Coq terms ----------
func nlist(l []uint64) string {
	s := make([]string, len(l))
	for i, v := range l {
		s[i] = fmt.Sprint(v)
	}
	return "[" + strings.Join(s, ";") + "]"
}

func coqProg(p Prog) string {
	acts := []string{}
	for _, a := range p.Acts {
		switch a.Op {
		case "sstore":
			acts = append(acts, fmt.Sprintf("ASstore %d %d", a.K, a.V))
		case "tstore":
			acts = append(acts, fmt.Sprintf("ATstore %d %d", a.K, a.V))
		case "log":
			acts = append(acts, fmt.Sprintf("ALog %d", a.K))
		case "call":
			k := map[string]string{"call": "KCall", "callcode": "KCallCode", "delegate": "KDelegate", "static": "KStatic"}[a.Kind]
			acts = append(acts, fmt.Sprintf("ACall %s %d %d", k, a.Target, a.Value))
		case "create":
			acts = append(acts, fmt.Sprintf("ACreate %d %d", a.Value, a.Init))
		}
	}
	fin := map[string]string{"stop": "EStop", "revert": "ERevert", "invalid": "EInvalid"}[p.Fin]
	if p.Fin == "return" {
		fin = fmt.Sprintf("(EReturn %d)", p.FinArg)
	}
	if p.Fin == "selfdestruct" {
		fin = fmt.Sprintf("(ESelfdestruct %d)", p.FinArg)
	}
	return "mkProg [" + strings.Join(acts, "; ") + "] " + fin
}

func coqInit(l []iacct) string {
	s := []string{}
	for _, a := range l {
		kv := []string{}
		for _, p := range a.st {
			kv = append(kv, fmt.Sprintf("(%d,%d)", p[0], p[1]))
		}
		s = append(s, fmt.Sprintf("ia %d %s %d %d %d [%s]", a.id, hx.CoqBool(a.exists), a.nonce, a.code, a.bal, strings.Join(kv, ";")))
	}
	return "[" + strings.Join(s, "; ") + "]"
}

// ---------- one generated case ----------
func runCase(seed uint64, res *hx.Result, cs *hx.Cases, n int) {
	runSpec(seed, nil, "", res, cs)
}

// matrixSpecs: every frame kind x every state-modifying action inside it x every way the frame ends, at nesting
// depth 1 (11 -> 17) and depth 2 (11 -> 12 -> 17, the middle frame succeeding or reverting).
func matrixSpecs() ([]*caseSpec, []string) {
	var out []*caseSpec
	var names []string
	kinds := []string{"call", "callcode", "delegate", "static", "create", "create2"}
	inners := []string{"sstore", "tstore", "log", "callvalue", "create", "selfdestruct"}
	fins := []string{"stop", "revert", "invalid"}
	for _, depth := range []string{"d1", "d2-mid-ok", "d2-mid-revert"} {
		for _, k := range kinds {
			for _, in := range inners {
				for _, f := range fins {
					if in == "selfdestruct" && f != "stop" {
						continue
					}
					t := &table{}
					add := func(p Prog) int { t.progs = append(t.progs, p); return len(t.progs) }
					rt := add(Prog{Acts: []Action{{Op: "sstore", K: 1, V: 1}}, Fin: "stop"})
					in2 := add(Prog{Acts: []Action{{Op: "sstore", K: 2, V: 2}}, Fin: "return", FinArg: rt})
					body := Prog{Fin: f}
					switch in {
					case "sstore":
						body.Acts = []Action{{Op: "sstore", K: 2, V: 3}}
					case "tstore":
						body.Acts = []Action{{Op: "tstore", K: 2, V: 2}}
					case "log":
						body.Acts = []Action{{Op: "log", K: 7}}
					case "callvalue":
						body.Acts = []Action{{Op: "call", Kind: "call", Target: idEOA, Value: 3}}
					case "create":
						body.Acts = []Action{{Op: "create", Init: in2, Value: 0}}
					case "selfdestruct":
						body.Acts = []Action{{Op: "sstore", K: 3, V: 1}}
						body.Fin, body.FinArg = "selfdestruct", idEOA
					}
					var act Action
					cs := &caseSpec{t: t, codeAt: map[int]int{}, originObj: true}
					if k == "create" || k == "create2" {
						if body.Fin == "stop" {
							body.Fin, body.FinArg = "return", rt
						}
						act = Action{Op: "create", Init: add(body), Create2: k == "create2", Salt: 1, Value: 3}
						cs.codeAt[idC0+6] = add(Prog{Fin: "stop"})
					} else {
						cs.codeAt[idC0+6] = add(body)
						act = Action{Op: "call", Kind: k, Target: idC0 + 6}
						if k == "call" || k == "callcode" {
							act.Value = 5
						}
					}
					for lvl := 2; lvl < 6; lvl++ {
						cs.codeAt[idC0+lvl] = add(Prog{Acts: []Action{{Op: "log", K: 1}}, Fin: "stop"})
					}
					if depth == "d1" {
						cs.codeAt[idC0] = add(Prog{Acts: []Action{{Op: "sstore", K: 3, V: 1}, act, {Op: "log", K: 2}}, Fin: "stop"})
						cs.codeAt[idC0+1] = add(Prog{Fin: "stop"})
					} else {
						mf := "stop"
						if depth == "d2-mid-revert" {
							mf = "revert"
						}
						cs.codeAt[idC0+1] = add(Prog{Acts: []Action{{Op: "sstore", K: 1, V: 3}, act, {Op: "tstore", K: 2, V: 1}}, Fin: mf})
						cs.codeAt[idC0] = add(Prog{Acts: []Action{{Op: "call", Kind: "call", Target: idC0 + 1}, {Op: "log", K: 2}}, Fin: "stop"})
					}
					cs.txs = []txSpec{{Target: idC0}}
					out = append(out, cs)
					names = append(names, fmt.Sprintf("matrix|%s|%s|%s|%s", depth, k, in, f))
				}
			}
		}
	}
	return out, names
}

func runSpec(seed uint64, fixed *caseSpec, name string, res *hx.Result, cs *hx.Cases) {
	r := hx.NewRng(seed)
	spec := fixed
	if spec == nil {
		spec = genCase(r)
	}
	curTable = spec.t
	init := spec.initial(r)

	o := &observer{addrID: map[common.Address]int{}, codeID: map[common.Hash]int{}, hashID: map[common.Hash]int{}}
	for _, id := range baseIDs() {
		o.addrs = append(o.addrs, addrOf(id))
		o.addrID[addrOf(id)] = id
	}
	for i := range spec.t.progs {
		o.codeID[crypto.Keccak256Hash(spec.t.compile(i+1, false))] = i + 1
	}
	for i := range spec.txs {
		o.hashes = append(o.hashes, hashOf(uint64(i+1)))
		o.hashID[hashOf(uint64(i+1))] = i + 1
	}
	// pass 1: discover the created addresses (deterministic), pass 2: observe over the full universe
	w1 := spec.build(init)
	for i, t := range spec.txs {
		tr := runTx(w1, o, i, t, false)
		for _, a := range tr.created {
			if _, ok := o.addrID[a]; !ok {
				o.addrID[a] = idCreated + len(o.addrID)
				o.addrs = append(o.addrs, a)
			}
		}
	}
	w := spec.build(init)
	var runs []txRun
	prevLogs := map[int][]uint64{}
	features := map[string]bool{}
	desc := []string{}
	nFailed, nStatic := 0, 0
	for i, t := range spec.txs {
		tr := runTx(w, o, i, t, true)
		runs = append(runs, tr)
		in := map[string]interface{}{"seed": seed, "tx": i, "programs": progDump(spec), "txs": spec.txs}
		if tr.panicMsg != "" {
			res.Violate("C12/frame:panic", "EVM call panicked: "+tr.panicMsg, in)
		}
		// failed frames leave no trace
		for k, p := range tr.rec.problems {
			res.Violate("C12/failed-frame:"+p, tr.rec.detail[k], in)
		}
		for k, p := range tr.rec.nested {
			res.Violate("C12/"+p, tr.rec.nestedD[k], in)
		}
		nFailed += tr.rec.failedN
		nStatic += tr.rec.staticN
		// a failed top-level frame (seen from outside the EVM, independently of RevertToSnapshot being called)
		if tr.out != 0 && tr.panicMsg == "" {
			perA := 6 + 2*len(keys)
			for d := range tr.prep {
				if d >= len(tr.post) || tr.prep[d] == tr.post[d] {
					continue
				}
				n := o.fieldName(d)
				// evm.create bumps the creator's nonce and adds the new address to the access list before its snapshot
				if t.Create && (n == fmt.Sprintf("nonce(%d)", idOrigin) || n == fmt.Sprintf("exist(%d)", idOrigin) || (d < perA*len(o.addrs) && d%perA == 5)) {
					continue
				}
				res.Violate("C12/failed-frame:top-level:"+fieldClass(n), fmt.Sprintf("the top-level call failed (error class %d) but %s changed: %d -> %d", tr.out, n, tr.prep[d], tr.post[d]), in)
				break
			}
		}
		// scratch state right after Prepare
		per := 6 + 2*len(keys)
		for ai := range o.addrs {
			base := ai * per
			if tr.prep[base+5] != 0 {
				res.Violate("C12/tx-scratch:access-list-survives-prepare", o.fieldName(base+5)+" set right after Prepare", in)
			}
			for k := range keys {
				if tr.prep[base+6+len(keys)+k] != 0 {
					res.Violate("C12/tx-scratch:transient-storage-survives-prepare", o.fieldName(base+6+len(keys)+k)+" non-zero right after Prepare", in)
				}
			}
		}
		if len(w.adb.GetLogs(hashOf(uint64(i+1)))) != len(tr.rec.shadow) {
			res.Violate("C12/receipt-logs:getlogs-differs-from-surviving-frames", fmt.Sprintf("GetLogs has %d logs, surviving frames emitted %d", len(w.adb.GetLogs(hashOf(uint64(i+1)))), len(tr.rec.shadow)), in)
		} else {
			for k, l := range w.adb.GetLogs(hashOf(uint64(i + 1))) {
				if l != tr.rec.shadow[k] {
					res.Violate("C12/receipt-logs:getlogs-differs-from-surviving-frames", "log identity differs", in)
				}
			}
		}
		if tr.out != 0 && len(tr.rec.shadow) != 0 {
			res.Violate("C12/receipt-logs:failed-tx-keeps-logs", "top-level frame failed but logs survive", in)
		}
		// earlier transactions' logs are untouched
		for j := 0; j < i; j++ {
			cur := []uint64{}
			for _, l := range w.adb.GetLogs(hashOf(uint64(j + 1))) {
				cur = append(cur, o.flatLog(l)...)
			}
			if diffAt(prevLogs[j], cur) >= 0 {
				res.Violate("C12/receipt-logs:earlier-tx-logs-changed", fmt.Sprintf("logs of tx %d changed while tx %d ran", j, i), in)
			}
		}
		cur := []uint64{}
		for _, l := range w.adb.GetLogs(hashOf(uint64(i + 1))) {
			cur = append(cur, o.flatLog(l)...)
		}
		prevLogs[i] = cur
		// second log channel (returned logs -> executeResultData.Logs / pre-Proposal013 receipts)
		if tr.panicMsg == "" {
			surv := tr.rec.shadow
			if tr.out != 0 {
				surv = nil
			}
			if len(tr.retRaw) > len(surv) {
				res.Violate("C12/returned-logs:logs-of-reverted-frames-returned", fmt.Sprintf("the call returned %d logs, surviving frames emitted %d", len(tr.retRaw), len(surv)), in)
			} else if len(tr.retRaw) < len(surv) {
				res.Violate("C12/returned-logs:logs-of-surviving-frames-dropped", fmt.Sprintf("the call returned %d logs, surviving frames emitted %d", len(tr.retRaw), len(surv)), in)
			}
		}
		if tr.rec.undone > 0 {
			features["undone"] = true
		}
		if tr.rec.reverts > 0 {
			features["revert"] = true
		}
		desc = append(desc, fmt.Sprintf("out=%d snaps=%d reverts=%d undone=%d", tr.out, tr.rec.snaps, tr.rec.reverts, tr.rec.undone))
	}
	// state root: a failed top-level call must be a no-op, so leaving it out gives the same root (and the same
	// logs). World B executes the successful transactions only (Prepare is still called for every one).
	anyFailedCall := false
	for i, t := range spec.txs {
		if runs[i].out != 0 && !t.Create {
			anyFailedCall = true
		}
	}
	if anyFailedCall {
		wb := spec.build(init)
		for i, t := range spec.txs {
			if runs[i].out != 0 && !t.Create {
				wb.adb.Prepare(hashOf(uint64(i+1)), common.Hash{}, i)
				continue
			}
			runTx(wb, o, i, t, false)
		}
		ra, rb := w.adb.IntermediateRoot(true), wb.adb.IntermediateRoot(true)
		if ra != rb {
			res.Violate("C12/failed-frame:top-level:state-root", fmt.Sprintf("IntermediateRoot(true) is %s with the failed top-level calls executed and %s with them left out", ra.Hex(), rb.Hex()),
				map[string]interface{}{"seed": seed, "programs": progDump(spec), "txs": spec.txs})
		}
		rootChecks++
	}
	// outcome class
	cls := "no-failed-frame"
	if features["undone"] {
		cls = "failed-frame-undid-changes"
	} else if features["revert"] {
		cls = "failed-frame-without-changes"
	}
	if len(spec.txs) > 1 {
		cls += "|multi-tx"
	}
	if nStatic > 0 {
		cls += "|nested-static"
	}
	totalFailedNested += nFailed
	totalStaticNested += nStatic
	if name != "" {
		cls = "matrix|" + strings.Split(name, "|")[1] + "|" + cls
		res.Count(cls, name, true)
	} else {
		res.Count(cls, fmt.Sprintf("%x", seed), features["undone"])
	}
	if len(res.Samples) < 6 && features["undone"] {
		res.Sample(map[string]interface{}{"seed": seed, "txs": spec.txs, "programs": progDump(spec), "runs": desc})
	}

	// model case
	if cs != nil {
		progs := []string{}
		for _, p := range spec.t.progs {
			progs = append(progs, coqProg(p))
		}
		addrs := []uint64{}
		for _, a := range o.addrs {
			addrs = append(addrs, o.aid(a))
		}
		hashes := []uint64{}
		for i := range spec.txs {
			hashes = append(hashes, uint64(i+1))
		}
		txs := []string{}
		for i, t := range spec.txs {
			tr := runs[i]
			kind := fmt.Sprintf("TCall %d %d", t.Target, t.Value)
			if t.Create {
				kind = fmt.Sprintf("TCreate %d %d", t.Value, t.Init)
			}
			orc := []uint64{}
			for _, a := range tr.created {
				orc = append(orc, o.aid(a))
			}
			rl := []string{}
			for _, p := range tr.retLogs {
				rl = append(rl, fmt.Sprintf("(%d,%d)", p[0], p[1]))
			}
			txs = append(txs, fmt.Sprintf("(mkTx %d %d %d (%s) %s, (%s, %d, [%s], %s))", i+1, i, idOrigin, kind, nlist(orc),
				nlist(tr.prep), tr.out, strings.Join(rl, ";"), nlist(tr.post)))
		}
		term := fmt.Sprintf("Case [%s] %s %s %s %s [%s]", strings.Join(progs, "; "), coqInit(init), nlist(addrs), nlist(keys), nlist(hashes), strings.Join(txs, "; "))
		cs.Add(term, map[string]interface{}{"seed": seed, "matrix": name, "txs": spec.txs, "programs": progDump(spec)})
	}
}

func progDump(spec *caseSpec) map[string]string {
	m := map[string]string{}
	for i, p := range spec.t.progs {
		name := fmt.Sprintf("p%d", i+1)
		for c, id := range spec.codeAt {
			if id == i+1 {
				name = fmt.Sprintf("p%d@%d", i+1, c)
			}
		}
		m[name] = p.String()
	}
	return m
}

// ---------- static frames: top-level STATICCALL into generated trees ----------
func runStaticCase(seed uint64, res *hx.Result) {
	r := hx.NewRng(seed)
	spec := genCase(r)
	curTable = spec.t
	init := spec.initial(r)
	o := &observer{addrID: map[common.Address]int{}, codeID: map[common.Hash]int{}, hashID: map[common.Hash]int{}}
	for _, id := range baseIDs() {
		o.addrs = append(o.addrs, addrOf(id))
		o.addrID[addrOf(id)] = id
	}
	for i := range spec.t.progs {
		o.codeID[crypto.Keccak256Hash(spec.t.compile(i+1, false))] = i + 1
	}
	o.hashes = []common.Hash{hashOf(1)}
	o.hashID[hashOf(1)] = 1
	// the static root: calls of every kind into the generated contracts, no write of its own
	root := Prog{Fin: []string{"stop", "return", "revert"}[r.Intn(3)]}
	g := &gen{r: r, t: spec.t}
	tg := []int{idEOA, idAbsent}
	for j := 1; j < nContract; j++ {
		tg = append(tg, idC0+j, idC0+j)
	}
	for i, n := 0, 2+r.Intn(3); i < n; i++ {
		c := g.callTo(tg)
		if c.Kind == "call" && r.Intn(4) != 0 {
			c.Value = 0 // CALL with value is refused at once in a static frame
		}
		root.Acts = append(root.Acts, c)
	}
	spec.t.progs[spec.codeAt[idC0]-1] = root
	w := spec.build(init)
	target := idC0
	if r.Intn(5) == 0 {
		target = idC0 + 1 + r.Intn(nContract-1)
	}
	tr := runTx(w, o, 0, txSpec{Target: target, Static: true}, true)
	in := map[string]interface{}{"seed": seed, "static_target": target, "programs": progDump(spec)}
	if tr.panicMsg != "" {
		res.Violate("C12/static-frame:panic", tr.panicMsg, in)
	}
	if tr.jGrowth != 0 {
		res.Violate("C12/static-frame:journal-entry:"+strings.Join(uniq(tr.jKinds), "+"), fmt.Sprintf("a top-level STATICCALL appended %d journal entries %v", tr.jGrowth, tr.jKinds), in)
	}
	if d := diffAt(tr.prep, tr.post); d >= 0 {
		res.Violate("C12/static-frame:"+fieldClass(o.fieldName(d)), o.fieldName(d)+" changed by a top-level STATICCALL", in)
	}
	if len(tr.retRaw) != 0 {
		res.Violate("C12/static-frame:returned-logs", "a STATICCALL returned logs", in)
	}
	for k, p := range tr.rec.problems {
		res.Violate("C12/failed-frame:"+p, tr.rec.detail[k], in)
	}
	for k, p := range tr.rec.nested {
		res.Violate("C12/"+p, tr.rec.nestedD[k], in)
	}
	cls := fmt.Sprintf("static-top|out=%d", tr.out)
	res.Count(cls, fmt.Sprintf("s%x", seed), tr.rec.snaps > 1)
}

func uniq(l []string) []string {
	m := map[string]bool{}
	out := []string{}
	for _, s := range l {
		s = strings.TrimPrefix(s, "account.")
		if !m[s] {
			m[s] = true
			out = append(out, s)
		}
	}
	sort.Strings(out)
	return out
}

// ---------- custom opcodes inside a static frame (direct search only) ----------
func authSig(priv []byte, chainId *big.Int, invoker common.Address, commit [32]byte) ([]byte, common.Address) {
	k, err := crypto.ToECDSA(priv)
	if err != nil {
		panic(err)
	}
	msg := make([]byte, 97)
	msg[0] = 0x03
	copy(msg[1:33], utility.LeftPadBytes(chainId.Bytes(), 32))
	copy(msg[33:65], utility.LeftPadBytes(invoker.Bytes(), 32))
	copy(msg[65:], commit[:])
	h := crypto.Keccak256(msg)
	sig, err := crypto.Sign(h, k)
	if err != nil {
		panic(err)
	}
	out := make([]byte, 128)
	out[31] = sig[64]
	copy(out[32:64], sig[0:32])
	copy(out[64:96], sig[32:64])
	copy(out[96:128], commit[:])
	return out, crypto.PubkeyToAddress(k.PublicKey)
}

func customStatic(res *hx.Result) {
	km := addrOf(0x31)   // contract that is a validator's account
	inv := addrOf(0x32)  // AUTH/AUTHCALL invoker
	sink := addrOf(0x33) // receives the AUTHCALL value
	origin := addrOf(idOrigin)
	priv := make([]byte, 32)
	priv[31] = 7
	var commit [32]byte
	sig, authority := authSig(priv, common.GetChainId(runHeight), inv, commit)

	type prog struct {
		name string
		code []byte
		to   common.Address
		in   []byte
	}
	mk := func(f func(a *asm)) []byte { a := &asm{}; f(a); return a.b }
	stakeAmt := new(big.Int).Mul(big.NewInt(5), new(big.Int).Exp(big.NewInt(10), big.NewInt(18), nil)) // 5 tokens
	pushBig := func(a *asm, v *big.Int) {
		b := v.Bytes()
		a.b = append(a.b, byte(0x5f+len(b)))
		a.b = append(a.b, b...)
	}
	progs := []prog{
		{"STAKE", mk(func(a *asm) { a.op(opADDRESS); pushBig(a, stakeAmt); a.op(opSTAKE, opPOP, opSTOP) }), km, nil},
		{"UNSTAKE", mk(func(a *asm) { a.op(opADDRESS); pushBig(a, stakeAmt); a.op(opUNSTAKE, opPOP, opSTOP) }), km, nil},
		{"UNSTAKEALL", mk(func(a *asm) { a.op(opADDRESS); a.op(opUNSTAKEALL, opPOP, opSTOP) }), km, nil},
		{"AUTHCALL", mk(func(a *asm) {
			// calldata (128 bytes signature) -> memory 0; AUTH(authority, 0, 128); AUTHCALL(nonce 0, gas, sink, value 9, 0, 0,0,0,0)
			a.op(opCALLDATASIZE).push(0).push(0).op(opCALLDATACOPY)
			a.push(128).push(0).pushAddr(authority).op(opAUTH, opPOP)
			a.push(0).push(0).push(0).push(0).push(0).push(9).pushAddr(sink).push(100000000).push(0).op(opAUTHCALL, opPOP, opSTOP)
		}), inv, sig},
	}
	for _, p := range progs {
		w := newWorld()
		w.adb.SetBalance(origin, bigU(1000000))
		w.adb.SetNonce(origin, 5)
		w.adb.SetNonce(km, 1)
		w.adb.SetCode(km, p.code)
		w.adb.SetBalance(km, new(big.Int).Mul(big.NewInt(1000), new(big.Int).Exp(big.NewInt(10), big.NewInt(18), nil)))
		w.adb.SetNonce(inv, 1)
		w.adb.SetCode(inv, p.code)
		w.adb.SetNonce(sink, 1)
		id := []byte{0x6b, 0x6d}
		m := &types.Miner{Id: id, PublicKey: []byte{1}, VrfPublicKey: []byte{2}, Type: common.MinerTypeValidator, Stake: common.ValidatorStake * 2, Account: km.Bytes(), Status: common.MinerStatusNormal}
		service.MinerManagerImpl.InsertMiner(m, w.adb)
		w.boundary()
		adb := w.adb
		adb.Prepare(hashOf(1), common.Hash{}, 0)
		stake0 := uint64(0)
		if mm := service.MinerManagerImpl.GetMiner(id, adb); mm != nil {
			stake0 = mm.Stake
		}
		balKM0, balO0, balS0, nA0 := adb.GetBalance(km), adb.GetBalance(origin), adb.GetBalance(sink), adb.GetNonce(authority)
		evm := newEVM(adb, adb, origin)
		j0 := adb.VerifJournalLen()
		var err error
		panicMsg := ""
		func() {
			defer func() {
				if x := recover(); x != nil {
					panicMsg = fmt.Sprint(x)
				}
			}()
			_, _, _, err = evm.StaticCall(vm.AccountRef(origin), p.to, p.in, 3000000000)
		}()
		grow := adb.VerifJournalLen() - j0
		stake1 := uint64(0)
		if mm := service.MinerManagerImpl.GetMiner(id, adb); mm != nil {
			stake1 = mm.Stake
		}
		changed := []string{}
		if stake1 != stake0 {
			changed = append(changed, fmt.Sprintf("miner stake %d -> %d", stake0, stake1))
		}
		if adb.GetBalance(km).Cmp(balKM0) != 0 {
			changed = append(changed, fmt.Sprintf("contract balance %s -> %s", balKM0, adb.GetBalance(km)))
		}
		if adb.GetBalance(origin).Cmp(balO0) != 0 {
			changed = append(changed, fmt.Sprintf("origin (sponsor) balance %s -> %s", balO0, adb.GetBalance(origin)))
		}
		if adb.GetBalance(sink).Cmp(balS0) != 0 {
			changed = append(changed, fmt.Sprintf("callee balance %s -> %s", balS0, adb.GetBalance(sink)))
		}
		if adb.GetNonce(authority) != nA0 {
			changed = append(changed, fmt.Sprintf("authority nonce %d -> %d", nA0, adb.GetNonce(authority)))
		}
		in := map[string]interface{}{"opcode": p.name, "code": hex.EncodeToString(p.code), "calldata": hex.EncodeToString(p.in), "call": "evm.StaticCall(origin, contract)", "err": fmt.Sprint(err)}
		cls := "custom-static|" + p.name + "|clean"
		if panicMsg != "" {
			res.Violate("C12/static-frame:panic", panicMsg, in)
		}
		if grow != 0 || len(changed) > 0 {
			cls = "custom-static|" + p.name + "|modified-state"
			res.Violate("C12/static-frame:custom-opcode:"+p.name, fmt.Sprintf("inside a STATICCALL (err=%v) the opcode appended %d journal entries %v; %s", err, grow, uniq(adb.VerifJournalKinds(j0)), strings.Join(changed, "; ")), in)
		}
		res.Count(cls, "custom-"+p.name, true)
	}
}

// a failed AUTHCALL frame: evm.AuthCall bumps the authority's nonce before its Snapshot (as create does for the
// creator); everything the callee did must be gone.
func authcallFailedFrame(res *hx.Result) {
	inv, callee, origin := addrOf(0x32), addrOf(0x34), addrOf(idOrigin)
	priv := make([]byte, 32)
	priv[31] = 7
	var commit [32]byte
	sig, authority := authSig(priv, common.GetChainId(runHeight), inv, commit)
	a := &asm{}
	a.op(opCALLDATASIZE).push(0).push(0).op(opCALLDATACOPY)
	a.push(128).push(0).pushAddr(authority).op(opAUTH, opPOP)
	a.push(0).push(0).push(0).push(0).push(0).push(9).pushAddr(callee).push(100000000).push(0).op(opAUTHCALL, opPOP, opSTOP)
	c := &asm{}
	c.push(5).push(1).op(opSSTORE).push(4).push(0).push(0).op(opLOG1).push(2).push(1).op(opTSTORE).push(0).push(0).op(opREVERT)
	w := newWorld()
	w.adb.SetBalance(origin, bigU(1000000))
	w.adb.SetNonce(origin, 5)
	w.adb.SetNonce(inv, 1)
	w.adb.SetCode(inv, a.b)
	w.adb.SetNonce(callee, 1)
	w.adb.SetCode(callee, c.b)
	w.boundary()
	adb := w.adb
	adb.Prepare(hashOf(1), common.Hash{}, 0)
	o := &observer{addrID: map[common.Address]int{}, codeID: map[common.Hash]int{}, hashID: map[common.Hash]int{hashOf(1): 1}, hashes: []common.Hash{hashOf(1)}}
	for i, x := range []common.Address{origin, inv, callee, authority} {
		o.addrs = append(o.addrs, x)
		o.addrID[x] = i + 1
	}
	before := o.obs(adb)
	evm := newEVM(adb, adb, origin)
	var err error
	func() {
		defer func() {
			if x := recover(); x != nil {
				err = fmt.Errorf("panic: %v", x)
			}
		}()
		_, _, _, err = evm.Call(vm.AccountRef(origin), inv, sig, 3000000000, big.NewInt(0))
	}()
	after := o.obs(adb)
	in := map[string]interface{}{"invoker": hex.EncodeToString(a.b), "callee": hex.EncodeToString(c.b), "calldata": hex.EncodeToString(sig)}
	cls := "custom|authcall-failed-frame|clean"
	if err != nil {
		res.Violate("C12/failed-frame:authcall:setup", "the invoker call failed: "+err.Error(), in)
	}
	bumped := false
	for d := range before {
		if before[d] == after[d] {
			continue
		}
		n := o.fieldName(d)
		// the authority (address 4): created by the nonce bump, nonce 0 -> 1; the callee enters the access list in gasAuthCall
		if n == "nonce(4)" || n == "exist(4)" {
			bumped = true
			continue
		}
		if n == "accesslist(3)" {
			continue
		}
		cls = "custom|authcall-failed-frame|trace"
		res.Violate("C12/failed-frame:authcall:"+fieldClass(n), fmt.Sprintf("the AUTHCALL callee reverted but %s changed: %d -> %d", n, before[d], after[d]), in)
	}
	if !bumped {
		res.Note("authcall-failed-frame: the authority nonce was not bumped (AUTH did not succeed?)")
		cls = "custom|authcall-failed-frame|auth-not-reached"
	}
	res.Count(cls, "authcall-failed-frame", bumped)
}

// ---------- Prepare at the AccountDB level ----------
func prepareDirect(res *hx.Result) {
	w := newWorld()
	w.boundary()
	adb := w.adb
	a, k, v := addrOf(idC0), keyOf(1), keyOf(7)
	adb.Prepare(hashOf(1), common.Hash{}, 0)
	adb.SetTransientState(a, k, v)
	adb.AddAddressToAccessList(a)
	adb.AddSlotToAccessList(a, k)
	adb.AddLog(&types.Log{Address: a})
	adb.Prepare(hashOf(2), common.Hash{}, 1)
	in := map[string]interface{}{"history": "Prepare(h1); SetTransientState(a,k,7); AddAddressToAccessList(a); AddSlotToAccessList(a,k); AddLog; Prepare(h2)"}
	if adb.GetTransientState(a, k) != (common.Hash{}) {
		res.Violate("C12/tx-scratch:transient-storage-survives-prepare", "GetTransientState(a,k) = "+adb.GetTransientState(a, k).Hex()+" after the next Prepare", in)
	}
	if adb.AddressInAccessList(a) {
		res.Violate("C12/tx-scratch:access-list-survives-prepare", "address still in the access list after Prepare", in)
	}
	if _, s := adb.SlotInAccessList(a, k); s {
		res.Violate("C12/tx-scratch:access-list-survives-prepare", "slot still in the access list after Prepare", in)
	}
	if len(adb.GetLogs(hashOf(2))) != 0 || len(adb.GetLogs(hashOf(1))) != 1 {
		res.Violate("C12/receipt-logs:getlogs-differs-from-surviving-frames", "logs not keyed by the prepared hash", in)
	}
	res.Count("prepare-direct", "prepare-direct", true)
}

func main() {
	a := hx.ParseArgs()
	res := hx.NewResult("a case (1-3 transactions over 7 generated contracts) is non-trivial when at least one call frame failed after it had appended journal entries (state changes were actually undone); static cases when the static tree has nested frames; distinct = distinct generator seed (distinct program tables); the 288 cases of the fixed matrix (frame kind x state-modifying action x ending x depth) and the custom-opcode / Prepare / opcode-table evaluations count as non-trivial, distinct by name")
	boot()
	if a.Tier == "table" {
		tableCase(a.Out, res)
		return
	}
	cs := hx.NewCases(a.Out, "From V.C12 Require Import Model Harness.\nFrom Coq Require Import NArith.\nOpen Scope N_scope.", "tcase", "check", 100)
	rng := hx.NewRng(a.Seed)
	nModel := a.N
	for i := 0; i < nModel; i++ {
		runCase(rng.U64(), res, cs, i)
	}
	ms, mn := matrixSpecs()
	for i, m := range ms {
		runSpec(uint64(7000+i), m, mn[i], res, cs)
	}
	cs.Close()
	for i := 0; i < a.N/2; i++ {
		runStaticCase(rng.U64(), res)
	}
	customStatic(res)
	authcallFailedFrame(res)
	prepareDirect(res)
	tableCase(a.Out, res)
	res.ModelCases = cs.Total() + tableCases
	res.Note(fmt.Sprintf("nested frames checked by probes: %d failed frames, %d static frames; %d state-root comparisons (failed top-level calls left out)", totalFailedNested, totalStaticNested, rootChecks))
	res.Write(a.Out)
	fmt.Printf("c12: %d evaluations, %d model cases, distinct nontrivial %d\n", res.Evaluations, res.ModelCases, res.DistinctNontrivial)
	hk := []string{}
	for k := range res.Histogram {
		hk = append(hk, k)
	}
	sort.Strings(hk)
	for _, k := range hk {
		fmt.Printf("  %-70s %d\n", k, res.Histogram[k])
	}
	_ = bytes.Compare
	_ = os.Getenv
}
