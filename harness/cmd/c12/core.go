// C12 harness: failed / static EVM frames leave no trace; per-transaction scratch state does not leak.
//
// Runs generated trees of nested CALL/CALLCODE/DELEGATECALL/STATICCALL/CREATE/CREATE2/AUTHCALL frames (compiled
// to byte code, installed as contracts) on the real EVM (src/vm) over a real AccountDB, as sequences of
// transactions with AccountDB.Prepare in between, with gas budgets that make frames run out of gas anywhere.
//   (a) direct search on the implementation: a StateDB wrapper records the full query tuple at every
//       Snapshot and compares it after every RevertToSnapshot; BLOCKHASH probes in the generated code tell the
//       harness where every frame starts, how far it got and whether it succeeded, so failed and static nested
//       frames are checked without relying on RevertToSnapshot; top-level STATICCALLs must not append a
//       journal entry nor change a query; after Prepare the access list / transient storage / logs of the
//       new hash must be empty; GetLogs(h) and the returned logs must be the logs of surviving frames;
//   (b) correspondence: the same programs, initial state and observations (plus where each frame ran out of
//       gas and the created addresses, as one oracle list) are written as cases for the Coq model.
package main

import (
	"fmt"
	"math/big"
	"strings"

	"com.tuntun.rangers/node/src/common"
	crypto "com.tuntun.rangers/node/src/eth_crypto"
	"com.tuntun.rangers/node/src/middleware"
	"com.tuntun.rangers/node/src/middleware/types"
	"com.tuntun.rangers/node/src/service"
	"com.tuntun.rangers/node/src/utility"
	"com.tuntun.rangers/node/src/vm"
)

// ---------- boot ----------
type stubChain struct{}

func (stubChain) GetBlockHash(h uint64) common.Hash { return common.Hash{} }
func (stubChain) QueryBlockHeaderByHeight(height interface{}, cache bool) *types.BlockHeader {
	return nil
}
func (stubChain) GetAvailableGroupsByMinerId(height uint64, minerId []byte) []*types.Group { return nil }
func (stubChain) GetGroupById(id []byte) *types.Group                                      { return nil }
func (stubChain) GetBlockHeader(height uint64) *types.BlockHeader                          { return nil }

const runHeight = 1000

func boot() {
	common.Init(0, "p.ini", "dev")
	common.SetBlockHeight(runHeight)
	middleware.InitMiddleware()
	service.InitService()
	service.InitRefundManager(stubChain{}, stubChain{})
	vm.InitVM()
	priv := make([]byte, 32)
	priv[31] = 7
	k, err := crypto.ToECDSA(priv)
	if err != nil {
		panic(err)
	}
	authorityAddr = crypto.PubkeyToAddress(k.PublicKey)
}

// ---------- universe ----------
var tokenContract = common.HexToAddress("0x71d9cfd1b7adb1e8eb4c193ce6ffbe19b4aee0db")
var authorityAddr common.Address

const (
	idZero    = 0 // the zero address (target of a call to "the contract created last" when there is none)
	idOrigin  = 1
	idEOA     = 2 // existing account without code
	idAbsent  = 3 // no account object, no balance
	idFunded  = 4 // no account object, but a balance (token slot)
	idC0      = 11
	nContract = 7  // contracts 11..17; 16 and 17 are leaves
	idMiner   = 14 // this contract is a validator's account (STAKE / UNSTAKE / UNSTAKEALL act on it)
	idPcOK    = 21 // precompile 0x04 (identity): succeeds
	idPcFail  = 22 // precompile 0x09 (blake2F): fails on empty input
	idAuth    = 50 // the authority whose AUTH signatures the programs carry
	idREG     = 900
	idESC     = 901
	idCreated = 100
)

const refundDelay = 36000 // service/refund_manager.go: refundHeight (Proposal012)

func addrOf(id int) common.Address {
	switch id {
	case idZero:
		return common.Address{}
	case idPcOK:
		var a common.Address
		a[19] = 4
		return a
	case idPcFail:
		var a common.Address
		a[19] = 9
		return a
	case idAuth:
		return authorityAddr
	case idREG:
		return common.ValidatorDBAddress
	case idESC:
		return common.BytesToAddress(common.Sha256(utility.StrToBytes(fmt.Sprintf("refund%d", runHeight+refundDelay))))
	}
	var a common.Address
	a[0] = 0xA0
	a[18] = byte(id >> 8)
	a[19] = byte(id)
	return a
}

func keyOf(k uint64) common.Hash  { return common.BigToHash(new(big.Int).SetUint64(k)) }
func hashOf(i uint64) common.Hash { return common.BytesToHash([]byte{0xee, byte(i >> 8), byte(i)}) }
func wordU(h common.Hash) uint64  { return new(big.Int).SetBytes(h.Bytes()).Uint64() }
func bigU(v uint64) *big.Int      { return new(big.Int).SetUint64(v) }
func isLeaf(id int) bool          { return id >= idC0+nContract-2 && id < idC0+nContract }
func isPrecompile(id int) bool    { return id == idPcOK || id == idPcFail }
func contractIDs() []int {
	r := []int{}
	for i := 0; i < nContract; i++ {
		r = append(r, idC0+i)
	}
	return r
}
func baseIDs() []int {
	return append(append([]int{idZero, idOrigin, idEOA, idAbsent, idFunded}, contractIDs()...), idPcOK, idPcFail, idAuth, idREG, idESC)
}

var keys = []uint64{1, 2, 3}
var unit18 = new(big.Int).Exp(big.NewInt(10), big.NewInt(18), nil)

// extra storage slots observed through the services: registry stake / status of the miner account, escrow of origin / miner
var slots = [][2]int{{idREG, 2 * idMiner}, {idREG, 2*idMiner + 1}, {idESC, 1000 + idOrigin}, {idESC, 1000 + idMiner}}

var minerID = []byte{0x6b, 0x6d}

// ---------- programs ----------
type Action struct {
	Op      string // sstore log tstore call create callcreated stake unstake unstakeall auth authcall
	K, V    uint64
	Kind    string // call callcode delegate static
	Target  int
	Value   uint64
	Init    int // program id of the creation code
	Create2 bool
	Salt    uint64
	Gas     uint64 // explicit gas of the call (0: the generous default)
	Inv     int    // auth: the invoker the signature is valid for
	Nonce   uint64 // authcall: the nonce the code claims
}
type Prog struct {
	Acts   []Action
	Fin    string // stop return returnbig revert invalid selfdestruct
	FinArg int    // return: program id to deploy (creation code); selfdestruct: beneficiary id
	Pad    int    // bytes of dead code appended (a fat runtime makes the code deposit expensive)
}

func (p Prog) String() string {
	var sb strings.Builder
	for _, a := range p.Acts {
		switch a.Op {
		case "sstore", "tstore":
			fmt.Fprintf(&sb, "%s(%d,%d);", a.Op, a.K, a.V)
		case "log":
			fmt.Fprintf(&sb, "log(%d);", a.K)
		case "logt":
			fmt.Fprintf(&sb, "log(tload(%d));", a.K)
		case "call":
			fmt.Fprintf(&sb, "%s(%d,v%d,g%d);", a.Kind, a.Target, a.Value, a.Gas)
		case "callcreated":
			fmt.Fprintf(&sb, "%s(created,v%d);", a.Kind, a.Value)
		case "create":
			fmt.Fprintf(&sb, "create(v%d,p%d,c2=%v,s%d);", a.Value, a.Init, a.Create2, a.Salt)
		case "stake", "unstake":
			fmt.Fprintf(&sb, "%s(%d);", a.Op, a.V)
		case "unstakeall":
			sb.WriteString("unstakeall;")
		case "auth":
			fmt.Fprintf(&sb, "auth(inv%d);", a.Inv)
		case "authcall":
			fmt.Fprintf(&sb, "authcall(n%d,%d,v%d);", a.Nonce, a.Target, a.Value)
		}
	}
	sb.WriteString(p.Fin)
	if p.Fin == "return" || p.Fin == "selfdestruct" {
		fmt.Fprintf(&sb, "(%d)", p.FinArg)
	}
	if p.Pad > 0 {
		fmt.Fprintf(&sb, "+pad%d", p.Pad)
	}
	return sb.String()
}

// ---------- assembler ----------
type asm struct {
	b     []byte
	memHi int // bytes of memory the code emitted so far has touched (multiple of 32)
}

func (a *asm) touch(end int) {
	end = (end + 31) / 32 * 32
	if end > a.memHi {
		a.memHi = end
	}
}

func (a *asm) op(o ...byte) *asm { a.b = append(a.b, o...); return a }
func (a *asm) push(v uint64) *asm {
	b := new(big.Int).SetUint64(v).Bytes()
	if len(b) == 0 {
		b = []byte{0}
	}
	a.b = append(a.b, byte(0x5f+len(b)))
	a.b = append(a.b, b...)
	return a
}
func (a *asm) pushBig(v *big.Int) *asm {
	b := v.Bytes()
	if len(b) == 0 {
		b = []byte{0}
	}
	a.b = append(a.b, byte(0x5f+len(b)))
	a.b = append(a.b, b...)
	return a
}
func (a *asm) pushAddr(x common.Address) *asm {
	a.b = append(a.b, 0x73)
	a.b = append(a.b, x.Bytes()...)
	return a
}

// mem writes data at memory offset off.. with PUSH32/MSTORE
func (a *asm) mem(off int, data []byte) *asm {
	for i := 0; i < len(data); i += 32 {
		chunk := make([]byte, 32)
		copy(chunk, data[i:])
		a.b = append(a.b, 0x7f)
		a.b = append(a.b, chunk...)
		a.push(uint64(off + i)).op(0x52)
		a.touch(off + i + 32)
	}
	return a
}

const (
	opSTOP, opPOP, opMLOAD, opSSTORE, opTSTORE, opLOG1        = 0x00, 0x50, 0x51, 0x55, 0x5d, 0xa1
	opCREATE, opCALL, opCALLCODE, opRETURN, opDELEGATECALL    = 0xf0, 0xf1, 0xf2, 0xf3, 0xf4
	opCREATE2, opSTATICCALL, opREVERT, opINVALID, opSELFDESTR = 0xf5, 0xfa, 0xfd, 0xfe, 0xff
	opADDRESS, opCALLDATACOPY, opCALLDATASIZE                 = 0x30, 0x37, 0x36
	opADD, opISZERO, opBLOCKHASH, opDUP1, opMSTORE            = 0x01, 0x15, 0x40, 0x80, 0x52
	opSTAKE, opUNSTAKE, opUNSTAKEALL, opAUTH, opAUTHCALL      = 0xee, 0xef, 0xeb, 0xf6, 0xf7
)

const (
	memCreated = 0x3000 // the address returned by the last CREATE of the frame
	memSig     = 0x2800 // AUTH signature
	maxCode    = vm.MaxCodeSize
)

// gas handed to a callee contract: callers have a smaller index than callees, budgets shrink by 4 per level
func gasFor(target int) uint64 {
	lvl := target - idC0
	if lvl < 0 || lvl >= nContract {
		lvl = nContract - 1
	}
	return uint64(1e14) >> (2 * uint(lvl+1))
}

const topGas = uint64(1e15)

type table struct {
	progs []Prog // program id = index+1
	sites map[[2]int]int
	kinds []string // site -> kind ("call", "callcode", "delegate", "static", "create", "authcall")
	sact  [][2]int // site -> (program id, action index)
}

// Probes: BLOCKHASH(n) has no effect on the state and reaches the harness through Context.GetHash (block
// numbers 744..999 are in range at height 1000). Before a call/create action: probeStart+site, after it:
// probeEnd+2*site+success; at the start of action i of a frame and before its terminator: probeStep+i.
const (
	probeStart = 744
	maxSites   = 70
	probeEnd   = probeStart + maxSites
	probeStep  = probeEnd + 2*maxSites
	maxSteps   = 20
)

func (t *table) site(id, idx int, kind string) int {
	if t.sites == nil {
		t.sites = map[[2]int]int{}
	}
	k := [2]int{id, idx}
	if s, ok := t.sites[k]; ok {
		return s
	}
	s := len(t.kinds)
	if s >= maxSites {
		panic("too many call sites in one program table")
	}
	t.sites[k] = s
	t.kinds = append(t.kinds, kind)
	t.sact = append(t.sact, k)
	return s
}

func authSig(invoker common.Address) []byte {
	priv := make([]byte, 32)
	priv[31] = 7
	k, _ := crypto.ToECDSA(priv)
	var commit [32]byte
	msg := make([]byte, 97)
	msg[0] = 0x03
	copy(msg[1:33], utility.LeftPadBytes(common.GetChainId(runHeight).Bytes(), 32))
	copy(msg[33:65], utility.LeftPadBytes(invoker.Bytes(), 32))
	copy(msg[65:], commit[:])
	sig, err := crypto.Sign(crypto.Keccak256(msg), k)
	if err != nil {
		panic(err)
	}
	out := make([]byte, 128)
	out[31] = sig[64]
	copy(out[32:64], sig[0:32])
	copy(out[64:96], sig[32:64])
	copy(out[96:128], commit[:])
	return out
}

// fragment of the byte code of one action: [start,opAt) before the effecting opcode, the opcode at opAt (opAt == end:
// the whole fragment is static, effect included), (opAt,end) after it
type fragPos struct {
	start, opAt, end int
	memStart, memOp  int // memory touched before the fragment / before the part after the opcode
	extra            uint64 // statically known dynamic gas of the opcode that cannot be measured in isolation
	req              uint64
}
type codeRec struct {
	acts          []fragPos
	finStart      int
	finMem        int
	finOp         byte
	finPost       uint64
}

func (t *table) compile(id int, asInit bool) []byte { return t.compileRec(id, asInit, nil) }

func (t *table) compileRec(id int, asInit bool, rec *codeRec) []byte {
	p := t.progs[id-1]
	if len(p.Acts) >= maxSteps {
		panic("program too long for the step probes")
	}
	a := &asm{}
	a.push(uint64(0x7000 + id)).op(opPOP) // unique marker: distinct programs have distinct code
	for ai, x := range p.Acts {
		fp := fragPos{start: len(a.b), memStart: a.memHi, opAt: -1}
		if ai == 0 {
			fp.start = 0
		}
		a.push(uint64(probeStep + ai)).op(opBLOCKHASH, opPOP)
		site := -1
		switch x.Op {
		case "call", "callcreated":
			site = t.site(id, ai, x.Kind)
		case "create":
			site = t.site(id, ai, "create")
		case "authcall":
			site = t.site(id, ai, "authcall")
		}
		if site >= 0 {
			a.push(uint64(probeStart + site)).op(opBLOCKHASH, opPOP)
		}
		endProbe := func() {
			a.push(uint64(probeEnd + 2*site)).op(opADD, opBLOCKHASH, opPOP)
		}
		switch x.Op {
		case "sstore":
			a.push(x.V).push(x.K).op(opSSTORE)
		case "tstore":
			a.push(x.V).push(x.K).op(opTSTORE)
		case "log":
			a.push(x.K).push(0).push(0).op(opLOG1)
		case "call", "callcreated":
			g := x.Gas
			if g == 0 {
				g = gasFor(x.Target)
			}
			a.push(0).push(0).push(0).push(0)
			if x.Kind == "call" || x.Kind == "callcode" {
				a.push(x.Value)
			}
			if x.Op == "callcreated" {
				a.push(memCreated).op(opMLOAD)
			} else {
				a.pushAddr(addrOf(x.Target))
			}
			if x.Op == "callcreated" {
				a.touch(memCreated + 32)
			}
			a.push(g)
			fp.opAt, fp.memOp, fp.req = len(a.b), a.memHi, g
			a.op(map[string]byte{"call": opCALL, "callcode": opCALLCODE, "delegate": opDELEGATECALL, "static": opSTATICCALL}[x.Kind])
			endProbe()
		case "create":
			init := t.compile(x.Init, true)
			if len(init) > memSig-64 {
				panic("creation code too long")
			}
			a.mem(0, init)
			if x.Create2 {
				a.push(x.Salt).push(uint64(len(init))).push(0).push(x.Value)
				fp.opAt, fp.memOp = len(a.b), a.memHi
				fp.extra = uint64((len(init)+31)/32) * vm.Sha3WordGas * gasFactor()
				a.op(opCREATE2)
			} else {
				a.push(uint64(len(init))).push(0).push(x.Value)
				fp.opAt, fp.memOp = len(a.b), a.memHi
				a.op(opCREATE)
			}
			a.op(opDUP1).push(memCreated).op(opMSTORE) // remember the new address (0 when the creation failed)
			a.touch(memCreated + 32)
			a.op(opISZERO, opISZERO)
			endProbe()
		case "stake", "unstake":
			a.op(opADDRESS).pushBig(new(big.Int).Mul(bigU(x.V), unit18))
			fp.opAt, fp.memOp = len(a.b), a.memHi
			if x.Op == "stake" {
				a.op(opSTAKE, opPOP)
			} else {
				a.op(opUNSTAKE, opPOP)
			}
		case "unstakeall":
			a.op(opADDRESS)
			fp.opAt, fp.memOp = len(a.b), a.memHi
			a.op(opUNSTAKEALL, opPOP)
		case "auth":
			a.mem(memSig, authSig(addrOf(x.Inv)))
			a.push(128).push(memSig).pushAddr(addrOf(idAuth)).op(opAUTH, opPOP)
		case "authcall":
			a.push(0).push(0).push(0).push(0).push(0).push(x.Value).pushAddr(addrOf(x.Target)).push(gasFor(x.Target)).push(x.Nonce)
			fp.opAt, fp.memOp, fp.req = len(a.b), a.memHi, gasFor(x.Target)
			a.op(opAUTHCALL)
			endProbe()
		}
		fp.end = len(a.b)
		if fp.opAt < 0 {
			fp.opAt, fp.memOp = fp.end, a.memHi
		}
		if rec != nil {
			rec.acts = append(rec.acts, fp)
		}
	}
	if rec != nil {
		rec.finStart, rec.finMem = len(a.b), a.memHi
		if len(p.Acts) == 0 {
			rec.finStart = 0
		}
	}
	// memory for the terminator is written / expanded before the last step probe, so that running out of gas
	// while doing so is seen as "died before the terminator"; after the probe only a few cheap opcodes remain
	var rt []byte
	switch {
	case p.Fin == "return" && asInit:
		rt = t.compile(p.FinArg, false)
		a.mem(0, rt)
	case p.Fin == "returnbig":
		a.push(maxCode - 31).op(opMLOAD, opPOP)
		a.touch(maxCode + 1)
	}
	a.push(uint64(probeStep + len(p.Acts))).op(opBLOCKHASH, opPOP)
	switch p.Fin {
	case "stop":
		a.op(opSTOP)
	case "return":
		a.push(uint64(len(rt))).push(0).op(opRETURN)
	case "returnbig":
		a.push(maxCode + 1).push(0).op(opRETURN)
	case "revert":
		a.push(0).push(0).op(opREVERT)
	case "invalid":
		a.op(opINVALID)
	case "selfdestruct":
		a.pushAddr(addrOf(p.FinArg))
		if rec != nil {
			rec.finOp, rec.finPost = opSELFDESTR, vm.SelfdestructGasEIP150
		}
		a.op(opSELFDESTR)
	}
	for i := 0; i < p.Pad; i++ {
		a.op(0x5b)
	}
	return a.b
}

func gasFactor() uint64 {
	if common.IsProposal026() {
		return common.GasMagnification
	}
	return 1
}

func coqProg(p Prog) string {
	acts := []string{}
	kk := map[string]string{"call": "KCall", "callcode": "KCallCode", "delegate": "KDelegate", "static": "KStatic"}
	for _, a := range p.Acts {
		switch a.Op {
		case "sstore":
			acts = append(acts, fmt.Sprintf("ASstore %d %d", a.K, a.V))
		case "tstore":
			acts = append(acts, fmt.Sprintf("ATstore %d %d", a.K, a.V))
		case "log":
			acts = append(acts, fmt.Sprintf("ALog %d", a.K))
		case "logt":
			acts = append(acts, fmt.Sprintf("ALogT %d", a.K))
		case "call":
			acts = append(acts, fmt.Sprintf("ACall %s %d %d", kk[a.Kind], a.Target, a.Value))
		case "callcreated":
			acts = append(acts, fmt.Sprintf("ACallCreated %s %d", kk[a.Kind], a.Value))
		case "create":
			acts = append(acts, fmt.Sprintf("ACreate %d %d", a.Value, a.Init))
		case "stake":
			acts = append(acts, fmt.Sprintf("AStake %d", a.V))
		case "unstake":
			acts = append(acts, fmt.Sprintf("AUnstake %d", a.V))
		case "unstakeall":
			acts = append(acts, "AUnstakeAll")
		case "auth":
			acts = append(acts, fmt.Sprintf("AAuth %d %d", a.Inv, idAuth))
		case "authcall":
			acts = append(acts, fmt.Sprintf("AAuthCall %d %d %d", a.Nonce, a.Target, a.Value))
		}
	}
	fin := map[string]string{"stop": "EStop", "revert": "ERevert", "invalid": "EInvalid", "returnbig": "EReturnBig"}[p.Fin]
	if p.Fin == "return" {
		fin = fmt.Sprintf("(EReturn %d)", p.FinArg)
	}
	if p.Fin == "selfdestruct" {
		fin = fmt.Sprintf("(ESelfdestruct %d)", p.FinArg)
	}
	return "mkProg [" + strings.Join(acts, "; ") + "] " + fin
}
