package main

import (
	"os"
	"encoding/hex"
	"fmt"
	"math/big"
	"sort"
	"strings"

	"com.tuntun.rangers/node/src/common"
	"com.tuntun.rangers/node/src/middleware/types"
	"com.tuntun.rangers/node/src/service"
	"com.tuntun.rangers/node/src/storage/account"
	"com.tuntun.rangers/node/src/vm"

	"verif/harness/hx"
)

func newEVM(st vm.StateDB, adb *account.AccountDB, origin common.Address) *vm.EVM {
	getHash := func(n uint64) common.Hash { return common.Hash{} }
	if r, ok := st.(*recDB); ok {
		getHash = func(n uint64) common.Hash { r.probe(n); return common.Hash{} }
	}
	ctx := vm.Context{
		CanTransfer: vm.CanTransfer, Transfer: vm.Transfer,
		GetHash: getHash,
		Origin:  origin, Coinbase: addrOf(0x77), GasPrice: big.NewInt(1), GasLimit: topGas,
		BlockNumber: new(big.Int).SetUint64(runHeight), Time: big.NewInt(1700000000), Difficulty: big.NewInt(123),
	}
	return vm.NewEVMWithNFT(ctx, st, adb)
}

// error classes as the model numbers them (10 + code; 30 = code store out of gas)
func errCode(err error) uint64 {
	switch {
	case err == nil:
		return 0
	case err == vm.ErrExecutionReverted:
		return 1
	case err == vm.ErrDepth:
		return 11
	case err == vm.ErrInsufficientBalance:
		return 12
	case err == vm.ErrWriteProtection:
		return 13
	case strings.Contains(err.Error(), "invalid opcode"):
		return 14
	case err == vm.ErrContractAddressCollision:
		return 15
	case err == vm.ErrOutOfGas:
		return 16
	case err == vm.ErrMaxCodeSizeExceeded:
		return 17
	case err == vm.ErrCodeStoreOutOfGas:
		return 30
	case strings.Contains(err.Error(), "no such miner") || strings.Contains(err.Error(), "miner not existed") || strings.Contains(err.Error(), "not enough stake") || strings.Contains(err.Error(), "getRefund error"):
		return 19
	}
	return 50
}

type txRun struct {
	prep, post []uint64
	out        uint64
	retLogs    [][2]uint64
	created    []common.Address
	panicMsg   string
	rec        *recDB
	jGrowth    int
	jKinds     []string
	retRaw     []*types.Log
	errText    string
	gasLeft    uint64
	gasGiven   uint64
}

var curTable *table
var blockModelCases int
var curSpec *caseSpec
var totalFailedNested, totalStaticNested, rootChecks, totalOOG, totalDeposit int

// runTx: Prepare, observe, one top-level call, observe.
func runTx(w *world, o *observer, i int, t txSpec, check bool) txRun {
	adb := w.adb
	adb.Prepare(hashOf(uint64(i+1)), common.Hash{}, i)
	res := txRun{}
	res.prep = o.obs(adb)
	rec := &recDB{AccountDB: adb, o: o, check: check, tab: curTable, spec: curSpec, reverted: map[int]bool{}}
	res.rec = rec
	origin := addrOf(idOrigin)
	evm := newEVM(rec, adb, origin)
	j0 := adb.VerifJournalLen()
	gas := t.Gas
	if gas == 0 {
		gas = topGas
	}
	// the top-level frame has a marker of its own
	top := marker{site: -1, kind: "call", target: t.Target, pcIdx: -1}
	if t.Create {
		top.kind, top.target = "create", t.Init
	}
	rec.markers = append(rec.markers, top)
	var err error
	var logs []*types.Log
	func() {
		defer func() {
			if p := recover(); p != nil {
				res.panicMsg = fmt.Sprint(p)
			}
		}()
		switch {
		case t.Create:
			_, _, res.gasLeft, logs, err = evm.Create(vm.AccountRef(origin), curTable.compile(t.Init, true), gas, bigU(t.Value))
		case t.Static:
			_, res.gasLeft, logs, err = evm.StaticCall(vm.AccountRef(origin), addrOf(t.Target), nil, gas)
		default:
			_, res.gasLeft, logs, err = evm.Call(vm.AccountRef(origin), addrOf(t.Target), nil, gas, bigU(t.Value))
		}
		res.gasGiven = gas
	}()
	res.out = errCode(err)
	if err != nil {
		res.errText = err.Error()
	}
	for j := len(rec.markers) - 1; j > 0; j-- {
		rec.closeMarker(rec.markers[j], false, false)
	}
	tm := rec.markers[0]
	rec.closeMarker(tm, err == nil, true)
	if tm.fi != nil && res.out != 16 && res.out != 30 && res.out != 0 {
		// not out of gas: the model finds the error of the top-level frame itself
		rec.orc[tm.fi.orcIdx].val = 0
	}
	rec.markers = nil
	res.jGrowth = adb.VerifJournalLen() - j0
	if res.jGrowth > 0 {
		res.jKinds = adb.VerifJournalKinds(j0)
	}
	res.retRaw = logs
	for _, l := range logs {
		f := o.flatLog(l)
		res.retLogs = append(res.retLogs, [2]uint64{f[0], f[1]})
	}
	res.created = rec.created
	res.post = o.obs(adb)
	return res
}

// ---------- Coq terms ----------
func nlist(l []uint64) string {
	s := make([]string, len(l))
	for i, v := range l {
		s[i] = fmt.Sprint(v)
	}
	return "[" + strings.Join(s, ";") + "]"
}

func progDump(spec *caseSpec) map[string]string {
	m := map[string]string{}
	for i, p := range spec.t.progs {
		name := fmt.Sprintf("p%d", i+1)
		for c, id := range spec.codeAt {
			if id == i+1 {
				name = fmt.Sprintf("p%d@%d", i+1, c)
			}
		}
		m[name] = p.String()
	}
	return m
}

// ---------- one case ----------
func runSpec(seed uint64, fixed *caseSpec, name string, res *hx.Result, cs *hx.Cases) {
	r := hx.NewRng(seed)
	spec := fixed
	if spec == nil {
		spec = genCase(r)
	}
	curTable, curSpec = spec.t, spec
	init := spec.initial(r)
	o := newObserver(spec, len(spec.txs))
	// pass 1: discover the created addresses (deterministic), pass 2: observe over the full universe
	w1 := spec.build(init)
	for i, t := range spec.txs {
		tr := runTx(w1, o, i, t, false)
		for _, a := range tr.created {
			if _, ok := o.addrID[a]; !ok {
				o.addrID[a] = idCreated + len(o.addrID)
				o.addrs = append(o.addrs, a)
			}
		}
	}
	w := spec.build(init)
	var runs []txRun
	prevLogs := map[int][]uint64{}
	features := map[string]bool{}
	desc := []string{}
	nFailed, nStatic := 0, 0
	per := perAddr + 2*len(keys)
	for i, t := range spec.txs {
		tr := runTx(w, o, i, t, true)
		runs = append(runs, tr)
		in := map[string]interface{}{"seed": seed, "case": name, "tx": i, "programs": progDump(spec), "txs": spec.txs}
		if tr.panicMsg != "" {
			res.Violate("C12/frame:panic", "EVM call panicked: "+tr.panicMsg, in)
		}
		if tr.out == 50 {
			res.Violate("C12/frame:unclassified-error", tr.errText, in)
		}
		// failed frames leave no trace
		for k, p := range tr.rec.problems {
			res.Violate("C12/failed-frame:"+p, tr.rec.detail[k], in)
		}
		for k, p := range tr.rec.nested {
			res.Violate("C12/"+p, tr.rec.nestedD[k], in)
		}
		nFailed += tr.rec.failedN
		nStatic += tr.rec.staticN
		totalOOG += tr.rec.oogN
		totalDeposit += tr.rec.depositN
		if tr.rec.oogN > 0 {
			features["oog"] = true
		}
		if tr.rec.depositN > 0 {
			features["deposit"] = true
		}
		// a failed top-level frame (seen from outside the EVM, independently of RevertToSnapshot being called)
		if tr.out != 0 && tr.panicMsg == "" {
			for d := range tr.prep {
				if d >= len(tr.post) || tr.prep[d] == tr.post[d] {
					continue
				}
				n := o.fieldName(d)
				// evm.create bumps the creator's nonce and adds the new address to the access list before its snapshot
				if t.Create && (n == fmt.Sprintf("nonce(%d)", idOrigin) || n == fmt.Sprintf("exist(%d)", idOrigin) || n == fmt.Sprintf("empty(%d)", idOrigin) || (d < per*len(o.addrs) && d%per == 5)) {
					continue
				}
				key := "C12/failed-frame:top-level:" + fieldClass(n)
				if tr.out == 30 {
					key = "C12/failed-frame:create-code-store-out-of-gas:top-level"
				}
				res.Violate(key, fmt.Sprintf("the top-level call failed (error class %d) but %s changed: %d -> %d", tr.out, n, tr.prep[d], tr.post[d]), in)
				break
			}
		}
		// scratch state right after Prepare
		for ai := range o.addrs {
			base := ai * per
			if tr.prep[base+5] != 0 {
				res.Violate("C12/tx-scratch:access-list-survives-prepare", o.fieldName(base+5)+" set right after Prepare", in)
			}
			for k := range keys {
				if tr.prep[base+perAddr+len(keys)+k] != 0 {
					res.Violate("C12/tx-scratch:transient-storage-survives-prepare", o.fieldName(base+perAddr+len(keys)+k)+" non-zero right after Prepare", in)
				}
			}
		}
		gl := w.adb.GetLogs(hashOf(uint64(i + 1)))
		if len(gl) != len(tr.rec.shadow) {
			res.Violate("C12/receipt-logs:getlogs-differs-from-surviving-frames", fmt.Sprintf("GetLogs has %d logs, surviving frames emitted %d", len(gl), len(tr.rec.shadow)), in)
		} else {
			for k, l := range gl {
				if l != tr.rec.shadow[k] {
					res.Violate("C12/receipt-logs:getlogs-differs-from-surviving-frames", "log identity differs", in)
				}
			}
		}
		if tr.out != 0 && tr.out != 30 && len(tr.rec.shadow) != 0 {
			res.Violate("C12/receipt-logs:failed-tx-keeps-logs", "top-level frame failed but logs survive", in)
		}
		// earlier transactions' logs are untouched
		for j := 0; j < i; j++ {
			cur := []uint64{}
			for _, l := range w.adb.GetLogs(hashOf(uint64(j + 1))) {
				cur = append(cur, o.flatLog(l)...)
			}
			if diffAt(prevLogs[j], cur) >= 0 {
				res.Violate("C12/receipt-logs:earlier-tx-logs-changed", fmt.Sprintf("logs of tx %d changed while tx %d ran", j, i), in)
			}
		}
		cur := []uint64{}
		for _, l := range gl {
			cur = append(cur, o.flatLog(l)...)
		}
		prevLogs[i] = cur
		// second log channel (returned logs -> executeResultData.Logs / pre-Proposal013 receipts)
		if tr.panicMsg == "" {
			surv := tr.rec.shadow
			if tr.out != 0 && tr.out != 30 {
				surv = nil
			}
			if len(tr.retRaw) > len(surv) {
				res.Violate("C12/returned-logs:logs-of-reverted-frames-returned", fmt.Sprintf("the call returned %d logs, surviving frames emitted %d", len(tr.retRaw), len(surv)), in)
			} else if len(tr.retRaw) < len(surv) {
				res.Violate("C12/returned-logs:logs-of-surviving-frames-dropped", fmt.Sprintf("the call returned %d logs, surviving frames emitted %d", len(tr.retRaw), len(surv)), in)
			}
		}
		if tr.rec.undone > 0 {
			features["undone"] = true
		}
		if tr.rec.reverts > 0 {
			features["revert"] = true
		}
		desc = append(desc, fmt.Sprintf("out=%d snaps=%d reverts=%d undone=%d oog=%d", tr.out, tr.rec.snaps, tr.rec.reverts, tr.rec.undone, tr.rec.oogN))
	}
	// state root: a failed top-level call must be a no-op, so leaving it out gives the same root (and the same
	// logs). World B executes the successful transactions only (Prepare is still called for every one).
	anyFailedCall := false
	for i, t := range spec.txs {
		if runs[i].out != 0 && !t.Create {
			anyFailedCall = true
		}
	}
	if anyFailedCall {
		wb := spec.build(init)
		for i, t := range spec.txs {
			if runs[i].out != 0 && !t.Create {
				wb.adb.Prepare(hashOf(uint64(i+1)), common.Hash{}, i)
				continue
			}
			runTx(wb, o, i, t, false)
		}
		ra, rb := w.adb.IntermediateRoot(true), wb.adb.IntermediateRoot(true)
		if ra != rb {
			res.Violate("C12/failed-frame:top-level:state-root", fmt.Sprintf("IntermediateRoot(true) is %s with the failed top-level calls executed and %s with them left out", ra.Hex(), rb.Hex()),
				map[string]interface{}{"seed": seed, "case": name, "programs": progDump(spec), "txs": spec.txs})
		}
		rootChecks++
	}
	// outcome class
	cls := "no-failed-frame"
	if features["undone"] {
		cls = "failed-frame-undid-changes"
	} else if features["revert"] {
		cls = "failed-frame-without-changes"
	}
	if features["oog"] {
		cls += "|out-of-gas"
	}
	if features["deposit"] {
		cls += "|code-deposit"
	}
	if len(spec.txs) > 1 {
		cls += "|multi-tx"
	}
	if nStatic > 0 {
		cls += "|nested-static"
	}
	totalFailedNested += nFailed
	totalStaticNested += nStatic
	if name != "" {
		parts := strings.Split(name, "|")
		res.Count(parts[0]+"|"+parts[1]+"|"+cls, name, true)
	} else {
		res.Count(cls, fmt.Sprintf("%x", seed), features["undone"])
	}
	if len(res.Samples) < 6 && features["undone"] && name == "" {
		res.Sample(map[string]interface{}{"seed": seed, "txs": spec.txs, "programs": progDump(spec), "runs": desc})
	}

	// model case
	if cs != nil {
		// the fixed cases are gas-exact: measured static costs go into the programs, the gas supplied into the
		// transactions, out-of-gas is computed by the model (no forced fates) and the gas left is compared
		exact := true
		asInit := map[int]bool{}
		for _, p := range spec.t.progs {
			for _, a := range p.Acts {
				if a.Op == "create" {
					asInit[a.Init] = true
				}
			}
		}
		for _, t := range spec.txs {
			if t.Create {
				asInit[t.Init] = true
			}
		}
		progs := []string{}
		for i, p := range spec.t.progs {
			if exact {
				progs = append(progs, coqProgG(spec.t, i+1, asInit[i+1]))
			} else {
				progs = append(progs, coqProg(p))
			}
		}
		gasLeft := []uint64{}
		addrs := []uint64{}
		for _, a := range o.addrs {
			addrs = append(addrs, o.aid(a))
		}
		hashes := []uint64{}
		for i := range spec.txs {
			hashes = append(hashes, uint64(i+1))
		}
		sl := []string{}
		for _, p := range slots {
			sl = append(sl, fmt.Sprintf("(%d,%d)", p[0], p[1]))
		}
		txs := []string{}
		for i, t := range spec.txs {
			tr := runs[i]
			kind := fmt.Sprintf("TCall %d %d", t.Target, t.Value)
			if t.Create {
				kind = fmt.Sprintf("TCreate %d %d", t.Value, t.Init)
			}
			rl := []string{}
			for _, p := range tr.retLogs {
				rl = append(rl, fmt.Sprintf("(%d,%d)", p[0], p[1]))
			}
			orc := tr.rec.oracleIDs()
			if exact {
				for k, e := range tr.rec.orc {
					if !e.isAddr {
						orc[k] = 0
					}
				}
				gasLeft = append(gasLeft, tr.gasLeft)
				txs = append(txs, fmt.Sprintf("(mkTxG %d %d %d (%s) %s %d, (%s, %d, [%s], %s))", i+1, i, idOrigin, kind, nlist(orc), tr.gasGiven,
					nlist(tr.prep), tr.out, strings.Join(rl, ";"), nlist(tr.post)))
			} else {
				txs = append(txs, fmt.Sprintf("(mkTx %d %d %d (%s) %s, (%s, %d, [%s], %s))", i+1, i, idOrigin, kind, nlist(orc),
					nlist(tr.prep), tr.out, strings.Join(rl, ";"), nlist(tr.post)))
			}
		}
		term := fmt.Sprintf("Case [%s] %s %s %s %s [%s] %s [%s]", strings.Join(progs, "; "), coqInit(init), nlist(addrs), nlist(keys), nlist(hashes), strings.Join(sl, ";"), nlist(gasLeft), strings.Join(txs, "; "))
		cs.Add(term, map[string]interface{}{"seed": seed, "case": name, "txs": spec.txs, "programs": progDump(spec)})
	}
}

// ---------- static frames: top-level STATICCALL into generated trees ----------
func runStaticCase(seed uint64, res *hx.Result) {
	r := hx.NewRng(seed)
	spec := genCase(r)
	spec.pcExist = r.Intn(8) != 0
	init := spec.initial(r)
	// the static root: calls of every kind into the generated contracts, no write of its own
	root := Prog{Fin: []string{"stop", "return", "revert"}[r.Intn(3)]}
	g := &gen{r: r, t: spec.t}
	tg := []int{idEOA, idAbsent, idPcOK, idPcFail}
	for j := 1; j < nContract; j++ {
		tg = append(tg, idC0+j, idC0+j)
	}
	for i, n := 0, 2+r.Intn(3); i < n; i++ {
		c := g.callTo(tg)
		if c.Kind == "call" && r.Intn(4) != 0 {
			c.Value = 0 // CALL with value is refused at once in a static frame
		}
		root.Acts = append(root.Acts, c)
	}
	spec.t.progs[spec.codeAt[idC0]-1] = root
	custom := false
	for _, p := range spec.t.progs {
		for _, a := range p.Acts {
			if a.Op == "stake" || a.Op == "unstake" || a.Op == "unstakeall" || a.Op == "authcall" {
				custom = true
			}
		}
	}
	if custom {
		return // the custom opcodes inside static frames are the subject of the fixed cases
	}
	curTable, curSpec = spec.t, spec
	o := newObserver(spec, 1)
	w := spec.build(init)
	target := idC0
	if r.Intn(5) == 0 {
		target = idC0 + 1 + r.Intn(nContract-1)
	}
	tx := txSpec{Target: target, Static: true}
	if r.Intn(4) == 0 {
		tx.Gas = []uint64{1000000, 3000000, 12000000}[r.Intn(3)]
	}
	tr := runTx(w, o, 0, tx, true)
	in := map[string]interface{}{"seed": seed, "static_target": target, "gas": tx.Gas, "programs": progDump(spec)}
	if tr.panicMsg != "" {
		res.Violate("C12/static-frame:panic", tr.panicMsg, in)
	}
	pcTouched := false
	if d := diffAt(tr.prep, tr.post); d >= 0 {
		cl := fieldClass(o.fieldName(d))
		if cl == "precompile-account" {
			pcTouched = true
			res.Violate("C12/static-frame:absent-precompile-account-created:top-level", o.fieldName(d)+" changed by a top-level STATICCALL (a CALL to an absent precompile inside it)", in)
		} else {
			res.Violate("C12/static-frame:"+cl, o.fieldName(d)+" changed by a top-level STATICCALL", in)
		}
	}
	if tr.jGrowth != 0 && !pcTouched {
		res.Violate("C12/static-frame:journal-entry:"+strings.Join(uniq(tr.jKinds), "+"), fmt.Sprintf("a top-level STATICCALL appended %d journal entries %v", tr.jGrowth, tr.jKinds), in)
	}
	if len(tr.retRaw) != 0 {
		res.Violate("C12/static-frame:returned-logs", "a STATICCALL returned logs", in)
	}
	for k, p := range tr.rec.problems {
		res.Violate("C12/failed-frame:"+p, tr.rec.detail[k], in)
	}
	for k, p := range tr.rec.nested {
		res.Violate("C12/"+p, tr.rec.nestedD[k], in)
	}
	cls := fmt.Sprintf("static-top|out=%d", tr.out)
	res.Count(cls, fmt.Sprintf("s%x", seed), tr.rec.snaps > 1)
}

// ---------- custom opcodes inside a static frame (direct search only) ----------
func customStatic(res *hx.Result) {
	km := addrOf(0x31)   // contract that is a validator's account
	inv := addrOf(0x32)  // AUTH/AUTHCALL invoker
	sink := addrOf(0x33) // receives the AUTHCALL value
	origin := addrOf(idOrigin)
	sig, authority := authSig(inv), authorityAddr

	type prog struct {
		name string
		code []byte
		to   common.Address
		in   []byte
	}
	mk := func(f func(a *asm)) []byte { a := &asm{}; f(a); return a.b }
	stakeAmt := new(big.Int).Mul(big.NewInt(5), new(big.Int).Exp(big.NewInt(10), big.NewInt(18), nil)) // 5 tokens
	progs := []prog{
		{"STAKE", mk(func(a *asm) { a.op(opADDRESS); a.pushBig(stakeAmt); a.op(opSTAKE, opPOP, opSTOP) }), km, nil},
		{"UNSTAKE", mk(func(a *asm) { a.op(opADDRESS); a.pushBig(stakeAmt); a.op(opUNSTAKE, opPOP, opSTOP) }), km, nil},
		{"UNSTAKEALL", mk(func(a *asm) { a.op(opADDRESS); a.op(opUNSTAKEALL, opPOP, opSTOP) }), km, nil},
		{"AUTHCALL", mk(func(a *asm) {
			// calldata (128 bytes signature) -> memory 0; AUTH(authority, 0, 128); AUTHCALL(nonce 0, gas, sink, value 9, 0, 0,0,0,0)
			a.op(opCALLDATASIZE).push(0).push(0).op(opCALLDATACOPY)
			a.push(128).push(0).pushAddr(authority).op(opAUTH, opPOP)
			a.push(0).push(0).push(0).push(0).push(0).push(9).pushAddr(sink).push(100000000).push(0).op(opAUTHCALL, opPOP, opSTOP)
		}), inv, sig},
	}
	for _, p := range progs {
		w := newWorld()
		w.adb.SetBalance(origin, bigU(1000000))
		w.adb.SetNonce(origin, 5)
		w.adb.SetNonce(km, 1)
		w.adb.SetCode(km, p.code)
		w.adb.SetBalance(km, new(big.Int).Mul(big.NewInt(1000), new(big.Int).Exp(big.NewInt(10), big.NewInt(18), nil)))
		w.adb.SetNonce(inv, 1)
		w.adb.SetCode(inv, p.code)
		w.adb.SetNonce(sink, 1)
		id := []byte{0x6b, 0x6d}
		m := &types.Miner{Id: id, PublicKey: []byte{1}, VrfPublicKey: []byte{2}, Type: common.MinerTypeValidator, Stake: common.ValidatorStake * 2, Account: km.Bytes(), Status: common.MinerStatusNormal}
		service.MinerManagerImpl.InsertMiner(m, w.adb)
		w.boundary()
		adb := w.adb
		adb.Prepare(hashOf(1), common.Hash{}, 0)
		stake0 := uint64(0)
		if mm := service.MinerManagerImpl.GetMiner(id, adb); mm != nil {
			stake0 = mm.Stake
		}
		balKM0, balO0, balS0, nA0 := adb.GetBalance(km), adb.GetBalance(origin), adb.GetBalance(sink), adb.GetNonce(authority)
		evm := newEVM(adb, adb, origin)
		j0 := adb.VerifJournalLen()
		var err error
		panicMsg := ""
		func() {
			defer func() {
				if x := recover(); x != nil {
					panicMsg = fmt.Sprint(x)
				}
			}()
			_, _, _, err = evm.StaticCall(vm.AccountRef(origin), p.to, p.in, 3000000000)
		}()
		grow := adb.VerifJournalLen() - j0
		stake1 := uint64(0)
		if mm := service.MinerManagerImpl.GetMiner(id, adb); mm != nil {
			stake1 = mm.Stake
		}
		changed := []string{}
		if stake1 != stake0 {
			changed = append(changed, fmt.Sprintf("miner stake %d -> %d", stake0, stake1))
		}
		if adb.GetBalance(km).Cmp(balKM0) != 0 {
			changed = append(changed, fmt.Sprintf("contract balance %s -> %s", balKM0, adb.GetBalance(km)))
		}
		if adb.GetBalance(origin).Cmp(balO0) != 0 {
			changed = append(changed, fmt.Sprintf("origin (sponsor) balance %s -> %s", balO0, adb.GetBalance(origin)))
		}
		if adb.GetBalance(sink).Cmp(balS0) != 0 {
			changed = append(changed, fmt.Sprintf("callee balance %s -> %s", balS0, adb.GetBalance(sink)))
		}
		if adb.GetNonce(authority) != nA0 {
			changed = append(changed, fmt.Sprintf("authority nonce %d -> %d", nA0, adb.GetNonce(authority)))
		}
		in := map[string]interface{}{"opcode": p.name, "code": hex.EncodeToString(p.code), "calldata": hex.EncodeToString(p.in), "call": "evm.StaticCall(origin, contract)", "err": fmt.Sprint(err)}
		cls := "custom-static|" + p.name + "|clean"
		if panicMsg != "" {
			res.Violate("C12/static-frame:panic", panicMsg, in)
		}
		if grow != 0 || len(changed) > 0 {
			cls = "custom-static|" + p.name + "|modified-state"
			res.Violate("C12/static-frame:custom-opcode:"+p.name, fmt.Sprintf("inside a STATICCALL (err=%v) the opcode appended %d journal entries %v; %s", err, grow, uniq(adb.VerifJournalKinds(j0)), strings.Join(changed, "; ")), in)
		}
		res.Count(cls, "custom-"+p.name, true)
	}
}


// ---------- Prepare at the AccountDB level ----------
func prepareDirect(res *hx.Result) {
	w := newWorld()
	w.boundary()
	adb := w.adb
	a, k, v := addrOf(idC0), keyOf(1), keyOf(7)
	adb.Prepare(hashOf(1), common.Hash{}, 0)
	adb.SetTransientState(a, k, v)
	adb.AddAddressToAccessList(a)
	adb.AddSlotToAccessList(a, k)
	adb.AddLog(&types.Log{Address: a})
	adb.Prepare(hashOf(2), common.Hash{}, 1)
	in := map[string]interface{}{"history": "Prepare(h1); SetTransientState(a,k,7); AddAddressToAccessList(a); AddSlotToAccessList(a,k); AddLog; Prepare(h2)"}
	if adb.GetTransientState(a, k) != (common.Hash{}) {
		res.Violate("C12/tx-scratch:transient-storage-survives-prepare", "GetTransientState(a,k) = "+adb.GetTransientState(a, k).Hex()+" after the next Prepare", in)
	}
	if adb.AddressInAccessList(a) {
		res.Violate("C12/tx-scratch:access-list-survives-prepare", "address still in the access list after Prepare", in)
	}
	if _, s := adb.SlotInAccessList(a, k); s {
		res.Violate("C12/tx-scratch:access-list-survives-prepare", "slot still in the access list after Prepare", in)
	}
	if len(adb.GetLogs(hashOf(2))) != 0 || len(adb.GetLogs(hashOf(1))) != 1 {
		res.Violate("C12/receipt-logs:getlogs-differs-from-surviving-frames", "logs not keyed by the prepared hash", in)
	}
	res.Count("prepare-direct", "prepare-direct", true)
}


func main() {
	a := hx.ParseArgs()
	res := hx.NewResult("a generated case (1-3 transactions over 7 generated contracts, with gas budgets, custom opcodes, precompiles) is non-trivial when at least one call frame failed after it had appended journal entries (state changes were actually undone); static cases when the static tree has nested frames; distinct = distinct generator seed (distinct program tables); the cases of the fixed matrix (frame kind x state-modifying action x ending x depth), the special failure kinds (depth 1024, code deposit, code size, nonce overflow, custom opcodes, AUTHCALL) and the custom-opcode / Prepare / opcode-table evaluations count as non-trivial, distinct by name")
	boot()
	debugOrc = os.Getenv("C12_DEBUG") != ""
	if a.Tier == "table" {
		tableCase(a.Out, res)
		return
	}
	cs := hx.NewCases(a.Out, "From V.C12 Require Import Model Harness.\nFrom Coq Require Import NArith.\nOpen Scope N_scope.", "tcase", "check", 80)
	rng := hx.NewRng(a.Seed)
	for i := 0; i < a.N; i++ {
		runSpec(rng.U64(), nil, "", res, cs)
	}
	ms, mn := fixedSpecs()
	for i, m := range ms {
		if debugOrc {
			fmt.Println("ORC CASE", mn[i])
		}
		runSpec(uint64(7000+i), m, mn[i], res, cs)
	}
	cs.Close()
	for i := 0; i < a.N/2; i++ {
		runStaticCase(rng.U64(), res)
	}
	blockModelCases = blockCases(res, a.Out)
	customStatic(res)
	prepareDirect(res)
	tableCase(a.Out, res)
	res.ModelCases = cs.Total() + tableCases + blockModelCases
	res.Note(fmt.Sprintf("nested frames checked by probes: %d failed frames, %d static frames; %d frames ran out of gas, %d code deposits failed; %d state-root comparisons (failed top-level calls left out)", totalFailedNested, totalStaticNested, totalOOG, totalDeposit, rootChecks))
	res.Write(a.Out)
	fmt.Printf("c12: %d evaluations, %d model cases, distinct nontrivial %d\n", res.Evaluations, res.ModelCases, res.DistinctNontrivial)
	hk := []string{}
	for k := range res.Histogram {
		hk = append(hk, k)
	}
	sort.Strings(hk)
	for _, k := range hk {
		fmt.Printf("  %-70s %d\n", k, res.Histogram[k])
	}
	_ = hex.EncodeToString
	_ = service.MinerManagerImpl
}
