package main

// Block level: the REAL per-block loop (core.VMExecutor.Execute through the hook VerifC06ExecuteBlockCtx) on blocks
// that mix contract transactions, wrapped-eth contract transactions, operator-node transactions (type 7: they run
// the EVM too, on the main-node contract), miner transactions and plain transfers in every adjacent order.
// Who calls AccountDB.Prepare is now inside the check. All EVM-running transactions execute the same contract M
// (installed at common.MainNodeContract()): LOG1 whose topic is TLOAD(1) (what the transaction finds in its
// transient storage), TSTORE(1,9), a CREATE (the new address enters the access list), three more LOG1.
// Direct predicates per transaction: the first topic is 0 (fresh transient storage); the receipt carries exactly
// the logs the transaction emitted, filed under its own hash; GetLogs of earlier hashes is unchanged; after the
// prefix block ending with the transaction, the access list holds no address created by an earlier transaction.
// Correspondence: the same transactions through the model's exec_tx (Prepare for every transaction), comparing
// access list / storage / transient storage / logs of every hash after each transaction.

import (
	"encoding/json"
	"math/big"
	"sort"
	"fmt"
	"strings"
	"time"

	"com.tuntun.rangers/node/src/common"
	"com.tuntun.rangers/node/src/core"
	crypto "com.tuntun.rangers/node/src/eth_crypto"
	"com.tuntun.rangers/node/src/executor"
	"com.tuntun.rangers/node/src/middleware/types"
	"com.tuntun.rangers/node/src/service"
	"com.tuntun.rangers/node/src/utility"

	"verif/harness/hx"
)

const (
	idAlt   = 61 // a second contract with different code (contract transactions only)
	idMain  = 60 // the main-node contract
	idSrc0  = 70 // sources 70..75 (one per transaction position; 74, 75 are miner accounts for the node txs)
	idBlkNw = 80 // addresses created by the block's transactions: 80, 81, ...
)

var blockBooted = false

func bootBlock() {
	if blockBooted {
		return
	}
	blockBooted = true
	service.InitRewardCalculator(stubChain{}, stubChain{}, stubChain{})
	executor.InitExecutors()
	core.VerifC06InitLoggers()
}

func blkAddr(id int) common.Address {
	if id == idMain {
		return common.MainNodeContract()
	}
	return addrOf(id)
}

type blkTx struct {
	Kind   string // contract ethtx node miner transfer
	Src    int
	Target int // contract / ethtx: idMain or idAlt
}

// the chain context handed to the loop: BLOCKHASH(990) in a contract moves the node clock 4 s ahead (the proposer's
// casting budget is 3 s)
type clockChain struct{ stubChain }

func (clockChain) GetBlockHash(h uint64) common.Hash {
	if h == 990 {
		utility.VerifAdvanceClock(4 * time.Second)
	}
	return common.Hash{}
}

var blkKinds = []string{"contract", "ethtx", "node", "miner", "transfer"}

func isEVMKind(k string) bool { return k == "contract" || k == "ethtx" || k == "node" }

// the code of M; variant: with / without CREATE, ending with STOP / REVERT
func mainProg(create bool, fin string, leafInit int) Prog {
	p := Prog{Fin: fin}
	p.Acts = append(p.Acts, Action{Op: "logt", K: 1}, Action{Op: "tstore", K: 1, V: 9})
	if create {
		p.Acts = append(p.Acts, Action{Op: "create", Init: leafInit})
	}
	p.Acts = append(p.Acts, Action{Op: "log", K: 7}, Action{Op: "log", K: 8}, Action{Op: "log", K: 9})
	return p
}

// block-level byte code: no probes (Context.GetHash is the chain's here), logs carry a 32-byte data word (the
// operator-node executor reads an address out of the fourth log)
func compileBlk(t *table, id int, asInit bool) []byte {
	p := t.progs[id-1]
	a := &asm{}
	a.push(uint64(0x7000 + id)).op(opPOP)
	a.pushAddr(addrOf(0x66)).push(0).op(opMSTORE) // memory[0..32) = an address word
	for _, x := range p.Acts {
		switch x.Op {
		case "sstore":
			a.push(x.V).push(x.K).op(opSSTORE)
		case "tstore":
			a.push(x.V).push(x.K).op(opTSTORE)
		case "log":
			a.push(x.K).push(32).push(0).op(opLOG1)
		case "logt":
			a.push(x.K).op(0x5c).push(32).push(0).op(opLOG1) // TLOAD
		case "bump":
			a.push(990).op(opBLOCKHASH, opPOP)
		case "create":
			init := compileBlk(t, x.Init, true)
			a.mem(64, init)
			a.push(uint64(len(init))).push(64).push(0).op(opCREATE, opPOP)
		}
	}
	switch p.Fin {
	case "stop":
		a.op(opSTOP)
	case "return":
		if asInit {
			rt := compileBlk(t, p.FinArg, false)
			a.mem(64, rt).push(uint64(len(rt))).push(64).op(opRETURN)
		} else {
			a.push(0).push(0).op(opRETURN)
		}
	case "revert":
		a.push(0).push(0).op(opREVERT)
	}
	return a.b
}

type blkWorld struct {
	w     *world
	t     *table
	pMain int
}

func buildBlkWorld(t *table, pMain int) *blkWorld {
	w := newWorld()
	adb := w.adb
	m := blkAddr(idMain)
	adb.SetNonce(m, 1)
	adb.SetCode(m, compileBlk(t, pMain, false))
	adb.SetNonce(blkAddr(idAlt), 1)
	adb.SetCode(blkAddr(idAlt), compileBlk(t, pMain+1, false))
	for i := 0; i < 6; i++ {
		adb.SetBalance(addrOf(idSrc0+i), new(big.Int).Mul(big.NewInt(1000), unit18))
	}
	for i := 4; i < 6; i++ { // the operator-node transaction needs a miner whose account is its source
		mi := &types.Miner{Id: []byte{0x6e, byte(i)}, PublicKey: []byte{1}, VrfPublicKey: []byte{2}, Type: common.MinerTypeValidator,
			Stake: 800, Account: addrOf(idSrc0 + i).Bytes(), Status: common.MinerStatusNormal}
		service.MinerManagerImpl.InsertMiner(mi, adb)
	}
	w.boundary()
	return &blkWorld{w: w, t: t, pMain: pMain}
}

var blkReq uint64

func mkBlkTx(k blkTx) *types.Transaction {
	blkReq++
	src := addrOf(k.Src).GetHexString()
	t := &types.Transaction{Source: src, RequestId: blkReq, Sign: &common.Sign{}}
	switch k.Kind {
	case "contract", "ethtx":
		t.Type = types.TransactionTypeContract
		if k.Kind == "ethtx" {
			t.Type = types.TransactionTypeETHTX
		}
		t.Target = blkAddr(k.Target).GetHexString()
		d, _ := json.Marshal(types.ContractData{GasLimit: "20000000", TransferValue: "0", AbiData: "0x00"})
		t.Data = string(d)
	case "node":
		t.Type = types.TransactionTypeOperatorNode
	case "miner":
		t.Type = types.TransactionTypeMinerApply
		t.Data = "{not a miner}"
	case "transfer":
		t.Type = types.TransactionTypeOperatorEvent
		t.ExtraData = fmt.Sprintf(`{"%s":{"balance":"1"}}`, addrOf(idEOA).GetHexString())
	}
	t.Hash = t.GenHash()
	return t
}

func runPrefix(bw *blkWorld, txs []*types.Transaction, situation string) []*types.Receipt {
	common.SetBlockHeight(runHeight)
	utility.VerifResetClock()
	defer utility.VerifResetClock()
	hd := &types.BlockHeader{Height: runHeight, CurTime: time.Unix(1700000000, 0), Castor: []byte{0xca, 0x57}}
	b := &types.Block{Header: hd, Transactions: append([]*types.Transaction{}, txs...)}
	_, _, _, rs := core.VerifC01ExecuteBlockWithChain(bw.w.adb, b, situation, clockChain{})
	return rs
}

func runBlockCase(kinds []blkTx, create bool, fin string, name string, situation string, bump bool, res *hx.Result, cs *hx.Cases) {
	bootBlock()
	t := &table{}
	t.progs = append(t.progs, Prog{Acts: []Action{{Op: "sstore", K: 1, V: 1}}, Fin: "stop"}) // 1: creation code (empty runtime)
	t.progs = append(t.progs, mainProg(create, fin, 1))                                         // 2: M
	alt := Prog{Acts: []Action{{Op: "logt", K: 1}, {Op: "tstore", K: 1, V: 5}, {Op: "sstore", K: 2, V: 4}, {Op: "log", K: 3}}, Fin: "stop"}
	if bump {
		alt.Acts = append(alt.Acts, Action{Op: "bump"})
	}
	t.progs = append(t.progs, alt) // 3: the second contract
	const pMain = 2
	txs := []*types.Transaction{}
	for _, k := range kinds {
		txs = append(txs, mkBlkTx(k))
	}
	m := blkAddr(idMain)
	in := map[string]interface{}{"block": name, "situation": situation, "kinds": kinds, "main_contract_program": t.progs[1].String(), "second_contract_program": alt.String()}
	addrID := map[common.Address]int{m: idMain, blkAddr(idAlt): idAlt}
	// the whole block once: which transactions the loop executed (a proposer's loop stops when its time is up)
	{
		bw := buildBlkWorld(t, pMain)
		var rc []*types.Receipt
		panicked := ""
		func() {
			defer func() {
				if p := recover(); p != nil {
					panicked = fmt.Sprint(p)
				}
			}()
			rc = runPrefix(bw, txs, situation)
		}()
		if panicked != "" {
			res.Violate("C12/block:panic", panicked, in)
			return
		}
		n := 0
		for n < len(txs) && n < len(rc) && rc[n].TxHash == txs[n].Hash {
			n++
		}
		if n != len(rc) {
			res.Violate("C12/block:receipt-order", fmt.Sprintf("the receipts are not those of a prefix of the block in order (%d receipts, %d match)", len(rc), n), in)
			return
		}
		if n < len(txs) {
			if situation != "casting" || !bump {
				res.Violate("C12/block:no-receipt", fmt.Sprintf("only %d of %d transactions have a receipt", n, len(txs)), in)
				return
			}
			res.Count("block|cut-by-the-casting-clock", name, true)
		}
		txs, kinds = txs[:n], kinds[:n]
	}
	hashID := map[common.Hash]int{}
	for i, tx := range txs {
		hashID[tx.Hash] = i + 1
	}
	// one world per block prefix: the state after transaction i is the end state of the real loop on txs[:i+1]
	worlds := []*blkWorld{}
	receipts := [][]*types.Receipt{}
	for i := range txs {
		bw := buildBlkWorld(t, pMain)
		panicked := ""
		var rc []*types.Receipt
		func() {
			defer func() {
				if p := recover(); p != nil {
					panicked = fmt.Sprint(p)
				}
			}()
			rc = runPrefix(bw, txs[:i+1], situation)
		}()
		if panicked != "" {
			res.Violate("C12/block:panic", panicked, in)
			return
		}
		worlds = append(worlds, bw)
		receipts = append(receipts, rc)
	}
	// which transactions ran the EVM to the end (status of the loop's own receipt), which addresses they created
	evmRan := make([]bool, len(txs))  // the EVM ran (successfully or not)
	evmOK := make([]bool, len(txs))   // ... and the transaction succeeded
	created := make([]common.Address, len(txs))
	nonceM := uint64(1)
	for i := range txs {
		var my *types.Receipt
		for _, r := range receipts[i] {
			if r.TxHash == txs[i].Hash {
				my = r
			}
		}
		if my == nil {
			res.Violate("C12/block:no-receipt", fmt.Sprintf("transaction %d (%s) has no receipt", i, kinds[i].Kind), in)
			return
		}
		if isEVMKind(kinds[i].Kind) {
			evmOK[i] = my.Status == types.ReceiptStatusSuccessful
			evmRan[i] = evmOK[i] || fin == "revert"
		}
		n := worlds[i].w.adb.GetNonce(m)
		if evmRan[i] && create && kinds[i].Target != idAlt {
			created[i] = crypto.CreateAddress(m, nonceM)
			if _, ok := addrID[created[i]]; !ok {
				addrID[created[i]] = idBlkNw + len(addrID)
			}
		}
		nonceM = n
	}
	aids := []int{}
	byID := map[int]common.Address{}
	for a, id := range addrID {
		aids = append(aids, id)
		byID[id] = a
	}
	sort.Ints(aids)
	// ---- direct predicates on transaction i (the last of prefix i) ----
	for i := range txs {
		adb := worlds[i].w.adb
		kind := kinds[i].Kind
		var my *types.Receipt
		for _, r := range receipts[i] {
			if r.TxHash == txs[i].Hash {
				my = r
			}
		}
		emitted := 0
		tgt := m
		if evmOK[i] {
			emitted = 4
			if kinds[i].Target == idAlt {
				emitted, tgt = 2, blkAddr(idAlt)
			}
		}
		own := adb.GetLogs(txs[i].Hash)
		if len(my.Logs) != emitted || len(own) != emitted {
			res.Violate("C12/receipt-logs:misfiled:"+kind, fmt.Sprintf("transaction %d (%s) emitted %d logs; its receipt carries %d, GetLogs(its hash) %d (receipt message: %.60s)", i, kind, emitted, len(my.Logs), len(own), my.Msg), in)
		}
		for _, l := range own {
			if l.TxHash != txs[i].Hash || l.Address != tgt {
				res.Violate("C12/receipt-logs:misfiled:"+kind, fmt.Sprintf("a log of transaction %d is filed with hash %s / address %s", i, l.TxHash.Hex(), l.Address.GetHexString()), in)
			}
		}
		if emitted > 0 && len(own) == emitted && (len(own[0].Topics) != 1 || wordU(own[0].Topics[0]) != 0) {
			res.Violate("C12/tx-scratch:not-fresh:"+kind, fmt.Sprintf("transaction %d (%s) found TLOAD(1) = %s at its start: transient storage written by an earlier transaction of the block", i, kind, own[0].Topics[0].Hex()), in)
		}
		for j := 0; j < i; j++ {
			before, after := worlds[j].w.adb.GetLogs(txs[j].Hash), adb.GetLogs(txs[j].Hash)
			if len(before) != len(after) {
				res.Violate("C12/receipt-logs:misfiled:"+kind, fmt.Sprintf("while transaction %d (%s) ran, the log list of transaction %d (%s) changed from %d to %d entries", i, kind, j, kinds[j].Kind, len(before), len(after)), in)
			}
			if created[j] != (common.Address{}) && adb.AddressInAccessList(created[j]) {
				res.Violate("C12/tx-scratch:not-fresh:"+kind, fmt.Sprintf("after transaction %d (%s) the access list still holds the address created by transaction %d (%s): the list was not reset for it", i, kind, j, kinds[j].Kind), in)
			}
		}
		if kinds[i].Target != idAlt && wordU(adb.GetTransientState(blkAddr(idAlt), keyOf(1))) != 0 {
			res.Violate("C12/tx-scratch:not-fresh:"+kind, fmt.Sprintf("after transaction %d (%s) the transient storage of the other contract, written by an earlier transaction, is still there", i, kind), in)
		}
		if !evmOK[i] && wordU(adb.GetTransientState(m, keyOf(1))) != 0 {
			res.Violate("C12/tx-scratch:not-fresh:"+kind, fmt.Sprintf("after transaction %d (%s, no surviving EVM write) the transient storage of an earlier transaction is still there (slot 1 = %d)", i, kind, wordU(adb.GetTransientState(m, keyOf(1)))), in)
		}
		cls := "block|" + kind + "|after-"
		if i == 0 {
			cls += "nothing"
		} else {
			cls += kinds[i-1].Kind
		}
		res.Count(cls, name+"#"+fmt.Sprint(i), isEVMKind(kind) || (i > 0 && isEVMKind(kinds[i-1].Kind)))
	}
	// ---- model case: Prepare + exec_tx for every transaction, observations after each ----
	if cs == nil {
		return
	}
	altModel := alt
	if bump {
		altModel.Acts = alt.Acts[:len(alt.Acts)-1] // the clock bump (a BLOCKHASH) has no effect on the state
	}
	progs := []string{coqProg(t.progs[0]), coqProg(t.progs[1]), coqProg(altModel)}
	init := fmt.Sprintf("[ia %d true 1 %d 0 []; ia %d true 1 %d 0 []]", idMain, pMain, idAlt, pMain+1)
	addrs, hashes := []uint64{}, []uint64{}
	for _, id := range aids {
		addrs = append(addrs, uint64(id))
	}
	for i := range txs {
		hashes = append(hashes, uint64(i+1))
	}
	terms := []string{}
	for i := range txs {
		adb := worlds[i].w.adb
		kind := "TNone"
		orc := []uint64{}
		// the model runs the EVM exactly when the real transaction did (the loop's admission checks - fee, balance,
		// miner record - are outside the frame model)
		if evmRan[i] {
			tg := idMain
			if kinds[i].Target == idAlt {
				tg = idAlt
			}
			kind = fmt.Sprintf("TCall %d 0", tg)
			if create && tg == idMain {
				orc = []uint64{0, uint64(addrID[created[i]]), 0}
			}
		}
		ob := []uint64{}
		for _, id := range aids {
			a := byID[id]
			ob = append(ob, b2u(adb.AddressInAccessList(a)))
			for _, k := range keys {
				ob = append(ob, wordU(adb.GetState(a, keyOf(k))))
			}
			for _, k := range keys {
				ob = append(ob, wordU(adb.GetTransientState(a, keyOf(k))))
			}
		}
		for j := range txs {
			lg := adb.GetLogs(txs[j].Hash)
			ob = append(ob, uint64(len(lg)))
			for _, l := range lg {
				tp, th, aid := uint64(9999), uint64(9999), uint64(9999)
				if len(l.Topics) == 1 {
					tp = wordU(l.Topics[0])
				}
				if id, ok := hashID[l.TxHash]; ok {
					th = uint64(id)
				}
				if id, ok := addrID[l.Address]; ok {
					aid = uint64(id)
				}
				ob = append(ob, aid, tp, th, uint64(l.TxIndex), uint64(l.Index))
			}
		}
		terms = append(terms, fmt.Sprintf("(mkTx %d %d %d (%s) %s, %s)", i+1, i, kinds[i].Src, kind, nlist(orc), nlist(ob)))
	}
	term := fmt.Sprintf("BCase [%s] %s %s %s %s [%s]", strings.Join(progs, "; "), init, nlist(addrs), nlist(keys), nlist(hashes), strings.Join(terms, "; "))
	cs.Add(term, map[string]interface{}{"block": name, "kinds": kinds, "program": t.progs[1].String()})
}

// every ordered pair of kinds (the second transaction follows the first), every triple around an EVM kind, with the
// variants of M; sources: one per position (the node transactions use the miner accounts 74, 75)
func blockCases(res *hx.Result, out string) int {
	cs := hx.NewCasesNamed(out, "blk", "From V.C12 Require Import Model Harness.\nFrom Coq Require Import NArith.\nOpen Scope N_scope.", "bcase", "check_block", 60)
	src := func(kind string, pos int, nodes *int) int {
		if kind == "node" {
			*nodes++
			return idSrc0 + 3 + *nodes
		}
		return idSrc0 + pos
	}
	variant := 0
	runX := func(ks []string, create bool, fin string, situation string, bump bool, altMask int) {
		nodes := 0
		bt := []blkTx{}
		for i, k := range ks {
			tg := idMain
			if (k == "contract" || k == "ethtx") && altMask&(1<<uint(i)) != 0 {
				tg = idAlt
			}
			bt = append(bt, blkTx{Kind: k, Src: src(k, i, &nodes), Target: tg})
		}
		if nodes > 2 {
			return
		}
		runBlockCase(bt, create, fin, fmt.Sprintf("%s|%s|create=%v|%s|alt=%d|bump=%v", situation, strings.Join(ks, ","), create, fin, altMask, bump), situation, bump, res, cs)
	}
	// several contract codes per block: the contract / wrapped-eth transactions alternate between the two contracts
	run := func(ks []string, create bool, fin string) {
		variant++
		runX(ks, create, fin, "testing", false, []int{0, 1, 2, 3, 5}[variant%5])
	}
	// the proposer's loop (situation "casting": no sorting, after() runs, 3 s budget): with and without the clock
	// running out after the first / second transaction
	for _, ks := range [][]string{{"contract", "node", "contract"}, {"contract", "contract", "node"}, {"ethtx", "contract", "transfer", "node"},
		{"node", "contract", "node"}, {"contract", "miner", "ethtx", "contract"}, {"contract", "ethtx", "node", "contract"}} {
		for _, mask := range []int{0, 1, 2, 3} {
			runX(ks, true, "stop", "casting", false, mask)
			runX(ks, true, "stop", "casting", true, mask)
		}
	}
	for _, a := range blkKinds {
		for _, b := range blkKinds {
			run([]string{a, b}, true, "stop")
			if isEVMKind(a) || isEVMKind(b) {
				run([]string{a, b}, false, "stop")
				run([]string{a, b}, true, "revert")
			}
			for _, c := range []string{"node", "contract", "transfer"} {
				if isEVMKind(a) && (isEVMKind(b) || isEVMKind(c)) {
					run([]string{a, b, c}, true, "stop")
				}
			}
		}
	}
	cs.Close()
	return cs.Total()
}
