package main

import (
	"math/big"
	"fmt"
	"sort"
	"strings"

	"com.tuntun.rangers/node/src/common"
	crypto "com.tuntun.rangers/node/src/eth_crypto"
	"com.tuntun.rangers/node/src/middleware/types"
	"com.tuntun.rangers/node/src/storage/account"
)

// ---------- StateDB wrapper ----------
// Records the created addresses, checks every revert, keeps a shadow log stack, and - with the probes of the
// generated code - follows every frame: where it started (Snapshot), how far it got (step probes), whether it
// succeeded (end probe). From that it derives the oracle list of the model case: the created addresses and, per
// frame that ran code, after how many actions it ran out of gas (0: it did not).

type frameRec struct {
	id      int
	obs     []uint64
	jlen    int
	logMark int
}

// one frame that runs code
type finst struct {
	pid      int // program id (0: unknown code)
	isCreate bool
	lastS    int
	entered  map[int]bool // action index -> its sub-frame was entered / its address was consumed
	orcIdx   int
	snapID   int
	setCode  bool
}

type marker struct {
	site    int // -1: the top-level frame
	kind    string
	parent  *finst
	ai      int // action index in the parent's program
	target  int // static target id (-1 unknown)
	hasSnap bool
	codeSeen bool
	obs     []uint64
	jlen    int
	snapID  int
	fi      *finst
	pcIdx   int // oracle index of a precompile run (-1: none)
}

var debugOrc = false

type orcEntry struct {
	isAddr bool
	addr   common.Address
	val    uint64
}

type recDB struct {
	*account.AccountDB
	o        *observer
	tab      *table
	check    bool
	spec     *caseSpec
	created  []common.Address
	orc      []orcEntry
	frames   []frameRec
	markers  []marker
	reverted map[int]bool
	shadow   []*types.Log // logs of frames that have not been reverted
	undone   int          // journal entries undone by reverts
	reverts  int
	snaps    int
	problems []string // field names that differed after a revert
	detail   []string
	nested   []string // findings of the probe-based checks: key suffix
	nestedD  []string
	failedN  int // nested frames seen to fail (success flag 0)
	staticN  int // nested static frames completed
	oogN     int // frames that ran out of gas
	depositN int // creations whose code deposit could not be paid
}

func (r *recDB) top() *marker {
	if len(r.markers) == 0 {
		return nil
	}
	return &r.markers[len(r.markers)-1]
}

// the innermost frame that is running code
func (r *recDB) cur() *finst {
	for i := len(r.markers) - 1; i >= 0; i-- {
		if r.markers[i].fi != nil {
			return r.markers[i].fi
		}
	}
	return nil
}

func (r *recDB) newFrame(m *marker, pid int, isCreate bool) {
	if debugOrc {
		fmt.Printf("ORC frame entry idx=%d pid=%d create=%v site=%d kind=%s\n", len(r.orc), pid, isCreate, m.site, m.kind)
	}
	m.fi = &finst{pid: pid, isCreate: isCreate, lastS: -1, entered: map[int]bool{}, orcIdx: len(r.orc), snapID: m.snapID}
	r.orc = append(r.orc, orcEntry{})
}

func (r *recDB) AddAddressToAccessList(a common.Address) {
	// evm.create calls this right before its Snapshot; gasAuthCall calls it for the callee
	if m := r.top(); m != nil && !m.hasSnap && m.kind == "create" {
		r.created = append(r.created, a)
		r.orc = append(r.orc, orcEntry{isAddr: true, addr: a})
		if m.parent != nil {
			m.parent.entered[m.ai] = true
		}
	}
	r.AccountDB.AddAddressToAccessList(a)
}
func (r *recDB) AddLog(l *types.Log) {
	r.shadow = append(r.shadow, l)
	r.AccountDB.AddLog(l)
}
func (r *recDB) SetCode(a common.Address, code []byte) {
	if m := r.top(); m != nil && m.fi != nil && m.fi.isCreate {
		m.fi.setCode = true
	}
	r.AccountDB.SetCode(a, code)
}
func (r *recDB) GetCode(a common.Address) []byte {
	code := r.AccountDB.GetCode(a)
	// evm.Call / CallCode / DelegateCall / StaticCall / AuthCall fetch the callee's code right after their Snapshot
	if m := r.top(); m != nil && m.hasSnap && !m.codeSeen && m.kind != "create" {
		m.codeSeen = true
		if len(code) > 0 {
			r.newFrame(m, r.o.codeID[crypto.Keccak256Hash(code)], false)
		}
	}
	return code
}
func (r *recDB) Snapshot() int {
	id := r.AccountDB.Snapshot()
	f := frameRec{id: id, jlen: r.AccountDB.VerifJournalLen(), logMark: len(r.shadow)}
	if r.check {
		f.obs = r.o.obs(r.AccountDB)
	}
	r.frames = append(r.frames, f)
	if debugOrc {
		fmt.Printf("ORC snapshot %d bal22=%s\n", id, r.AccountDB.GetBalance(addrOf(idPcFail)))
	}
	r.snaps++
	if m := r.top(); m != nil && !m.hasSnap {
		m.hasSnap, m.obs, m.jlen, m.snapID = true, f.obs, f.jlen, id
		if m.parent != nil {
			m.parent.entered[m.ai] = true
		}
		switch {
		case m.kind == "create":
			pid := 0
			if m.site >= 0 {
				sa := r.tab.sact[m.site]
				pid = r.tab.progs[sa[0]-1].Acts[sa[1]].Init
			} else {
				pid = m.target
			}
			r.newFrame(m, pid, true)
		case isPrecompile(m.target):
			m.pcIdx = len(r.orc)
			r.orc = append(r.orc, orcEntry{})
		}
	}
	return id
}
func (r *recDB) RevertToSnapshot(id int) {
	jl := r.AccountDB.VerifJournalLen()
	r.AccountDB.RevertToSnapshot(id)
	if debugOrc {
		fmt.Printf("ORC revert %d bal22=%s\n", id, r.AccountDB.GetBalance(addrOf(idPcFail)))
	}
	r.reverts++
	r.reverted[id] = true
	for i := len(r.frames) - 1; i >= 0; i-- {
		if r.frames[i].id == id {
			f := r.frames[i]
			r.frames = r.frames[:i]
			r.shadow = r.shadow[:f.logMark]
			r.undone += jl - f.jlen
			if r.AccountDB.VerifJournalLen() != f.jlen {
				r.problems = append(r.problems, "journal-length")
				r.detail = append(r.detail, fmt.Sprintf("journal length %d after revert, %d at snapshot", r.AccountDB.VerifJournalLen(), f.jlen))
			}
			if r.check {
				now := r.o.obs(r.AccountDB)
				if d := diffAt(f.obs, now); d >= 0 {
					n := r.o.fieldName(d)
					r.problems = append(r.problems, fieldClass(n))
					r.detail = append(r.detail, fmt.Sprintf("%s differs after RevertToSnapshot(%d): %d -> %d", n, id, f.obs[d], now[d]))
				}
			}
			return
		}
	}
	r.problems = append(r.problems, "unknown-revision")
}

// finalize: the frame is over; ok/known = its success flag if it was seen; oogTop: for the top-level frame, whether
// the error class was out-of-gas (other errors are computed by the model itself)
func (r *recDB) finalize(fi *finst, ok, known bool) {
	if fi == nil || fi.pid == 0 {
		return
	}
	p := r.tab.progs[fi.pid-1]
	n := len(p.Acts)
	val := uint64(0)
	switch {
	case fi.lastS < n:
		k := 0
		if fi.lastS >= 0 {
			k = fi.lastS
			if fi.entered[fi.lastS] {
				k++
			}
		}
		val = uint64(1 + k)
		r.oogN++
	case !known || ok:
	case fi.isCreate:
		switch {
		case p.Fin == "returnbig" || p.Fin == "revert" || p.Fin == "invalid":
		case r.reverted[fi.snapID]:
			val = uint64(1 + n) // out of gas at the terminator
			r.oogN++
		default:
			val = 1000 // the run ended well, CREATE failed and nothing was reverted: code deposit
			r.depositN++
		}
	case p.Fin == "return" || p.Fin == "returnbig" || p.Fin == "selfdestruct":
		val = uint64(1 + n)
		r.oogN++
	}
	r.orc[fi.orcIdx].val = val
}

func (r *recDB) closeMarker(m marker, ok, known bool) {
	r.finalize(m.fi, ok, known)
	if m.pcIdx >= 0 && known && !ok && m.target == idPcOK {
		r.orc[m.pcIdx].val = 1 // a precompile that should succeed failed: out of gas
	}
}

// probe receives the BLOCKHASH numbers of the generated code
func (r *recDB) probe(n uint64) {
	switch {
	case n >= probeStep && n < probeStep+maxSteps:
		if f := r.cur(); f != nil && int(n-probeStep) > f.lastS {
			f.lastS = int(n - probeStep)
		}
	case n >= probeStart && n < probeStart+maxSites:
		site := int(n - probeStart)
		m := marker{site: site, kind: "?", parent: r.cur(), target: -1, pcIdx: -1}
		if site < len(r.tab.kinds) {
			m.kind = r.tab.kinds[site]
			sa := r.tab.sact[site]
			m.ai = sa[1]
			if a := r.tab.progs[sa[0]-1].Acts[sa[1]]; a.Op == "call" || a.Op == "authcall" {
				m.target = a.Target
			}
		}
		r.markers = append(r.markers, m)
	case n >= probeEnd && n < probeEnd+2*maxSites:
		site, ok := int(n-probeEnd)/2, (n-probeEnd)%2 == 1
		if debugOrc {
			fmt.Printf("ORC END site=%d ok=%v\n", site, ok)
		}
		// frames that died between their probes left stale markers above ours
		i := len(r.markers) - 1
		for i >= 0 && r.markers[i].site != site {
			i--
		}
		if i < 0 {
			return
		}
		for j := len(r.markers) - 1; j > i; j-- {
			r.closeMarker(r.markers[j], false, false)
		}
		m := r.markers[i]
		r.markers = r.markers[:i]
		r.closeMarker(m, ok, true)
		if !m.hasSnap || !r.check {
			return
		}
		if !ok {
			r.failedN++
		}
		if m.kind == "static" {
			r.staticN++
		}
		if !ok || m.kind == "static" {
			what := "failed-frame:nested-" + m.kind
			if m.kind == "create" && !r.reverted[m.snapID] {
				what = "failed-frame:create-code-store-out-of-gas"
			}
			if ok {
				what = "static-frame:nested"
			}
			if m.kind == "static" && r.spec != nil && r.spec.staticOp != "" {
				what = "static-frame:custom-opcode:" + r.spec.staticOp + ":nested"
			}
			now := r.o.obs(r.AccountDB)
			if d := diffAt(m.obs, now); d >= 0 {
				nm := r.o.fieldName(d)
				cl := fieldClass(nm)
				if m.kind == "static" && cl == "precompile-account" {
					what = "static-frame:absent-precompile-account-created"
					cl = "nested"
				}
				r.nested = append(r.nested, what+":"+cl)
				r.nestedD = append(r.nestedD, fmt.Sprintf("%s: a %s frame (success flag %v) ended and %s differs from the value at its Snapshot: %d -> %d", what, m.kind, ok, nm, m.obs[d], now[d]))
			} else if jl := r.AccountDB.VerifJournalLen(); jl != m.jlen {
				r.nested = append(r.nested, what+":journal-length")
				r.nestedD = append(r.nestedD, fmt.Sprintf("%s: a %s frame (success flag %v) ended with %d journal entries, %d at its Snapshot: %v", what, m.kind, ok, jl, m.jlen, uniq(r.AccountDB.VerifJournalKinds(m.jlen))))
			}
		}
	}
}

// oracle as the model reads it: address ids and fate codes in execution order
func (r *recDB) oracleIDs() []uint64 {
	out := []uint64{}
	for _, e := range r.orc {
		if e.isAddr {
			out = append(out, r.o.aid(e.addr))
		} else {
			out = append(out, e.val)
		}
	}
	return out
}

func uniq(l []string) []string {
	m := map[string]bool{}
	out := []string{}
	for _, s := range l {
		s = strings.TrimPrefix(s, "account.")
		if !m[s] {
			m[s] = true
			out = append(out, s)
		}
	}
	sort.Strings(out)
	return out
}

func (r *recDB) AddBalance(a common.Address, v *big.Int) {
	if debugOrc {
		fmt.Printf("ORC AddBalance %d %s\n", r.o.aid(a), v)
	}
	r.AccountDB.AddBalance(a, v)
}
func (r *recDB) SubBalance(a common.Address, v *big.Int) *big.Int {
	if debugOrc {
		fmt.Printf("ORC SubBalance %d %s\n", r.o.aid(a), v)
	}
	return r.AccountDB.SubBalance(a, v)
}
