package main

import (
	"fmt"
	"math/big"
	"strings"

	"com.tuntun.rangers/node/src/common"
	crypto "com.tuntun.rangers/node/src/eth_crypto"
	"com.tuntun.rangers/node/src/middleware/db"
	"com.tuntun.rangers/node/src/middleware/types"
	"com.tuntun.rangers/node/src/service"
	"com.tuntun.rangers/node/src/storage/account"

	"verif/harness/hx"
)

// ---------- world ----------
type world struct {
	disk db.Database
	tdb  account.AccountDatabase
	adb  *account.AccountDB
}

func newWorld() *world {
	md, err := db.NewMemDatabase()
	if err != nil {
		panic(err)
	}
	w := &world{disk: md}
	w.tdb = account.NewDatabase(md)
	adb, err := account.NewAccountDB(common.Hash{}, w.tdb)
	if err != nil {
		panic(err)
	}
	adb.AddERC20Binding(common.BLANCE_NAME, tokenContract, 3, 18)
	adb.GetBalance(addrOf(idOrigin)) // loads the process-global binding cache
	adb.SetNonce(tokenContract, 1)
	w.adb = adb
	return w
}

func (w *world) boundary() {
	w.adb.IntermediateRoot(true)
	root, err := w.adb.Commit(true)
	if err != nil {
		panic(err)
	}
	if err := w.tdb.TrieDB().Commit(root, false); err != nil {
		panic(err)
	}
	adb, err := account.NewAccountDB(root, w.tdb)
	if err != nil {
		panic(err)
	}
	w.adb = adb
}

type iacct struct {
	id     int
	exists bool
	nonce  uint64
	code   int
	bal    *big.Int
	st     [][2]uint64
}

type caseSpec struct {
	t         *table
	codeAt    map[int]int // contract id -> program id
	txs       []txSpec
	originObj bool
	stake     uint64 // initial stake of the miner whose account is contract idMiner
	pcExist   bool   // the precompiles' accounts exist (nonce 1)
	maxNonce  int    // this contract starts with nonce 2^64-1 (0: none)
	balOf     map[int]uint64 // fixed initial balances (others are drawn)
	staticOp  string // set for the fixed cases that run a custom opcode inside a static frame (expected finding)
}

type txSpec struct {
	Create bool
	Target int
	Value  uint64
	Init   int
	Static bool   // top-level evm.StaticCall (direct search only)
	Gas    uint64 // 0: topGas
}

func (cs *caseSpec) initial(r *hx.Rng) []iacct {
	l := []iacct{
		{id: idZero},
		{id: idOrigin, exists: cs.originObj, nonce: 5, bal: bigU(1000000)},
		{id: idEOA, exists: true, nonce: 1, bal: bigU(10)},
		{id: idAbsent},
		{id: idFunded, bal: bigU(33)},
	}
	if !cs.originObj {
		l[1].nonce = 0
	}
	for _, c := range contractIDs() {
		a := iacct{id: c, exists: true, nonce: 1, code: cs.codeAt[c], bal: bigU([]uint64{0, 100, 100, 40}[r.Intn(4)])}
		if c == idMiner {
			a.bal = new(big.Int).Mul(big.NewInt(15), unit18)
		}
		if c == cs.maxNonce {
			a.nonce = ^uint64(0)
		}
		if b, ok := cs.balOf[c]; ok {
			a.bal = bigU(b)
		}
		for _, k := range keys {
			if r.Intn(3) == 0 {
				a.st = append(a.st, [2]uint64{k, uint64(1 + r.Intn(3))})
			}
		}
		l = append(l, a)
	}
	pc := iacct{exists: cs.pcExist}
	if cs.pcExist {
		pc.nonce = 1
	}
	pc.id = idPcOK
	l = append(l, pc)
	pc.id = idPcFail
	l = append(l, pc)
	l = append(l, iacct{id: idAuth})
	l = append(l, iacct{id: idREG, exists: true, st: [][2]uint64{{2 * idMiner, cs.stake}, {2*idMiner + 1, 1}}})
	l = append(l, iacct{id: idESC})
	return l
}

func (cs *caseSpec) build(init []iacct) *world {
	w := newWorld()
	for _, a := range init {
		if a.id == idREG {
			m := &types.Miner{Id: minerID, PublicKey: []byte{1}, VrfPublicKey: []byte{2}, Type: common.MinerTypeValidator,
				Stake: cs.stake, Account: addrOf(idMiner).Bytes(), Status: common.MinerStatusNormal}
			service.MinerManagerImpl.InsertMiner(m, w.adb)
			continue
		}
		ad := addrOf(a.id)
		if a.exists {
			w.adb.SetNonce(ad, a.nonce)
		}
		if a.code != 0 {
			w.adb.SetCode(ad, cs.t.compile(a.code, false))
		}
		if a.bal != nil && a.bal.Sign() != 0 {
			w.adb.SetBalance(ad, a.bal)
		}
		for _, kv := range a.st {
			w.adb.SetState(ad, keyOf(kv[0]), keyOf(kv[1]))
		}
	}
	w.boundary()
	return w
}

func coqInit(l []iacct) string {
	s := []string{}
	for _, a := range l {
		kv := []string{}
		for _, p := range a.st {
			kv = append(kv, fmt.Sprintf("(%d,%d)", p[0], p[1]))
		}
		b := "0"
		if a.bal != nil {
			b = a.bal.String()
		}
		s = append(s, fmt.Sprintf("ia %d %s %d %d %s [%s]", a.id, hx.CoqBool(a.exists), a.nonce, a.code, b, strings.Join(kv, ";")))
	}
	return "[" + strings.Join(s, "; ") + "]"
}

// ---------- observation ----------
type observer struct {
	addrs  []common.Address
	addrID map[common.Address]int
	codeID map[common.Hash]int
	hashes []common.Hash
	hashID map[common.Hash]int
}

func newObserver(spec *caseSpec, nHashes int) *observer {
	o := &observer{addrID: map[common.Address]int{}, codeID: map[common.Hash]int{}, hashID: map[common.Hash]int{}}
	for _, id := range baseIDs() {
		o.addrs = append(o.addrs, addrOf(id))
		o.addrID[addrOf(id)] = id
	}
	for i := range spec.t.progs {
		o.codeID[crypto.Keccak256Hash(spec.t.compile(i+1, false))] = i + 1
	}
	for i := 0; i < nHashes; i++ {
		o.hashes = append(o.hashes, hashOf(uint64(i+1)))
		o.hashID[hashOf(uint64(i+1))] = i + 1
	}
	return o
}

func (o *observer) aid(a common.Address) uint64 {
	if id, ok := o.addrID[a]; ok {
		return uint64(id)
	}
	return 9999
}

const perAddr = 7 // exist nonce code suicided balance accesslist empty

func b2u(x bool) uint64 {
	if x {
		return 1
	}
	return 0
}

func bigToU(v *big.Int) uint64 {
	if !v.IsUint64() {
		return 1<<63 + 1
	}
	return v.Uint64()
}

func (o *observer) obs(adb *account.AccountDB) []uint64 {
	out := []uint64{}
	for _, a := range o.addrs {
		cid := uint64(0)
		if code := adb.GetCode(a); len(code) > 0 {
			if id, ok := o.codeID[crypto.Keccak256Hash(code)]; ok {
				cid = uint64(id)
			} else {
				cid = 9999
			}
		}
		// Empty() reads the storage caches (C04 findings): compared for every account except the storage-only
		// system accounts, whose answer depends on which of their slots happen to be cached
		emp := uint64(0)
		if id := o.aid(a); id < idREG {
			emp = b2u(adb.Empty(a))
		}
		out = append(out, b2u(adb.Exist(a)), adb.GetNonce(a), cid, b2u(adb.HasSuicided(a)), bigToU(adb.GetBalance(a)), b2u(adb.AddressInAccessList(a)), emp)
		for _, k := range keys {
			out = append(out, wordU(adb.GetState(a, keyOf(k))))
		}
		for _, k := range keys {
			out = append(out, wordU(adb.GetTransientState(a, keyOf(k))))
		}
	}
	// registry and escrow, read the way the node reads them
	m := service.MinerManagerImpl.GetMiner(minerID, adb)
	st, status := uint64(0), uint64(0)
	if m != nil {
		st, status = m.Stake, uint64(m.Status)+1
	}
	out = append(out, st, status)
	for _, who := range []int{idOrigin, idMiner} {
		v := new(big.Int).SetBytes(adb.GetData(addrOf(idESC), addrOf(who).Bytes()))
		out = append(out, bigToU(v.Div(v, unit18)))
	}
	out = append(out, adb.GetRefund())
	for _, h := range o.hashes {
		lg := adb.GetLogs(h)
		out = append(out, uint64(len(lg)))
		for _, l := range lg {
			out = append(out, o.flatLog(l)...)
		}
	}
	return out
}

func (o *observer) flatLog(l *types.Log) []uint64 {
	tp := uint64(9999)
	if len(l.Topics) == 1 {
		tp = wordU(l.Topics[0])
	}
	th := uint64(9999)
	if id, ok := o.hashID[l.TxHash]; ok {
		th = uint64(id)
	}
	return []uint64{o.aid(l.Address), tp, th, uint64(l.TxIndex), uint64(l.Index)}
}

func diffAt(a, b []uint64) int {
	for i := range a {
		if i >= len(b) || a[i] != b[i] {
			return i
		}
	}
	if len(b) > len(a) {
		return len(a)
	}
	return -1
}

// names the observable at flat position i
func (o *observer) fieldName(i int) string {
	per := perAddr + 2*len(keys)
	if i < per*len(o.addrs) {
		a, f := i/per, i%per
		names := []string{"exist", "nonce", "code", "suicided", "balance", "accesslist", "empty"}
		if f < perAddr {
			return fmt.Sprintf("%s(%d)", names[f], o.aid(o.addrs[a]))
		}
		if f < perAddr+len(keys) {
			return fmt.Sprintf("storage(%d,%d)", o.aid(o.addrs[a]), keys[f-perAddr])
		}
		return fmt.Sprintf("transient(%d,%d)", o.aid(o.addrs[a]), keys[f-perAddr-len(keys)])
	}
	j := i - per*len(o.addrs)
	switch {
	case j < 2:
		return []string{"miner-stake", "miner-status"}[j]
	case j < 4:
		return "refund-escrow"
	case j == 4:
		return "refund"
	}
	return "logs"
}

func fieldClass(n string) string {
	for _, pc := range []int{idPcOK, idPcFail} {
		if n == fmt.Sprintf("exist(%d)", pc) || n == fmt.Sprintf("empty(%d)", pc) {
			return "precompile-account"
		}
	}
	if i := strings.Index(n, "("); i >= 0 {
		return n[:i]
	}
	return n
}
