package main

import (
	"fmt"

	"verif/harness/hx"
)

// ---------- generator ----------
type gen struct {
	r      *hx.Rng
	t      *table
	gas    bool // explicit small gas budgets on calls
	custom bool // STAKE / UNSTAKE / UNSTAKEALL / AUTH / AUTHCALL in the programs, no static calls
}

func (g *gen) pickFin(allowSD bool, failBias int) (string, int) {
	x := g.r.Intn(100)
	switch {
	case x < failBias/2:
		return "revert", 0
	case x < failBias:
		return "invalid", 0
	case allowSD && x < failBias+12:
		return "selfdestruct", []int{idEOA, idAbsent, idOrigin, idC0 + 6, idC0}[g.r.Intn(5)]
	case x < failBias+30:
		return "return", 0
	case x < failBias+33:
		return "returnbig", 0
	}
	return "stop", 0
}

func (g *gen) cheap() Action {
	if g.custom && g.r.Intn(4) == 0 {
		switch g.r.Intn(4) {
		case 0:
			return Action{Op: "stake", V: []uint64{1, 2, 20, 0}[g.r.Intn(4)]}
		case 1:
			return Action{Op: "unstake", V: []uint64{1, 3, 5, 900}[g.r.Intn(4)]}
		case 2:
			if g.r.Intn(3) == 0 {
				return Action{Op: "unstakeall"}
			}
			return Action{Op: "stake", V: 1}
		}
		return Action{Op: "unstake", V: 2}
	}
	switch g.r.Intn(3) {
	case 0:
		return Action{Op: "sstore", K: keys[g.r.Intn(len(keys))], V: uint64(g.r.Intn(4))}
	case 1:
		return Action{Op: "tstore", K: keys[g.r.Intn(len(keys))], V: uint64(g.r.Intn(3))}
	}
	return Action{Op: "log", K: uint64(1 + g.r.Intn(9))}
}

func (g *gen) value() uint64 {
	switch g.r.Intn(6) {
	case 0, 1, 2:
		return 0
	case 3:
		return uint64(1 + g.r.Intn(5))
	case 4:
		return uint64(20 + g.r.Intn(30))
	}
	return 5000 // more than most contracts hold
}

var gasBudgets = []uint64{100000, 700000, 1500000, 2500000, 4000000, 8000000, 15000000}

func (g *gen) callTo(targets []int) Action {
	kinds := []string{"call", "call", "callcode", "delegate", "static", "static"}
	if g.custom {
		kinds = []string{"call", "call", "callcode", "delegate"}
	}
	k := kinds[g.r.Intn(len(kinds))]
	a := Action{Op: "call", Kind: k, Target: targets[g.r.Intn(len(targets))]}
	if k == "static" && g.r.Intn(10) < 6 { // static calls mostly go to the leaves (short programs: the write is reached)
		leaves := []int{}
		for _, t := range targets {
			if isLeaf(t) {
				leaves = append(leaves, t)
			}
		}
		if len(leaves) > 0 {
			a.Target = leaves[g.r.Intn(len(leaves))]
		}
	}
	if k == "call" || k == "callcode" {
		a.Value = g.value()
	}
	if g.gas && !isPrecompile(a.Target) && g.r.Intn(10) < 5 {
		a.Gas = gasBudgets[g.r.Intn(len(gasBudgets))]
	}
	return a
}

// leaf program: cheap actions only
func (g *gen) leaf() Prog {
	p := Prog{}
	if g.r.Intn(10) < 5 { // one write, then a clean end: the frame succeeds wherever the write is let through
		p.Acts = []Action{g.cheap()}
		p.Fin = []string{"stop", "return"}[g.r.Intn(2)]
		return p
	}
	for i, n := 0, 1+g.r.Intn(4); i < n; i++ {
		p.Acts = append(p.Acts, g.cheap())
	}
	p.Fin, p.FinArg = g.pickFin(true, 45)
	return p
}

var plainTargets = []int{idEOA, idAbsent, idFunded, idPcOK, idPcFail}

// creation code: cheap actions and calls to leaves / plain addresses; returns runtime program rt
func (g *gen) initProg(rt int) Prog {
	p := Prog{}
	targets := append([]int{idC0 + nContract - 2, idC0 + nContract - 1}, plainTargets...)
	for i, n := 0, 1+g.r.Intn(4); i < n; i++ {
		if g.r.Intn(3) == 0 {
			p.Acts = append(p.Acts, g.callTo(targets))
		} else {
			p.Acts = append(p.Acts, g.cheap())
		}
	}
	x := g.r.Intn(100)
	switch {
	case x < 22:
		p.Fin = "revert"
	case x < 34:
		p.Fin = "invalid"
	case x < 40:
		p.Fin, p.FinArg = "selfdestruct", idEOA
	case x < 46:
		p.Fin = "stop"
	case x < 52:
		p.Fin = "returnbig"
	default:
		p.Fin, p.FinArg = "return", rt
	}
	return p
}

// program of contract idC0+lvl: may call contracts with a larger index and plain addresses, and create
func (g *gen) inner(lvl int, inits []int) Prog {
	p := Prog{}
	targets := append([]int{}, plainTargets...)
	for j := lvl + 1; j < nContract; j++ {
		targets = append(targets, idC0+j, idC0+j)
	}
	burned, calls, created := false, 0, false
	for i, n := 0, 2+g.r.Intn(5); i < n && len(p.Acts) < 12; i++ {
		x := g.r.Intn(12)
		switch {
		case !burned && calls < 3 && x < 5:
			p.Acts = append(p.Acts, g.callTo(targets))
			calls++
		case !burned && x < 7 && len(inits) > 0:
			in := inits[g.r.Intn(len(inits))]
			a := Action{Op: "create", Init: in, Create2: g.r.Bool(), Salt: uint64(g.r.Intn(2)), Value: []uint64{0, 0, 3, 5000}[g.r.Intn(4)]}
			p.Acts = append(p.Acts, a)
			created = true
			if g.t.progs[in-1].Fin == "invalid" {
				burned = true // the creation burns 63/64 of the frame's gas: only cheap actions afterwards
			}
			if a.Create2 && g.r.Intn(3) == 0 { // the same CREATE2 again: address collision (all gas gone)
				p.Acts = append(p.Acts, a)
				burned = true
			}
		case !burned && created && x < 9:
			k := []string{"call", "call", "delegate", "static", "callcode"}[g.r.Intn(5)]
			if g.custom && k == "static" {
				k = "call"
			}
			a := Action{Op: "callcreated", Kind: k}
			if k == "call" && g.r.Intn(3) == 0 {
				a.Value = 2
			}
			p.Acts = append(p.Acts, a)
		case g.custom && !burned && x < 10:
			me := idC0 + lvl
			inv := me
			if g.r.Intn(5) == 0 {
				inv = idC0 + 6 // a signature for another invoker: AUTH fails
			}
			p.Acts = append(p.Acts, Action{Op: "auth", Inv: inv})
			p.Acts = append(p.Acts, Action{Op: "authcall", Nonce: uint64(g.r.Intn(5) / 4), Target: targets[g.r.Intn(len(targets))], Value: []uint64{0, 9, 2000000}[g.r.Intn(3)]})
		default:
			p.Acts = append(p.Acts, g.cheap())
		}
	}
	p.Fin, p.FinArg = g.pickFin(true, 40)
	return p
}

func genCase(r *hx.Rng) *caseSpec {
	g := &gen{r: r, t: &table{}}
	cs := &caseSpec{t: g.t, codeAt: map[int]int{}, stake: []uint64{402, 800}[r.Intn(2)], pcExist: r.Intn(4) != 0}
	switch r.Intn(10) {
	case 0, 1, 2:
		g.gas = true
	case 3, 4:
		g.custom = true
	case 5:
		g.gas, g.custom = true, true
	}
	add := func(p Prog) int { g.t.progs = append(g.t.progs, p); return len(g.t.progs) }
	// runtime programs deployed by creations (one of them fat: its code deposit is expensive)
	rts := []int{add(g.leaf()), add(g.leaf())}
	if r.Intn(2) == 0 {
		g.t.progs[rts[1]-1].Pad = 1200
	}
	inits := []int{}
	for i := 0; i < 3; i++ {
		inits = append(inits, add(g.initProg(rts[r.Intn(len(rts))])))
	}
	for lvl := nContract - 1; lvl >= 0; lvl-- {
		var p Prog
		if isLeaf(idC0 + lvl) {
			p = g.leaf()
		} else {
			p = g.inner(lvl, inits)
		}
		cs.codeAt[idC0+lvl] = add(p)
	}
	if r.Intn(12) == 0 {
		cs.maxNonce = idC0 + r.Intn(3)
	}
	ntx := 1 + r.Intn(3)
	for i := 0; i < ntx; i++ {
		x := r.Intn(10)
		var t txSpec
		switch {
		case x < 6:
			t = txSpec{Target: idC0 + r.Intn(3), Value: []uint64{0, 0, 7}[r.Intn(3)]}
		case x < 8:
			t = txSpec{Target: idC0 + 3 + r.Intn(nContract-3), Value: 0}
		case x < 9:
			t = txSpec{Create: true, Init: inits[r.Intn(len(inits))], Value: []uint64{0, 4}[r.Intn(2)]}
		default:
			t = txSpec{Target: []int{idEOA, idAbsent, idFunded}[r.Intn(3)], Value: []uint64{0, 9}[r.Intn(2)]}
		}
		if g.gas && r.Intn(2) == 0 {
			t.Gas = []uint64{1000000, 3000000, 6000000, 12000000, 30000000, 100000000}[r.Intn(6)]
		}
		cs.txs = append(cs.txs, t)
	}
	cs.originObj = r.Intn(4) != 0
	return cs
}

func filler(t *table, cs *caseSpec, skip map[int]bool) {
	for _, c := range contractIDs() {
		if !skip[c] {
			t.progs = append(t.progs, Prog{Acts: []Action{{Op: "log", K: 1}}, Fin: "stop"})
			cs.codeAt[c] = len(t.progs)
		}
	}
}

// fixedSpecs: every frame kind x every state-modifying action inside it x every way the frame ends, at nesting
// depth 1 (11 -> 17) and depth 2 (11 -> 12 -> 17, the middle frame succeeding or reverting); plus the failure
// kinds that need a special set-up.
func fixedSpecs() ([]*caseSpec, []string) {
	var out []*caseSpec
	var names []string
	kinds := []string{"call", "callcode", "delegate", "static", "create", "create2", "authcall", "callcreated"}
	inners := []string{"sstore", "tstore", "log", "callvalue", "create", "selfdestruct", "stake", "unstake", "precompile-ok", "precompile-fail"}
	fins := []string{"stop", "revert", "invalid", "oog"}
	for _, depth := range []string{"d1", "d2-mid-ok", "d2-mid-revert"} {
		for _, k := range kinds {
			for _, in := range inners {
				for _, f := range fins {
					if in == "selfdestruct" && f != "stop" {
						continue
					}
					if depth != "d1" && (k == "authcall" || k == "callcreated" || in == "stake" || in == "unstake" || in == "precompile-ok" || in == "precompile-fail") && f != "revert" {
						continue // the new kinds: full product at depth 1, the reverting ending at depth 2
					}
					t := &table{}
					add := func(p Prog) int { t.progs = append(t.progs, p); return len(t.progs) }
					rt := add(Prog{Acts: []Action{{Op: "sstore", K: 1, V: 1}}, Fin: "stop"})
					in2 := add(Prog{Acts: []Action{{Op: "sstore", K: 2, V: 2}}, Fin: "return", FinArg: rt})
					body := Prog{Fin: f}
					switch in {
					case "sstore":
						body.Acts = []Action{{Op: "sstore", K: 2, V: 3}}
					case "tstore":
						body.Acts = []Action{{Op: "tstore", K: 2, V: 2}}
					case "log":
						body.Acts = []Action{{Op: "log", K: 7}}
					case "callvalue":
						body.Acts = []Action{{Op: "call", Kind: "call", Target: idEOA, Value: 3}}
					case "create":
						body.Acts = []Action{{Op: "create", Init: in2, Value: 0}}
					case "selfdestruct":
						body.Acts = []Action{{Op: "sstore", K: 3, V: 1}}
						body.Fin, body.FinArg = "selfdestruct", idEOA
					case "stake":
						body.Acts = []Action{{Op: "stake", V: 2}}
					case "unstake":
						body.Acts = []Action{{Op: "unstake", V: 3}}
					case "precompile-ok":
						body.Acts = []Action{{Op: "call", Kind: "call", Target: idPcOK, Value: 1}}
					case "precompile-fail":
						body.Acts = []Action{{Op: "sstore", K: 2, V: 3}, {Op: "call", Kind: "call", Target: idPcFail, Value: 1}}
					}
					oog := false
					if body.Fin == "oog" { // the frame gets gas for its first write only, then runs out
						oog = true
						body.Acts = append(body.Acts, Action{Op: "sstore", K: 1, V: 2}, Action{Op: "sstore", K: 3, V: 2}, Action{Op: "sstore", K: 2, V: 1})
						body.Fin = "stop"
					}
					// the frame under test runs as (or is called by) the miner's contract when it stakes
					tgt := idC0 + 6
					if in == "stake" || in == "unstake" {
						tgt = idMiner
					}
					cs := &caseSpec{t: t, codeAt: map[int]int{}, originObj: true, stake: 800, pcExist: k != "static"}
					if k == "static" && (in == "stake" || in == "unstake") {
						cs.staticOp = map[string]string{"stake": "STAKE", "unstake": "UNSTAKE"}[in]
					}
					var acts []Action
					skip := map[int]bool{idC0: true, idC0 + 1: true}
					switch k {
					case "create", "create2":
						if body.Fin == "stop" {
							body.Fin, body.FinArg = "return", rt
						}
						acts = []Action{{Op: "create", Init: add(body), Create2: k == "create2", Salt: 1, Value: 3}}
					case "callcreated":
						// create a contract running body, then call it
						brt := add(body)
						ini := add(Prog{Fin: "return", FinArg: brt})
						acts = []Action{{Op: "create", Init: ini, Value: 0}, {Op: "callcreated", Kind: "call", Value: 0}}
					case "authcall":
						cs.codeAt[tgt] = add(body)
						skip[tgt] = true
						acts = []Action{{Op: "auth", Inv: -1}, {Op: "authcall", Nonce: 0, Target: tgt, Value: 9}}
					default:
						cs.codeAt[tgt] = add(body)
						skip[tgt] = true
						act := Action{Op: "call", Kind: k, Target: tgt}
						if k == "call" || k == "callcode" {
							act.Value = 5
						}
						acts = []Action{act}
					}
					if oog {
						for i := range acts {
							if acts[i].Op == "call" {
								acts[i].Gas = 800000 // one SSTORE (600000 with the Proposal026 factor) and change
							}
						}
					}
					filler(t, cs, skip)
					caller := idC0
					if depth == "d1" {
						cs.codeAt[idC0+1] = add(Prog{Fin: "stop"})
					} else {
						caller = idC0 + 1
					}
					for i := range acts {
						if acts[i].Op == "auth" {
							acts[i].Inv = caller
						}
					}
					if depth == "d1" {
						cs.codeAt[idC0] = add(Prog{Acts: append(append([]Action{{Op: "sstore", K: 3, V: 1}}, acts...), Action{Op: "log", K: 2}), Fin: "stop"})
					} else {
						mf := "stop"
						if depth == "d2-mid-revert" {
							mf = "revert"
						}
						cs.codeAt[idC0+1] = add(Prog{Acts: append(append([]Action{{Op: "sstore", K: 1, V: 3}}, acts...), Action{Op: "tstore", K: 2, V: 1}), Fin: mf})
						cs.codeAt[idC0] = add(Prog{Acts: []Action{{Op: "call", Kind: "call", Target: idC0 + 1}, {Op: "log", K: 2}}, Fin: "stop"})
					}
					cs.txs = []txSpec{{Target: idC0}}
					out = append(out, cs)
					names = append(names, fmt.Sprintf("matrix|%s|%s|%s|%s", depth, k, in, f))
				}
			}
		}
	}
	// ---- special failure kinds ----
	special := func(name string, build func(t *table, cs *caseSpec, add func(Prog) int)) {
		t := &table{}
		cs := &caseSpec{t: t, codeAt: map[int]int{}, originObj: true, stake: 800, pcExist: true}
		add := func(p Prog) int { t.progs = append(t.progs, p); return len(t.progs) }
		build(t, cs, add)
		out = append(out, cs)
		names = append(names, "special|"+name)
	}
	// call depth 1024: contract 11 logs and calls itself until evm.Call refuses; every frame ends with fin
	for _, f := range []string{"stop", "revert"} {
		for _, k := range []string{"call", "delegate", "static"} {
			f, k := f, k
			special("depth-1024|"+k+"|"+f, func(t *table, cs *caseSpec, add func(Prog) int) {
				first := Action{Op: "log", K: 1}
				if k == "static" {
					first = Action{Op: "call", Kind: "static", Target: idEOA}
				}
				cs.codeAt[idC0] = add(Prog{Acts: []Action{first, {Op: "call", Kind: k, Target: idC0, Gas: 1 << 62}, {Op: "sstore", K: 1, V: 2}}, Fin: f})
				filler(t, cs, map[int]bool{idC0: true})
				cs.txs = []txSpec{{Target: idC0}}
			})
		}
	}
	// code deposit: the fat runtime costs more than the frame has left after the constructor
	for _, g := range []uint64{3000000, 5000000, 9000000, 14000000, 40000000} {
		for _, c2 := range []bool{false, true} {
			g, c2 := g, c2
			special(fmt.Sprintf("code-deposit|gas%d|create2=%v", g, c2), func(t *table, cs *caseSpec, add func(Prog) int) {
				rt := add(Prog{Acts: []Action{{Op: "log", K: 4}}, Fin: "stop", Pad: 1500})
				ini := add(Prog{Acts: []Action{{Op: "sstore", K: 1, V: 6}, {Op: "log", K: 5}}, Fin: "return", FinArg: rt})
				cs.codeAt[idC0+1] = add(Prog{Acts: []Action{{Op: "create", Init: ini, Value: 3, Create2: c2, Salt: 2}, {Op: "callcreated", Kind: "call"}, {Op: "tstore", K: 1, V: 1}}, Fin: "stop"})
				cs.codeAt[idC0] = add(Prog{Acts: []Action{{Op: "call", Kind: "call", Target: idC0 + 1, Gas: g}, {Op: "log", K: 2}}, Fin: "stop"})
				filler(t, cs, map[int]bool{idC0: true, idC0 + 1: true})
				cs.txs = []txSpec{{Target: idC0}, {Create: true, Init: ini, Value: 1, Gas: g}}
			})
		}
	}
	// max code size (EIP-170): creation code returning 24577 bytes, at the top level and nested
	special("max-code-size", func(t *table, cs *caseSpec, add func(Prog) int) {
		ini := add(Prog{Acts: []Action{{Op: "sstore", K: 1, V: 6}, {Op: "log", K: 5}}, Fin: "returnbig"})
		cs.codeAt[idC0] = add(Prog{Acts: []Action{{Op: "create", Init: ini, Value: 3}, {Op: "callcreated", Kind: "call"}, {Op: "create", Init: ini, Create2: true}, {Op: "log", K: 2}}, Fin: "stop"})
		filler(t, cs, map[int]bool{idC0: true})
		cs.txs = []txSpec{{Target: idC0}, {Create: true, Init: ini, Value: 1}}
	})
	// nonce overflow: the creator's nonce is 2^64-1
	special("nonce-overflow", func(t *table, cs *caseSpec, add func(Prog) int) {
		rt := add(Prog{Fin: "stop"})
		ini := add(Prog{Acts: []Action{{Op: "sstore", K: 1, V: 6}}, Fin: "return", FinArg: rt})
		bad := add(Prog{Acts: []Action{{Op: "sstore", K: 1, V: 6}}, Fin: "revert"})
		cs.codeAt[idC0] = add(Prog{Acts: []Action{{Op: "create", Init: bad}, {Op: "create", Init: ini}, {Op: "create", Init: ini}}, Fin: "stop"})
		filler(t, cs, map[int]bool{idC0: true})
		cs.maxNonce = idC0
		cs.txs = []txSpec{{Target: idC0}}
	})
	// repeated SELFDESTRUCT: X (17) selfdestructs, is credited again (Y = 16 selfdestructs with X as beneficiary: no code
	// of X runs), then selfdestructs a second time inside a frame that fails at this or an outer level; within one
	// transaction and across the transactions of one block (no Finalise in between, as in the block loop)
	for _, fail := range []string{"revert", "invalid"} {
		for _, level := range []string{"inner", "outer"} {
			for _, cross := range []bool{false, true} {
				for _, val := range []uint64{0, 3} {
					fail, level, cross, val := fail, level, cross, val
					special(fmt.Sprintf("repeated-selfdestruct|%s|%s|cross-tx=%v|value=%d", fail, level, cross, val), func(t *table, cs *caseSpec, add func(Prog) int) {
						x, y := idC0+6, idC0+5
						cs.codeAt[x] = add(Prog{Acts: []Action{{Op: "log", K: 4}}, Fin: "selfdestruct", FinArg: idEOA})
						cs.codeAt[y] = add(Prog{Fin: "selfdestruct", FinArg: x})
						again := Action{Op: "call", Kind: "call", Target: x, Value: val}
						if level == "inner" {
							cs.codeAt[idC0+1] = add(Prog{Acts: []Action{{Op: "sstore", K: 1, V: 2}, again}, Fin: fail})
							cs.codeAt[idC0+2] = add(Prog{Fin: "stop"})
						} else {
							cs.codeAt[idC0+2] = add(Prog{Acts: []Action{again, {Op: "log", K: 6}}, Fin: "stop"})
							cs.codeAt[idC0+1] = add(Prog{Acts: []Action{{Op: "call", Kind: "call", Target: idC0 + 2}, {Op: "sstore", K: 1, V: 2}}, Fin: fail})
						}
						if cross {
							cs.codeAt[idC0] = add(Prog{Acts: []Action{{Op: "call", Kind: "call", Target: idC0 + 1}, {Op: "log", K: 2}}, Fin: "stop"})
							cs.txs = []txSpec{{Target: x}, {Target: y}, {Target: idC0 + 1}, {Target: idC0}}
						} else {
							cs.codeAt[idC0] = add(Prog{Acts: []Action{{Op: "call", Kind: "call", Target: x}, {Op: "call", Kind: "call", Target: y},
								{Op: "call", Kind: "call", Target: idC0 + 1}, {Op: "log", K: 2}}, Fin: "stop"})
							cs.txs = []txSpec{{Target: idC0}}
						}
						filler(t, cs, map[int]bool{idC0: true, idC0 + 1: true, idC0 + 2: true, x: true, y: true})
						cs.balOf = map[int]uint64{x: 11, y: 7, idC0 + 1: 50, idC0 + 2: 50}
					})
				}
			}
		}
	}
	// custom opcodes in a frame that fails afterwards / whose caller fails
	special("stake-unstake-unstakeall-reverted", func(t *table, cs *caseSpec, add func(Prog) int) {
		cs.codeAt[idMiner] = add(Prog{Acts: []Action{{Op: "stake", V: 2}, {Op: "unstake", V: 500}, {Op: "unstakeall"}, {Op: "stake", V: 1}}, Fin: "revert"})
		cs.codeAt[idC0+1] = add(Prog{Acts: []Action{{Op: "unstakeall"}, {Op: "sstore", K: 1, V: 1}}, Fin: "stop"}) // not a miner account: error
		cs.codeAt[idC0] = add(Prog{Acts: []Action{{Op: "call", Kind: "call", Target: idMiner}, {Op: "call", Kind: "call", Target: idC0 + 1}, {Op: "log", K: 2}}, Fin: "stop"})
		filler(t, cs, map[int]bool{idC0: true, idC0 + 1: true, idMiner: true})
		cs.txs = []txSpec{{Target: idC0}, {Target: idMiner}}
	})
	special("unstakeall-then-invalid", func(t *table, cs *caseSpec, add func(Prog) int) {
		cs.codeAt[idMiner] = add(Prog{Acts: []Action{{Op: "unstakeall"}, {Op: "log", K: 3}}, Fin: "invalid"})
		cs.codeAt[idC0] = add(Prog{Acts: []Action{{Op: "call", Kind: "call", Target: idMiner}, {Op: "call", Kind: "delegate", Target: idMiner}}, Fin: "stop"})
		filler(t, cs, map[int]bool{idC0: true, idMiner: true})
		cs.txs = []txSpec{{Target: idC0}, {Target: idMiner}}
	})
	// AUTHCALL: wrong nonce, wrong invoker, failing callee, value the sponsor cannot pay
	special("authcall-variants", func(t *table, cs *caseSpec, add func(Prog) int) {
		cs.codeAt[idC0+5] = add(Prog{Acts: []Action{{Op: "sstore", K: 1, V: 2}, {Op: "log", K: 6}}, Fin: "revert"})
		cs.codeAt[idC0] = add(Prog{Acts: []Action{
			{Op: "authcall", Nonce: 0, Target: idC0 + 5, Value: 1}, // no AUTH yet
			{Op: "auth", Inv: idC0 + 1}, {Op: "authcall", Nonce: 0, Target: idC0 + 5, Value: 1}, // signature for another invoker
			{Op: "auth", Inv: idC0}, {Op: "authcall", Nonce: 3, Target: idC0 + 5, Value: 1}, // wrong nonce
			{Op: "authcall", Nonce: 0, Target: idC0 + 5, Value: 9},       // callee reverts: only the nonce bump stays
			{Op: "authcall", Nonce: 1, Target: idEOA, Value: 2000000},    // the origin cannot pay
			{Op: "authcall", Nonce: 1, Target: idAbsent, Value: 7},       // creates the callee
			{Op: "authcall", Nonce: 2, Target: idPcFail, Value: 0}}, Fin: "stop"})
		filler(t, cs, map[int]bool{idC0: true, idC0 + 5: true})
		cs.txs = []txSpec{{Target: idC0}}
	})
	// custom opcodes and a call to an absent precompile inside a static frame (expected findings, specific keys)
	for _, op := range []string{"stake", "unstake", "unstakeall", "authcall"} {
		op := op
		special("static-custom|"+op, func(t *table, cs *caseSpec, add func(Prog) int) {
			acts := []Action{{Op: op, V: 2}}
			if op == "authcall" {
				acts = []Action{{Op: "auth", Inv: idMiner}, {Op: "authcall", Nonce: 0, Target: idEOA, Value: 9}}
			}
			cs.codeAt[idMiner] = add(Prog{Acts: acts, Fin: "stop"})
			cs.codeAt[idC0] = add(Prog{Acts: []Action{{Op: "call", Kind: "static", Target: idMiner}, {Op: "log", K: 2}}, Fin: "stop"})
			filler(t, cs, map[int]bool{idC0: true, idMiner: true})
			cs.staticOp = map[string]string{"stake": "STAKE", "unstake": "UNSTAKE", "unstakeall": "UNSTAKEALL", "authcall": "AUTHCALL"}[op]
			cs.txs = []txSpec{{Target: idC0}}
		})
	}
	special("static-absent-precompile", func(t *table, cs *caseSpec, add func(Prog) int) {
		cs.codeAt[idC0+1] = add(Prog{Acts: []Action{{Op: "call", Kind: "call", Target: idPcOK}, {Op: "call", Kind: "call", Target: idPcFail}}, Fin: "stop"})
		cs.codeAt[idC0] = add(Prog{Acts: []Action{{Op: "call", Kind: "static", Target: idC0 + 1}, {Op: "log", K: 2}}, Fin: "stop"})
		filler(t, cs, map[int]bool{idC0: true, idC0 + 1: true})
		cs.pcExist = false
		cs.txs = []txSpec{{Target: idC0}}
	})
	return out, names
}
