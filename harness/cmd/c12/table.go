package main

// Opcode table obligation: every opcode whose execute / dynamicGas function reaches a state mutator is
// either flagged `writes` in the live jump table or starts with a readOnly guard of its own.
// The flags come from the interpreter actually installed (vm.VerifVMLiveTable); "reaches a mutator" and
// "starts with a guard" are computed from the Go sources (go/parser over src/vm and src/service).

import (
	"fmt"
	"go/ast"
	"go/parser"
	"go/token"
	"os"
	"path/filepath"
	"sort"
	"strings"

	"com.tuntun.rangers/node/src/vm"

	"verif/harness/hx"
)

var tableCases = 0

// methods of StateDB / AccountDB that change state
var baseMutators = map[string]bool{
	"CreateAccount": true, "SubBalance": true, "AddBalance": true, "SetBalance": true, "SetNonce": true, "IncreaseNonce": true,
	"SetCode": true, "AddRefund": true, "SubRefund": true, "SetState": true, "SetTransientState": true, "Suicide": true,
	"AddLog": true, "AddAddressToAccessList": true, "AddSlotToAccessList": true, "SetData": true, "RemoveData": true,
	"SetFT": true, "AddFT": true, "SubFT": true, "Transfer": true, "SetStorage": true,
}

// frame constructors: what they do to the state is the subject of the frame theorems (model), not of the table
var frameFuncs = map[string]bool{"Call": true, "CallCode": true, "DelegateCall": true, "StaticCall": true}

type srcIndex struct {
	funcs map[string]*ast.FuncDecl // by bare name (functions and methods; last one wins within a package set)
}

func repoDir() string {
	if d := os.Getenv("VERIF_REPO"); d != "" {
		return d
	}
	return "/repo"
}

func parseDir(dir string, idx *srcIndex) error {
	fset := token.NewFileSet()
	files, err := filepath.Glob(filepath.Join(dir, "*.go"))
	if err != nil {
		return err
	}
	for _, f := range files {
		if strings.HasSuffix(f, "_test.go") || strings.Contains(filepath.Base(f), "verif_") {
			continue
		}
		af, err := parser.ParseFile(fset, f, nil, 0)
		if err != nil {
			return err
		}
		for _, d := range af.Decls {
			if fd, ok := d.(*ast.FuncDecl); ok && fd.Body != nil {
				idx.funcs[fd.Name.Name] = fd
			}
		}
	}
	return nil
}

func calleeName(c *ast.CallExpr) string {
	switch f := c.Fun.(type) {
	case *ast.Ident:
		return f.Name
	case *ast.SelectorExpr:
		return f.Sel.Name
	}
	return ""
}

func exprString(e ast.Expr) string {
	switch x := e.(type) {
	case *ast.Ident:
		return x.Name
	case *ast.SelectorExpr:
		return exprString(x.X) + "." + x.Sel.Name
	case *ast.CallExpr:
		return exprString(x.Fun) + "()"
	case *ast.StarExpr:
		return "*" + exprString(x.X)
	case *ast.ParenExpr:
		return exprString(x.X)
	}
	return "?"
}

// isStateRecv: the receiver expression denotes the state database (evm.StateDB, an *account.AccountDB
// variable/argument such as accountdb / accountDB / db / adb, or interpreter.evm.accountDB).
func isStateRecv(r string) bool {
	l := strings.ToLower(r)
	return strings.HasSuffix(l, "statedb") || strings.HasSuffix(l, "accountdb") || l == "db" || l == "adb"
}

// followable: calls whose target we resolve by name inside the indexed packages: package-level
// functions, methods of the EVM (evm.Create...), and methods of the service singletons / receivers.
func followable(c *ast.CallExpr) (string, bool) {
	switch f := c.Fun.(type) {
	case *ast.Ident:
		return f.Name, true
	case *ast.SelectorExpr:
		r := exprString(f.X)
		if strings.HasSuffix(r, "evm") || strings.HasSuffix(r, "Impl") || r == "mm" || r == "refund" || r == "this" {
			return f.Sel.Name, true
		}
	}
	return "", false
}

// mutates: the function body (transitively through functions of the indexed packages, except the
// frame constructors) contains a call of a base mutator on the state database. Returns the mutators reached.
func (idx *srcIndex) mutates(name string, seen map[string]bool) []string {
	if seen[name] {
		return nil
	}
	seen[name] = true
	fd := idx.funcs[name]
	if fd == nil {
		return nil
	}
	found := map[string]bool{}
	ast.Inspect(fd.Body, func(n ast.Node) bool {
		c, ok := n.(*ast.CallExpr)
		if !ok {
			return true
		}
		if sel, ok := c.Fun.(*ast.SelectorExpr); ok && baseMutators[sel.Sel.Name] && isStateRecv(exprString(sel.X)) {
			found[sel.Sel.Name] = true
			return true
		}
		if cn, ok := followable(c); ok && !frameFuncs[cn] {
			if cn == "Transfer" { // evm.Transfer / vm.Transfer: SubBalance + AddBalance
				found["Transfer"] = true
				return true
			}
			for _, m := range idx.mutates(cn, seen) {
				found[m] = true
			}
		}
		return true
	})
	out := []string{}
	for m := range found {
		out = append(out, m)
	}
	sort.Strings(out)
	return out
}

// guarded: the first statement of the body is `if <x>.readOnly { return ... }`
func (idx *srcIndex) guarded(name string) bool {
	fd := idx.funcs[name]
	if fd == nil || len(fd.Body.List) == 0 {
		return false
	}
	is, ok := fd.Body.List[0].(*ast.IfStmt)
	if !ok {
		return false
	}
	sel, ok := is.Cond.(*ast.SelectorExpr)
	if !ok || sel.Sel.Name != "readOnly" {
		return false
	}
	if len(is.Body.List) == 0 {
		return false
	}
	_, isRet := is.Body.List[len(is.Body.List)-1].(*ast.ReturnStmt)
	return isRet
}

// the interpreter's explicit test for CALL with value under readOnly
func (idx *srcIndex) interpreterTestsCallValue() bool {
	fd := idx.funcs["Run"]
	if fd == nil {
		return false
	}
	ok := false
	ast.Inspect(fd.Body, func(n ast.Node) bool {
		is, y := n.(*ast.IfStmt)
		if !y {
			return true
		}
		if s, y := is.Cond.(*ast.SelectorExpr); y && s.Sel.Name == "readOnly" {
			src := fmt.Sprint(nodeIdents(is.Body))
			if strings.Contains(src, "writes") && strings.Contains(src, "CALL") && strings.Contains(src, "ErrWriteProtection") {
				ok = true
			}
		}
		return true
	})
	return ok
}

func nodeIdents(n ast.Node) []string {
	out := []string{}
	ast.Inspect(n, func(x ast.Node) bool {
		if id, ok := x.(*ast.Ident); ok {
			out = append(out, id.Name)
		}
		return true
	})
	return out
}

func bareFunc(rt string) string {
	// ".../vm.newInstructionSet.makePush.func2" -> "makePush"; ".../vm.makeLog.func1" -> "makeLog"; ".../vm.opSstore" -> "opSstore"
	if i := strings.LastIndex(rt, "/"); i >= 0 {
		rt = rt[i+1:]
	}
	parts := strings.Split(rt, ".")
	for i := len(parts) - 1; i >= 1; i-- {
		p := parts[i]
		if strings.HasPrefix(p, "func") && len(p) > 4 && p[4] >= '0' && p[4] <= '9' {
			continue
		}
		return p
	}
	return rt
}

var customNames = map[int]string{0xea: "STAKENUM", 0xeb: "UNSTAKEALL", 0xec: "GETSTAKE", 0xed: "PRINTF", 0xee: "STAKE", 0xef: "UNSTAKE", 0xf6: "AUTH", 0xf7: "AUTHCALL"}

func opName(op int) string {
	n := vm.OpCode(op).String()
	if strings.Contains(n, "not defined") || strings.Contains(n, " ") {
		if c, ok := customNames[op]; ok {
			return c
		}
		return fmt.Sprintf("OP%02x", op)
	}
	return n
}

func tableCase(out string, res *hx.Result) {
	idx := &srcIndex{funcs: map[string]*ast.FuncDecl{}}
	// service first so that vm's own definitions win on a name clash
	for _, d := range []string{"src/service", "src/vm"} {
		if err := parseDir(filepath.Join(repoDir(), d), idx); err != nil {
			res.Violate("C12/static-table:sources-unreadable", err.Error(), d)
			return
		}
	}
	adb := newWorld().adb
	evm := newEVM(adb, adb, addrOf(idOrigin))
	live := vm.VerifVMLiveTable(evm)
	rows := []string{}
	known := []string{}
	defined := 0
	for op := 0; op < 256; op++ {
		o := live[op]
		if !o.Defined {
			continue
		}
		defined++
		ex := bareFunc(o.Exec)
		reach := idx.mutates(ex, map[string]bool{})
		if o.DynamicGas != "" {
			for _, m := range idx.mutates(bareFunc(o.DynamicGas), map[string]bool{}) {
				reach = append(reach, "gas:"+m)
			}
		}
		g := idx.guarded(ex)
		mut := len(reach) > 0
		rows = append(rows, fmt.Sprintf("(%d, %s, %s, %s)", op, hx.CoqBool(o.Writes), hx.CoqBool(g), hx.CoqBool(mut)))
		cls := "table|pure"
		if mut {
			cls = "table|mutating-flagged"
			if !o.Writes && g {
				cls = "table|mutating-self-guarded"
			}
		}
		if mut && !o.Writes && !g {
			cls = "table|mutating-UNGUARDED"
			name := opName(op)
			res.Violate("C12/static-table:"+name+"-mutates-without-writes-flag",
				fmt.Sprintf("opcode %s (0x%02x): %s reaches %v but its jump-table entry is not flagged writes and the function has no readOnly guard: it runs inside a STATICCALL", name, op, ex, reach),
				map[string]interface{}{"opcode": name, "execute": o.Exec, "dynamicGas": o.DynamicGas, "reaches": reach})
			known = append(known, fmt.Sprint(op))
		}
		res.Count(cls, fmt.Sprintf("op%02x", op), mut)
	}
	if !idx.interpreterTestsCallValue() {
		res.Violate("C12/static-table:interpreter-call-value-test-missing", "interpreter.Run no longer refuses CALL with value under readOnly", nil)
	}
	if defined < 140 {
		res.Violate("C12/static-table:table-too-small", fmt.Sprintf("only %d opcodes defined", defined), nil)
	}
	if tv := os.Getenv("C12_TABLE_V"); tv != "" {
		src := "(* GENERATED by tools/goextract-c12 (harness/cmd/c12 -tier table) from the live jump table of src/vm and the\n   Go sources of src/vm + src/service. Do not edit; regenerate when the correspondence run reports a change.\n   row = (opcode, writes flag, execute starts with a readOnly guard, execute/dynamicGas reaches a state mutator) *)\n" +
			"From Coq Require Import List NArith.\nImport ListNotations.\nLocal Open Scope N_scope.\n\nDefinition today_table : list (N * bool * bool * bool) :=\n  [" + strings.Join(rows, ";\n   ") + "].\n"
		if err := os.WriteFile(tv, []byte(src), 0644); err != nil {
			panic(err)
		}
	}
	// the rows with the opcodes the harness itself reported; the model side recomputes the bad set
	cs := hx.NewCasesNamed(out, "tab", "From V.C12 Require Import Model Harness.\nFrom Coq Require Import NArith.\nOpen Scope N_scope.", "list oprow * list N", "check_table", 10)
	cs.Add(fmt.Sprintf("([%s], [%s])", strings.Join(rows, "; "), strings.Join(known, "; ")), map[string]interface{}{"rows": len(rows), "unguarded": known})
	cs.Close()
	tableCases = cs.Total()
}
