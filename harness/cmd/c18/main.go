// C18 harness: decimal strings <-> 18-decimal integers (src/utility/data_convert.go) versus the Coq
// model, plus direct evaluation of the property (round trip, exact parsing, re-scaling identity,
// wrapped-transaction value) on the implementation.
package main

import (
	"encoding/json"
	"fmt"
	"go/ast"
	"go/parser"
	"go/token"
	"bytes"
	"go/printer"
	"io/fs"
	"math/big"
	"os"
	"path/filepath"
	"reflect"
	"runtime"
	"sort"
	"strings"

	"com.tuntun.rangers/node/src/common"
	crypto "com.tuntun.rangers/node/src/eth_crypto"
	"com.tuntun.rangers/node/src/eth_tx"
	"com.tuntun.rangers/node/src/executor"
	"com.tuntun.rangers/node/src/middleware"
	"com.tuntun.rangers/node/src/service"
	"com.tuntun.rangers/node/src/middleware/db"
	"com.tuntun.rangers/node/src/middleware/types"
	"com.tuntun.rangers/node/src/storage/account"
	"com.tuntun.rangers/node/src/storage/rlp"
	"com.tuntun.rangers/node/src/utility"
	"verif/harness/hx"
)

// sourceConstants reads, from the very source file the harness was compiled against, the constants the
// model transcribes: const prec / defaultDecimal / baseNumber and the literal arguments of the
// big.ParseFloat call in strToBigInt (base, precision identifier, rounding mode). Anything that does not
// have the expected shape is reported as -1 / "?" so that the model comparison fails visibly.
func sourceConstants() (file string, prec, decimal int64, base string, pfBase int64, pfPrec string, pfMode string) {
	prec, decimal, pfBase, base, pfPrec, pfMode = -1, -1, -1, "?", "?", "?"
	f := runtime.FuncForPC(reflect.ValueOf(utility.BigIntToStr).Pointer())
	if f == nil {
		return
	}
	file, _ = f.FileLine(f.Entry())
	fset := token.NewFileSet()
	af, err := parser.ParseFile(fset, file, nil, 0)
	if err != nil {
		return
	}
	lit := func(e ast.Expr) string {
		if b, ok := e.(*ast.BasicLit); ok {
			return b.Value
		}
		return "?"
	}
	toInt := func(v string) int64 {
		n, ok := new(big.Int).SetString(v, 0)
		if !ok || !n.IsInt64() {
			return -1
		}
		return n.Int64()
	}
	for _, d := range af.Decls {
		switch d := d.(type) {
		case *ast.GenDecl:
			if d.Tok != token.CONST {
				continue
			}
			for _, sp := range d.Specs {
				vs := sp.(*ast.ValueSpec)
				for i, nm := range vs.Names {
					if i >= len(vs.Values) {
						continue
					}
					switch nm.Name {
					case "prec":
						prec = toInt(lit(vs.Values[i]))
					case "defaultDecimal":
						decimal = toInt(lit(vs.Values[i]))
					case "baseNumber":
						base = lit(vs.Values[i])
					}
				}
			}
		case *ast.FuncDecl:
			if d.Name.Name != "strToBigInt" || d.Body == nil {
				continue
			}
			ast.Inspect(d.Body, func(n ast.Node) bool {
				c, ok := n.(*ast.CallExpr)
				if !ok {
					return true
				}
				sel, ok := c.Fun.(*ast.SelectorExpr)
				if !ok || sel.Sel.Name != "ParseFloat" || len(c.Args) != 4 {
					return true
				}
				pfBase = toInt(lit(c.Args[1]))
				switch a := c.Args[2].(type) {
				case *ast.Ident:
					pfPrec = a.Name
				case *ast.BasicLit:
					pfPrec = a.Value
				}
				if m, ok := c.Args[3].(*ast.SelectorExpr); ok {
					pfMode = m.Sel.Name
				}
				return true
			})
		}
	}
	return
}

func errClass(err error) int {
	switch {
	case err == nil:
		return 0
	case err.Error() == "number has no digits":
		return 1
	case strings.HasPrefix(err.Error(), "expected end of string"):
		return 2
	}
	return 3
}

func obs(r *big.Int, err error, pan interface{}) string {
	if pan != nil {
		return "OErr 98"
	}
	if err != nil {
		return fmt.Sprintf("OErr %d", errClass(err))
	}
	if r == nil {
		return "OErr 97"
	}
	return "OOk " + coqBig(r)
}

// big integers as Coq terms: (zp "hex") / (zn "hex"), evaluated inside vm_compute
func coqBig(n *big.Int) string {
	h := hx.CoqHex(new(big.Int).Abs(n).Bytes())
	if n.Sign() < 0 {
		return "(zn " + h + ")"
	}
	return "(zp " + h + ")"
}

func safeParse(s string, d int64) (r *big.Int, err error, pan interface{}) {
	defer func() {
		if p := recover(); p != nil {
			pan = p
		}
	}()
	r, err = utility.VerifStrToBigInt(s, d)
	return
}

func pow10(k int) *big.Int { return new(big.Int).Exp(big.NewInt(10), big.NewInt(int64(k)), nil) }

// what strToBigInt would compute with another precision / rounding mode (mutation probe, implementation side)
func altStrToBigInt(s string, d int64, prec uint, mode big.RoundingMode) *big.Int {
	t, _, err := big.ParseFloat(s, 10, prec, mode)
	if err != nil {
		return nil
	}
	base := new(big.Float).SetInt(pow10(int(d)))
	t.Mul(t, base)
	r := new(big.Int)
	t.Int(r)
	return r
}

func randDigits(r *hx.Rng, n int) string {
	b := make([]byte, n)
	for i := range b {
		switch r.Intn(10) {
		case 0:
			b[i] = '0'
		case 1:
			b[i] = '9'
		default:
			b[i] = byte('0' + r.Intn(10))
		}
	}
	return string(b)
}

func randInt(r *hx.Rng) *big.Int {
	var n *big.Int
	switch r.Intn(10) {
	case 0, 1, 2, 3, 4, 5:
		s := randDigits(r, 1+r.Intn(78))
		n, _ = new(big.Int).SetString(s, 10)
	case 6, 7:
		s := randDigits(r, 79+r.Intn(90))
		n, _ = new(big.Int).SetString(s, 10)
	case 8: // around a power of two
		n = new(big.Int).Lsh(big.NewInt(1), uint(1+r.Intn(520)))
		n.Add(n, big.NewInt(int64(r.Intn(5)-2)))
	default: // around a power of ten
		n = pow10(r.Intn(100))
		n.Mul(n, big.NewInt(int64(1+r.Intn(9))))
		n.Add(n, big.NewInt(int64(r.Intn(5)-2)))
	}
	if r.Intn(4) == 0 {
		n.Neg(n)
	}
	return n
}

var two256 = new(big.Int).Lsh(big.NewInt(1), 256)
var two510 = new(big.Int).Lsh(big.NewInt(1), 510) // C18_roundtrip is proved below this bound; 2^511-1 fails

func main() {
	a := hx.ParseArgs()
	rng := hx.NewRng(a.Seed)
	common.Init(0, "c18.ini", "dev") // fork gates read a process-global height and the chain config (dev: all proposals active)
	common.SetBlockHeight(1)
	res := hx.NewResult("inputs: (1) boundary integers (0, +-1, 10^18+-1, 2^255, 2^256-1, 10^77.., 2^509-1, 2^512..) and the two wrong-constant witnesses, " +
		"(2) random integers of 1..168 digits, around powers of two and ten, both signs, through BigIntToStr/bigIntToStr(p)/FormatDecimalForERC20/Rocket with decimals -1..30, " +
		"(1b) every string of length <= 2 (thorough: 3) over 019.-+eEpPIinf_x and blank, (3) decimal strings sign? digits{0..80} [. digits{0..40}] [e|E|p|P sign? digits], (4) mutated/malformed strings, (5) wrapped Ethereum transactions through eth_tx.ConvertTx and the contract executor's decodeContractData. " +
		"non-trivial = distinct (function, input) that reaches big.Float rounding (accepted string with non-zero mantissa, or formatter input != 0)")
	perShard := 400
	if a.Tier == "thorough" {
		perShard = 2500 // fewer, longer coqc processes (the driver starts all shards at once)
	}
	cs := hx.NewCases(a.Out, "From V.C18 Require Import Model Harness.", "case", "check", perShard)

	// safety net: a panic of the implementation outside the per-case guards still yields a result file
	defer func() {
		if p := recover(); p != nil {
			res.Violate("C18/panic:unguarded", fmt.Sprint(p), "see harness.log")
			cs.Close()
			res.ModelCases = cs.Total()
			res.Write(a.Out)
		}
	}()

	unsupported := 0
	altNearest, altPrec64, altProbes := 0, 0, 0

	parseCase := func(s string, d int64, wellFormedFrac int, expected *big.Int) {
		r, err, pan := safeParse(s, d)
		o := obs(r, err, pan)
		if pan != nil {
			res.Violate("C18/panic:strToBigInt", fmt.Sprint(pan), map[string]interface{}{"s": s, "decimal": d})
		}
		if len(s) <= 1500 && (r == nil || r.BitLen() < 40000) {
			cs.Add(fmt.Sprintf("CParse %s %s (%s)", hx.CoqHex([]byte(s)), hx.CoqZ(fmt.Sprint(d)), o), map[string]interface{}{"fn": "strToBigInt", "s": s, "decimal": d, "obs": o})
		}
		class := "parse-err-" + fmt.Sprint(errClass(err))
		nontrivial := false
		if err == nil && pan == nil {
			if r.Sign() == 0 {
				class = "parse-zero"
			} else {
				class = "parse-ok"
				nontrivial = true
			}
		}
		if expected != nil {
			class += "-exact"
			if pan == nil && (err != nil || r.Cmp(expected) != 0) {
				res.Violate("C18/parse-exact", fmt.Sprintf("strToBigInt(%q,%d) = %v (%v), the string denotes %v", s, d, r, err, expected), map[string]interface{}{"s": s, "decimal": d})
			}
		}
		res.Count(class, fmt.Sprintf("P|%d|%s", d, s), nontrivial)
		if res.Evaluations%211 == 0 {
			res.Sample(map[string]interface{}{"fn": "strToBigInt", "s": trunc(s), "decimal": d, "obs": trunc(o)})
		}
	}

	intCase := func(n *big.Int) {
		defer func() {
			if p := recover(); p != nil {
				res.Violate("C18/panic:BigIntToStr", fmt.Sprint(p), map[string]interface{}{"n": n.String()})
				res.Count("panic", "R|"+n.String(), true)
			}
		}()
		inRange := new(big.Int).Abs(n).Cmp(two256) < 0
		// BigIntToStr and the round trip
		s := utility.BigIntToStr(n)
		cs.Add(fmt.Sprintf("CBStr %s %s", coqBig(n), hx.CoqHex([]byte(s))), map[string]interface{}{"fn": "BigIntToStr", "n": n.String(), "obs": s})
		back, err, pan := safeParse(s, 18)
		cs.Add(fmt.Sprintf("CParse %s 18%%Z (%s)", hx.CoqHex([]byte(s)), obs(back, err, pan)), map[string]interface{}{"fn": "StrToBigInt", "s": s})
		ok := pan == nil && err == nil && back.Cmp(n) == 0
		class := "roundtrip-ok"
		if !ok {
			class = "roundtrip-differs"
			if new(big.Int).Abs(n).Cmp(two510) < 0 {
				key := "C18/roundtrip"
				if !inRange {
					key = "C18/roundtrip:beyond-2^256"
				}
				res.Violate(key, fmt.Sprintf("StrToBigInt(BigIntToStr(n)) = %v (%v %v), n = %v", back, err, pan, n), map[string]interface{}{"n": n.String(), "str": s})
			} else {
				class = "roundtrip-differs-beyond-2^510(outside the claim)"
			}
		}
		if inRange {
			class += "-evm"
		}
		res.Count(class, "R|"+n.String(), n.Sign() != 0)
		if n.Sign() != 0 && inRange {
			altProbes++
			if x := altStrToBigInt(s, 18, 512, big.ToNearestEven); x == nil || x.Cmp(n) != 0 {
				altNearest++
			}
			if x := altStrToBigInt(s, 18, 64, big.AwayFromZero); x == nil || x.Cmp(n) != 0 {
				altPrec64++
			}
		}
		// re-scaling
		ds := []int64{18, int64(rng.Intn(19))}
		if rng.Intn(6) == 0 {
			ds = append(ds, int64(rng.Intn(33)-2))
		}
		for _, d := range ds {
			func() {
				defer func() {
					if p := recover(); p != nil {
						res.Violate("C18/panic:format", fmt.Sprint(p), map[string]interface{}{"n": n.String(), "decimal": d})
					}
				}()
				e := utility.FormatDecimalForERC20(n, d)
				k := utility.FormatDecimalForRocket(n, d)
				cs.Add(fmt.Sprintf("CErc %s %s (%s)", coqBig(n), hx.CoqZ(fmt.Sprint(d)), obs(e, nil, nil)), map[string]interface{}{"fn": "FormatDecimalForERC20", "n": n.String(), "decimal": d, "obs": fmt.Sprint(e)})
				cs.Add(fmt.Sprintf("CRocket %s %s (%s)", coqBig(n), hx.CoqZ(fmt.Sprint(d)), obs(k, nil, nil)), map[string]interface{}{"fn": "FormatDecimalForRocket", "n": n.String(), "decimal": d, "obs": fmt.Sprint(k)})
				cl := "rescale"
				if inRange && n.Sign() >= 0 && d >= 0 && d <= 18 {
					// stated law: ERC20(n,d) = n / 10^(18-d) (truncated), Rocket(n,d) = n * 10^(18-d); identity at d = 18
					sc := pow10(int(18 - d))
					we := new(big.Int).Quo(n, sc)
					wk := new(big.Int).Mul(n, sc)
					if e == nil || e.Cmp(we) != 0 {
						key := "C18/rescale:erc20"
						if d == 18 {
							key = "C18/rescale-id:erc20"
						}
						res.Violate(key, fmt.Sprintf("FormatDecimalForERC20(%v,%d) = %v, want %v", n, d, e, we), map[string]interface{}{"n": n.String(), "decimal": d})
					}
					if k == nil || k.Cmp(wk) != 0 {
						key := "C18/rescale:rocket"
						if d == 18 {
							key = "C18/rescale-id:rocket"
						}
						res.Violate(key, fmt.Sprintf("FormatDecimalForRocket(%v,%d) = %v, want %v", n, d, k, wk), map[string]interface{}{"n": n.String(), "decimal": d})
					}
					cl = "rescale-checked"
				}
				res.Count(cl, fmt.Sprintf("S|%d|%s", d, n.String()), n.Sign() != 0)
			}()
		}
		// bigIntToStr with an explicit precision
		p := rng.Intn(25) - 2
		if rng.Intn(5) == 0 {
			p = []int{0, 1, 18, 77, 78, 79, 200}[rng.Intn(7)]
		}
		ps := utility.VerifBigIntToStr(n, p)
		cs.Add(fmt.Sprintf("CStr %s %s %s", coqBig(n), hx.CoqZ(fmt.Sprint(p)), hx.CoqHex([]byte(ps))), map[string]interface{}{"fn": "bigIntToStr", "n": n.String(), "p": p, "obs": ps})
		res.Count("bigIntToStr", fmt.Sprintf("F|%d|%s", p, n.String()), n.Sign() != 0)
		if res.Evaluations%97 == 0 {
			res.Sample(map[string]interface{}{"fn": "BigIntToStr/StrToBigInt", "n": trunc(n.String()), "str": trunc(s), "back": trunc(fmt.Sprint(back))})
		}
	}

	// ---- (0) the constants of the source the harness was compiled against vs the model's ----
	{
		file, prec, decimal, base, pfBase, pfPrec, pfMode := sourceConstants()
		effPrec := int64(-1)
		if pfPrec == "prec" {
			effPrec = prec
		} else if n, ok := new(big.Int).SetString(pfPrec, 0); ok && n.IsInt64() {
			effPrec = n.Int64()
		}
		modeCode := map[string]int{"ToNearestEven": 0, "ToNearestAway": 1, "ToZero": 2, "AwayFromZero": 3, "ToNegativeInf": 4, "ToPositiveInf": 5}
		mc, ok := modeCode[pfMode]
		if !ok {
			mc = -1
		}
		baseN, ok := new(big.Int).SetString(base, 0)
		if !ok {
			baseN = big.NewInt(-1)
		}
		cs.Add(fmt.Sprintf("CConst %s %s %s %s %s", hx.CoqZ(fmt.Sprint(effPrec)), hx.CoqZ(fmt.Sprint(mc)), hx.CoqZ(fmt.Sprint(pfBase)), hx.CoqZ(fmt.Sprint(decimal)), hx.CoqZ(baseN.String())),
			map[string]interface{}{"fn": "source constants", "file": file, "prec": prec, "ParseFloat.base": pfBase, "ParseFloat.prec": pfPrec, "ParseFloat.mode": pfMode, "defaultDecimal": decimal, "baseNumber": base})
		res.Note(fmt.Sprintf("source constants read from %s: ParseFloat(s, %d, %s=%d, big.%s), defaultDecimal=%d, baseNumber=%s (compared with the model's code_prec/code_mode/default_decimal)", file, pfBase, pfPrec, effPrec, pfMode, decimal, base))
		res.Count("source-constants", "K", false)
	}
	// nil arguments: the functions document "0" / 0
	func() {
		defer func() {
			if p := recover(); p != nil {
				res.Violate("C18/panic:nil-argument", fmt.Sprint(p), "nil")
			}
		}()
		if s := utility.BigIntToStr(nil); s != "0" {
			res.Violate("C18/nil-argument:BigIntToStr", "BigIntToStr(nil) = "+s, "nil")
		}
		if s := utility.VerifBigIntToStr(nil, 5); s != "0" {
			res.Violate("C18/nil-argument:bigIntToStr", "bigIntToStr(nil,5) = "+s, "nil")
		}
		if r := utility.FormatDecimalForERC20(nil, 6); r == nil || r.Sign() != 0 {
			res.Violate("C18/nil-argument:FormatDecimalForERC20", fmt.Sprint(r), "nil")
		}
		if r := utility.FormatDecimalForRocket(nil, 6); r == nil || r.Sign() != 0 {
			res.Violate("C18/nil-argument:FormatDecimalForRocket", fmt.Sprint(r), "nil")
		}
		res.Count("nil-argument", "NIL", false)
	}()

	// ---- (1) boundary corpus ----
	mk := func(s string) *big.Int { n, _ := new(big.Int).SetString(s, 10); return n }
	p2 := func(k uint, d int64) *big.Int {
		return new(big.Int).Add(new(big.Int).Lsh(big.NewInt(1), k), big.NewInt(d))
	}
	boundary := []*big.Int{big.NewInt(0), big.NewInt(1), big.NewInt(-1), big.NewInt(9), big.NewInt(10),
		new(big.Int).Sub(pow10(18), big.NewInt(1)), pow10(18), new(big.Int).Add(pow10(18), big.NewInt(1)),
		new(big.Int).Sub(pow10(17), big.NewInt(1)), pow10(17), pow10(19),
		p2(255, 0), p2(255, -1), p2(256, -1), p2(256, 0), new(big.Int).Neg(p2(256, -1)), p2(64, -1), p2(64, 0), p2(63, 0),
		pow10(77), new(big.Int).Sub(pow10(78), big.NewInt(1)), pow10(78), mk("115792089237316195423570985008687907853269984665640564039457584007913129639935"),
		p2(400, 1), p2(509, -1), p2(509, 0), p2(510, -1), p2(510, 0), p2(511, -1), p2(512, -1), p2(512, 1), p2(513, 1), p2(571, 3), p2(600, 1), p2(700, -1),
		// wrong-constant witnesses (see coq/C18/Props.v C18_needs_away / C18_needs_prec): these round-trip only
		// because the code rounds away from zero at 512 bits
		mk(witnessNearest), mk(witnessPrec64), mk(witnessPrec256), mk(witnessPrec257),
	}
	for _, n := range boundary {
		intCase(n)
	}
	for _, s := range []string{"", "0", "-0", "+0", "0.0", "1", "+1", "-1", "1.", ".5", "-.5", ".", "-", "+", "-.", "1..2", " 1", "1 ", "--1", "+-1", "1e", "1e+", "1e5", "1E-3", "1p3", "1P-1", "0.1p4",
		"0x10", "1_0", "Inf", "inf", "+Inf", "-inf", "INF", "iNf", "Infinity", "+inf ", "nan", "NaN", "1e0", "1.5e1", "0e", "0e5", "0.000e-3", "1e-30", "1e400", "1e-400", "12345678901234567890e-20",
		"0.000000000000000001", "0.0000000000000000019", "-0.0000000000000000019", "0.0000000000000000001", "0.999999999999999999", "0.9999999999999999999", "1.000000000000000000",
		"00000000000000000000000000001.10", "115792089237316195423570985008687907853269984665640564039457584007913129639935.999999999999999999",
		"0." + strings.Repeat("9", 27), "0." + strings.Repeat("9", 28), "0." + strings.Repeat("3", 60), "0." + strings.Repeat("9", 200), "1." + strings.Repeat("0", 300) + "1",
		strings.Repeat("9", 200), "1e1000", "1e-1000", "7p-600", "3p300", "1e0000001", "1e1234567", "1e99999999999999999999", "\x00", "1\x00", "١", "1,5", "1.5.5", "e5", ".e5", "1.e5", "1e5.5", "1e5e5", "1ee5", "1e+-5", "1pp3"} {
		parseCase(s, 18, -1, nil)
	}

	// ---- (1b) exhaustive small scope: every string of length <= 2 (quick) / <= 3 (thorough) over the
	// characters the grammar distinguishes, compared with the model by value or error class ----
	{
		alphabet := []byte("019.-+eEpPIinf_x ")
		maxLen := 2
		if a.Tier == "thorough" {
			maxLen = 3
		}
		var gen func(prefix []byte)
		gen = func(prefix []byte) {
			if len(prefix) > 0 {
				parseCase(string(prefix), 18, -1, nil)
			}
			if len(prefix) == maxLen {
				return
			}
			for _, c := range alphabet {
				gen(append(append([]byte{}, prefix...), c))
			}
		}
		gen(nil)
		for _, s := range []string{"Inf", "inf", "+Inf", "-Inf", "+inf", "-inf", "1e9", "1p9", ".1e1", "1.e1", "-.1", "+.1", "0.1", "1.0"} {
			parseCase(s, 18, -1, nil)
		}
	}

	// ---- (2) random integers ----
	nInts := a.N / 5
	for i := 0; i < nInts; i++ {
		intCase(randInt(rng))
	}

	// ---- (3) decimal strings ----
	nStr := a.N / 2
	for i := 0; i < nStr; i++ {
		sg := []string{"", "", "-", "+"}[rng.Intn(4)]
		il := rng.Intn(80)
		if rng.Intn(3) == 0 {
			il = rng.Intn(4)
		}
		ip := randDigits(rng, il)
		fl := rng.Intn(19)
		switch rng.Intn(8) {
		case 0:
			fl = 19 + rng.Intn(22)
		case 1:
			fl = 0
		}
		fp := randDigits(rng, fl)
		dot := fl > 0 || rng.Intn(4) == 0
		if il == 0 && fl == 0 {
			ip = "0"
		}
		s := sg + ip
		if dot {
			s += "." + fp
		}
		d := int64(18)
		if rng.Intn(4) == 0 {
			d = int64(rng.Intn(31))
		}
		var expected *big.Int
		if rng.Intn(5) == 0 { // exponent forms (accepted by big.ParseFloat; outside the property's strings)
			ex := rng.Intn(60) - 30
			if rng.Intn(10) == 0 {
				ex = rng.Intn(1600) - 800
			}
			s += fmt.Sprintf("%c%d", "eEpP"[rng.Intn(4)], ex)
		} else if fl <= 18 && d == 18 {
			m, _ := new(big.Int).SetString(ip+fp, 10)
			expected = new(big.Int).Mul(m, pow10(18-fl))
			if sg == "-" {
				expected.Neg(expected)
			}
		}
		parseCase(s, d, fl, expected)
	}

	// ---- (4) malformed stream: mutations of valid strings ----
	alpha := []byte(" +-._eEpPxX0123456789infINFa,\x00\xff")
	for i := 0; i < a.N/5; i++ {
		seedInt := randInt(rng)
		var seedStr string
		func() {
			defer func() {
				if p := recover(); p != nil {
					res.Violate("C18/panic:BigIntToStr", fmt.Sprint(p), map[string]interface{}{"n": seedInt.String()})
					seedStr = seedInt.String()
				}
			}()
			seedStr = utility.BigIntToStr(seedInt)
		}()
		base := []byte(seedStr)
		if rng.Intn(3) == 0 {
			base = []byte([]string{"Inf", "-inf", "1e5", "1.5p-3", ".5", "12.", "+7.25"}[rng.Intn(7)])
		}
		if len(base) > 40 {
			base = base[len(base)-30:]
		}
		for k := 0; k < 1+rng.Intn(2); k++ {
			pos := rng.Intn(len(base) + 1)
			c := alpha[rng.Intn(len(alpha))]
			switch rng.Intn(3) {
			case 0: // insert
				base = append(base[:pos], append([]byte{c}, base[pos:]...)...)
			case 1: // replace
				if pos < len(base) {
					base[pos] = c
				}
			default: // delete
				if pos < len(base) && len(base) > 1 {
					base = append(base[:pos], base[pos+1:]...)
				}
			}
		}
		s := string(base)
		if strings.ContainsAny(s, "eEpP") {
			// keep exponents inside the modelled range
			if idx := strings.IndexAny(s, "eEpP"); len(s)-idx > 6 {
				unsupported++
				continue
			}
		}
		parseCase(s, 18, -1, nil)
	}

	// ---- (5) wrapped Ethereum transaction: value reaches the executor unchanged ----
	// eth_tx.ConvertTx writes BigIntToStr(value) into the JSON data; the contract executor's
	// decodeContractData (hook VerifDecodeContractData) parses it back with StrToBigInt.
	wrapped := func(v *big.Int) {
		defer func() {
			if p := recover(); p != nil {
				res.Violate("C18/wrapped-tx-value:panic", fmt.Sprint(p), v.String())
			}
		}()
		payload := rng.Bytes(rng.Intn(40))
		gas := 21000 + uint64(rng.Intn(100000))
		tx := eth_tx.NewTransaction(uint64(rng.Intn(1000)), common.BytesToAddress(rng.Bytes(20)), v, gas, big.NewInt(int64(rng.Intn(1e9))), payload)
		conv := eth_tx.ConvertTx(tx, common.BytesToAddress(rng.Bytes(20)), nil)
		var data types.ContractData
		if err := json.Unmarshal([]byte(conv.Data), &data); err != nil {
			res.Violate("C18/wrapped-tx-value:json", err.Error(), v.String())
			return
		}
		gotGas, got, input, msg := executor.VerifDecodeContractData(conv.Data)
		if msg != "" || got == nil || got.Cmp(v) != 0 {
			res.Violate("C18/wrapped-tx-value", fmt.Sprintf("value %v arrives at the executor as %v (%q) via %q", v, got, msg, data.TransferValue), v.String())
		}
		if msg == "" && (gotGas != gas || string(input) != string(payload)) {
			res.Violate("C18/wrapped-tx-value:other-fields", fmt.Sprintf("gas %d -> %d, input %x -> %x", gas, gotGas, payload, input), v.String())
		}
		// the string is the model's bigint_to_str of the value
		cs.Add(fmt.Sprintf("CBStr %s %s", coqBig(v), hx.CoqHex([]byte(data.TransferValue))), map[string]interface{}{"fn": "ConvertTx.TransferValue", "n": v.String(), "obs": data.TransferValue})
		res.Count("wrapped-tx", "W|"+v.String(), v.Sign() != 0)
	}
	for _, v := range []*big.Int{big.NewInt(0), big.NewInt(1), p2(256, -1), p2(255, 0), pow10(18), pow10(77), mk(witnessNearest), mk(witnessPrec64), mk(witnessPrec256)} {
		wrapped(v)
	}
	for i := 0; i < a.N/10; i++ {
		var v *big.Int
		switch rng.Intn(4) {
		case 0:
			v = new(big.Int).SetBytes(rng.Bytes(32))
		case 1:
			v = new(big.Int).Abs(randInt(rng))
			if v.Cmp(two256) >= 0 {
				v.Rsh(v, uint(v.BitLen()-256))
			}
		default:
			v = new(big.Int).SetBytes(rng.Bytes(rng.Intn(33)))
		}
		wrapped(v)
	}

	// ---- (6) the account database's ERC20-bound coins: binding record and Get/Set/Add/SubFT ----
	ledgerCases(a, rng, res, cs)

	// ---- (7) the consumers of amount strings: call-site inventory and the ledger transfer entry point ----
	consumerInventory(res, cs)
	consumerCases(a, rng, res, cs)

	// ---- (8) contract data: JSON spellings of the amount; (9) admission of wrapped transactions ----
	jsonSpellingCases(a, rng, res, cs)
	admissionCases(a, rng, res)

	// strings outside the property's grammar that StrToBigInt nevertheless accepts (reported as a note, not a violation)
	{
		r1, e1, _ := safeParse("Inf", 18)
		r2, e2, _ := safeParse("1e700000000", 18)
		r3, e3, _ := safeParse("1e10000000", 18)
		bl := -1
		if r3 != nil {
			bl = r3.BitLen()
		}
		res.Note(fmt.Sprintf("outside the property's grammar: StrToBigInt(\"Inf\") = %v (err %v); StrToBigInt(\"1e700000000\") = %v (err %v; overflows to +Inf, Float.Int leaves 0); StrToBigInt(\"1e10000000\") is a %d-bit integer (err %v) - an 11-character exponent string such as 1e646000000 yields a 2^31-bit (256 MB) integer", r1, e1, r2, e2, bl, e3))
	}
	res.Note(fmt.Sprintf("mutation probe on the implementation side: of %d non-zero in-range integers generated, %d would not round-trip with ToNearestEven at 512 bits and %d would not with AwayFromZero at 64 bits", altProbes, altNearest, altPrec64))
	res.Note(fmt.Sprintf("%d mutated strings skipped because their exponent lies outside the modelled range", unsupported))
	cs.Close()
	res.ModelCases = cs.Total()
	res.Write(a.Out)
}

func trunc(s string) string {
	if len(s) > 120 {
		return s[:120] + "…"
	}
	return s
}

// Found by search (see Props.v); both are < 2^256.
const witnessNearest = "56811621293817351934785017273554155345847226138550693813110463157238241372704"
const witnessPrec64 = "1180591620717411303425"
const witnessPrec256 = "78863480712177860079531696335941234736299262810856364614764790490810452493866"
const witnessPrec257 = "115792089237316195423570985008687907853269984665640564039457584004966757132588" // Props.v C18_min_precision

// ledgerCases executes the real AccountDB (in memory) with ERC20 bindings of every decimal count 0..18 and
// beyond, and records (a) the binding record as stored and as read back, (b) every GetFT/SetFT/AddFT/SubFT
// (GetBalance/SetBalance/... for the system coin) with the raw contract storage slot before and after and the
// ledger view, for the model (coq/C18/Ledger.v). A disagreement there is a broken correspondence; a violation
// is reported only where a clause of the property itself fails: identity at 18 decimals.
func ledgerCases(a hx.Args, rng *hx.Rng, res *hx.Result, cs *hx.Cases) {
	defer func() {
		if p := recover(); p != nil {
			res.Violate("C18/panic:accountdb", fmt.Sprint(p), "ledgerCases")
		}
	}()
	m, _ := db.NewMemDatabase()
	adb, err := account.NewAccountDB(common.Hash{}, account.NewDatabase(m))
	if err != nil {
		panic(err)
	}
	slotOf := func(contract, holder common.Address, position uint64) *big.Int {
		return new(big.Int).SetBytes(adb.GetData(contract, adb.GetERC20Key(holder, position)))
	}
	z := func(n *big.Int) string { return coqBig(n) }
	mk := func(s string) *big.Int { n, _ := new(big.Int).SetString(s, 10); return n }
	u := func(n uint64) string { return hx.CoqZ(fmt.Sprint(n)) }

	type coin struct {
		name     string
		contract common.Address
		position uint64
		decimal  uint64 // what the model is told: the count the coin was bound with (18 for the system coin)
		system   bool
	}
	var coins []coin

	// the system coin first (its contract address is cached process-wide on first use)
	sysContract := common.BytesToAddress(rng.Bytes(20))
	adb.AddERC20Binding(common.BLANCE_NAME, sysContract, 7, 6)
	{
		found, c, p, d := adb.GetERC20Binding(common.BLANCE_NAME)
		cs.Add(fmt.Sprintf("CBindSys %s %s %s", hx.CoqBool(common.IsSub()), u(p), u(d)), map[string]interface{}{"fn": "GetERC20Binding(SYSTEM-RPG)", "found": found, "contract": c.String(), "position": p, "decimal": d})
		if !found || c != sysContract {
			cs.Add("CBindSys false 0%Z 0%Z", map[string]interface{}{"fn": "GetERC20Binding(SYSTEM-RPG)", "problem": "not found / other contract", "contract": c.String()})
		}
		coins = append(coins, coin{common.BLANCE_NAME, sysContract, p, 18, true})
		res.Count("binding-system", "B|sys", false)
	}
	decimals := []uint64{}
	for d := uint64(0); d <= 20; d++ {
		decimals = append(decimals, d)
	}
	decimals = append(decimals, 27, 28, 30, 40, 1<<63, 1<<63+18, 1<<64-1, 1<<64-18)
	extra := 3
	if a.Tier == "thorough" {
		extra = 40
	}
	for i := 0; i < extra; i++ {
		decimals = append(decimals, uint64(rng.Intn(19)))
	}
	for i, d := range decimals {
		name := fmt.Sprintf("C18-COIN-%d", i)
		contract := common.BytesToAddress(rng.Bytes(20))
		position := uint64(rng.Intn(12))
		if rng.Intn(4) == 0 {
			position = rng.U64()
		}
		added := adb.AddERC20Binding(name, contract, position, d)
		baddr := common.GenerateERC20Binding(name)
		rawC, rawP, rawD := adb.GetData(baddr, []byte("c")), adb.GetData(baddr, []byte("p")), adb.GetData(baddr, []byte("d"))
		found, c2, p2, d2 := adb.GetERC20Binding(name)
		cs.Add(fmt.Sprintf("CBind %s %s %s %s %s %s %s", u(position), u(d), hx.CoqHex(rawP), hx.CoqHex(rawD), hx.CoqBool(found && added && c2 == contract && string(rawC) == string(contract.Bytes())), u(p2), u(d2)),
			map[string]interface{}{"fn": "AddERC20Binding/GetERC20Binding", "name": name, "position": position, "decimal": d, "stored_p": fmt.Sprintf("%x", rawP), "stored_d": fmt.Sprintf("%x", rawD), "got_position": p2, "got_decimal": d2, "found": found})
		res.Count("binding", fmt.Sprintf("B|%d|%d", position, d), d != 18)
		if adb.AddERC20Binding(name, contract, position+1, d+1) { // a second binding of the same name must be refused
			cs.Add("CBind 0%Z 0%Z \"\" \"\" false 0%Z 0%Z", map[string]interface{}{"fn": "AddERC20Binding", "problem": "re-binding accepted", "name": name})
		}
		coins = append(coins, coin{name, contract, position, d, false})
	}
	if found, _, _, _ := adb.GetERC20Binding("C18-NO-SUCH-COIN"); found {
		cs.Add("CBind 0%Z 0%Z \"\" \"\" false 0%Z 0%Z", map[string]interface{}{"fn": "GetERC20Binding", "problem": "unbound name found"})
	}

	for ci, c := range coins {
		c := c
		holder := common.BytesToAddress(rng.Bytes(20))
		scale := big.NewInt(1)
		if c.decimal <= 18 {
			scale = pow10(int(18 - c.decimal))
		}
		amounts := []*big.Int{
			mk("5000000000000000123"), // 5.000000000000000123
			new(big.Int).Sub(scale, big.NewInt(1)), new(big.Int).Set(scale),
			new(big.Int).SetBytes(rng.Bytes(1 + rng.Intn(32))),
			new(big.Int).Abs(randInt(rng)),
			big.NewInt(0), big.NewInt(1),
		}
		if ci%5 == 0 {
			amounts = append(amounts, new(big.Int).Sub(two256, big.NewInt(1)), big.NewInt(-3), mk("-2500000000000000000"))
		}
		for k, amt := range amounts {
			if amt.BitLen() > 300 {
				amt.Rsh(amt, uint(amt.BitLen()-300))
			}
			ops := []int{1, 0, 2, 3, 3} // Set amt; Get; Add amt/3+1; Sub amt/2; Sub (too much or rest)
			args := []*big.Int{amt, nil, new(big.Int).Add(new(big.Int).Quo(amt, big.NewInt(3)), big.NewInt(1)), new(big.Int).Quo(amt, big.NewInt(2)), new(big.Int).Mul(amt, big.NewInt(3))}
			if k >= 2 && !c.system && c.decimal != 18 && a.Tier != "thorough" {
				ops, args = ops[:2], args[:2] // quick tier: Set + Get only for the remaining amounts
			}
			for j, op := range ops {
				arg := args[j]
				if arg == nil {
					arg = big.NewInt(0)
				}
				before := slotOf(c.contract, holder, c.position)
				var ret *big.Int
				ok := true
				pan := func() (p interface{}) {
					defer func() { p = recover() }()
					switch op {
					case 0:
						if c.system {
							ret = adb.GetBalance(holder)
						} else {
							ret = adb.GetFT(holder, c.name)
						}
					case 1:
						if c.system {
							adb.SetBalance(holder, arg)
						} else {
							adb.SetFT(holder, c.name, arg)
						}
					case 2:
						if c.system {
							adb.AddBalance(holder, arg)
						} else {
							ok = adb.AddFT(holder, c.name, arg)
						}
					case 3:
						ret, ok = adb.SubFT(holder, c.name, arg)
					}
					return nil
				}()
				after := slotOf(c.contract, holder, c.position)
				var view *big.Int
				if pan == nil {
					pan = func() (p interface{}) {
						defer func() { p = recover() }()
						view = adb.GetFT(holder, c.name)
						return nil
					}()
				}
				o := "FPanic"
				if pan == nil && view != nil {
					if ret == nil {
						ret = big.NewInt(0)
					}
					o = fmt.Sprintf("FOk %s %s %s %s", z(after), z(ret), hx.CoqBool(ok), z(view))
				}
				cs.Add(fmt.Sprintf("CFT %s %s %d%%Z %s (%s)", u(c.decimal), z(before), op, z(arg), o),
					map[string]interface{}{"fn": []string{"GetFT", "SetFT", "AddFT", "SubFT"}[op], "coin": c.name, "decimal": c.decimal, "slot_before": before.String(), "amount": arg.String(), "slot_after": after.String(), "ret": fmt.Sprint(ret), "ok": ok, "ledger_view": fmt.Sprint(view), "panic": fmt.Sprint(pan)})
				class := fmt.Sprintf("accountdb-%s", []string{"get", "set", "add", "sub"}[op])
				if c.decimal == 18 {
					class += "-18"
					// the property's own clause: with 18 decimals nothing is re-scaled
					inRange := arg.Sign() >= 0 && arg.Cmp(two256) < 0 && before.Cmp(two256) < 0
					if pan != nil {
						res.Violate("C18/panic:accountdb", fmt.Sprint(pan), map[string]interface{}{"coin": c.name, "op": op, "amount": arg.String()})
					} else if inRange {
						want := new(big.Int).Set(before)
						switch op {
						case 1:
							want.Set(arg)
						case 2:
							want.Add(before, arg)
						case 3:
							if before.Cmp(arg) >= 0 {
								want.Sub(before, arg)
							}
						}
						if after.Cmp(want) != 0 || view == nil || view.Cmp(want) != 0 {
							res.Violate("C18/rescale-id:accountdb", fmt.Sprintf("%s on an 18-decimal coin: slot %v -> %v, ledger view %v, want %v", []string{"GetFT", "SetFT", "AddFT", "SubFT"}[op], before, after, view, want),
								map[string]interface{}{"coin": c.name, "amount": arg.String(), "slot_before": before.String()})
						}
					}
				}
				// every decimal count 0..18: slot, returned amount, flag and ledger view against the re-scaling laws
				// (ledger -> token: n quo 10^(18-d); token -> ledger: m * 10^(18-d); theorems C18_rescale_erc20/_rocket)
				if c.decimal <= 18 && pan == nil && view != nil && arg.Sign() >= 0 && arg.BitLen() <= 300 && before.BitLen() <= 400 {
					sc := pow10(int(18 - c.decimal))
					erc := new(big.Int).Quo(arg, sc)
					rocket := func(m *big.Int) *big.Int { return new(big.Int).Mul(m, sc) }
					wantAfter, wantOK := new(big.Int).Set(before), true
					var wantRet *big.Int // nil = not specified
					switch op {
					case 0:
						wantRet = rocket(before)
					case 1:
						wantAfter = erc
					case 2:
						wantAfter = new(big.Int).Add(before, erc)
					case 3:
						if before.Cmp(erc) < 0 {
							wantOK = false
						} else {
							wantAfter = new(big.Int).Sub(before, erc)
							wantRet = rocket(wantAfter) // the balance left, in the ledger's unit
						}
					}
					opName := []string{"GetFT", "SetFT", "AddFT", "SubFT"}[op]
					in := map[string]interface{}{"coin": c.name, "decimal": c.decimal, "op": opName, "slot_before": before.String(), "amount": arg.String()}
					if after.Cmp(wantAfter) != 0 || view.Cmp(rocket(wantAfter)) != 0 {
						res.Violate("C18/rescale:accountdb:"+opName+"-slot", fmt.Sprintf("%s(%v) on a coin with %d decimals, slot %v: slot after %v (want %v), ledger view %v (want %v)", opName, arg, c.decimal, before, after, wantAfter, view, rocket(wantAfter)), in)
					}
					if ok != wantOK || (wantRet != nil && (ret == nil || ret.Cmp(wantRet) != 0)) {
						res.Violate("C18/rescale:accountdb:"+opName+"-return", fmt.Sprintf("%s(%v) on a coin with %d decimals, slot %v -> %v: returns (%v, %v), want (%v, %v)", opName, arg, c.decimal, before, after, ret, ok, wantRet, wantOK), in)
					}
				}
				res.Count(class, fmt.Sprintf("L|%d|%d|%s|%s", c.decimal, op, before.String(), arg.String()), arg.Sign() != 0 || before.Sign() != 0)
			}
		}
	}
	// nil amounts are ignored
	func() {
		defer func() {
			if p := recover(); p != nil {
				res.Violate("C18/panic:accountdb-nil", fmt.Sprint(p), "nil amount")
			}
		}()
		h := common.BytesToAddress(rng.Bytes(20))
		adb.SetFT(h, coins[1].name, nil)
		adb.AddFT(h, coins[1].name, nil)
		adb.SubFT(h, coins[1].name, nil)
	}()
}

// consumerInventory lists, with go/ast over the non-test sources the harness was compiled against, every call
// of the conversion functions outside their own file and what is handed to them. A site is identified by
// file|function|callee|argument text; the model side (coq/C18/Sites.v, covered_sites) lists the sites that
// were reviewed and says by what they are covered. A site that is not listed - a new consumer, or a consumer
// that now transforms the string before parsing (the argument text changes) - is an uncovered site and
// breaks the correspondence.
func consumerInventory(res *hx.Result, cs *hx.Cases) {
	f := runtime.FuncForPC(reflect.ValueOf(utility.BigIntToStr).Pointer())
	file, _ := f.FileLine(f.Entry())
	root := filepath.Dir(filepath.Dir(file)) // .../src
	callees := map[string]bool{"StrToBigInt": true, "strToBigInt": true, "FormatDecimalForERC20": true, "FormatDecimalForRocket": true,
		"BigIntToStr": true, "bigIntToStr": true, "BigIntToStrWithoutDot": true, "BigIntBytesToStr": true, "Float64ToBigInt": true, "Uint64ToBigInt": true}
	var sites []string
	fset := token.NewFileSet()
	filepath.WalkDir(root, func(path string, d fs.DirEntry, err error) error {
		if err != nil || d.IsDir() || !strings.HasSuffix(path, ".go") || strings.HasSuffix(path, "_test.go") || strings.HasPrefix(filepath.Base(path), "verif_") {
			return nil
		}
		src, err := os.ReadFile(path)
		if err != nil || !(bytes.Contains(src, []byte("utility.")) || filepath.Base(filepath.Dir(path)) == "utility") {
			return nil
		}
		af, err := parser.ParseFile(fset, path, src, 0)
		if err != nil {
			sites = append(sites, "PARSE-ERROR|"+path)
			return nil
		}
		inUtility := af.Name.Name == "utility"
		rel, _ := filepath.Rel(root, path)
		for _, decl := range af.Decls {
			fd, ok := decl.(*ast.FuncDecl)
			fname := "(package level)"
			var node ast.Node = decl
			if ok {
				fname = fd.Name.Name
				if fd.Body == nil {
					continue
				}
				node = fd.Body
			}
			ast.Inspect(node, func(n ast.Node) bool {
				c, ok := n.(*ast.CallExpr)
				if !ok {
					return true
				}
				name := ""
				switch fn := c.Fun.(type) {
				case *ast.SelectorExpr:
					if x, ok := fn.X.(*ast.Ident); ok && x.Name == "utility" {
						name = fn.Sel.Name
					}
				case *ast.Ident:
					if inUtility {
						name = fn.Name
					}
				}
				if !callees[name] || len(c.Args) == 0 {
					return true
				}
				var args []string
				for _, arg := range c.Args {
					var b bytes.Buffer
					printer.Fprint(&b, fset, arg)
					args = append(args, strings.Join(strings.Fields(b.String()), " "))
				}
				sites = append(sites, fmt.Sprintf("%s|%s|%s|%s", filepath.ToSlash(rel), fname, name, strings.Join(args, ", ")))
				return true
			})
		}
		return nil
	})
	sort.Strings(sites)
	uniq := sites[:0]
	for i, s := range sites {
		if i == 0 || s != sites[i-1] {
			uniq = append(uniq, s)
		}
	}
	if out := os.Getenv("C18_EMIT_SITES"); out != "" {
		os.WriteFile(out, []byte(strings.Join(uniq, "\n")+"\n"), 0644)
	}
	for _, s := range uniq {
		cs.Add("CSite "+hx.CoqStr(s), map[string]interface{}{"fn": "call-site inventory", "site": s})
	}
	cs.Add(fmt.Sprintf("CSiteCount %d%%Z", len(uniq)), map[string]interface{}{"fn": "call-site inventory", "sites": len(uniq)})
	res.Note(fmt.Sprintf("call-site inventory: %d calls of the conversion functions in the non-test sources under %s, each compared with coq/C18/Sites.v", len(uniq), root))
	res.Count("call-site-inventory", "SITES", false)
}

// consumerCases drives the ledger transfer entry point end to end: an operator transaction whose extra data
// names target addresses and amount strings goes through operatorExecutor.Execute -> service.ChangeAssets ->
// transferBalance on an in-memory AccountDB. The amount debited and credited must be the integer the string
// denotes, and sweeping a balance with the string the node itself prints must leave exactly 0.
func consumerCases(a hx.Args, rng *hx.Rng, res *hx.Result, cs *hx.Cases) {
	defer func() {
		if p := recover(); p != nil {
			res.Violate("C18/panic:consumer", fmt.Sprint(p), "consumerCases")
		}
	}()
	middleware.InitMiddleware()
	service.InitService()
	executor.InitExecutors()
	m, _ := db.NewMemDatabase()
	adb, err := account.NewAccountDB(common.Hash{}, account.NewDatabase(m))
	if err != nil {
		panic(err)
	}
	opx := executor.GetTxExecutor(types.TransactionTypeOperatorEvent)
	header := &types.BlockHeader{Height: 1}
	const site = "ChangeAssets"
	transfer := func(kind string, srcBal *big.Int, amount string, want *big.Int) {
		src := common.BytesToAddress(rng.Bytes(20))
		dst := common.BytesToAddress(rng.Bytes(20))
		tgtBefore := new(big.Int).SetBytes(rng.Bytes(rng.Intn(12)))
		adb.SetBalance(src, srcBal)
		adb.SetBalance(dst, tgtBefore)
		extra, _ := json.Marshal(map[string]types.TransferData{dst.GetHexString(): {Balance: amount}})
		tx := &types.Transaction{Source: src.GetHexString(), Type: types.TransactionTypeOperatorEvent, ExtraData: string(extra), Hash: common.BytesToHash(rng.Bytes(32))}
		var ok bool
		var msg string
		if p := func() (p interface{}) {
			defer func() { p = recover() }()
			ok, msg = opx.Execute(tx, header, adb, map[string]interface{}{"situation": "testing"})
			return nil
		}(); p != nil {
			res.Violate("C18/panic:consumer:"+site, fmt.Sprint(p), map[string]interface{}{"amount": amount, "source_balance": srcBal.String()})
			return
		}
		srcAfter, dstAfter := adb.GetBalance(src), adb.GetBalance(dst)
		debited := new(big.Int).Sub(srcBal, srcAfter)
		credited := new(big.Int).Sub(dstAfter, tgtBefore)
		in := map[string]interface{}{"amount": amount, "source_balance": srcBal.String(), "kind": kind}
		expectOK := want.Sign() >= 0 && want.Cmp(srcBal) <= 0
		switch {
		case expectOK && (!ok || debited.Cmp(want) != 0 || credited.Cmp(want) != 0):
			res.Violate("C18/consumer:"+site+":amount-differs", fmt.Sprintf("%s: transfer of %q (denotes %v units) from a balance of %v: ok=%v (%s), debited %v, credited %v, source left with %v", kind, amount, want, srcBal, ok, msg, debited, credited, srcAfter), in)
		case !expectOK && (ok || debited.Sign() != 0 || credited.Sign() != 0):
			res.Violate("C18/consumer:"+site+":amount-differs", fmt.Sprintf("%s: transfer of %q (denotes %v units) from a balance of %v must be refused: ok=%v, debited %v, credited %v", kind, amount, want, srcBal, ok, debited, credited), in)
		case expectOK:
			// the reply prints what is left
			var reply map[string]interface{}
			left := utility.BigIntToStr(srcAfter)
			if json.Unmarshal([]byte(msg), &reply) != nil || reply["balance"] != left {
				res.Violate("C18/consumer:"+site+":reply-differs", fmt.Sprintf("reply %s, balance left %s", msg, left), in)
			}
		}
		if ok {
			cs.Add(fmt.Sprintf("CParse %s 18%%Z (OOk %s)", hx.CoqHex([]byte(amount)), coqBig(credited)), map[string]interface{}{"fn": "ChangeAssets: amount credited", "s": amount, "credited": credited.String()})
		}
		res.Count("consumer-"+site+"-"+kind, fmt.Sprintf("C|%s|%s", srcBal.String(), amount), want.Sign() != 0)
		if res.Evaluations%53 == 0 {
			res.Sample(map[string]interface{}{"fn": "ChangeAssets", "amount": trunc(amount), "source_balance": trunc(srcBal.String()), "debited": trunc(debited.String()), "ok": ok})
		}
	}
	nonzeroDigits := func(n int) string { // n digits, the last one non-zero
		if n == 0 {
			return ""
		}
		d := []byte(randDigits(rng, n))
		d[n-1] = byte('1' + rng.Intn(9))
		return string(d)
	}
	n := 6
	if a.Tier == "thorough" {
		n = 60
	}
	for rep := 0; rep < n; rep++ {
		// amounts with every number of fractional digits 0..18, last digit non-zero
		for fl := 0; fl <= 18; fl++ {
			if rep > 0 && fl < 17 && rng.Intn(3) != 0 {
				continue
			}
			ipLen := []int{1, 1, 2, 5, 20, 40, 59}[rng.Intn(7)]
			ip := randDigits(rng, ipLen)
			if rep == 0 {
				ip = "1"
			}
			fp := nonzeroDigits(fl)
			if rep == 0 && fl > 0 {
				fp = strings.Repeat("0", fl-1) + "1"
			}
			amount := ip
			if fl > 0 {
				amount += "." + fp
			}
			mant, _ := new(big.Int).SetString(ip+fp, 10)
			want := new(big.Int).Mul(mant, pow10(18-fl))
			bal := new(big.Int).Add(want, new(big.Int).SetBytes(rng.Bytes(rng.Intn(10))))
			switch rng.Intn(6) {
			case 0:
				bal = new(big.Int).Set(want) // exactly enough
			case 1:
				if want.Sign() > 0 {
					bal = new(big.Int).Sub(want, big.NewInt(1)) // one unit short: must be refused
				}
			}
			transfer(fmt.Sprintf("frac%02d", fl), bal, amount, want)
		}
		// sweep: the node's own printout of a random balance
		for k := 0; k < 4; k++ {
			var bal *big.Int
			switch k {
			case 0:
				bal = mk2("2500000000000000003")
			case 1:
				bal = new(big.Int).Sub(two256, big.NewInt(int64(1+rng.Intn(1000))))
			case 2:
				bal = new(big.Int).SetBytes(rng.Bytes(1 + rng.Intn(32)))
			default:
				bal = new(big.Int).Abs(randInt(rng))
				if bal.Cmp(two256) >= 0 {
					bal.Rsh(bal, uint(bal.BitLen()-255))
				}
			}
			transfer("sweep", bal, utility.BigIntToStr(bal), bal)
		}
	}
	// target lists: several accounts, and one account under several spellings of its address; every entry moves
	// exactly the integer its amount denotes, so an account is credited the sum over its spellings
	multi := func(nAccounts int, spellingsPer int) {
		src := common.BytesToAddress(rng.Bytes(20))
		targets := map[string]types.TransferData{}
		wantPer := map[common.Address]*big.Int{}
		before := map[common.Address]*big.Int{}
		total := new(big.Int)
		var amountsHex []string
		for i := 0; i < nAccounts; i++ {
			raw := rng.Bytes(20)
			raw[0], raw[19] = 0xab, 0xcd // letters, so that the case variants differ
			acct := common.BytesToAddress(raw)
			h := fmt.Sprintf("%x", raw)
			spell := []string{"0x" + h, "0x" + strings.ToUpper(h), "0X" + h, h, strings.ToUpper(h)}
			rngPerm := rng.Intn(len(spell))
			before[acct] = new(big.Int).SetBytes(rng.Bytes(rng.Intn(10)))
			adb.SetBalance(acct, before[acct])
			wantPer[acct] = new(big.Int)
			for k := 0; k < spellingsPer; k++ {
				fl := []int{18, 18, 17, 1, 0, 9}[rng.Intn(6)]
				ip := strings.TrimLeft(randDigits(rng, 1+rng.Intn(6)), "0")
				if ip == "" {
					ip = "1"
				}
				amount := ip
				if fl > 0 {
					amount += "." + nonzeroDigits(fl)
				}
				if i == 0 && spellingsPer > 1 {
					amount = []string{"1.000000000000000001", "2.5", "0.000000000000000007", "3", "10.01"}[k%5]
				}
				v, _ := denoted(amount)
				targets[spell[(rngPerm+k)%len(spell)]] = types.TransferData{Balance: amount}
				wantPer[acct].Add(wantPer[acct], v)
				total.Add(total, v)
				amountsHex = append(amountsHex, hx.CoqHex([]byte(amount)))
			}
		}
		srcBal := new(big.Int).Add(total, new(big.Int).SetBytes(rng.Bytes(rng.Intn(9))))
		adb.SetBalance(src, srcBal)
		extra, _ := json.Marshal(targets)
		tx := &types.Transaction{Source: src.GetHexString(), Type: types.TransactionTypeOperatorEvent, ExtraData: string(extra), Hash: common.BytesToHash(rng.Bytes(32))}
		var ok bool
		var msg string
		if p := func() (p interface{}) {
			defer func() { p = recover() }()
			ok, msg = opx.Execute(tx, header, adb, map[string]interface{}{"situation": "testing"})
			return nil
		}(); p != nil {
			res.Violate("C18/panic:consumer:"+site, fmt.Sprint(p), string(extra))
			return
		}
		in := map[string]interface{}{"source_balance": srcBal.String(), "targets": string(extra)}
		debited := new(big.Int).Sub(srcBal, adb.GetBalance(src))
		bad := !ok || debited.Cmp(total) != 0
		detail := ""
		for acct, w := range wantPer {
			credited := new(big.Int).Sub(adb.GetBalance(acct), before[acct])
			if credited.Cmp(w) != 0 {
				bad = true
				detail += fmt.Sprintf(" account %s credited %v, the amounts addressed to it denote %v;", acct.GetHexString(), credited, w)
			}
		}
		if bad {
			res.Violate("C18/consumer:"+site+":amount-differs", fmt.Sprintf("target list %s from a balance of %v: ok=%v (%s), source debited %v, the amounts denote %v in total;%s", string(extra), srcBal, ok, msg, debited, total, detail), in)
		}
		if ok {
			cs.Add(fmt.Sprintf("CSum %s %s", hx.CoqList(amountsHex), coqBig(debited)), map[string]interface{}{"fn": "ChangeAssets: total debited for a target list", "targets": string(extra), "debited": debited.String()})
		}
		res.Count(fmt.Sprintf("consumer-%s-multi-%dx%d", site, nAccounts, spellingsPer), "M|"+string(extra), true)
	}
	rounds := 3
	if a.Tier == "thorough" {
		rounds = 30
	}
	for r := 0; r < rounds; r++ {
		multi(1, 2)
		multi(1, 5)
		multi(3, 1)
		multi(2, 3)
	}
	// refused forms: negative amount, malformed amount
	transfer("negative", mk2("5000000000000000000"), "-1", big.NewInt(-1))
}

func mk2(s string) *big.Int { n, _ := new(big.Int).SetString(s, 10); return n }

// denoted gives, with integer arithmetic only, the amount in 18-decimal units that the decimal text
// -?digits[.digits][(e|E)[+-]digits] denotes, truncated toward zero; ok=false if the text has another shape.
func denoted(tok string) (v *big.Int, ok bool) {
	t := tok
	neg := false
	if strings.HasPrefix(t, "-") {
		neg, t = true, t[1:]
	}
	exp := 0
	if i := strings.IndexAny(t, "eE"); i >= 0 {
		e := t[i+1:]
		t = t[:i]
		sign := 1
		if strings.HasPrefix(e, "+") {
			e = e[1:]
		} else if strings.HasPrefix(e, "-") {
			sign, e = -1, e[1:]
		}
		if e == "" || len(e) > 4 || strings.Trim(e, "0123456789") != "" {
			return nil, false
		}
		fmt.Sscan(e, &exp)
		exp *= sign
	}
	ip, fp := t, ""
	if i := strings.Index(t, "."); i >= 0 {
		ip, fp = t[:i], t[i+1:]
	}
	if ip+fp == "" || strings.Trim(ip+fp, "0123456789") != "" {
		return nil, false
	}
	m, _ := new(big.Int).SetString(ip+fp, 10)
	sc := exp - len(fp) + 18
	if sc >= 0 {
		m.Mul(m, pow10(sc))
	} else {
		m.Quo(m, pow10(-sc))
	}
	if neg {
		m.Neg(m)
	}
	return m, true
}

// jsonSpellingCases: the same amount spelled in the contract data JSON as a string and as a bare JSON number
// (integer, 1..20 fractional digits, exponent form, huge), with and without the other fields, and wrong types.
// Contract: a spelling is either refused as a whole or the amount decodeContractData hands on is exactly the
// decimal the JSON text denotes (computed here from the token text with big integers, never via float64).
func jsonSpellingCases(a hx.Args, rng *hx.Rng, res *hx.Result, cs *hx.Cases) {
	type spelling struct{ class, tok string }
	nz := func(n int) string {
		d := []byte(randDigits(rng, n))
		d[n-1] = byte('1' + rng.Intn(9))
		return string(d)
	}
	var toks []spelling
	toks = append(toks, spelling{"integer", "0"}, spelling{"integer", "1"}, spelling{"integer", "5"}, spelling{"integer", "300000"},
		spelling{"integer", "9007199254740993"}, spelling{"integer", "123456789012345678901234567890"},
		spelling{"decimal-18", "1.000000000000000001"}, spelling{"decimal-18", "123456789.123456789123456789"}, spelling{"decimal-01", "1.5"}, spelling{"decimal-04", "0.0001"},
		spelling{"exponent", "1e5"}, spelling{"exponent", "1.5E-3"}, spelling{"exponent", "1e-18"}, spelling{"exponent", "12345678901234567e-17"}, spelling{"exponent", "1E+2"},
		spelling{"huge", "1" + strings.Repeat("0", 59)}, spelling{"huge", "115792089237316195423570985008687907853269984665640564039457.584007913129639935"}, spelling{"huge", "1e40"},
		spelling{"negative", "-1"}, spelling{"negative", "-0.5"})
	reps := 2
	if a.Tier == "thorough" {
		reps = 20
	}
	for r := 0; r < reps; r++ {
		for fl := 1; fl <= 20; fl++ {
			if r > 0 && rng.Intn(2) == 0 {
				continue
			}
			ip := randDigits(rng, 1+rng.Intn(12))
			ip = strings.TrimLeft(ip, "0") // JSON numbers have no leading zeros
			if ip == "" {
				ip = "0"
			}
			toks = append(toks, spelling{fmt.Sprintf("decimal-%02d", fl), ip + "." + nz(fl)})
		}
		toks = append(toks, spelling{"integer", strings.TrimLeft(randDigits(rng, 1+rng.Intn(40)), "0") + "7"})
	}
	run := func(kind, class, tok, doc string, wantAccept int, want *big.Int) { // wantAccept: 1 must accept, 0 either, -1 must refuse
		var gas uint64
		var got *big.Int
		var msg string
		if p := func() (p interface{}) {
			defer func() { p = recover() }()
			gas, got, _, msg = executor.VerifDecodeContractData(doc)
			return nil
		}(); p != nil {
			res.Violate("C18/panic:contract-data", fmt.Sprint(p), doc)
			return
		}
		_ = gas
		accepted := msg == "" && got != nil
		key := "C18/contract-data:" + kind + ":" + class
		outcome := "refused"
		if accepted {
			outcome = "accepted"
			if want == nil || got.Cmp(want) != 0 {
				res.Violate(key, fmt.Sprintf("contract data %s is accepted and hands %v to the EVM; the JSON text %s denotes %v", doc, got, tok, want), map[string]interface{}{"data": doc})
			}
			if kind == "json-string" && len(tok) < 200 {
				cs.Add(fmt.Sprintf("CParse %s 18%%Z (OOk %s)", hx.CoqHex([]byte(tok)), coqBig(got)), map[string]interface{}{"fn": "decodeContractData: transferValue as JSON string", "s": tok, "obs": got.String()})
			}
		} else if wantAccept == 1 {
			res.Violate(key, fmt.Sprintf("contract data %s is refused (%s); the node's own spelling must be accepted", doc, msg), map[string]interface{}{"data": doc})
		}
		res.Count("contract-data-"+kind+"-"+outcome, "J|"+doc, want != nil && want.Sign() != 0)
	}
	for i, sp := range toks {
		want, ok := denoted(sp.tok)
		if !ok {
			continue
		}
		wrap := func(field string) string {
			switch i % 3 {
			case 0:
				return "{" + field + "}"
			case 1:
				return `{"gasLimit":"300000",` + field + `,"abiData":"0x1234"}`
			}
			return `{"abiData":"0x","gasPrice":"1000000000",` + field + `,"gasLimit":"21000"}`
		}
		acc := 0
		if !strings.HasPrefix(sp.tok, "-") && !strings.ContainsAny(sp.tok, "eE") {
			acc = 1 // plain decimal strings are what the node writes and must be accepted
		}
		run("json-string", sp.class, sp.tok, wrap(`"transferValue":"`+sp.tok+`"`), acc, want)
		run("json-number", sp.class, sp.tok, wrap(`"transferValue":`+sp.tok), 0, want)
	}
	// the other fields as bare numbers, the amount as the node spells it
	five := mk2("5000000000000000000")
	run("json-number", "gaslimit-number", "5.000000000000000000", `{"gasLimit":300000,"transferValue":"5.000000000000000000"}`, 0, five)
	run("json-number", "gasprice-number", "5.000000000000000000", `{"gasPrice":1e9,"gasLimit":"21000","transferValue":"5.000000000000000000"}`, 0, five)
	// wrong types and null: refused, or an amount of 0 (null = absent)
	for _, t := range []string{"true", "false", "null", "[]", "[1]", "{}", `{"a":1}`, `["1"]`} {
		run("json-number", "wrong-type", t, `{"gasLimit":"21000","transferValue":`+t+`}`, 0, big.NewInt(0))
	}
}

// admissionCases: for signed raw ethereum transactions, the honest wrapper (eth_tx.ConvertTx) and forged
// wrappers (same Hash / ExtraData, Data JSON with transferValue or gas fields rewritten) are shown to
// TxPool.VerifyTransaction in the orders [forged], [honest, forged], [honest, honest, forged]; whatever
// verification accepts is decoded by the contract executor and must carry exactly the signed raw value.
func admissionCases(a hx.Args, rng *hx.Rng, res *hx.Result) {
	defer func() {
		if p := recover(); p != nil {
			res.Violate("C18/panic:admission", fmt.Sprint(p), "admissionCases")
		}
	}()
	const height = 1
	pool := service.GetTransactionPool()
	signer := eth_tx.NewEIP155Signer(common.GetChainId(height))
	key, err := crypto.HexToECDSA("b71c71a67e1177ad4e901695e1b4b9ee17ae16c6668d313eac2f96dbcda3f291")
	if err != nil {
		panic(err)
	}
	nonce := uint64(0)
	wrap := func(value *big.Int) (*types.Transaction, bool) {
		nonce++
		raw, err := eth_tx.SignTx(eth_tx.NewTransaction(nonce, common.BytesToAddress(rng.Bytes(20)), value, 21000+uint64(rng.Intn(100000)), big.NewInt(int64(1+rng.Intn(1e9))), rng.Bytes(rng.Intn(20))), signer, key)
		if err != nil {
			return nil, false
		}
		encoded, err := rlp.EncodeToBytes(raw)
		if err != nil {
			return nil, false
		}
		sender, err := eth_tx.Sender(signer, raw)
		if err != nil {
			return nil, false
		}
		return eth_tx.ConvertTx(raw, sender, encoded), true
	}
	forge := func(genuine *types.Transaction, edit func(d *types.ContractData)) *types.Transaction {
		var data types.ContractData
		json.Unmarshal([]byte(genuine.Data), &data)
		edit(&data)
		b, _ := json.Marshal(data)
		forged := *genuine
		forged.Data = string(b)
		return &forged
	}
	show := func(order string, step int, tx *types.Transaction, honest bool, value *big.Int) {
		var verr error
		if p := func() (p interface{}) {
			defer func() { p = recover() }()
			verr = pool.VerifyTransaction(tx, height)
			return nil
		}(); p != nil {
			res.Violate("C18/panic:admission", fmt.Sprint(p), tx.Data)
			return
		}
		class := "admission-" + order
		if honest {
			class += "-honest"
		} else {
			class += "-forged"
		}
		if verr == nil {
			class += "-accepted"
			_, got, _, msg := executor.VerifDecodeContractData(tx.Data)
			if msg != "" || got == nil || got.Cmp(value) != 0 {
				res.Violate("C18/wrapped-tx-value:accepted-wrapper-differs",
					fmt.Sprintf("order %s, step %d: verification accepts a wrapper (hash %s) whose data %s makes the executor call the EVM with %v (%q); the signed raw transaction carries %v", order, step, tx.Hash.String(), tx.Data, got, msg, value),
					map[string]interface{}{"order": order, "step": step, "signed_value": value.String(), "data": tx.Data, "extraData": tx.ExtraData})
			}
		} else {
			class += "-refused"
			if honest {
				res.Note("admission: an honest wrapper was refused: " + verr.Error())
			}
		}
		res.Count(class, fmt.Sprintf("A|%s|%d|%s|%s", order, step, tx.Hash.String(), tx.Data), true)
	}
	values := []*big.Int{mk2("5000000000000000000"), big.NewInt(1), mk2("1000000000000000001"), new(big.Int).Sub(two256, big.NewInt(1)), big.NewInt(0)}
	n := 6
	if a.Tier == "thorough" {
		n = 60
	}
	for i := 0; i < n; i++ {
		values = append(values, new(big.Int).SetBytes(rng.Bytes(1+rng.Intn(32))))
	}
	edits := []func(v *big.Int) func(d *types.ContractData){
		func(v *big.Int) func(d *types.ContractData) {
			return func(d *types.ContractData) { d.TransferValue = utility.BigIntToStr(new(big.Int).Mul(new(big.Int).Add(v, big.NewInt(1)), big.NewInt(100))) }
		},
		func(v *big.Int) func(d *types.ContractData) {
			return func(d *types.ContractData) { d.TransferValue = utility.BigIntToStr(new(big.Int).Add(v, big.NewInt(1))) }
		},
		func(v *big.Int) func(d *types.ContractData) { return func(d *types.ContractData) { d.TransferValue = "" } },
		func(v *big.Int) func(d *types.ContractData) {
			return func(d *types.ContractData) { d.GasLimit = "900000000"; d.TransferValue = "0." + strings.Repeat("0", 17) + "7" }
		},
	}
	for i, v := range values {
		edit := edits[i%len(edits)](v)
		for _, order := range []string{"F", "HF", "HHF"} {
			honest, ok := wrap(v) // a fresh raw transaction per order: nothing about it has been verified before
			if !ok {
				res.Note("admission: could not sign/wrap a raw transaction")
				return
			}
			forged := forge(honest, edit)
			if forged.Data == honest.Data {
				continue
			}
			for step, c := range order {
				if c == 'H' {
					show(order, step, honest, true, v)
				} else {
					show(order, step, forged, false, v)
				}
			}
		}
	}
}
