// C15 harness: the node's share-collecting signing round (logical.round1 inside a SignParty, then the
// finalizer round2) driven through the verif hook with crafted ConsensusVerifyMessages.
//
//	(a) direct search on the implementation: an admitted share that is not the sender's valid share
//	    for the block hash / previous beacon value, a non-member or duplicate in the recovery set, a
//	    recovered signature that does not verify, k honest shares delivered and yet no final block;
//	(b) the same runs as cases for the Coq model (coq/C15/Model.v, instance Z mod the curve order).
//
// Signatures are points of G1; the model works "in the exponent".  The harness knows every point it
// builds as a linear combination of base points (H(block hash), H(previous beacon), H(other
// messages), unrelated points); it draws one fictional discrete logarithm per base point and hands
// the model the resulting scalar.  Two different combinations get the same scalar with probability
// 2^-254, so equality of scalars stands for equality of points.
package main

import (
	"bytes"
	"encoding/hex"
	"fmt"
	"go/ast"
	"go/parser"
	"go/printer"
	"go/token"
	"math/big"
	"os"
	"path/filepath"
	"reflect"
	"runtime"
	"sort"
	"strings"
	"time"

	"com.tuntun.rangers/node/src/common"
	"com.tuntun.rangers/node/src/consensus/access"
	"com.tuntun.rangers/node/src/consensus/groupsig"
	"com.tuntun.rangers/node/src/consensus/groupsig/bn256"
	"com.tuntun.rangers/node/src/consensus/logical"
	gc "com.tuntun.rangers/node/src/consensus/logical/group_create"
	"com.tuntun.rangers/node/src/consensus/model"
	cnet "com.tuntun.rangers/node/src/consensus/net"
	"com.tuntun.rangers/node/src/middleware"
	"com.tuntun.rangers/node/src/middleware/notify"
	middleware_pb "com.tuntun.rangers/node/src/middleware/pb"
	"com.tuntun.rangers/node/src/middleware/types"
	"com.tuntun.rangers/node/src/network"
	"crypto/sha256"
	"github.com/gogo/protobuf/proto"
	"verif/harness/hx"
)

var order = bn256.Order

// hexadecimal literals: Coq parses them far faster than 77-digit decimals
func zs(b *big.Int) string { return hx.CoqZ("0x" + b.Text(16)) }

func randScalar(r *hx.Rng) *big.Int {
	for {
		x := new(big.Int).SetBytes(r.Bytes(32))
		x.Mod(x, order)
		if x.Sign() != 0 {
			return x
		}
	}
}

func randID(r *hx.Rng) *big.Int {
	if r.Intn(6) == 0 {
		return big.NewInt(int64(1 + r.Intn(1000)))
	}
	return new(big.Int).SetBytes(r.Bytes(32))
}

func distinctIDs(r *hx.Rng, n int) []*big.Int {
	seen := map[string]bool{}
	var out []*big.Int
	for len(out) < n {
		x := randID(r)
		k := new(big.Int).Mod(x, order).String()
		if x.Sign() == 0 || seen[k] {
			continue
		}
		seen[k] = true
		out = append(out, x)
	}
	return out
}

func mkID(x *big.Int) groupsig.ID {
	var id groupsig.ID
	id.SetBigInt(x)
	return id
}

// bytes of an id on the wire: ID.Serialize (left-padded to 32 bytes), or the raw bytes of an id
// longer than that (Serialize panics on those; a sender can still put them into SignMember)
func idBytes(x *big.Int) []byte {
	if len(x.Bytes()) > 32 {
		return x.Bytes()
	}
	return mkID(x).Serialize()
}

func mkSec(x *big.Int) groupsig.Seckey {
	var s groupsig.Seckey
	s.Deserialize(x.Bytes())
	return s
}

func perm(r *hx.Rng, n int) []int {
	p := make([]int, n)
	for i := range p {
		p[i] = i
	}
	for i := n - 1; i > 0; i-- {
		j := r.Intn(i + 1)
		p[i], p[j] = p[j], p[i]
	}
	return p
}

func evalPoly(cs []*big.Int, x *big.Int) *big.Int {
	acc := big.NewInt(0)
	for i := len(cs) - 1; i >= 0; i-- {
		acc.Mul(acc, x).Add(acc, cs[i]).Mod(acc, order)
	}
	return acc
}

// ---- points known as linear combinations of base points ----

// vec: base index -> coefficient (mod r)
type vec map[int]*big.Int

type point struct {
	kind string // "nil" | "val"
	sig  groupsig.Signature
	v    vec
}

type basis struct {
	pts []*bn256.G1 // base points
	h   []*big.Int  // fictional discrete logarithms
	msg [][]byte    // message hashed to the base point (nil for unrelated points)
}

func g1Of(s groupsig.Signature) *bn256.G1 {
	g := new(bn256.G1)
	if _, err := g.Unmarshal(s.Serialize()); err != nil {
		panic(err)
	}
	return g
}

func sigOf(g *bn256.G1) groupsig.Signature { return *groupsig.DeserializeSign(g.Marshal()) }

var one = mkSec(big.NewInt(1))

func (b *basis) addMsg(r *hx.Rng, m []byte) int {
	b.pts = append(b.pts, g1Of(groupsig.Sign(one, m)))
	b.h = append(b.h, randScalar(r))
	b.msg = append(b.msg, m)
	return len(b.pts) - 1
}

func (b *basis) addUnrelated(r *hx.Rng) int {
	b.pts = append(b.pts, g1Of(groupsig.Sign(mkSec(randScalar(r)), r.Bytes(32))))
	b.h = append(b.h, randScalar(r))
	b.msg = append(b.msg, nil)
	return len(b.pts) - 1
}

func (b *basis) eval(v vec) *big.Int {
	acc := big.NewInt(0)
	for i, c := range v {
		acc.Add(acc, new(big.Int).Mul(c, b.h[i]))
	}
	return acc.Mod(acc, order)
}

// the point sum_i v[i]*B_i computed with the curve operations
func (b *basis) pointOf(v vec) *bn256.G1 {
	acc := new(bn256.G1).ScalarBaseMult(big.NewInt(0))
	idx := make([]int, 0, len(v))
	for i := range v {
		idx = append(idx, i)
	}
	sort.Ints(idx)
	for _, i := range idx {
		t := new(bn256.G1).ScalarMult(b.pts[i], new(big.Int).Mod(v[i], order))
		acc = new(bn256.G1).Add(acc, t)
	}
	return acc
}

func single(i int, c *big.Int) vec { return vec{i: new(big.Int).Mod(c, order)} }

func (p point) coq(b *basis) string {
	switch p.kind {
	case "nil":
		return "PNil"
	}
	return "(PVal " + zs(b.eval(p.v)) + ")"
}

func nilPoint() point { return point{kind: "nil"} }

// bytes that are not a curve point: Signature.Deserialize leaves the nil signature
func offPoint() point {
	bs := make([]byte, 64)
	bs[31], bs[63] = 1, 1 // (1,1): 1 != 1+3
	return point{kind: "nil", sig: *groupsig.DeserializeSign(bs)}
}
func valPoint(sig groupsig.Signature, v vec) point { return point{kind: "val", sig: sig, v: v} }

// ---- groups ----

type group struct {
	n, k       int
	ids        []*big.Int
	keys       []*big.Int
	gsk        *big.Int
	gpk        groupsig.Pubkey
	consistent bool
}

func mkGroup(r *hx.Rng, n, k int, consistent bool, ids []*big.Int) *group {
	g := &group{n: n, k: k, consistent: consistent}
	g.ids = ids
	if ids == nil {
		g.ids = distinctIDs(r, n)
	}
	var pubs []groupsig.Pubkey
	shares := make([][]groupsig.Seckey, n)
	gsk := big.NewInt(0)
	for d := 0; d < n; d++ {
		secs := make([]groupsig.Seckey, k)
		for i := range secs {
			c := randScalar(r)
			secs[i] = *groupsig.NewSeckeyFromBigInt(c)
			if i == 0 {
				gsk.Add(gsk, c).Mod(gsk, order)
			}
		}
		pubs = append(pubs, *groupsig.GeneratePubkey(secs[0]))
		for j := 0; j < n; j++ {
			shares[j] = append(shares[j], *groupsig.ShareSeckey(secs, mkID(g.ids[j])))
		}
	}
	for j := 0; j < n; j++ {
		g.keys = append(g.keys, groupsig.AggregateSeckeys(shares[j]).GetBigInt())
	}
	if !consistent {
		// one member's key is not on the group polynomial (a key generation that went wrong)
		g.keys[r.Intn(n)] = randScalar(r)
	}
	g.gsk = gsk
	g.gpk = *groupsig.AggregatePubkeys(pubs)
	return g
}

// Lagrange coefficient at 0 for position i among xs (mod r), as recoverSignature computes it
func lagrange(xs []*big.Int, i int) *big.Int {
	num, den := big.NewInt(1), big.NewInt(1)
	for j := range xs {
		if j == i {
			continue
		}
		num.Mul(num, xs[j]).Mod(num, order)
		d := new(big.Int).Sub(xs[j], xs[i])
		den.Mul(den, d).Mod(den, order)
	}
	inv := new(big.Int).ModInverse(den, order)
	if inv == nil {
		inv = new(big.Int).Set(den)
	}
	t := new(big.Int).Mul(num, inv)
	return t.Mod(t, order)
}

func combine(xs []*big.Int, vs []vec) vec {
	out := vec{}
	for i := range xs {
		d := lagrange(xs, i)
		for j, c := range vs[i] {
			if out[j] == nil {
				out[j] = big.NewInt(0)
			}
			out[j].Add(out[j], new(big.Int).Mul(d, c)).Mod(out[j], order)
		}
	}
	return out
}

// ---- messages ----

type vmsg struct {
	kind   string
	sender *big.Int
	member int // index in the group, -1 for outsiders
	dh     int // base index of the claimed data hash
	dhash  common.Hash
	filed  common.Hash // cvm.BlockHash
	sig    point
	rsig   point
	honest bool
}

const (
	oNoKey = iota
	oHashMismatch
	oBadSign
	oRandNil
	oBadRand
	oDup
	oAdded
	oRecovered
	oExisted
	oFinished
	oClosed
	oRejected // CanAccept refused the message id (processed / stored earlier)
	oPanic    // the handler panicked, the party recovered: message dropped, party goes on
	oOther
)

var oNames = []string{"no-key", "hash-mismatch", "bad-sign", "rand-nil", "bad-rand", "dup", "added", "recovered", "existed", "finished", "closed", "rejected-by-id", "panic-recovered", "other"}

const (
	tNone = iota
	tDone
	tErrG
	tErrR
	tErrExisted
	tErrOther
)

var tNames = []string{"-", "done", "err-group-sign", "err-random-sign", "err-existed", "err-other"}

func has(logs []logical.VerifR1LogLine, sub string) bool {
	for _, l := range logs {
		if strings.Contains(l.Format, sub) {
			return true
		}
	}
	return false
}

func classify(st logical.VerifR1Step) (int, int) {
	term := tNone
	switch {
	case st.Done:
		term = tDone
	case strings.Contains(st.Err, "block already existed"):
		term = tErrExisted
	case strings.Contains(st.Err, "fail to verify group sign"):
		term = tErrG
	case strings.Contains(st.Err, "fail to verify random sign"):
		term = tErrR
	case st.Err != "":
		term = tErrOther
	}
	l := st.Logs
	switch {
	case has(l, "recover error"):
		return oPanic, term
	case has(l, "finished party"):
		return oFinished, term
	case has(l, "working party") && !has(l, "round1 update"):
		return oRejected, term
	case has(l, "block has generated") && !has(l, "round1 add piece"):
		return oExisted, term
	case has(l, "GetMemberSignPubKey not ok"):
		return oNoKey, term
	case has(l, "data hash differs"):
		return oHashMismatch, term
	case has(l, "fail to verify sign"):
		return oBadSign, term
	case has(l, "fail to deserialize bh random"):
		return oRandNil, term
	case has(l, "fail to verify random sign"):
		return oBadRand, term
	case has(l, "already had the piece"):
		return oDup, term
	case has(l, "round1 recovered group sign"):
		return oRecovered, term
	case has(l, "round1 add piece"):
		return oAdded, term
	}
	return oOther, term
}

func hashOf(b []byte) common.Hash { return common.BytesToHash(b) }

// ---- the node's consensus message handler with recording processors (decoder path end to end) ----

type miningStub struct {
	verify []*model.ConsensusVerifyMessage
	cast   int
}

func (m *miningStub) Ready() bool                                   { return true }
func (m *miningStub) OnMessageCast(msg *model.ConsensusCastMessage) { m.cast++ }
func (m *miningStub) OnMessageVerify(msg *model.ConsensusVerifyMessage) {
	m.verify = append(m.verify, msg)
}

type groupCreateStub struct {
	cnet.GroupCreateMessageProcessor
}

// ---- the guard chain of round1.Update as written in the source this binary was built from ----

const (
	gType = iota
	gExisted
	gNoKey
	gHashBind
	gBadSign
	gRandNil
	gBadRand
	gDup
	gRecovered
	gUnknown = 99
)

// guardChain parses round_sign_piece.go (found next to the hook file compiled into this binary) and
// returns, in source order, the class of every top-level `if` of (*round1).Update.
func guardChain() ([]int, []string, error) {
	pc := reflect.ValueOf(logical.VerifR1New).Pointer()
	file, _ := runtime.FuncForPC(pc).FileLine(pc)
	src := filepath.Join(filepath.Dir(file), "round_sign_piece.go")
	fset := token.NewFileSet()
	f, err := parser.ParseFile(fset, src, nil, 0)
	if err != nil {
		return nil, nil, err
	}
	text := func(n ast.Node) string {
		var b bytes.Buffer
		printer.Fprint(&b, fset, n)
		return b.String()
	}
	for _, d := range f.Decls {
		fd, ok := d.(*ast.FuncDecl)
		if !ok || fd.Name.Name != "Update" || fd.Recv == nil || !strings.Contains(text(fd.Recv.List[0].Type), "round1") {
			continue
		}
		var codes []int
		var conds []string
		last := ""
		for _, st := range fd.Body.List {
			switch x := st.(type) {
			case *ast.AssignStmt:
				last = text(x)
			case *ast.IfStmt:
				c := text(x.Cond)
				full := c
				if x.Init != nil {
					full = text(x.Init) + "; " + c
				}
				code := gUnknown
				switch {
				case strings.Contains(full, "checkBlockExisted"):
					code = gExisted
				case c == "!ok" && strings.Contains(last, "ConsensusVerifyMessage"):
					code = gType
				case c == "!ok" && strings.Contains(last, "GetMemberSignPubKey"):
					code = gNoKey
				case strings.Contains(c, "GetDataHash()") && strings.Contains(c, "bh.Hash"):
					code = gHashBind
				case c == "!si.VerifySign(pk)":
					code = gBadSign
				case strings.Contains(c, "sig == nil") && strings.Contains(c, "IsNil()"):
					code = gRandNil
				case c == "!groupsig.VerifySig(pk, r.preBH.Random, *sig)":
					code = gBadRand
				case c == "!add" && strings.Contains(last, "gSignGenerator.AddWitnessSign(si.GetSignerID(), si.GetSignature())"):
					code = gDup
				case c == "radd && generate && rgen" && strings.Contains(last, "rSignGenerator.AddWitnessSign(si.GetSignerID(), *sig)"):
					code = gRecovered
				}
				codes = append(codes, code)
				conds = append(conds, full)
			}
		}
		return codes, conds, nil
	}
	return nil, nil, fmt.Errorf("(*round1).Update not found in %s", src)
}

func main() {
	a := hx.ParseArgs()
	rng := hx.NewRng(a.Seed)
	res := hx.NewResult("signing rounds (round1 -> round2 inside a SignParty) over groups of n=3..10 members (k=GetGroupK(n)) built with the groupsig API; " +
		"each run feeds 4..2n+6 crafted verify messages in random order: honest shares, shares signed over another hash (claimed honestly or filed under the block hash), " +
		"replayed shares of other members, scaled/added/unrelated/identity/off-curve/nil points, wrong beacon shares, non-members, members whose key is not known, duplicates. " +
		"direct evaluation per run: every admitted share is the sender's valid share for the block hash (and beacon), sets agree, no outsider; recovered signatures verify under the group key; " +
		">= k honest members delivered => block generated. non-trivial = distinct run with at least one Byzantine message and at least one admitted share")
	thorough := a.Tier == "thorough"
	// a model case costs ~0.7 s of vm_compute (arithmetic modulo the 254-bit curve order); the driver
	// evaluates all shards at once, so the thorough tier uses fewer, larger shards
	perShard := 12
	if thorough {
		perShard = 50
	}
	cs := hx.NewCases(a.Out, "From V.C15 Require Import Model Harness.", "case", "check", perShard)

	model.Param.SSSSThreshold = model.SSSS_THRESHOLD
	model.Param.GroupMemberMax = model.GROUP_MAX_MEMBERS
	model.Param.GroupMemberMin = 3
	// the real ConsensusHandler (net.MessageHandler.Handle) in front of recording processors: every
	// message of every run is also sent through it as network bytes
	common.Init(0, "c15.ini", "dev")
	plog := &logical.VerifR1Logger{}
	common.DefaultLogger = plog
	middleware.PerfLogger = &logical.VerifR1Logger{}
	notify.BUS = notify.NewBus() // round0.NextRound unsubscribes from it
	mstub := &miningStub{}
	cnet.MessageHandler.Init(groupCreateStub{}, mstub)
	handlerProbe := func(bs []byte, decodable bool, kind string, input func() interface{}) {
		before := len(mstub.verify)
		func() {
			defer func() {
				if p := recover(); p != nil {
					res.Violate("C15/handler:panic-escaped:"+kind, fmt.Sprint("ConsensusHandler.Handle let a panic escape: ", p), input())
				}
			}()
			cnet.MessageHandler.Handle("probe", network.Message{Code: network.VerifiedCastMsg, Body: bs})
		}()
		delivered := len(mstub.verify) > before
		logs := plog.Take()
		switch {
		case decodable && !delivered:
			res.Violate("C15/handler:valid-message-not-delivered:"+kind, "a well-formed verify message sent through ConsensusHandler.Handle did not reach OnMessageVerify", input())
		case !decodable && delivered:
			res.Violate("C15/handler:undecodable-message-delivered:"+kind, "a verify message the decoder cannot return reached OnMessageVerify", input())
		case !decodable:
			if has(logs, "error") {
				res.Histogram["handler:decoder-panic-recovered-message-dropped:"+kind]++
			} else {
				res.Histogram["handler:undecodable-message-dropped:"+kind]++
			}
		default:
			res.Histogram["handler:delivered"]++
		}
		if len(mstub.verify) > 64 {
			mstub.verify = mstub.verify[:0]
		}
	}

	// ---- the guard chain as written ----
	if codes, conds, err := guardChain(); err != nil {
		res.Violate("C15/guard-chain:unreadable", err.Error(), nil)
	} else {
		bind, dup := -1, -1
		var cl []string
		for i, c := range codes {
			cl = append(cl, fmt.Sprintf("%d%%N", c))
			if c == gHashBind && bind < 0 {
				bind = i
			}
			if c == gDup && dup < 0 {
				dup = i
			}
		}
		if bind < 0 || dup < 0 || bind > dup {
			res.Violate("C15/guard-chain:no-hash-binding", "round1.Update has no guard comparing the share's data hash with bh.Hash before the share is added", conds)
		}
		cs.Add("CGuards "+hx.CoqList(cl), map[string]interface{}{"kind": "guard-chain", "conditions": conds})
		res.Count("guard-chain", "guards", true)
		res.Note("guard chain of round1.Update: " + strings.Join(conds, " | "))
	}

	// ---- the future-message store of the real Processor under a flood of verify messages ----
	{
		fr := rng.Fork()
		vp := logical.VerifR1NewProcessor(&logical.VerifR1Logger{})
		h := hashOf(fr.Bytes(32))
		for i := 0; i < 3; i++ {
			vp.OnMessageVerify(&model.ConsensusVerifyMessage{BlockHash: h, Id: fmt.Sprintf("kept-%d", i)})
		}
		kept := vp.Stored(h)
		flood := 0
		for ; flood < 200 && vp.Stored(h) > 0; flood++ {
			vp.OnMessageVerify(&model.ConsensusVerifyMessage{BlockHash: hashOf(fr.Bytes(32)), Id: fmt.Sprintf("junk-%d", flood)})
		}
		res.Count("future-store-flood", "flood", true)
		if kept != 3 {
			res.Violate("C15/processor:store-count", fmt.Sprintf("3 verify messages sent for a block without party, %d kept", kept), nil)
		}
		if vp.Stored(h) == 0 {
			res.Violate("C15/future-store:evicted-by-flood", fmt.Sprintf("3 verify messages kept for block %s (no party yet) were dropped from the future-message cache after %d verify messages naming other block hashes (nothing about those messages is checked before they are stored)", h.Hex(), flood),
				map[string]interface{}{"block_hash": h.Hex(), "kept": kept, "junk_messages_until_evicted": flood})
		}
		res.Note(fmt.Sprintf("future-message cache: entry of a block evicted after %d verify messages naming other hashes", flood))
	}

	nRuns := a.N
	pairChecks := 0
	sampled := 0
	t0 := time.Now()
	for run := 0; run < nRuns; run++ {
		r := rng.Fork()
		n := 3 + r.Intn(8)
		if !thorough && r.Intn(3) > 0 {
			n = 3 + r.Intn(4)
		}
		k := model.Param.GetGroupK(n)
		consistent := r.Intn(8) != 0
		// the first six runs: floods of verify messages under the block's hash before the cast message
		floodSize := -1
		if run < 6 {
			floodSize = []int{1, 10, 63, 64, 65, 200}[run]
			consistent = true
		}
		g := mkGroup(r, n, k, consistent, nil)
		existed := r.Intn(25) == 0 && floodSize < 0

		// block and beacon
		bhHash := hashOf(r.Bytes(32))
		preRandom := r.Bytes(64)
		b := &basis{}
		iBH := b.addMsg(r, bhHash.Bytes())
		var others []int
		var otherHash []common.Hash
		for i := 0; i < 2; i++ {
			h := hashOf(r.Bytes(32))
			otherHash = append(otherHash, h)
		}
		prIdx := -1
		if r.Intn(10) == 0 {
			// a 32-byte beacon value that is also a possible data hash
			preRandom = otherHash[0].Bytes()
		}
		iPR := b.addMsg(r, preRandom)
		for i, h := range otherHash {
			if i == 0 && bytes.Equal(preRandom, h.Bytes()) {
				others = append(others, iPR)
				continue
			}
			others = append(others, b.addMsg(r, h.Bytes()))
		}
		prIdx = iPR
		_ = iBH

		gid := *groupsig.NewIDFromPubkey(g.gpk)
		ids := make([]groupsig.ID, n)
		for i := range ids {
			ids[i] = mkID(g.ids[i])
		}
		// the node's record of the group: sign public keys of the members it has heard from.  In a third of
		// the runs the record is filled the way the node fills it: SignPubKeyMessages (built as
		// handleSharePieceMessage builds them: signed with the in-group sign key) handled by
		// group_create.OnMessageSignPK; the first key received for an id stays.  Part of those runs
		// register a key the way a faulty sender can: for an id outside the group, or for a member's id
		// before that member's own message arrives.
		known := make([]bool, n)
		jg := model.NewJoindGroupInfo(mkSec(g.keys[0]), g.gpk, hashOf(r.Bytes(32)))
		twoGroups := floodSize < 0 && r.Intn(4) == 0
		var gA *group
		var jgA *model.JoinedGroupInfo
		crossM := 1 + r.Intn(n-1) // the member whose key the node lacks in group A
		if twoGroups {
			gA = mkGroup(r, n, k, true, g.ids)
			jgA = model.NewJoindGroupInfo(mkSec(gA.keys[0]), gA.gpk, hashOf(r.Bytes(32)))
			for j := 0; j < n; j++ {
				if j != crossM {
					jgA.AddMemberSignPK(mkID(g.ids[j]), *groupsig.GeneratePubkey(mkSec(gA.keys[j])))
				}
			}
		}
		storage := access.VerifR1NewJoinedGroupStorage(jg)
		if twoGroups {
			storage = access.VerifR1NewJoinedGroupStorage(jg, jgA)
		}
		netStub := &logical.VerifR1Net{}
		self := model.SelfMinerInfo{}
		self.ID = ids[0]
		self.SecKey = mkSec(randScalar(r))
		gc.VerifR1Install(storage, self, netStub)
		gc.VerifR1ForgetKeyRequests()
		outsiderID := distinctIDs(r, 1)[0]
		outsiderKey := randScalar(r)
		squatKey := randScalar(r)
		unknownMember := -1
		if r.Intn(5) == 0 {
			unknownMember = 1 + r.Intn(n-1)
		}
		viaMsg := r.Intn(3) == 0
		atk, squatted := "", -1
		if viaMsg {
			switch r.Intn(4) {
			case 0:
				atk = "non-member"
			case 1, 2:
				// a key under a real member's id: before the member's own announcement (it stays), or
				// after it (it must be ignored: the first key received for an id stays)
				atk = "squatted-id"
				if r.Bool() {
					atk = "overwrite"
				}
				squatted = 1 + r.Intn(n-1)
				if squatted == unknownMember {
					unknownMember = -1
				}
			}
		}
		register := func(id, sk *big.Int) {
			pk := *groupsig.GeneratePubkey(mkSec(sk))
			if !viaMsg {
				jg.AddMemberSignPK(mkID(id), pk)
				return
			}
			m := &model.SignPubKeyMessage{GroupID: gid, SignPK: pk, GroupHash: jg.GroupHash, GroupMemberNum: int32(n)}
			si, _ := model.NewSignInfo(mkSec(sk), mkID(id), m)
			m.SignInfo = si
			gc.GroupCreateProcessor.OnMessageSignPK(m)
		}
		if atk == "squatted-id" {
			register(g.ids[squatted], squatKey)
		}
		for j := 0; j < n; j++ {
			if j != unknownMember {
				register(g.ids[j], g.keys[j])
			}
		}
		if atk == "non-member" {
			register(outsiderID, outsiderKey)
		}
		if atk == "overwrite" {
			register(g.ids[squatted], squatKey)
		}
		// read the table back from the node's record
		type regEntry struct{ id, sk *big.Int }
		var table []regEntry
		{
			cands := []regEntry{{outsiderID, outsiderKey}}
			for j := 0; j < n; j++ {
				cands = append(cands, regEntry{g.ids[j], g.keys[j]})
			}
			if squatted >= 0 {
				cands = append(cands, regEntry{g.ids[squatted], squatKey})
			}
			pks := jg.GetMemberPKs()
			found := 0
			for _, c := range cands {
				if pk, ok := pks[mkID(c.id).GetHexString()]; ok && pk.IsEqual(*groupsig.GeneratePubkey(mkSec(c.sk))) {
					table = append(table, c)
					found++
				}
			}
			if found != len(pks) {
				res.Violate("C15/harness:member-table", fmt.Sprintf("%d keys in the node's record, %d attributed", len(pks), found), nil)
			}
			for j := 0; j < n; j++ {
				pk, ok := pks[ids[j].GetHexString()]
				known[j] = ok && pk.IsEqual(*groupsig.GeneratePubkey(mkSec(g.keys[j])))
			}
		}
		// keys of violations that are consequences of a key registered by a faulty sender
		vkey := func(k string) string {
			if atk != "" {
				return "C15/registered-key:" + atk + ":" + strings.TrimPrefix(k, "C15/")
			}
			return k
		}

		gInfo := model.NewGroupInfo(gid, g.gpk, &model.GroupInitInfo{GroupHeader: &types.GroupHeader{}, GroupMembers: ids})
		bh := &types.BlockHeader{Hash: bhHash, Height: 10, GroupId: gid.Serialize()}
		preBH := &types.BlockHeader{Hash: hashOf(r.Bytes(32)), Height: 9, Random: preRandom}

		// ---- messages ----
		honestShare := func(j int) point {
			return valPoint(groupsig.Sign(mkSec(g.keys[j]), bhHash.Bytes()), single(iBH, g.keys[j]))
		}
		honestRand := func(j int) point {
			return valPoint(groupsig.Sign(mkSec(g.keys[j]), preRandom), single(prIdx, g.keys[j]))
		}
		mk := func(kind string, j int) vmsg {
			m := vmsg{kind: kind, sender: g.ids[j], member: j, dh: iBH, dhash: bhHash, filed: bhHash, sig: honestShare(j), rsig: honestRand(j)}
			return m
		}
		// a third of the runs: an earlier block X (hash otherHash[0], previous beacon otherHash[1]) of the
		// same group is signed in this process first, so every member's share for X has been verified
		xPhase := floodSize < 0 && r.Intn(3) == 0
		byz := func(j int) vmsg {
			m := mk("", j)
			o := r.Intn(len(others))
			switch r.Intn(21) {
			case 0, 1, 2: // signs another hash and says so; filed under the block hash
				m.kind = "other-hash-claimed"
				m.dh, m.dhash = others[o], otherHash[o]
				if r.Intn(3) == 0 { // ... and the whole message is filed under that hash (cvm.BlockHash)
					m.kind = "other-hash-claimed-and-filed"
					m.filed = otherHash[o]
				}
				m.sig = valPoint(groupsig.Sign(mkSec(g.keys[j]), otherHash[o].Bytes()), single(others[o], g.keys[j]))
			case 3: // signs another hash but claims the block hash
				if xPhase {
					// ... the exact share this member sent, and the node verified, for the earlier block X
					o = 0
				}
				m.kind = map[bool]string{false: "other-hash-hidden", true: "cross-block-replay-share"}[xPhase]
				m.sig = valPoint(groupsig.Sign(mkSec(g.keys[j]), otherHash[o].Bytes()), single(others[o], g.keys[j]))
			case 4: // claims another hash, signature is over the block hash
				m.kind = "claim-other-sign-block"
				m.dh, m.dhash = others[o], otherHash[o]
			case 5: // replays another member's share
				i := (j + 1 + r.Intn(n-1)) % n
				m.kind = "replay-share"
				m.sig = honestShare(i)
			case 6: // replays another member's beacon share
				i := (j + 1 + r.Intn(n-1)) % n
				m.kind = "replay-rand"
				m.rsig = honestRand(i)
			case 7: // c * sigma
				c := big.NewInt(int64(2 + r.Intn(5)))
				v := single(iBH, new(big.Int).Mul(c, g.keys[j]))
				m.kind = "scaled-share"
				m.sig = valPoint(sigOf(b.pointOf(v)), v)
			case 8: // sigma + sigma'
				i := (j + 1 + r.Intn(n-1)) % n
				v := single(iBH, new(big.Int).Add(g.keys[j], g.keys[i]))
				m.kind = "sum-share"
				m.sig = valPoint(sigOf(b.pointOf(v)), v)
			case 9: // unrelated point as share
				u := b.addUnrelated(r)
				m.kind = "unrelated-share"
				m.sig = valPoint(sigOf(b.pts[u]), single(u, big.NewInt(1)))
			case 10: // unrelated point as beacon share
				u := b.addUnrelated(r)
				m.kind = "unrelated-rand"
				m.rsig = valPoint(sigOf(b.pts[u]), single(u, big.NewInt(1)))
			case 11:
				m.kind = "nil-share"
				m.sig = nilPoint()
			case 12:
				m.kind = "nil-rand"
				m.rsig = nilPoint()
			case 13:
				if r.Bool() {
					m.kind = "offcurve-share"
					m.sig = offPoint()
				} else {
					m.kind = "offcurve-rand"
					m.rsig = offPoint()
				}
			case 14: // identity point
				v := vec{}
				if r.Bool() {
					m.kind = "identity-share"
					m.sig = valPoint(sigOf(b.pointOf(v)), v)
				} else {
					m.kind = "identity-rand"
					m.rsig = valPoint(sigOf(b.pointOf(v)), v)
				}
			case 15: // beacon share over the block hash / share and beacon share swapped
				m.kind = "swapped"
				m.sig, m.rsig = m.rsig, m.sig
			case 16: // beacon share over another message
				if xPhase && len(others) > 1 {
					// ... the exact beacon share of the earlier block X (verified then)
					o = 1
				}
				m.kind = map[bool]string{false: "rand-other-msg", true: "cross-block-replay-rand"}[xPhase && len(others) > 1]
				m.rsig = valPoint(groupsig.Sign(mkSec(g.keys[j]), otherHash[o].Bytes()), single(others[o], g.keys[j]))
			case 17: // not a member, own key, otherwise well formed
				m.kind = "outsider"
				m.member = -1
				m.sender = outsiderID
				m.sig = valPoint(groupsig.Sign(mkSec(outsiderKey), bhHash.Bytes()), single(iBH, outsiderKey))
				m.rsig = valPoint(groupsig.Sign(mkSec(outsiderKey), preRandom), single(prIdx, outsiderKey))
			case 19, 20: // signer id longer than the 32 bytes ID.Serialize accepts (it panics): 33 or 64 bytes
				nb := 33
				if r.Bool() {
					nb = 64
				}
				idb := r.Bytes(nb)
				idb[0] |= 0x80
				m.kind = fmt.Sprintf("long-id-%d", nb)
				m.member = -1
				m.sender = new(big.Int).SetBytes(idb)
				m.sig = valPoint(groupsig.Sign(mkSec(outsiderKey), bhHash.Bytes()), single(iBH, outsiderKey))
				m.rsig = valPoint(groupsig.Sign(mkSec(outsiderKey), preRandom), single(prIdx, outsiderKey))
			case 18: // valid share, message filed under another block hash (cvm.BlockHash is not read by the round)
				m.kind = "honest-misfiled"
				m.filed = otherHash[o]
				m.honest = true
			}
			return m
		}
		var msgs []vmsg
		nHonest := r.Intn(n + 1)
		if r.Intn(3) == 0 {
			nHonest = k + r.Intn(n-k+1)
		}
		for _, j := range perm(r, n)[:nHonest] {
			m := mk("honest", j)
			m.honest = true
			msgs = append(msgs, m)
		}
		nByz := 1 + r.Intn(n+3)
		if r.Intn(6) == 0 {
			nByz = 0
		}
		for i := 0; i < nByz; i++ {
			msgs = append(msgs, byz(r.Intn(n)))
		}
		if xPhase {
			for i, nx := 0, 1+r.Intn(3); i < nx; i++ {
				j := r.Intn(n)
				m := mk("cross-block-replay-share", j)
				m.sig = valPoint(groupsig.Sign(mkSec(g.keys[j]), otherHash[0].Bytes()), single(others[0], g.keys[j]))
				msgs = append(msgs, m)
			}
		}
		if atk == "non-member" {
			m := mk("outsider", 0)
			m.member, m.sender = -1, outsiderID
			m.sig = valPoint(groupsig.Sign(mkSec(outsiderKey), bhHash.Bytes()), single(iBH, outsiderKey))
			m.rsig = valPoint(groupsig.Sign(mkSec(outsiderKey), preRandom), single(prIdx, outsiderKey))
			msgs = append(msgs, m)
		}
		if atk == "squatted-id" || atk == "overwrite" {
			m := mk("squatter", squatted)
			m.sig = valPoint(groupsig.Sign(mkSec(squatKey), bhHash.Bytes()), single(iBH, squatKey))
			m.rsig = valPoint(groupsig.Sign(mkSec(squatKey), preRandom), single(prIdx, squatKey))
			msgs = append(msgs, m)
			h := mk("honest", squatted)
			h.honest = true
			msgs = append(msgs, h)
		}
		// duplicates of what is already in the list
		for i, nd := 0, r.Intn(3); i < nd && len(msgs) > 0; i++ {
			d := msgs[r.Intn(len(msgs))]
			d.kind = "dup:" + d.kind
			msgs = append(msgs, d)
		}
		// arrival order; sometimes the Byzantine messages come first
		order2 := perm(r, len(msgs))
		arr := make([]vmsg, len(msgs))
		for i, x := range order2 {
			arr[i] = msgs[x]
		}
		if r.Intn(4) == 0 {
			sort.SliceStable(arr, func(i, j int) bool { return !arr[i].honest && arr[j].honest })
		}
		msgs = arr
		if floodSize >= 0 {
			// floodSize junk messages naming this block's hash, then the valid pieces of k members, all
			// before the cast message
			msgs = nil
			for i := 0; i < floodSize; i++ {
				m := mk("flood-junk", 0)
				m.member, m.sender = -1, distinctIDs(r, 1)[0]
				m.sig = valPoint(groupsig.Sign(mkSec(outsiderKey), bhHash.Bytes()), single(iBH, outsiderKey))
				m.rsig = valPoint(groupsig.Sign(mkSec(outsiderKey), preRandom), single(prIdx, outsiderKey))
				msgs = append(msgs, m)
			}
			cnt := 0
			for _, j := range perm(r, n) {
				if known[j] && cnt < k {
					m := mk("honest", j)
					m.honest = true
					msgs = append(msgs, m)
					cnt++
				}
			}
		}

		// ---- run on the implementation ----
		// some runs: the first messages arrived while round0 was still busy and are replayed by round1.Start
		nFut := 0
		if floodSize < 0 && r.Intn(4) == 0 && len(msgs) > 0 {
			nFut = 1 + r.Intn(len(msgs))
			if nFut > k+2 {
				nFut = k + 2
			}
		}
		procMode, nPre := false, 0
		desc := func() interface{} {
			var ml []interface{}
			for _, m := range msgs {
				ml = append(ml, map[string]interface{}{"kind": m.kind, "sender": m.sender.String(), "member": m.member, "data_hash": m.dhash.Hex(),
					"filed": m.filed.Hex(), "sig": hex.EncodeToString(m.sig.sig.Serialize()), "rsig": hex.EncodeToString(m.rsig.sig.Serialize())})
			}
			var ks, is []string
			for j := range g.ids {
				is = append(is, g.ids[j].String())
				ks = append(ks, g.keys[j].String())
			}
			return map[string]interface{}{"n": n, "k": k, "ids": is, "member_keys": ks, "group_secret": g.gsk.String(), "unknown_member": unknownMember,
				"block_hash": bhHash.Hex(), "pre_random": hex.EncodeToString(preRandom), "block_exists": existed, "consistent_keys": consistent,
				"replayed_at_start": nFut, "through_processor": procMode, "flood_under_block_hash": floodSize, "two_groups": twoGroups, "earlier_block_signed_first": xPhase, "arrived_before_cast": nPre, "keys_registered_by_message": viaMsg, "faulty_registration": atk,
				"outsider_id": outsiderID.String(), "squatted_member": squatted, "messages": ml}
		}
		// every message travels as the node sends it: protobuf bytes decoded by
		// net.UnMarshalConsensusVerifyMessage, so the message id is the decoder's.  (The decoder cannot
		// return a message whose share signature does not parse - it dereferences nil; such messages
		// are built in process with the id formula of the decoder.)
		encode := func(m vmsg) []byte {
			ver := int32(common.ConsensusVersion)
			pbm := &middleware_pb.ConsensusVerifyMessage{BlockHash: m.filed.Bytes(), RandomSign: m.rsig.sig.Serialize(),
				Sign: &middleware_pb.SignData{DataHash: m.dhash.Bytes(), DataSign: m.sig.sig.Serialize(), SignMember: idBytes(m.sender), Version: &ver}}
			bs, err := proto.Marshal(pbm)
			if err != nil {
				panic(err)
			}
			return bs
		}
		decode := func(bs []byte) (cvm *model.ConsensusVerifyMessage) {
			defer func() {
				if p := recover(); p != nil {
					cvm = nil
				}
			}()
			c, err := cnet.UnMarshalConsensusVerifyMessage(bs)
			if err != nil {
				return nil
			}
			return c
		}
		// model-side message ids: one number per distinct byte string
		byteID := map[string]int{}
		midOf := func(m vmsg) int {
			k := string(encode(m))
			if _, ok := byteID[k]; !ok {
				byteID[k] = len(byteID)
			}
			return byteID[k]
		}
		idIndex := map[string]int{}
		idAll := map[string][]int{} // byte-identical messages share an id
		mkCvm := func(i int) *model.ConsensusVerifyMessage {
			m := msgs[i]
			bs := encode(m)
			cvm := decode(bs)
			handlerProbe(bs, cvm != nil, strings.TrimPrefix(m.kind, "dup:"), desc)
			if cvm == nil {
				res.Histogram["decoder-cannot-return-message:"+strings.TrimPrefix(m.kind, "dup:")]++
				h := sha256.Sum256(bs)
				cvm = &model.ConsensusVerifyMessage{BlockHash: m.filed, RandomSign: m.rsig.sig, Id: common.ToHex(h[:]),
					SignInfo: model.MakeSignInfo(m.dhash, m.sig.sig, mkID(m.sender), common.ConsensusVersion)}
			}
			if _, dup := idIndex[cvm.Id]; !dup {
				idIndex[cvm.Id] = i
			}
			idAll[cvm.Id] = append(idAll[cvm.Id], i)
			return cvm
		}
		// a quarter of the runs without stored messages go through the Processor: verify messages
		// arriving before the cast message are kept by Processor.OnMessageVerify under their block
		// hash, the party appears (cast message accepted), the node re-keys it and drains the kept
		// messages, later messages are routed to it, the ended party is retired
		procMode = nFut == 0 && (r.Intn(4) == 0 || floodSize >= 0)
		var vp *logical.VerifR1Proc
		procLog := &logical.VerifR1Logger{}
		if procMode {
			vp = logical.VerifR1NewProcessor(procLog)
			nPre = r.Intn(len(msgs) + 1)
			if floodSize >= 0 {
				nPre = len(msgs)
			}
		}
		if xPhase {
			bhX := &types.BlockHeader{Hash: otherHash[0], Height: 9, GroupId: gid.Serialize()}
			preX := &types.BlockHeader{Hash: hashOf(r.Bytes(32)), Height: 8, Random: otherHash[1].Bytes()}
			vX, _ := logical.VerifR1New(logical.VerifR1Config{Self: ids[0], Group: gInfo, PreBH: preX, BH: bhX, Net: netStub})
			nk := 0
			if vX != nil {
				for j := 0; j < n; j++ {
					if !known[j] {
						continue
					}
					nk++
					vX.Update(&model.ConsensusVerifyMessage{BlockHash: otherHash[0], RandomSign: groupsig.Sign(mkSec(g.keys[j]), otherHash[1].Bytes()), Id: fmt.Sprintf("X-%d-%d", run, j),
						SignInfo: model.MakeSignInfo(otherHash[0], groupsig.Sign(mkSec(g.keys[j]), otherHash[0].Bytes()), ids[j], common.ConsensusVersion)})
				}
				if consistent && atk == "" && nk >= k && len(vX.Generated()) != 1 {
					res.Violate("C15/cross-block:earlier-block-not-finalised", "the earlier block of the same group, fed every member's valid share, was not generated", desc())
				}
				res.Histogram["cross-block:earlier-block-signed"]++
			}
			plog.Take()
		}
		// two-group runs: a party for a block of group A (same members, the node lacks member crossM's
		// key there) receives messages while this group's round is collecting
		interfere := func() {}
		if twoGroups {
			gidA := *groupsig.NewIDFromPubkey(gA.gpk)
			gInfoA := model.NewGroupInfo(gidA, gA.gpk, &model.GroupInitInfo{GroupHeader: &types.GroupHeader{}, GroupMembers: ids})
			bhA := &types.BlockHeader{Hash: hashOf(r.Bytes(32)), Height: 10, GroupId: gidA.Serialize()}
			preA := &types.BlockHeader{Hash: hashOf(r.Bytes(32)), Height: 9, Random: r.Bytes(64)}
			vA, _ := logical.VerifR1New(logical.VerifR1Config{Self: ids[0], Group: gInfoA, PreBH: preA, BH: bhA, Net: netStub})
			na := 0
			interfere = func() {
				if vA == nil {
					return
				}
				// forged in a member's name (first: the member whose key is missing in A), an outsider, garbage
				who := g.ids[crossM]
				switch {
				case na > 0 && r.Intn(3) == 0:
					who = g.ids[r.Intn(n)]
				case na > 0 && r.Intn(3) == 0:
					who = outsiderID
				}
				na++
				cvm := &model.ConsensusVerifyMessage{BlockHash: bhA.Hash, RandomSign: groupsig.Sign(mkSec(outsiderKey), preA.Random), Id: fmt.Sprintf("A-%d-%d", run, na),
					SignInfo: model.MakeSignInfo(bhA.Hash, groupsig.Sign(mkSec(outsiderKey), bhA.Hash.Bytes()), mkID(who), common.ConsensusVersion)}
				vA.Update(cvm)
				vA.Log.Take()
				plog.Take()
				res.Histogram["cross-group:message-about-other-group"]++
			}
			interfere()
		}
		// runs with nFut > 0: the party is still in round0 (checkBlock has announced the block hash but
		// not finished) when the first nFut messages are handed to it: they are stored by id; then
		// checkBlock finishes and the next Update moves the party into round1, whose Start replays them
		var v *logical.VerifR1
		var err0 interface{}
		cfg := logical.VerifR1Config{Self: ids[0], Group: gInfo, PreBH: preBH, BH: bh, BlockExists: existed, Net: netStub}
		storedFlag := make([]bool, nFut)
		var startStep logical.VerifR1Step
		hookStart := nFut > 0 && r.Bool()
		if hookStart {
			// the hook puts the messages into the party's future-message map itself (one per id) and
			// calls round1.Start: keeps the round observable when the replay already finalises the block
			seenBytes := map[string]bool{}
			for i := 0; i < nFut; i++ {
				key := string(encode(msgs[i]))
				storedFlag[i] = !seenBytes[key]
				if storedFlag[i] {
					cfg.Future = append(cfg.Future, mkCvm(i))
				} else {
					mkCvm(i)
				}
				seenBytes[key] = true
			}
			plog.Take()
			var vv *logical.VerifR1
			var e0 *logical.Error
			var startPanic interface{}
			func() {
				defer func() { startPanic = recover() }()
				vv, e0 = logical.VerifR1New(cfg)
			}()
			if startPanic != nil {
				res.Violate("C15/stored-replay:panic-abandons-stored-messages", fmt.Sprint("round1.Start let the panic of a replayed stored message escape, abandoning the other stored messages: ", startPanic), desc())
				continue
			}
			if vv == nil {
				res.Violate("C15/harness:round-start", fmt.Sprint("round1.Start failed: ", e0), nil)
				continue
			}
			v = vv
			startStep.Logs = append(v.Log.Take(), plog.Take()...)
			if e0 != nil {
				startStep.Err = e0.Error()
			} else {
				t := v.Tick()
				startStep.Logs = append(startStep.Logs, t.Logs...)
				startStep.Err, startStep.Done = t.Err, t.Done
			}
		} else if nFut > 0 {
			v = logical.VerifR1NewWaiting(cfg)
			seenBytes := map[string]bool{}
			for i := 0; i < nFut; i++ {
				st := v.Update(mkCvm(i))
				storedFlag[i] = has(st.Logs, "store future message")
				key := string(encode(msgs[i]))
				if !storedFlag[i] && !seenBytes[key] {
					res.Violate("C15/message-id:message-refused-unread:"+strings.TrimPrefix(msgs[i].kind, "dup:"), fmt.Sprintf("message %d (%s), handed to the party while round0 was still checking, was refused on its message id although no identical message had been delivered", i, msgs[i].kind), desc())
				}
				if storedFlag[i] == seenBytes[key] {
					res.Histogram["stored-phase:flag-differs-from-byte-identity"]++
				}
				seenBytes[key] = true
			}
			plog.Take()
			v.R0Ready()
			startStep = v.Tick()
			startStep.Logs = append(startStep.Logs, plog.Take()...)
			if !v.Bind() {
				// the replay reached the threshold and the party ran through round2 in the same Update:
				// the hook cannot look at the round any more (the hook-started mode covers this case)
				if len(v.Generated()) == 1 {
					res.Count("run:finished-during-replay(round not observable)", fmt.Sprint("r", run, a.Seed), false)
				} else {
					res.Violate("C15/harness:round-start", "the party did not advance into round1", desc())
				}
				continue
			}
		} else {
			var vv *logical.VerifR1
			var e0 *logical.Error
			var startPanic interface{}
			func() {
				defer func() { startPanic = recover() }()
				vv, e0 = logical.VerifR1New(cfg)
			}()
			if startPanic != nil {
				res.Violate("C15/stored-replay:panic-abandons-stored-messages", fmt.Sprint("round1.Start let the panic of a replayed stored message escape, abandoning the other stored messages: ", startPanic), desc())
				continue
			}
			if vv == nil {
				res.Violate("C15/harness:round-start", fmt.Sprint("round1.Start failed: ", e0), nil)
				continue
			}
			v = vv
		}
		_ = err0
		thr := v.Threshold()
		obs := make([][2]int, len(msgs))
		closed, finished := false, false
		finalTerm := tNone
		var admitted []int // positions in msgs
		// the replay: split the round's log at the "round1 update" lines, which name the message id
		var futOrder []int
		var futObs []int
		futTerm := tNone
		var panicked []string // kinds of the messages that made the handler panic
		if nFut > 0 {
			lines := startStep.Logs
			var seg []logical.VerifR1LogLine
			cur := -1
			flush := func() {
				if cur >= 0 {
					oc, _ := classify(logical.VerifR1Step{Logs: seg})
					if has(seg, "round1 replay: message dropped") {
						oc = oPanic
						panicked = append(panicked, strings.TrimPrefix(msgs[cur].kind, "dup:"))
					}
					futOrder = append(futOrder, cur)
					futObs = append(futObs, oc)
					if oc == oAdded || oc == oRecovered {
						admitted = append(admitted, cur)
					}
					res.Histogram["msg(replayed):"+strings.TrimPrefix(msgs[cur].kind, "dup:")+"->"+oNames[oc]]++
				}
				seg = nil
			}
			attribute := func(text, marker string) int {
				if p := strings.LastIndex(text, marker); p >= 0 {
					idt := strings.TrimSpace(text[p+len(marker):])
					if q := strings.Index(idt, ","); q >= 0 {
						idt = idt[:q]
					}
					if ii, ok := idIndex[idt]; ok && ii < nFut {
						return ii
					}
				}
				return -1
			}
			for _, l := range lines {
				switch {
				case strings.HasPrefix(l.Format, "round1 update, from:"):
					flush()
					cur = attribute(l.Text, "id: ")
					if cur < 0 {
						res.Violate("C15/harness:replay-log", "cannot attribute a replayed message: "+l.Text, desc())
					}
				case strings.HasPrefix(l.Format, "round1 replay: message dropped"):
					// the message panicked before its first log line
					flush()
					cur = attribute(l.Text, "id: ")
				case strings.HasPrefix(l.Format, "round2 start"):
					flush()
					cur = -1
				}
				seg = append(seg, l)
			}
			flush()
			_, futTerm = classify(startStep)
			nStored := 0
			for _, f := range storedFlag {
				if f {
					nStored++
				}
			}
			if has(startStep.Logs, "recover error") {
				// a stored message made Update panic inside round1.Start and nothing caught it there
				futTerm2 := futTerm
				_ = futTerm2
				res.Violate("C15/stored-replay:panic-abandons-stored-messages", fmt.Sprintf("%d verify messages were stored while round0 was checking; one of them made round1.Update panic during the replay in round1.Start: only %d were replayed, the others are neither replayed nor accepted again (their ids stay refused)", nStored, len(futOrder)), desc())
			} else if futTerm != tErrExisted && len(futOrder) != nStored {
				res.Violate("C15/message-id:stored-messages-collapsed", fmt.Sprintf("%d verify messages were stored before the round started but %d were replayed", nStored, len(futOrder)), desc())
			}
			if futTerm == tDone {
				finished = true
			} else if futTerm != tNone {
				closed = true
			}
			finalTerm = futTerm
		} else {
			v.Log.Take()
		}
		plog.Take()
		order := []int{} // indices of msgs in the order the party saw them (after the replayed ones)
		skipped := map[int]bool{}
		waitEnd := func() int { // proc mode: the party ended; how?
			for t := 0; t < 400 && !(vp.Finished(bhHash) && !vp.HasParty(bhHash)); t++ {
				time.Sleep(5 * time.Millisecond)
			}
			if !vp.Finished(bhHash) {
				res.Violate("C15/processor:ended-party-not-retired", "the party ended but the processor did not retire it", desc())
			}
			if len(v.Generated()) == 1 {
				return tDone
			}
			for _, l := range procLog.Take() {
				switch {
				case strings.Contains(l.Text, "fail to verify group sign"):
					return tErrG
				case strings.Contains(l.Text, "fail to verify random sign"):
					return tErrR
				case strings.Contains(l.Text, "block already existed"):
					return tErrExisted
				}
			}
			return tErrOther
		}
		procLive := true // false while parsing the log of the concurrent hand-over afterwards
		procStep := func(logs []logical.VerifR1LogLine) (int, int) {
			oc, _ := classify(logical.VerifR1Step{Logs: logs})
			if oc == oOther && !has(logs, "round1 update") {
				oc = oPanic // the handler's first log line did not come out
			}
			term := tNone
			if oc == oExisted || has(logs, "round2 start") {
				term = waitEnd()
			}
			if oc == oPanic && procLive {
				// a recovered panic must leave the party alone: give waitUntilDone a moment to show otherwise
				for t := 0; t < 12 && !vp.Finished(bhHash); t++ {
					time.Sleep(5 * time.Millisecond)
				}
				if vp.Finished(bhHash) {
					term = waitEnd()
				}
			}
			return oc, term
		}
		var drained []int
		if procMode {
			stored := 0
			for i := 0; i < nPre; i++ {
				vp.OnMessageVerify(mkCvm(i))
				if msgs[i].filed == bhHash {
					stored++
				} else {
					skipped[i] = true
				}
			}
			if vp.Stored(bhHash) < stored {
				res.Violate("C15/future-store:per-hash-dropped", fmt.Sprintf("%d verify messages naming the block's hash arrived before the cast message, only %d are kept: the later ones (among them valid pieces) are discarded unread", stored, vp.Stored(bhHash)), desc())
			} else if vp.Stored(bhHash) != stored {
				res.Violate("C15/processor:store-count", fmt.Sprintf("%d verify messages for the block arrived before the cast message, %d are kept", stored, vp.Stored(bhHash)), desc())
			}
			v.Log.Take()
			vp.Adopt(v, fmt.Sprintf("provisional-%d", run))
			// wait for the re-keying and for the kept messages to be handed to the party
			var lines []logical.VerifR1LogLine
			count := func() int {
				c := 0
				for _, l := range lines {
					if l.Format == "update %s" {
						c++
					}
				}
				return c
			}
			for t := 0; t < 600 && (!(vp.HasParty(bhHash) || vp.Finished(bhHash)) || count() < stored); t++ {
				time.Sleep(2 * time.Millisecond)
				lines = append(lines, v.Log.Take()...)
				if vp.Finished(bhHash) && !vp.HasParty(bhHash) {
					time.Sleep(20 * time.Millisecond)
					lines = append(lines, v.Log.Take()...)
					break
				}
			}
			// every kept message has entered the party; wait until the log is quiet (the last Update is over)
			for quiet := 0; quiet < 8; {
				time.Sleep(5 * time.Millisecond)
				if l := v.Log.Take(); len(l) > 0 {
					lines = append(lines, l...)
					quiet = 0
				} else {
					quiet++
				}
			}
			// split at the party's "update <id>" lines
			procLive = false
			var seg []logical.VerifR1LogLine
			cur := -1
			usedD := map[int]bool{}
			flush := func() {
				if cur >= 0 {
					if closed {
						// a message handed to a party that had already ended
						obs[cur] = [2]int{oClosed, tNone}
						if finished {
							obs[cur] = [2]int{oFinished, tNone}
						}
					} else {
						oc, term := procStep(seg)
						obs[cur] = [2]int{oc, term}
						if oc == oPanic {
							panicked = append(panicked, strings.TrimPrefix(msgs[cur].kind, "dup:"))
							if term != tNone {
								res.Violate("C15/handler-panic-ends-party:"+strings.TrimPrefix(msgs[cur].kind, "dup:"), fmt.Sprintf("kept message %d (%s) made the handler panic; instead of being dropped it ended the party (%s)", cur, msgs[cur].kind, tNames[term]), desc())
							}
						}
						if oc == oAdded || oc == oRecovered {
							admitted = append(admitted, cur)
						}
						if term != tNone {
							finalTerm = term
							finished, closed = term == tDone, true
						}
						res.Histogram["msg(kept before cast):"+strings.TrimPrefix(msgs[cur].kind, "dup:")+"->"+oNames[oc]]++
					}
					drained = append(drained, cur)
				}
				seg = nil
			}
			for _, l := range lines {
				if l.Format == "update %s" {
					flush()
					cur = -1
					for _, ii := range idAll[strings.TrimPrefix(l.Text, "update ")] {
						if ii < nPre && !usedD[ii] {
							cur = ii
							usedD[ii] = true
							break
						}
					}
				}
				seg = append(seg, l)
			}
			flush()
			procLive = true
			if len(drained) != stored && !closed {
				res.Violate("C15/processor:kept-message-lost", fmt.Sprintf("%d verify messages were kept for the block, %d reached the party", stored, len(drained)), desc())
			}
			// kept messages that never reached an ended party: the model sees them after the end
			seenD := map[int]bool{}
			for _, x := range drained {
				seenD[x] = true
			}
			for i := 0; i < nPre; i++ {
				if !skipped[i] && !seenD[i] {
					drained = append(drained, i)
					obs[i] = [2]int{oClosed, tNone}
					if finished {
						obs[i] = [2]int{oFinished, tNone}
					}
				}
			}
			order = append(order, drained...)
		}
		for i, m := range msgs {
			if i < nFut || (procMode && i < nPre) {
				continue
			}
			if procMode && m.filed != bhHash {
				// routed by cvm.BlockHash: kept under another key, never shown to this party
				skipped[i] = true
				vp.OnMessageVerify(mkCvm(i))
				if l := v.Log.Take(); has(l, "round1 update") {
					res.Violate("C15/processor:misrouted", "a verify message filed under another block hash reached the party", desc())
				}
				continue
			}
			order = append(order, i)
			if twoGroups && r.Intn(3) == 0 {
				interfere()
			}
			if closed {
				obs[i] = [2]int{oClosed, tNone}
				if procMode {
					if finished {
						obs[i] = [2]int{oFinished, tNone}
					}
					vp.OnMessageVerify(mkCvm(i))
					if l := v.Log.Take(); has(l, "round1 update") {
						res.Violate("C15/processor:delivered-after-end", "a verify message reached the signing round after the party had ended", desc())
					}
				}
				continue
			}
			cvm := mkCvm(i)
			before := len(v.GIDs())
			var st logical.VerifR1Step
			procTerm := tNone
			if procMode {
				vp.OnMessageVerify(cvm)
				st.Logs = append(v.Log.Take(), plog.Take()...)
				_, procTerm = procStep(st.Logs)
			} else {
				st = v.Update(cvm)
			}
			if pl := plog.Take(); len(pl) > 0 {
				st.Logs = append(st.Logs, pl...)
			}
			oc, term := classify(st)
			if procMode {
				term = procTerm
			}
			obs[i] = [2]int{oc, term}
			if oc == oPanic {
				panicked = append(panicked, strings.TrimPrefix(m.kind, "dup:"))
				if term != tNone {
					res.Violate("C15/handler-panic-ends-party:"+strings.TrimPrefix(m.kind, "dup:"), fmt.Sprintf("message %d (%s) made the handler panic; instead of being dropped it ended the party (%s): later valid shares find no party", i, m.kind, tNames[term]), desc())
				}
			}
			if m.honest && m.member >= 0 && known[m.member] && oc == oNoKey {
				ck := "C15/valid-share-ignored:key-reads-missing"
				if twoGroups {
					ck = "C15/cross-group:valid-share-ignored"
				}
				res.Violate(ck, fmt.Sprintf("message %d: the valid share of member %d, whose sign key is registered for this group, was ignored as if no key were known (two-group run: %v)", i, m.member, twoGroups), desc())
			}
			if m.honest && m.member >= 0 && (oc == oBadSign || oc == oBadRand || oc == oHashMismatch) {
				res.Violate(vkey("C15/valid-share-rejected"), fmt.Sprintf("message %d: the valid share of member %d was rejected (%s)", i, m.member, oNames[oc]), desc())
			}
			if oc == oRejected {
				identical := false
				for j := 0; j < nFut; j++ {
					if storedFlag[j] && string(encode(msgs[j])) == string(encode(m)) {
						identical = true
					}
				}
				if !identical {
					res.Violate("C15/message-id:message-refused-unread:"+strings.TrimPrefix(m.kind, "dup:"), fmt.Sprintf("message %d (%s) was refused on its message id without being examined although no identical message had been stored or replayed", i, m.kind), desc())
				}
			}
			grew := len(v.GIDs()) > before
			if !grew && (oc == oAdded || oc == oRecovered) {
				res.Violate("C15/duplicate-admitted:"+strings.TrimPrefix(m.kind, "dup:"), fmt.Sprintf("message %d (%s) was accepted as a new share (%s) although its sender already had one in the recovery set", i, m.kind, oNames[oc]), desc())
			} else if grew != (oc == oAdded || oc == oRecovered) {
				res.Violate("C15/harness:log-vs-state", fmt.Sprintf("message %d (%s): outcome %s but share set grew=%v", i, m.kind, oNames[oc], grew), desc())
			}
			if grew {
				admitted = append(admitted, i)
			}
			if term != tNone {
				finalTerm = term
				if term == tDone {
					finished = true
					closed = procMode
				} else {
					closed = true
				}
			}
			res.Histogram["msg:"+strings.TrimPrefix(m.kind, "dup:")+"->"+oNames[oc]]++
		}
		if len(admitted) != len(v.GIDs()) {
			res.Violate("C15/harness:admitted-count", fmt.Sprintf("%d admissions observed, %d entries in the recovery set", len(admitted), len(v.GIDs())), desc())
		}
		if finished {
			v.WaitAdded(2 * time.Second)
		}

		// ---- direct evaluation of the property on the implementation ----
		gids, rids := v.GIDs(), v.RIDs()
		if strings.Join(gids, ",") != strings.Join(rids, ",") {
			res.Violate("C15/sets-differ", "block-signature and beacon share sets hold different senders", desc())
		}
		memberOf := map[string]int{}
		for j := range ids {
			memberOf[ids[j].GetHexString()] = j
		}
		for _, idHex := range gids {
			j, ok := memberOf[idHex]
			if !ok {
				res.Violate(vkey("C15/admitted-non-member"), "a share of a sender that is not a member of the group is in the recovery set: "+idHex, desc())
				continue
			}
			gs, _ := v.GShare(idHex)
			rs, _ := v.RShare(idHex)
			if !gs.IsEqual(groupsig.Sign(mkSec(g.keys[j]), bhHash.Bytes())) {
				cls := "other"
				for _, ai := range admitted {
					if msgs[ai].member == j {
						cls = strings.TrimPrefix(msgs[ai].kind, "dup:")
					}
				}
				res.Violate(vkey("C15/admitted-invalid-share:"+cls), fmt.Sprintf("the recovery set holds a share of member %d that is not its signature on the block hash", j), desc())
			} else if pairChecks < 400 || thorough {
				pairChecks++
				if !groupsig.VerifySig(*groupsig.GeneratePubkey(mkSec(g.keys[j])), bhHash.Bytes(), gs) {
					res.Violate("C15/admitted-share-verify", "admitted share equals Sign(member key, block hash) but VerifySig rejects it", desc())
				}
			}
			if !rs.IsEqual(groupsig.Sign(mkSec(g.keys[j]), preRandom)) {
				res.Violate(vkey("C15/admitted-invalid-beacon-share"), fmt.Sprintf("the beacon recovery set holds a share of member %d that is not its signature on the previous beacon value", j), desc())
			}
		}
		// expected recovered values from the admitted shares (first thr admitted = all admitted)
		recG, recR := v.GRecovered(), v.RRecovered()
		gsScalar, rsScalar := big.NewInt(0), big.NewInt(0)
		if recG != recR {
			res.Violate("C15/recovered-flags-differ", "only one of the two signatures was recovered", desc())
		}
		if recG && recR {
			var xs []*big.Int
			var gv, rv []vec
			for _, ai := range admitted {
				xs = append(xs, msgs[ai].sender)
				gv = append(gv, msgs[ai].sig.v)
				rv = append(rv, msgs[ai].rsig.v)
			}
			if len(xs) != thr {
				res.Violate("C15/harness:recovered-count", fmt.Sprintf("recovered with %d admitted shares, threshold %d", len(xs), thr), desc())
			}
			cg, cr := combine(xs, gv), combine(xs, rv)
			gsScalar, rsScalar = b.eval(cg), b.eval(cr)
			hs, hr := v.Header()
			if !bytes.Equal(hs, b.pointOf(cg).Marshal()) || !bytes.Equal(hr, b.pointOf(cr).Marshal()) {
				res.Violate("C15/recovered-value", "header signature/random differ from the Lagrange combination of the admitted shares", desc())
			}
			okG := groupsig.VerifySig(g.gpk, bhHash.Bytes(), *groupsig.DeserializeSign(hs))
			okR := groupsig.VerifySig(g.gpk, preRandom, *groupsig.DeserializeSign(hr))
			if consistent && (!okG || !okR) {
				res.Violate(vkey("C15/recovered-does-not-verify"), fmt.Sprintf("threshold reached but the recovered block signature (ok=%v) / beacon value (ok=%v) does not verify under the group public key", okG, okR), desc())
			}
			if (okG && okR) != (finalTerm == tDone) {
				res.Violate("C15/finalizer-disagrees", fmt.Sprintf("recovered signatures verify=%v/%v but the party ended with %s", okG, okR, tNames[finalTerm]), desc())
			}
		}
		gen := v.Generated()
		if (finalTerm == tDone) != (len(gen) == 1) {
			res.Violate("C15/harness:done-vs-generated", fmt.Sprintf("party end %s, GenerateBlock calls %d", tNames[finalTerm], len(gen)), desc())
		}
		// liveness: k distinct members with a registered key delivered an honest message
		hon := map[int]bool{}
		for i, m := range msgs {
			if m.honest && m.member >= 0 && known[m.member] && !skipped[i] {
				hon[m.member] = true
			}
		}
		if consistent && !existed && len(hon) >= k && len(gen) != 1 {
			cls := "none"
			for _, ai := range admitted {
				if !msgs[ai].honest {
					cls = strings.TrimPrefix(msgs[ai].kind, "dup:")
				}
			}
			if len(panicked) > 0 && finalTerm == tErrOther {
				cls = "handler-panic:" + panicked[0]
			}
			fk := vkey("C15/finalisation-blocked:" + cls)
			if strings.HasPrefix(cls, "handler-panic") {
				fk = "C15/finalisation-blocked:" + cls
			}
			res.Violate(fk, fmt.Sprintf("%d >= k=%d members delivered valid shares, yet the block was not generated (party end: %s)", len(hon), k, tNames[finalTerm]), desc())
		}

		// ---- model case ----
		var mem []string
		for _, t := range table {
			mem = append(mem, fmt.Sprintf("(%s,%s)", zs(t.id), zs(t.sk)))
		}
		var hsl []string
		for _, h := range b.h {
			hsl = append(hsl, zs(h))
		}
		var ml, ol, al, dl, dfl, rol, robl []string
		coqMsg := func(m vmsg) string {
			return fmt.Sprintf("(%d%%nat,%s,%d%%nat,%s,%s)", midOf(m), zs(m.sender), m.dh, m.sig.coq(b), m.rsig.coq(b))
		}
		for i := 0; i < nFut; i++ {
			dl = append(dl, coqMsg(msgs[i]))
			dfl = append(dfl, hx.CoqBool(storedFlag[i]))
		}
		for k2, x := range futOrder {
			rol = append(rol, fmt.Sprintf("%d%%nat", midOf(msgs[x])))
			robl = append(robl, fmt.Sprintf("%d%%N", futObs[k2]))
		}
		for _, i := range order {
			ml = append(ml, coqMsg(msgs[i]))
			ol = append(ol, fmt.Sprintf("(%d,%d)%%N", obs[i][0], obs[i][1]))
		}
		for _, ai := range admitted {
			al = append(al, zs(msgs[ai].sender))
		}
		term := fmt.Sprintf("CRun %d%%Z %d%%nat %s %s %s %s %d%%nat %s %s %s %s %d%%N %s %s %s %s %s %s",
			n, thr, hx.CoqList(mem), zs(g.gsk), hx.CoqBool(existed), hx.CoqList(hsl), prIdx,
			hx.CoqList(dl), hx.CoqList(dfl), hx.CoqList(rol), hx.CoqList(robl), futTerm, hx.CoqList(ml), hx.CoqList(ol), hx.CoqList(al), hx.CoqBool(recG), zs(gsScalar), zs(rsScalar))
		cs.Add(term, desc())

		nByzSeen := 0
		for _, m := range msgs {
			if !m.honest {
				nByzSeen++
			}
		}
		cls := fmt.Sprintf("run:%s:admitted=%s", tNames[finalTerm], map[bool]string{true: ">=k", false: "<k"}[len(admitted) >= k])
		if existed {
			cls = "run:block-existed"
		}
		res.Count(cls, fmt.Sprint("r", run, a.Seed), nByzSeen > 0 && len(admitted) > 0)
		if sampled < 6 && nByzSeen > 0 && len(admitted) > 0 && run%7 == 0 {
			sampled++
			var kinds, outs []string
			for i, m := range msgs {
				kinds = append(kinds, m.kind)
				outs = append(outs, oNames[obs[i][0]]+"/"+tNames[obs[i][1]])
			}
			res.Sample(map[string]interface{}{"n": n, "k": k, "block_hash": bhHash.Hex(), "messages": kinds, "outcomes": outs, "admitted": len(admitted), "end": tNames[finalTerm]})
		}
	}
	res.Note(fmt.Sprintf("%d runs in %v; %d admitted shares additionally checked with VerifySig", nRuns, time.Since(t0).Round(time.Millisecond), pairChecks))
	keys := make([]string, 0)
	for k := range res.Histogram {
		keys = append(keys, fmt.Sprintf("%s=%d", k, res.Histogram[k]))
	}
	sort.Strings(keys)
	fmt.Println("histogram:\n " + strings.Join(keys, "\n "))
	cs.Close()
	res.ModelCases = cs.Total()
	res.Write(a.Out)
	os.Stdout.Sync()
}
