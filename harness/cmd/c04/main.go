// C04 harness: journalled AccountDB (src/storage/account) vs the Coq model, plus direct evaluation
// of the property on the implementation:
//   (a) after every RevertToSnapshot the recorded queries answer as they did before the Snapshot;
//   (b) IntermediateRoot(true|false) of (executed + reverted) equals the root of a reference
//       AccountDB on which only the surviving operations were replayed.
package main

import (
	"bytes"
	"encoding/hex"
	"fmt"
	"math"
	"math/big"
	"reflect"
	"regexp"
	"strconv"
	"sort"
	"strings"

	"com.tuntun.rangers/node/src/common"
	crypto "com.tuntun.rangers/node/src/eth_crypto"
	"com.tuntun.rangers/node/src/middleware/db"
	"com.tuntun.rangers/node/src/middleware/types"
	"com.tuntun.rangers/node/src/storage/account"
	"com.tuntun.rangers/node/src/utility"
	"golang.org/x/crypto/sha3"
	"verif/harness/hx"
)

// ---------- universe (model ids <-> real values) ----------
const tokenID = 9

var (
	baseAddrs = []int{0, 1, 2, 3, 4, 5, tokenID}
	lowAddrs  = []int{11, 12, 13, 14, 15, 16, 17, 18, 19, 20} // id 10+i = 0x..0i for i = 1..10 (id 13 = 0x..03); 0x..00 is the token address (id 9) of the unbound-token phase
	addrIDs   = []int{0, 1, 2, 3, 4, 5, tokenID, 11, 12, 13, 14, 15, 16, 17, 18, 19, 20}
	caseLows  []int // the low addresses the current program may use (queried by fullObs / globalObs)
	// the 20 bytes of `var ripemd` in transition.go as they are at HEAD: common.StringToAddress of a 40-digit
	// string keeps the last 20 ASCII characters, "00000000000000000003" = 0x30 x19, 0x33.  Model id 3.
	ripemdHead = []byte("00000000000000000003")
	addrOf    = map[int]common.Address{}
	genKeys   = []int{0, 1, 2, 3}
	keyOf     = map[int][]byte{}
	allKeyIDs []int
	codeBlobs = [][]byte{nil, {0x60, 0x00}, {0x60, 0x01, 0x60, 0x02, 0x01}, {0xfe}} // never empty: SetCode(a, empty) stores Keccak(empty) != emptyCodeHash (SHA3-256) and a later code load fails
	hashID    = map[common.Hash]int{}
	thashes   = []common.Hash{common.BytesToHash([]byte{0x77, 1}), common.BytesToHash([]byte{0x77, 2}), common.BytesToHash([]byte{0x77, 3})}
	boundTok  = common.HexToAddress("0x00000000000000000000000000000000000c0de9")
	bindAddr  common.Address
	ftName    = "ft"
)

func setupUniverse(token common.Address) {
	addrOf[0] = common.HexToAddress("0x1000000000000000000000000000000000000a00")
	addrOf[1] = common.HexToAddress("0x2000000000000000000000000000000000000a01")
	addrOf[2] = common.HexToAddress("0x3000000000000000000000000000000000000a02")
	addrOf[3] = common.BytesToAddress(ripemdHead) // the literal bytes, NOT recomputed through StringToAddress
	for _, id := range lowAddrs {
		var ad common.Address // 0x00..0i: set the last byte (BytesToAddress left-aligns a short slice in this code base)
		ad[len(ad)-1] = byte(id - 10)
		addrOf[id] = ad
	}
	addrOf[4] = common.HexToAddress("0x5000000000000000000000000000000000000a04")
	addrOf[5] = common.HexToAddress("0x6000000000000000000000000000000000000a05")
	addrOf[tokenID] = token
	for _, k := range genKeys {
		keyOf[k] = common.BytesToHash([]byte{0xee, byte(k)}).Bytes()
	}
	keyOf[900] = utility.StrToBytes(common.GenerateFTKey(ftName))
	adb := newDB()
	s, _ := account.NewAccountDB(common.Hash{}, adb)
	_, _, pos, _ := s.GetERC20Binding(common.BLANCE_NAME)
	for _, a := range addrIDs {
		keyOf[1000+a] = append([]byte{}, s.GetERC20Key(addrOf[a], pos)...) // own copy: the harness must not alias implementation buffers
	}
	allKeyIDs = allKeyIDs[:0]
	seen := map[string]bool{}
	for k, v := range keyOf {
		allKeyIDs = append(allKeyIDs, k)
		if seen[string(v)] {
			panic("key universe not injective")
		}
		seen[string(v)] = true
	}
	sort.Ints(allKeyIDs)
	hashID = map[common.Hash]int{}
	hashID[common.Hash(sha3.Sum256(nil))] = 0
	hashID[common.Hash{}] = 99
	for i := 1; i < len(codeBlobs); i++ {
		hashID[crypto.Keccak256Hash(codeBlobs[i])] = i
	}
	if len(hashID) != 2+len(codeBlobs)-1 {
		panic("hash universe not injective")
	}
}

func newDB() account.AccountDatabase {
	m, _ := db.NewMemDatabase()
	return account.NewDatabase(m)
}

// ---------- programs ----------
type Op struct {
	K    string // constructor name without the leading O
	A, B int
	Key  int
	N    uint64
	V    []byte
	H    int
}
type Item struct {
	Op   *Op
	Obs  []*Op
	Body []*Item
	Rv   bool
}

var valuePool = [][]byte{{}, {1}, {5}, {0, 5}, {0}, {2, 3, 4}, append(make([]byte, 31), 7), append(make([]byte, 30), 1, 0), {0xff, 0xff, 0xff}}

func isQuery(k string) bool {
	switch k {
	case "GetBalance", "GetNonce", "GetData", "GetCommitted", "GetCode", "GetCodeHash", "GetCodeSize", "Exist", "Suicided", "Empty",
		"GetRefund", "GetLogs", "ALHasAddr", "ALHasSlot", "GetTransient", "GetFT":
		return true
	}
	return false
}

func (o *Op) coq() string {
	switch o.K {
	case "SetNonce", "AddBalance", "SubBalance", "SetBalance", "AddFT", "SubFT", "SetFT":
		return fmt.Sprintf("O%s %d %d", o.K, o.A, o.N)
	case "IncNonce", "Suicide", "CreateAccount", "ALAddr", "GetBalance", "GetNonce", "GetCode", "GetCodeHash", "GetCodeSize", "Exist", "Suicided", "Empty", "ALHasAddr", "GetFT":
		return fmt.Sprintf("O%s %d", o.K, o.A)
	case "SetData":
		return fmt.Sprintf("OSetData %d %d (x %s)", o.A, o.Key, hx.CoqHex(o.V))
	case "Transfer":
		return fmt.Sprintf("OTransfer %d %d %d", o.A, o.B, o.N)
	case "SetCode":
		return fmt.Sprintf("OSetCode %d %d (x %s)", o.A, o.H, hx.CoqHex(codeBlobs[o.H]))
	case "AddLog", "AddRefund", "SubRefund":
		return fmt.Sprintf("O%s %d", o.K, o.N)
	case "ALSlot", "GetData", "GetCommitted", "ALHasSlot", "GetTransient":
		return fmt.Sprintf("O%s %d %d", o.K, o.A, o.Key)
	case "SetTransient":
		return fmt.Sprintf("OSetTransient %d %d %d", o.A, o.Key, o.N)
	case "Prepare":
		return fmt.Sprintf("OPrepare %d", o.H)
	case "GetRefund":
		return "OGetRefund"
	case "GetLogs":
		return fmt.Sprintf("OGetLogs %d", o.H)
	}
	panic("coq: unknown op " + o.K)
}

func coqOps(l []*Op) string {
	p := make([]string, len(l))
	for i, o := range l {
		p[i] = o.coq()
	}
	return "[" + strings.Join(p, "; ") + "]"
}
func coqItems(l []*Item) string {
	p := make([]string, len(l))
	for i, it := range l {
		if it.Op != nil {
			p[i] = "Do (" + it.Op.coq() + ")"
		} else {
			p[i] = fmt.Sprintf("Bracket %s %s %s", coqOps(it.Obs), coqItems(it.Body), hx.CoqBool(it.Rv))
		}
	}
	return "[" + strings.Join(p, "; ") + "]"
}

type genCfg struct {
	pCommitted, pTouch float64
}

func pickAddr(r *hx.Rng) int {
	if len(caseLows) > 0 && r.Intn(6) == 0 {
		return caseLows[r.Intn(len(caseLows))]
	}
	return baseAddrs[r.Intn(len(baseAddrs))]
}

// the addresses whose queries are recorded: the base universe and the low addresses of this program
func obsAddrs() []int { return append(append([]int{}, baseAddrs...), caseLows...) }

func addrClass(a int) string {
	switch {
	case a == 3:
		return "ripemd-constant"
	case a >= 10:
		return fmt.Sprintf("0x%02x", a-10)
	}
	return fmt.Sprintf("id%d", a)
}
func pickKey(r *hx.Rng, a int) int {
	if a == tokenID && r.Intn(3) > 0 {
		return 1000 + pickAddr(r)
	}
	if r.Intn(8) == 0 {
		return 900
	}
	return genKeys[r.Intn(len(genKeys))]
}

var exoticQueries bool
var ripemdActual []byte

func genQuery(r *hx.Rng) *Op {
	a := pickAddr(r)
	if exoticQueries && r.Intn(6) == 0 {
		return &Op{K: "Empty", A: a}
	}
	switch r.Intn(16) {
	case 0:
		return &Op{K: "GetBalance", A: a}
	case 1:
		return &Op{K: "GetNonce", A: a}
	case 2, 3:
		return &Op{K: "GetData", A: a, Key: pickKey(r, a)}
	case 4:
		return &Op{K: "GetCode", A: a}
	case 5:
		return &Op{K: "GetCodeHash", A: a}
	case 6:
		return &Op{K: "GetCodeSize", A: a}
	case 7:
		return &Op{K: "Exist", A: a}
	case 8:
		return &Op{K: "Suicided", A: a}
	case 9:
		return &Op{K: "GetRefund"}
	case 10:
		return &Op{K: "GetLogs", H: r.Intn(3)}
	case 11:
		return &Op{K: "ALHasAddr", A: a}
	case 12:
		return &Op{K: "ALHasSlot", A: a, Key: genKeys[r.Intn(len(genKeys))]}
	case 13:
		return &Op{K: "GetTransient", A: a, Key: genKeys[r.Intn(len(genKeys))]}
	case 14:
		return &Op{K: "GetBalance", A: a}
	}
	return &Op{K: "GetData", A: a, Key: pickKey(r, a)}
}

// the queries the property lists, over the whole universe
func fullObs(withData bool) []*Op {
	var l []*Op
	for _, a := range obsAddrs() {
		l = append(l, &Op{K: "Exist", A: a}, &Op{K: "GetNonce", A: a}, &Op{K: "GetCodeHash", A: a}, &Op{K: "GetCode", A: a},
			&Op{K: "GetCodeSize", A: a}, &Op{K: "Suicided", A: a}, &Op{K: "ALHasAddr", A: a})
		for _, k := range genKeys {
			l = append(l, &Op{K: "ALHasSlot", A: a, Key: k}, &Op{K: "GetTransient", A: a, Key: k})
		}
		if withData {
			l = append(l, &Op{K: "GetBalance", A: a})
			for _, k := range genKeys {
				l = append(l, &Op{K: "GetData", A: a, Key: k})
			}
			l = append(l, &Op{K: "GetData", A: a, Key: 900})
		}
	}
	if withData {
		for _, a := range obsAddrs() {
			l = append(l, &Op{K: "GetData", A: tokenID, Key: 1000 + a})
		}
	}
	l = append(l, &Op{K: "GetRefund"}, &Op{K: "GetLogs", H: 0}, &Op{K: "GetLogs", H: 1}, &Op{K: "GetLogs", H: 2})
	return l
}

// the queries that do not go through an account object
func globalObs() []*Op {
	l := []*Op{{K: "GetRefund"}, {K: "GetLogs", H: 0}, {K: "GetLogs", H: 1}, {K: "GetLogs", H: 2}}
	for _, a := range obsAddrs() {
		l = append(l, &Op{K: "ALHasAddr", A: a})
		for _, k := range genKeys {
			l = append(l, &Op{K: "ALHasSlot", A: a, Key: k}, &Op{K: "GetTransient", A: a, Key: k})
		}
	}
	return l
}

// hotAddr >= 0: the program keeps coming back to one address with self-destructs and re-credits, so that
// repeated Suicide of the same account with funds arriving in between happens inside and outside brackets
var hotAddr = -1

// hotSlotA >= 0: (hotSlotA, hotSlotK) is a slot with a committed value that the program keeps removing,
// overwriting and rewriting, before and inside brackets
var hotSlotA, hotSlotK = -1, 0

func genMut(r *hx.Rng, exotic bool) *Op {
	a := pickAddr(r)
	if hotSlotA >= 0 && r.Intn(3) == 0 {
		switch r.Intn(5) {
		case 0, 1:
			return &Op{K: "SetData", A: hotSlotA, Key: hotSlotK, V: []byte{}, N: uint64(r.Intn(2))} // N=1: RemoveData
		case 2:
			return &Op{K: "GetData", A: hotSlotA, Key: hotSlotK}
		default:
			return &Op{K: "SetData", A: hotSlotA, Key: hotSlotK, V: valuePool[1+r.Intn(len(valuePool)-1)]}
		}
	}
	if hotAddr >= 0 && r.Intn(3) == 0 {
		switch r.Intn(8) {
		case 0, 1, 2:
			return &Op{K: "Suicide", A: hotAddr}
		case 3, 4:
			return &Op{K: "AddBalance", A: hotAddr, N: uint64(1 + r.Intn(20))}
		case 5:
			return &Op{K: "Transfer", A: a, B: hotAddr, N: uint64(1 + r.Intn(9))}
		case 6:
			return &Op{K: "SetBalance", A: hotAddr, N: uint64(1 + r.Intn(3)*100)}
		default:
			return &Op{K: "CreateAccount", A: hotAddr}
		}
	}
	for {
		switch r.Intn(34) {
		case 0, 1:
			return &Op{K: "SetNonce", A: a, N: uint64(r.Intn(4))}
		case 2:
			return &Op{K: "IncNonce", A: a}
		case 3, 4, 5, 6:
			return &Op{K: "SetData", A: a, Key: pickKey(r, a), V: valuePool[r.Intn(len(valuePool))]}
		case 7, 8:
			return &Op{K: "AddBalance", A: a, N: uint64(r.Intn(4) * 7)}
		case 9:
			return &Op{K: "SubBalance", A: a, N: uint64(r.Intn(4) * 5)}
		case 10:
			return &Op{K: "SetBalance", A: a, N: uint64(r.Intn(3) * 300)}
		case 11:
			return &Op{K: "Transfer", A: a, B: pickAddr(r), N: uint64(r.Intn(3) * 6)}
		case 12:
			return &Op{K: "SetCode", A: a, H: 1 + r.Intn(len(codeBlobs)-1)}
		case 13:
			return &Op{K: "Suicide", A: a}
		case 14:
			return &Op{K: "CreateAccount", A: a}
		case 15:
			return &Op{K: "AddLog", N: uint64(r.Intn(200))}
		case 16:
			if r.Intn(12) == 0 { // the counter is a uint64 and wraps
				return &Op{K: "AddRefund", N: math.MaxUint64 - uint64(r.Intn(40))}
			}
			return &Op{K: "AddRefund", N: uint64(r.Intn(50))}
		case 17:
			if r.Intn(4) == 0 { // beyond the counter: panics after journalling
				return &Op{K: "SubRefund", N: uint64(1000 + r.Intn(30)), H: 1}
			}
			return &Op{K: "SubRefund", N: uint64(r.Intn(30))}
		case 18:
			return &Op{K: "ALAddr", A: a}
		case 19:
			return &Op{K: "ALSlot", A: a, Key: genKeys[r.Intn(len(genKeys))]}
		case 20, 21:
			return &Op{K: "SetTransient", A: a, Key: genKeys[r.Intn(len(genKeys))], N: uint64(r.Intn(3))}
		case 22:
			if exotic || r.Intn(4) == 0 {
				n := uint64(r.Intn(3) * 4)
				if exotic && r.Intn(2) == 0 {
					n = 0
				}
				return &Op{K: "AddFT", A: a, N: n}
			}
		case 23:
			if exotic || r.Intn(4) == 0 {
				return &Op{K: "SubFT", A: a, N: uint64(r.Intn(3) * 3)}
			}
		case 24:
			if exotic && r.Intn(2) == 0 {
				k := pickKey(r, a)
				for k == 900 { // GetCommittedState takes a 32-byte hash; the FT key string is not one (BytesToHash would pad it into another slot)
					k = pickKey(r, a)
				}
				return &Op{K: "GetCommitted", A: a, Key: k}
			}
			if r.Intn(4) == 0 {
				return &Op{K: "SetFT", A: a, N: uint64(r.Intn(3) * 9)}
			}
		case 25:
			return genQuery(r)
		}
	}
}

func genItems(r *hx.Rng, depth, n int, exotic bool) []*Item {
	var l []*Item
	for i := 0; i < n; i++ {
		if depth > 0 && r.Intn(4) == 0 {
			it := &Item{Rv: r.Intn(3) > 0}
			switch r.Intn(5) {
			case 0:
				it.Obs = fullObs(true)
			case 1:
				it.Obs = fullObs(false)
			case 2:
			default:
				for j := r.Intn(6); j > 0; j-- {
					it.Obs = append(it.Obs, genQuery(r))
				}
			}
			it.Body = genItems(r, depth-1, 1+r.Intn(5), exotic)
			l = append(l, it)
		} else {
			l = append(l, &Item{Op: genMut(r, exotic)})
		}
	}
	return l
}

// erase the reverted brackets: what the reference replays
func erase(l []*Item) []*Item {
	var o []*Item
	for _, it := range l {
		switch {
		case it.Op != nil:
			o = append(o, it)
		case it.Rv:
			for k := 0; k < 3; k++ {
				for _, q := range it.Obs {
					o = append(o, &Item{Op: q})
				}
			}
		default:
			o = append(o, &Item{Obs: it.Obs, Body: erase(it.Body), Rv: false})
		}
	}
	return o
}

func walk(l []*Item, f func(o *Op, reverted bool), rev bool) {
	for _, it := range l {
		if it.Op != nil {
			f(it.Op, rev)
		} else {
			walk(it.Body, f, rev || it.Rv)
		}
	}
}

// ---------- execution on the real AccountDB ----------
type execCtx struct {
	s          *account.AccountDB
	answers    []string
	concretise bool
	brackets   []bracketObs
	diverged   string
}
type bracketObs struct {
	it            *Item
	before, after []string
}

func big64(n uint64) *big.Int { return new(big.Int).SetUint64(n) }
func coqBytes(b []byte) string { return "ABy (x " + hx.CoqHex(b) + ")" }
func coqBig(b *big.Int) string  { return b.String() + "%N" }

func (c *execCtx) step(o *Op) string {
	s := c.s
	a := addrOf[o.A]
	switch o.K {
	case "SetNonce":
		s.SetNonce(a, o.N)
	case "IncNonce":
		return fmt.Sprintf("AN %d", s.IncreaseNonce(a))
	case "SetData":
		if len(o.V) == 0 && o.N == 1 {
			s.RemoveData(a, keyOf[o.Key])
		} else {
			s.SetData(a, keyOf[o.Key], append([]byte{}, o.V...))
		}
	case "AddBalance":
		s.AddBalance(a, big64(o.N))
	case "SubBalance":
		left := s.SubBalance(a, big64(o.N))
		return "AN " + coqBig(left)
	case "SetBalance":
		s.SetBalance(a, big64(o.N))
	case "Transfer":
		s.Transfer(a, addrOf[o.B], big64(o.N))
	case "SetCode":
		s.SetCode(a, append([]byte{}, codeBlobs[o.H]...))
	case "Suicide":
		return "AB " + hx.CoqBool(s.Suicide(a))
	case "CreateAccount":
		s.CreateAccount(a)
	case "Prepare":
		// transaction boundary on the same AccountDB (no Finalise in between)
		s.Prepare(thashes[o.H], common.BytesToHash([]byte{0xbb}), o.H)
	case "AddLog":
		s.AddLog(&types.Log{Address: a, Data: []byte{byte(o.N)}})
	case "AddRefund":
		s.AddRefund(o.N)
	case "SubRefund":
		if o.N > s.GetRefund() && o.H == 1 {
			// deliberate underflow: the call appends its journal entry and then panics, the counter stays
			pan := false
			func() {
				defer func() {
					if recover() != nil {
						pan = true
					}
				}()
				s.SubRefund(o.N)
			}()
			if pan {
				return "APanic"
			}
			return "AU"
		}
		if o.N > s.GetRefund() {
			if c.concretise {
				o.N = s.GetRefund()
			} else {
				c.diverged = "SubRefund beyond the refund counter in a replay"
				return "AU"
			}
		}
		s.SubRefund(o.N)
	case "ALAddr":
		s.AddAddressToAccessList(a)
	case "ALSlot":
		s.AddSlotToAccessList(a, common.BytesToHash(keyOf[o.Key]))
	case "SetTransient":
		s.SetTransientState(a, common.BytesToHash(keyOf[o.Key]), common.BigToHash(big64(o.N)))
	case "AddFT":
		return "AB " + hx.CoqBool(s.AddFT(a, ftName, big64(o.N)))
	case "SubFT":
		left, ok := s.SubFT(a, ftName, big64(o.N))
		if !ok || left == nil {
			return "AO None"
		}
		return "AO (Some " + coqBig(left) + ")"
	case "SetFT":
		s.SetFT(a, ftName, big64(o.N))
	case "GetBalance":
		return "AN " + coqBig(s.GetBalance(a))
	case "GetNonce":
		return fmt.Sprintf("AN %d", s.GetNonce(a))
	case "GetData":
		return coqBytes(s.GetData(a, keyOf[o.Key]))
	case "GetCommitted":
		h := s.GetCommittedState(a, common.BytesToHash(keyOf[o.Key]))
		return "AN " + coqBig(h.Big())
	case "GetCode":
		return coqBytes(s.GetCode(a))
	case "GetCodeHash":
		id, ok := hashID[s.GetCodeHash(a)]
		if !ok {
			id = 12345
		}
		return fmt.Sprintf("AN %d", id)
	case "GetCodeSize":
		return fmt.Sprintf("AN %d", s.GetCodeSize(a))
	case "Exist":
		return "AB " + hx.CoqBool(s.Exist(a))
	case "Suicided":
		return "AB " + hx.CoqBool(s.HasSuicided(a))
	case "Empty":
		return "AB " + hx.CoqBool(s.Empty(a))
	case "GetRefund":
		return fmt.Sprintf("AN %d", s.GetRefund())
	case "GetLogs":
		var p []string
		for _, l := range s.GetLogs(thashes[o.H]) {
			p = append(p, fmt.Sprintf("lg %d %d", l.Data[0], l.Index))
		}
		return "AL [" + strings.Join(p, "; ") + "]"
	case "ALHasAddr":
		return "AB " + hx.CoqBool(s.AddressInAccessList(a))
	case "ALHasSlot":
		x, y := s.SlotInAccessList(a, common.BytesToHash(keyOf[o.Key]))
		return "AP " + hx.CoqBool(x) + " " + hx.CoqBool(y)
	case "GetTransient":
		return "AN " + coqBig(s.GetTransientState(a, common.BytesToHash(keyOf[o.Key])).Big())
	case "GetFT":
		return "AN " + coqBig(s.GetFT(a, ftName))
	default:
		panic("step: unknown op " + o.K)
	}
	return "AU"
}

func (c *execCtx) ops(l []*Op) []string {
	out := make([]string, len(l))
	for i, o := range l {
		out[i] = c.step(o)
	}
	c.answers = append(c.answers, out...)
	return out
}

func (c *execCtx) run(l []*Item) {
	for _, it := range l {
		if it.Op != nil {
			c.answers = append(c.answers, c.step(it.Op))
			continue
		}
		c.ops(it.Obs) // first round: the queries' own side effects (cache fills, token-contract object)
		before := c.ops(it.Obs)
		id := c.s.Snapshot()
		c.run(it.Body)
		if it.Rv {
			c.s.RevertToSnapshot(id)
			after := c.ops(it.Obs)
			c.brackets = append(c.brackets, bracketObs{it, before, after})
		}
	}
}

func execute(root common.Hash, adb account.AccountDatabase, prog []*Item, concretise bool) (c *execCtx, pan interface{}) {
	s, err := account.NewAccountDB(root, adb)
	if err != nil {
		panic(err)
	}
	s.Prepare(thashes[0], common.BytesToHash([]byte{0xbb}), 0)
	c = &execCtx{s: s, concretise: concretise}
	defer func() {
		if r := recover(); r != nil {
			pan = r
		}
	}()
	c.run(prog)
	return c, nil
}

// ---------- dumps ----------
type leaf struct {
	exists  bool
	nonce   uint64
	hash    int
	store   map[int][]byte
	code    []byte
	balance string
}

func dump(root common.Hash, adb account.AccountDatabase) map[int]leaf {
	s, err := account.NewAccountDB(root, adb)
	if err != nil {
		panic(err)
	}
	out := map[int]leaf{}
	for _, a := range addrIDs {
		ad := addrOf[a]
		if !s.Exist(ad) {
			continue
		}
		id, ok := hashID[s.GetCodeHash(ad)]
		if !ok {
			id = 12345
		}
		l := leaf{exists: true, nonce: s.GetNonce(ad), hash: id, store: map[int][]byte{}, code: s.GetCode(ad)}
		for _, k := range allKeyIDs {
			if v := s.GetData(ad, keyOf[k]); len(v) > 0 {
				l.store[k] = v
			}
		}
		out[a] = l
	}
	// balances last: GetBalance creates the token-contract object as a side effect
	for _, a := range addrIDs {
		if l, ok := out[a]; ok {
			l.balance = s.GetBalance(addrOf[a]).String()
			out[a] = l
		}
	}
	return out
}

func coqDump(d map[int]leaf) string {
	var p []string
	for _, a := range addrIDs {
		l, ok := d[a]
		if !ok {
			continue
		}
		var kv []string
		for _, k := range allKeyIDs {
			if v, ok := l.store[k]; ok {
				kv = append(kv, fmt.Sprintf("kv %d %s", k, hx.CoqHex(v)))
			}
		}
		p = append(p, fmt.Sprintf("da %d %d %d [%s]", a, l.nonce, l.hash, strings.Join(kv, "; ")))
	}
	return "[" + strings.Join(p, "; ") + "]"
}

// leafEqFull also compares what the reopened state answers for code bytes and balance
func leafEqFull(x, y leaf) bool {
	return leafEq(x, y) && bytes.Equal(x.code, y.code) && x.balance == y.balance
}

func leafEq(x, y leaf) bool {
	if x.exists != y.exists || x.nonce != y.nonce || x.hash != y.hash || len(x.store) != len(y.store) {
		return false
	}
	for k, v := range x.store {
		if !bytes.Equal(v, y.store[k]) {
			return false
		}
	}
	return true
}

// finalise: IntermediateRoot(del), then Commit(del) to be able to read the leaves back
func finalise(c *execCtx, adb account.AccountDatabase, del bool) (ir, cr common.Hash, d map[int]leaf, err interface{}) {
	defer func() {
		if r := recover(); r != nil {
			err = r
		}
	}()
	ir = c.s.IntermediateRoot(del)
	var e error
	cr, e = c.s.Commit(del)
	if e != nil {
		return ir, cr, nil, e
	}
	if e = adb.TrieDB().Commit(cr, false); e != nil {
		return ir, cr, nil, e
	}
	return ir, cr, dump(cr, adb), nil
}

// ---------- classification of direct violations ----------
type progFacts struct {
	revCommitted, revSuicide bool
	revTouch                 map[int]bool // AddFT(a, 0) inside a reverted bracket
	revWrite                 map[int]bool // any other call on the account object of a inside a reverted bracket
	committed                map[[2]int]bool // GetCommittedState(a, k) anywhere in the program
}

func facts(prog []*Item) progFacts {
	f := progFacts{revTouch: map[int]bool{}, revWrite: map[int]bool{}, committed: map[[2]int]bool{}}
	walk(prog, func(o *Op, rev bool) {
		if o.K == "GetCommitted" {
			f.committed[[2]int{o.A, o.Key}] = true
		}
		if !rev {
			return
		}
		switch {
		case o.K == "GetCommitted":
			f.revCommitted = true
		case o.K == "Suicide":
			f.revSuicide = true
		case o.K == "AddFT" && o.N == 0:
			f.revTouch[o.A] = true
		}
		switch o.K {
		case "SetNonce", "IncNonce", "SetData", "SetCode", "Suicide", "CreateAccount", "SubFT", "SetFT", "GetFT":
			f.revWrite[o.A] = true
		case "AddFT":
			if o.N != 0 {
				f.revWrite[o.A] = true
			}
		case "AddBalance", "SubBalance", "SetBalance", "Transfer", "GetBalance":
			f.revWrite[tokenID] = true
		}
	}, false)
	return f
}

func beVal(b []byte) *big.Int { return new(big.Int).SetBytes(b) }

func main() {
	a := hx.ParseArgs()
	common.Init(0, "p.ini", "dev")
	common.SetBlockHeight(10)
	account.Init()
	rng := hx.NewRng(a.Seed)
	res := hx.NewResult("one evaluation = one reverted bracket (recorded queries before Snapshot vs after RevertToSnapshot), one root comparison (executed+reverted vs reference replay of the surviving operations, per deleteEmptyObjects flag) one end-of-program comparison of refund/logs/access list/transient storage with that reference replay, or one post-Finalise life-cycle probe of an address (deleted object = dead address, never-existing address creatable); nontrivial = at least one journalled mutation was executed inside a reverted bracket; distinct by program text")
	perShard := 60
	if a.Tier == "thorough" {
		perShard = 150 // 12000 programs -> 80 shards
	}
	cs := hx.NewCases(a.Out, "From V.C04 Require Import Model Harness.", "tcase", "check", perShard)

	nCases := a.N
	phase2At := nCases / 2
	token := common.Address{}
	setupUniverse(token)
	// the exemption of touchChange.undo as the running code has it
	rc := account.VerifRipemdConstant()
	ripemdActual = rc[:]
	if !bytes.Equal(ripemdActual, ripemdHead) {
		res.Violate("C04/touch-undo-exemption:ripemd-constant-changed", fmt.Sprintf("the address touchChange.undo exempts is 0x%x; the model (and HEAD) have 0x%x, an address no transaction can name", ripemdActual, ripemdHead), "src/storage/account/transition.go: var ripemd")
	}
	bindAddr = common.GenerateERC20Binding(common.BLANCE_NAME)
	sampled := 0

	for ci := 0; ci < nCases; ci++ {
		if ci == phase2At {
			token = boundTok
			setupUniverse(token)
		}
		r := rng.Fork()
		// fork regime: proposals 1..frontier are active at the harness height, the later ones are not; every gate
		// sits just below / at / above the height (or far away), so whichever ProposalNNN a piece of code consults is
		// exercised on both sides with its neighbours on either side.  The model has ONE gate: Proposal002.
		frontier := 99
		switch r.Intn(8) {
		case 0:
			frontier = r.Intn(2) // before Proposal002 (listed finding: balances unjournalled)
		case 1, 2:
			frontier = 2 // the window: 002 active, 003 not yet
		case 3:
			frontier = 3 + r.Intn(25)
		}
		regime := setRegime(r, frontier)
		p002 := common.IsProposal002()
		exotic := r.Intn(5) == 0
		// committed start state from a random prefix
		adb := newDB()
		s0, _ := account.NewAccountDB(common.Hash{}, adb)
		if ci >= phase2At {
			s0.AddERC20Binding(common.BLANCE_NAME, boundTok, 3, 18)
		}
		exoticQueries = false
		caseLows = caseLows[:0]
		if r.Intn(3) == 0 {
			caseLows = append(caseLows, lowAddrs[r.Intn(len(lowAddrs))])
			if r.Intn(2) == 0 {
				caseLows = append(caseLows, 13) // 0x..03, the address the ripemd constant is meant to name
			}
		}
		pre := genItems(r, 1, r.Intn(14), false)
		hotA := -1
		if r.Intn(3) == 0 { // a slot with a committed value for the program to remove and rewrite
			hotA, hotSlotK = r.Intn(6), r.Intn(4)
			pre = append(pre, &Item{Op: &Op{K: "SetData", A: hotA, Key: hotSlotK, V: []byte{6}}})
			if r.Intn(2) == 0 {
				pre = append(pre, &Item{Op: &Op{K: "SetNonce", A: hotA, N: 1}})
			}
		}
		if r.Intn(3) == 0 { // storage-only / empty accounts are what the node's system accounts look like
			pre = append(pre, &Item{Op: &Op{K: "SetData", A: r.Intn(3), Key: r.Intn(4), V: []byte{9}}}, &Item{Op: &Op{K: "CreateAccount", A: 4 + r.Intn(2)}})
		}
		pc := &execCtx{s: s0, concretise: true}
		func() {
			defer func() { recover() }()
			pc.run(pre)
		}()
		// directed fragments for the rarer interactions (zero-amount AddFT on an empty committed account,
		// self-destruct of an account whose balance slot holds a 32-byte EVM-style value, GetCommittedState
		// on a modified slot); the random program is built around them
		var inject []*Item
		delCommit := r.Intn(3) == 0
		switch r.Intn(26) {
		case 0:
			x := r.Intn(6)
			pre = []*Item{{Op: &Op{K: "CreateAccount", A: x}}, {Op: &Op{K: "SetData", A: (x + 1) % 6, Key: 1, V: []byte{3}}}}
			delCommit = false
			inject = []*Item{{Body: []*Item{{Op: &Op{K: "AddFT", A: x, N: 0}}}, Rv: true, Obs: []*Op{{K: "GetNonce", A: x}}},
				{Op: &Op{K: "SetNonce", A: x, N: 1 + uint64(r.Intn(3))}}}
		case 1:
			x := r.Intn(6)
			pre = append(pre, &Item{Op: &Op{K: "SetNonce", A: x, N: 1}}, &Item{Op: &Op{K: "SetData", A: tokenID, Key: 1000 + x, V: append(make([]byte, 31), byte(1+r.Intn(9)))}})
			inject = []*Item{{Body: []*Item{{Op: &Op{K: "Suicide", A: x}}}, Rv: true, Obs: []*Op{{K: "GetBalance", A: x}, {K: "GetData", A: tokenID, Key: 1000 + x}}}}
		case 2:
			x, k := r.Intn(6), r.Intn(4)
			pre = append(pre, &Item{Op: &Op{K: "SetData", A: x, Key: k, V: []byte{4}}})
			inject = []*Item{{Op: &Op{K: "SetData", A: x, Key: k, V: []byte{8}}},
				{Body: []*Item{{Op: &Op{K: "GetCommitted", A: x, Key: k}}}, Rv: true, Obs: []*Op{{K: "GetData", A: x, Key: k}}}}
		case 3:
			// the storage-only account of the design: {nonce 0, no code, one slot}; a reverted SetNonce
			x := r.Intn(6)
			pre = []*Item{{Op: &Op{K: "SetData", A: x, Key: r.Intn(4), V: []byte{5}}}, {Op: &Op{K: "SetNonce", A: (x + 1) % 6, N: 2}}}
			inject = []*Item{{Body: []*Item{{Op: &Op{K: "SetNonce", A: x, N: 7}}}, Rv: true, Obs: []*Op{{K: "GetNonce", A: x}}}}
		case 5, 6, 7:
			// repeated self-destruct of one account with funds arriving in between; the second (third) one is reverted,
			// at top level, inside a kept bracket, or inside a bracket that is itself reverted afterwards
			x, y := r.Intn(6), 0
			y = (x + 1 + r.Intn(5)) % 6
			pre = append(pre, &Item{Op: &Op{K: "SetNonce", A: x, N: 1}}, &Item{Op: &Op{K: "AddBalance", A: x, N: uint64(10 + r.Intn(30))}},
				&Item{Op: &Op{K: "AddBalance", A: y, N: 50}})
			credit := func() *Item {
				if r.Intn(2) == 0 {
					return &Item{Op: &Op{K: "AddBalance", A: x, N: uint64(1 + r.Intn(20))}}
				}
				return &Item{Op: &Op{K: "Transfer", A: y, B: x, N: uint64(1 + r.Intn(9))}}
			}
			obs := []*Op{{K: "GetBalance", A: x}, {K: "Suicided", A: x}, {K: "GetData", A: tokenID, Key: 1000 + x}}
			inner := &Item{Body: []*Item{{Op: &Op{K: "Suicide", A: x}}}, Rv: true, Obs: obs}
			if r.Intn(2) == 0 {
				inner.Body = append(inner.Body, credit(), &Item{Op: &Op{K: "Suicide", A: x}})
			}
			seq := []*Item{{Op: &Op{K: "Suicide", A: x}}, credit(), inner}
			switch r.Intn(3) {
			case 0:
				inject = seq
			case 1:
				inject = []*Item{{Body: seq, Rv: false, Obs: obs}}
			default:
				inject = []*Item{{Op: &Op{K: "Suicide", A: x}}, credit(), {Body: []*Item{credit(), inner, credit()}, Rv: r.Intn(2) == 0, Obs: obs}}
			}
		case 9, 10:
			// committed slot; removed (or overwritten) in this session BEFORE the snapshot; written again inside; reverted
			x, k := r.Intn(6), r.Intn(4)
			pre = append(pre, &Item{Op: &Op{K: "SetData", A: x, Key: k, V: []byte{5}}}, &Item{Op: &Op{K: "SetNonce", A: x, N: uint64(r.Intn(2))}})
			before := &Item{Op: &Op{K: "SetData", A: x, Key: k, V: []byte{}, N: uint64(r.Intn(2))}}
			if r.Intn(4) == 0 {
				before = &Item{Op: &Op{K: "SetData", A: x, Key: k, V: []byte{9}}}
			}
			body := []*Item{{Op: &Op{K: "SetData", A: x, Key: k, V: []byte{7}}}}
			if r.Intn(2) == 0 {
				body = append(body, &Item{Op: &Op{K: "SetData", A: x, Key: k, V: []byte{}}}, &Item{Op: &Op{K: "SetData", A: x, Key: k, V: []byte{8}}})
			}
			br := &Item{Body: body, Rv: true, Obs: []*Op{{K: "GetData", A: x, Key: k}}}
			if r.Intn(3) == 0 {
				br = &Item{Body: []*Item{br, {Op: &Op{K: "GetData", A: x, Key: k}}}, Rv: r.Intn(2) == 0}
			}
			inject = []*Item{before, br}
		case 11:
			// balance writes to several addresses with balance reads of other addresses in between, reverted
			x := r.Intn(6)
			y, z := (x+1)%6, (x+2)%6
			pre = append(pre, &Item{Op: &Op{K: "AddBalance", A: x, N: 40}}, &Item{Op: &Op{K: "AddBalance", A: y, N: 30}}, &Item{Op: &Op{K: "AddBalance", A: z, N: 20}})
			obs := []*Op{{K: "GetBalance", A: x}, {K: "GetBalance", A: y}, {K: "GetBalance", A: z}}
			body := []*Item{{Op: &Op{K: "AddBalance", A: x, N: uint64(1 + r.Intn(9))}}, {Op: &Op{K: "GetBalance", A: z}},
				{Op: &Op{K: "SubBalance", A: y, N: uint64(1 + r.Intn(9))}}, {Op: &Op{K: "GetBalance", A: x}}}
			if r.Intn(2) == 0 {
				body = append(body, &Item{Op: &Op{K: "Transfer", A: x, B: z, N: uint64(1 + r.Intn(9))}}, &Item{Op: &Op{K: "GetBalance", A: y}})
			}
			inject = []*Item{{Body: body, Rv: true, Obs: obs}}
		case 12, 13, 14:
			// a zero-amount AddFT (touch) inside a reverted bracket on: the ripemd constant as it is at HEAD (id 3), 0x..03,
			// or another low address; committed empty (the touch happens) or committed non-empty (it does not)
			x := 3
			switch r.Intn(3) {
			case 0:
				x = 13
			case 1:
				x = lowAddrs[r.Intn(len(lowAddrs))]
			}
			if x >= 10 {
				caseLows = append(caseLows, x)
			}
			if r.Intn(4) > 0 {
				pre = []*Item{{Op: &Op{K: "CreateAccount", A: x}}, {Op: &Op{K: "SetNonce", A: (x%6 + 1) % 6, N: 2}}}
				delCommit = false
			} else {
				pre = []*Item{{Op: &Op{K: "SetNonce", A: x, N: 1}}}
			}
			inject = []*Item{{Body: []*Item{{Op: &Op{K: "AddFT", A: x, N: 0}}}, Rv: true, Obs: []*Op{{K: "Exist", A: x}, {K: "GetNonce", A: x}}}}
		case 15, 16:
			// an earlier transaction leaves k kept revisions on the stack; after Prepare a later transaction takes fewer /
			// more snapshots and reverts: the revert must unwind only its own bracket
			x, y := r.Intn(6), r.Intn(6)
			var tx1 []*Item
			tx1 = append(tx1, &Item{Op: &Op{K: "SetNonce", A: x, N: 5}})
			for k := 1 + r.Intn(3); k > 0; k-- {
				tx1 = []*Item{{Body: append(tx1, &Item{Op: &Op{K: "AddBalance", A: y, N: uint64(3 + k)}}), Rv: false, Obs: []*Op{{K: "GetNonce", A: x}}}}
			}
			obs := []*Op{{K: "GetNonce", A: x}, {K: "GetBalance", A: y}, {K: "Exist", A: x}}
			tx2 := []*Item{{Body: []*Item{{Op: &Op{K: "SetNonce", A: x, N: 7}}, {Op: &Op{K: "AddLog", N: 9}}}, Rv: true, Obs: obs}}
			if r.Intn(2) == 0 {
				tx2 = []*Item{{Body: append([]*Item{{Op: &Op{K: "SetData", A: x, Key: 1, V: []byte{4}}}}, tx2...), Rv: r.Intn(2) == 0, Obs: obs}}
			}
			inject = append(append(tx1, &Item{Op: &Op{K: "Prepare", H: 1 + r.Intn(2)}}), tx2...)
		case 8:
			// uint64 wrap-around of the nonce, kept or reverted
			x := r.Intn(6)
			wrap := []*Item{{Op: &Op{K: "SetNonce", A: x, N: math.MaxUint64 - uint64(r.Intn(2))}}, {Op: &Op{K: "IncNonce", A: x}}, {Op: &Op{K: "IncNonce", A: x}}}
			if r.Intn(2) == 0 {
				inject = wrap
			} else {
				inject = []*Item{{Body: wrap, Rv: r.Intn(2) == 0, Obs: []*Op{{K: "GetNonce", A: x}}}}
			}
		case 4:
			// a committed empty account written inside a reverted bracket
			x := r.Intn(6)
			pre = []*Item{{Op: &Op{K: "CreateAccount", A: x}}, {Op: &Op{K: "SetNonce", A: (x + 1) % 6, N: 2}}}
			delCommit = false
			inject = []*Item{{Body: []*Item{{Op: &Op{K: "SetNonce", A: x, N: 7}}}, Rv: true, Obs: []*Op{{K: "GetNonce", A: x}, {K: "Exist", A: x}}}}
		}
		pc = &execCtx{s: s0, concretise: true}
		if inject != nil {
			s0, _ = account.NewAccountDB(common.Hash{}, adb)
			if ci >= phase2At {
				s0.AddERC20Binding(common.BLANCE_NAME, boundTok, 3, 18)
			}
			pc = &execCtx{s: s0, concretise: true}
			func() {
				defer func() { recover() }()
				pc.run(pre)
			}()
		}
		root0, err := s0.Commit(delCommit)
		if err != nil {
			panic(err)
		}
		adb.TrieDB().Commit(root0, false)
		start := dump(root0, adb)

		exoticQueries = exotic
		hotAddr = -1
		if r.Intn(3) == 0 {
			hotAddr = r.Intn(6)
		}
		hotSlotA = hotA
		prog := genItems(r, 3, 2+r.Intn(10), exotic)
		if r.Intn(3) == 0 {
			// 2-4 transactions on this AccountDB: Prepare between segments, each segment with its own brackets (kept
			// ones leave their revisions on the stack, so later transactions snapshot on top of earlier ones)
			for n := 1 + r.Intn(3); n > 0; n-- {
				prog = append(prog, &Item{Op: &Op{K: "Prepare", H: r.Intn(3)}})
				prog = append(prog, genItems(r, 3, 1+r.Intn(6), exotic)...)
			}
		}
		hotAddr, hotSlotA = -1, -1
		volume := ""
		if ci%100 == 3 {
			prog, volume = volumeProgram(r, ci == 3, a.Tier == "thorough")
			inject = nil
		}
		if inject != nil {
			at := r.Intn(len(prog) + 1)
			prog = append(append(append([]*Item{}, prog[:at]...), inject...), prog[at:]...)
		}
		ptxtFull := coqItems(prog)
		ptxt := ptxtFull
		if volume != "" {
			ptxt = volume + " | " + trunc(ptxtFull, 1500)
		}
		f := facts(prog)
		// guard of theorem C04_continuation (reverted parts and continuation): Proposal002, no self-destruct,
		// no zero-amount AddFT (touch), no GetCommittedState anywhere in the program
		guarded := p002
		walk(prog, func(o *Op, rev bool) {
			if o.K == "Suicide" || o.K == "GetCommitted" || o.K == "Prepare" || (o.K == "AddFT" && o.N == 0) {
				guarded = false
			}
		}, false)

		// run 1 (concretises SubRefund amounts), finalise(false)
		c1, pan := execute(root0, adb, prog, true)
		ptxtFull = coqItems(prog)
		if volume == "" {
			ptxt = ptxtFull
		}
		if pan != nil {
			res.Violate("C04/panic:execute", fmt.Sprint(pan), ptxt)
			res.Count("panic", ptxt, false)
			continue
		}
		c2, pan2 := execute(root0, adb, prog, false)
		if pan2 != nil || strings.Join(c1.answers, ";") != strings.Join(c2.answers, ";") {
			res.Violate("C04/nondeterministic", "two executions of the same program on the same committed state answer differently", ptxt)
			continue
		}
		muts := 0
		walk(prog, func(o *Op, rev bool) {
			if rev && !isQuery(o.K) {
				muts++
			}
		}, false)
		class := "p002"
		switch {
		case !p002:
			class = "pre002"
		case frontier == 2:
			class = "p002-window(003 not yet)"
		case frontier < 99:
			class = "p002-partial(later proposals not yet)"
		}
		if ci >= phase2At {
			class += "/bound-token"
		} else {
			class += "/unbound-token"
		}

		// (a) queries before the snapshot vs after the revert
		for bi, b := range c1.brackets {
			ok := true
			for i := range b.before {
				if b.before[i] == b.after[i] {
					continue
				}
				ok = false
				q := b.it.Obs[i]
				bf := facts([]*Item{b.it})
				key := "C04/revert:" + q.K
				switch {
				case !p002 && (q.K == "GetBalance" || (q.K == "GetData" && q.A == tokenID)):
					key = "C04/revert:balance-unjournaled-before-proposal002"
				case q.K == "Empty":
					key = "C04/revert:Empty-depends-on-storage-caches"
				case bf.revCommitted && (q.K == "GetData" || q.K == "GetBalance" || q.K == "GetFT"):
					key = "C04/revert:getcommittedstate-overwrites-cache"
				case bf.revSuicide && q.K == "GetData" && q.A == tokenID && q.Key >= 1000 &&
					strings.HasPrefix(b.before[i], "ABy") && beEq(b.before[i], b.after[i]):
					key = "C04/revert:suicide-undo-reencodes-balance-slot"
				}
				res.Violate(key, fmt.Sprintf("query %s answered %s before Snapshot and %s after RevertToSnapshot", q.coq(), diffShow(b.before[i], b.after[i]), diffShow(b.after[i], b.before[i])),
					map[string]interface{}{"p002": p002, "regime": regime, "token_bound": ci >= phase2At, "start": coqDump(start), "program": ptxt, "bracket": trunc(coqItems([]*Item{b.it}), 4000)})
			}
			cl := class + "/revert-ok"
			if !ok {
				cl = class + "/revert-differs"
			}
			res.Count(cl, fmt.Sprintf("%s#%d", ptxt, bi), muts > 0 && len(b.before) > 0)
		}

		// (b) roots: executed+reverted vs reference replay
		ref := erase(prog)
		var fin [2]map[int]leaf
		bad := false
		commitDiffers := false
		for di, del := range []bool{false, true} {
			cx := c1
			if del {
				cx = c2
			}
			rc, rp := execute(root0, adb, ref, false)
			if rp != nil || rc.diverged != "" {
				res.Violate("C04/reference-replay-diverged", fmt.Sprint(rp, rc.diverged), ptxt)
				bad = true
				break
			}
			if di == 0 {
				// continuation: refund counter, logs (with their indices), access list and transient storage at the
				// end of the program must be those of the run in which the reverted parts never happened
				gq := globalObs()
				ga, gr := (&execCtx{s: cx.s}).ops(gq), (&execCtx{s: rc.s}).ops(gq)
				gok := true
				for i := range gq {
					if ga[i] != gr[i] {
						gok = false
						res.Violate("C04/continuation:"+gq[i].K, fmt.Sprintf("at the end of the program %s answers %s, in the reference replay of the surviving operations %s", gq[i].coq(), diffShow(ga[i], gr[i]), diffShow(gr[i], ga[i])),
							map[string]interface{}{"p002": p002, "regime": regime, "start": coqDump(start), "program": ptxt, "reference_program": coqItems(ref)})
					}
				}
				if gok {
					res.Count(class+"/continuation-globals-equal", ptxt+"/g", muts > 0)
				} else {
					res.Count(class+"/continuation-globals-differ", ptxt+"/g", muts > 0)
				}
			}
			existed := map[int]bool{}
			if del {
				for _, a := range addrIDs {
					existed[a] = cx.s.Exist(addrOf[a])
				}
			}
			ir, cr, d, e := finalise(cx, adb, del)
			if e != nil {
				res.Violate("C04/panic:finalise", fmt.Sprint(e), ptxt)
				bad = true
				break
			}
			fin[di] = d
			if del {
				lifecycle(res, cx.s, existed, class, ptxt)
			}
			if ir != cr {
				commitDiffers = true
				key := "C04/commit-differs-from-intermediate-root"
				if len(f.revTouch) > 0 {
					// a reverted touch left the object disarmed: a later Suicide marks it self-destructed without putting it
					// into the dirty set, so Finalise (dirty set) keeps the account and Commit (all objects) deletes it
					key = "C04/root-after-revert:touch-undo-leaves-dirty-callback-disarmed"
				}
				res.Violate(key, fmt.Sprintf("IntermediateRoot(%v)=%s but Commit(%v)=%s", del, ir.Hex(), del, cr.Hex()),
					map[string]interface{}{"p002": p002, "regime": regime, "start": coqDump(start), "program": ptxt})
			}
			rir, _, rd, e2 := finalise(rc, adb, del)
			if e2 != nil {
				res.Violate("C04/panic:finalise-reference", fmt.Sprint(e2), ptxt)
				bad = true
				break
			}
			// read-back after Commit + reopen (fresh AccountDB on the committed root): every account of the universe
			// with nonce, code, balance and every slot, against the reopened reference — independent of the root comparison
			if rir == ir {
				same := true
				for _, a := range addrIDs {
					if !leafEqFull(d[a], rd[a]) {
						same = false
						res.Violate("C04/reopen:equal-roots-but-different-leaves", fmt.Sprintf("account %d reads differently after Commit+reopen: got %s, reference %s", a, coqDump(map[int]leaf{a: d[a]}), coqDump(map[int]leaf{a: rd[a]})),
							map[string]interface{}{"deleteEmptyObjects": del, "program": ptxt})
					}
				}
				if same {
					res.Count(fmt.Sprintf("%s/reopen-readback-equal(del=%v)", class, del), fmt.Sprintf("%s/ro%v", ptxt, del), muts > 0)
				}
			}
			cl := fmt.Sprintf("%s/root-equal(del=%v)", class, del)
			if guarded && !del {
				cl = class + "/theorem-guarded/root-equal(del=false)"
			}
			if rir != ir {
				cl = fmt.Sprintf("%s/root-differs(del=%v)", class, del)
				key, what := classifyRoot(d, rd, start, del, p002, f)
				if commitDiffers && len(f.revTouch) > 0 && strings.Contains(key, "no-leaf-in-universe-differs") {
					key = "C04/root-after-revert:touch-undo-leaves-dirty-callback-disarmed" // the leaves were read back from Commit's trie
				}
				if guarded && !del {
					// the program satisfies the guard of theorem C04_continuation: no listed finding may explain this
					key = "C04/continuation:root-differs-under-theorem-guard"
				}
				res.Violate(key, what, map[string]interface{}{"deleteEmptyObjects": del, "p002": p002, "regime": regime, "token_bound": ci >= phase2At,
					"start": coqDump(start), "program": ptxt, "reference_program": coqItems(ref),
					"root": ir.Hex(), "reference_root": rir.Hex(), "leaves": coqDump(d), "reference_leaves": coqDump(rd)})
			}
			res.Count(cl, fmt.Sprintf("%s/%v", ptxt, del), muts > 0)
		}
		if bad {
			continue
		}
		if commitDiffers {
			// the leaves were dumped from Commit's trie, the model describes Finalise: no model case
			res.Count(class+"/commit-differs-from-finalise(no model case)", ptxt+"/cd", true)
			continue
		}
		// model case
		term := fmt.Sprintf("Case %s %s %d %s 0 %s %s [%s] %s %s", coqDump(start), coqCodes(), tokenID, hx.CoqBool(p002), hx.CoqHex(ripemdActual), ptxtFull,
			strings.Join(c1.answers, "; "), coqDump(fin[0]), coqDump(fin[1]))
		if len(term) >= 60000 {
			res.Count(class+"/too-large-for-a-model-case(direct search only)", ptxt+"/big", true)
		}
		if len(term) < 60000 {
			cs.Add(term, map[string]interface{}{"p002": p002, "regime": regime, "token_bound": ci >= phase2At, "start": coqDump(start), "program": ptxt})
		}
		if sampled < 8 && ci%37 == 0 {
			sampled++
			res.Sample(map[string]interface{}{"p002": p002, "regime": regime, "start": coqDump(start), "program": trunc(ptxt, 600), "answers": len(c1.answers),
				"leaves_after_IntermediateRoot(false)": trunc(coqDump(fin[0]), 300)})
		}
	}
	cs.Close()
	res.ModelCases = cs.Total()
	res.Write(a.Out)
}

// lifecycle checks the model of getAccountObject around the deleted flag (coq/C04/Totality.v) on the real
// AccountDB after IntermediateRoot+Commit: an address that existed and was deleted is dead (writes through
// the nil-checking entry points are dropped, CreateAccount does not bring it back, GetFT dereferences nil);
// an address that never existed can still be created.
func lifecycle(res *hx.Result, s *account.AccountDB, existed map[int]bool, class, ptxt string) {
	for _, a := range obsAddrs() {
		if a == tokenID {
			continue
		}
		ad := addrOf[a]
		now := s.Exist(ad)
		if existed[a] && !now {
			s.SetNonce(ad, 5)
			s.CreateAccount(ad)
			pan := false
			func() {
				defer func() {
					if recover() != nil {
						pan = true
					}
				}()
				s.GetFT(ad, ftName)
			}()
			if s.Exist(ad) || s.GetNonce(ad) != 0 || !pan {
				res.Violate("C04/lifecycle:deleted-object-model-mismatch", fmt.Sprintf("address %d was deleted by Finalise; afterwards Exist=%v GetNonce=%d GetFT panics=%v (model: dead address: false, 0, true)", a, s.Exist(ad), s.GetNonce(ad), pan), ptxt)
			}
			res.Count(class+"/lifecycle/deleted-address-is-dead", fmt.Sprintf("%s/lc%d", ptxt, a), true)
		} else if !existed[a] && !now {
			s.CreateAccount(ad)
			if !s.Exist(ad) {
				res.Violate("C04/lifecycle:fresh-address-not-creatable", fmt.Sprintf("address %d never existed; CreateAccount after Finalise did not create it", a), ptxt)
			}
			res.Count(class+"/lifecycle/fresh-address-creatable", fmt.Sprintf("%s/lc%d", ptxt, a), false)
		}
	}
}

// volumeProgram: thousands of journal entries of ONE kind before and inside a reverted bracket (caps, pools and
// compaction only show at volume).  Sizes sit around powers of two and round numbers.  first = the directed case
// "4090 logs, then a reverted bracket that carries the transaction past 4096 logs".
func volumeProgram(r *hx.Rng, first, thorough bool) ([]*Item, string) {
	sizes := []int{255, 256, 1000, 1023, 1024, 4095, 4096, 4097, 5000}
	if thorough {
		sizes = append(sizes, 10000)
	}
	kinds := []string{"AddLog", "AddLog", "IncNonce", "SetNonce", "SetData", "AddBalance", "SetTransient", "AddRefund", "SetCode", "Transfer", "ALSlot"}
	kind, n := kinds[r.Intn(len(kinds))], sizes[r.Intn(len(sizes))]
	before, inside := n-6, 20
	if r.Intn(2) == 0 {
		before, inside = 7, n
	}
	if first {
		kind, before, inside = "AddLog", 4090, 20
	}
	x, y := r.Intn(6), r.Intn(6)
	mk := func(i int) *Item {
		switch kind {
		case "AddLog":
			return &Item{Op: &Op{K: "AddLog", N: uint64(i % 200)}}
		case "IncNonce":
			return &Item{Op: &Op{K: "IncNonce", A: x}}
		case "SetNonce":
			return &Item{Op: &Op{K: "SetNonce", A: x, N: uint64(i%7 + 1)}}
		case "SetData":
			return &Item{Op: &Op{K: "SetData", A: x, Key: i % 4, V: []byte{byte(i%5 + 1), byte(i % 3)}}}
		case "AddBalance":
			return &Item{Op: &Op{K: "AddBalance", A: x, N: uint64(i%9 + 1)}}
		case "SetTransient":
			return &Item{Op: &Op{K: "SetTransient", A: x, Key: i % 4, N: uint64(i % 3)}}
		case "AddRefund":
			return &Item{Op: &Op{K: "AddRefund", N: uint64(i % 11)}}
		case "SetCode":
			return &Item{Op: &Op{K: "SetCode", A: x, H: 1 + i%(len(codeBlobs)-1)}}
		case "Transfer":
			if i%2 == 0 {
				return &Item{Op: &Op{K: "Transfer", A: x, B: y, N: uint64(i%5 + 1)}}
			}
			return &Item{Op: &Op{K: "Transfer", A: y, B: x, N: uint64(i%3 + 1)}}
		}
		return &Item{Op: &Op{K: "ALSlot", A: baseAddrs[i%len(baseAddrs)], Key: i / len(baseAddrs) % 4}}
	}
	obs := []*Op{{K: "GetLogs", H: 0}, {K: "GetRefund"}, {K: "GetNonce", A: x}, {K: "GetBalance", A: x}, {K: "GetBalance", A: y}, {K: "GetCodeHash", A: x},
		{K: "GetData", A: x, Key: 0}, {K: "GetData", A: x, Key: 1}, {K: "GetTransient", A: x, Key: 0}, {K: "GetTransient", A: x, Key: 1}, {K: "ALHasSlot", A: x, Key: 1}}
	prog := []*Item{{Op: &Op{K: "AddBalance", A: x, N: 100000}}, {Op: &Op{K: "AddBalance", A: y, N: 100000}}}
	for i := 0; i < before; i++ {
		prog = append(prog, mk(i))
	}
	var body []*Item
	for i := 0; i < inside; i++ {
		body = append(body, mk(before+i))
	}
	prog = append(prog, &Item{Body: body, Rv: true, Obs: obs})
	for i := 0; i < 3; i++ {
		prog = append(prog, mk(before+inside+i))
	}
	return prog, fmt.Sprintf("volume: %d x %s before the snapshot, %d inside the reverted bracket, 3 after", before, kind, inside)
}

var gateName = regexp.MustCompile(`^Proposal(\d+)Block$`)

// setRegime sets every ProposalNNNBlock of common.LocalChainConfig: NNN <= frontier active at the current height
// (gate at the height, one below it, or 0), NNN > frontier inactive (gate one above the height, or far away).
func setRegime(r *hx.Rng, frontier int) string {
	h := common.GetBlockHeight()
	v := reflect.ValueOf(&common.LocalChainConfig).Elem()
	t := v.Type()
	n := 0
	for i := 0; i < t.NumField(); i++ {
		m := gateName.FindStringSubmatch(t.Field(i).Name)
		fv := v.Field(i)
		if m == nil || fv.Kind() != reflect.Uint64 || !fv.CanSet() {
			continue
		}
		k, _ := strconv.Atoi(m[1])
		n++
		if k <= frontier {
			fv.SetUint([]uint64{0, h - 1, h}[r.Intn(3)])
		} else {
			fv.SetUint([]uint64{h + 1, 1 << 60}[r.Intn(2)])
		}
	}
	if n < 20 {
		panic("setRegime: the ProposalNNNBlock fields of common.ChainConfig were not found")
	}
	if frontier >= 99 {
		return "all proposals active"
	}
	return fmt.Sprintf("proposals 001..%03d active, later ones not (height %d)", frontier, h)
}

func coqCodes() string {
	var p []string
	for i := 1; i < len(codeBlobs); i++ {
		p = append(p, fmt.Sprintf("kv %d %s", i, hx.CoqHex(codeBlobs[i])))
	}
	return "[" + strings.Join(p, "; ") + "]"
}

// diffShow prints a long answer as its length, the part around the first difference with the other answer, and its end
func diffShow(x, other string) string {
	if len(x) <= 300 {
		return x
	}
	i := 0
	for i < len(x) && i < len(other) && x[i] == other[i] {
		i++
	}
	lo, hi := i-60, i+120
	if lo < 0 {
		lo = 0
	}
	if hi > len(x) {
		hi = len(x)
	}
	return fmt.Sprintf("<%d chars, first difference at %d> …%s… …%s", len(x), i, x[lo:hi], x[len(x)-60:])
}

func trunc(s string, n int) string {
	if len(s) > n {
		return s[:n] + "…"
	}
	return s
}

// both answers are `ABy (x "hex")`; equal as big-endian numbers?
func beEq(x, y string) bool {
	hx1 := func(s string) []byte {
		i, j := strings.Index(s, "\""), strings.LastIndex(s, "\"")
		if i < 0 || j <= i {
			return nil
		}
		b, _ := hex.DecodeString(s[i+1 : j])
		return b
	}
	return beVal(hx1(x)).Cmp(beVal(hx1(y))) == 0
}

// classifyRoot names the cause of a root difference from the leaf-level diff of the two account tries.
func classifyRoot(got, ref, start map[int]leaf, del, p002 bool, f progFacts) (string, string) {
	var keys []string
	var what []string
	for _, a := range addrIDs {
		g, r := got[a], ref[a]
		if leafEq(g, r) {
			continue
		}
		key := fmt.Sprintf("C04/root-after-revert:unclassified(addr=%d)", a)
		emptyish := func(l leaf) bool { return l.exists && l.nonce == 0 && l.hash == 0 }
		switch {
		case del && !g.exists && r.exists && emptyish(r) && len(r.store) == 0 && f.revTouch[a] && !f.revWrite[a]:
			// the only thing the reverted parts did to this empty account is a touch (zero-amount AddFT): the revert
			// did not undo it (touched flag / dirty mark survive), Finalise(true) sweeps the account.  At HEAD this
			// happens for exactly one address, the ripemd constant exempted by touchChange.undo; the key carries the
			// address class so that the same difference on any other address is a new violation
			key = "C04/root-after-revert:reverted-touch-not-undone:addr=" + addrClass(a)
		case del && g.exists != r.exists && (emptyish(g) || emptyish(r)):
			x := g
			if r.exists {
				x = r
			}
			switch {
			case len(x.store) > 0:
				key = "C04/root-after-revert:empty-ignores-committed-storage"
			case !g.exists && r.exists && start[a].exists && emptyish(start[a]) && len(start[a].store) == 0:
				// a committed empty account that the reverted part wrote to: its dirty mark survives the revert
				key = "C04/root-after-revert:dirty-mark-survives-revert"
			default:
				key = "C04/root-after-revert:empty-counts-cache-entries"
			}
		case !p002 && a == tokenID:
			key = "C04/root-after-revert:balance-unjournaled-before-proposal002"
		case f.revTouch[a] && leafEq(g, start[a]):
			key = "C04/root-after-revert:touch-undo-leaves-dirty-callback-disarmed"
		case g.exists && r.exists && g.nonce == r.nonce && g.hash == r.hash && storeDiffWithin(g.store, r.store, func(k int) bool { return f.committed[[2]int{a, k}] }):
			// GetCommittedData overwrote the cache entry of a modified slot; a later SetData journalled the overwritten value
			key = "C04/root-after-revert:getcommittedstate-overwrites-cache"
		case a == tokenID && f.revSuicide && g.exists && r.exists && g.nonce == r.nonce && g.hash == r.hash && storeNumEq(g.store, r.store):
			key = "C04/root-after-revert:suicide-undo-reencodes-balance-slot"
		}
		keys = append(keys, key)
		show := func(l leaf) string {
			if !l.exists {
				return "absent"
			}
			return coqDump(map[int]leaf{a: l})
		}
		what = append(what, fmt.Sprintf("account %d: got %s, reference %s", a, show(g), show(r)))
	}
	if len(keys) == 0 {
		return "C04/root-after-revert:unclassified(no-leaf-in-universe-differs)", "roots differ but every leaf of the universe agrees"
	}
	sort.Strings(keys)
	// an unclassified leaf must never hide behind a classified one
	for _, k := range keys {
		if strings.Contains(k, "unclassified") {
			return k, strings.Join(what, "; ")
		}
	}
	return keys[0], strings.Join(what, "; ")
}

func storeDiffWithin(x, y map[int][]byte, ok func(int) bool) bool {
	for k, v := range x {
		if !bytes.Equal(v, y[k]) && !ok(k) {
			return false
		}
	}
	for k, v := range y {
		if !bytes.Equal(v, x[k]) && !ok(k) {
			return false
		}
	}
	return true
}

func storeNumEq(x, y map[int][]byte) bool {
	ks := map[int]bool{}
	for k := range x {
		ks[k] = true
	}
	for k := range y {
		ks[k] = true
	}
	for k := range ks {
		if bytes.Equal(x[k], y[k]) {
			continue
		}
		if k < 1000 || beVal(x[k]).Cmp(beVal(y[k])) != 0 {
			return false
		}
	}
	return true
}
