package main

import (
	"fmt"
	"math/big"

	"com.tuntun.rangers/node/src/common"
	"com.tuntun.rangers/node/src/middleware/db"
	"com.tuntun.rangers/node/src/storage/account"
)

func addr(i byte) common.Address { return common.BytesToAddress([]byte{0xa0, i}) }

func main() {
	common.Init(0, "p.ini", "dev")
	common.SetBlockHeight(10)
	account.Init()
	mdb, _ := db.NewMemDatabase()
	adb := account.NewDatabase(mdb)
	s, _ := account.NewAccountDB(common.Hash{}, adb)
	fmt.Println("empty root", s.IntermediateRoot(false).Hex())
	// committed state: A storage-only; X empty account; B with nonce
	s.SetData(addr(1), []byte("k1"), []byte{1})
	s.CreateAccount(addr(2)) // X empty
	s.SetNonce(addr(3), 4)
	root, err := s.Commit(false)
	fmt.Println("commit", root.Hex(), err)
	adb.TrieDB().Commit(root, false)

	fresh := func() *account.AccountDB { x, e := account.NewAccountDB(root, adb); if e != nil { panic(e) }; return x }
	// 1 witness
	{
		s := fresh()
		id := s.Snapshot()
		s.SetNonce(addr(1), 7)
		s.RevertToSnapshot(id)
		fmt.Println("witness true ", s.IntermediateRoot(true).Hex(), " ref ", fresh().IntermediateRoot(true).Hex())
	}
	// 2 touch
	{
		s := fresh()
		fmt.Println("X exists", s.Exist(addr(2)), "empty", s.Empty(addr(2)))
		id := s.Snapshot()
		s.AddFT(addr(2), "ft", big.NewInt(0))
		s.RevertToSnapshot(id)
		s.SetNonce(addr(2), 5)
		r := fresh()
		r.SetNonce(addr(2), 5)
		fmt.Println("touch false ", s.IntermediateRoot(false).Hex(), " ref ", r.IntermediateRoot(false).Hex(), "nonce", s.GetNonce(addr(2)))
	}
	// 3 suicide eval order, token contract absent
	{
		s := fresh()
		fmt.Println("zero exists before", s.Exist(common.Address{}))
		id := s.Snapshot()
		ok := s.Suicide(addr(3))
		fmt.Println("suicide", ok, "zero exists mid", s.Exist(common.Address{}))
		s.RevertToSnapshot(id)
		fmt.Println("zero exists after", s.Exist(common.Address{}), "suicided", s.HasSuicided(addr(3)))
		fmt.Println("suicide false ", s.IntermediateRoot(false).Hex(), " ref ", fresh().IntermediateRoot(false).Hex())
	}
	// 4 GetBalance side effect
	{
		s := fresh()
		s.GetBalance(addr(3))
		fmt.Println("getbalance false ", s.IntermediateRoot(false).Hex(), " ref ", fresh().IntermediateRoot(false).Hex())
		s = fresh()
		s.GetBalance(addr(3))
		fmt.Println("getbalance true ", s.IntermediateRoot(true).Hex(), " ref ", fresh().IntermediateRoot(true).Hex())
	}
	// 5 Empty changes across revert
	{
		s := fresh()
		e0 := s.Empty(addr(1))
		id := s.Snapshot()
		s.SetData(addr(1), []byte("k1"), []byte{2})
		s.RevertToSnapshot(id)
		fmt.Println("Empty(A) before", e0, "after", s.Empty(addr(1)))
	}
	common.LocalChainConfig.Proposal002Block = 1000
	fmt.Println("p002", common.IsProposal002())
}
