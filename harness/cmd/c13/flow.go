// C13 message-layer families:
//
//	(a) share pieces travel through the node's own sender (net.NetworkServerImpl.SendKeySharePiece) over an
//	    in-memory network with scheduling perturbation, are decoded with the package's decoder and handed
//	    to the receivers' groupNodeInfo.handleSharePiece; the dealer side is the loop of
//	    groupCreateProcessor.OnMessageGroupInit (ONE SharePieceMessage allocated before the loop, fields
//	    overwritten per member - transcribed here, its validation chain is not booted); delivered(i, j)
//	    must be dealer j's polynomial at receiver i's id, and the property is checked on the resulting keys;
//	(b) the king's collection of parent-group signature pieces through tryRecoverParentGroupSig: late
//	    answers to a previous proposal (other header hash) interleaved with the answers to the current one.
package main

import (
	"bytes"
	"encoding/hex"
	"fmt"
	"math/big"
	"runtime"
	"sync"
	"time"

	"com.tuntun.rangers/node/src/common"
	"com.tuntun.rangers/node/src/consensus/base"
	"com.tuntun.rangers/node/src/consensus/groupsig"
	gc "com.tuntun.rangers/node/src/consensus/logical/group_create"
	"com.tuntun.rangers/node/src/consensus/model"
	cnet "com.tuntun.rangers/node/src/consensus/net"
	"com.tuntun.rangers/node/src/network"
	"verif/harness/hx"
)

type sentPiece struct{ dest, body []byte }

type memNet struct {
	network.Network // only SendToStranger is used by SendKeySharePiece
	mu              sync.Mutex
	sent            []sentPiece
	jitter          *hx.Rng
}

func (f *memNet) SendToStranger(id []byte, msg network.Message) {
	f.mu.Lock()
	d := time.Duration(f.jitter.Intn(300)) * time.Microsecond
	f.mu.Unlock()
	runtime.Gosched()
	time.Sleep(d)
	f.mu.Lock()
	f.sent = append(f.sent, sentPiece{append([]byte{}, id...), append([]byte{}, msg.Body...)})
	f.mu.Unlock()
}

func (f *memNet) count() int {
	f.mu.Lock()
	defer f.mu.Unlock()
	return len(f.sent)
}

func sharePieceFlow(rng *hx.Rng, res *hx.Result, cs *caseBuf, procs int, tag string) {
	if procs > 0 {
		defer runtime.GOMAXPROCS(runtime.GOMAXPROCS(procs))
	}
	const n = 5
	k := model.Param.GetGroupK(n)
	idInts := distinctIDs(rng, n)
	ids := make([]groupsig.ID, n)
	for i := range ids {
		ids[i] = mkID(idInts[i])
	}
	var gh common.Hash
	copy(gh[:], rng.Bytes(32))
	nodes := make([]*gc.VerifDKGNode, n)
	minerSK := make([]groupsig.Seckey, n)
	coef := make([][]*big.Int, n)
	secs := make([][]groupsig.Seckey, n)
	gsk := big.NewInt(0)
	for d := 0; d < n; d++ {
		mi := &model.SelfMinerInfo{}
		mi.SecretSeed = base.RandFromBytes(rng.Bytes(32))
		mi.ID = ids[d]
		nodes[d] = gc.VerifDKGNew(mi, gh, n)
		minerSK[d] = *groupsig.NewSeckeyFromRand(base.RandFromBytes(rng.Bytes(32)))
		secs[d] = nodes[d].Coefficients()
		for _, c := range secs[d] {
			coef[d] = append(coef[d], c.GetBigInt())
		}
		gsk.Add(gsk, coef[d][0]).Mod(gsk, order)
	}
	in := map[string]interface{}{"ids": strs(idInts), "gomaxprocs": procs, "tag": tag}
	fake := &memNet{jitter: rng.Fork()}
	ns := cnet.VerifC13NewSender(fake)
	got := make([]map[int]model.SharePiece, n) // receiver -> dealer -> first piece
	for i := range got {
		got[i] = map[int]model.SharePiece{}
	}
	idx := map[string]int{}
	for i, id := range ids {
		idx[id.GetHexString()] = i
	}
	panicked := false
	func() {
		defer func() {
			if p := recover(); p != nil {
				panicked = true
				res.Violate("C13/dkg-delivery:panic", fmt.Sprint(p), in)
			}
		}()
		// ---- dealing: the loop of OnMessageGroupInit, one dealer after the other ----
		for d := 0; d < n; d++ {
			pieces := nodes[d].GenSharePiece(ids)
			pub := nodes[d].SeedPubKey()
			sharePieceMessage := &model.SharePieceMessage{GroupHash: gh, GroupMemberNum: int32(n)}
			for id, sk := range pieces {
				piece := model.SharePiece{Share: sk, Pub: pub}
				if id == ids[d].GetHexString() {
					got[d][d] = piece // the node's own piece goes through send2Self -> MessageHandler; filed directly here
					continue
				}
				sharePieceMessage.ReceiverId.SetHexString(id)
				sharePieceMessage.Share = piece
				if signInfo, ok := model.NewSignInfo(minerSK[d], ids[d], sharePieceMessage); ok {
					sharePieceMessage.SignInfo = signInfo
					ns.SendKeySharePiece(sharePieceMessage)
				}
			}
		}
	}()
	if panicked {
		return
	}
	deadline := time.Now().Add(20 * time.Second)
	for fake.count() < n*(n-1) {
		if time.Now().After(deadline) {
			res.Violate("C13/dkg-delivery:lost", fmt.Sprintf("only %d of %d share piece messages reached the network", fake.count(), n*(n-1)), in)
			return
		}
		time.Sleep(2 * time.Millisecond)
	}
	fake.mu.Lock()
	sent := append([]sentPiece{}, fake.sent...)
	fake.mu.Unlock()
	for _, s := range sent {
		msg, err := cnet.VerifC13DecodeSharePiece(s.body)
		if err != nil {
			res.Violate("C13/dkg-delivery:decode", err.Error(), in)
			return
		}
		ri, ok := idx[groupsig.DeserializeID(s.dest).GetHexString()]
		di, ok2 := idx[msg.SignInfo.GetSignerID().GetHexString()]
		if !ok || !ok2 {
			res.Violate("C13/dkg-delivery:unknown-member", "a share piece was sent to / by an unknown member", in)
			return
		}
		if _, dup := got[ri][di]; !dup {
			got[ri][di] = msg.Share
		}
	}
	// delivered(i, j) = f_j(id_i): direct check and model case (the model evaluates the dealer polynomial)
	for i := 0; i < n; i++ {
		for d := 0; d < n; d++ {
			p, ok := got[i][d]
			if !ok {
				res.Violate("C13/dkg-delivery:missing", fmt.Sprintf("member %d got no piece from dealer %d", i, d), in)
				continue
			}
			want := groupsig.ShareSeckey(secs[d], ids[i])
			if !p.Share.IsEqual(*want) {
				meant := -1
				for x := 0; x < n; x++ {
					if p.Share.IsEqual(*groupsig.ShareSeckey(secs[d], ids[x])) {
						meant = x
					}
				}
				res.Violate("C13/dkg-delivery:wrong-share", fmt.Sprintf("member %d holds from dealer %d the share meant for member %d (GOMAXPROCS=%d)", i, d, meant, procs),
					map[string]interface{}{"ids": strs(idInts), "dealer": d, "dealer_coefficients": strs(coef[d]), "receiver": i, "delivered": p.Share.GetBigInt().String(), "expected": want.GetBigInt().String()})
			}
			if i != d && (i+d)%2 == 0 {
				sh := p.Share.GetBigInt()
				cs.add(fmt.Sprintf("CShare %s %s %s", zlist(coef[d]), zs(idInts[i]), zs(sh)), map[string]interface{}{"kind": "delivered-share", "dealer": d, "receiver": i, "share": sh.String()})
			}
			res.Count("delivered-share", fmt.Sprint("ds", tag, i, d, strs(idInts)), true)
		}
	}
	// ---- receivers: the node's handleSharePiece / aggregateKeys, then the property on the resulting keys ----
	keys := make([]groupsig.Seckey, n)
	var gpk groupsig.Pubkey
	for i := 0; i < n; i++ {
		mi := &model.SelfMinerInfo{}
		mi.ID = ids[i]
		nd := gc.VerifDKGNew(mi, gh, n)
		for _, d := range perm(rng, n) {
			p := got[i][d]
			nd.HandleSharePiece(ids[d], &p)
		}
		keys[i] = nd.SignSecKey()
		if i == 0 {
			gpk = nd.GroupPubKey()
		} else if !gpk.IsEqual(nd.GroupPubKey()) {
			res.Violate("C13/dkg-gpk-differs", "members computed different group public keys after the message flow", in)
		}
	}
	if !gpk.IsEqual(*groupsig.GeneratePubkey(mkSec(gsk))) {
		res.Violate("C13/group-pubkey:message-flow", "group public key differs from g2^(sum of the dealers' constant coefficients)", in)
	}
	msg := rng.Bytes(32)
	want := expectSign(gsk, msg)
	sigs := make([]groupsig.Signature, n)
	for i := range sigs {
		sigs[i] = groupsig.Sign(keys[i], msg)
	}
	for si, sub := range subsets(n, k) {
		m := map[string]groupsig.Signature{}
		for _, j := range sub {
			m[ids[j].GetHexString()] = sigs[j]
		}
		var rec *groupsig.Signature
		func() {
			defer func() {
				if p := recover(); p != nil {
					res.Violate("C13/subset-panic:message-flow", fmt.Sprint(p), in)
				}
			}()
			rec = groupsig.RecoverGroupSignature(m, k)
		}()
		if rec == nil {
			continue
		}
		if !bytes.Equal(rec.Serialize(), want) {
			res.Violate("C13/subset-order:message-flow", "after the share-piece message flow a threshold subset recovers a signature different from Sign(group secret)",
				map[string]interface{}{"ids": strs(idInts), "subset": sub, "msg": hex.EncodeToString(msg), "gomaxprocs": procs})
		}
		if si%4 == 0 && !groupsig.VerifySig(gpk, msg, *rec) {
			res.Violate("C13/subset-verify:message-flow", "after the share-piece message flow the recovered signature does not verify under the group public key",
				map[string]interface{}{"ids": strs(idInts), "subset": sub, "msg": hex.EncodeToString(msg), "gomaxprocs": procs})
		}
		res.Count("subset-message-flow", fmt.Sprint("mf", tag, sub), true)
	}
}

func permutations(n int) [][]int {
	var out [][]int
	var rec func(cur []int, used []bool)
	rec = func(cur []int, used []bool) {
		if len(cur) == n {
			out = append(out, append([]int{}, cur...))
			return
		}
		for i := 0; i < n; i++ {
			if !used[i] {
				used[i] = true
				rec(append(cur, i), used)
				used[i] = false
			}
		}
	}
	rec(nil, make([]bool, n))
	return out
}

func parentSignFamily(rng *hx.Rng, res *hx.Result, thorough bool) {
	model.Param.GroupReadyGap = 100
	model.Param.GroupWaitPongGap = 10
	const n = 5
	g := groupViaAPI(rng, res, n, model.Param.GetGroupK(n))
	ids := make([]groupsig.ID, n)
	sks := make([]groupsig.Seckey, n)
	for i := range ids {
		ids[i] = mkID(g.ids[i])
		sks[i] = mkSec(g.keys[i])
	}
	king := ids[0]
	var hA, hB common.Hash
	copy(hA[:], rng.Bytes(32))
	copy(hB[:], rng.Bytes(32))
	want := expectSign(g.gsk, hB.Bytes())
	type pc struct {
		member int
		cur    bool
		msg    *model.ParentGroupConsensusSignMessage
	}
	mk := func(member int, cur bool) pc {
		h := hA
		if cur {
			h = hB
		}
		m := &model.ParentGroupConsensusSignMessage{GroupHash: h, Launcher: king}
		si, _ := model.NewSignInfo(sks[member], ids[member], m)
		m.SignInfo = si
		return pc{member, cur, m}
	}
	// piece multisets: late answers to the previous proposal (hash A) + answers to the current one (hash B)
	families := [][]pc{
		{mk(1, false), mk(2, true), mk(3, true), mk(4, true)},
		{mk(1, false), mk(2, false), mk(1, true), mk(3, true), mk(4, true)},
		{mk(4, false), mk(1, true), mk(2, true), mk(3, true), mk(4, true)},
	}
	if thorough {
		families = append(families, []pc{mk(1, false), mk(2, false), mk(3, false), mk(1, true), mk(2, true), mk(4, true)})
	}
	verified := 0
	for fi, fam := range families {
		perms := permutations(len(fam))
		if !thorough && len(perms) > 60 {
			for i := len(perms) - 1; i > 0; i-- {
				j := rng.Intn(i + 1)
				perms[i], perms[j] = perms[j], perms[i]
			}
			perms = perms[:60]
		}
		for pi, p := range perms {
			var desc []string
			for _, x := range p {
				h := "A"
				if fam[x].cur {
					h = "B"
				}
				desc = append(desc, fmt.Sprintf("member%d/hash%s", fam[x].member, h))
			}
			in := map[string]interface{}{"ids": strs(g.ids), "k": g.k, "hashA_previous": hA.Hex(), "hashB_current": hB.Hex(), "arrival": desc}
			func() {
				defer func() {
					if q := recover(); q != nil {
						res.Violate("C13/parent-sign:panic", fmt.Sprint(q), in)
					}
				}()
				ctx := gc.VerifC13NewParentCtx(ids, g.gpk, king, hB)
				cur := map[int]bool{}
				recovered := false
				for step, x := range p {
					ok, errs := ctx.Piece(fam[x].msg)
					if fam[x].cur {
						cur[fam[x].member] = true
					}
					wantOK := len(cur) >= g.k
					if !fam[x].cur && !recovered && (ok || errs != "gHash diff") {
						res.Violate("C13/parent-sign:stale-piece-counted", fmt.Sprintf("piece #%d over the previous proposal's hash was not refused (recovered=%v, err=%q)", step, ok, errs), in)
						return
					}
					if fam[x].cur && ok != wantOK {
						res.Violate("C13/parent-sign:stale-piece-counted", fmt.Sprintf("piece #%d: recovered=%v (err=%q) with %d different members' pieces over the current hash, threshold %d", step, ok, errs, len(cur), g.k), in)
						return
					}
					if ok {
						recovered = true
						sg := ctx.ParentGroupSign()
						if !bytes.Equal(sg.Serialize(), want) {
							res.Violate("C13/parent-sign:order-dependent", "the recovered parent group signature differs from Sign(group secret, current hash)", in)
							return
						}
						if (fi+pi)%12 == 0 {
							verified++
							if !groupsig.VerifySig(g.gpk, hB.Bytes(), sg) {
								res.Violate("C13/parent-sign:invalid", "the recovered parent group signature does not verify under the parent group key on the current hash", in)
							}
						}
					}
				}
				if !recovered {
					res.Violate("C13/parent-sign:not-recovered", "threshold-many pieces over the current hash arrived but no signature was recovered", in)
				}
			}()
			res.Count(fmt.Sprintf("parent-sign-family%d", fi), fmt.Sprint("ps", fi, p), true)
		}
	}
	res.Histogram["parent-sign-verified"] += verified
}
