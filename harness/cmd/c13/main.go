// C13 harness: the node's threshold key generation / share recovery (groupsig, GroupSignGenerator,
// group_create.groupNodeInfo through the verif hook) against the Coq model over Z mod r, plus the
// direct search: every subset of at least k members, several arrival orders, must recover the one
// signature of the group secret, which verifies under the aggregated group public key.
package main

import (
	"encoding/hex"
	"fmt"
	"math/big"
	"os"
	"sort"
	"strings"
	"time"

	"com.tuntun.rangers/node/src/common"
	"com.tuntun.rangers/node/src/consensus/base"
	"com.tuntun.rangers/node/src/consensus/groupsig"
	"com.tuntun.rangers/node/src/consensus/groupsig/bn256"
	gc "com.tuntun.rangers/node/src/consensus/logical/group_create"
	"com.tuntun.rangers/node/src/consensus/model"
	"verif/harness/hx"
)

var order = bn256.Order

func zs(b *big.Int) string { return hx.CoqZ(b.String()) }
func zlist(l []*big.Int) string {
	p := make([]string, len(l))
	for i, x := range l {
		p[i] = zs(x)
	}
	return hx.CoqList(p)
}
func natlist(l []int) string {
	p := make([]string, len(l))
	for i, x := range l {
		p[i] = fmt.Sprintf("%d%%nat", x)
	}
	return hx.CoqList(p)
}
func strs(l []*big.Int) []string {
	p := make([]string, len(l))
	for i, x := range l {
		p[i] = x.String()
	}
	return p
}

// scalars: mostly uniform mod r, sometimes edge values, sometimes unreduced (>= r)
func randScalar(r *hx.Rng, allowBig bool) *big.Int {
	switch r.Intn(12) {
	case 0:
		return big.NewInt(int64(r.Intn(3)))
	case 1:
		return new(big.Int).Sub(order, big.NewInt(int64(1+r.Intn(2))))
	case 2:
		if allowBig {
			return new(big.Int).SetBytes(r.Bytes(32)) // may exceed r
		}
	}
	x := new(big.Int).SetBytes(r.Bytes(32))
	return x.Mod(x, order)
}

// ids: 32-byte values as produced by hashing (unreduced), sometimes small
func randID(r *hx.Rng) *big.Int {
	if r.Intn(6) == 0 {
		return big.NewInt(int64(1 + r.Intn(1000)))
	}
	return new(big.Int).SetBytes(r.Bytes(32))
}

func distinctIDs(r *hx.Rng, n int) []*big.Int {
	seen := map[string]bool{}
	var out []*big.Int
	for len(out) < n {
		x := randID(r)
		k := new(big.Int).Mod(x, order).String()
		if x.Sign() == 0 || seen[k] {
			continue
		}
		seen[k] = true
		out = append(out, x)
	}
	return out
}

func mkID(x *big.Int) groupsig.ID {
	var id groupsig.ID
	id.SetBigInt(x)
	return id
}

// a Seckey holding exactly x (Deserialize does not reduce)
func mkSec(x *big.Int) groupsig.Seckey {
	var s groupsig.Seckey
	s.Deserialize(x.Bytes())
	return s
}

// independent Lagrange at 0 over Z mod r (conduit value: checked against the model by Coq and against
// the implementation on the curve here)
func goLagrange(xs, ys []*big.Int) *big.Int {
	acc := big.NewInt(0)
	for i := range xs {
		num, den := big.NewInt(1), big.NewInt(1)
		for j := range xs {
			if j == i {
				continue
			}
			num.Mul(num, xs[j]).Mod(num, order)
			d := new(big.Int).Sub(xs[j], xs[i])
			den.Mul(den, d).Mod(den, order)
		}
		inv := new(big.Int).ModInverse(den, order)
		if inv == nil {
			inv = new(big.Int).Set(den)
		}
		t := new(big.Int).Mul(num, inv)
		t.Mul(t, ys[i]).Mod(t, order)
		acc.Add(acc, t).Mod(acc, order)
	}
	return acc
}

func perm(r *hx.Rng, n int) []int {
	p := make([]int, n)
	for i := range p {
		p[i] = i
	}
	for i := n - 1; i > 0; i-- {
		j := r.Intn(i + 1)
		p[i], p[j] = p[j], p[i]
	}
	return p
}

type group struct {
	n, k    int
	dealers [][]*big.Int // coefficient lists
	ids     []*big.Int
	keys    []*big.Int // member secret keys (scalars), as the node computed them
	gsk     *big.Int
	gpk     groupsig.Pubkey
	via     string
}

// key generation through the groupsig API with chosen dealer coefficients
func groupViaAPI(r *hx.Rng, res *hx.Result, n, k int) *group {
	g := &group{n: n, k: k, via: "api"}
	g.ids = distinctIDs(r, n)
	var pubs []groupsig.Pubkey
	shares := make([][]groupsig.Seckey, n) // [receiver][dealer]
	gsk := big.NewInt(0)
	for d := 0; d < n; d++ {
		cs := make([]*big.Int, k)
		secs := make([]groupsig.Seckey, k)
		for i := range cs {
			cs[i] = randScalar(r, false)
			secs[i] = *groupsig.NewSeckeyFromBigInt(new(big.Int).Set(cs[i]))
		}
		g.dealers = append(g.dealers, cs)
		pubs = append(pubs, *groupsig.GeneratePubkey(secs[0]))
		gsk.Add(gsk, cs[0]).Mod(gsk, order)
		for j := 0; j < n; j++ {
			shares[j] = append(shares[j], *groupsig.ShareSeckey(secs, mkID(g.ids[j])))
		}
	}
	for j := 0; j < n; j++ {
		g.keys = append(g.keys, groupsig.AggregateSeckeys(shares[j]).GetBigInt())
	}
	g.gsk = gsk
	g.gpk = *groupsig.AggregatePubkeys(pubs)
	return g
}

// key generation through the node's own DKG code (group_create.groupNodeInfo)
func groupViaDKG(r *hx.Rng, res *hx.Result, cs *caseBuf, n int) *group {
	g := &group{n: n, via: "dkg"}
	g.ids = distinctIDs(r, n)
	ids := make([]groupsig.ID, n)
	for i := range ids {
		ids[i] = mkID(g.ids[i])
	}
	var gh common.Hash
	copy(gh[:], r.Bytes(32))
	nodes := make([]*gc.VerifDKGNode, n)
	pieces := make([]map[string]groupsig.Seckey, n)
	pubs := make([]groupsig.Pubkey, n)
	gsk := big.NewInt(0)
	for d := 0; d < n; d++ {
		mi := &model.SelfMinerInfo{}
		mi.SecretSeed = base.RandFromBytes(r.Bytes(32))
		mi.ID = ids[d]
		nodes[d] = gc.VerifDKGNew(mi, gh, n)
		g.k = nodes[d].Threshold()
		var coef []*big.Int
		for _, s := range nodes[d].Coefficients() {
			coef = append(coef, s.GetBigInt())
		}
		g.dealers = append(g.dealers, coef)
		gsk.Add(gsk, coef[0]).Mod(gsk, order)
		pieces[d] = nodes[d].GenSharePiece(ids)
		pubs[d] = nodes[d].SeedPubKey()
	}
	var dsTerms []string
	for d := 0; d < n; d++ {
		dsTerms = append(dsTerms, fmt.Sprintf("(%s, %s)", zs(g.ids[d]), zlist(g.dealers[d])))
	}
	for j := 0; j < n; j++ {
		// arrival sequence: every dealer once in random order, repeats of already delivered dealers
		// in between, one more repeat after completion
		var arrivals []int
		for _, d := range perm(r, n) {
			arrivals = append(arrivals, d)
			if r.Intn(3) == 0 {
				arrivals = append(arrivals, arrivals[r.Intn(len(arrivals))])
			}
		}
		arrivals = append(arrivals, r.Intn(n))
		delivered := map[int]bool{}
		var rcs []string
		done := false
		for _, d := range arrivals {
			sh := pieces[d][ids[j].GetHexString()]
			rc := nodes[j].HandleSharePiece(ids[d], &model.SharePiece{Share: sh, Pub: pubs[d]})
			rcs = append(rcs, fmt.Sprintf("(%d)%%Z", rc))
			want := 0
			if delivered[d] {
				want = -1
			} else {
				delivered[d] = true
				if len(delivered) == n {
					want = 1
					done = true
				}
			}
			if rc != want {
				key := "C13/dkg-aggregate"
				if want == -1 {
					key = "C13/dkg-duplicate-piece"
				}
				res.Violate(key, fmt.Sprintf("handleSharePiece returned %d, expected %d (member %d, dealer %d, %d of %d dealers delivered)", rc, want, j, d, len(delivered), n),
					map[string]interface{}{"ids": strs(g.ids), "arrivals": arrivals})
			}
		}
		sk := nodes[j].SignSecKey().GetBigInt()
		if j < 3 {
			cs.add(fmt.Sprintf("CNode %s %s %s %s %s %s", zs(g.ids[j]), hx.CoqList(dsTerms), natlist(arrivals), hx.CoqList(rcs), hx.CoqBool(done), zs(sk)),
				map[string]interface{}{"kind": "dkg-node", "n": n, "member": j, "arrivals": arrivals, "sk": sk.String()})
		}
		res.Count("dkg-node", fmt.Sprint("nd", strs(g.ids), j, arrivals), true)
		g.keys = append(g.keys, nodes[j].SignSecKey().GetBigInt())
		if j == 0 {
			g.gpk = nodes[j].GroupPubKey()
		} else if !g.gpk.IsEqual(nodes[j].GroupPubKey()) {
			res.Violate("C13/dkg-gpk-differs", "members computed different group public keys", strs(g.ids))
		}
	}
	g.gsk = gsk
	return g
}

// model cases are buffered and written interleaved, so that the expensive ones (large groups) spread
// evenly over the shards that coqc evaluates in parallel
type caseBuf struct {
	terms []string
	descs []interface{}
}

func (c *caseBuf) add(term string, js interface{}) {
	c.terms = append(c.terms, term)
	c.descs = append(c.descs, js)
}

func (c *caseBuf) flush(out *hx.Cases, perShard int) {
	shards := (len(c.terms) + perShard - 1) / perShard
	if shards < 1 {
		shards = 1
	}
	for s0 := 0; s0 < shards; s0++ {
		for i := s0; i < len(c.terms); i += shards {
			out.Add(c.terms[i], c.descs[i])
		}
	}
}

// safeAdd runs AddWitnessSign in its own goroutine: a panic inside the generator is returned (not
// propagated), a call that does not return within 10 s is reported as stuck (lock never released).
func safeAdd(gen *model.GroupSignGenerator, id groupsig.ID, sig groupsig.Signature) (add, gend bool, panicked interface{}, stuck bool) {
	type r struct {
		add, gend bool
		p         interface{}
	}
	ch := make(chan r, 1)
	go func() {
		var out r
		defer func() {
			if p := recover(); p != nil {
				out.p = p
			}
			ch <- out
		}()
		out.add, out.gend = gen.AddWitnessSign(id, sig)
	}()
	select {
	case o := <-ch:
		return o.add, o.gend, o.p, false
	case <-time.After(10 * time.Second):
		return false, false, nil, true
	}
}

// usable reports whether the generator still answers (its lock is free) after an incident
func usable(gen *model.GroupSignGenerator) bool {
	ch := make(chan bool, 1)
	go func() {
		defer func() { recover(); ch <- true }()
		gen.SignRecovered()
		gen.WitnessCount()
		gen.GetWitnessSign(mkID(big.NewInt(1)))
	}()
	select {
	case <-ch:
		return true
	case <-time.After(5 * time.Second):
		return false
	}
}

// expectSign is Sign(sk, msg) computed without groupsig: H(msg) straight from bn256.HashToPoint, times sk
func expectSign(sk *big.Int, msg []byte) []byte {
	h := new(bn256.G1)
	h.HashToPoint(msg)
	return new(bn256.G1).ScalarMult(h, sk).Marshal()
}

func subsets(n, minSize int) [][]int {
	var out [][]int
	for m := 0; m < 1<<uint(n); m++ {
		var s []int
		for i := 0; i < n; i++ {
			if m>>uint(i)&1 == 1 {
				s = append(s, i)
			}
		}
		if len(s) >= minSize {
			out = append(out, s)
		}
	}
	return out
}

func main() {
	if p := os.Getenv("C13_CONC_CHILD"); p != "" {
		concChildMain(p)
		return
	}
	a := hx.ParseArgs()
	rng := hx.NewRng(a.Seed)
	res := hx.NewResult("direct search: groups of n=3..10 members (k=GetGroupK(n)) built with the groupsig API and with the node's DKG code; " +
		"every subset of >= k members (quick: all for n<=7, 40 sampled per larger n; thorough: all), 3 arrival orders each, through AddWitnessSign and through RecoverGroupSignature; " +
		"arrival orders with a piece re-delivered before the threshold (panic or stuck lock inside AddWitnessSign = violation); several messages per group in one process (lengths 0..100, shared 32-byte suffix/prefix, zero-padded forms, shuffled and repeated): Sign = key*HashToPoint(msg) computed independently, share verifies for its own message only, recovered signature verifies under the group key; " +
		"3-of-5 groups on the executable curve model (every delta_i*sig_i, the combination and gsk*H(m) recomputed by the model and compared with the returned bytes); " +
		"share pieces through the node's sender over an in-memory network (delivered share matrix = dealer polynomial at the receiver's id; property on the resulting keys) and the king's parent-group piece collection with stale pieces for another hash in all small arrival orders; " +
		"dealer determinism and dealer-restart schedules; the share-piece request path (OnMessageSharePieceReq) with candidates != members; " +
		"several groups processed concurrently (own group per goroutine, every API result compared with its sequential reference; -race in the thorough tier) and the inventory of package-level state in groupsig/bn256; " +
		"repeated members and repeated dealer pieces must be refused, RandomPerm/getRandomKSignInfo must return a k-subset, GetGroupK(n) = ceil(51n/100) for n < 3000; " +
		"model cases: ShareSeckey/AggregateSeckeys scalars, recovery with arbitrary share scalars (map and ordered slices, ids congruent mod r, repeated id), DKG runs, per-member handleSharePiece runs, RandomPerm, GetGroupK, generator runs. " +
		"non-trivial = distinct (group, subset, order, path) with |subset| >= k, or a model case with >= 2 points")
	cs := &caseBuf{}
	model.Param.SSSSThreshold = model.SSSS_THRESHOLD
	model.Param.GroupMemberMax = model.GROUP_MAX_MEMBERS
	model.Param.GroupMemberMin = 3
	gc.VerifDKGInit()
	thorough := a.Tier == "thorough"

	// ---- GetGroupK ----
	for base0 := 0; base0 < 3000; base0 += 1000 {
		var pairs []string
		for n := base0; n < base0+1000; n++ {
			k := model.Param.GetGroupK(n)
			pairs = append(pairs, fmt.Sprintf("(%d,%d)%%Z", n, k))
			if n >= 1 && (k < 1 || k > n || 2*k <= n) {
				res.Violate("C13/threshold-range", fmt.Sprintf("GetGroupK(%d)=%d", n, k), n)
			}
			if want := (n*51 + 99) / 100; k != want {
				res.Violate("C13/threshold-ceil", fmt.Sprintf("GetGroupK(%d)=%d, ceil(51n/100)=%d", n, k, want), n)
			}
			res.Count("groupk", fmt.Sprint("k", n), n >= 1)
		}
		cs.add("CK "+hx.CoqList(pairs), map[string]int{"groupk_from": base0})
	}

	// large group sizes (up to 2^52/51, the range of C13_threshold_float_general): ties the integer
	// model of the float64 division/Ceil far beyond the node's range
	{
		var pairs []string
		lim := (int64(1) << 52) / 51
		for i := 0; i < 300; i++ {
			var n int64
			switch i % 4 {
			case 0:
				n = int64(rng.U64()%uint64(lim/100)) * 100 // 51n/100 integral
			case 1:
				n = lim - int64(rng.Intn(1000))
			case 2:
				n = int64(rng.U64() % uint64(int64(1)<<uint(10+rng.Intn(36))))
			default:
				n = int64(rng.U64() % uint64(lim))
			}
			k := model.Param.GetGroupK(int(n))
			want := new(big.Int).Mul(big.NewInt(n), big.NewInt(51))
			want.Add(want, big.NewInt(99)).Div(want, big.NewInt(100))
			if want.Cmp(big.NewInt(int64(k))) != 0 {
				res.Violate("C13/threshold-ceil", fmt.Sprintf("GetGroupK(%d)=%d, ceil(51n/100)=%s", n, k, want), n)
			}
			pairs = append(pairs, fmt.Sprintf("(%d,%d)%%Z", n, k))
			res.Count("groupk-large", fmt.Sprint("K", n), true)
		}
		cs.add("CK "+hx.CoqList(pairs), map[string]string{"groupk": "large"})
	}

	// outside the guard k <= n: RecoverGroupSignature with a threshold larger than the map (padded nil
	// signatures) and with threshold 0; outcome classes only - both GroupSignGenerator copies call it
	// under len(map) >= threshold and GetGroupK(n) >= 1, so this is not reachable from the collector
	for i := 0; i < 24; i++ {
		n := rng.Intn(5)
		k := n + 1 + rng.Intn(3)
		if i%4 == 3 {
			n, k = 1+rng.Intn(4), 0
		}
		m := map[string]groupsig.Signature{}
		msg := rng.Bytes(8)
		for _, x := range distinctIDs(rng, n) {
			m[mkID(x).GetHexString()] = groupsig.Sign(mkSec(randScalar(rng, false)), msg)
		}
		class := "returned"
		func() {
			defer func() {
				if p := recover(); p != nil {
					class = "panic"
				}
			}()
			if sg := groupsig.RecoverGroupSignature(m, k); sg == nil {
				class = "nil"
			}
		}()
		if k == 0 {
			res.Count("outside-guard:k=0:"+class, fmt.Sprint("og", i), false)
		} else {
			res.Count("outside-guard:k>n:"+class, fmt.Sprint("og", i), false)
		}
	}
	// a collector that is short of the threshold never calls the recovery
	for n := 0; n < 4; n++ {
		gen := model.NewGroupSignGenerator(n + 1)
		msg := rng.Bytes(8)
		func() {
			defer func() {
				if p := recover(); p != nil {
					res.Violate("C13/collector-short-panic", fmt.Sprint(p), n)
				}
			}()
			for _, x := range distinctIDs(rng, n) {
				if _, gend := gen.AddWitnessSign(mkID(x), groupsig.Sign(mkSec(randScalar(rng, false)), msg)); gend {
					res.Violate("C13/collector-short-generated", fmt.Sprintf("generated with %d of %d shares", n, n+1), n)
				}
			}
			if gen.SignRecovered() {
				res.Violate("C13/collector-short-generated", fmt.Sprintf("recovered with %d of %d shares", n, n+1), n)
			}
		}()
		res.Count("collector-short", fmt.Sprint("cs", n), n >= 1)
	}

	nShare, nAgg, nRec, nGen := a.N/4, a.N/10, a.N/3, a.N/5
	// ---- ShareSeckey ----
	for i := 0; i < nShare; i++ {
		k := 1 + rng.Intn(7)
		csz := make([]*big.Int, k)
		secs := make([]groupsig.Seckey, k)
		for j := range csz {
			csz[j] = randScalar(rng, true)
			secs[j] = mkSec(csz[j])
		}
		id := randID(rng)
		sh := groupsig.ShareSeckey(secs, mkID(id)).GetBigInt()
		cs.add(fmt.Sprintf("CShare %s %s %s", zlist(csz), zs(id), zs(sh)), map[string]interface{}{"kind": "share", "coeffs": strs(csz), "id": id.String(), "share": sh.String()})
		res.Count("share", "s"+id.String()+fmt.Sprint(strs(csz)), k >= 2)
	}
	// ---- AggregateSeckeys ----
	for i := 0; i < nAgg; i++ {
		n := 1 + rng.Intn(10)
		l := make([]*big.Int, n)
		secs := make([]groupsig.Seckey, n)
		for j := range l {
			l[j] = randScalar(rng, true)
			secs[j] = mkSec(l[j])
		}
		s := groupsig.AggregateSeckeys(secs).GetBigInt()
		cs.add(fmt.Sprintf("CAgg %s %s", zlist(l), zs(s)), map[string]interface{}{"kind": "agg", "l": strs(l), "sum": s.String()})
		res.Count("agg", "a"+fmt.Sprint(strs(l)), n >= 2)
	}
	// ---- recovery coefficients with arbitrary share scalars ----
	for i := 0; i < nRec; i++ {
		k := 1 + rng.Intn(7)
		xs := distinctIDs(rng, k)
		class := "recover"
		if k >= 2 && rng.Intn(12) == 0 {
			// two ids congruent modulo r (x and x+r both fit in 32 bytes when x is small enough)
			xs[0] = new(big.Int).Rsh(xs[0], 2)
			xs[1] = new(big.Int).Add(xs[0], order)
			class = "recover-congruent-ids"
		}
		ys := make([]*big.Int, k)
		msg := rng.Bytes(32)
		m := map[string]groupsig.Signature{}
		for j := range xs {
			ys[j] = randScalar(rng, false)
			m[mkID(xs[j]).GetHexString()] = groupsig.Sign(mkSec(ys[j]), msg)
		}
		s := goLagrange(xs, ys)
		func() {
			defer func() {
				if p := recover(); p != nil {
					res.Violate("C13/recover-panic", fmt.Sprint(p), strs(xs))
				}
			}()
			got := groupsig.RecoverGroupSignature(m, k)
			if !got.IsEqual(groupsig.Sign(mkSec(s), msg)) {
				res.Violate("C13/recover-coefficients", "RecoverGroupSignature differs from sum_i delta_i*share_i", map[string]interface{}{"xs": strs(xs), "ys": strs(ys)})
			}
		}()
		cs.add(fmt.Sprintf("CRecover %s %s %s", zlist(xs), zlist(ys), zs(s)), map[string]interface{}{"kind": class, "xs": strs(xs), "ys": strs(ys), "s": s.String()})
		res.Count(class, "r"+fmt.Sprint(strs(xs), strs(ys)), k >= 2)
	}
	// ---- recoverSignature on ordered slices (hook), including a repeated id ----
	for i := 0; i < nRec/3; i++ {
		k := 2 + rng.Intn(6)
		xs := distinctIDs(rng, k)
		class := "recover-ordered"
		if rng.Intn(4) == 0 {
			xs[rng.Intn(k-1)+1] = xs[0]
			class = "recover-ordered-repeated-id"
		}
		ys := make([]*big.Int, k)
		msg := rng.Bytes(32)
		ids := make([]groupsig.ID, k)
		sigs := make([]groupsig.Signature, k)
		for j := range xs {
			ys[j] = randScalar(rng, false)
			ids[j] = mkID(xs[j])
			sigs[j] = groupsig.Sign(mkSec(ys[j]), msg)
		}
		s := goLagrange(xs, ys)
		func() {
			defer func() {
				if p := recover(); p != nil {
					res.Violate("C13/recover-panic", fmt.Sprint(p), strs(xs))
				}
			}()
			got := groupsig.VerifC13RecoverSignature(sigs, ids)
			if !got.IsEqual(groupsig.Sign(mkSec(s), msg)) {
				res.Violate("C13/recover-coefficients", "recoverSignature differs from sum_i delta_i*share_i", map[string]interface{}{"xs": strs(xs), "ys": strs(ys)})
			}
		}()
		cs.add(fmt.Sprintf("CRecover %s %s %s", zlist(xs), zlist(ys), zs(s)), map[string]interface{}{"kind": class, "xs": strs(xs), "ys": strs(ys), "s": s.String()})
		res.Count(class, "ro"+fmt.Sprint(strs(xs), strs(ys)), true)
	}
	// ---- base.Rand.RandomPerm and getRandomKSignInfo (hook) ----
	for i := 0; i < a.N/6; i++ {
		n := 1 + rng.Intn(12)
		k := rng.Intn(n + 1)
		rd := base.RandFromBytes(rng.Bytes(16))
		var out []int
		func() {
			defer func() {
				if p := recover(); p != nil {
					res.Violate("C13/randomperm-panic", fmt.Sprint(p), []int{n, k})
				}
			}()
			out = rd.RandomPerm(n, k)
		}()
		js := make([]int, k)
		for t := 0; t < k; t++ {
			js[t] = rd.Deri(t).Modulo(n-t) + t
		}
		seen := map[int]bool{}
		okp := len(out) == k
		for _, v := range out {
			if v < 0 || v >= n || seen[v] {
				okp = false
			}
			seen[v] = true
		}
		if !okp {
			res.Violate("C13/randomperm-not-a-k-subset", fmt.Sprintf("RandomPerm(%d,%d) = %v", n, k, out), map[string]interface{}{"n": n, "k": k, "rand": rd.GetHexString()})
		}
		cs.add(fmt.Sprintf("CPerm %d%%nat %d%%nat %s %s", n, k, natlist(js), natlist(out)), map[string]interface{}{"kind": "randomperm", "n": n, "k": k, "js": js, "out": out})
		res.Count("randomperm", fmt.Sprint("p", n, k, js), k >= 1)

		// the subset RecoverGroupSignature recovers from: exactly k entries of the map, values unchanged
		if k >= 1 {
			m := map[string]groupsig.Signature{}
			msg := rng.Bytes(8)
			for _, x := range distinctIDs(rng, n) {
				m[mkID(x).GetHexString()] = groupsig.Sign(mkSec(randScalar(rng, false)), msg)
			}
			func() {
				defer func() {
					if p := recover(); p != nil {
						res.Violate("C13/select-panic", fmt.Sprint(p), []int{n, k})
					}
				}()
				sub := groupsig.VerifC13RandomKSignInfo(m, k)
				okq := len(sub) == k
				for key, v := range sub {
					if w, ok := m[key]; !ok || !w.IsEqual(v) {
						okq = false
					}
				}
				if !okq {
					res.Violate("C13/select-not-a-k-subset", fmt.Sprintf("getRandomKSignInfo over %d entries, k=%d returned %d entries", n, k, len(sub)), []int{n, k})
				}
			}()
			res.Count("select-k", fmt.Sprint("q", i, n, k), true)
		}
	}

	// ---- GroupSignGenerator runs ----
	for i := 0; i < nGen; i++ {
		thr := 1 + rng.Intn(6)
		nm := thr - 1 + rng.Intn(5)
		if nm < 1 {
			nm = 1
		}
		ids := distinctIDs(rng, nm)
		poly := make([]*big.Int, thr) // consistent shares in half of the runs
		for j := range poly {
			poly[j] = randScalar(rng, false)
		}
		consistent := rng.Bool()
		msg := rng.Bytes(32)
		gen := model.NewGroupSignGenerator(thr)
		var msgs, obs []string
		var firstX, firstY []*big.Int
		seen := map[string]bool{}
		steps := nm + rng.Intn(4)
		var js []interface{}
		broken := false
		for st := 0; st < steps; st++ {
			j := rng.Intn(nm)
			var y *big.Int
			if consistent {
				y = evalPoly(poly, ids[j])
			} else {
				y = randScalar(rng, false)
			}
			add, gend, pan, stuck := safeAdd(gen, mkID(ids[j]), groupsig.Sign(mkSec(y), msg))
			if pan != nil || stuck {
				js = append(js, []interface{}{ids[j].String(), y.String(), "panic/stuck"})
				res.Violate("C13/collector-panic", fmt.Sprintf("AddWitnessSign #%d (threshold %d) panicked=%v stuck=%v; generator usable afterwards=%v", st, thr, pan, stuck, usable(gen)), js)
				broken = true
				break
			}
			msgs = append(msgs, fmt.Sprintf("(%s,%s)", zs(ids[j]), zs(y)))
			obs = append(obs, fmt.Sprintf("(%s,%s)", hx.CoqBool(add), hx.CoqBool(gend)))
			js = append(js, []interface{}{ids[j].String(), y.String(), add, gend})
			if !seen[ids[j].String()] && len(firstX) < thr {
				seen[ids[j].String()] = true
				firstX, firstY = append(firstX, ids[j]), append(firstY, y)
			}
		}
		if broken {
			res.Count("gen-panic", "g"+fmt.Sprint(js), true)
			continue
		}
		rec := gen.SignRecovered()
		s := big.NewInt(0)
		if rec {
			s = goLagrange(firstX, firstY)
			if !gen.GetGroupSign().IsEqual(groupsig.Sign(mkSec(s), msg)) {
				res.Violate("C13/generator-recovered-value", "GroupSignGenerator recovered a signature different from the Lagrange combination of its first k distinct shares", js)
			}
			if consistent && s.Cmp(new(big.Int).Mod(poly[0], order)) != 0 {
				res.Violate("C13/generator-consistent", "consistent shares did not recover the shared secret", js)
			}
		}
		if rec != (len(firstX) >= thr) {
			res.Violate("C13/generator-liveness", fmt.Sprintf("recovered=%v with %d distinct shares, threshold %d", rec, len(firstX), thr), js)
		}
		cs.add(fmt.Sprintf("CGen %d%%nat %s %s %s %s", thr, hx.CoqList(msgs), hx.CoqList(obs), hx.CoqBool(rec), zs(s)), map[string]interface{}{"kind": "gen", "thr": thr, "steps": js})
		res.Count(fmt.Sprintf("gen-recovered-%v", rec), "g"+fmt.Sprint(js), true)
	}

	// ---- groups: DKG correspondence + direct subset/order search ----
	rounds := 1 + a.N/400
	if thorough {
		rounds = 2 + a.N/4000
	}
	sampled := 0
	for round := 0; round < rounds; round++ {
		for n := 3; n <= 10; n++ {
			var g *group
			if (round+n)%2 == 0 {
				g = groupViaDKG(rng, res, cs, n)
			} else {
				g = groupViaAPI(rng, res, n, model.Param.GetGroupK(n))
			}
			if g.k != model.Param.GetGroupK(n) {
				res.Violate("C13/dkg-threshold", fmt.Sprintf("node threshold %d for n=%d", g.k, n), n)
			}
			msg := rng.Bytes(32)
			gskSec := mkSec(g.gsk)
			want := groupsig.Sign(gskSec, msg)
			if !groupsig.GeneratePubkey(gskSec).IsEqual(g.gpk) {
				res.Violate("C13/group-pubkey:"+g.via, "aggregated group public key differs from g2^(sum of dealers' constant coefficients)", strs(g.ids))
			}
			if !groupsig.VerifySig(g.gpk, msg, want) {
				res.Violate("C13/group-sig-verify:"+g.via, "Sign(group secret) does not verify under the aggregated group public key", strs(g.ids))
			}
			// every member's share verifies under its public share
			shareSigs := make([]groupsig.Signature, n)
			for j := 0; j < n; j++ {
				sk := mkSec(g.keys[j])
				shareSigs[j] = groupsig.Sign(sk, msg)
				if !groupsig.VerifySig(*groupsig.GeneratePubkey(sk), msg, shareSigs[j]) {
					res.Violate("C13/share-verify:"+g.via, "member share signature does not verify under the member's public share", map[string]interface{}{"ids": strs(g.ids), "member": j})
				}
			}
			// model case
			var sels []string
			for t := 0; t < 3; t++ {
				p := perm(rng, n)
				sz := g.k
				if t == 2 {
					sz = g.k + rng.Intn(n-g.k+1)
				}
				sels = append(sels, natlist(p[:sz]))
			}
			var dl []string
			var djs [][]string
			for _, d := range g.dealers {
				dl = append(dl, zlist(d))
				djs = append(djs, strs(d))
			}
			cs.add(fmt.Sprintf("CDkg %s %s %s %s %s", hx.CoqList(dl), zlist(g.ids), zlist(g.keys), zs(g.gsk), hx.CoqList(sels)),
				map[string]interface{}{"kind": "dkg:" + g.via, "n": n, "k": g.k, "dealers": djs, "ids": strs(g.ids), "keys": strs(g.keys), "gsk": g.gsk.String()})
			res.Count("dkg-"+g.via, fmt.Sprint("d", strs(g.ids)), true)

			// arrival orders with a re-delivered piece BEFORE the threshold is reached, then further
			// pieces: the repeat must be refused and must not count; the signature must appear exactly
			// when k different members were heard and equal Sign(group secret)
			for dup := 0; dup+1 < g.k || dup == 0; dup++ {
				p := perm(rng, n)
				var arrival []int
				arrival = append(arrival, p[:dup+1]...)
				arrival = append(arrival, p[rng.Intn(dup+1)]) // the repeat
				if rng.Bool() && dup+1 < g.k {
					arrival = append(arrival, p[rng.Intn(dup+1)]) // sometimes twice
				}
				arrival = append(arrival, p[dup+1:]...)
				gen := model.NewGroupSignGenerator(g.k)
				distinct := map[int]bool{}
				bad := false
				for pos, j := range arrival {
					isDup := distinct[j]
					distinct[j] = true
					wasDone := len(distinct) > g.k || (len(distinct) == g.k && isDup)
					add, gend, pan, stuck := safeAdd(gen, mkID(g.ids[j]), shareSigs[j])
					if pan != nil || stuck {
						res.Violate("C13/collector-panic:"+g.via, fmt.Sprintf("AddWitnessSign #%d (member %d, k=%d, %d different members so far) panicked=%v stuck=%v; generator usable afterwards=%v", pos, j, g.k, len(distinct), pan, stuck, usable(gen)),
							map[string]interface{}{"n": n, "k": g.k, "ids": strs(g.ids), "arrival": arrival})
						bad = true
						break
					}
					wantAdd := !isDup && !wasDone
					wantGen := len(distinct) >= g.k
					if add != wantAdd || gend != wantGen {
						res.Violate("C13/collector-duplicate-order:"+g.via, fmt.Sprintf("AddWitnessSign #%d (member %d, repeat=%v, %d different members, k=%d) returned add=%v generated=%v, expected %v %v", pos, j, isDup, len(distinct), g.k, add, gend, wantAdd, wantGen),
							map[string]interface{}{"n": n, "k": g.k, "ids": strs(g.ids), "arrival": arrival})
						bad = true
						break
					}
				}
				if !bad {
					if got := gen.GetGroupSign(); !got.IsEqual(want) {
						res.Violate("C13/collector-duplicate-order:"+g.via, "signature recovered after a re-delivered piece differs from Sign(group secret)",
							map[string]interface{}{"n": n, "k": g.k, "ids": strs(g.ids), "arrival": arrival})
					}
				}
				res.Count("dup-before-threshold", fmt.Sprint("db", round, n, arrival), true)
			}

			// several messages per group in one process: Sign must be a function of (key, message),
			// whatever was hashed before (lengths 0..100, pairs sharing a 32-byte suffix / prefix, a
			// short message and its zero-left-padded 32-byte form)
			if n <= 6 {
				messageFamilies(rng, res, g, fmt.Sprint(round, n))
			}

			// direct search over subsets and orders
			subs := subsets(n, g.k)
			if !thorough && n > 7 {
				for i := len(subs) - 1; i > 0; i-- {
					j := rng.Intn(i + 1)
					subs[i], subs[j] = subs[j], subs[i]
				}
				subs = subs[:40]
			}
			for si, sub := range subs {
				for ord := 0; ord < 3; ord++ {
					func() {
						defer func() {
							if p := recover(); p != nil {
								res.Violate("C13/subset-panic:"+g.via, fmt.Sprint(p), map[string]interface{}{"n": n, "k": g.k, "ids": strs(g.ids), "subset": sub})
							}
						}()
						p := perm(rng, len(sub))
						arrival := make([]int, len(sub))
						for i, x := range p {
							arrival[i] = sub[x]
						}
						// path 1: the share collector in arrival order
						gen := model.NewGroupSignGenerator(g.k)
						for pos, j := range arrival {
							add, gend := gen.AddWitnessSign(mkID(g.ids[j]), shareSigs[j])
							if (pos < g.k) != add || (pos >= g.k-1) != gend {
								res.Violate("C13/collector-flags:"+g.via, fmt.Sprintf("AddWitnessSign #%d of %d (k=%d) returned add=%v generated=%v", pos, len(arrival), g.k, add, gend), arrival)
							}
							// the same member again must not count towards the threshold
							if pos < g.k-1 && ord == 0 {
								if add2, gend2 := gen.AddWitnessSign(mkID(g.ids[arrival[rng.Intn(pos+1)]]), shareSigs[j]); add2 || gend2 {
									res.Violate("C13/collector-duplicate:"+g.via, fmt.Sprintf("a repeated member was accepted (add=%v generated=%v) after %d of %d shares", add2, gend2, pos+1, g.k), arrival)
								}
							}
						}
						got1 := gen.GetGroupSign()
						// path 2: RecoverGroupSignature over the whole subset (internal random k-selection)
						m := map[string]groupsig.Signature{}
						for _, j := range arrival {
							m[mkID(g.ids[j]).GetHexString()] = shareSigs[j]
						}
						got2 := groupsig.RecoverGroupSignature(m, g.k)
						for pi, got := range []groupsig.Signature{got1, *got2} {
							path := []string{"collector", "recover"}[pi]
							ok := got.IsEqual(want)
							if !ok {
								res.Violate(fmt.Sprintf("C13/subset-order:%s:%s", path, g.via), "recovered signature differs from Sign(group secret)",
									map[string]interface{}{"n": n, "k": g.k, "ids": strs(g.ids), "dealers": djs, "arrival": arrival, "msg": hex.EncodeToString(msg)})
							}
							if (si+ord+pi)%5 == 0 || !ok {
								if !groupsig.VerifySig(g.gpk, msg, got) {
									res.Violate(fmt.Sprintf("C13/subset-verify:%s:%s", path, g.via), "recovered signature does not verify under the group public key",
										map[string]interface{}{"n": n, "k": g.k, "ids": strs(g.ids), "dealers": djs, "arrival": arrival, "msg": hex.EncodeToString(msg)})
								}
								res.Histogram["verified-under-gpk"]++
							}
							res.Count(fmt.Sprintf("subset-n%d-%s", n, path), fmt.Sprint(round, n, arrival, pi), true)
						}
					}()
				}
				if sampled < 6 && si%17 == 3 {
					sampled++
					res.Sample(map[string]interface{}{"n": n, "k": g.k, "via": g.via, "subset": sub, "gsk": g.gsk.String(), "sig": hex.EncodeToString(want.Serialize())})
				}
			}
		}
	}
	// ---- the group-level recovery on the executable curve model (C14): 3-of-5 groups with real keys;
	// every scalar multiplication is a separate model case (about 30 s of vm_compute each), the terms are
	// then combined by the model's affine addition and compared with what RecoverGroupSignature returned
	curveGroups := 1
	if thorough {
		curveGroups = 3
	}
	curveBuf := &caseBuf{}
	for cg := 0; cg < curveGroups; cg++ {
		curveCases(rng, res, curveBuf, cg, thorough)
	}

	// ---- message layer: share pieces through the node's sender; parent-group signature pieces ----
	for fi, procs := range []int{1, 0, 4} {
		if fi < 2 || thorough {
			sharePieceFlow(rng, res, cs, procs, fmt.Sprint("flow", fi))
		}
	}
	parentSignFamily(rng, res, thorough)
	dealerRestartFamily(rng, res)
	for _, w := range [][2]int{{6, 5}, {4, 3}, {5, 5}} {
		requestPathFamily(rng, res, cs, w[0], w[1])
	}
	if thorough {
		requestPathFamily(rng, res, cs, 11, 10)
	}

	// ---- several groups processed concurrently; inventory of package-level state ----
	concurrencyFamily(a, res)
	runInventory(res)

	if thorough {
		res.Exhaustive = true
		res.Note("exhaustive: every subset of >= k members for every n in 3..10, 3 arrival orders each")
	} else {
		res.Note("every subset of >= k members for n in 3..7; 40 sampled subsets for n in 8..10")
	}
	keys := make([]string, 0)
	for k := range res.Histogram {
		keys = append(keys, k)
	}
	sort.Strings(keys)
	fmt.Println("histogram:", strings.Join(keys, " "))
	// the driver evaluates at most 12 shards at a time.  Every curve case (one ~30 s scalar multiplication)
	// is a shard of its own (family cases_curveNNN.v); in the quick tier the other cases fill the
	// remaining slots with equally sized shards
	perShard := 50
	if !thorough {
		slots := 12 - len(curveBuf.terms)
		if slots < 4 {
			slots = 4
		}
		if ps := (len(cs.terms) + slots - 1) / slots; ps > perShard {
			perShard = ps
		}
	}
	out := hx.NewCases(a.Out, "From V.C13 Require Import Model Harness.", "case", "check", perShard)
	cs.flush(out, perShard)
	curveOut := hx.NewCasesNamed(a.Out, "curve", "From V.C13 Require Import Model Harness.", "case", "check", 1)
	curveBuf.flush(curveOut, 1)
	curveOut.Close()
	out.Close()
	res.ModelCases = out.Total() + curveOut.Total()
	res.Write(a.Out)
}

func messageFamilies(rng *hx.Rng, res *hx.Result, g *group, tag string) {
	var fam [][]byte
	for _, l := range []int{0, 1, 31, 32, 33, 64, 100} {
		fam = append(fam, rng.Bytes(l))
	}
	tail := rng.Bytes(32)
	fam = append(fam, append(rng.Bytes(32), tail...), append(rng.Bytes(32), tail...)) // same 32-byte suffix
	fam = append(fam, append(rng.Bytes(68), tail...), append([]byte{}, tail...))      // longer message / the bare suffix
	head := rng.Bytes(32)
	fam = append(fam, append(append([]byte{}, head...), rng.Bytes(32)...), append(append([]byte{}, head...), rng.Bytes(32)...)) // same prefix
	short := rng.Bytes(5)
	fam = append(fam, short, append(make([]byte, 27), short...)) // short vs zero-left-padded to 32 bytes
	fam = append(fam, append(append([]byte{}, short...), make([]byte, 27)...))
	// processing order: shuffled, every message twice
	order := append(perm(rng, len(fam)), perm(rng, len(fam))...)
	sigOf := map[string]string{}
	sks := make([]groupsig.Seckey, g.n)
	pks := make([]groupsig.Pubkey, g.n)
	for j := range sks {
		sks[j] = mkSec(g.keys[j])
		pks[j] = *groupsig.GeneratePubkey(sks[j])
	}
	for step, mi := range order {
		msg := fam[mi]
		in := map[string]interface{}{"n": g.n, "k": g.k, "msg": hex.EncodeToString(msg), "processed_before": step, "order": order}
		func() {
			defer func() {
				if p := recover(); p != nil {
					res.Violate("C13/messages-panic", fmt.Sprint(p), in)
				}
			}()
			shares := map[string]groupsig.Signature{}
			members := perm(rng, g.n)[:g.k]
			for _, j := range members {
				sg := groupsig.Sign(sks[j], msg)
				if hex.EncodeToString(sg.Serialize()) != hex.EncodeToString(expectSign(g.keys[j], msg)) {
					res.Violate("C13/pure:sign-depends-on-history", fmt.Sprintf("Sign(key of member %d, msg) differs from key*HashToPoint(msg) after %d other signing rounds", j, step), in)
				}
				if !groupsig.VerifySig(pks[j], msg, sg) {
					res.Violate("C13/share-verify:messages", fmt.Sprintf("share of member %d does not verify under its public share for this message", j), in)
				}
				shares[mkID(g.ids[j]).GetHexString()] = sg
			}
			// a share for this message must not verify for another message of the family
			other := fam[(mi+1+rng.Intn(len(fam)-1))%len(fam)]
			if string(other) != string(msg) {
				j := members[0]
				if groupsig.VerifySig(pks[j], other, shares[mkID(g.ids[j]).GetHexString()]) {
					in["other"] = hex.EncodeToString(other)
					res.Violate("C13/share-verify:other-message", "a share verifies under the member's public share for a different message", in)
				}
			}
			rec := groupsig.RecoverGroupSignature(shares, g.k)
			recHex := hex.EncodeToString(rec.Serialize())
			if recHex != hex.EncodeToString(expectSign(g.gsk, msg)) {
				res.Violate("C13/subset-order:messages", "recovered signature differs from (group secret)*HashToPoint(msg)", in)
			}
			if !groupsig.VerifySig(g.gpk, msg, *rec) {
				res.Violate("C13/subset-verify:messages", "recovered signature does not verify under the group public key for this message", in)
			}
			for om, os := range sigOf {
				if os == recHex && om != string(msg) {
					in["other"] = hex.EncodeToString([]byte(om))
					res.Violate("C13/messages-same-signature", "two different messages got the same group signature", in)
				}
			}
			sigOf[string(msg)] = recHex
		}()
		res.Count(fmt.Sprintf("messages-len%d", len(msg)), fmt.Sprint("mf", tag, step, mi), true)
	}
}

func ptTerm(b []byte) string {
	return fmt.Sprintf("(%s, %s)", zs(new(big.Int).SetBytes(b[:32])), zs(new(big.Int).SetBytes(b[32:64])))
}

func curveCases(rng *hx.Rng, res *hx.Result, cs *caseBuf, cg int, thorough bool) {
	const n = 5
	k := model.Param.GetGroupK(n)
	var g *group
	if cg%2 == 0 {
		g = groupViaAPI(rng, res, n, k)
	} else {
		g = groupViaDKG(rng, res, &caseBuf{}, n)
	}
	msg := rng.Bytes(32)
	hp := new(bn256.G1)
	hp.HashToPoint(msg)
	hb := hp.Marshal()
	members := perm(rng, n)[:k]
	xs := make([]*big.Int, k)
	ids := make([]groupsig.ID, k)
	sigs := make([]groupsig.Signature, k)
	m := map[string]groupsig.Signature{}
	var sigTerms, termTerms []string
	for t, j := range members {
		xs[t] = g.ids[j]
		ids[t] = mkID(g.ids[j])
		sigs[t] = groupsig.Sign(mkSec(g.keys[j]), msg)
		m[ids[t].GetHexString()] = sigs[t]
		sigTerms = append(sigTerms, ptTerm(sigs[t].Serialize()))
	}
	in := map[string]interface{}{"ids": strs(xs), "msg": hex.EncodeToString(msg), "via": g.via}
	var out1, out2 []byte
	func() {
		defer func() {
			if p := recover(); p != nil {
				res.Violate("C13/curve-panic", fmt.Sprint(p), in)
			}
		}()
		out1 = groupsig.VerifC13RecoverSignature(sigs, ids).Serialize()
		out2 = groupsig.RecoverGroupSignature(m, k).Serialize()
	}()
	if out1 == nil || out2 == nil {
		return
	}
	if hex.EncodeToString(out1) != hex.EncodeToString(out2) {
		res.Violate("C13/subset-order:curve", "recoverSignature on the ordered slices and RecoverGroupSignature on the map differ", in)
	}
	if hex.EncodeToString(out1) != hex.EncodeToString(expectSign(g.gsk, msg)) {
		res.Violate("C13/subset-order:curve", "recovered signature differs from (group secret)*HashToPoint(msg)", in)
	}
	// the terms delta_i * sig_i as the code's own ScalarMult computes them (delta_i by the conduit below;
	// the model recomputes delta_i itself from the ids)
	for t := range xs {
		num, den := big.NewInt(1), big.NewInt(1)
		for j := range xs {
			if j != t {
				num.Mul(num, xs[j]).Mod(num, order)
				den.Mul(den, new(big.Int).Sub(xs[j], xs[t])).Mod(den, order)
			}
		}
		d := new(big.Int).ModInverse(den, order)
		d.Mul(d, num).Mod(d, order)
		sp := new(bn256.G1)
		sp.Unmarshal(sigs[t].Serialize())
		tb := new(bn256.G1).ScalarMult(sp, d).Marshal()
		termTerms = append(termTerms, ptTerm(tb))
		cs.add(fmt.Sprintf("CCTerm %s %d%%nat %s %s", zlist(xs), t, sigTerms[t], ptTerm(tb)), map[string]interface{}{"kind": "curve-term", "ids": strs(xs), "i": t})
		res.Count("curve-term", fmt.Sprint("ct", cg, t, strs(xs)), true)
	}
	cs.add(fmt.Sprintf("CCCombine %s %s", hx.CoqList(termTerms), ptTerm(out2)), map[string]interface{}{"kind": "curve-combine", "ids": strs(xs), "out": hex.EncodeToString(out2)})
	res.Count("curve-combine", fmt.Sprint("cc", cg, strs(xs)), true)
	cs.add(fmt.Sprintf("CCSign %s %s %s", zs(g.gsk), ptTerm(hb), ptTerm(out2)), map[string]interface{}{"kind": "curve-sign-gsk", "gsk": g.gsk.String(), "msg": hex.EncodeToString(msg)})
	res.Count("curve-sign", fmt.Sprint("cs", cg, g.gsk), true)
	if thorough {
		for t, j := range members {
			cs.add(fmt.Sprintf("CCSign %s %s %s", zs(g.keys[j]), ptTerm(hb), sigTerms[t]), map[string]interface{}{"kind": "curve-sign-share", "member": j})
			res.Count("curve-sign", fmt.Sprint("cs", cg, g.keys[j]), true)
		}
		if cg == 0 {
			cs.add(fmt.Sprintf("CCFull %s %s %s", zlist(xs), hx.CoqList(sigTerms), ptTerm(out2)), map[string]interface{}{"kind": "curve-full", "ids": strs(xs)})
			res.Count("curve-full", fmt.Sprint("cf", cg), true)
		}
	}
}

func evalPoly(cs []*big.Int, x *big.Int) *big.Int {
	acc := big.NewInt(0)
	for i := len(cs) - 1; i >= 0; i-- {
		acc.Mul(acc, x).Add(acc, cs[i]).Mod(acc, order)
	}
	return acc
}
