// C13 harness: the node's threshold key generation / share recovery (groupsig, GroupSignGenerator,
// group_create.groupNodeInfo through the verif hook) against the Coq model over Z mod r, plus the
// direct search: every subset of at least k members, several arrival orders, must recover the one
// signature of the group secret, which verifies under the aggregated group public key.
package main

import (
	"encoding/hex"
	"fmt"
	"math/big"
	"sort"
	"strings"

	"com.tuntun.rangers/node/src/common"
	"com.tuntun.rangers/node/src/consensus/base"
	"com.tuntun.rangers/node/src/consensus/groupsig"
	"com.tuntun.rangers/node/src/consensus/groupsig/bn256"
	gc "com.tuntun.rangers/node/src/consensus/logical/group_create"
	"com.tuntun.rangers/node/src/consensus/model"
	"verif/harness/hx"
)

var order = bn256.Order

func zs(b *big.Int) string { return hx.CoqZ(b.String()) }
func zlist(l []*big.Int) string {
	p := make([]string, len(l))
	for i, x := range l {
		p[i] = zs(x)
	}
	return hx.CoqList(p)
}
func natlist(l []int) string {
	p := make([]string, len(l))
	for i, x := range l {
		p[i] = fmt.Sprintf("%d%%nat", x)
	}
	return hx.CoqList(p)
}
func strs(l []*big.Int) []string {
	p := make([]string, len(l))
	for i, x := range l {
		p[i] = x.String()
	}
	return p
}

// scalars: mostly uniform mod r, sometimes edge values, sometimes unreduced (>= r)
func randScalar(r *hx.Rng, allowBig bool) *big.Int {
	switch r.Intn(12) {
	case 0:
		return big.NewInt(int64(r.Intn(3)))
	case 1:
		return new(big.Int).Sub(order, big.NewInt(int64(1+r.Intn(2))))
	case 2:
		if allowBig {
			return new(big.Int).SetBytes(r.Bytes(32)) // may exceed r
		}
	}
	x := new(big.Int).SetBytes(r.Bytes(32))
	return x.Mod(x, order)
}

// ids: 32-byte values as produced by hashing (unreduced), sometimes small
func randID(r *hx.Rng) *big.Int {
	if r.Intn(6) == 0 {
		return big.NewInt(int64(1 + r.Intn(1000)))
	}
	return new(big.Int).SetBytes(r.Bytes(32))
}

func distinctIDs(r *hx.Rng, n int) []*big.Int {
	seen := map[string]bool{}
	var out []*big.Int
	for len(out) < n {
		x := randID(r)
		k := new(big.Int).Mod(x, order).String()
		if x.Sign() == 0 || seen[k] {
			continue
		}
		seen[k] = true
		out = append(out, x)
	}
	return out
}

func mkID(x *big.Int) groupsig.ID {
	var id groupsig.ID
	id.SetBigInt(x)
	return id
}

// a Seckey holding exactly x (Deserialize does not reduce)
func mkSec(x *big.Int) groupsig.Seckey {
	var s groupsig.Seckey
	s.Deserialize(x.Bytes())
	return s
}

// independent Lagrange at 0 over Z mod r (conduit value: checked against the model by Coq and against
// the implementation on the curve here)
func goLagrange(xs, ys []*big.Int) *big.Int {
	acc := big.NewInt(0)
	for i := range xs {
		num, den := big.NewInt(1), big.NewInt(1)
		for j := range xs {
			if j == i {
				continue
			}
			num.Mul(num, xs[j]).Mod(num, order)
			d := new(big.Int).Sub(xs[j], xs[i])
			den.Mul(den, d).Mod(den, order)
		}
		inv := new(big.Int).ModInverse(den, order)
		if inv == nil {
			inv = new(big.Int).Set(den)
		}
		t := new(big.Int).Mul(num, inv)
		t.Mul(t, ys[i]).Mod(t, order)
		acc.Add(acc, t).Mod(acc, order)
	}
	return acc
}

func perm(r *hx.Rng, n int) []int {
	p := make([]int, n)
	for i := range p {
		p[i] = i
	}
	for i := n - 1; i > 0; i-- {
		j := r.Intn(i + 1)
		p[i], p[j] = p[j], p[i]
	}
	return p
}

type group struct {
	n, k    int
	dealers [][]*big.Int // coefficient lists
	ids     []*big.Int
	keys    []*big.Int // member secret keys (scalars), as the node computed them
	gsk     *big.Int
	gpk     groupsig.Pubkey
	via     string
}

// key generation through the groupsig API with chosen dealer coefficients
func groupViaAPI(r *hx.Rng, res *hx.Result, n, k int) *group {
	g := &group{n: n, k: k, via: "api"}
	g.ids = distinctIDs(r, n)
	var pubs []groupsig.Pubkey
	shares := make([][]groupsig.Seckey, n) // [receiver][dealer]
	gsk := big.NewInt(0)
	for d := 0; d < n; d++ {
		cs := make([]*big.Int, k)
		secs := make([]groupsig.Seckey, k)
		for i := range cs {
			cs[i] = randScalar(r, false)
			secs[i] = *groupsig.NewSeckeyFromBigInt(new(big.Int).Set(cs[i]))
		}
		g.dealers = append(g.dealers, cs)
		pubs = append(pubs, *groupsig.GeneratePubkey(secs[0]))
		gsk.Add(gsk, cs[0]).Mod(gsk, order)
		for j := 0; j < n; j++ {
			shares[j] = append(shares[j], *groupsig.ShareSeckey(secs, mkID(g.ids[j])))
		}
	}
	for j := 0; j < n; j++ {
		g.keys = append(g.keys, groupsig.AggregateSeckeys(shares[j]).GetBigInt())
	}
	g.gsk = gsk
	g.gpk = *groupsig.AggregatePubkeys(pubs)
	return g
}

// key generation through the node's own DKG code (group_create.groupNodeInfo)
func groupViaDKG(r *hx.Rng, res *hx.Result, n int) *group {
	g := &group{n: n, via: "dkg"}
	g.ids = distinctIDs(r, n)
	ids := make([]groupsig.ID, n)
	for i := range ids {
		ids[i] = mkID(g.ids[i])
	}
	var gh common.Hash
	copy(gh[:], r.Bytes(32))
	nodes := make([]*gc.VerifDKGNode, n)
	pieces := make([]map[string]groupsig.Seckey, n)
	pubs := make([]groupsig.Pubkey, n)
	gsk := big.NewInt(0)
	for d := 0; d < n; d++ {
		mi := &model.SelfMinerInfo{}
		mi.SecretSeed = base.RandFromBytes(r.Bytes(32))
		mi.ID = ids[d]
		nodes[d] = gc.VerifDKGNew(mi, gh, n)
		g.k = nodes[d].Threshold()
		var cs []*big.Int
		for _, s := range nodes[d].Coefficients() {
			cs = append(cs, s.GetBigInt())
		}
		g.dealers = append(g.dealers, cs)
		gsk.Add(gsk, cs[0]).Mod(gsk, order)
		pieces[d] = nodes[d].GenSharePiece(ids)
		pubs[d] = nodes[d].SeedPubKey()
	}
	for j := 0; j < n; j++ {
		last := 0
		for _, d := range perm(r, n) {
			sh := pieces[d][ids[j].GetHexString()]
			last = nodes[j].HandleSharePiece(ids[d], &model.SharePiece{Share: sh, Pub: pubs[d]})
		}
		if last != 1 {
			res.Violate("C13/dkg-aggregate", fmt.Sprintf("handleSharePiece returned %d after all %d pieces", last, n), strs(g.ids))
		}
		// a second piece from the same dealer must be refused
		if rc := nodes[j].HandleSharePiece(ids[0], &model.SharePiece{Share: pieces[0][ids[j].GetHexString()], Pub: pubs[0]}); rc != -1 {
			res.Violate("C13/dkg-duplicate-piece", fmt.Sprintf("duplicate share piece returned %d", rc), strs(g.ids))
		}
		g.keys = append(g.keys, nodes[j].SignSecKey().GetBigInt())
		if j == 0 {
			g.gpk = nodes[j].GroupPubKey()
		} else if !g.gpk.IsEqual(nodes[j].GroupPubKey()) {
			res.Violate("C13/dkg-gpk-differs", "members computed different group public keys", strs(g.ids))
		}
	}
	g.gsk = gsk
	return g
}

func subsets(n, minSize int) [][]int {
	var out [][]int
	for m := 0; m < 1<<uint(n); m++ {
		var s []int
		for i := 0; i < n; i++ {
			if m>>uint(i)&1 == 1 {
				s = append(s, i)
			}
		}
		if len(s) >= minSize {
			out = append(out, s)
		}
	}
	return out
}

func main() {
	a := hx.ParseArgs()
	rng := hx.NewRng(a.Seed)
	res := hx.NewResult("direct search: groups of n=3..10 members (k=GetGroupK(n)) built with the groupsig API and with the node's DKG code; " +
		"every subset of >= k members (quick: all for n<=7, 40 sampled per larger n; thorough: all), 3 arrival orders each, through AddWitnessSign and through RecoverGroupSignature; " +
		"model cases: ShareSeckey/AggregateSeckeys scalars, recovery with arbitrary share scalars, DKG runs, GetGroupK, generator runs. " +
		"non-trivial = distinct (group, subset, order, path) with |subset| >= k, or a model case with >= 2 points")
	cs := hx.NewCases(a.Out, "From V.C13 Require Import Model Harness.", "case", "check", 60)
	model.Param.SSSSThreshold = model.SSSS_THRESHOLD
	model.Param.GroupMemberMax = model.GROUP_MAX_MEMBERS
	model.Param.GroupMemberMin = 3
	gc.VerifDKGInit()
	thorough := a.Tier == "thorough"

	// ---- GetGroupK ----
	for base0 := 0; base0 < 3000; base0 += 1000 {
		var pairs []string
		for n := base0; n < base0+1000; n++ {
			k := model.Param.GetGroupK(n)
			pairs = append(pairs, fmt.Sprintf("(%d,%d)%%Z", n, k))
			if n >= 1 && (k < 1 || k > n || 2*k <= n) {
				res.Violate("C13/threshold-range", fmt.Sprintf("GetGroupK(%d)=%d", n, k), n)
			}
			res.Count("groupk", fmt.Sprint("k", n), n >= 1)
		}
		cs.Add("CK "+hx.CoqList(pairs), map[string]int{"groupk_from": base0})
	}

	nShare, nAgg, nRec, nGen := a.N/4, a.N/10, a.N/3, a.N/5
	// ---- ShareSeckey ----
	for i := 0; i < nShare; i++ {
		k := 1 + rng.Intn(7)
		csz := make([]*big.Int, k)
		secs := make([]groupsig.Seckey, k)
		for j := range csz {
			csz[j] = randScalar(rng, true)
			secs[j] = mkSec(csz[j])
		}
		id := randID(rng)
		sh := groupsig.ShareSeckey(secs, mkID(id)).GetBigInt()
		cs.Add(fmt.Sprintf("CShare %s %s %s", zlist(csz), zs(id), zs(sh)), map[string]interface{}{"kind": "share", "coeffs": strs(csz), "id": id.String(), "share": sh.String()})
		res.Count("share", "s"+id.String()+fmt.Sprint(strs(csz)), k >= 2)
	}
	// ---- AggregateSeckeys ----
	for i := 0; i < nAgg; i++ {
		n := 1 + rng.Intn(10)
		l := make([]*big.Int, n)
		secs := make([]groupsig.Seckey, n)
		for j := range l {
			l[j] = randScalar(rng, true)
			secs[j] = mkSec(l[j])
		}
		s := groupsig.AggregateSeckeys(secs).GetBigInt()
		cs.Add(fmt.Sprintf("CAgg %s %s", zlist(l), zs(s)), map[string]interface{}{"kind": "agg", "l": strs(l), "sum": s.String()})
		res.Count("agg", "a"+fmt.Sprint(strs(l)), n >= 2)
	}
	// ---- recovery coefficients with arbitrary share scalars ----
	for i := 0; i < nRec; i++ {
		k := 1 + rng.Intn(7)
		xs := distinctIDs(rng, k)
		class := "recover"
		if k >= 2 && rng.Intn(12) == 0 {
			// two ids congruent modulo r (x and x+r both fit in 32 bytes when x is small enough)
			xs[0] = new(big.Int).Rsh(xs[0], 2)
			xs[1] = new(big.Int).Add(xs[0], order)
			class = "recover-congruent-ids"
		}
		ys := make([]*big.Int, k)
		msg := rng.Bytes(32)
		m := map[string]groupsig.Signature{}
		for j := range xs {
			ys[j] = randScalar(rng, false)
			m[mkID(xs[j]).GetHexString()] = groupsig.Sign(mkSec(ys[j]), msg)
		}
		s := goLagrange(xs, ys)
		func() {
			defer func() {
				if p := recover(); p != nil {
					res.Violate("C13/recover-panic", fmt.Sprint(p), strs(xs))
				}
			}()
			got := groupsig.RecoverGroupSignature(m, k)
			if !got.IsEqual(groupsig.Sign(mkSec(s), msg)) {
				res.Violate("C13/recover-coefficients", "RecoverGroupSignature differs from sum_i delta_i*share_i", map[string]interface{}{"xs": strs(xs), "ys": strs(ys)})
			}
		}()
		cs.Add(fmt.Sprintf("CRecover %s %s %s", zlist(xs), zlist(ys), zs(s)), map[string]interface{}{"kind": class, "xs": strs(xs), "ys": strs(ys), "s": s.String()})
		res.Count(class, "r"+fmt.Sprint(strs(xs), strs(ys)), k >= 2)
	}
	// ---- GroupSignGenerator runs ----
	for i := 0; i < nGen; i++ {
		thr := 1 + rng.Intn(6)
		nm := thr - 1 + rng.Intn(5)
		if nm < 1 {
			nm = 1
		}
		ids := distinctIDs(rng, nm)
		poly := make([]*big.Int, thr) // consistent shares in half of the runs
		for j := range poly {
			poly[j] = randScalar(rng, false)
		}
		consistent := rng.Bool()
		msg := rng.Bytes(32)
		gen := model.NewGroupSignGenerator(thr)
		var msgs, obs []string
		var firstX, firstY []*big.Int
		seen := map[string]bool{}
		steps := nm + rng.Intn(4)
		var js []interface{}
		for st := 0; st < steps; st++ {
			j := rng.Intn(nm)
			var y *big.Int
			if consistent {
				y = evalPoly(poly, ids[j])
			} else {
				y = randScalar(rng, false)
			}
			add, gend := gen.AddWitnessSign(mkID(ids[j]), groupsig.Sign(mkSec(y), msg))
			msgs = append(msgs, fmt.Sprintf("(%s,%s)", zs(ids[j]), zs(y)))
			obs = append(obs, fmt.Sprintf("(%s,%s)", hx.CoqBool(add), hx.CoqBool(gend)))
			js = append(js, []interface{}{ids[j].String(), y.String(), add, gend})
			if !seen[ids[j].String()] && len(firstX) < thr {
				seen[ids[j].String()] = true
				firstX, firstY = append(firstX, ids[j]), append(firstY, y)
			}
		}
		rec := gen.SignRecovered()
		s := big.NewInt(0)
		if rec {
			s = goLagrange(firstX, firstY)
			if !gen.GetGroupSign().IsEqual(groupsig.Sign(mkSec(s), msg)) {
				res.Violate("C13/generator-recovered-value", "GroupSignGenerator recovered a signature different from the Lagrange combination of its first k distinct shares", js)
			}
			if consistent && s.Cmp(new(big.Int).Mod(poly[0], order)) != 0 {
				res.Violate("C13/generator-consistent", "consistent shares did not recover the shared secret", js)
			}
		}
		if rec != (len(firstX) >= thr) {
			res.Violate("C13/generator-liveness", fmt.Sprintf("recovered=%v with %d distinct shares, threshold %d", rec, len(firstX), thr), js)
		}
		cs.Add(fmt.Sprintf("CGen %d%%nat %s %s %s %s", thr, hx.CoqList(msgs), hx.CoqList(obs), hx.CoqBool(rec), zs(s)), map[string]interface{}{"kind": "gen", "thr": thr, "steps": js})
		res.Count(fmt.Sprintf("gen-recovered-%v", rec), "g"+fmt.Sprint(js), true)
	}

	// ---- groups: DKG correspondence + direct subset/order search ----
	rounds := 1 + a.N/400
	if thorough {
		rounds = 2 + a.N/4000
	}
	sampled := 0
	for round := 0; round < rounds; round++ {
		for n := 3; n <= 10; n++ {
			var g *group
			if (round+n)%2 == 0 {
				g = groupViaDKG(rng, res, n)
			} else {
				g = groupViaAPI(rng, res, n, model.Param.GetGroupK(n))
			}
			if g.k != model.Param.GetGroupK(n) {
				res.Violate("C13/dkg-threshold", fmt.Sprintf("node threshold %d for n=%d", g.k, n), n)
			}
			msg := rng.Bytes(32)
			gskSec := mkSec(g.gsk)
			want := groupsig.Sign(gskSec, msg)
			if !groupsig.GeneratePubkey(gskSec).IsEqual(g.gpk) {
				res.Violate("C13/group-pubkey:"+g.via, "aggregated group public key differs from g2^(sum of dealers' constant coefficients)", strs(g.ids))
			}
			if !groupsig.VerifySig(g.gpk, msg, want) {
				res.Violate("C13/group-sig-verify:"+g.via, "Sign(group secret) does not verify under the aggregated group public key", strs(g.ids))
			}
			// every member's share verifies under its public share
			shareSigs := make([]groupsig.Signature, n)
			for j := 0; j < n; j++ {
				sk := mkSec(g.keys[j])
				shareSigs[j] = groupsig.Sign(sk, msg)
				if !groupsig.VerifySig(*groupsig.GeneratePubkey(sk), msg, shareSigs[j]) {
					res.Violate("C13/share-verify:"+g.via, "member share signature does not verify under the member's public share", map[string]interface{}{"ids": strs(g.ids), "member": j})
				}
			}
			// model case
			var sels []string
			for t := 0; t < 4; t++ {
				p := perm(rng, n)
				sels = append(sels, natlist(p[:g.k+rng.Intn(n-g.k+1)]))
			}
			var dl []string
			var djs [][]string
			for _, d := range g.dealers {
				dl = append(dl, zlist(d))
				djs = append(djs, strs(d))
			}
			cs.Add(fmt.Sprintf("CDkg %s %s %s %s %s", hx.CoqList(dl), zlist(g.ids), zlist(g.keys), zs(g.gsk), hx.CoqList(sels)),
				map[string]interface{}{"kind": "dkg:" + g.via, "n": n, "k": g.k, "dealers": djs, "ids": strs(g.ids), "keys": strs(g.keys), "gsk": g.gsk.String()})
			res.Count("dkg-"+g.via, fmt.Sprint("d", strs(g.ids)), true)

			// direct search over subsets and orders
			subs := subsets(n, g.k)
			if !thorough && n > 7 {
				for i := len(subs) - 1; i > 0; i-- {
					j := rng.Intn(i + 1)
					subs[i], subs[j] = subs[j], subs[i]
				}
				subs = subs[:40]
			}
			for si, sub := range subs {
				for ord := 0; ord < 3; ord++ {
					p := perm(rng, len(sub))
					arrival := make([]int, len(sub))
					for i, x := range p {
						arrival[i] = sub[x]
					}
					// path 1: the share collector in arrival order
					gen := model.NewGroupSignGenerator(g.k)
					for pos, j := range arrival {
						add, gend := gen.AddWitnessSign(mkID(g.ids[j]), shareSigs[j])
						if (pos < g.k) != add || (pos >= g.k-1) != gend {
							res.Violate("C13/collector-flags:"+g.via, fmt.Sprintf("AddWitnessSign #%d of %d (k=%d) returned add=%v generated=%v", pos, len(arrival), g.k, add, gend), arrival)
						}
					}
					got1 := gen.GetGroupSign()
					// path 2: RecoverGroupSignature over the whole subset (internal random k-selection)
					m := map[string]groupsig.Signature{}
					for _, j := range arrival {
						m[mkID(g.ids[j]).GetHexString()] = shareSigs[j]
					}
					got2 := groupsig.RecoverGroupSignature(m, g.k)
					for pi, got := range []groupsig.Signature{got1, *got2} {
						path := []string{"collector", "recover"}[pi]
						ok := got.IsEqual(want)
						if !ok {
							res.Violate(fmt.Sprintf("C13/subset-order:%s:%s", path, g.via), "recovered signature differs from Sign(group secret)",
								map[string]interface{}{"n": n, "k": g.k, "ids": strs(g.ids), "dealers": djs, "arrival": arrival, "msg": hex.EncodeToString(msg)})
						}
						if (si+ord+pi)%5 == 0 || !ok {
							if !groupsig.VerifySig(g.gpk, msg, got) {
								res.Violate(fmt.Sprintf("C13/subset-verify:%s:%s", path, g.via), "recovered signature does not verify under the group public key",
									map[string]interface{}{"n": n, "k": g.k, "ids": strs(g.ids), "dealers": djs, "arrival": arrival, "msg": hex.EncodeToString(msg)})
							}
							res.Histogram["verified-under-gpk"]++
						}
						res.Count(fmt.Sprintf("subset-n%d-%s", n, path), fmt.Sprint(round, n, arrival, pi), true)
					}
				}
				if sampled < 6 && si%17 == 3 {
					sampled++
					res.Sample(map[string]interface{}{"n": n, "k": g.k, "via": g.via, "subset": sub, "gsk": g.gsk.String(), "sig": hex.EncodeToString(want.Serialize())})
				}
			}
		}
	}
	if thorough {
		res.Exhaustive = true
		res.Note("exhaustive: every subset of >= k members for every n in 3..10, 3 arrival orders each")
	} else {
		res.Note("every subset of >= k members for n in 3..7; 40 sampled subsets for n in 8..10")
	}
	keys := make([]string, 0)
	for k := range res.Histogram {
		keys = append(keys, k)
	}
	sort.Strings(keys)
	fmt.Println("histogram:", strings.Join(keys, " "))
	cs.Close()
	res.ModelCases = cs.Total()
	res.Write(a.Out)
}

func evalPoly(cs []*big.Int, x *big.Int) *big.Int {
	acc := big.NewInt(0)
	for i := len(cs) - 1; i >= 0; i-- {
		acc.Mul(acc, x).Add(acc, cs[i]).Mod(acc, order)
	}
	return acc
}
