// Inventory obligation for C13: package-level variables of src/consensus/groupsig (+ bn256) and how
// function bodies use them.  The threshold-signature API is called concurrently by the node (one
// goroutine per group / per message); it is only re-entrant because today every package-level variable
// is a constant-like value that no function writes.  A new scratch variable (written, address taken,
// or receiver of a non-read-only method inside a function) is flagged even without a failing schedule.
package main

import (
	"fmt"
	"go/ast"
	"go/parser"
	"go/token"
	"os"
	"path/filepath"
	"sort"
	"strings"

	"verif/harness/hx"
)

// methods that only read their receiver
var readOnlyMethods = map[string]bool{
	"BitLen": true, "Cmp": true, "Sign": true, "String": true, "Bytes": true, "Text": true,
	"IsInt64": true, "Int64": true, "Uint64": true, "Bit": true, "CmpAbs": true, "IsUint64": true,
}

func rootIdent(e ast.Expr) *ast.Ident {
	for {
		switch x := e.(type) {
		case *ast.Ident:
			return x
		case *ast.SelectorExpr:
			e = x.X
		case *ast.IndexExpr:
			e = x.X
		case *ast.StarExpr:
			e = x.X
		case *ast.ParenExpr:
			e = x.X
		case *ast.SliceExpr:
			e = x.X
		default:
			return nil
		}
	}
}

type varUse struct {
	writes, addr, mut []string // "file:line what"
	reads             int
}

func scanPackage(dir string) (map[string]*varUse, error) {
	fset := token.NewFileSet()
	ents, err := os.ReadDir(dir)
	if err != nil {
		return nil, err
	}
	var files []*ast.File
	for _, e := range ents {
		n := e.Name()
		if e.IsDir() || !strings.HasSuffix(n, ".go") || strings.HasSuffix(n, "_test.go") || strings.HasPrefix(n, "verif_") {
			continue
		}
		f, err := parser.ParseFile(fset, filepath.Join(dir, n), nil, 0)
		if err != nil {
			return nil, err
		}
		files = append(files, f)
	}
	vars := map[string]*varUse{}
	specOf := map[*ast.ValueSpec]bool{}
	for _, f := range files {
		for _, d := range f.Decls {
			if g, ok := d.(*ast.GenDecl); ok && g.Tok == token.VAR {
				for _, s := range g.Specs {
					vs := s.(*ast.ValueSpec)
					specOf[vs] = true
					for _, n := range vs.Names {
						if n.Name != "_" {
							vars[n.Name] = &varUse{}
						}
					}
				}
			}
		}
	}
	isPkgVar := func(id *ast.Ident) bool {
		if id == nil {
			return false
		}
		if _, ok := vars[id.Name]; !ok {
			return false
		}
		if id.Obj == nil {
			return true // declared in another file of the package
		}
		vs, ok := id.Obj.Decl.(*ast.ValueSpec)
		return ok && specOf[vs]
	}
	for _, f := range files {
		for _, d := range f.Decls {
			fd, ok := d.(*ast.FuncDecl)
			if !ok || fd.Body == nil || (fd.Recv == nil && fd.Name.Name == "init") {
				continue
			}
			pos := func(n ast.Node) string {
				p := fset.Position(n.Pos())
				return fmt.Sprintf("%s:%d %s", filepath.Base(p.Filename), p.Line, fd.Name.Name)
			}
			ast.Inspect(fd.Body, func(n ast.Node) bool {
				switch x := n.(type) {
				case *ast.AssignStmt:
					if x.Tok != token.DEFINE {
						for _, l := range x.Lhs {
							if id := rootIdent(l); isPkgVar(id) {
								vars[id.Name].writes = append(vars[id.Name].writes, pos(x))
							}
						}
					}
				case *ast.IncDecStmt:
					if id := rootIdent(x.X); isPkgVar(id) {
						vars[id.Name].writes = append(vars[id.Name].writes, pos(x))
					}
				case *ast.UnaryExpr:
					if x.Op == token.AND {
						if id := rootIdent(x.X); isPkgVar(id) {
							vars[id.Name].addr = append(vars[id.Name].addr, pos(x))
						}
					}
				case *ast.CallExpr:
					if se, ok := x.Fun.(*ast.SelectorExpr); ok {
						if id := rootIdent(se.X); isPkgVar(id) && !readOnlyMethods[se.Sel.Name] {
							vars[id.Name].mut = append(vars[id.Name].mut, pos(x)+" ."+se.Sel.Name)
						}
					}
				case *ast.Ident:
					if isPkgVar(x) {
						vars[x.Name].reads++
					}
				}
				return true
			})
		}
	}
	return vars, nil
}

// inventory of today's tree: package-level variables that function bodies touch in a way that could
// mutate them (reviewed: each is a method that does not modify its receiver)
var inventoryBaseline = map[string]string{}

// scanSenderGoroutines: in the consensus message senders, a goroutine started by a Send* function must not
// read the caller's message through the pointer parameter (callers reuse one message value across a loop,
// e.g. OnMessageGroupInit for the share pieces): a function literal after `go` that mentions a
// pointer-typed parameter of the enclosing function is flagged.
func scanSenderGoroutines(file string) ([]string, error) {
	fset := token.NewFileSet()
	f, err := parser.ParseFile(fset, file, nil, 0)
	if err != nil {
		return nil, err
	}
	var out []string
	for _, d := range f.Decls {
		fd, ok := d.(*ast.FuncDecl)
		if !ok || fd.Body == nil || fd.Type.Params == nil {
			continue
		}
		ptr := map[*ast.Object]string{}
		for _, fl := range fd.Type.Params.List {
			if _, isPtr := fl.Type.(*ast.StarExpr); isPtr {
				for _, n := range fl.Names {
					if n.Obj != nil {
						ptr[n.Obj] = n.Name
					}
				}
			}
		}
		if len(ptr) == 0 {
			continue
		}
		ast.Inspect(fd.Body, func(n ast.Node) bool {
			gs, ok := n.(*ast.GoStmt)
			if !ok {
				return true
			}
			if lit, ok := gs.Call.Fun.(*ast.FuncLit); ok {
				ast.Inspect(lit.Body, func(m ast.Node) bool {
					if id, ok := m.(*ast.Ident); ok && id.Obj != nil {
						if name, hit := ptr[id.Obj]; hit {
							out = append(out, fmt.Sprintf("%s:%d %s reads *%s inside a goroutine", filepath.Base(file), fset.Position(id.Pos()).Line, fd.Name.Name, name))
						}
					}
					return true
				})
			}
			return true
		})
	}
	return out, nil
}

func runInventory(res *hx.Result) {
	repo := os.Getenv("VERIF_REPO")
	if repo == "" {
		repo = "/repo"
	}
	if hits, err := scanSenderGoroutines(filepath.Join(repo, "src/consensus/net/network_sender.go")); err != nil {
		res.Violate("C13/inventory:scan-failed", err.Error(), "network_sender.go")
	} else {
		seen := map[string]bool{}
		for _, h := range hits {
			fn := strings.Fields(h)[1]
			if !seen[fn] {
				seen[fn] = true
				res.Violate("C13/inventory:sender-goroutine-reads-message:"+fn, "a consensus message sender reads the caller's message from a goroutine it starts (the caller may already have overwritten it): "+h, h)
			}
		}
		res.Count("inventory:sender-goroutines", fmt.Sprint(len(hits)), false)
	}
	for _, pkg := range []string{"src/consensus/groupsig", "src/consensus/groupsig/bn256"} {
		vars, err := scanPackage(filepath.Join(repo, pkg))
		if err != nil {
			res.Violate("C13/inventory:scan-failed", err.Error(), pkg)
			continue
		}
		names := make([]string, 0, len(vars))
		for n := range vars {
			names = append(names, n)
		}
		sort.Strings(names)
		var constant, flagged []string
		for _, n := range names {
			u := vars[n]
			short := filepath.Base(pkg) + "." + n
			if len(u.writes)+len(u.addr)+len(u.mut) == 0 {
				constant = append(constant, n)
				res.Count("inventory:never-written", short, false)
				continue
			}
			detail := fmt.Sprintf("writes=%v address-taken=%v non-read-only-methods=%v", u.writes, u.addr, u.mut)
			if _, ok := inventoryBaseline[short]; ok {
				res.Count("inventory:reviewed", short, false)
				continue
			}
			flagged = append(flagged, short)
			res.Count("inventory:flagged", short, true)
			res.Violate("C13/inventory:package-level-mutable:"+short,
				"a package-level variable of a package whose API the node calls concurrently is modified inside a function (shared scratch state): "+detail, short)
		}
		res.Note(fmt.Sprintf("inventory %s: %d package-level variables, never written from a function: %s; flagged: %v", pkg, len(names), strings.Join(constant, " "), flagged))
	}
}
