// Concurrency family for C13: the node runs the threshold-signature API for several groups at once
// (a node is a member of several groups; aggregateKeys / GroupSignGenerator hold only per-group locks).
// Every goroutine owns ITS OWN group (own dealers, keys, messages - nothing is shared by the harness) and
// repeats the API calls the node makes; every result is compared with the reference computed
// sequentially beforehand.  Any divergence or panic means the calls of different groups interfere.
package main

import (
	"bytes"
	"encoding/hex"
	"encoding/json"
	"fmt"
	"math/big"
	"os"
	"os/exec"
	"path/filepath"
	"regexp"
	"sort"
	"strings"
	"sync"
	"time"

	"com.tuntun.rangers/node/src/common"
	"com.tuntun.rangers/node/src/consensus/base"
	"com.tuntun.rangers/node/src/consensus/groupsig"
	gc "com.tuntun.rangers/node/src/consensus/logical/group_create"
	"com.tuntun.rangers/node/src/consensus/model"
	"verif/harness/hx"
)

type concGroup struct {
	n, k      int
	ids       []groupsig.ID
	idInts    []*big.Int
	secs      [][]groupsig.Seckey // dealer coefficient lists
	coef      [][]string
	pubs      []groupsig.Pubkey
	shares    [][]groupsig.Seckey // [receiver][dealer]
	shareRef  [][]string
	keys      []groupsig.Seckey
	keyRef    []string
	gpk       groupsig.Pubkey
	gpkRef    []byte
	msg       []byte
	shareSigs []groupsig.Signature
	sigRef    []byte
	// node-side DKG
	gh        common.Hash
	seeds     [][]byte
	pieces    []map[string]groupsig.Seckey
	dpubs     []groupsig.Pubkey
	dkgSkRef  []string
	dkgGpkRef []byte
}

type concViolation struct {
	Key, What string
	Input     interface{}
}

func (g *concGroup) input(extra string) interface{} {
	return map[string]interface{}{"n": g.n, "k": g.k, "ids": strs(g.idInts), "dealers": g.coef, "msg": hex.EncodeToString(g.msg), "at": extra}
}

func newDKGNodes(g *concGroup) []*gc.VerifDKGNode {
	nodes := make([]*gc.VerifDKGNode, g.n)
	for d := 0; d < g.n; d++ {
		mi := &model.SelfMinerInfo{}
		mi.SecretSeed = base.RandFromBytes(g.seeds[d])
		mi.ID = g.ids[d]
		nodes[d] = gc.VerifDKGNew(mi, g.gh, g.n)
	}
	return nodes
}

// built sequentially, before any goroutine starts: these are the reference values
func buildConcGroup(r *hx.Rng, n int) *concGroup {
	g := &concGroup{n: n, k: model.Param.GetGroupK(n)}
	g.idInts = distinctIDs(r, n)
	for _, x := range g.idInts {
		g.ids = append(g.ids, mkID(x))
	}
	gsk := big.NewInt(0)
	g.shares = make([][]groupsig.Seckey, n)
	g.shareRef = make([][]string, n)
	for d := 0; d < n; d++ {
		secs := make([]groupsig.Seckey, g.k)
		var cf []string
		for i := range secs {
			c := randScalar(r, false)
			cf = append(cf, c.String())
			secs[i] = *groupsig.NewSeckeyFromBigInt(new(big.Int).Set(c))
			if i == 0 {
				gsk.Add(gsk, c).Mod(gsk, order)
			}
		}
		g.secs = append(g.secs, secs)
		g.coef = append(g.coef, cf)
		g.pubs = append(g.pubs, *groupsig.GeneratePubkey(secs[0]))
		for j := 0; j < n; j++ {
			sh := *groupsig.ShareSeckey(secs, g.ids[j])
			g.shares[j] = append(g.shares[j], sh)
			g.shareRef[j] = append(g.shareRef[j], sh.GetBigInt().String())
		}
	}
	g.msg = r.Bytes(32)
	for j := 0; j < n; j++ {
		k := *groupsig.AggregateSeckeys(g.shares[j])
		g.keys = append(g.keys, k)
		g.keyRef = append(g.keyRef, k.GetBigInt().String())
		g.shareSigs = append(g.shareSigs, groupsig.Sign(k, g.msg))
	}
	g.gpk = *groupsig.GeneratePubkey(mkSec(gsk)) // reference: g2^gsk, not the aggregation under test
	g.gpkRef = g.gpk.Serialize()
	g.sigRef = expectSign(gsk, g.msg)
	// node-side key generation through the hook
	copy(g.gh[:], r.Bytes(32))
	for d := 0; d < n; d++ {
		g.seeds = append(g.seeds, r.Bytes(32))
	}
	nodes := newDKGNodes(g)
	dsk := big.NewInt(0)
	for d := 0; d < n; d++ {
		g.pieces = append(g.pieces, nodes[d].GenSharePiece(g.ids))
		g.dpubs = append(g.dpubs, nodes[d].SeedPubKey())
		dsk.Add(dsk, nodes[d].Coefficients()[0].GetBigInt()).Mod(dsk, order)
	}
	g.dkgGpkRef = groupsig.GeneratePubkey(mkSec(dsk)).Serialize()
	for j := 0; j < n; j++ {
		acc := big.NewInt(0)
		for d := 0; d < n; d++ {
			sh := g.pieces[d][g.ids[j].GetHexString()]
			acc.Add(acc, sh.GetBigInt()).Mod(acc, order)
		}
		g.dkgSkRef = append(g.dkgSkRef, acc.String())
	}
	return g
}

// one round of the calls the node makes for this group; returns the number of API calls made
func (g *concGroup) round(it int, fail func(fn, what, at string)) int {
	calls := 0
	try := func(fn string, f func() (bool, string)) {
		defer func() {
			if p := recover(); p != nil {
				fail(fn, fmt.Sprint("panic: ", p), fmt.Sprint("iteration ", it))
			}
		}()
		calls++
		if ok, what := f(); !ok {
			fail(fn, what, fmt.Sprint("iteration ", it))
		}
	}
	j := it % g.n
	d := (it / 3) % g.n
	try("AggregatePubkeys", func() (bool, string) {
		return bytes.Equal(groupsig.AggregatePubkeys(g.pubs).Serialize(), g.gpkRef), "aggregated group public key differs from g2^(group secret) (the sum of the dealers' public keys)"
	})
	try("AggregateSeckeys", func() (bool, string) {
		return groupsig.AggregateSeckeys(g.shares[j]).GetBigInt().String() == g.keyRef[j], "member key differs from the sum of its shares"
	})
	try("ShareSeckey", func() (bool, string) {
		return groupsig.ShareSeckey(g.secs[d], g.ids[j]).GetBigInt().String() == g.shareRef[j][d], "share differs from the sequential evaluation"
	})
	try("Sign", func() (bool, string) {
		s := groupsig.Sign(g.keys[j], g.msg)
		return bytes.Equal(s.Serialize(), g.shareSigs[j].Serialize()), "share signature differs from the sequential one"
	})
	members := make([]int, 0, g.k)
	for t := 0; t < g.k; t++ {
		members = append(members, (it+t*(1+it%2))%g.n)
	}
	if g.k > 1 && members[0] == members[g.k-1] || hasDup(members) {
		members = members[:0]
		for t := 0; t < g.k; t++ {
			members = append(members, (it+t)%g.n)
		}
	}
	try("RecoverGroupSignature", func() (bool, string) {
		m := map[string]groupsig.Signature{}
		for _, x := range members {
			m[g.ids[x].GetHexString()] = g.shareSigs[x]
		}
		return bytes.Equal(groupsig.RecoverGroupSignature(m, g.k).Serialize(), g.sigRef), "recovered signature differs from Sign(group secret)"
	})
	try("GroupSignGenerator", func() (bool, string) {
		gen := model.NewGroupSignGenerator(g.k)
		for _, x := range members {
			gen.AddWitnessSign(g.ids[x], g.shareSigs[x])
		}
		sg := gen.GetGroupSign()
		return gen.SignRecovered() && bytes.Equal(sg.Serialize(), g.sigRef), "generator did not recover Sign(group secret)"
	})
	if it%8 == 0 {
		try("VerifySig", func() (bool, string) {
			var sg groupsig.Signature
			sg.Deserialize(g.sigRef)
			agg := groupsig.AggregatePubkeys(g.pubs)
			return groupsig.VerifySig(*agg, g.msg, sg), "the group signature does not verify under the aggregated group public key"
		})
	}
	if it%4 == 1 {
		try("groupNodeInfo.aggregateKeys", func() (bool, string) {
			mi := &model.SelfMinerInfo{}
			mi.SecretSeed = base.RandFromBytes(g.seeds[j])
			mi.ID = g.ids[j]
			nd := gc.VerifDKGNew(mi, g.gh, g.n)
			rc := 0
			for dd := 0; dd < g.n; dd++ {
				rc = nd.HandleSharePiece(g.ids[dd], &model.SharePiece{Share: g.pieces[dd][g.ids[j].GetHexString()], Pub: g.dpubs[dd]})
			}
			if rc != 1 {
				return false, fmt.Sprint("handleSharePiece returned ", rc, " after all pieces")
			}
			if nd.SignSecKey().GetBigInt().String() != g.dkgSkRef[j] {
				return false, "member signing key differs from the sum of the dealers' shares"
			}
			gp := nd.GroupPubKey()
			return bytes.Equal(gp.Serialize(), g.dkgGpkRef), "group public key differs from g2^(sum of the dealers' constant coefficients)"
		})
	}
	return calls
}

func hasDup(l []int) bool {
	s := map[int]bool{}
	for _, x := range l {
		if s[x] {
			return true
		}
		s[x] = true
	}
	return false
}

// runConcurrent: [workers] goroutines for [dur]; returns violations and per-function call counts
func runConcurrent(seed uint64, workers int, dur time.Duration) ([]concViolation, map[string]int, int) {
	rng := hx.NewRng(seed ^ 0xC13C0)
	groups := make([]*concGroup, workers)
	for w := range groups {
		groups[w] = buildConcGroup(rng.Fork(), 4+w%3)
	}
	var mu sync.Mutex
	var viol []concViolation
	perKey := map[string]int{}
	counts := map[string]int{}
	total := 0
	start := make(chan struct{})
	var wg sync.WaitGroup
	deadline := time.Now().Add(dur)
	for w := range groups {
		wg.Add(1)
		go func(w int) {
			defer wg.Done()
			g := groups[w]
			<-start
			calls := 0
			for it := 0; time.Now().Before(deadline) && it < 200000; it++ {
				calls += g.round(it, func(fn, what, at string) {
					mu.Lock()
					defer mu.Unlock()
					key := "C13/concurrency:groups-interfere:" + fn
					perKey[key]++
					if perKey[key] <= 3 {
						viol = append(viol, concViolation{key, fmt.Sprintf("goroutine %d of %d (own group, nothing shared by the harness): %s", w, workers, what), g.input(at)})
					}
				})
			}
			mu.Lock()
			total += calls
			counts[fmt.Sprintf("concurrent-worker-%d", w)] = calls
			mu.Unlock()
		}(w)
	}
	close(start)
	wg.Wait()
	return viol, counts, total
}

var raceFrame = regexp.MustCompile(`^\s+(com\.tuntun\.rangers/node/src/consensus/(?:groupsig(?:/bn256)?|model|logical/group_create)\.[^\s(]+(?:\([^)]*\))?[^\s(]*)\(`)

// parse the race detector's reports (GORACE log_path files): one key per distinct pair of innermost
// frames inside groupsig / bn256 / model / group_create
func parseRaceLogs(glob string) map[string]string {
	out := map[string]string{}
	files, _ := filepath.Glob(glob)
	for _, f := range files {
		b, err := os.ReadFile(f)
		if err != nil {
			continue
		}
		for _, blk := range strings.Split(string(b), "WARNING: DATA RACE")[1:] {
			var frames []string
			first := true
			for _, ln := range strings.Split(blk, "\n") {
				t := strings.TrimSpace(ln)
				if strings.HasPrefix(t, "Read at") || strings.HasPrefix(t, "Write at") || strings.HasPrefix(t, "Previous") {
					first = true
				}
				if strings.HasPrefix(t, "Goroutine") {
					break
				}
				if m := raceFrame.FindStringSubmatch(ln); m != nil && first {
					fr := strings.TrimPrefix(m[1], "com.tuntun.rangers/node/src/consensus/")
					frames = append(frames, fr)
					first = false
				}
			}
			if len(frames) == 0 {
				continue
			}
			sort.Strings(frames)
			key := "C13/data-race:" + strings.Join(frames, "|")
			if _, ok := out[key]; !ok {
				if len(blk) > 1500 {
					blk = blk[:1500]
				}
				out[key] = blk
			}
		}
	}
	return out
}

// child mode (race build, thorough tier): run only the concurrency family and write the violations
func concChildMain(path string) {
	model.Param.SSSSThreshold = model.SSSS_THRESHOLD
	gc.VerifDKGInit()
	v, _, total := runConcurrent(7, 8, 12*time.Second)
	b, _ := json.Marshal(map[string]interface{}{"violations": v, "calls": total})
	os.WriteFile(path, b, 0644)
}

func concurrencyFamily(a hx.Args, res *hx.Result) {
	thorough := a.Tier == "thorough"
	if raceEnabled {
		// the race detector's reports can only be redirected at process start: run the family in a child
		dir, _ := filepath.Abs(a.Out)
		childOut := filepath.Join(dir, "conc_child.json")
		cmd := exec.Command(os.Args[0])
		cmd.Env = append(os.Environ(), "C13_CONC_CHILD="+childOut, "GORACE=log_path="+filepath.Join(dir, "race")+" exitcode=0 halt_on_error=0")
		outp, err := cmd.CombinedOutput()
		if err != nil {
			if len(outp) > 600 {
				outp = outp[len(outp)-600:]
			}
			res.Violate("C13/concurrency:child-failed", fmt.Sprint(err, " ", string(outp)), nil)
			return
		}
		var cr struct {
			Violations []concViolation `json:"violations"`
			Calls      int             `json:"calls"`
		}
		if b, err := os.ReadFile(childOut); err == nil {
			json.Unmarshal(b, &cr)
		}
		for _, v := range cr.Violations {
			res.Violate(v.Key, v.What, v.Input)
		}
		for key, blk := range parseRaceLogs(filepath.Join(dir, "race.*")) {
			res.Violate(key, "the race detector reports unsynchronised access to shared state in the threshold-signature code while different groups are processed concurrently", blk)
		}
		res.Histogram["concurrent-calls-race-build"] += cr.Calls
		res.Count("concurrency-race-child", "child", true)
		return
	}
	workers, dur := 6, 3*time.Second
	if thorough {
		workers, dur = 8, 15*time.Second
	}
	v, counts, total := runConcurrent(a.Seed, workers, dur)
	for _, x := range v {
		res.Violate(x.Key, x.What, x.Input)
	}
	for k := range counts {
		res.Count("concurrency-worker", k, true)
	}
	res.Histogram["concurrent-api-calls"] += total
	res.Note(fmt.Sprintf("concurrency family: %d goroutines, each with its own group, %d API calls compared with sequential references", workers, total))
}
