// C13 message-layer families, part 2:
//
//	(c) determinism of the dealer polynomial: NewGroupNodeInfo / genSecKeyList / genSharePiece for the same
//	    (miner secret, group hash) give the same polynomial, dealer public key and pieces - and dealer-restart
//	    schedules: a dealer whose context is rebuilt after serving some members deals again to everybody,
//	    receivers keep the first piece per dealer;
//	(d) the share-piece REQUEST path: the node's own OnMessageSharePieceReq (reduced processor, hook) in worlds
//	    where more candidates were pinged than became members (GetGroupK(candidates) != GetGroupK(members)),
//	    requests arriving before and after the dealer's GenSharePieces.
package main

import (
	"bytes"
	"fmt"
	"math/big"
	"sync"

	"com.tuntun.rangers/node/src/common"
	"com.tuntun.rangers/node/src/consensus/access"
	"com.tuntun.rangers/node/src/consensus/base"
	"com.tuntun.rangers/node/src/consensus/groupsig"
	gc "com.tuntun.rangers/node/src/consensus/logical/group_create"
	"com.tuntun.rangers/node/src/consensus/model"
	cnet "com.tuntun.rangers/node/src/consensus/net"
	"com.tuntun.rangers/node/src/middleware/db"
	"com.tuntun.rangers/node/src/middleware/types"
	"com.tuntun.rangers/node/src/service"
	"com.tuntun.rangers/node/src/storage/account"
	"verif/harness/hx"
)

// checkKeys: the C13 property on a set of member keys: every threshold subset recovers gsk*H(m), verifying
func checkKeys(rng *hx.Rng, res *hx.Result, tag string, ids []groupsig.ID, idInts []*big.Int, keys []groupsig.Seckey, gpk groupsig.Pubkey, gsk *big.Int, k int, in map[string]interface{}) {
	n := len(ids)
	if !gpk.IsEqual(*groupsig.GeneratePubkey(mkSec(gsk))) {
		res.Violate("C13/group-pubkey:"+tag, "group public key differs from g2^(sum of the dealers' constant coefficients)", in)
	}
	msg := rng.Bytes(32)
	want := expectSign(gsk, msg)
	sigs := make([]groupsig.Signature, n)
	for i := range sigs {
		sigs[i] = groupsig.Sign(keys[i], msg)
	}
	for si, sub := range subsets(n, k) {
		if len(sub) != k {
			continue
		}
		m := map[string]groupsig.Signature{}
		for _, j := range sub {
			m[ids[j].GetHexString()] = sigs[j]
		}
		var rec *groupsig.Signature
		func() {
			defer func() {
				if p := recover(); p != nil {
					res.Violate("C13/subset-panic:"+tag, fmt.Sprint(p), in)
				}
			}()
			rec = groupsig.RecoverGroupSignature(m, k)
		}()
		if rec == nil {
			continue
		}
		if !bytes.Equal(rec.Serialize(), want) {
			res.Violate("C13/subset-order:"+tag, fmt.Sprintf("threshold subset %v recovers a signature different from Sign(group secret)", sub), in)
		}
		if si%5 == 0 && !groupsig.VerifySig(gpk, msg, *rec) {
			res.Violate("C13/subset-verify:"+tag, fmt.Sprintf("the signature recovered by subset %v does not verify under the group public key", sub), in)
		}
		res.Count("subset-"+tag, fmt.Sprint(tag, sub, strs(idInts)), true)
	}
}

func dealerRestartFamily(rng *hx.Rng, res *hx.Result) {
	const n = 5
	k := model.Param.GetGroupK(n)
	idInts := distinctIDs(rng, n)
	ids := make([]groupsig.ID, n)
	for i := range ids {
		ids[i] = mkID(idInts[i])
	}
	var gh common.Hash
	copy(gh[:], rng.Bytes(32))
	seeds := make([][]byte, n)
	mkNode := func(d int) *gc.VerifDKGNode {
		mi := &model.SelfMinerInfo{}
		mi.SecretSeed = base.RandFromBytes(seeds[d])
		mi.ID = ids[d]
		return gc.VerifDKGNew(mi, gh, n)
	}
	in := map[string]interface{}{"ids": strs(idInts), "group_hash": gh.Hex()}
	type deal struct {
		pieces map[string]groupsig.Seckey
		pub    groupsig.Pubkey
		coef   []string
	}
	dealOf := func(nd *gc.VerifDKGNode) deal {
		var cf []string
		for _, c := range nd.Coefficients() {
			cf = append(cf, c.GetBigInt().String())
		}
		return deal{nd.GenSharePiece(ids), nd.SeedPubKey(), cf}
	}
	first := make([]deal, n)
	second := make([]deal, n)
	gsk := big.NewInt(0)
	for d := 0; d < n; d++ {
		seeds[d] = rng.Bytes(32)
		first[d] = dealOf(mkNode(d))
		second[d] = dealOf(mkNode(d)) // the dealer's context rebuilt for the same (miner secret, group hash)
		c0, _ := new(big.Int).SetString(first[d].coef[0], 10)
		gsk.Add(gsk, c0).Mod(gsk, order)
		same := fmt.Sprint(first[d].coef) == fmt.Sprint(second[d].coef) && first[d].pub.IsEqual(second[d].pub)
		for id, p := range first[d].pieces {
			if q, ok := second[d].pieces[id]; !ok || !q.IsEqual(p) {
				same = false
			}
		}
		if !same {
			res.Violate("C13/pure:dealer-polynomial-depends-on-history", fmt.Sprintf("dealer %d: NewGroupNodeInfo/genSecKeyList/genSharePiece for the same miner secret and group hash gave a different polynomial / dealer public key / pieces the second time", d),
				map[string]interface{}{"ids": strs(idInts), "group_hash": gh.Hex(), "dealer": d, "miner_secret_seed": fmt.Sprintf("%x", seeds[d]), "first": first[d].coef, "second": second[d].coef})
		}
		res.Count("dealer-determinism", fmt.Sprint("dd", d, strs(idInts)), true)
	}
	// restart schedules: dealer d serves the members of [served] from its first context, is rebuilt, then
	// deals to everybody; every receiver keeps the first piece it got from d
	for sched := 0; sched < 4; sched++ {
		keys := make([]groupsig.Seckey, n)
		var gpk groupsig.Pubkey
		restarted := rng.Intn(n)
		served := map[int]bool{}
		for _, j := range perm(rng, n)[:1+rng.Intn(n-1)] {
			served[j] = true
		}
		for i := 0; i < n; i++ {
			mi := &model.SelfMinerInfo{}
			mi.ID = ids[i]
			nd := gc.VerifDKGNew(mi, gh, n)
			for _, d := range perm(rng, n) {
				dl := first[d]
				if d == restarted && !served[i] {
					dl = second[d]
				}
				nd.HandleSharePiece(ids[d], &model.SharePiece{Share: dl.pieces[ids[i].GetHexString()], Pub: dl.pub})
				if d == restarted && served[i] {
					nd.HandleSharePiece(ids[d], &model.SharePiece{Share: second[d].pieces[ids[i].GetHexString()], Pub: second[d].pub}) // re-dealt piece: refused, first wins
				}
			}
			keys[i] = nd.SignSecKey()
			if i == 0 {
				gpk = nd.GroupPubKey()
			} else if !gpk.IsEqual(nd.GroupPubKey()) {
				res.Violate("C13/dkg-gpk-differs:dealer-restart", fmt.Sprintf("after dealer %d restarted having served members %v, the members disagree on the group public key", restarted, served), in)
			}
		}
		in2 := map[string]interface{}{"ids": strs(idInts), "group_hash": gh.Hex(), "restarted_dealer": restarted, "served_before_restart": fmt.Sprint(served)}
		checkKeys(rng, res, "dealer-restart", ids, idInts, keys, gpk, gsk, k, in2)
	}
}

// ---- request path ----
type reqNet struct {
	cnet.NetworkServer // only ResponseSharePiece is used by OnMessageSharePieceReq
	mu                 sync.Mutex
	resp               []*model.ResponseSharePieceMessage
	to                 []groupsig.ID
}

func (r *reqNet) ResponseSharePiece(msg *model.ResponseSharePieceMessage, receiver groupsig.ID) {
	r.mu.Lock()
	defer r.mu.Unlock()
	cp := *msg
	r.resp = append(r.resp, &cp)
	r.to = append(r.to, receiver)
}

var minerPoolOnce sync.Once
var minerAccountDB *account.AccountDB

func bootMinerPool() {
	minerPoolOnce.Do(func() {
		common.Init(0, "p.ini", "dev")
		service.InitMinerManager()
		mdb, _ := db.NewMemDatabase()
		adb, err := account.NewAccountDB(common.Hash{}, account.NewDatabase(mdb))
		if err != nil {
			panic(err)
		}
		minerAccountDB = adb
		access.InitPubkeyPool(access.NewMinerPoolReader())
	})
}

func requestPathFamily(rng *hx.Rng, res *hx.Result, cs *caseBuf, nCand, nMem int) {
	defer func() {
		if p := recover(); p != nil {
			res.Violate("C13/request-path:panic", fmt.Sprint(p), []int{nCand, nMem})
		}
	}()
	bootMinerPool()
	k := model.Param.GetGroupK(nMem)
	candInts := distinctIDs(rng, nCand)
	cands := make([]groupsig.ID, nCand)
	minerSK := make([]groupsig.Seckey, nCand)
	for i := range cands {
		cands[i] = mkID(candInts[i])
		minerSK[i] = *groupsig.NewSeckeyFromRand(base.RandFromBytes(rng.Bytes(32)))
		service.MinerManagerImpl.InsertMiner(&types.Miner{Id: cands[i].Serialize(), PublicKey: groupsig.GeneratePubkey(minerSK[i]).Serialize(), Type: common.MinerTypeValidator, Stake: 1}, minerAccountDB)
	}
	ids, idInts := cands[:nMem], candInts[:nMem] // the candidates beyond nMem did not answer the ping
	var gh common.Hash
	copy(gh[:], rng.Bytes(32))
	info := &model.GroupInitInfo{GroupHeader: &types.GroupHeader{Hash: gh}, GroupMembers: ids}
	in := map[string]interface{}{"candidates": strs(candInts), "members": strs(idInts), "k_members": k, "k_candidates": model.Param.GetGroupK(nCand)}
	got := make([]map[int]model.SharePiece, nMem)
	for i := range got {
		got[i] = map[int]model.SharePiece{}
	}
	coef := make([][]*big.Int, nMem)
	gsk := big.NewInt(0)
	early := 0
	for d := 0; d < nMem; d++ {
		mi := model.SelfMinerInfo{}
		mi.SecretSeed = base.RandFromBytes(rng.Bytes(32))
		mi.ID = ids[d]
		mi.SecKey = minerSK[d]
		nw := &reqNet{}
		proc := gc.VerifC13NewReqProc(mi, nw)
		if !proc.NewContext(info, cands) {
			res.Violate("C13/request-path:no-context", "group init context not created", in)
			return
		}
		for _, c := range proc.Coefficients(gh) {
			coef[d] = append(coef[d], c.GetBigInt())
		}
		if len(coef[d]) != k {
			res.Violate("C13/request-path:threshold", fmt.Sprintf("dealer polynomial has %d coefficients, GetGroupK(members)=%d", len(coef[d]), k), in)
		}
		gsk.Add(gsk, coef[d][0]).Mod(gsk, order)
		ask := func(r int) *model.SharePiece {
			req := &model.ReqSharePieceMessage{GroupHash: gh}
			si, _ := model.NewSignInfo(minerSK[r], ids[r], req)
			req.SignInfo = si
			before := len(nw.resp)
			proc.OnMessageSharePieceReq(req)
			if len(nw.resp) > before {
				if !nw.to[before].IsEqual(ids[r]) {
					res.Violate("C13/request-path:wrong-receiver", "the response was addressed to another member", in)
				}
				return &nw.resp[before].Share
			}
			return nil
		}
		// requests overtaking the dealer's own handling of the group init message
		for _, r := range perm(rng, nMem)[:2] {
			if r == d {
				continue
			}
			if p := ask(r); p != nil {
				early++
				got[r][d] = *p // the requester keeps the first piece it gets from this dealer
			}
		}
		pieces := proc.GenSharePieces(gh)
		// later requests are answered from the map; everybody else gets the dealt piece
		for r := 0; r < nMem; r++ {
			var p model.SharePiece
			if r != d && rng.Intn(2) == 0 {
				q := ask(r)
				if q == nil {
					res.Violate("C13/request-path:no-answer", fmt.Sprintf("dealer %d did not answer member %d's request after dealing", d, r), in)
					continue
				}
				p = *q
			} else {
				p = pieces[ids[r].GetHexString()]
			}
			if _, dup := got[r][d]; !dup {
				got[r][d] = p
			}
		}
	}
	res.Histogram["request-answered-before-dealing"] += early
	keys := make([]groupsig.Seckey, nMem)
	var gpk groupsig.Pubkey
	for i := 0; i < nMem; i++ {
		for d := 0; d < nMem; d++ {
			p := got[i][d]
			secs := make([]groupsig.Seckey, len(coef[d]))
			for t := range secs {
				secs[t] = mkSec(coef[d][t])
			}
			want := groupsig.ShareSeckey(secs, ids[i])
			if !p.Share.IsEqual(*want) {
				res.Violate("C13/dkg-delivery:wrong-share:request-path", fmt.Sprintf("member %d holds from dealer %d a piece that is not the dealer's member-count-threshold polynomial at its id (%d candidates, %d members)", i, d, nCand, nMem),
					map[string]interface{}{"candidates": strs(candInts), "members": strs(idInts), "dealer": d, "dealer_coefficients": strs(coef[d]), "receiver": i, "delivered": p.Share.GetBigInt().String(), "expected": want.GetBigInt().String()})
			}
			if i != d && (i+d)%3 == 0 {
				sh := p.Share.GetBigInt()
				cs.add(fmt.Sprintf("CShare %s %s %s", zlist(coef[d]), zs(idInts[i]), zs(sh)), map[string]interface{}{"kind": "requested-share", "dealer": d, "receiver": i})
			}
			res.Count("request-path-share", fmt.Sprint("rp", nCand, nMem, i, d, strs(idInts)), true)
		}
		mi := &model.SelfMinerInfo{}
		mi.ID = ids[i]
		nd := gc.VerifDKGNew(mi, gh, nMem)
		for _, d := range perm(rng, nMem) {
			p := got[i][d]
			nd.HandleSharePiece(ids[d], &p)
		}
		keys[i] = nd.SignSecKey()
		if i == 0 {
			gpk = nd.GroupPubKey()
		} else if !gpk.IsEqual(nd.GroupPubKey()) {
			res.Violate("C13/dkg-gpk-differs:request-path", "members computed different group public keys", in)
		}
	}
	checkKeys(rng, res, "request-path", ids, idInts, keys, gpk, gsk, k, in)
}
