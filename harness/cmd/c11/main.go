package main

import (
	"fmt"

	"com.tuntun.rangers/node/src/vm"
)

func main() {
	for _, f := range [][3]bool{{false, false, false}, {true, true, true}} {
		t := vm.VerifVMTable(f[0], f[1], f[2])
		for i, o := range t {
			if o.Defined {
				fmt.Printf("%v %02x %s | %s | %s | g=%d min=%d max=%d h=%v j=%v w=%v rv=%v rt=%v\n", f, i, o.Exec, o.DynamicGas, o.MemorySize, o.ConstantGas, o.MinStack, o.MaxStack, o.Halts, o.Jumps, o.Writes, o.Reverts, o.Returns)
			}
		}
	}
}
