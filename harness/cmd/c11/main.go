package main

import (
	"fmt"
	"math/big"

	"com.tuntun.rangers/node/src/vm"
	"github.com/holiman/uint256"
	"verif/harness/vmx"
)

func fee(w uint64) *big.Int { // exact memory fee for w words
	W := new(big.Int).SetUint64(w)
	sq := new(big.Int).Mul(W, W)
	sq.Div(sq, big.NewInt(512))
	return sq.Add(sq, new(big.Int).Mul(W, big.NewInt(3)))
}

func main() {
	vmx.Boot(0)
	vmx.SetFork(vmx.Fork{true, true, true})
	two64 := new(big.Int).Lsh(big.NewInt(1), 64)
	// find w with 900*F(w) just below 2^64
	lo, hi := uint64(1), uint64(1)<<32-1
	for lo < hi {
		mid := (lo + hi + 1) / 2
		t := new(big.Int).Mul(fee(mid), big.NewInt(900))
		if t.Cmp(two64) < 0 {
			lo = mid
		} else {
			hi = mid - 1
		}
	}
	w := lo
	t := new(big.Int).Mul(fee(w), big.NewInt(900))
	gap := new(big.Int).Sub(two64, t)
	fmt.Println("w=", w, "bytes=", w*32, "900F=", t, "gap=", gap)
	cw := new(big.Int).Div(gap, big.NewInt(90)).Uint64() + 1
	fmt.Println("copy words", cw)
	length := cw * 32
	memOff := w*32 - length
	st := []uint256.Int{*new(uint256.Int).SetUint64(length), *new(uint256.Int), *new(uint256.Int).SetUint64(memOff)}
	sz, ovf, has := vm.VerifVMMemorySize(true, true, true, 0x37, st)
	fmt.Println("memsize", sz, ovf, has)
	ms := vm.VerifVMToWordSize(sz) * 32
	g, err, _ := vm.VerifVMDynamicGas(nil, true, true, true, 0x37, st, 1<<62, 0, 0, ms)
	fmt.Println("CALLDATACOPY dynamic gas for", ms, "bytes of new memory:", g, err)
	exact := new(big.Int).Add(new(big.Int).Mul(fee(w), big.NewInt(900)), new(big.Int).Mul(new(big.Int).SetUint64(cw), big.NewInt(90)))
	fmt.Println("exact", exact)
}
