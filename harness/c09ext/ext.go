// Package c09ext: the access-mode extractor of property C09 (stdlib go/parser + go/ast only).
//
// It reads the protobuf struct definitions in src/middleware/pb/x.pb.go (field name, Go type, proto
// label from the struct tag) and every conversion function pb -> node value in
// src/middleware/types/serialization.go, and reports for every access to a field of a pb message HOW
// the field is reached:
//
//	Deref       *x.F with no enclosing `if x.F != nil`      (panics when the optional field is absent)
//	NilChecked  *x.F inside `if x.F != nil { ... }`
//	Getter      x.GetF()                                    (generated nil-safe accessor)
//	Plain       x.F used as a value (slices, message pointers handed on)
//
// and for every variable holding a pb message pointer whether its fields are reached behind a nil check
// of the variable (`if x == nil { return }` at the top of the function, or an enclosing `if x != nil`).
//
// The result is printed as coq/C09/Gen.v (GenV) and re-derived by the C09 harness on every run, which
// compares it with the table the proofs were checked against.
package c09ext

import (
	"fmt"
	"go/ast"
	"go/parser"
	"go/token"
	"path/filepath"
	"reflect"
	"sort"
	"strconv"
	"strings"
)

// PbField: one field of a generated protobuf struct.
type PbField struct {
	Name  string
	GoTy  string // as written: *uint64, []byte, *Hashes, []*TransactionHash, [][]byte
	Kind  string // ptr (pointer to scalar) | bytes | msg | repmsg | repbytes | other
	Label string // opt | req | rep
	Elem  string // message name for msg/repmsg
	Num   string // field number
	Wire  string // varint | bytes | fixed64 ...
}

// Site: one (function, holder variable, field) access, aggregated over all occurrences.
type Site struct {
	Func   string
	Var    string
	Msg    string
	Field  string
	Kind   string
	Label  string
	Mode   string // Deref | NilChecked | Getter | Plain
	Line   int
	Holder string // mode of the holder variable at this site: NilChecked | Deref (unguarded) | Getter
}

// Recv: a variable of pb message pointer type in a conversion function and how its nil-ness is handled.
type Recv struct {
	Func string
	Var  string
	Msg  string
	Mode string // NilChecked (early return / enclosing if), Deref (fields selected unguarded), Getter (only getters), Unused
	Line int
}

// Call: a pb field or variable handed to another conversion function.
type Call struct {
	Func   string
	Callee string
	Arg    string // "g.Header" or "t"
	Line   int
}

type Result struct {
	Msgs  map[string][]PbField
	Sites []Site
	Recvs []Recv
	Calls []Call
	Funcs []string
}

func exprStr(e ast.Expr) string {
	switch x := e.(type) {
	case *ast.Ident:
		return x.Name
	case *ast.StarExpr:
		return "*" + exprStr(x.X)
	case *ast.ArrayType:
		if x.Len == nil {
			return "[]" + exprStr(x.Elt)
		}
		return "[...]" + exprStr(x.Elt)
	case *ast.SelectorExpr:
		return exprStr(x.X) + "." + x.Sel.Name
	case *ast.MapType:
		return "map[" + exprStr(x.Key) + "]" + exprStr(x.Value)
	case *ast.InterfaceType:
		return "interface{}"
	}
	return fmt.Sprintf("%T", e)
}

// ParsePb reads the message structs of x.pb.go.
func ParsePb(path string) (map[string][]PbField, error) {
	fset := token.NewFileSet()
	f, err := parser.ParseFile(fset, path, nil, 0)
	if err != nil {
		return nil, err
	}
	msgs := map[string][]PbField{}
	for _, d := range f.Decls {
		gd, ok := d.(*ast.GenDecl)
		if !ok || gd.Tok != token.TYPE {
			continue
		}
		for _, sp := range gd.Specs {
			ts := sp.(*ast.TypeSpec)
			st, ok := ts.Type.(*ast.StructType)
			if !ok {
				continue
			}
			var fields []PbField
			for _, fl := range st.Fields.List {
				if fl.Tag == nil || len(fl.Names) != 1 {
					continue
				}
				tag := reflect.StructTag(strings.Trim(fl.Tag.Value, "`")).Get("protobuf")
				if tag == "" {
					continue
				}
				parts := strings.Split(tag, ",")
				pf := PbField{Name: fl.Names[0].Name, GoTy: exprStr(fl.Type)}
				if len(parts) >= 3 {
					pf.Wire, pf.Num, pf.Label = parts[0], parts[1], parts[2]
				}
				switch {
				case pf.GoTy == "[]byte":
					pf.Kind = "bytes"
				case pf.GoTy == "[][]byte":
					pf.Kind = "repbytes"
				case strings.HasPrefix(pf.GoTy, "[]*"):
					pf.Kind, pf.Elem = "repmsg", pf.GoTy[3:]
				case strings.HasPrefix(pf.GoTy, "*"):
					el := pf.GoTy[1:]
					switch el {
					case "string", "uint64", "int64", "uint32", "int32", "bool", "float32", "float64":
						pf.Kind = "ptr"
					default:
						pf.Kind, pf.Elem = "msg", el
					}
				default:
					pf.Kind = "other"
				}
				fields = append(fields, pf)
			}
			if len(fields) > 0 {
				msgs[ts.Name.Name] = fields
			}
		}
	}
	return msgs, nil
}

func field(msgs map[string][]PbField, msg, name string) *PbField {
	for i := range msgs[msg] {
		if msgs[msg][i].Name == name {
			return &msgs[msg][i]
		}
	}
	return nil
}

// pbTypeOf: "*middleware_pb.T" / "*pb.T" -> T ; "[]*middleware_pb.T" -> ("", T)
func pbTypeOf(e ast.Expr, pbAlias string) (ptr string, slice string) {
	switch x := e.(type) {
	case *ast.StarExpr:
		if s, ok := x.X.(*ast.SelectorExpr); ok {
			if id, ok := s.X.(*ast.Ident); ok && id.Name == pbAlias {
				return s.Sel.Name, ""
			}
		}
	case *ast.ArrayType:
		if x.Len == nil {
			p, _ := pbTypeOf(x.Elt, pbAlias)
			return "", p
		}
	}
	return "", ""
}

type occ struct {
	mode    string // Deref | NilChecked | Getter | Plain | NilCmp
	line    int
	guarded bool // holder guarded at this occurrence
}

type fnScan struct {
	res     *Result
	msgs    map[string][]PbField
	fset    *token.FileSet
	fn      string
	ptrVar  map[string]string // variable -> message name (pointer to message)
	slcVar  map[string]string // variable -> element message name ([]*T)
	early   map[string]bool   // variable has `if v == nil { return }` at function top level
	occs    map[[2]string][]occ
	selSeen map[string]bool // variable has at least one non-getter field selection
	getSeen map[string]bool
	unguard map[string]bool // variable has a field selection not behind a nil check
	varLine map[string]int
	nonNil  map[string]bool // variables initialised with new(pb.T): never nil
}

func isNil(e ast.Expr) bool {
	id, ok := e.(*ast.Ident)
	return ok && id.Name == "nil"
}

// conjuncts of a condition joined by &&
func conjuncts(e ast.Expr) []ast.Expr {
	if p, ok := e.(*ast.ParenExpr); ok {
		return conjuncts(p.X)
	}
	if b, ok := e.(*ast.BinaryExpr); ok && b.Op == token.LAND {
		return append(conjuncts(b.X), conjuncts(b.Y)...)
	}
	return []ast.Expr{e}
}

// nonNilFacts: expressions known to be non-nil inside the body of `if cond`
func nonNilFacts(cond ast.Expr) []string {
	var r []string
	for _, c := range conjuncts(cond) {
		if b, ok := c.(*ast.BinaryExpr); ok && b.Op == token.NEQ {
			if isNil(b.Y) {
				r = append(r, exprStr(b.X))
			} else if isNil(b.X) {
				r = append(r, exprStr(b.Y))
			}
		}
	}
	return r
}

func endsWithReturn(b *ast.BlockStmt) bool {
	if b == nil || len(b.List) == 0 {
		return false
	}
	_, ok := b.List[len(b.List)-1].(*ast.ReturnStmt)
	return ok
}

func (s *fnScan) walk(n ast.Node, facts map[string]bool) {
	if n == nil {
		return
	}
	switch x := n.(type) {
	case *ast.BlockStmt:
		// facts established by `if v == nil { return }` hold for the rest of the block
		local := facts
		for _, st := range x.List {
			s.walk(st, local)
			if is, ok := st.(*ast.IfStmt); ok && is.Init == nil && is.Else == nil && endsWithReturn(is.Body) {
				if b, ok := is.Cond.(*ast.BinaryExpr); ok && b.Op == token.EQL {
					var e ast.Expr
					if isNil(b.Y) {
						e = b.X
					} else if isNil(b.X) {
						e = b.Y
					}
					if e != nil {
						nf := map[string]bool{}
						for k := range local {
							nf[k] = true
						}
						nf[exprStr(e)] = true
						local = nf
					}
				}
			}
		}
		return
	case *ast.IfStmt:
		s.walk(x.Init, facts)
		s.walk(x.Cond, facts)
		nf := map[string]bool{}
		for k := range facts {
			nf[k] = true
		}
		for _, f := range nonNilFacts(x.Cond) {
			nf[f] = true
		}
		s.walk(x.Body, nf)
		s.walk(x.Else, facts)
		return
	case *ast.AssignStmt:
		for _, r := range x.Rhs {
			s.walk(r, facts)
		}
		// v := x.F  /  v := new(pb.T) / v := &pb.T{}
		if len(x.Lhs) == len(x.Rhs) {
			for i, l := range x.Lhs {
				id, ok := l.(*ast.Ident)
				if !ok {
					s.walk(l, facts)
					continue
				}
				if m, sl := s.typeOfExpr(x.Rhs[i]); m != "" {
					if ce, ok := x.Rhs[i].(*ast.CallExpr); ok {
						if fid, ok := ce.Fun.(*ast.Ident); ok && fid.Name == "new" {
							s.nonNil[id.Name] = true
						}
					}
					s.ptrVar[id.Name] = m
					s.varLine[id.Name] = s.fset.Position(id.Pos()).Line
				} else if sl != "" {
					s.slcVar[id.Name] = sl
				}
			}
		} else {
			for _, l := range x.Lhs {
				s.walk(l, facts)
			}
		}
		return
	case *ast.RangeStmt:
		s.walk(x.X, facts)
		if _, sl := s.typeOfExpr(x.X); sl != "" {
			if id, ok := x.Value.(*ast.Ident); ok && id.Name != "_" {
				s.ptrVar[id.Name] = sl
				s.varLine[id.Name] = s.fset.Position(id.Pos()).Line
			}
		}
		s.walk(x.Body, facts)
		return
	case *ast.StarExpr:
		if sel, ok := x.X.(*ast.SelectorExpr); ok {
			if v, msg := s.holder(sel); msg != "" {
				mode := "Deref"
				if facts[exprStr(sel)] {
					mode = "NilChecked"
				}
				s.add(v, msg, sel, mode, facts)
				return
			}
		}
		s.walk(x.X, facts)
		return
	case *ast.BinaryExpr:
		// x.F != nil / x.F == nil : a nil comparison, not a use of the value
		if (x.Op == token.NEQ || x.Op == token.EQL) && (isNil(x.X) || isNil(x.Y)) {
			e := x.X
			if isNil(x.X) {
				e = x.Y
			}
			if sel, ok := e.(*ast.SelectorExpr); ok {
				if v, msg := s.holder(sel); msg != "" {
					s.add(v, msg, sel, "NilCmp", facts)
					return
				}
			}
			if _, ok := e.(*ast.Ident); ok {
				return
			}
		}
		s.walk(x.X, facts)
		s.walk(x.Y, facts)
		return
	case *ast.CallExpr:
		// x.GetF()
		if sel, ok := x.Fun.(*ast.SelectorExpr); ok && len(x.Args) == 0 && strings.HasPrefix(sel.Sel.Name, "Get") {
			if id, ok := sel.X.(*ast.Ident); ok {
				if msg, ok := s.ptrVar[id.Name]; ok {
					fname := sel.Sel.Name[3:]
					if pf := field(s.msgs, msg, fname); pf != nil {
						s.getSeen[id.Name] = true
						k := [2]string{id.Name, fname}
						s.occs[k] = append(s.occs[k], occ{"Getter", s.fset.Position(x.Pos()).Line, true})
						return
					}
				}
			}
		}
		// calls of other conversion functions with a pb argument
		if id, ok := x.Fun.(*ast.Ident); ok && id.Name != "len" && id.Name != "append" && id.Name != "cap" {
			for _, a := range x.Args {
				if m, sl := s.typeOfExpr(a); m != "" || sl != "" {
					s.res.Calls = append(s.res.Calls, Call{s.fn, id.Name, exprStr(a), s.fset.Position(x.Pos()).Line})
				}
			}
		}
		s.walk(x.Fun, facts)
		for _, a := range x.Args {
			s.walk(a, facts)
		}
		return
	case *ast.SelectorExpr:
		if v, msg := s.holder(x); msg != "" {
			s.add(v, msg, x, "Plain", facts)
			return
		}
		s.walk(x.X, facts)
		return
	}
	// generic traversal of the remaining node kinds
	ast.Inspect(n, func(c ast.Node) bool {
		if c == nil || c == n {
			return true
		}
		s.walk(c, facts)
		return false
	})
}

// holder: sel = v.F with v a known pb message pointer variable and F a field of its message
func (s *fnScan) holder(sel *ast.SelectorExpr) (string, string) {
	id, ok := sel.X.(*ast.Ident)
	if !ok {
		return "", ""
	}
	msg, ok := s.ptrVar[id.Name]
	if !ok || field(s.msgs, msg, sel.Sel.Name) == nil {
		return "", ""
	}
	return id.Name, msg
}

func (s *fnScan) add(v, msg string, sel *ast.SelectorExpr, mode string, facts map[string]bool) {
	g := facts[v] || s.nonNil[v]
	s.selSeen[v] = true
	if !g {
		s.unguard[v] = true
	}
	k := [2]string{v, sel.Sel.Name}
	s.occs[k] = append(s.occs[k], occ{mode, s.fset.Position(sel.Pos()).Line, g})
}

// typeOfExpr: pb message pointer / slice type of an expression, where it can be told syntactically
func (s *fnScan) typeOfExpr(e ast.Expr) (ptr string, slice string) {
	switch x := e.(type) {
	case *ast.Ident:
		if m, ok := s.ptrVar[x.Name]; ok {
			return m, ""
		}
		if m, ok := s.slcVar[x.Name]; ok {
			return "", m
		}
	case *ast.SelectorExpr:
		if _, msg := s.holder(x); msg != "" {
			pf := field(s.msgs, msg, x.Sel.Name)
			switch pf.Kind {
			case "msg":
				return pf.Elem, ""
			case "repmsg":
				return "", pf.Elem
			}
		}
	case *ast.CallExpr:
		if id, ok := x.Fun.(*ast.Ident); ok && id.Name == "new" && len(x.Args) == 1 {
			if sel, ok := x.Args[0].(*ast.SelectorExpr); ok {
				if _, ok := s.msgs[sel.Sel.Name]; ok {
					return sel.Sel.Name, ""
				}
			}
		}
	}
	return "", ""
}

var modeRank = map[string]int{"Getter": 0, "NilCmp": 0, "NilChecked": 1, "Plain": 2, "Deref": 3}

// Scan extracts the access table from the repository at repo.
func Scan(repo string) (*Result, error) {
	msgs, err := ParsePb(filepath.Join(repo, "src/middleware/pb/x.pb.go"))
	if err != nil {
		return nil, err
	}
	res := &Result{Msgs: msgs}
	fset := token.NewFileSet()
	path := filepath.Join(repo, "src/middleware/types/serialization.go")
	f, err := parser.ParseFile(fset, path, nil, 0)
	if err != nil {
		return nil, err
	}
	pbAlias := "pb"
	for _, im := range f.Imports {
		if strings.HasSuffix(strings.Trim(im.Path.Value, "\""), "/middleware/pb") {
			if im.Name != nil {
				pbAlias = im.Name.Name
			}
		}
	}
	for _, d := range f.Decls {
		fd, ok := d.(*ast.FuncDecl)
		if !ok || fd.Body == nil || fd.Recv != nil {
			continue
		}
		s := &fnScan{res: res, msgs: msgs, fset: fset, fn: fd.Name.Name, ptrVar: map[string]string{}, slcVar: map[string]string{},
			early: map[string]bool{}, occs: map[[2]string][]occ{}, selSeen: map[string]bool{}, getSeen: map[string]bool{},
			unguard: map[string]bool{}, varLine: map[string]int{}, nonNil: map[string]bool{}}
		params := []string{}
		for _, p := range fd.Type.Params.List {
			pt, sl := pbTypeOf(p.Type, pbAlias)
			for _, nm := range p.Names {
				if pt != "" {
					s.ptrVar[nm.Name] = pt
					s.varLine[nm.Name] = fset.Position(nm.Pos()).Line
					params = append(params, nm.Name)
				} else if sl != "" {
					s.slcVar[nm.Name] = sl
				}
			}
		}
		s.walk(fd.Body, map[string]bool{})
		if len(s.occs) == 0 && len(params) == 0 {
			continue
		}
		res.Funcs = append(res.Funcs, fd.Name.Name)
		// receivers
		vars := []string{}
		for v := range s.ptrVar {
			vars = append(vars, v)
		}
		sort.Strings(vars)
		for _, v := range vars {
			mode := "Unused"
			switch {
			case s.unguard[v]:
				mode = "Deref"
			case s.selSeen[v]:
				mode = "NilChecked"
			case s.getSeen[v]:
				mode = "Getter"
			}
			res.Recvs = append(res.Recvs, Recv{fd.Name.Name, v, s.ptrVar[v], mode, s.varLine[v]})
		}
		keys := [][2]string{}
		for k := range s.occs {
			keys = append(keys, k)
		}
		sort.Slice(keys, func(i, j int) bool {
			if keys[i][0] != keys[j][0] {
				return keys[i][0] < keys[j][0]
			}
			return keys[i][1] < keys[j][1]
		})
		for _, k := range keys {
			msg := s.ptrVar[k[0]]
			pf := field(msgs, msg, k[1])
			best := occ{mode: "NilCmp"}
			holder := "NilChecked"
			first := true
			for _, o := range s.occs[k] {
				if first || modeRank[o.mode] > modeRank[best.mode] {
					best = o
					first = false
				}
				if !o.guarded && o.mode != "Getter" {
					holder = "Deref"
				}
			}
			if best.mode == "NilCmp" {
				best.mode = "Plain"
			}
			if best.mode == "Getter" {
				holder = "Getter"
			}
			res.Sites = append(res.Sites, Site{Func: fd.Name.Name, Var: k[0], Msg: msg, Field: k[1], Kind: pf.Kind, Label: pf.Label,
				Mode: best.mode, Line: best.line, Holder: holder})
		}
	}
	return res, nil
}

// GenV renders the table as coq/C09/Gen.v. Line numbers are deliberately left out of the Coq terms
// (they are in comments) so that unrelated edits do not change the table.
func GenV(r *Result) string {
	var b strings.Builder
	b.WriteString("(* GENERATED by /verif/tools/goextract-c09 from src/middleware/pb/x.pb.go and\n")
	b.WriteString("   src/middleware/types/serialization.go -- do not edit; regenerate with\n")
	b.WriteString("     cd /verif/tools/goextract-c09 && go run . -repo /repo -out /verif/coq/C09/Gen.v\n")
	b.WriteString("   The C09 harness re-derives this table from the sources it was built from on every run and\n")
	b.WriteString("   compares it with [sites]/[recvs] below. *)\n")
	b.WriteString("From Coq Require Import List String NArith.\nFrom V.C09 Require Import Modes.\nImport ListNotations.\nLocal Open Scope string_scope.\n\n")
	b.WriteString("(* (function, holder variable, field) -> access mode; kind and proto label of the field *)\n")
	b.WriteString("Definition sites : list site := [\n")
	for i, s := range r.Sites {
		sep := ";"
		if i == len(r.Sites)-1 {
			sep = ""
		}
		fmt.Fprintf(&b, "  mk_site \"%s\" \"%s\" \"%s\" \"%s\" K_%s L_%s %s %s%s (* line %d *)\n", s.Func, s.Var, s.Msg, s.Field, s.Kind, s.Label, s.Mode, holderTerm(s.Holder), sep, s.Line)
	}
	b.WriteString("].\n\n(* variables holding a pb message pointer: how a nil pointer is handled before its fields are selected *)\n")
	b.WriteString("Definition recvs : list recv := [\n")
	for i, s := range r.Recvs {
		sep := ";"
		if i == len(r.Recvs)-1 {
			sep = ""
		}
		fmt.Fprintf(&b, "  mk_recv \"%s\" \"%s\" \"%s\" %s%s (* line %d *)\n", s.Func, s.Var, s.Msg, recvTerm(s.Mode), sep, s.Line)
	}
	b.WriteString("].\n")
	sc, err := CoqSchema(r)
	if err != nil {
		sc = "[] (* " + err.Error() + " *)"
	}
	b.WriteString("\n(* field tables of the protobuf messages the wire model decodes (struct tags of x.pb.go), by field number *)\n")
	b.WriteString("Local Open Scope N_scope.\nDefinition msgs : schema := " + sc + ".\n")
	return b.String()
}

func holderTerm(h string) string { return h }
func recvTerm(h string) string {
	if h == "Unused" {
		return "Getter"
	}
	return h
}


// WireRoots: the messages whose wire decoding the C09 model covers (closure over embedded messages is taken).
var WireRoots = []string{"Transaction", "TransactionSlice", "BlockHeader", "Block", "Member", "GroupHeader", "Group"}

// SchemaClosure lists the messages reachable from WireRoots, roots first, in a fixed order.
func SchemaClosure(r *Result) []string {
	var out []string
	seen := map[string]bool{}
	var visit func(string)
	visit = func(m string) {
		if seen[m] {
			return
		}
		seen[m] = true
		out = append(out, m)
		for _, f := range r.Msgs[m] {
			if f.Elem != "" {
				visit(f.Elem)
			}
		}
	}
	for _, m := range WireRoots {
		visit(m)
	}
	return out
}

func kindTerm(f PbField) (string, error) {
	switch f.Kind {
	case "ptr":
		switch f.GoTy {
		case "*uint64":
			if f.Wire == "varint" {
				return "FVar64", nil
			}
		case "*int32":
			if f.Wire == "varint" {
				return "FVar32", nil
			}
		case "*string":
			return "FStr", nil
		}
	case "bytes":
		return "FBytes", nil
	case "repbytes":
		return "FRepBytes", nil
	case "msg":
		return "(FMsg \"" + f.Elem + "\")", nil
	case "repmsg":
		return "(FRepMsg \"" + f.Elem + "\")", nil
	}
	return "", fmt.Errorf("field %s of Go type %s / wire %s is outside the modelled kinds", f.Name, f.GoTy, f.Wire)
}

// CoqSchema renders the field tables (sorted by field number, as the marshaler orders them) as a Coq term of type schema.
func CoqSchema(r *Result) (string, error) {
	var ms []string
	for _, m := range SchemaClosure(r) {
		fs := append([]PbField{}, r.Msgs[m]...)
		sort.SliceStable(fs, func(i, j int) bool {
			a, _ := strconv.Atoi(fs[i].Num)
			b, _ := strconv.Atoi(fs[j].Num)
			return a < b
		})
		var l []string
		for _, f := range fs {
			k, err := kindTerm(f)
			if err != nil {
				return "", fmt.Errorf("message %s: %v", m, err)
			}
			req := "false"
			if f.Label == "req" {
				req = "true"
			}
			l = append(l, fmt.Sprintf("mk_fd %s \"%s\" %s %s", f.Num, f.Name, k, req))
		}
		ms = append(ms, "(\""+m+"\", ["+strings.Join(l, "; ")+"])")
	}
	return "[" + strings.Join(ms, ";\n  ") + "]", nil
}

// CoqLists renders sites and recvs as two Coq list terms (list site, list recv), for the harness case.
func CoqLists(r *Result) (string, string) {
	var ss, rs []string
	for _, s := range r.Sites {
		ss = append(ss, fmt.Sprintf("mk_site \"%s\" \"%s\" \"%s\" \"%s\" K_%s L_%s %s %s", s.Func, s.Var, s.Msg, s.Field, s.Kind, s.Label, s.Mode, holderTerm(s.Holder)))
	}
	for _, s := range r.Recvs {
		rs = append(rs, fmt.Sprintf("mk_recv \"%s\" \"%s\" \"%s\" %s", s.Func, s.Var, s.Msg, recvTerm(s.Mode)))
	}
	return "[" + strings.Join(ss, "; ") + "]", "[" + strings.Join(rs, "; ") + "]"
}
