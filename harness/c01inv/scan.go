// Package c01inv: generated nondeterminism inventory for property C01.
//
// It type-checks the node's packages from source (go/parser + go/types; in-module packages and
// third-party modules are loaded by this file's own importer, the standard library through the
// stdlib "source" importer — no network, no export data), builds a class-hierarchy call graph over the
// scoped packages, and lists every construct in a function reachable from block execution whose
// behaviour Go leaves unspecified or process-local:
//
//	map-range       `range` over an operand of map type
//	range-unresolved `range` over an operand whose type could not be resolved (kept, never dropped)
//	syncmap-range   (*sync.Map).Range
//	go              go statement
//	select          select statement
//	time            time.Now/Since/Until/After/Tick/NewTimer/NewTicker/Sleep, utility.GetTime
//	rand            any function of math/rand, math/rand/v2, crypto/rand
//	global-write    assignment whose left side is rooted in a package-level variable of the module
//	singleton-write write (assignment, ++/--, delete, mutating method of a foreign container such as
//	                lru.Cache / sync.Map / atomic) through a value of a LONG-LIVED type: a module type that a
//	                package-level variable can hold (closure of the variables' types through pointers,
//	                containers, struct fields and interface implementers) and that is neither an explicit
//	                argument of block execution (receiver/parameter types of the roots: VMExecutor, AccountDB,
//	                Transaction, BlockHeader ...) nor instantiated by a function reachable from block execution
//	                (per-execution objects). This is process-local memo state: a cache added to
//	                RewardCalculator, MinerManager, an executor ... is a new site.
//	process-global-read  read of mutable process-wide state: a call of one of package common's readers of the
//	                node's head height / network configuration (GetBlockHeight, IsProposalNNN, IsSub, IsMainnet,
//	                ...: detail "common.<name>"), or a read of a package-level VARIABLE of the module whose type is
//	                a value (basic, struct, array, map, slice - not the singleton pointers, loggers, interfaces
//	                and funcs, and not error values). One site per (function, name).
//	local-store-result-used  a value or error RETURNED by a node-local store is used (assigned, tested,
//	                returned - anything but a bare call statement): (a) a method of a type of middleware/db
//	                (LevelDB handles opened with db.NewDatabase/NewLDBDatabase), database/sql, or a function of
//	                middleware/mysql, called outside the state layer (src/storage/...: there the store IS the
//	                state the block is executed on); (b) a read method (Get/Load/Peek/Contains/...) of a foreign
//	                container (lru, sync.Map ...) reached through a long-lived object. What such a store answers
//	                is node-local history, not chain state.
//
// A site is (file, function, kind, detail); detail is the operand/callee text plus the operand type and,
// for repeated identical sites inside one function, an occurrence number. No line numbers: sites are
// stable under unrelated edits, and a new site (or a changed operand) is a new entry.
package c01inv

import (
	"fmt"
	"go/ast"
	"go/build"
	"go/importer"
	"go/parser"
	"go/token"
	"go/types"
	"os"
	"path/filepath"
	"regexp"
	"sort"
	"strings"
	"unicode"
)

const Module = "com.tuntun.rangers/node"

// Packages whose function bodies are scanned (the property's anchors and their callees).
var ScopePkgs = []string{
	"src/core", "src/executor", "src/service", "src/storage/account", "src/vm", "src/middleware/types",
}

// Roots of the reachability: what a verifier runs to obtain (state root, receipts, evicted list).
// Executors are reached through the interface call in VMExecutor.Execute; they are also listed so
// that the inventory does not depend on that call staying an interface call.
var Roots = []string{
	"src/core.VMExecutor.Execute",
	"src/core.calcReceiptsTree",
	"src/core.calcTxTree",
	"src/middleware/types.Transactions.Less",
	"src/middleware/types.Transactions.Swap",
	"src/middleware/types.Transactions.Len",
	"src/service.ChangeAssets",
	"src/storage/account.AccountDB.IntermediateRoot",
	"src/storage/account.AccountDB.Commit",
}

// RootMethodNames: every method with one of these names on a type of src/executor is a root.
var RootMethodNames = map[string]bool{"BeforeExecute": true, "Execute": true}

type Site struct{ File, Func, Kind, Detail string }

// methods of foreign container / atomic types that change the receiver
var mutatingName = map[string]bool{"Add": true, "Set": true, "Store": true, "Put": true, "Remove": true, "Delete": true, "Push": true,
	"PushBack": true, "PushFront": true, "Purge": true, "LoadOrStore": true, "LoadAndDelete": true, "ContainsOrAdd": true, "PeekOrAdd": true,
	"Swap": true, "CompareAndSwap": true, "Insert": true, "Pop": true, "RemoveOldest": true, "Resize": true, "Reset": true, "Clear": true,
	"Inc": true, "Dec": true, "Write": true, "WriteString": true}

// package common's readers of the node's head height and network configuration
var processReader = regexp.MustCompile(`^(GetBlockHeight|IsProposal\d+|IsSub|IsMainnet|IsRobin|IsDEV|IsFullNode|GetRewardBlocks|GetRefundBlocks|GetBlocksPerEpoch|ChainId|GetChainId|NetworkId|MainNodeContract)$`)

// read methods of foreign containers
var readName = map[string]bool{"Get": true, "Load": true, "Peek": true, "Contains": true, "Has": true, "Len": true, "Keys": true, "Front": true,
	"Back": true, "GetOldest": true, "Range": true}

func recvOrFunc(f *types.Func) string {
	if sig, ok := f.Type().(*types.Signature); ok && sig.Recv() != nil {
		return recvName(sig.Recv().Type()) + "." + f.Name()
	}
	return f.Name()
}

type Stats struct {
	LongLived                                               int
	Packages, Functions, Reachable, TypeErrors, FakeImports int
	MissingRoots                                            []string
}

type fn struct {
	key   string // "<pkg rel path>.<Recv>.<name>" or "<pkg>.<name>"
	name  string // "Recv.name" / "name"
	file  string
	obj   *types.Func
	body  ast.Node
	info  *types.Info
	pkg   *types.Package
	edges []*types.Func
	sites []Site
	cands []cand            // possible singleton-writes, decided after the reachability is known
	inst  []*types.TypeName // named types instantiated here (composite literal, new)
}

type cand struct {
	kind  string // "" = singleton-write
	expr  string
	types []*types.TypeName // module named types on the access path, root first
}

type loaded struct {
	pkg   *types.Package
	files []*ast.File
	info  *types.Info
}

type loader struct {
	fset     *token.FileSet
	repo     string
	modcache string
	reqs     map[string]string
	pkgs     map[string]*loaded
	std      types.Importer
	scope    map[string]bool
	nerr     int
	nfake    int
	ctx      build.Context
}

func (l *loader) Import(path string) (*types.Package, error) { return l.ImportFrom(path, "", 0) }

func (l *loader) ImportFrom(path, dir string, mode types.ImportMode) (*types.Package, error) {
	if path == "unsafe" {
		return types.Unsafe, nil
	}
	if p, ok := l.pkgs[path]; ok {
		if p == nil {
			return nil, fmt.Errorf("import cycle through %s", path)
		}
		return p.pkg, nil
	}
	first := path
	if i := strings.Index(path, "/"); i >= 0 {
		first = path[:i]
	}
	if !strings.Contains(first, ".") { // standard library
		p, err := l.std.Import(path)
		if err != nil || p == nil {
			return l.fake(path), nil
		}
		return p, nil
	}
	var srcdir string
	if path == Module || strings.HasPrefix(path, Module+"/") {
		srcdir = filepath.Join(l.repo, strings.TrimPrefix(path, Module))
	} else {
		srcdir = l.thirdParty(path)
	}
	if srcdir == "" {
		return l.fake(path), nil
	}
	l.pkgs[path] = nil
	ld, err := l.check(path, srcdir)
	if err != nil || ld == nil {
		delete(l.pkgs, path)
		return l.fake(path), nil
	}
	l.pkgs[path] = ld
	return ld.pkg, nil
}

func (l *loader) fake(path string) *types.Package {
	l.nfake++
	name := path[strings.LastIndex(path, "/")+1:]
	if m := regexp.MustCompile(`^(.*)\.v\d+$`).FindStringSubmatch(name); m != nil {
		name = m[1]
	}
	name = strings.ReplaceAll(name, "-", "_")
	p := types.NewPackage(path, name)
	p.MarkComplete()
	l.pkgs[path] = &loaded{pkg: p}
	return p
}

func escapeMod(p string) string {
	var b strings.Builder
	for _, r := range p {
		if unicode.IsUpper(r) {
			b.WriteByte('!')
			b.WriteRune(unicode.ToLower(r))
		} else {
			b.WriteRune(r)
		}
	}
	return b.String()
}

// thirdParty finds the source directory of an import path in the module cache: the version required
// by the node's go.mod if that is present, else any cached version (types only; any version does).
func (l *loader) thirdParty(path string) string {
	parts := strings.Split(path, "/")
	for n := len(parts); n >= 1; n-- {
		mod := strings.Join(parts[:n], "/")
		rest := filepath.Join(parts[n:]...)
		var cands []string
		if v, ok := l.reqs[mod]; ok {
			cands = append(cands, filepath.Join(l.modcache, escapeMod(mod)+"@"+v))
		}
		g, _ := filepath.Glob(filepath.Join(l.modcache, escapeMod(mod)+"@*"))
		sort.Sort(sort.Reverse(sort.StringSlice(g)))
		cands = append(cands, g...)
		for _, c := range cands {
			d := filepath.Join(c, rest)
			if st, err := os.Stat(d); err == nil && st.IsDir() {
				if m, _ := filepath.Glob(filepath.Join(d, "*.go")); len(m) > 0 {
					return d
				}
			}
		}
	}
	return ""
}

func (l *loader) check(path, dir string) (*loaded, error) {
	bp, err := l.ctx.ImportDir(dir, 0)
	if err != nil && bp == nil {
		return nil, err
	}
	names := append(append([]string{}, bp.GoFiles...), bp.CgoFiles...)
	sort.Strings(names)
	if len(names) == 0 {
		return nil, fmt.Errorf("no Go files in %s", dir)
	}
	var files []*ast.File
	for _, n := range names {
		f, err := parser.ParseFile(l.fset, filepath.Join(dir, n), nil, parser.SkipObjectResolution)
		if err != nil {
			l.nerr++
			if f == nil {
				continue
			}
		}
		files = append(files, f)
	}
	inScope := l.scope[path]
	info := &types.Info{}
	if inScope {
		info.Types = map[ast.Expr]types.TypeAndValue{}
		info.Uses = map[*ast.Ident]types.Object{}
		info.Defs = map[*ast.Ident]types.Object{}
		info.Selections = map[*ast.SelectorExpr]*types.Selection{}
	}
	cfg := types.Config{
		Importer:         l,
		FakeImportC:      true,
		IgnoreFuncBodies: !inScope,
		Error: func(err error) {
			if inScope {
				l.nerr++
			}
		},
	}
	pkg, _ := cfg.Check(path, l.fset, files, info)
	if pkg == nil {
		return nil, fmt.Errorf("type check of %s produced no package", path)
	}
	return &loaded{pkg: pkg, files: files, info: info}, nil
}

func readReqs(gomod string) map[string]string {
	res := map[string]string{}
	b, err := os.ReadFile(gomod)
	if err != nil {
		return res
	}
	re := regexp.MustCompile(`^\s*(?:require\s+)?([A-Za-z0-9_.\-/~]+)\s+(v[^\s]+)`)
	for _, ln := range strings.Split(string(b), "\n") {
		if m := re.FindStringSubmatch(ln); m != nil && strings.Contains(m[1], ".") {
			res[m[1]] = m[2]
		}
	}
	return res
}

func relPkg(path string) string { return strings.TrimPrefix(strings.TrimPrefix(path, Module), "/") }

func recvName(t types.Type) string {
	if p, ok := t.(*types.Pointer); ok {
		t = p.Elem()
	}
	if n, ok := t.(*types.Named); ok {
		return n.Obj().Name()
	}
	return ""
}

func funcKey(f *types.Func) string {
	if f.Pkg() == nil {
		return f.Name()
	}
	k := relPkg(f.Pkg().Path()) + "."
	if sig, ok := f.Type().(*types.Signature); ok && sig.Recv() != nil {
		k += recvName(sig.Recv().Type()) + "."
	}
	return k + f.Name()
}

func modCache() string {
	if v := os.Getenv("GOMODCACHE"); v != "" {
		return v
	}
	gp := os.Getenv("GOPATH")
	if gp == "" {
		home, _ := os.UserHomeDir()
		gp = filepath.Join(home, "go")
	}
	return filepath.Join(strings.Split(gp, string(os.PathListSeparator))[0], "pkg", "mod")
}

// All, when set, lists the sites of every function of the scoped packages, reachable or not
// (review aid for the reachability; never used by the check).
var All = false

// Scan loads the scoped packages of the node at repo and returns the inventory.
func Scan(repo string) ([]Site, Stats, error) {
	var st Stats
	fset := token.NewFileSet()
	ctx := build.Default
	ctx.CgoEnabled = true
	ctx.BuildTags = []string{"verif"}
	l := &loader{fset: fset, repo: repo, modcache: modCache(), reqs: readReqs(filepath.Join(repo, "go.mod")),
		pkgs: map[string]*loaded{}, scope: map[string]bool{}, ctx: ctx}
	l.std = importer.ForCompiler(fset, "source", nil)
	for _, p := range ScopePkgs {
		l.scope[Module+"/"+p] = true
	}
	for _, p := range ScopePkgs {
		if _, err := l.Import(Module + "/" + p); err != nil {
			return nil, st, err
		}
		if ld := l.pkgs[Module+"/"+p]; ld == nil || ld.info == nil || len(ld.files) == 0 {
			return nil, st, fmt.Errorf("scoped package %s could not be loaded from %s", p, repo)
		}
	}
	st.TypeErrors, st.FakeImports = l.nerr, l.nfake

	// ---- functions of the scoped packages ----
	fns := map[*types.Func]*fn{}
	byKey := map[string]*fn{}
	var named []*types.Named // concrete named types of the scoped packages (for CHA)
	for _, p := range ScopePkgs {
		ld := l.pkgs[Module+"/"+p]
		st.Packages++
		sc := ld.pkg.Scope()
		for _, n := range sc.Names() {
			if tn, ok := sc.Lookup(n).(*types.TypeName); ok && !tn.IsAlias() {
				if nt, ok := tn.Type().(*types.Named); ok && !types.IsInterface(nt) && nt.TypeParams().Len() == 0 {
					named = append(named, nt)
				}
			}
		}
		for _, f := range ld.files {
			fname, _ := filepath.Rel(repo, fset.Position(f.Pos()).Filename)
			var initParts []ast.Node
			for _, d := range f.Decls {
				switch d := d.(type) {
				case *ast.FuncDecl:
					obj, _ := ld.info.Defs[d.Name].(*types.Func)
					if obj == nil || d.Body == nil {
						continue
					}
					x := &fn{key: funcKey(obj), file: fname, obj: obj, body: d.Body, info: ld.info, pkg: ld.pkg}
					x.name = strings.TrimPrefix(x.key, relPkg(ld.pkg.Path())+".")
					if obj.Name() == "init" && d.Recv == nil { // several init functions may share the name
						x.key = x.key + "@" + filepath.Base(fname)
					}
					fns[obj] = x
					byKey[x.key] = x
					st.Functions++
				case *ast.GenDecl:
					if d.Tok == token.VAR {
						initParts = append(initParts, d)
					}
				}
			}
			_ = initParts
		}
	}

	// ---- CHA: concrete methods of scoped types implementing an interface method ----
	msets := map[*types.Named]*types.MethodSet{}
	for _, nt := range named {
		msets[nt] = types.NewMethodSet(types.NewPointer(nt))
	}
	implCache := map[string][]*types.Func{}
	implementers := func(iface *types.Interface, ifaceKey string, m *types.Func) []*types.Func {
		ck := ifaceKey + "#" + m.Name()
		if r, ok := implCache[ck]; ok {
			return r
		}
		var res []*types.Func
		for _, nt := range named {
			if !types.Implements(types.NewPointer(nt), iface) && !types.Implements(nt, iface) {
				continue
			}
			if sel := msets[nt].Lookup(m.Pkg(), m.Name()); sel != nil {
				if f, ok := sel.Obj().(*types.Func); ok {
					res = append(res, f)
				}
			}
		}
		implCache[ck] = res
		return res
	}
	wellKnown := []string{"MarshalJSON", "UnmarshalJSON", "MarshalText", "UnmarshalText", "String", "Error", "GoString", "Format",
		"EncodeRLP", "DecodeRLP"}
	escapeMethods := func(argT types.Type, paramT types.Type) []*types.Func {
		// a value of a scoped named type handed to foreign code as an interface: the methods the
		// interface names (or the well-known reflective hooks for the empty interface) become callable
		it, ok := paramT.Underlying().(*types.Interface)
		if !ok {
			return nil
		}
		var res []*types.Func
		visit := func(t types.Type) {
			base := t
			if p, ok := base.(*types.Pointer); ok {
				base = p.Elem()
			}
			nt, ok := base.(*types.Named)
			if !ok || nt.Obj().Pkg() == nil || !l.scope[nt.Obj().Pkg().Path()] || msets[nt] == nil {
				return
			}
			ms := msets[nt]
			if it.NumMethods() == 0 {
				for _, w := range wellKnown {
					if sel := ms.Lookup(nt.Obj().Pkg(), w); sel != nil {
						if f, ok := sel.Obj().(*types.Func); ok {
							res = append(res, f)
						}
					}
				}
				return
			}
			for i := 0; i < it.NumMethods(); i++ {
				m := it.Method(i)
				if sel := ms.Lookup(m.Pkg(), m.Name()); sel != nil {
					if f, ok := sel.Obj().(*types.Func); ok {
						res = append(res, f)
					}
				}
			}
		}
		visit(argT)
		// one level of container: []T, []*T, map[_]T
		switch u := argT.Underlying().(type) {
		case *types.Slice:
			visit(u.Elem())
		case *types.Map:
			visit(u.Elem())
		case *types.Pointer:
			visit(u.Elem())
		}
		return res
	}

	isModuleGlobal := func(o types.Object) bool {
		v, ok := o.(*types.Var)
		if !ok || v.IsField() || v.Pkg() == nil {
			return false
		}
		return v.Parent() == v.Pkg().Scope() && strings.HasPrefix(v.Pkg().Path(), Module)
	}

	analyse := func(x *fn) {
		occ := map[string]int{}
		add := func(kind, detail string) {
			k := kind + "|" + detail
			occ[k]++
			if occ[k] > 1 {
				detail = fmt.Sprintf("%s #%d", detail, occ[k])
			}
			x.sites = append(x.sites, Site{x.file, x.name, kind, detail})
		}
		once := map[string]bool{}
		addOnce := func(kind, detail string) {
			if !once[kind+"|"+detail] {
				once[kind+"|"+detail] = true
				x.sites = append(x.sites, Site{x.file, x.name, kind, detail})
			}
		}
		qual := func(p *types.Package) string { return p.Name() }
		short := func(e ast.Expr) string {
			s := types.ExprString(e)
			s = strings.Join(strings.Fields(s), " ")
			if len(s) > 70 {
				s = s[:70] + "..."
			}
			return s
		}
		useFunc := func(f *types.Func, call *ast.CallExpr, sel *ast.SelectorExpr) {
			f = f.Origin()
			sig, _ := f.Type().(*types.Signature)
			full := f.FullName()
			// nondeterminism sources by callee
			if f.Pkg() != nil {
				switch pp := f.Pkg().Path(); {
				case pp == "time" && sig != nil && sig.Recv() == nil:
					switch f.Name() {
					case "Now", "Since", "Until", "After", "Tick", "NewTimer", "NewTicker", "Sleep", "AfterFunc":
						add("time", "time."+f.Name())
					}
				case pp == Module+"/src/utility" && f.Name() == "GetTime":
					add("time", "utility.GetTime")
				case pp == "math/rand" || pp == "math/rand/v2" || pp == "crypto/rand":
					add("rand", pp+"."+f.Name())
				case pp == Module+"/src/common" && sig != nil && sig.Recv() == nil && processReader.MatchString(f.Name()):
					addOnce("process-global-read", "common."+f.Name())
				}
			}
			if full == "(*sync.Map).Range" && sel != nil {
				add("syncmap-range", short(sel.X)+".Range")
			}
			if sig != nil && sig.Recv() != nil {
				if it, ok := sig.Recv().Type().Underlying().(*types.Interface); ok {
					// interface method: every scoped implementer
					x.edges = append(x.edges, implementers(it, types.TypeString(sig.Recv().Type(), nil), f)...)
					return
				}
			}
			if f.Pkg() != nil && l.scope[f.Pkg().Path()] {
				x.edges = append(x.edges, f)
				return
			}
			// foreign callee: scoped values escaping as interfaces
			if call != nil && sig != nil {
				np := sig.Params().Len()
				for i, a := range call.Args {
					var pt types.Type
					switch {
					case sig.Variadic() && i >= np-1:
						if s, ok := sig.Params().At(np - 1).Type().(*types.Slice); ok {
							pt = s.Elem()
						}
					case i < np:
						pt = sig.Params().At(i).Type()
					}
					at := x.info.TypeOf(a)
					if pt != nil && at != nil {
						x.edges = append(x.edges, escapeMethods(at, pt)...)
					}
				}
			}
		}
		rootIdent := func(e ast.Expr) *ast.Ident {
			for {
				switch v := e.(type) {
				case *ast.Ident:
					return v
				case *ast.SelectorExpr:
					// pkg.Var or x.f
					if id, ok := v.X.(*ast.Ident); ok {
						if _, isPkg := x.info.Uses[id].(*types.PkgName); isPkg {
							return v.Sel
						}
					}
					e = v.X
				case *ast.IndexExpr:
					e = v.X
				case *ast.StarExpr:
					e = v.X
				case *ast.ParenExpr:
					e = v.X
				case *ast.SliceExpr:
					e = v.X
				default:
					return nil
				}
			}
		}
		// local aliases of one level: c := reward.cache ; c[k] = v
		alias := map[types.Object]ast.Expr{}
		ast.Inspect(x.body, func(n ast.Node) bool {
			if as, ok := n.(*ast.AssignStmt); ok && as.Tok == token.DEFINE && len(as.Lhs) == len(as.Rhs) {
				for i, l := range as.Lhs {
					if id, ok := l.(*ast.Ident); ok {
						if o := x.info.Defs[id]; o != nil {
							switch o.Type().Underlying().(type) {
							case *types.Map, *types.Slice, *types.Pointer:
								alias[o] = as.Rhs[i]
							}
						}
					}
				}
			}
			return true
		})
		modNamed := func(t types.Type) *types.TypeName {
			for {
				if p, ok := t.(*types.Pointer); ok {
					t = p.Elem()
					continue
				}
				break
			}
			if n, ok := t.(*types.Named); ok && n.Obj().Pkg() != nil && strings.HasPrefix(n.Obj().Pkg().Path(), Module) {
				if _, isStruct := n.Underlying().(*types.Struct); isStruct {
					return n.Obj()
				}
			}
			return nil
		}
		var pathTypes func(e ast.Expr, depth int) []*types.TypeName
		pathTypes = func(e ast.Expr, depth int) []*types.TypeName {
			var res []*types.TypeName
			for e != nil {
				if t := x.info.TypeOf(e); t != nil {
					if tn := modNamed(t); tn != nil {
						res = append([]*types.TypeName{tn}, res...)
					}
				}
				switch v := e.(type) {
				case *ast.Ident:
					if o := x.info.Uses[v]; o != nil && depth < 2 {
						if r, ok := alias[o]; ok {
							res = append(pathTypes(r, depth+1), res...)
						}
					}
					e = nil
				case *ast.SelectorExpr:
					if id, ok := v.X.(*ast.Ident); ok {
						if _, isPkg := x.info.Uses[id].(*types.PkgName); isPkg {
							e = nil
							continue
						}
					}
					e = v.X
				case *ast.IndexExpr:
					e = v.X
				case *ast.StarExpr:
					e = v.X
				case *ast.ParenExpr:
					e = v.X
				case *ast.SliceExpr:
					e = v.X
				case *ast.CallExpr: // getter returning an internal container: x.table()[k] = ..; a returned
					// pointer/struct is taken as a new value (decoded from the state, e.g. GetMiner)
					e = nil
					if t := x.info.TypeOf(v); t != nil {
						switch t.Underlying().(type) {
						case *types.Map, *types.Slice:
							e = v.Fun
						}
					}
				default:
					e = nil
				}
			}
			return res
		}
		write := func(e ast.Expr, how string) {
			// the written location itself (a struct value stored in a variable) is not a path type
			var inner ast.Expr
			switch v := e.(type) {
			case *ast.SelectorExpr:
				inner = v.X
			case *ast.IndexExpr:
				inner = v.X
			case *ast.StarExpr:
				inner = v.X
			case *ast.SliceExpr:
				inner = v.X
			case *ast.ParenExpr:
				inner = v.X
			case *ast.Ident:
				if o := x.info.Uses[v]; o != nil {
					if r, ok := alias[o]; ok && how != "assign" {
						inner = r
					}
				}
			}
			if inner == nil {
				return
			}
			if ts := pathTypes(inner, 0); len(ts) > 0 {
				x.cands = append(x.cands, cand{expr: how + " " + short(e), types: ts})
			}
		}
		readThrough := func(sel *ast.SelectorExpr) {
			if ts := pathTypes(sel.X, 0); len(ts) > 0 {
				x.cands = append(x.cands, cand{kind: "local-store-result-used", expr: short(sel) + "(..)", types: ts})
			}
		}
		lhs := func(e ast.Expr) {
			write(e, "assign")
			id := rootIdent(e)
			if id == nil {
				return
			}
			if o := x.info.Uses[id]; o != nil && isModuleGlobal(o) {
				add("global-write", qual(o.Pkg())+"."+o.Name()+" via "+short(e))
			}
		}
		// calls whose result is used: every call that is not a statement of its own (or go/defer, or
		// assigned to blanks only)
		unused := map[*ast.CallExpr]bool{}
		ast.Inspect(x.body, func(n ast.Node) bool {
			switch v := n.(type) {
			case *ast.ExprStmt:
				if c, ok := v.X.(*ast.CallExpr); ok {
					unused[c] = true
				}
			case *ast.GoStmt:
				unused[v.Call] = true
			case *ast.DeferStmt:
				unused[v.Call] = true
			case *ast.AssignStmt:
				if len(v.Rhs) == 1 {
					if c, ok := v.Rhs[0].(*ast.CallExpr); ok {
						blank := true
						for _, l := range v.Lhs {
							if id, ok := l.(*ast.Ident); !ok || id.Name != "_" {
								blank = false
							}
						}
						if blank {
							unused[c] = true
						}
					}
				}
			}
			return true
		})
		inStateLayer := strings.HasPrefix(relPkg(x.pkg.Path()), "src/storage")
		localStorePkg := func(p *types.Package) bool {
			if p == nil {
				return false
			}
			switch p.Path() {
			case Module + "/src/middleware/db", Module + "/src/middleware/mysql", "database/sql":
				return true
			}
			return false
		}
		callFun := map[*ast.Ident]*ast.CallExpr{}
		selOf := map[*ast.Ident]*ast.SelectorExpr{}
		ast.Inspect(x.body, func(n ast.Node) bool {
			switch v := n.(type) {
			case *ast.CallExpr:
				fun := v.Fun
				for {
					if p, ok := fun.(*ast.ParenExpr); ok {
						fun = p.X
						continue
					}
					break
				}
				switch f := fun.(type) {
				case *ast.Ident:
					callFun[f] = v
					if b, ok := x.info.Uses[f].(*types.Builtin); ok {
						switch {
						case b.Name() == "delete" && len(v.Args) == 2:
							write(&ast.IndexExpr{X: v.Args[0], Index: v.Args[1]}, "delete")
						case b.Name() == "new" && len(v.Args) == 1:
							if tn := modNamed(x.info.TypeOf(v.Args[0])); tn != nil {
								x.inst = append(x.inst, tn)
							}
						}
					}
				case *ast.SelectorExpr:
					callFun[f.Sel] = v
					if !unused[v] {
						var callee *types.Func
						if sel := x.info.Selections[f]; sel != nil && sel.Kind() == types.MethodVal {
							callee, _ = sel.Obj().(*types.Func)
						} else if fo, ok := x.info.Uses[f.Sel].(*types.Func); ok {
							callee = fo // pkg.Func
						}
						if callee != nil {
							sig, _ := callee.Type().(*types.Signature)
							hasResult := sig != nil && sig.Results().Len() > 0
							switch {
							case hasResult && localStorePkg(callee.Pkg()) && !inStateLayer && callee.Name() != "NewBatch":
								add("local-store-result-used", short(f)+"(..) : "+callee.Pkg().Name()+"."+recvOrFunc(callee))
							case hasResult && sig.Recv() != nil && callee.Pkg() != nil && !strings.HasPrefix(callee.Pkg().Path(), Module) && readName[f.Sel.Name]:
								readThrough(f)
							}
						}
					}
					if sel := x.info.Selections[f]; sel != nil && sel.Kind() == types.MethodVal && mutatingName[f.Sel.Name] {
						if m, ok := sel.Obj().(*types.Func); ok && m.Pkg() != nil && !strings.HasPrefix(m.Pkg().Path(), Module) {
							write(&ast.SelectorExpr{X: f.X, Sel: f.Sel}, "call")
						}
					}
				}
			case *ast.CompositeLit:
				if tn := modNamed(x.info.TypeOf(v)); tn != nil {
					x.inst = append(x.inst, tn)
				}
			case *ast.SelectorExpr:
				selOf[v.Sel] = v
			case *ast.RangeStmt:
				t := x.info.TypeOf(v.X)
				switch {
				case t == nil || t == types.Typ[types.Invalid]:
					add("range-unresolved", short(v.X))
				default:
					if _, ok := t.Underlying().(*types.Map); ok {
						add("map-range", short(v.X)+" : "+types.TypeString(t, qual)+keysOnly(x, v))
					} else if tp, ok := t.(*types.TypeParam); ok {
						add("range-unresolved", short(v.X)+" : type parameter "+tp.String())
					}
				}
			case *ast.GoStmt:
				add("go", short(v.Call.Fun))
			case *ast.SelectStmt:
				add("select", fmt.Sprintf("%d clauses", len(v.Body.List)))
			case *ast.AssignStmt:
				if v.Tok != token.DEFINE {
					for _, e := range v.Lhs {
						lhs(e)
					}
				}
			case *ast.IncDecStmt:
				lhs(v.X)
			}
			return true
		})
		ast.Inspect(x.body, func(n ast.Node) bool {
			if id, ok := n.(*ast.Ident); ok {
				if f, ok := x.info.Uses[id].(*types.Func); ok {
					useFunc(f, callFun[id], selOf[id])
				}
				if o := x.info.Uses[id]; o != nil && isModuleGlobal(o) {
					isErr := types.Identical(o.Type(), types.Universe.Lookup("error").Type())
					switch o.Type().Underlying().(type) {
					case *types.Basic, *types.Struct, *types.Array, *types.Map, *types.Slice:
						if !isErr {
							addOnce("process-global-read", qual(o.Pkg())+"."+o.Name())
						}
					}
				}
			}
			return true
		})
	}

	// ---- reachability ----
	var work []*fn
	seen := map[*fn]bool{}
	push := func(x *fn) {
		if x != nil && !seen[x] {
			seen[x] = true
			work = append(work, x)
		}
	}
	for _, r := range Roots {
		if x := byKey[r]; x != nil {
			push(x)
		} else {
			st.MissingRoots = append(st.MissingRoots, r)
		}
	}
	nExec := 0
	for _, x := range fns {
		if relPkg(x.pkg.Path()) == "src/executor" && RootMethodNames[x.obj.Name()] {
			if sig := x.obj.Type().(*types.Signature); sig.Recv() != nil {
				push(x)
				nExec++
			}
		}
	}
	if nExec == 0 {
		st.MissingRoots = append(st.MissingRoots, "src/executor.*.{BeforeExecute,Execute}")
	}
	var sites []Site
	var reached []*fn
	for len(work) > 0 {
		x := work[len(work)-1]
		work = work[:len(work)-1]
		analyse(x)
		sites = append(sites, x.sites...)
		reached = append(reached, x)
		for _, e := range x.edges {
			push(fns[e.Origin()])
		}
	}
	st.Reachable = len(seen)

	// ---- long-lived types: what a package-level variable of the module can hold ----
	longLived := map[*types.TypeName]bool{}
	var visitT func(t types.Type, depth int)
	visitT = func(t types.Type, depth int) {
		if t == nil || depth > 12 {
			return
		}
		switch u := t.(type) {
		case *types.Pointer:
			visitT(u.Elem(), depth+1)
		case *types.Slice:
			visitT(u.Elem(), depth+1)
		case *types.Array:
			visitT(u.Elem(), depth+1)
		case *types.Chan:
			visitT(u.Elem(), depth+1)
		case *types.Map:
			visitT(u.Key(), depth+1)
			visitT(u.Elem(), depth+1)
		case *types.Struct:
			for i := 0; i < u.NumFields(); i++ {
				visitT(u.Field(i).Type(), depth+1)
			}
		case *types.Interface:
			if u.NumMethods() == 0 {
				return
			}
			for _, nt := range named {
				if types.Implements(types.NewPointer(nt), u) || types.Implements(nt, u) {
					visitT(nt, depth+1)
				}
			}
		case *types.Named:
			if u.Obj().Pkg() == nil || !strings.HasPrefix(u.Obj().Pkg().Path(), Module) {
				return
			}
			if longLived[u.Obj()] {
				return
			}
			switch uu := u.Underlying().(type) {
			case *types.Struct:
				longLived[u.Obj()] = true
				visitT(uu, depth+1)
			default:
				visitT(uu, depth+1)
			}
		}
	}
	var pkgPaths []string
	for path := range l.pkgs {
		pkgPaths = append(pkgPaths, path)
	}
	sort.Strings(pkgPaths)
	for _, path := range pkgPaths {
		ld := l.pkgs[path]
		if ld == nil || ld.pkg == nil || !strings.HasPrefix(path, Module) {
			continue
		}
		sc := ld.pkg.Scope()
		for _, n := range sc.Names() {
			if v, ok := sc.Lookup(n).(*types.Var); ok {
				visitT(v.Type(), 0)
			}
		}
	}
	// explicit arguments of block execution, and per-execution objects
	explicit := map[*types.TypeName]bool{}
	isRoot := func(x *fn) bool {
		for _, r := range Roots {
			if x.key == r {
				return true
			}
		}
		return relPkg(x.pkg.Path()) == "src/executor" && RootMethodNames[x.obj.Name()]
	}
	namedOf := func(t types.Type) *types.TypeName {
		for {
			if p, ok := t.(*types.Pointer); ok {
				t = p.Elem()
				continue
			}
			break
		}
		if n, ok := t.(*types.Named); ok {
			return n.Obj()
		}
		return nil
	}
	for _, x := range reached {
		if !isRoot(x) {
			continue
		}
		sig := x.obj.Type().(*types.Signature)
		if sig.Recv() != nil && relPkg(x.pkg.Path()) != "src/executor" { // executor objects live in a global table
			if tn := namedOf(sig.Recv().Type()); tn != nil {
				explicit[tn] = true
			}
		}
		for i := 0; i < sig.Params().Len(); i++ {
			if tn := namedOf(sig.Params().At(i).Type()); tn != nil {
				explicit[tn] = true
			}
		}
	}
	perExec := map[*types.TypeName]bool{}
	for _, x := range reached {
		for _, tn := range x.inst {
			perExec[tn] = true
		}
	}
	st.LongLived = len(longLived)
	for _, x := range reached {
		occ := map[string]int{}
		for _, c := range x.cands {
			var hit *types.TypeName
			for _, tn := range c.types {
				if longLived[tn] && !explicit[tn] && !perExec[tn] {
					hit = tn
					break
				}
			}
			if hit == nil {
				continue
			}
			detail := hit.Pkg().Name() + "." + hit.Name() + " : " + c.expr
			kind := "singleton-write"
			if c.kind != "" {
				kind = c.kind
			}
			occ[kind+detail]++
			if occ[kind+detail] > 1 {
				detail = fmt.Sprintf("%s #%d", detail, occ[kind+detail])
			}
			sites = append(sites, Site{x.file, x.name, kind, detail})
		}
	}
	if All {
		for _, x := range fns {
			if !seen[x] {
				analyse(x)
				for _, s := range x.sites {
					s.Kind = "unreachable:" + s.Kind
					sites = append(sites, s)
				}
			}
		}
	}
	sort.Slice(sites, func(i, j int) bool {
		a, b := sites[i], sites[j]
		if a.File != b.File {
			return a.File < b.File
		}
		if a.Func != b.Func {
			return a.Func < b.Func
		}
		if a.Kind != b.Kind {
			return a.Kind < b.Kind
		}
		return a.Detail < b.Detail
	})
	return sites, st, nil
}

// keysOnly recognises the idiom that makes a map range harmless:
//
//	for k := range m { ks = append(ks, k) }   ...   sort.Strings(ks) / sort.Slice(ks, ..) / sort.Sort(T(ks))
//
// and returns a suffix for the site's detail saying so. The suffix names the sort call, so removing the
// sort (or replacing the loop body) changes the site and the coverage obligation fails.
func keysOnly(x *fn, v *ast.RangeStmt) string {
	key, ok := v.Key.(*ast.Ident)
	if !ok || key.Name == "_" {
		return ""
	}
	if v.Value != nil {
		if id, ok := v.Value.(*ast.Ident); !ok || id.Name != "_" {
			return ""
		}
	}
	if len(v.Body.List) != 1 {
		return ""
	}
	as, ok := v.Body.List[0].(*ast.AssignStmt)
	if !ok || len(as.Lhs) != 1 || len(as.Rhs) != 1 || as.Tok != token.ASSIGN {
		return ""
	}
	dst, ok := as.Lhs[0].(*ast.Ident)
	if !ok {
		return ""
	}
	call, ok := as.Rhs[0].(*ast.CallExpr)
	if !ok || len(call.Args) != 2 || call.Ellipsis.IsValid() {
		return ""
	}
	if f, ok := call.Fun.(*ast.Ident); !ok || f.Name != "append" {
		return ""
	} else if _, isBuiltin := x.info.Uses[f].(*types.Builtin); !isBuiltin {
		return ""
	}
	a0, ok0 := call.Args[0].(*ast.Ident)
	a1, ok1 := call.Args[1].(*ast.Ident)
	if !ok0 || !ok1 || a0.Name != dst.Name || x.info.Uses[a1] != x.info.Defs[key] || x.info.Defs[key] == nil {
		return ""
	}
	dstObj := x.info.Uses[dst]
	sorted := ""
	ast.Inspect(x.body, func(n ast.Node) bool {
		c, ok := n.(*ast.CallExpr)
		if !ok || sorted != "" || c.Pos() < v.End() || len(c.Args) == 0 {
			return true
		}
		sel, ok := c.Fun.(*ast.SelectorExpr)
		if !ok {
			return true
		}
		pk, ok := sel.X.(*ast.Ident)
		if !ok {
			return true
		}
		if pn, ok := x.info.Uses[pk].(*types.PkgName); !ok || pn.Imported().Path() != "sort" {
			return true
		}
		switch sel.Sel.Name {
		case "Strings", "Ints", "Float64s", "Slice", "SliceStable", "Sort", "Stable":
		default:
			return true
		}
		arg := c.Args[0]
		for { // sort.Sort(sort.StringSlice(ks)): look through one conversion
			if cc, ok := arg.(*ast.CallExpr); ok && len(cc.Args) == 1 {
				arg = cc.Args[0]
				continue
			}
			break
		}
		if id, ok := arg.(*ast.Ident); ok && x.info.Uses[id] == dstObj && dstObj != nil {
			sorted = "sort." + sel.Sel.Name + "(" + dst.Name + ")"
		}
		return true
	})
	if sorted == "" {
		return " => keys only, collected into " + dst.Name + ", NOT sorted"
	}
	return " => keys only, collected into " + dst.Name + ", then " + sorted
}

func coqStr(s string) string { return "\"" + strings.ReplaceAll(s, "\"", "\"\"") + "\"" }

// CoqTerm renders one site as a term of type V.C01.Inventory.site.
func CoqTerm(s Site) string {
	return fmt.Sprintf("S %s %s %s %s", coqStr(s.File), coqStr(s.Func), coqStr(s.Kind), coqStr(s.Detail))
}

// CoqInventory renders `Definition inventory : list site := [...]`.
func CoqInventory(sites []Site) string {
	var b strings.Builder
	b.WriteString("Definition inventory : list site := [\n")
	for i, s := range sites {
		b.WriteString("  " + CoqTerm(s))
		if i+1 < len(sites) {
			b.WriteString(";")
		}
		b.WriteString("\n")
	}
	b.WriteString("].\n")
	return b.String()
}

const genHeader = `(* GENERATED by tools/goextract-c01 (library harness/c01inv) from the node's sources — do not edit.
   Every map range / sync.Map.Range / go / select / clock / rand / package-level write in a function
   reachable from block execution (roots and scope: see harness/c01inv/scan.go). *)
From Coq Require Import List String.
From V.C01 Require Import Inventory.
Import ListNotations.
Open Scope string_scope.

`

// GenV is the content of coq/C01/Gen.v.
func GenV(sites []Site) string { return genHeader + CoqInventory(sites) }

// CasesGenV is the content of cases_gen.v written by the harness into its -out directory: the
// inventory of the sources the harness was built from, and the sites Covered.v does not account for.
func CasesGenV(sites []Site) string {
	return `(* inventory regenerated by harness/cmd/c01 from the sources under test *)
From Coq Require Import List String.
From V.C01 Require Import Inventory Covered.
Import ListNotations.
Open Scope string_scope.

` + CoqInventory(sites) + `
Definition mismatches : list site := Eval vm_compute in uncovered inventory.
Print mismatches.
`
}
