module verif/harness

go 1.13

require (
	com.tuntun.rangers/node v0.0.0
	github.com/holiman/uint256 v1.1.1
)

replace com.tuntun.rangers/node => /repo
