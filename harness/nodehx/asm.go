package nodehx

import (
	"math/big"

	"com.tuntun.rangers/node/src/common"
	crypto "com.tuntun.rangers/node/src/eth_crypto"
	"com.tuntun.rangers/node/src/utility"
)

// ---- a tiny EVM assembler ----
type Asm struct{ B []byte }

func (a *Asm) Op(ops ...byte) *Asm { a.B = append(a.B, ops...); return a }

// Push pushes a big-endian constant with the shortest PUSHn (PUSH1 0 for zero).
func (a *Asm) Push(v *big.Int) *Asm {
	b := v.Bytes()
	if len(b) == 0 {
		b = []byte{0}
	}
	if len(b) > 32 {
		b = b[len(b)-32:]
	}
	a.B = append(a.B, byte(0x5f+len(b)))
	a.B = append(a.B, b...)
	return a
}
func (a *Asm) PushU(v uint64) *Asm { return a.Push(new(big.Int).SetUint64(v)) }
func (a *Asm) PushAddr(x common.Address) *Asm {
	a.B = append(a.B, 0x73)
	a.B = append(a.B, x.Bytes()...)
	return a
}
func (a *Asm) PushBytes(b []byte) *Asm {
	if len(b) == 0 || len(b) > 32 {
		panic("PushBytes")
	}
	a.B = append(a.B, byte(0x5f+len(b)))
	a.B = append(a.B, b...)
	return a
}

const (
	STOP, ADD, MUL, SUB                                = 0x00, 0x01, 0x02, 0x03
	ADDRESS, BALANCE, ORIGIN, CALLER, CALLVALUE        = 0x30, 0x31, 0x32, 0x33, 0x34
	CALLDATALOAD, CALLDATASIZE, CALLDATACOPY           = 0x35, 0x36, 0x37
	CODECOPY, SELFBALANCE                              = 0x39, 0x47
	POP, MLOAD, MSTORE, SSTORE, JUMP, JUMPI            = 0x50, 0x51, 0x52, 0x55, 0x56, 0x57
	GAS, JUMPDEST                                      = 0x5a, 0x5b
	DUP1, SWAP1                                        = 0x80, 0x90
	LOG0                                               = 0xa0
	CREATE, CALL, CALLCODE, RETURN, DELEGATECALL       = 0xf0, 0xf1, 0xf2, 0xf3, 0xf4
	CREATE2, STATICCALL, REVERT, INVALID, SELFDESTRUCT = 0xf5, 0xfa, 0xfd, 0xfe, 0xff
	STAKE, UNSTAKE, GETSTAKE, UNSTAKEALL, STAKENUM     = 0xee, 0xef, 0xec, 0xeb, 0xea
	AUTH, AUTHCALL                                     = 0xf6, 0xf7
)

// Call emits CALL(gas, to, value, 0,0,0,0) and leaves the success flag on the stack.
func (a *Asm) Call(gas uint64, to common.Address, value *big.Int) *Asm {
	a.PushU(0).PushU(0).PushU(0).PushU(0).Push(value).PushAddr(to).PushU(gas)
	return a.Op(CALL)
}

// Initcode wraps runtime code into creation code that returns it.
func Initcode(runtime []byte) []byte {
	a := &Asm{}
	// PUSH len; PUSH off; PUSH 0; CODECOPY; PUSH len; PUSH 0; RETURN
	const hdr = 2 + 2 + 2 + 1 + 2 + 2 + 1
	if len(runtime) > 255 {
		panic("runtime too long for Initcode")
	}
	a.PushU(uint64(len(runtime))).PushU(hdr).PushU(0).Op(CODECOPY).PushU(uint64(len(runtime))).PushU(0).Op(RETURN)
	if len(a.B) != hdr {
		panic("Initcode header size")
	}
	return append(a.B, runtime...)
}

// AuthSig signs the EIP-3074 style AUTH message of this node for invoker contract `invoker`
// and commit `commit` with the private key bytes; returns calldata v||r||s||commit (128 bytes)
// and the authority address.
func AuthSig(priv []byte, chainId *big.Int, invoker common.Address, commit [32]byte) ([]byte, common.Address) {
	k, err := crypto.ToECDSA(priv)
	if err != nil {
		panic(err)
	}
	msg := make([]byte, 97)
	msg[0] = 0x03
	copy(msg[1:33], utility.LeftPadBytes(chainId.Bytes(), 32))
	copy(msg[33:65], utility.LeftPadBytes(invoker.Bytes(), 32))
	copy(msg[65:], commit[:])
	h := crypto.Keccak256(msg)
	sig, err := crypto.Sign(h, k)
	if err != nil {
		panic(err)
	}
	out := make([]byte, 128)
	out[31] = sig[64]
	copy(out[32:64], sig[0:32])
	copy(out[64:96], sig[32:64])
	copy(out[96:128], commit[:])
	return out, crypto.PubkeyToAddress(k.PublicKey)
}
