// Package nodehx: node boot + in-memory world helpers shared by the C06 and C20 harnesses.
// (boot sequence: CONVENTIONS.md env notes). Everything runs the real /repo code; this file only
// wires it to an in-memory AccountDB and gives canonical read-outs.
package nodehx

import (
	"fmt"
	"math/big"
	"os"
	"sort"
	"strconv"
	"time"

	"com.tuntun.rangers/node/src/common"
	"com.tuntun.rangers/node/src/core"
	"com.tuntun.rangers/node/src/executor"
	"com.tuntun.rangers/node/src/middleware"
	"com.tuntun.rangers/node/src/middleware/db"
	"com.tuntun.rangers/node/src/middleware/types"
	"com.tuntun.rangers/node/src/service"
	"com.tuntun.rangers/node/src/storage/account"
	"com.tuntun.rangers/node/src/utility"
	"com.tuntun.rangers/node/src/vm"
)

// ---- stubs passed through the exported Init functions ----
type stubChain struct{}

func (stubChain) GetBlockHash(h uint64) common.Hash { return common.Hash{} }
func (stubChain) QueryBlockHeaderByHeight(height interface{}, cache bool) *types.BlockHeader {
	return nil
}
func (stubChain) GetAvailableGroupsByMinerId(height uint64, minerId []byte) []*types.Group {
	return nil
}
func (stubChain) GetGroupById(id []byte) *types.Group {
	if g, ok := Groups[string(id)]; ok {
		return g
	}
	return nil
}
func (stubChain) GetBlockHeader(height uint64) *types.BlockHeader { return nil }

var Chain = stubChain{}

// Groups known to the stub group chain (id -> group), used by the reward calculator.
var Groups = map[string]*types.Group{}

// TokenContract is the address the native balance is bound to (storage slots keccak(addr.3)).
var TokenContract = common.HexToAddress("0x71d9cfd1b7adb1e8eb4c193ce6ffbe19b4aee0db")

var booted = false

// Boot starts the node services needed by the executors. cwd receives storage0/, logs/, p.ini.
func Boot(height uint64) {
	if booted {
		common.SetBlockHeight(height)
		return
	}
	booted = true
	common.Init(0, "p.ini", "dev")
	common.SetBlockHeight(height)
	middleware.InitMiddleware()
	service.InitService()
	service.InitRefundManager(Chain, Chain)
	service.InitRewardCalculator(Chain, Chain, Chain)
	vm.InitVM()
	executor.InitExecutors()
	core.VerifC06InitLoggers()
}

// ---- world: one trie database in memory, a sequence of AccountDBs over it ----
type World struct {
	Disk db.Database
	TDB  account.AccountDatabase
	ADB  *account.AccountDB
	Root common.Hash
}

func NewWorld() *World {
	w := &World{}
	md, err0 := db.NewMemDatabase()
	if err0 != nil {
		panic(err0)
	}
	w.Disk = md
	w.TDB = account.NewDatabase(w.Disk)
	adb, err := account.NewAccountDB(common.Hash{}, w.TDB)
	if err != nil {
		panic(err)
	}
	w.ADB = adb
	adb.AddERC20Binding(common.BLANCE_NAME, TokenContract, 3, 18)
	// make the binding visible to the process-global cache used by GetERC20Binding
	adb.GetBalance(common.FeeAccount)
	return w
}

// Boundary = block boundary: IntermediateRoot + Commit, then a fresh AccountDB on the new root.
func (w *World) Boundary() common.Hash {
	w.ADB.IntermediateRoot(true)
	root, err := w.ADB.Commit(true)
	if err != nil {
		panic(err)
	}
	if err := w.TDB.TrieDB().Commit(root, false); err != nil {
		panic(err)
	}
	adb, err := account.NewAccountDB(root, w.TDB)
	if err != nil {
		panic(err)
	}
	w.ADB, w.Root = adb, root
	return root
}

func Header(height uint64) *types.BlockHeader {
	return &types.BlockHeader{Height: height, CurTime: time.Unix(1700000000+int64(height), 0), Castor: []byte{0xca, 0x57}}
}

func Ctx() map[string]interface{} {
	return map[string]interface{}{"chain": Chain, "situation": "testing", "refund": make(map[uint64]types.RefundInfoList)}
}

// Wei parses a decimal token amount with the node's own parser.
func Wei(s string) *big.Int {
	v, err := utility.StrToBigInt(s)
	if err != nil {
		panic(err)
	}
	return v
}

func Tokens(n uint64) *big.Int { return utility.Uint64ToBigInt(n) }

func Addr(i int) common.Address {
	var a common.Address
	a[0] = 0xA0
	a[18] = byte(i >> 8)
	a[19] = byte(i)
	return a
}

func AddrHex(a common.Address) string { return a.GetHexString() }

// ---- escrow: refund accounts "refund<height>" ----
func RefundAddress(height uint64) common.Address {
	return common.BytesToAddress(common.Sha256(utility.StrToBytes("refund" + strconv.FormatUint(height, 10))))
}

// Escrow returns the pending (addr -> amount) map of one height, zero entries dropped.
func Escrow(adb *account.AccountDB, height uint64) map[common.Address]*big.Int {
	res := map[common.Address]*big.Int{}
	// GetAllRefund creates the (empty) account object when it is missing and dereferences nil when the
	// object was deleted by an earlier IntermediateRoot of the same AccountDB: only read existing ones
	if !adb.Exist(RefundAddress(height)) {
		return res
	}
	for a, v := range adb.GetAllRefund(RefundAddress(height)) {
		if v.Sign() != 0 {
			res[a] = v
		}
	}
	return res
}

func EscrowSum(adb *account.AccountDB, heights []uint64) *big.Int {
	s := new(big.Int)
	for _, h := range heights {
		for _, v := range Escrow(adb, h) {
			s.Add(s, v)
		}
	}
	return s
}

// ---- miners ----
type MinerView struct {
	Found   bool
	Id      string
	Type    byte
	Status  byte
	Stake   uint64
	Account string
	Apply   uint64
}

func ViewOf(m *types.Miner) MinerView {
	if m == nil {
		return MinerView{}
	}
	return MinerView{true, common.ToHex(m.Id), m.Type, m.Status, m.Stake, common.ToHex(m.Account), m.ApplyHeight}
}

func (v MinerView) String() string {
	if !v.Found {
		return "-"
	}
	return fmt.Sprintf("%s/t%d/s%d/%d/%s/h%d", v.Id, v.Type, v.Status, v.Stake, v.Account, v.Apply)
}

// IterateAll walks the registry of one type with the real MinerIterator (through the exported
// GetAllMinerIdAndAccount / GetProposerTotalStakeWithDetail entry points only the filtered view
// is available, so the harness uses service.VerifIterate when present; see c20).
func SortedKeys(m map[string]uint64) []string {
	ks := make([]string, 0, len(m))
	for k := range m {
		ks = append(ks, k)
	}
	sort.Strings(ks)
	return ks
}

// ---- recording StateDB: the ledger primitives the EVM issues, with snapshot/revert markers ----
type Prim struct {
	Kind byte // 's' SubBalance, 'a' AddBalance, 'k' Suicide, 'n' Snapshot, 'r' RevertToSnapshot, 'o' opcode entered, 'e' AUTHCALL left
	A    common.Address
	V    *big.Int
	Id   int
	// 'o': an instrumented opcode (src/vm/verif_c06.go) is about to run in contract A
	Op       byte
	Args     []*big.Int // operands, top of stack first
	HasMiner bool       // GetMinerIdByAccount(A) finds a miner that GetMiner returns (read when the opcode starts)
	Stake    uint64     // that miner's stake then
	Res      *big.Int   // what the opcode pushed; -1: it returned an error; nil: not finished
	// AUTHCALL only
	Auth    common.Address // the frame's authorized account
	Sponsor common.Address // evm.Origin
	Reached bool           // valueExt == 0, an account is authorized and the nonce operand is its nonce: evm.AuthCall is entered
	// 'w': contract code wrote the balance slot of A in the bound token contract's storage (SSTORE): Old -> V
	Old *big.Int
}

type RecDB struct {
	*account.AccountDB
	Prims  []Prim
	Origin common.Address
	Slots  map[common.Hash]common.Address // balance slot of the bound token contract -> owner, for the known addresses
	open   []int                          // indices of 'o' prims whose opcode has not returned yet
}

// LedgerAddrs: the addresses whose balance slots the recorder recognises when contract code writes them.
var LedgerAddrs []common.Address

// SetState: an SSTORE. Writes into balance slots of the bound token contract are ledger movements made by contract code.
func (r *RecDB) SetState(a common.Address, key, value common.Hash) {
	if a == TokenContract {
		if owner, ok := r.Slots[key]; ok {
			old := new(big.Int).SetBytes(r.AccountDB.GetState(a, key).Bytes())
			r.Prims = append(r.Prims, Prim{Kind: 'w', A: owner, V: new(big.Int).SetBytes(value.Bytes()), Old: old})
		}
	}
	r.AccountDB.SetState(a, key, value)
}

func (r *RecDB) SubBalance(a common.Address, v *big.Int) *big.Int {
	r.Prims = append(r.Prims, Prim{Kind: 's', A: a, V: new(big.Int).Set(v)})
	return r.AccountDB.SubBalance(a, v)
}
func (r *RecDB) AddBalance(a common.Address, v *big.Int) {
	r.Prims = append(r.Prims, Prim{Kind: 'a', A: a, V: new(big.Int).Set(v)})
	r.AccountDB.AddBalance(a, v)
}
func (r *RecDB) Suicide(a common.Address) bool {
	r.Prims = append(r.Prims, Prim{Kind: 'k', A: a})
	return r.AccountDB.Suicide(a)
}
func (r *RecDB) Snapshot() int {
	id := r.AccountDB.Snapshot()
	r.Prims = append(r.Prims, Prim{Kind: 'n', Id: id})
	return id
}
func (r *RecDB) RevertToSnapshot(id int) {
	r.Prims = append(r.Prims, Prim{Kind: 'r', Id: id})
	r.AccountDB.RevertToSnapshot(id)
}

// RecordOp is the callback for vm.VerifC06Instrument: opcode-level observations go into the same stream.
func (r *RecDB) RecordOp(ev *vm.VerifC06OpEvent) {
	if !ev.Done {
		p := Prim{Kind: 'o', A: ev.Contract, Op: byte(ev.Op), Args: ev.Args}
		if ev.Op == vm.AUTHCALL {
			p.Sponsor = r.Origin
			if ev.Authorized != nil && len(ev.Args) >= 5 {
				p.Auth = *ev.Authorized
				p.Reached = ev.Args[4].Sign() == 0 && ev.Args[0].IsUint64() && ev.Args[0].Uint64() == r.AccountDB.GetNonce(p.Auth)
			}
		}
		if ev.Op != vm.AUTHCALL {
			if id := service.MinerManagerImpl.GetMinerIdByAccount(ev.Contract.Bytes(), r.AccountDB); id != nil {
				if m := service.MinerManagerImpl.GetMiner(id, r.AccountDB); m != nil {
					p.HasMiner, p.Stake = true, m.Stake
				}
			}
		}
		r.Prims = append(r.Prims, p)
		r.open = append(r.open, len(r.Prims)-1)
		return
	}
	i := r.open[len(r.open)-1]
	r.open = r.open[:len(r.open)-1]
	switch {
	case ev.Err != nil:
		r.Prims[i].Res = big.NewInt(-1)
	case ev.Result != nil:
		r.Prims[i].Res = ev.Result
	default:
		r.Prims[i].Res = big.NewInt(-1)
	}
	if ev.Op == vm.AUTHCALL {
		r.Prims = append(r.Prims, Prim{Kind: 'e'})
	}
}

// Ev is a model-level event: "V" value movement, "K" suicide, "S" snapshot, "R" revert (ledger primitives seen at the
// StateDB interface); "A" the value movement of an AUTHCALL (A = sponsor), "St" STAKE, "Us" UNSTAKE, "Ua" UNSTAKEALL
// (A = the running contract, V = the amount operand, opcode-level facts in HasMiner / Stake / Res).
type Ev struct {
	Kind     string
	A, B     common.Address
	V        *big.Int
	Id       int
	HasMiner bool
	Stake    uint64
	Res      *big.Int
	Auth     common.Address // "A": the authorized account (A = sponsor, B = target, Res = 1 if the value moved)
}

// wordAddr: the low 20 bytes of a stack word, as popAddress reads it.
func wordAddr(w *big.Int) common.Address {
	var a common.Address
	b := w.Bytes()
	if len(b) > len(a) {
		b = b[len(b)-len(a):]
	}
	copy(a[len(a)-len(b):], b)
	return a
}

// ParseTrace groups primitives into events; false when a primitive does not fit a known pattern.
func ParseTrace(ps []Prim) ([]Ev, bool) {
	var out []Ev
	// auth: an AUTHCALL has entered evm.AuthCall and its value movement has not been seen yet. The movement (if the guard
	// lets it happen) is the first SubBalance/AddBalance pair, with only the frame's Snapshot in between; anything else
	// first means the value did not move.
	var auth *Prim
	notMoved := func() {
		if auth != nil {
			out = append(out, Ev{Kind: "A", A: auth.Sponsor, B: wordAddr(auth.Args[2]), V: auth.Args[3], Auth: auth.Auth, Res: big.NewInt(0)})
			auth = nil
		}
	}
	for i := 0; i < len(ps); i++ {
		p := ps[i]
		if p.Kind != 'n' && p.Kind != 's' {
			notMoved()
		}
		switch p.Kind {
		case 'w':
			d := new(big.Int).Sub(p.V, p.Old)
			switch {
			case d.Sign() < 0:
				d.Neg(d)
				if i+1 < len(ps) && ps[i+1].Kind == 'w' && new(big.Int).Sub(ps[i+1].V, ps[i+1].Old).Cmp(d) == 0 {
					out = append(out, Ev{Kind: "TV", A: p.A, B: ps[i+1].A, V: d}) // the token code moved d from A to B
					i++
				} else {
					out = append(out, Ev{Kind: "TB", A: p.A, V: d}) // the token code destroyed d of A
				}
			case d.Sign() > 0:
				out = append(out, Ev{Kind: "TM", B: p.A, V: d}) // the token code created d for B
			}
		case 'o':
			if p.Res == nil {
				return out, false
			}
			switch vm.OpCode(p.Op) {
			case vm.AUTHCALL:
				if p.Reached {
					auth = &ps[i]
				}
			case vm.STAKE:
				out = append(out, Ev{Kind: "St", A: p.A, V: p.Args[0], HasMiner: p.HasMiner, Stake: p.Stake, Res: p.Res})
			case vm.UNSTAKE:
				out = append(out, Ev{Kind: "Us", A: p.A, V: p.Args[0], HasMiner: p.HasMiner, Stake: p.Stake, Res: p.Res})
			case vm.UNSTAKEALL:
				out = append(out, Ev{Kind: "Ua", A: p.A, V: new(big.Int), HasMiner: p.HasMiner, Stake: p.Stake, Res: p.Res})
			default:
				return out, false
			}
		case 'e':
		case 's':
			if i+1 < len(ps) && ps[i+1].Kind == 'a' && ps[i+1].V.Cmp(p.V) == 0 {
				if auth != nil {
					// opAuthCall operands: nonce, gas, addr, value, ...: the movement must be the one the opcode asked for,
					// debited from the sponsor
					if wordAddr(auth.Args[2]) != ps[i+1].A || auth.Args[3].Cmp(p.V) != 0 || p.A != auth.Sponsor {
						return out, false
					}
					out = append(out, Ev{Kind: "A", A: p.A, B: ps[i+1].A, V: p.V, Auth: auth.Auth, Res: big.NewInt(1)})
					auth = nil
				} else {
					out = append(out, Ev{Kind: "V", A: p.A, B: ps[i+1].A, V: p.V})
				}
				i++
			} else {
				return out, false
			}
		case 'a':
			if p.V.Sign() == 0 && !(i+1 < len(ps) && ps[i+1].Kind == 'k') {
				// evm.StaticCall touches the callee with AddBalance(addr, 0): no ledger effect
				continue
			}
			if i+1 < len(ps) && ps[i+1].Kind == 'k' {
				out = append(out, Ev{Kind: "K", A: ps[i+1].A, B: p.A, V: p.V})
				i++
			} else {
				return out, false
			}
		case 'n':
			out = append(out, Ev{Kind: "S", Id: p.Id})
		case 'r':
			out = append(out, Ev{Kind: "R", Id: p.Id})
		default:
			return out, false
		}
	}
	notMoved()
	return out, true
}

// ContractInfo: what the contract executor's BeforeExecute/Execute would do for tx on adb, obtained by
// running the real BeforeExecute and the real EVM (through RecDB) under a snapshot that is reverted.
type ContractInfo struct {
	BeforeOK    bool
	DecodeOK    bool
	LimitFee    *big.Int
	Value       *big.Int
	IntrinsicOK bool
	Ran         bool
	Trace       []Ev
	Parsed      bool
	EvmErr      string
	GasUsed     uint64
	Created     common.Address
}

const p026GasCap uint64 = 900000000

func ExtractContract(adb *account.AccountDB, tx *types.Transaction, header *types.BlockHeader) ContractInfo {
	info := ContractInfo{LimitFee: new(big.Int), Value: new(big.Int)}
	adb.Prepare(tx.Hash, common.Hash{}, 0)
	snap := adb.Snapshot()
	defer adb.RevertToSnapshot(snap)
	ctx := Ctx()
	ok, _, _ := executor.GetTxExecutor(tx.Type).BeforeExecute(tx, header, adb, ctx)
	info.BeforeOK = ok
	raw, has := ctx["contractData"].(*executor.ContractRawData)
	info.DecodeOK = has && raw != nil
	if !info.DecodeOK {
		return info
	}
	info.LimitFee = new(big.Int).Mul(new(big.Int).SetUint64(raw.GasLimit), big.NewInt(1000000000))
	info.Value = new(big.Int).Set(raw.TransferValue)
	creation := tx.Target == ""
	intrinsic, err := executor.IntrinsicGas(raw.AbiData, creation)
	info.IntrinsicOK = err == nil && raw.GasLimit >= intrinsic
	if !ok || !info.IntrinsicOK {
		return info
	}
	gasLimit := raw.GasLimit
	if gasLimit > p026GasCap {
		gasLimit = p026GasCap
	}
	vmCtx := vm.Context{}
	vmCtx.CanTransfer = vm.CanTransfer
	vmCtx.Transfer = vm.Transfer
	vmCtx.GetHash = func(uint64) common.Hash { return common.Hash{} }
	vmCtx.Origin = common.HexToAddress(tx.Source)
	vmCtx.Coinbase = common.BytesToAddress(header.Castor)
	vmCtx.BlockNumber = new(big.Int).SetUint64(header.Height)
	vmCtx.Time = new(big.Int).SetUint64(uint64(header.CurTime.Unix()))
	vmCtx.Difficulty = new(big.Int).SetUint64(123)
	vmCtx.GasPrice = big.NewInt(1000000000)
	vmCtx.GasLimit = gasLimit - intrinsic
	rec := &RecDB{AccountDB: adb, Origin: vmCtx.Origin, Slots: map[common.Hash]common.Address{}}
	for _, x := range LedgerAddrs {
		rec.Slots[common.BytesToHash(adb.GetERC20Key(x, 3))] = x
	}
	evm := vm.NewEVMWithNFT(vmCtx, rec, adb)
	if !vm.VerifC06Instrument(evm, []vm.OpCode{vm.STAKE, vm.UNSTAKE, vm.UNSTAKEALL, vm.AUTHCALL}, rec.RecordOp) {
		panic("nodehx: evm not instrumentable")
	}
	caller := vm.AccountRef(vmCtx.Origin)
	var left uint64
	var eerr error
	func() {
		defer func() {
			if r := recover(); r != nil {
				eerr = fmt.Errorf("panic: %v", r)
			}
		}()
		if creation {
			_, info.Created, left, _, eerr = evm.Create(caller, raw.AbiData, vmCtx.GasLimit, raw.TransferValue)
		} else {
			adb.SetNonce(caller.Address(), adb.GetNonce(caller.Address())+1)
			_, left, _, eerr = evm.Call(caller, common.HexToAddress(tx.Target), raw.AbiData, vmCtx.GasLimit, raw.TransferValue)
		}
	}()
	info.Ran = true
	if eerr != nil {
		info.EvmErr = eerr.Error()
	}
	info.GasUsed = gasLimit - left
	info.Trace, info.Parsed = ParseTrace(rec.Prims)
	if !info.Parsed && os.Getenv("C06_DEBUG") != "" {
		for _, p := range rec.Prims {
			fmt.Printf("PRIM %c %s v=%v id=%d op=%#x args=%v res=%v\n", p.Kind, p.A.GetHexString(), p.V, p.Id, p.Op, p.Args, p.Res)
		}
	}
	return info
}

// RunBlock executes one block with the real VMExecutor loop (situation != "testing": after() runs, i.e.
// RefundManager.Add of the block's refund requests, reward scheduling, CheckAndMove(height)).
func RunBlock(w *World, h uint64, groupId []byte, txs ...*types.Transaction) []*types.Receipt {
	common.SetBlockHeight(h)
	hd := Header(h)
	hd.GroupId = groupId
	b := &types.Block{Header: hd, Transactions: txs}
	_, rs, _ := core.VerifC06ExecuteBlockCtx(w.ADB, b, "verif")
	return rs
}

// RunBlockWith is RunBlock with an explicit castor (proposer id) in the header.
func RunBlockWith(w *World, h uint64, castor, groupId []byte, txs ...*types.Transaction) []*types.Receipt {
	common.SetBlockHeight(h)
	hd := Header(h)
	if castor != nil {
		hd.Castor = castor
	}
	hd.GroupId = groupId
	b := &types.Block{Header: hd, Transactions: txs}
	_, rs, _ := core.VerifC06ExecuteBlockCtx(w.ADB, b, "verif")
	return rs
}

// RunPrefix executes txs as a block on adb with the real loop but WITHOUT its after() phase (situation "testing"):
// the state a later transaction of the same block would see. Returns the receipts and the executor context
// (stale "gasUsed", collected "refund" requests).
func RunPrefix(adb *account.AccountDB, h uint64, castor, groupId []byte, txs []*types.Transaction) ([]*types.Receipt, map[string]interface{}) {
	common.SetBlockHeight(h)
	hd := Header(h)
	if castor != nil {
		hd.Castor = castor
	}
	hd.GroupId = groupId
	b := &types.Block{Header: hd, Transactions: append([]*types.Transaction{}, txs...)}
	_, rs, ctx := core.VerifC06ExecuteBlockCtx(adb, b, "testing")
	return rs, ctx
}

// Stepper runs the transactions of one block one by one on an AccountDB the way the VMExecutor loop does under the dev
// configuration (every proposal active), WITHOUT finalising in between: the state a later transaction of the block
// really sees (a contract that self-destructed earlier in the block is still there). It exists only to obtain those
// intermediate states; the harness checks it against the real loop (same receipts, same ledger after the last tx).
type Stepper struct {
	ADB    *account.AccountDB
	Ctx    map[string]interface{}
	Header *types.BlockHeader
	i      int
}

func NewStepper(adb *account.AccountDB, header *types.BlockHeader) *Stepper {
	common.SetBlockHeight(header.Height)
	return &Stepper{ADB: adb, Header: header,
		Ctx: map[string]interface{}{"chain": Chain, "situation": "verif", "refund": make(map[uint64]types.RefundInfoList)}}
}

// Step executes tx; returns (status ok, gasUsed as the receipt would carry it, skipped: refused without receipt).
func (s *Stepper) Step(tx *types.Transaction) (bool, uint64, bool) {
	adb := s.ADB
	adb.Prepare(tx.Hash, common.Hash{}, s.i)
	ex := executor.GetTxExecutor(tx.Type)
	success, addAble, _ := ex.BeforeExecute(tx, s.Header, adb, s.Ctx)
	if !addAble {
		return false, 0, true
	}
	if success {
		snap := adb.Snapshot()
		success, _ = ex.Execute(tx, s.Header, adb, s.Ctx)
		if !success {
			adb.RevertToSnapshot(snap)
			if types.IsContractTx(tx.Type) {
				if gu := s.Ctx["gasUsed"]; gu != nil {
					core.VerifC06DeductGasFee(gu.(uint64), tx.Source, adb, tx.Hash)
				}
			}
		}
	}
	if !(types.IsContractTx(tx.Type) && success) {
		src := common.HexToAddress(tx.Source)
		adb.SetNonce(src, adb.GetNonce(src)+1)
	}
	delete(s.Ctx, "logs")
	delete(s.Ctx, "contractAddress")
	var gasUsed uint64
	if gu, ok := s.Ctx["gasUsed"].(uint64); ok {
		gasUsed = gu
	}
	s.i++
	return success, gasUsed, false
}

var reqId uint64

func NewTx(typ int32, src, tgt, data, extra string) *types.Transaction {
	reqId++
	t := &types.Transaction{Source: src, Target: tgt, Type: typ, Data: data, ExtraData: extra, RequestId: reqId, Sign: &common.Sign{}}
	t.Hash = t.GenHash()
	return t
}
