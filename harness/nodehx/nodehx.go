// Package nodehx: node boot + in-memory world helpers shared by the C06 and C20 harnesses.
// (boot sequence: CONVENTIONS.md env notes). Everything runs the real /repo code; this file only
// wires it to an in-memory AccountDB and gives canonical read-outs.
package nodehx

import (
	"fmt"
	"math/big"
	"sort"
	"strconv"
	"time"

	"com.tuntun.rangers/node/src/common"
	"com.tuntun.rangers/node/src/core"
	"com.tuntun.rangers/node/src/executor"
	"com.tuntun.rangers/node/src/middleware"
	"com.tuntun.rangers/node/src/middleware/db"
	"com.tuntun.rangers/node/src/middleware/types"
	"com.tuntun.rangers/node/src/service"
	"com.tuntun.rangers/node/src/storage/account"
	"com.tuntun.rangers/node/src/utility"
	"com.tuntun.rangers/node/src/vm"
)

// ---- stubs passed through the exported Init functions ----
type stubChain struct{}

func (stubChain) GetBlockHash(h uint64) common.Hash { return common.Hash{} }
func (stubChain) QueryBlockHeaderByHeight(height interface{}, cache bool) *types.BlockHeader {
	return nil
}
func (stubChain) GetAvailableGroupsByMinerId(height uint64, minerId []byte) []*types.Group {
	return nil
}
func (stubChain) GetGroupById(id []byte) *types.Group             { return nil }
func (stubChain) GetBlockHeader(height uint64) *types.BlockHeader { return nil }

var Chain = stubChain{}

// TokenContract is the address the native balance is bound to (storage slots keccak(addr.3)).
var TokenContract = common.HexToAddress("0x71d9cfd1b7adb1e8eb4c193ce6ffbe19b4aee0db")

var booted = false

// Boot starts the node services needed by the executors. cwd receives storage0/, logs/, p.ini.
func Boot(height uint64) {
	if booted {
		common.SetBlockHeight(height)
		return
	}
	booted = true
	common.Init(0, "p.ini", "dev")
	common.SetBlockHeight(height)
	middleware.InitMiddleware()
	service.InitService()
	service.InitRefundManager(Chain, Chain)
	service.InitRewardCalculator(Chain, Chain, Chain)
	vm.InitVM()
	executor.InitExecutors()
	core.VerifC06InitLoggers()
}

// ---- world: one trie database in memory, a sequence of AccountDBs over it ----
type World struct {
	Disk db.Database
	TDB  account.AccountDatabase
	ADB  *account.AccountDB
	Root common.Hash
}

func NewWorld() *World {
	w := &World{}
	md, err0 := db.NewMemDatabase()
	if err0 != nil {
		panic(err0)
	}
	w.Disk = md
	w.TDB = account.NewDatabase(w.Disk)
	adb, err := account.NewAccountDB(common.Hash{}, w.TDB)
	if err != nil {
		panic(err)
	}
	w.ADB = adb
	adb.AddERC20Binding(common.BLANCE_NAME, TokenContract, 3, 18)
	// make the binding visible to the process-global cache used by GetERC20Binding
	adb.GetBalance(common.FeeAccount)
	return w
}

// Boundary = block boundary: IntermediateRoot + Commit, then a fresh AccountDB on the new root.
func (w *World) Boundary() common.Hash {
	w.ADB.IntermediateRoot(true)
	root, err := w.ADB.Commit(true)
	if err != nil {
		panic(err)
	}
	if err := w.TDB.TrieDB().Commit(root, false); err != nil {
		panic(err)
	}
	adb, err := account.NewAccountDB(root, w.TDB)
	if err != nil {
		panic(err)
	}
	w.ADB, w.Root = adb, root
	return root
}

func Header(height uint64) *types.BlockHeader {
	return &types.BlockHeader{Height: height, CurTime: time.Unix(1700000000+int64(height), 0), Castor: []byte{0xca, 0x57}}
}

func Ctx() map[string]interface{} {
	return map[string]interface{}{"chain": Chain, "situation": "testing", "refund": make(map[uint64]types.RefundInfoList)}
}

// Wei parses a decimal token amount with the node's own parser.
func Wei(s string) *big.Int {
	v, err := utility.StrToBigInt(s)
	if err != nil {
		panic(err)
	}
	return v
}

func Tokens(n uint64) *big.Int { return utility.Uint64ToBigInt(n) }

func Addr(i int) common.Address {
	var a common.Address
	a[0] = 0xA0
	a[18] = byte(i >> 8)
	a[19] = byte(i)
	return a
}

func AddrHex(a common.Address) string { return a.GetHexString() }

// ---- escrow: refund accounts "refund<height>" ----
func RefundAddress(height uint64) common.Address {
	return common.BytesToAddress(common.Sha256(utility.StrToBytes("refund" + strconv.FormatUint(height, 10))))
}

// Escrow returns the pending (addr -> amount) map of one height, zero entries dropped.
func Escrow(adb *account.AccountDB, height uint64) map[common.Address]*big.Int {
	res := map[common.Address]*big.Int{}
	for a, v := range adb.GetAllRefund(RefundAddress(height)) {
		if v.Sign() != 0 {
			res[a] = v
		}
	}
	return res
}

func EscrowSum(adb *account.AccountDB, heights []uint64) *big.Int {
	s := new(big.Int)
	for _, h := range heights {
		for _, v := range Escrow(adb, h) {
			s.Add(s, v)
		}
	}
	return s
}

// ---- miners ----
type MinerView struct {
	Found   bool
	Id      string
	Type    byte
	Status  byte
	Stake   uint64
	Account string
	Apply   uint64
}

func ViewOf(m *types.Miner) MinerView {
	if m == nil {
		return MinerView{}
	}
	return MinerView{true, common.ToHex(m.Id), m.Type, m.Status, m.Stake, common.ToHex(m.Account), m.ApplyHeight}
}

func (v MinerView) String() string {
	if !v.Found {
		return "-"
	}
	return fmt.Sprintf("%s/t%d/s%d/%d/%s/h%d", v.Id, v.Type, v.Status, v.Stake, v.Account, v.Apply)
}

// IterateAll walks the registry of one type with the real MinerIterator (through the exported
// GetAllMinerIdAndAccount / GetProposerTotalStakeWithDetail entry points only the filtered view
// is available, so the harness uses service.VerifIterate when present; see c20).
func SortedKeys(m map[string]uint64) []string {
	ks := make([]string, 0, len(m))
	for k := range m {
		ks = append(ks, k)
	}
	sort.Strings(ks)
	return ks
}
