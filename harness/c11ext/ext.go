// Package c11ext: the execute-function extractor of property C11 (stdlib go/parser + go/ast only).
//
// It walks every opcode implementation in src/vm/instructions.go and src/vm/eips.go — functions of the
// executionFunc shape `func(pc *uint64, interpreter *EVMInterpreter, callContext *callCtx) ([]byte, error)`
// and the closures returned by the makeXxx(n) constructors — path by path, and reports for each
//
//   - the deepest stack slot it touches (pop / peek / Back(k) / dup(n) / swap(n) and the popXxx helpers) and
//     its net stack effect (pushes - pops), both as a + b*n with n the constructor parameter; all paths that
//     do not return an error must agree on the net effect;
//   - every memory access `memory.GetPtr/GetCopy/Set/Set32/Copy(...)` and `memory.store[i]`, with the popped
//     operand that feeds the offset (plus a literal addend) and the operand or literal that feeds the size;
//   - guards of the form `if operand.Uint64() < K { ... return }` (AUTH reads 128 bytes only behind one);
//   - which evm entry point it calls (Call, CallCode, DelegateCall, StaticCall, AuthCall, Create, Create2) and
//     whether it adds CallStipend, guarded by which operand.
//
// The C11 harness re-derives this on every run and hands it to Coq, where it is compared with the model's
// exec_info table (coq/C11/Model.v): a stale table, or a new/changed opcode body, turns the check red.
package c11ext

import (
	"fmt"
	"go/ast"
	"go/parser"
	"go/token"
	"os"
	"path/filepath"
	"sort"
	"strconv"
	"strings"
)

// Lin is a + b*n.
type Lin struct{ A, B int }

func (l Lin) add(k int) Lin  { return Lin{l.A + k, l.B} }
func (l Lin) plus(o Lin) Lin { return Lin{l.A + o.A, l.B + o.B} }
func maxLin(x, y Lin) Lin {
	if x.B != y.B {
		if x.B > y.B {
			return x
		}
		return y
	}
	if x.A >= y.A {
		return x
	}
	return y
}

// Access is one memory access. Off = operand index feeding the offset, Add = literal added to it,
// SizeArg = operand index feeding the size or -1 when the size is the literal SizeConst.
type Access struct {
	Off       int
	Add       int64
	SizeArg   int
	SizeConst int64
	Via       string
	Line      int
}

type Guard struct {
	Arg  int
	Less int64
}

type Info struct {
	Name     string
	Maker    bool
	Deepest  Lin
	Delta    Lin
	Accesses []Access
	Guards   []Guard
	Calls    []string
	Stipend  int   // operand index guarding `gas += CallStipend`, -1 when absent
	NumOps   []int // operands converted with Uint64()/Uint64WithOverflow(): offsets, lengths, indexes
	Paths    int
	Problems []string
}

type operand struct {
	idx   int
	add   int64
	konst bool
	val   int64
	ok    bool
}

type state struct {
	pops, pushes, deepest Lin
	vars                  map[string]operand
	lin                   map[string]Lin // integer variables that are linear in the maker parameter
	done                  bool
	errRet                bool
}

func (s *state) clone() *state {
	c := *s
	c.vars = map[string]operand{}
	for k, v := range s.vars {
		c.vars[k] = v
	}
	c.lin = map[string]Lin{}
	for k, v := range s.lin {
		c.lin[k] = v
	}
	return &c
}

type scanner struct {
	fset    *token.FileSet
	info    *Info
	ctx     string // name of the callCtx parameter
	interp  string // name of the interpreter parameter
	stackAl map[string]bool
	acc     map[string]Access
	guards  map[Guard]bool
	calls   map[string]bool
	nums    map[int]bool
}

func (sc *scanner) problem(n ast.Node, f string, a ...interface{}) {
	sc.info.Problems = append(sc.info.Problems, fmt.Sprintf("line %d: ", sc.fset.Position(n.Pos()).Line)+fmt.Sprintf(f, a...))
}

// isStack: expr denotes the operand stack (ctx.stack or a local alias of it)
func (sc *scanner) isStack(e ast.Expr) bool {
	switch x := e.(type) {
	case *ast.Ident:
		return sc.stackAl[x.Name]
	case *ast.SelectorExpr:
		return x.Sel.Name == "stack"
	}
	return false
}
func (sc *scanner) isMemory(e ast.Expr) bool {
	if x, ok := e.(*ast.SelectorExpr); ok {
		return x.Sel.Name == "memory"
	}
	return false
}

func (sc *scanner) linOf(st *state, e ast.Expr) (Lin, bool) {
	switch x := e.(type) {
	case *ast.ParenExpr:
		return sc.linOf(st, x.X)
	case *ast.BasicLit:
		if v, err := strconv.ParseInt(x.Value, 0, 64); err == nil {
			return Lin{int(v), 0}, true
		}
	case *ast.Ident:
		if l, ok := st.lin[x.Name]; ok {
			return l, true
		}
	case *ast.CallExpr:
		if id, ok := x.Fun.(*ast.Ident); ok && len(x.Args) == 1 {
			switch id.Name {
			case "int", "int64", "uint64", "uint":
				return sc.linOf(st, x.Args[0])
			}
		}
	}
	return Lin{}, false
}

func (sc *scanner) addAccess(n ast.Node, via string, off, size operand) {
	if !off.ok || off.konst {
		sc.problem(n, "%s: offset is not a stack operand", via)
		return
	}
	a := Access{Off: off.idx, Add: off.add, SizeArg: -1, Via: via, Line: sc.fset.Position(n.Pos()).Line}
	switch {
	case size.ok && size.konst:
		a.SizeConst = size.val
	case size.ok && size.add == 0:
		a.SizeArg = size.idx
	default:
		sc.problem(n, "%s: size is neither a stack operand nor a literal", via)
		return
	}
	k := fmt.Sprintf("%d/%d/%d/%d", a.Off, a.Add, a.SizeArg, a.SizeConst)
	if _, ok := sc.acc[k]; !ok {
		sc.acc[k] = a
	}
}

// eval walks an expression in evaluation order, applies its stack/memory effects to st and returns the
// operand the expression denotes, if any.
func (sc *scanner) eval(st *state, e ast.Expr) operand {
	switch x := e.(type) {
	case nil:
		return operand{}
	case *ast.Ident:
		if o, ok := st.vars[x.Name]; ok {
			return o
		}
		return operand{}
	case *ast.BasicLit:
		if v, err := strconv.ParseInt(x.Value, 0, 64); err == nil {
			return operand{konst: true, val: v, ok: true}
		}
		return operand{}
	case *ast.ParenExpr:
		return sc.eval(st, x.X)
	case *ast.StarExpr:
		return sc.eval(st, x.X)
	case *ast.UnaryExpr:
		o := sc.eval(st, x.X)
		if x.Op == token.AND {
			return o
		}
		return operand{}
	case *ast.BinaryExpr:
		l := sc.eval(st, x.X)
		r := sc.eval(st, x.Y)
		if x.Op == token.ADD {
			if l.ok && !l.konst && r.ok && r.konst {
				l.add += r.val
				return l
			}
			if r.ok && !r.konst && l.ok && l.konst {
				r.add += l.val
				return r
			}
		}
		return operand{}
	case *ast.SelectorExpr:
		sc.eval(st, x.X)
		return operand{}
	case *ast.IndexExpr:
		// memory.store[i]
		if s, ok := x.X.(*ast.SelectorExpr); ok && s.Sel.Name == "store" && sc.isMemory(s.X) {
			off := sc.eval(st, x.Index)
			sc.addAccess(x, "store[]", off, operand{konst: true, val: 1, ok: true})
			return operand{}
		}
		sc.eval(st, x.X)
		sc.eval(st, x.Index)
		return operand{}
	case *ast.SliceExpr:
		sc.eval(st, x.X)
		sc.eval(st, x.Low)
		sc.eval(st, x.High)
		sc.eval(st, x.Max)
		return operand{}
	case *ast.CompositeLit:
		for _, el := range x.Elts {
			sc.eval(st, el)
		}
		return operand{}
	case *ast.KeyValueExpr:
		sc.eval(st, x.Value)
		return operand{}
	case *ast.TypeAssertExpr:
		sc.eval(st, x.X)
		return operand{}
	case *ast.FuncLit:
		return operand{}
	case *ast.CallExpr:
		return sc.call(st, x)
	}
	return operand{}
}

func (sc *scanner) pop(st *state) operand {
	o := operand{}
	if st.pops.B == 0 {
		o = operand{idx: st.pops.A, ok: true}
	}
	st.pops = st.pops.add(1)
	st.deepest = maxLin(st.deepest, st.pops)
	return o
}

func (sc *scanner) call(st *state, c *ast.CallExpr) operand {
	// conversions and helper functions called by name
	if id, ok := c.Fun.(*ast.Ident); ok {
		switch id.Name {
		case "int", "int64", "uint64", "uint", "byte":
			if len(c.Args) == 1 {
				return sc.eval(st, c.Args[0])
			}
		case "popUint256", "popAddress", "popBytes32":
			return sc.pop(st)
		case "pushBool", "pushUint256":
			for _, a := range c.Args {
				sc.eval(st, a)
			}
			st.pushes = st.pushes.add(1)
			return operand{}
		case "popBytes", "pushBytes":
			sc.problem(c, "helper %s touches stack and memory in a way this extractor does not follow", id.Name)
		}
		for _, a := range c.Args {
			sc.eval(st, a)
		}
		return operand{}
	}
	sel, ok := c.Fun.(*ast.SelectorExpr)
	if !ok {
		sc.eval(st, c.Fun)
		for _, a := range c.Args {
			sc.eval(st, a)
		}
		return operand{}
	}
	name := sel.Sel.Name
	if sc.isStack(sel.X) {
		switch name {
		case "pop":
			return sc.pop(st)
		case "peek":
			st.deepest = maxLin(st.deepest, st.pops.add(1))
			if st.pops.B == 0 {
				return operand{idx: st.pops.A, ok: true}
			}
			return operand{}
		case "Back":
			if l, ok := sc.linOf(st, c.Args[0]); ok && l.B == 0 {
				st.deepest = maxLin(st.deepest, st.pops.add(l.A+1))
				if st.pops.B == 0 {
					return operand{idx: st.pops.A + l.A, ok: true}
				}
			} else {
				sc.problem(c, "Back with a non-literal index")
			}
			return operand{}
		case "push":
			for _, a := range c.Args {
				sc.eval(st, a)
			}
			st.pushes = st.pushes.add(1)
			return operand{}
		case "dup":
			if l, ok := sc.linOf(st, c.Args[0]); ok {
				st.deepest = maxLin(st.deepest, st.pops.plus(l))
				st.pushes = st.pushes.add(1)
			} else {
				sc.problem(c, "dup with an argument that is not linear in the constructor parameter")
			}
			return operand{}
		case "swap":
			if l, ok := sc.linOf(st, c.Args[0]); ok {
				st.deepest = maxLin(st.deepest, st.pops.plus(l))
			} else {
				sc.problem(c, "swap with an argument that is not linear in the constructor parameter")
			}
			return operand{}
		case "len", "Data", "Print":
			return operand{}
		default:
			sc.problem(c, "unknown stack method %s", name)
			return operand{}
		}
	}
	if sc.isMemory(sel.X) {
		var args []operand
		for _, a := range c.Args {
			args = append(args, sc.eval(st, a))
		}
		switch name {
		case "GetPtr", "GetCopy", "Set":
			sc.addAccess(c, name, args[0], args[1])
		case "Set32":
			sc.addAccess(c, name, args[0], operand{konst: true, val: 32, ok: true})
		case "Copy":
			sc.addAccess(c, name+"-dst", args[0], args[2])
			sc.addAccess(c, name+"-src", args[1], args[2])
		case "Len", "Data":
		default:
			sc.problem(c, "unknown memory method %s", name)
		}
		return operand{}
	}
	// evm entry points: <interp>.evm.Call(...)
	if x, ok := sel.X.(*ast.SelectorExpr); ok && x.Sel.Name == "evm" {
		switch name {
		case "Call", "CallCode", "DelegateCall", "StaticCall", "AuthCall", "Create", "Create2":
			sc.calls[name] = true
		}
	}
	// method on a value: x.Uint64(), x.Uint64WithOverflow() keep the operand; everything else drops it
	recv := sc.eval(st, sel.X)
	for _, a := range c.Args {
		sc.eval(st, a)
	}
	switch name {
	case "Uint64", "Uint64WithOverflow", "IsUint64":
		if len(c.Args) == 0 {
			if recv.ok && !recv.konst && sc.nums != nil {
				sc.nums[recv.idx] = true
			}
			if name == "IsUint64" {
				return operand{}
			}
			return recv
		}
	}
	return operand{}
}

func (sc *scanner) bind(st *state, lhs []ast.Expr, rhs []ast.Expr) {
	if len(rhs) == 1 && len(lhs) >= 1 {
		o := sc.eval(st, rhs[0])
		if id, ok := lhs[0].(*ast.Ident); ok && id.Name != "_" {
			if sel, ok2 := stripStack(rhs[0]); ok2 && sel {
				sc.stackAl[id.Name] = true
			}
			if o.ok {
				st.vars[id.Name] = o
			} else {
				delete(st.vars, id.Name)
			}
			if l, ok := sc.linOf(st, rhs[0]); ok {
				st.lin[id.Name] = l
			}
		}
		for _, l := range lhs[1:] {
			if id, ok := l.(*ast.Ident); ok {
				delete(st.vars, id.Name)
			}
		}
		return
	}
	for i, r := range rhs {
		o := sc.eval(st, r)
		if i < len(lhs) {
			if id, ok := lhs[i].(*ast.Ident); ok && id.Name != "_" {
				if sel, ok2 := stripStack(r); ok2 && sel {
					sc.stackAl[id.Name] = true
				}
				if o.ok {
					st.vars[id.Name] = o
				} else {
					delete(st.vars, id.Name)
				}
			}
		}
	}
}

// stripStack: is the expression `<something>.stack`?
func stripStack(e ast.Expr) (bool, bool) {
	if s, ok := e.(*ast.SelectorExpr); ok && s.Sel.Name == "stack" {
		return true, true
	}
	return false, false
}

func mentions(n ast.Node, name string) bool {
	found := false
	ast.Inspect(n, func(x ast.Node) bool {
		if id, ok := x.(*ast.Ident); ok && id.Name == name {
			found = true
		}
		return !found
	})
	return found
}

func endsInReturn(b *ast.BlockStmt) bool {
	if b == nil || len(b.List) == 0 {
		return false
	}
	_, ok := b.List[len(b.List)-1].(*ast.ReturnStmt)
	return ok
}

// walk processes stmts for every incoming state and returns the resulting states.
func (sc *scanner) walk(stmts []ast.Stmt, in []*state) []*state {
	cur := in
	for _, s := range stmts {
		var next []*state
		for _, st := range cur {
			if st.done {
				next = append(next, st)
				continue
			}
			next = append(next, sc.stmt(s, st)...)
		}
		cur = dedupe(next)
		if len(cur) > 4096 {
			sc.problem(s, "path explosion")
			return cur
		}
	}
	return cur
}

func dedupe(in []*state) []*state {
	seen := map[string]bool{}
	var out []*state
	for _, s := range in {
		keys := make([]string, 0, len(s.vars))
		for k, v := range s.vars {
			keys = append(keys, fmt.Sprintf("%s=%v", k, v))
		}
		sort.Strings(keys)
		k := fmt.Sprintf("%v|%v|%v|%v|%v|%s", s.pops, s.pushes, s.deepest, s.done, s.errRet, strings.Join(keys, ","))
		if !seen[k] {
			seen[k] = true
			out = append(out, s)
		}
	}
	return out
}

func (sc *scanner) stmt(s ast.Stmt, st *state) []*state {
	switch x := s.(type) {
	case *ast.AssignStmt:
		// `gas += CallStipend` is noted by the enclosing if
		if x.Tok == token.DEFINE || x.Tok == token.ASSIGN {
			sc.bind(st, x.Lhs, x.Rhs)
		} else {
			for _, r := range x.Rhs {
				sc.eval(st, r)
			}
			for _, l := range x.Lhs {
				sc.eval(st, l)
			}
		}
		if x.Tok == token.ASSIGN {
			for _, l := range x.Lhs { // an assignment through memory.store[i]
				if _, ok := l.(*ast.IndexExpr); ok {
					sc.eval(st, l)
				}
			}
		}
		return []*state{st}
	case *ast.DeclStmt:
		if gd, ok := x.Decl.(*ast.GenDecl); ok {
			for _, sp := range gd.Specs {
				if vs, ok := sp.(*ast.ValueSpec); ok {
					lhs := make([]ast.Expr, len(vs.Names))
					for i, n := range vs.Names {
						lhs[i] = n
					}
					if len(vs.Values) > 0 {
						sc.bind(st, lhs, vs.Values)
					}
				}
			}
		}
		return []*state{st}
	case *ast.ExprStmt:
		sc.eval(st, x.X)
		return []*state{st}
	case *ast.IncDecStmt:
		if id, ok := x.X.(*ast.Ident); ok {
			if l, ok := st.lin[id.Name]; ok {
				if x.Tok == token.INC {
					st.lin[id.Name] = l.add(1)
				} else {
					st.lin[id.Name] = l.add(-1)
				}
			}
		}
		return []*state{st}
	case *ast.ReturnStmt:
		for _, r := range x.Results {
			sc.eval(st, r)
		}
		st.done = true
		if len(x.Results) == 2 {
			if id, ok := x.Results[1].(*ast.Ident); !ok || id.Name != "nil" {
				st.errRet = true
			}
		}
		return []*state{st}
	case *ast.BlockStmt:
		return sc.walk(x.List, []*state{st})
	case *ast.IfStmt:
		cur := []*state{st}
		if x.Init != nil {
			cur = sc.stmt(x.Init, st)
		}
		var out []*state
		for _, s0 := range cur {
			sc.eval(s0, x.Cond)
			// guard: operand.Uint64() < K with a body that returns
			if be, ok := x.Cond.(*ast.BinaryExpr); ok && be.Op == token.LSS && endsInReturn(x.Body) {
				tmp := s0.clone()
				l := (&scanner{fset: sc.fset, info: &Info{}, stackAl: sc.stackAl, acc: map[string]Access{}, guards: map[Guard]bool{}, calls: map[string]bool{}}).eval(tmp, be.X)
				if lit, ok := be.Y.(*ast.BasicLit); ok && l.ok && !l.konst && l.add == 0 {
					if k, err := strconv.ParseInt(lit.Value, 0, 64); err == nil {
						sc.guards[Guard{l.idx, k}] = true
					}
				}
			}
			// stipend: if !value.IsZero() { gas += CallStipend ... }
			if mentions(x.Body, "CallStipend") {
				sc.info.Stipend = -2
				if ue, ok := x.Cond.(*ast.UnaryExpr); ok && ue.Op == token.NOT {
					if ce, ok := ue.X.(*ast.CallExpr); ok {
						if se, ok := ce.Fun.(*ast.SelectorExpr); ok && se.Sel.Name == "IsZero" {
							if id, ok := se.X.(*ast.Ident); ok {
								if o, ok := s0.vars[id.Name]; ok && o.ok && !o.konst {
									sc.info.Stipend = o.idx
								}
							}
						}
					}
				}
			}
			th := sc.walk(x.Body.List, []*state{s0.clone()})
			var el []*state
			if x.Else != nil {
				el = sc.stmt(x.Else, s0.clone())
			} else {
				el = []*state{s0.clone()}
			}
			out = append(out, th...)
			out = append(out, el...)
		}
		return out
	case *ast.ForStmt:
		// for i := 0; i < N; i++ { ...stack pops... } with N linear in the constructor parameter
		body := []*state{st.clone()}
		b0 := body[0]
		p0, q0 := b0.pops, b0.pushes
		res := sc.walk(x.Body.List, body)
		if len(res) != 1 || res[0].done {
			if stackTouched(res, p0, q0) {
				sc.problem(x, "loop body with several paths touches the stack")
			}
			return []*state{st}
		}
		dp, dq := res[0].pops.A-p0.A, res[0].pushes.A-q0.A
		if dp == 0 && dq == 0 {
			return []*state{st}
		}
		var n Lin
		okN := false
		if be, ok := x.Cond.(*ast.BinaryExpr); ok && be.Op == token.LSS {
			n, okN = sc.linOf(st, be.Y)
		}
		if !okN || res[0].pops.B != p0.B || dq != 0 {
			sc.problem(x, "loop touches the stack in a way this extractor does not follow")
			return []*state{st}
		}
		st.pops = Lin{st.pops.A + dp*n.A, st.pops.B + dp*n.B}
		st.deepest = maxLin(st.deepest, st.pops)
		return []*state{st}
	case *ast.RangeStmt:
		b := st.clone()
		p0, q0 := b.pops, b.pushes
		res := sc.walk(x.Body.List, []*state{b})
		if stackTouched(res, p0, q0) {
			sc.problem(x, "range loop touches the stack")
		}
		return []*state{st}
	case *ast.SwitchStmt:
		cur := []*state{st}
		if x.Init != nil {
			cur = sc.stmt(x.Init, st)
		}
		var out []*state
		for _, s0 := range cur {
			sc.eval(s0, x.Tag)
			hasDefault := false
			for _, cl := range x.Body.List {
				cc := cl.(*ast.CaseClause)
				if cc.List == nil {
					hasDefault = true
				}
				b := s0.clone()
				for _, e := range cc.List {
					sc.eval(b, e)
				}
				out = append(out, sc.walk(cc.Body, []*state{b})...)
			}
			if !hasDefault {
				out = append(out, s0.clone())
			}
		}
		return out
	case *ast.DeferStmt, *ast.GoStmt, *ast.EmptyStmt, *ast.BranchStmt, *ast.LabeledStmt:
		return []*state{st}
	}
	sc.problem(s, "statement kind %T not handled", s)
	return []*state{st}
}

func stackTouched(res []*state, p0, q0 Lin) bool {
	for _, r := range res {
		if r.pops != p0 || r.pushes != q0 {
			return true
		}
	}
	return false
}

func isExecSig(ft *ast.FuncType) (ctx, interp string, ok bool) {
	if ft.Params == nil || ft.Results == nil || len(ft.Results.List) != 2 {
		return
	}
	var names []string
	var types []string
	for _, f := range ft.Params.List {
		t := exprString(f.Type)
		for _, n := range f.Names {
			names = append(names, n.Name)
			types = append(types, t)
		}
	}
	if len(names) != 3 || types[0] != "*uint64" || types[1] != "*EVMInterpreter" || types[2] != "*callCtx" {
		return
	}
	return names[2], names[1], true
}

func exprString(e ast.Expr) string {
	switch x := e.(type) {
	case *ast.Ident:
		return x.Name
	case *ast.StarExpr:
		return "*" + exprString(x.X)
	case *ast.SelectorExpr:
		return exprString(x.X) + "." + x.Sel.Name
	case *ast.ArrayType:
		return "[]" + exprString(x.Elt)
	}
	return "?"
}

func (sc *scanner) run(body *ast.BlockStmt, init *state) {
	res := sc.walk(body.List, []*state{init})
	info := sc.info
	info.Paths = len(res)
	first := true
	for _, r := range res {
		info.Deepest = maxLin(info.Deepest, r.deepest)
		if r.errRet {
			continue
		}
		if !r.done {
			sc.info.Problems = append(sc.info.Problems, "a path falls off the end of the function")
		}
		d := Lin{r.pushes.A - r.pops.A, r.pushes.B - r.pops.B}
		if first {
			info.Delta, first = d, false
		} else if d != info.Delta {
			info.Problems = append(info.Problems, fmt.Sprintf("paths disagree on the net stack effect: %v vs %v", info.Delta, d))
		}
	}
	if first {
		info.Problems = append(info.Problems, "no path returns without an error")
	}
	keys := make([]string, 0, len(sc.acc))
	for k := range sc.acc {
		keys = append(keys, k)
	}
	sort.Strings(keys)
	for _, k := range keys {
		info.Accesses = append(info.Accesses, sc.acc[k])
	}
	for g := range sc.guards {
		info.Guards = append(info.Guards, g)
	}
	sort.Slice(info.Guards, func(i, j int) bool {
		if info.Guards[i].Arg != info.Guards[j].Arg {
			return info.Guards[i].Arg < info.Guards[j].Arg
		}
		return info.Guards[i].Less < info.Guards[j].Less
	})
	for n := range sc.nums {
		info.NumOps = append(info.NumOps, n)
	}
	sort.Ints(info.NumOps)
	for c := range sc.calls {
		info.Calls = append(info.Calls, c)
	}
	sort.Strings(info.Calls)
}

// Scan analyses src/vm/instructions.go and src/vm/eips.go under repo.
func Scan(repo string) (map[string]*Info, error) {
	out := map[string]*Info{}
	fset := token.NewFileSet()
	for _, fn := range []string{"instructions.go", "eips.go"} {
		f, err := parser.ParseFile(fset, filepath.Join(repo, "src/vm", fn), nil, 0)
		if err != nil {
			return nil, err
		}
		for _, d := range f.Decls {
			fd, ok := d.(*ast.FuncDecl)
			if !ok || fd.Body == nil || fd.Recv != nil {
				continue
			}
			if ctx, interp, ok := isExecSig(fd.Type); ok {
				info := &Info{Name: fd.Name.Name, Stipend: -1}
				sc := &scanner{fset: fset, info: info, ctx: ctx, interp: interp, stackAl: map[string]bool{}, acc: map[string]Access{}, guards: map[Guard]bool{}, calls: map[string]bool{}, nums: map[int]bool{}}
				sc.run(fd.Body, &state{vars: map[string]operand{}, lin: map[string]Lin{}})
				out[info.Name] = info
				continue
			}
			// constructors: func makeX(n T, ...) executionFunc { [n++]; return func(...) {...} }
			if fd.Type.Results != nil && len(fd.Type.Results.List) == 1 && exprString(fd.Type.Results.List[0].Type) == "executionFunc" &&
				fd.Type.Params != nil && len(fd.Type.Params.List) > 0 && len(fd.Type.Params.List[0].Names) > 0 {
				info := &Info{Name: fd.Name.Name, Maker: true, Stipend: -1}
				init := &state{vars: map[string]operand{}, lin: map[string]Lin{fd.Type.Params.List[0].Names[0].Name: {0, 1}}}
				sc := &scanner{fset: fset, info: info, stackAl: map[string]bool{}, acc: map[string]Access{}, guards: map[Guard]bool{}, calls: map[string]bool{}, nums: map[int]bool{}}
				var lit *ast.FuncLit
				for _, s := range fd.Body.List {
					if rs, ok := s.(*ast.ReturnStmt); ok && len(rs.Results) == 1 {
						if fl, ok := rs.Results[0].(*ast.FuncLit); ok {
							lit = fl
							break
						}
					}
					if ids, ok := s.(*ast.IncDecStmt); ok {
						sc.stmt(ids, init)
					}
				}
				if lit == nil {
					info.Problems = append(info.Problems, "constructor does not return a function literal")
				} else if ctx, interp, ok := isExecSig(lit.Type); ok {
					sc.ctx, sc.interp = ctx, interp
					sc.run(lit.Body, init)
				} else {
					info.Problems = append(info.Problems, "returned literal is not an executionFunc")
				}
				out[info.Name] = info
			}
		}
	}
	return out, nil
}

// Coq renders one Info as a term of type ginfo (coq/C11/Harness.v).
func (i *Info) Coq() string {
	var acc, gs []string
	for _, a := range i.Accesses {
		sz := fmt.Sprintf("(LConst %d)", a.SizeConst)
		if a.SizeArg >= 0 {
			sz = fmt.Sprintf("(LArg %d)", a.SizeArg)
		}
		acc = append(acc, fmt.Sprintf("(%d%%nat, %d, %s)", a.Off, a.Add, sz))
	}
	for _, g := range i.Guards {
		gs = append(gs, fmt.Sprintf("(%d%%nat, %d)", g.Arg, g.Less))
	}
	class := 0
	has := func(n string) bool {
		for _, c := range i.Calls {
			if c == n {
				return true
			}
		}
		return false
	}
	switch {
	case has("Create") || has("Create2"):
		class = 3
	case has("Call") || has("CallCode") || has("DelegateCall") || has("StaticCall") || has("AuthCall"):
		class = 1
		if i.Stipend != -1 {
			class = 2
		}
	}
	stip := "None"
	if i.Stipend >= 0 {
		stip = fmt.Sprintf("(Some %d%%nat)", i.Stipend)
	}
	ok := "true"
	if len(i.Problems) > 0 {
		ok = "false"
	}
	return fmt.Sprintf("(mkG (%d, %d) (%d, %d) [%s] [%s] %d %s %s)", i.Deepest.A, i.Deepest.B, i.Delta.A, i.Delta.B,
		strings.Join(acc, "; "), strings.Join(gs, "; "), class, stip, ok)
}

// PackageVars lists the package-level variables of src/vm (non-test, non-verif files) as "file:name": state
// that every EVM instance of the process shares.  The harness compares the list with the reviewed one
// (coq/C11/Harness.v known_pkg_vars); a new entry has to be reviewed for mutation from execute functions or
// interpreter construction before it is added there.
func PackageVars(repo string) ([]string, error) {
	dir := filepath.Join(repo, "src/vm")
	ents, err := os.ReadDir(dir)
	if err != nil {
		return nil, err
	}
	var out []string
	fset := token.NewFileSet()
	for _, e := range ents {
		n := e.Name()
		if e.IsDir() || !strings.HasSuffix(n, ".go") || strings.HasSuffix(n, "_test.go") || strings.HasPrefix(n, "verif_") || n == "vm_test_helper.go" {
			continue
		}
		f, err := parser.ParseFile(fset, filepath.Join(dir, n), nil, 0)
		if err != nil {
			return nil, err
		}
		for _, d := range f.Decls {
			gd, ok := d.(*ast.GenDecl)
			if !ok || gd.Tok != token.VAR {
				continue
			}
			for _, sp := range gd.Specs {
				if vs, ok := sp.(*ast.ValueSpec); ok {
					for _, id := range vs.Names {
						if id.Name != "_" {
							out = append(out, n+":"+id.Name)
						}
					}
				}
			}
		}
	}
	sort.Strings(out)
	return out, nil
}
