// Package vmx: helpers shared by the C10 and C11 harnesses — boots the node services the EVM's
// custom opcodes reference and runs byte code on the real EVM over an in-memory account database.
package vmx

import (
	"fmt"
	"math/big"
	"os"
	"runtime/debug"
	"strings"
	"time"

	"com.tuntun.rangers/node/src/common"
	"com.tuntun.rangers/node/src/executor"
	"com.tuntun.rangers/node/src/middleware"
	"com.tuntun.rangers/node/src/middleware/db"
	"com.tuntun.rangers/node/src/service"
	"com.tuntun.rangers/node/src/storage/account"
	"com.tuntun.rangers/node/src/vm"
)

var (
	Origin   = common.HexToAddress("0x826f575031a074fd914a869b5dc1c4eae620fef5")
	CodeAddr = common.HexToAddress("0x00000000000000000000000000000000c0de0001")
	Coinbase = common.HexToAddress("0x00000000000000000000000000000000000c01b5")
)

// Boot initialises the node services exactly as the env notes prescribe (cwd receives storage0/, logs/).
func Boot(height uint64) {
	common.Init(0, "p.ini", "dev")
	common.SetBlockHeight(height)
	middleware.InitMiddleware()
	service.InitService()
	vm.InitVM()
	executor.InitExecutors()
}

// Fork selects which jump-table proposals are active for subsequently created EVMs and for the
// process-global gates the gas functions read.
type Fork struct{ P014, P022, P026 bool }

func (f Fork) String() string {
	b := func(x bool) string {
		if x {
			return "1"
		}
		return "0"
	}
	return "p014=" + b(f.P014) + ",p022=" + b(f.P022) + ",p026=" + b(f.P026)
}
func (f Fork) Index() int {
	i := 0
	if f.P014 {
		i |= 1
	}
	if f.P022 {
		i |= 2
	}
	if f.P026 {
		i |= 4
	}
	return i
}

var AllForks = []Fork{{false, false, false}, {true, false, false}, {false, true, false}, {true, true, false},
	{false, false, true}, {true, false, true}, {false, true, true}, {true, true, true}}

const RunHeight = 1000

// SetFork: EVMs are created at block RunHeight; a proposal is active iff its activation block <= RunHeight.
func SetFork(f Fork) {
	at := func(on bool) uint64 {
		if on {
			return 0
		}
		return 1 << 60
	}
	common.LocalChainConfig.Proposal014Block = at(f.P014)
	common.LocalChainConfig.Proposal022Block = at(f.P022)
	common.LocalChainConfig.Proposal026Block = at(f.P026)
	common.SetBlockHeight(RunHeight)
}

func NewState() *account.AccountDB {
	mem, _ := db.NewMemDatabase()
	st, err := account.NewAccountDB(common.Hash{}, account.NewDatabase(mem))
	if err != nil {
		panic(err)
	}
	return st
}

func NewEVM(st vm.StateDB, adb *account.AccountDB, gasLimit uint64) *vm.EVM {
	ctx := vm.Context{
		CanTransfer: vm.CanTransfer, Transfer: vm.Transfer,
		GetHash:     func(n uint64) common.Hash { return common.BytesToHash([]byte{byte(n), 0xbb}) },
		Origin:      Origin, Coinbase: Coinbase, GasPrice: big.NewInt(1), GasLimit: gasLimit,
		BlockNumber: new(big.Int).SetUint64(RunHeight), Time: big.NewInt(1700000000), Difficulty: big.NewInt(123),
	}
	return vm.NewEVMWithNFT(ctx, st, adb)
}

// Outcome of one top-level call, with every abnormal ending made explicit.
type Outcome struct {
	Ret      []byte
	GasLeft  uint64
	Err      error
	Panic    string // non-empty when the call panicked (recovered)
	Stack    string // goroutine stack of the panic (first lines)
	TimedOut bool
	Elapsed  time.Duration
	MaxDepth int
}

func (o Outcome) Class() string {
	switch {
	case o.TimedOut:
		return "timeout"
	case o.Panic != "":
		return "panic"
	case o.Err == nil:
		return "ok"
	}
	return ErrClass(o.Err)
}

func ErrClass(err error) string {
	if err == nil {
		return "ok"
	}
	s := err.Error()
	switch {
	case err == vm.ErrOutOfGas:
		return "oog"
	case err == vm.ErrExecutionReverted:
		return "revert"
	case err == vm.ErrInvalidJump:
		return "badjump"
	case err == vm.ErrWriteProtection:
		return "writeprot"
	case err == vm.ErrGasUintOverflow:
		return "gasoverflow"
	case err == vm.ErrReturnDataOutOfBounds:
		return "retdata-oob"
	case err == vm.ErrDepth:
		return "depth"
	case err == vm.ErrInsufficientBalance:
		return "balance"
	case err == vm.ErrContractAddressCollision:
		return "collision"
	case err == vm.ErrMaxCodeSizeExceeded:
		return "maxcode"
	case err == vm.ErrCodeStoreOutOfGas:
		return "codestore-oog"
	case strings.HasPrefix(s, "stack underflow"):
		return "underflow"
	case strings.HasPrefix(s, "stack limit reached"):
		return "overflow"
	case strings.HasPrefix(s, "invalid opcode"):
		return "invalidop"
	}
	return "other-error"
}

// Call runs fn under recover with a wall-clock cap. The EVM is cancelled on timeout; a call that
// still does not return within the grace period is reported as TimedOut (the goroutine is abandoned).
func guarded(evm *vm.EVM, cap time.Duration, fn func() ([]byte, uint64, error)) Outcome {
	type r struct {
		ret []byte
		gas uint64
		err error
		pan string
		stk string
	}
	ch := make(chan r, 1)
	t0 := time.Now()
	go func() {
		var out r
		defer func() {
			if p := recover(); p != nil {
				out.pan = fmt.Sprint(p)
				out.stk = shortStack(string(debug.Stack()))
			}
			ch <- out
		}()
		out.ret, out.gas, out.err = fn()
	}()
	select {
	case x := <-ch:
		return Outcome{Ret: x.ret, GasLeft: x.gas, Err: x.err, Panic: x.pan, Stack: x.stk, Elapsed: time.Since(t0)}
	case <-time.After(cap):
		evm.Cancel()
		select {
		case x := <-ch:
			return Outcome{Ret: x.ret, GasLeft: x.gas, Err: x.err, Panic: x.pan, Stack: x.stk, TimedOut: true, Elapsed: time.Since(t0)}
		case <-time.After(5 * time.Second):
			return Outcome{TimedOut: true, Elapsed: time.Since(t0)}
		}
	}
}

func shortStack(s string) string {
	lines := strings.Split(s, "\n")
	var keep []string
	for _, l := range lines {
		if strings.Contains(l, "src/vm.") || strings.Contains(l, "src/vm/") || strings.Contains(l, "panic") {
			keep = append(keep, strings.TrimSpace(l))
		}
		if len(keep) >= 8 {
			break
		}
	}
	return strings.Join(keep, " | ")
}

// RunCode installs code at CodeAddr of a fresh state (Origin funded) and calls it.
func RunCode(code, input []byte, gas uint64, value *big.Int, cap time.Duration) Outcome {
	st := NewState()
	return RunCodeOn(st, code, input, gas, value, cap)
}

func RunCodeOn(st *account.AccountDB, code, input []byte, gas uint64, value *big.Int, cap time.Duration) Outcome {
	st.SetBalance(Origin, new(big.Int).Lsh(big.NewInt(1), 100))
	st.CreateAccount(CodeAddr)
	st.SetCode(CodeAddr, code)
	st.SetNonce(CodeAddr, 1)
	dw := &DepthWatch{AccountDB: st}
	evm := NewEVM(dw, st, gas)
	dw.evm = evm
	if value == nil {
		value = new(big.Int)
	}
	o := guarded(evm, cap, func() ([]byte, uint64, error) {
		ret, left, _, err := evm.Call(vm.AccountRef(Origin), CodeAddr, input, gas, value)
		return ret, left, err
	})
	o.MaxDepth = dw.Max
	return o
}

// RunCreate runs init code through evm.Create.
func RunCreate(initCode []byte, gas uint64, cap time.Duration) Outcome {
	st := NewState()
	st.SetBalance(Origin, new(big.Int).Lsh(big.NewInt(1), 100))
	dw := &DepthWatch{AccountDB: st}
	evm := NewEVM(dw, st, gas)
	dw.evm = evm
	o := guarded(evm, cap, func() ([]byte, uint64, error) {
		ret, _, left, _, err := evm.Create(vm.AccountRef(Origin), initCode, gas, new(big.Int))
		return ret, left, err
	})
	o.MaxDepth = dw.Max
	return o
}

// DepthWatch wraps the state database: every call kind takes a Snapshot on entry, at which point
// the EVM's depth counter is sampled (through the verif export).
type DepthWatch struct {
	*account.AccountDB
	evm *vm.EVM
	Max int
}

func (d *DepthWatch) Snapshot() int {
	if d.evm != nil {
		if x := vm.VerifVMDepth(d.evm); x > d.Max {
			d.Max = x
		}
	}
	return d.AccountDB.Snapshot()
}

// Quiet redirects the noisy stdout of the node's init code.
func Quiet() func() {
	old := os.Stdout
	f, err := os.OpenFile(os.DevNull, os.O_WRONLY, 0)
	if err != nil {
		return func() {}
	}
	os.Stdout = f
	return func() { os.Stdout = old; f.Close() }
}
