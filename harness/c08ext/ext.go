// Package c08ext: the RLP type-descriptor extractor of property C08 (go/parser + go/types from source).
//
// It finds, in the non-test code of <repo>/src (outside the rlp package itself),
//
//   - every call of rlp.Encode / EncodeToBytes / EncodeToReader / Decode / DecodeBytes and of the
//     (*rlp.Stream).Decode method, with the STATIC type of the value argument;
//   - for an argument that is an interface{} parameter of the enclosing function (rlpHash(x)), the calls
//     of that function in the same package, one level up;
//   - for an []interface{}{...} literal argument (the signing tuples), the static types of its elements
//     as a tuple descriptor (a list of the elements' encodings: what the encoder writes for the slice);
//   - for an argument of a non-empty interface type (the trie's `node`), the concrete types of the
//     package that implement it;
//   - every type with an EncodeRLP or DecodeRLP method,
//
// and prints, for each type found, its descriptor in the vocabulary of coq/C08/Desc.v (gty): field order,
// exported-ness, rlp tag words, element types; named types are followed into the package that declares
// them (common.Hash, common.Address, big.Int).
//
// In-module packages are type-checked from source with this file's own importer (function bodies only
// for the packages that import rlp); the standard library through the "source" importer; third-party
// packages are replaced by empty fakes (none of the serialised types uses one).
package c08ext

import (
	"fmt"
	"go/ast"
	"go/build"
	"go/importer"
	"go/parser"
	"go/token"
	"go/types"
	"os"
	"path/filepath"
	"reflect"
	"sort"
	"strconv"
	"strings"
)

const Module = "com.tuntun.rangers/node"
const RlpPkg = Module + "/src/storage/rlp"

// Site: one use of the RLP API with the static type of the value.
type Site struct {
	File string // relative to repo
	Func string
	API  string // Encode, EncodeToBytes, DecodeBytes, Stream.Decode, wrapper rlpHash ...
	Type string // Go type as printed by go/types (package-qualified by name)
	Desc string // name of the descriptor in Types ("" when the value is dynamic)
}

// TypeDesc: one extracted descriptor.
type TypeDesc struct {
	Name string // e.g. account.Account, eth_tx.txdata, eth_tx.tuple@Hash#1
	Gty  string // Coq term of type Desc.gty
	Why  string // how it is used
}

type Result struct {
	Sites    []Site
	Types    []TypeDesc
	Decoders []string // types with a DecodeRLP method (not part of Gen.v)
}

type loaded struct {
	pkg   *types.Package
	files []*ast.File
	info  *types.Info
}

type loader struct {
	fset  *token.FileSet
	repo  string
	ctx   build.Context
	std   types.Importer
	pkgs  map[string]*loaded
	scope map[string]bool
	fakes map[string]*types.Package
}

func (l *loader) Import(path string) (*types.Package, error) {
	if path == "unsafe" {
		return types.Unsafe, nil
	}
	if ld, ok := l.pkgs[path]; ok {
		if ld == nil {
			return nil, fmt.Errorf("import cycle through %s", path)
		}
		return ld.pkg, nil
	}
	if strings.HasPrefix(path, Module+"/") || path == Module {
		l.pkgs[path] = nil
		ld, err := l.check(path, filepath.Join(l.repo, strings.TrimPrefix(path, Module)))
		if err != nil {
			delete(l.pkgs, path)
			return nil, err
		}
		l.pkgs[path] = ld
		return ld.pkg, nil
	}
	if !strings.Contains(strings.Split(path, "/")[0], ".") {
		if p, err := l.std.Import(path); err == nil {
			return p, nil
		}
	}
	if p, ok := l.fakes[path]; ok {
		return p, nil
	}
	parts := strings.Split(path, "/")
	p := types.NewPackage(path, strings.ReplaceAll(parts[len(parts)-1], "-", "_"))
	p.MarkComplete()
	l.fakes[path] = p
	return p, nil
}

func (l *loader) check(path, dir string) (*loaded, error) {
	bp, err := l.ctx.ImportDir(dir, 0)
	if err != nil && bp == nil {
		return nil, err
	}
	names := append(append([]string{}, bp.GoFiles...), bp.CgoFiles...)
	sort.Strings(names)
	if len(names) == 0 {
		return nil, fmt.Errorf("no Go files in %s", dir)
	}
	var files []*ast.File
	for _, n := range names {
		f, _ := parser.ParseFile(l.fset, filepath.Join(dir, n), nil, parser.SkipObjectResolution)
		if f != nil {
			files = append(files, f)
		}
	}
	inScope := l.scope[path]
	info := &types.Info{}
	if inScope {
		info.Types = map[ast.Expr]types.TypeAndValue{}
		info.Uses = map[*ast.Ident]types.Object{}
		info.Defs = map[*ast.Ident]types.Object{}
		info.Selections = map[*ast.SelectorExpr]*types.Selection{}
	}
	cfg := types.Config{Importer: l, FakeImportC: true, IgnoreFuncBodies: !inScope, Error: func(error) {}}
	pkg, _ := cfg.Check(path, l.fset, files, info)
	if pkg == nil {
		return nil, fmt.Errorf("type check of %s produced no package", path)
	}
	return &loaded{pkg: pkg, files: files, info: info}, nil
}

// importers lists the packages under src/ (non-test files) that import the rlp package.
func importers(repo string) ([]string, error) {
	var res []string
	seen := map[string]bool{}
	fset := token.NewFileSet()
	err := filepath.Walk(filepath.Join(repo, "src"), func(p string, fi os.FileInfo, err error) error {
		if err != nil {
			return nil
		}
		if fi.IsDir() || !strings.HasSuffix(p, ".go") || strings.HasSuffix(p, "_test.go") {
			return nil
		}
		f, err := parser.ParseFile(fset, p, nil, parser.ImportsOnly)
		if err != nil || f == nil {
			return nil
		}
		for _, im := range f.Imports {
			if v, _ := strconv.Unquote(im.Path.Value); v == RlpPkg {
				rel, _ := filepath.Rel(repo, filepath.Dir(p))
				ip := Module + "/" + filepath.ToSlash(rel)
				if ip != RlpPkg && !seen[ip] {
					seen[ip] = true
					res = append(res, ip)
				}
			}
		}
		return nil
	})
	sort.Strings(res)
	return res, err
}

type extractor struct {
	l     *loader
	res   *Result
	types map[string]bool // descriptor names already emitted
	qual  types.Qualifier
}

func pkgName(p *types.Package) string {
	if p == nil {
		return ""
	}
	return p.Name()
}

func hasMethod(t types.Type, name string) bool {
	tt := t
	if _, ok := t.(*types.Pointer); !ok {
		tt = types.NewPointer(t)
	}
	ms := types.NewMethodSet(tt)
	for i := 0; i < ms.Len(); i++ {
		if ms.At(i).Obj().Name() == name {
			return true
		}
	}
	return false
}

func isCustom(t types.Type) bool { return hasMethod(t, "EncodeRLP") || hasMethod(t, "DecodeRLP") }

func isNamed(t types.Type, pkg, name string) bool {
	n, ok := t.(*types.Named)
	return ok && n.Obj().Name() == name && n.Obj().Pkg() != nil && n.Obj().Pkg().Path() == pkg
}

func coqStr(s string) string { return "\"" + strings.ReplaceAll(s, "\"", "\"\"") + "\"" }

// gty prints the descriptor of a static Go type (same vocabulary and same decisions as the harness's
// reflection printer coqGty, so the two can be compared).
func (x *extractor) gty(t types.Type, depth int) string {
	if depth > 12 {
		return `(GBad "recursive")`
	}
	if isNamed(t, RlpPkg, "RawValue") {
		return "GRaw"
	}
	if _, isIface := t.Underlying().(*types.Interface); !isIface && isCustom(t) {
		return "(GCustom " + coqStr(types.TypeString(t, x.qual)) + ")"
	}
	if p, ok := t.(*types.Pointer); ok && isNamed(p.Elem(), "math/big", "Int") {
		return "GBigPtr"
	}
	if isNamed(t, "math/big", "Int") {
		return "GBig"
	}
	switch u := t.Underlying().(type) {
	case *types.Basic:
		switch u.Kind() {
		case types.Uint8:
			return "(GUint 8)"
		case types.Uint16:
			return "(GUint 16)"
		case types.Uint32:
			return "(GUint 32)"
		case types.Uint64, types.Uint, types.Uintptr:
			return "(GUint 64)"
		case types.Bool:
			return "GBool"
		case types.String:
			return "GString"
		}
		return "(GBad " + coqStr(u.Name()) + ")"
	case *types.Slice:
		if b, ok := u.Elem().Underlying().(*types.Basic); ok && b.Kind() == types.Uint8 && !isCustom(u.Elem()) {
			return "GBytes"
		}
		return "(GSlice " + x.gty(u.Elem(), depth+1) + ")"
	case *types.Array:
		if b, ok := u.Elem().Underlying().(*types.Basic); ok && b.Kind() == types.Uint8 && !isCustom(u.Elem()) {
			return fmt.Sprintf("(GByteArr %d)", u.Len())
		}
		return fmt.Sprintf("(GArr %d %s)", u.Len(), x.gty(u.Elem(), depth+1))
	case *types.Pointer:
		return "(GPtr " + x.gty(u.Elem(), depth+1) + ")"
	case *types.Interface:
		if u.NumMethods() == 0 {
			return "GIface"
		}
		return `(GBad "interface with methods")`
	case *types.Struct:
		name := ""
		if n, ok := t.(*types.Named); ok {
			name = n.Obj().Name()
		}
		fs := make([]string, u.NumFields())
		for i := range fs {
			f := u.Field(i)
			var ws []string
			for _, w := range strings.Split(reflect.StructTag(u.Tag(i)).Get("rlp"), ",") {
				ws = append(ws, coqStr(strings.TrimSpace(w)))
			}
			fs[i] = fmt.Sprintf("(%s, %t, [%s], %s)", coqStr(f.Name()), f.Exported(), strings.Join(ws, "; "), x.gty(f.Type(), depth+1))
		}
		return "(GStruct " + coqStr(name) + " [" + strings.Join(fs, "; ") + "])"
	case *types.Map:
		return `(GBad "map")`
	case *types.Chan:
		return `(GBad "chan")`
	case *types.Signature:
		return `(GBad "func")`
	}
	return "(GBad " + coqStr(t.String()) + ")"
}

func (x *extractor) typeName(t types.Type) string {
	return types.TypeString(t, x.qual)
}

func (x *extractor) addType(name string, t types.Type, why string) string {
	if !x.types[name] {
		x.types[name] = true
		x.res.Types = append(x.res.Types, TypeDesc{Name: name, Gty: x.gty(t, 0), Why: why})
	}
	return name
}

// Scan extracts sites and descriptors from the node sources at repo.
func Scan(repo string) (*Result, error) {
	pkgs, err := importers(repo)
	if err != nil {
		return nil, err
	}
	if len(pkgs) == 0 {
		return nil, fmt.Errorf("no package under %s/src imports %s", repo, RlpPkg)
	}
	fset := token.NewFileSet()
	ctx := build.Default
	ctx.CgoEnabled = true
	ctx.BuildTags = nil
	l := &loader{fset: fset, repo: repo, ctx: ctx, pkgs: map[string]*loaded{}, scope: map[string]bool{}, fakes: map[string]*types.Package{}}
	l.std = importer.ForCompiler(fset, "source", nil)
	for _, p := range pkgs {
		l.scope[p] = true
	}
	res := &Result{}
	x := &extractor{l: l, res: res, types: map[string]bool{}}
	x.qual = func(p *types.Package) string { return p.Name() }
	for _, p := range pkgs {
		if _, err := l.Import(p); err != nil {
			return nil, fmt.Errorf("%s: %v", p, err)
		}
		ld := l.pkgs[p]
		if ld == nil || ld.info == nil {
			return nil, fmt.Errorf("%s could not be type-checked", p)
		}
		x.scanPkg(ld)
	}
	sort.Slice(res.Sites, func(i, j int) bool {
		a, b := res.Sites[i], res.Sites[j]
		if a.File != b.File {
			return a.File < b.File
		}
		if a.Func != b.Func {
			return a.Func < b.Func
		}
		if a.API != b.API {
			return a.API < b.API
		}
		return a.Type < b.Type
	})
	sort.Slice(res.Types, func(i, j int) bool { return res.Types[i].Name < res.Types[j].Name })
	return res, nil
}

var encAPIs = map[string]int{"Encode": 1, "EncodeToBytes": 0, "EncodeToReader": 0}
var decAPIs = map[string]int{"Decode": 1, "DecodeBytes": 1}

type wrapper struct {
	fn    *types.Func
	param int
}

func (x *extractor) scanPkg(ld *loaded) {
	repo := x.l.repo
	var wrappers []wrapper
	funcName := func(d *ast.FuncDecl) string {
		if d.Recv != nil && len(d.Recv.List) > 0 {
			return "(" + types.ExprString(d.Recv.List[0].Type) + ")." + d.Name.Name
		}
		return d.Name.Name
	}
	// the value argument: record site + descriptors
	record := func(file, fn, api string, arg ast.Expr, decl *ast.FuncDecl, tupleSeq *int) {
		tv, ok := ld.info.Types[arg]
		if !ok || tv.Type == nil {
			x.res.Sites = append(x.res.Sites, Site{file, fn, api, "unresolved: " + types.ExprString(arg), ""})
			return
		}
		t := tv.Type
		site := Site{File: file, Func: fn, API: api, Type: x.typeName(t)}
		// []interface{}{...} literal: a tuple
		if cl, ok := ast.Unparen(arg).(*ast.CompositeLit); ok {
			if sl, ok := t.Underlying().(*types.Slice); ok {
				if it, ok := sl.Elem().Underlying().(*types.Interface); ok && it.NumMethods() == 0 {
					*tupleSeq++
					var fs []string
					for i, e := range cl.Elts {
						et := ld.info.Types[e].Type
						g := `(GBad "unresolved")`
						if et != nil {
							g = x.gty(et, 1)
						}
						fs = append(fs, fmt.Sprintf("(%s, true, [\"\"], %s)", coqStr(fmt.Sprintf("E%d", i)), g))
					}
					name := fmt.Sprintf("%s.tuple@%s#%d", pkgName(ld.pkg), fn, *tupleSeq)
					if !x.types[name] {
						x.types[name] = true
						x.res.Types = append(x.res.Types, TypeDesc{Name: name, Gty: "(GStruct " + coqStr("tuple") + " [" + strings.Join(fs, "; ") + "])",
							Why: "[]interface{} literal passed to " + api + " in " + fn + ": encoded as the list of its elements"})
					}
					site.Desc = name
					x.res.Sites = append(x.res.Sites, site)
					return
				}
			}
		}
		// strip pointers for the descriptor name (the pointer is in the site's type)
		base := t
		for {
			p, ok := base.(*types.Pointer)
			if !ok || isNamed(p.Elem(), "math/big", "Int") {
				break
			}
			base = p.Elem()
		}
		if it, ok := base.Underlying().(*types.Interface); ok {
			if it.NumMethods() == 0 {
				// interface{}: is it a parameter of the enclosing function?
				if id, ok := ast.Unparen(arg).(*ast.Ident); ok && decl != nil {
					if obj, ok := ld.info.Uses[id].(*types.Var); ok {
						if fobj, ok := ld.info.Defs[decl.Name].(*types.Func); ok {
							sig := fobj.Type().(*types.Signature)
							for i := 0; i < sig.Params().Len(); i++ {
								if sig.Params().At(i) == obj {
									wrappers = append(wrappers, wrapper{fobj, i})
									site.Desc = "(dynamic: parameter of " + fn + ")"
								}
							}
						}
					}
				}
				x.res.Sites = append(x.res.Sites, site)
				return
			}
			// non-empty interface: the implementers declared in this package
			var impl []string
			sc := ld.pkg.Scope()
			for _, n := range sc.Names() {
				tn, ok := sc.Lookup(n).(*types.TypeName)
				if !ok || tn.IsAlias() {
					continue
				}
				nt, ok := tn.Type().(*types.Named)
				if !ok || types.IsInterface(nt) {
					continue
				}
				if types.Implements(nt, it) || types.Implements(types.NewPointer(nt), it) {
					impl = append(impl, x.addType(pkgName(ld.pkg)+"."+n, nt, "implements "+x.typeName(base)+", which is passed to "+api))
				}
			}
			site.Desc = "(dynamic: " + strings.Join(impl, ", ") + ")"
			x.res.Sites = append(x.res.Sites, site)
			return
		}
		name := x.typeName(base)
		site.Desc = x.addType(name, base, "passed to "+api)
		x.res.Sites = append(x.res.Sites, site)
		// a custom codec: what it delegates to is found as a site of its own; also describe the
		// fields' struct types of interest
	}
	calleeOf := func(call *ast.CallExpr) (pkgPath, recv, name string, obj *types.Func) {
		switch f := ast.Unparen(call.Fun).(type) {
		case *ast.SelectorExpr:
			if o, ok := ld.info.Uses[f.Sel].(*types.Func); ok {
				sig := o.Type().(*types.Signature)
				r := ""
				if sig.Recv() != nil {
					rt := sig.Recv().Type()
					if p, ok := rt.(*types.Pointer); ok {
						rt = p.Elem()
					}
					if n, ok := rt.(*types.Named); ok {
						r = n.Obj().Name()
					}
				}
				pp := ""
				if o.Pkg() != nil {
					pp = o.Pkg().Path()
				}
				return pp, r, o.Name(), o
			}
		case *ast.Ident:
			if o, ok := ld.info.Uses[f].(*types.Func); ok {
				pp := ""
				if o.Pkg() != nil {
					pp = o.Pkg().Path()
				}
				return pp, "", o.Name(), o
			}
		}
		return "", "", "", nil
	}
	visit := func(pass int) {
		for _, f := range ld.files {
			file, _ := filepath.Rel(repo, x.l.fset.Position(f.Pos()).Filename)
			for _, d := range f.Decls {
				fd, ok := d.(*ast.FuncDecl)
				if !ok || fd.Body == nil {
					continue
				}
				fn := funcName(fd)
				seq := 0
				ast.Inspect(fd.Body, func(n ast.Node) bool {
					call, ok := n.(*ast.CallExpr)
					if !ok {
						return true
					}
					pp, recv, name, obj := calleeOf(call)
					if pass == 0 && pp == RlpPkg {
						if recv == "" {
							if i, ok := encAPIs[name]; ok && len(call.Args) > i {
								record(file, fn, name, call.Args[i], fd, &seq)
							} else if i, ok := decAPIs[name]; ok && len(call.Args) > i {
								record(file, fn, name, call.Args[i], fd, &seq)
							}
						} else if recv == "Stream" && name == "Decode" && len(call.Args) == 1 {
							record(file, fn, "Stream.Decode", call.Args[0], fd, &seq)
						}
					}
					if pass == 1 && obj != nil {
						for _, w := range wrappers {
							if w.fn == obj && len(call.Args) > w.param {
								record(file, fn, "wrapper "+obj.Name(), call.Args[w.param], nil, &seq)
							}
						}
					}
					return true
				})
			}
		}
	}
	visit(0)
	visit(1)
	// every type of this package with a custom codec
	sc := ld.pkg.Scope()
	for _, n := range sc.Names() {
		if tn, ok := sc.Lookup(n).(*types.TypeName); ok && !tn.IsAlias() {
			if nt, ok := tn.Type().(*types.Named); ok && !types.IsInterface(nt) && isCustom(nt) {
				x.addType(pkgName(ld.pkg)+"."+n, nt, "has its own EncodeRLP/DecodeRLP")
				if hasMethod(nt, "DecodeRLP") {
					x.res.Decoders = append(x.res.Decoders, pkgName(ld.pkg)+"."+n)
				}
			}
		}
	}
}

// GenV renders coq/C08/Gen.v.
func GenV(r *Result) string {
	var sb strings.Builder
	sb.WriteString("(* GENERATED by harness/c08ext (go/types) from the node sources: every static type handed to the rlp\n" +
		"   package outside its own directory, with field order, exported-ness and rlp tags.\n" +
		"   Regenerate: cd /verif/harness && go run ./cmd/c08 -gen /verif/coq/C08/Gen.v   — the C08 harness re-derives\n" +
		"   this table on every run and compares it with this file (a stale file turns the check red). *)\n")
	sb.WriteString("From Coq Require Import List NArith String.\nFrom V.C08 Require Import Desc.\nImport ListNotations.\nLocal Open Scope string_scope.\n\n")
	sb.WriteString("(* file, function, API, static type of the value, descriptor *)\nDefinition gen_sites : list (string * string * string * string * string) := [\n")
	for i, s := range r.Sites {
		if i > 0 {
			sb.WriteString(";\n")
		}
		fmt.Fprintf(&sb, "  (%s, %s, %s, %s, %s)", coqStr(s.File), coqStr(s.Func), coqStr(s.API), coqStr(s.Type), coqStr(s.Desc))
	}
	sb.WriteString("\n].\n\n")
	for i, t := range r.Types {
		fmt.Fprintf(&sb, "(* %s: %s *)\nDefinition gen_ty_%d : gty :=\n  %s.\n\n", t.Name, t.Why, i, t.Gty)
	}
	sb.WriteString("Definition gen_types : list (string * gty) := [\n")
	for i, t := range r.Types {
		if i > 0 {
			sb.WriteString(";\n")
		}
		fmt.Fprintf(&sb, "  (%s, gen_ty_%d)", coqStr(t.Name), i)
	}
	sb.WriteString("\n].\n")
	return sb.String()
}

// CoqSites / CoqTypes: the same data as Coq terms for the harness's model case.
func CoqSites(r *Result) string {
	var s []string
	for _, x := range r.Sites {
		s = append(s, fmt.Sprintf("(%s, %s, %s, %s, %s)", coqStr(x.File), coqStr(x.Func), coqStr(x.API), coqStr(x.Type), coqStr(x.Desc)))
	}
	return "[" + strings.Join(s, "; ") + "]"
}
func CoqTypes(r *Result) string {
	var s []string
	for _, t := range r.Types {
		s = append(s, fmt.Sprintf("(%s, %s)", coqStr(t.Name), t.Gty))
	}
	return "[" + strings.Join(s, "; ") + "]"
}
