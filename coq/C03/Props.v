(* C03 — property theorems only (statements + [exact]); see Proofs.v for the proofs.
   Reading guide: a [store] is the trie node store (disk + dirty cache) as a reference graph;
   [run c r seq] says seq is a sequence of batch.Put calls NodeDatabase.commit(r) can issue on dirty
   cache c (any iteration order of childs() at every visit); [crash s seq k] is the disk after a crash
   that let exactly the first k puts through; batches are arbitrary segmentations of seq. *)
From stdpp Require Import gmap.
From V.Base Require Import Hex.
From V.C08 Require Model.
From V.C02 Require Model Sem ProofsB.
From V.C02 Require ModelB.
From V.C03 Require Import Model Proofs Concrete ConcreteProofs TrieLink TrieStore TrieReopen.

(* Children are written before parents: whatever prefix of the put sequence reaches the disk, every
   stored node's references are stored. *)
Theorem C03_prefix_closed : ∀ (K : Type) `{!EqDecision K, !Countable K} (s : @store K _ _) r seq,
  run (cache s) r seq → cache_closed s → closed (disk s) → ∀ k, closed (crash s seq k).
Proof. intros K ? ?. exact prefix_closed. Qed.
Print Assumptions C03_prefix_closed.

(* The same at the granularity the disk really offers: for ANY split of the puts into atomically
   written batches, after any number of whole batches the disk is closed ... *)
Theorem C03_batch_boundary_closed : ∀ (K : Type) `{!EqDecision K, !Countable K} (s : @store K _ _) r seq bs,
  run (cache s) r seq → cache_closed s → closed (disk s) → concat bs = seq →
  ∀ j, closed (put_all (cache s) (disk s) (concat (take j bs))).
Proof. intros K ? ?. exact batch_boundary_closed. Qed.
Print Assumptions C03_batch_boundary_closed.

(* ... in particular for the split commit() makes (Write when ValueSize >= limit, one final Write). *)
Theorem C03_code_batches_closed : ∀ (K : Type) `{!EqDecision K, !Countable K} (s : @store K _ _) r seq limit size,
  run (cache s) r seq → cache_closed s → closed (disk s) →
  ∀ j, closed (put_all (cache s) (disk s) (concat (take j (batch_run limit size seq [] 0%N)))).
Proof. intros K ? ?. exact code_batches_closed. Qed.
Print Assumptions C03_code_batches_closed.

(* On a closed disk, a root whose top node is present is fully resolvable. *)
Theorem C03_top_implies_all : ∀ (K : Type) `{!EqDecision K, !Countable K} (d : gmap K (list K)) r, closed d → is_Some (d !! r) → resolvable d r.
Proof. intros K ? ?. exact top_implies_all. Qed.
Print Assumptions C03_top_implies_all.

(* No deletes: whatever is put (any sequence, any crash point), a root that was resolvable before the
   commit stays resolvable, reaches exactly the same nodes, and they hold the same blobs.
   [consistent] = hash addressing (a hash names one blob). *)
Theorem C03_old_roots_kept : ∀ (K : Type) `{!EqDecision K, !Countable K} (s : @store K _ _) r seq k,
  consistent s → resolvable (disk s) r →
  resolvable (crash s seq k) r
  ∧ (∀ h, reach (disk s) r h → crash s seq k !! h = disk s !! h)
  ∧ (∀ h, reach (crash s seq k) r h ↔ reach (disk s) r h).
Proof. intros K ? ?. exact old_roots_kept. Qed.
Print Assumptions C03_old_roots_kept.

(* After the whole sequence the committed root is on disk and resolvable from the disk alone, and
   every node the pre-commit view (dirty cache over disk) reached from it is on disk unchanged. *)
Theorem C03_commit_complete : ∀ (K : Type) `{!EqDecision K, !Countable K} (s : @store K _ _) r seq,
  consistent s → cache_closed s → closed (disk s) → run (cache s) r seq → is_Some (view s !! r) →
  let d' := crash s seq (length seq) in
  is_Some (d' !! r) ∧ closed d' ∧ resolvable d' r ∧ (∀ h, reach (view s) r h → d' !! h = view s !! h).
Proof. intros K ? ?. exact commit_complete. Qed.
Print Assumptions C03_commit_complete.

(* The executable walk is one of the runs, and with no reference cycle among dirty nodes (hash
   addressing) it terminates within fuel = number of dirty nodes + 1. *)
Theorem C03_commit_seq_is_run : ∀ (K : Type) `{!EqDecision K, !Countable K} fuel (c : gmap K (@dnode K)) h seq, commit_seq fuel c h = Some seq → run c h seq.
Proof. intros K ? ?. exact commit_seq_run. Qed.
Print Assumptions C03_commit_seq_is_run.

Theorem C03_commit_terminates : ∀ (K : Type) `{!EqDecision K, !Countable K} (c : gmap K (@dnode K)) r, acyclic c → is_Some (commit_seq (S (size c)) c r).
Proof. intros K ? ?. exact commit_terminates. Qed.
Print Assumptions C03_commit_terminates.

(* The invariant (closed disk; every reference of a dirty blob on disk or a tracked dirty child; hash
   addressing) survives a commit followed by uncache. *)
Theorem C03_commit_preserves_inv : ∀ (K : Type) `{!EqDecision K, !Countable K} (s : @store K _ _) r seq, inv s → run (cache s) r seq → inv (after_commit s seq).
Proof. intros K ? ?. exact commit_preserves_inv. Qed.
Print Assumptions C03_commit_preserves_inv.

(* Whole histories: starting from the empty store, after any sequence of dirty inserts (every blob
   reference on disk or a tracked dirty child; hash-addressed), late Reference calls, completed
   commits (each followed by uncache), commits interrupted by a Write error (cache kept) and commits
   interrupted by a crash (cache lost, restart on the disk as it is) - at every crash point k of the
   next commit the disk is closed, so every root whose top node is present is resolvable, and every
   root resolvable before that commit is still resolvable with the same nodes. *)
Theorem C03_history_crash_safe : ∀ (K : Type) `{!EqDecision K, !Countable K} (ops : list (@op K)) r seq k,
  let s := foldl step (@Store K _ _ ∅ ∅) ops in
  hist_ok (@Store K _ _ ∅ ∅) ops → run (cache s) r seq →
  closed (crash s seq k)
  ∧ (∀ r', is_Some (crash s seq k !! r') → resolvable (crash s seq k) r')
  ∧ (∀ r', resolvable (disk s) r' →
       resolvable (crash s seq k) r' ∧ ∀ h, reach (disk s) r' h → crash s seq k !! h = disk s !! h).
Proof. intros K ? ?. exact history_crash_safe. Qed.
Print Assumptions C03_history_crash_safe.

(* "Never invalidates older roots", over whole histories: a root that is resolvable on disk at some
   point stays resolvable after ANY continuation (commits, failed writes, crashes, restarts), reaches
   exactly the same nodes and they hold the same blobs. *)
Theorem C03_durable_forever : ∀ (K : Type) `{!EqDecision K, !Countable K} (ops1 ops2 : list (@op K)) r,
  let s1 := foldl step (@Store K _ _ ∅ ∅) ops1 in
  let s2 := foldl step (@Store K _ _ ∅ ∅) (ops1 ++ ops2) in
  hist_ok (@Store K _ _ ∅ ∅) (ops1 ++ ops2) → resolvable (disk s1) r →
  resolvable (disk s2) r
  ∧ (∀ h, reach (disk s1) r h → disk s2 !! h = disk s1 !! h)
  ∧ (∀ h, reach (disk s2) r h ↔ reach (disk s1) r h).
Proof. intros K ? ?. exact durable_forever. Qed.
Print Assumptions C03_durable_forever.

(* "Durable and complete", over whole histories: once Commit(r) has run to the end, then after ANY
   continuation r is on disk and resolvable from the disk alone, and every node the pre-commit view
   (dirty cache over disk) reached from r is on disk with the same blob. *)
Theorem C03_committed_root_survives : ∀ (K : Type) `{!EqDecision K, !Countable K} (ops1 : list (@op K)) r seq ops2,
  let s := foldl step (@Store K _ _ ∅ ∅) ops1 in
  let s2 := foldl step (@Store K _ _ ∅ ∅) (ops1 ++ OCommit r seq :: ops2) in
  hist_ok (@Store K _ _ ∅ ∅) (ops1 ++ OCommit r seq :: ops2) → is_Some (view s !! r) →
  is_Some (disk s2 !! r) ∧ closed (disk s2) ∧ resolvable (disk s2) r
  ∧ (∀ h, reach (view s) r h → disk s2 !! h = view s !! h).
Proof. intros K ? ?. exact committed_root_survives. Qed.
Print Assumptions C03_committed_root_survives.

(* The boolean checks the correspondence run evaluates imply the hypotheses used above. *)
Theorem C03_tree_check_sound : ∀ (K : Type) `{!EqDecision K, !Countable K} (c : gmap K (@dnode K)) t, tree_okb c t = true → run c (troot t) (flatten t).
Proof. intros K ? ? c t Ht. exists t. split; [by apply tree_okb_sound|done]. Qed.
Print Assumptions C03_tree_check_sound.

(* Non-vacuity: a store with a non-empty closed disk, a dirty cache with a shared subtree (node 4 is
   referenced twice and therefore put twice), an untracked reference to a node already on disk
   (3 -> 2) and a stale dirty node, satisfying every hypothesis;
   the walk's output; a mid-commit crash point. *)
Example C03_example :
  let s := Store {[ 1%N := []; 2%N := [1%N] ]}
                 {[ 3%N := DNode [4%N; 4%N] [2%N; 4%N; 4%N]; 4%N := DNode [] [1%N]; 5%N := DNode [] [] ]} in
  inv s ∧ commit_seq 4 (cache s) 3%N = Some [4%N; 4%N; 3%N]
  ∧ closed (crash s [4%N; 4%N; 3%N] 1) ∧ resolvable (disk s) 2%N ∧ is_Some (view s !! 3%N)
  ∧ acyclic (cache s).
Proof.
  intros s. split; [|split; [|split; [|split; [|split]]]].
  - split; [|split]; apply (bool_decide_unpack _); vm_compute; exact I.
  - vm_compute. reflexivity.
  - apply (bool_decide_unpack _). vm_compute. exact I.
  - apply top_implies_all; [apply (bool_decide_unpack _); vm_compute; exact I|]. vm_compute. eauto.
  - vm_compute. eauto.
  - exists (λ h, if (h =? 3)%N then 1 else 0). intros h cs x Hh Hx Hc.
    assert (map_Forall (λ h cs, Forall (λ x, is_Some (cache s !! x) →
              (if (x =? 3)%N then 1 else 0) < (if (h =? 3)%N then 1 else 0)) (tracked cs)) (cache s)) as H.
    { apply (bool_decide_unpack _). vm_compute. exact I. }
    specialize (H h cs Hh). rewrite Forall_forall in H. by apply H.
Qed.

(* Non-vacuity of the history hypotheses: leaf 1 and node 2 -> [1] become dirty; Commit(2) gets a
   Write error after one put (disk = {1}, cache kept); the retry dies after one put (cache lost);
   after the restart 2 is rebuilt (its child 1 is on disk now: listed by childs(), skipped by the
   walk), leaf 4 and node 3 -> [2; 4] become dirty, the leaf callback references 4 once more
   (childs() lists it twice, it is put twice), Commit(3) runs to the end. *)
Example C03_history_example :
  let ops := [ OInsert 1%N (DNode [] []); OInsert 2%N (DNode [1%N] [1%N]);
               OFail 2%N [1%N; 2%N] 1; OCrash 2%N [1%N; 2%N] 1;
               OInsert 2%N (DNode [1%N] [1%N]); OInsert 4%N (DNode [] []);
               OInsert 3%N (DNode [2%N; 4%N] [2%N; 4%N]); OReference true 4%N 3%N;
               OCommit 3%N [4%N; 2%N; 4%N; 3%N] ] in
  hist_ok (@Store N _ _ ∅ ∅) ops
  ∧ disk (foldl step (@Store N _ _ ∅ ∅) ops) = {[ 1%N := []; 2%N := [1%N]; 3%N := [2%N; 4%N]; 4%N := [] ]}
  ∧ cache (foldl step (@Store N _ _ ∅ ∅) ops) = ∅.
Proof.
  intros ops. split; [|split; apply (bool_decide_unpack _); vm_compute; exact I].
  unfold ops. cbn [hist_ok op_ok step].
  repeat match goal with
  | |- _ ∧ _ => split
  | |- insert_ok _ _ _ => apply insert_okb_sound; vm_compute; reflexivity
  | |- True => exact I
  end.
  - apply (C03_tree_check_sound N _ (TNode 2%N [TNode 1%N []])). by vm_compute.
  - apply (C03_tree_check_sound N _ (TNode 2%N [TNode 1%N []])). by vm_compute.
  - apply (C03_tree_check_sound N _ (TNode 3%N [TNode 4%N []; TNode 2%N [TSkip 1%N]; TNode 4%N []])). by vm_compute.
Qed.

(* ====================== concrete layer ====================== *)
(* C03 - property theorems of the concrete layer (statements + [exact]).
   Reading guide: hashes are byte strings; a blob is an RLP node encoding; [blob_hkids]/[blob_lvals]
   decode a blob the way node.go / database.go do and return the child references / leaf values found
   in it; [blob_refs role e] are the references of e stored in a role (storage-trie node, account-trie
   node: + storage root and code hash of the account RLP in its leaves, code: none).  A concrete history
   [cop] is a sequence of trie commits (CTrie: hasher.store -> NodeDatabase.insert bottom-up over the
   Merkle tree [mtree] of the dirty node encodings, + the leaf callback's Reference calls), code blob
   inserts (CBlob), NodeDatabase.Commit runs that finished (CCommit), were ended by a Write error (CFail)
   or by a crash (CCrash: dirty cache lost).  [U] is a universe of (blob, role) pairs on which the hash
   function is collision free - the only assumption about the hash. *)
Notation cstore0 := (@Store (list N) _ _ ∅ ∅).

(* The decoder inverts the encoder: the references and leaf values the model reads out of the
   encoding of a node are those of the node (RLP-encodable: bytes < 256, sizes < 2^64). *)
Theorem C03_decode_inverts_encode : ∀ it, C08.Model.item_ok it →
  blob_item (rlp it) = Some it ∧ blob_hkids (rlp it) = hkids it ∧ blob_lvals (rlp it) = lvals it.
Proof. intros it Hok. by rewrite blob_item_encode, blob_hkids_encode, blob_lvals_encode. Qed.
Print Assumptions C03_decode_inverts_encode.

(* For every trie of the C02 model in minimal form and every dirty predicate on its nodes: the child
   references decoded from a node's collapsed form are exactly the hashes of the sub-tries the hasher
   stores (or finds clean) below it - tries are Merkle trees by construction. *)
Theorem C03_trie_is_merkle_tree : ∀ (H : list N → list N), (∀ x, length (H x) = 32) →
  ∀ dirty t, C02.Model.wfb t = true →
  hkids (C02.Model.collapse H t) = map (mhash H) (TrieLink.msubs H dirty t).
Proof. exact hkids_collapse. Qed.
Print Assumptions C03_trie_is_merkle_tree.

(* trie.Commit of ANY such trie is a well-formed concrete operation, given only that its nodes are
   encodable and in the collision-free universe, that clean stored nodes are known to the database and
   that what its leaf values refer to is known to the database. *)
Theorem C03_trie_commit_ok : ∀ (H : list N → list N), (∀ x, length (H x) = 32) →
  ∀ er ec U dirty r, r ≠ RCode → ∀ (s : cstore) t,
  C02.Model.wfb t = true → trie_hyps H er ec U dirty r s t → dirty t = true →
  cop_ok H er ec U s (CTrie r (TrieLink.mnode H dirty t)).
Proof. exact trie_commit_ok. Qed.
Print Assumptions C03_trie_commit_ok.

(* AccountDB.Commit (dirty objects: code blob insert, storage trie commit; then the account trie
   commit with its leaf callback) is a well-formed concrete history: the storage roots and code hashes
   the account leaves refer to are known to the database because the objects are committed first. *)
Theorem C03_account_commit_ok : ∀ H er ec U, collision_free H U → ∀ (s : cstore) ds acct,
  inv s → uinv H er ec U s → Forall (dacct_ok H er ec U s) ds →
  (∀ s', vle s s' → known H ds s' → mtree_ok H er ec U RAccount s' acct) →
  chist_ok H er ec U s (account_commit ds acct)
  ∧ is_Some (view (foldl (cstep H er ec) s (account_commit ds acct)) !! mhash H acct).
Proof. exact account_commit_ok. Qed.
Print Assumptions C03_account_commit_ok.

(* "Durable and complete" for a whole state, as a theorem: after any concrete history, AccountDB.Commit
   of a state followed by a NodeDatabase.Commit of its root that runs to the end leaves - after ANY
   continuation (further blocks, write errors, crashes, restarts) - the state root on disk, the disk
   closed, and every node the pre-commit view reached from the state root (account trie nodes; storage
   trie nodes through the storage roots decoded from the account leaves; code blobs through their code
   hashes) on disk with the same references. *)
Theorem C03_account_state_durable : ∀ H er ec U, collision_free H U → ∀ os1 ds acct seq os2,
  let s := foldl (cstep H er ec) cstore0 os1 in
  let s1 := foldl (cstep H er ec) s (account_commit ds acct) in
  let s2 := foldl (cstep H er ec) cstore0 ((os1 ++ account_commit ds acct) ++ CCommit (mhash H acct) seq :: os2) in
  chist_ok H er ec U cstore0 os1 → Forall (dacct_ok H er ec U s) ds →
  (∀ s', vle s s' → known H ds s' → mtree_ok H er ec U RAccount s' acct) →
  run (cache s1) (mhash H acct) seq → chist_ok H er ec U (after_commit s1 seq) os2 →
  is_Some (disk s2 !! mhash H acct) ∧ closed (disk s2) ∧ resolvable (disk s2) (mhash H acct)
  ∧ (∀ h, reach (view s1) (mhash H acct) h → disk s2 !! h = view s1 !! h).
Proof. exact account_state_durable. Qed.
Print Assumptions C03_account_state_durable.

(* Every concrete history is a history of the graph model all of whose inserts satisfy insert_ok:
   the hypothesis of the graph-level theorems is discharged. *)
Theorem C03_concrete_is_graph_history : ∀ H er ec U, collision_free H U → ∀ os,
  chist_ok H er ec U cstore0 os →
  ∃ ops, hist_ok cstore0 ops ∧ foldl step cstore0 ops = foldl (cstep H er ec) cstore0 os.
Proof.
  intros H er ec U Hcf os Hok.
  destruct (chist_sim H er ec U Hcf _ os inv_empty (uinv_empty H er ec U) Hok) as (ops & ? & ? & _). eauto.
Qed.
Print Assumptions C03_concrete_is_graph_history.

(* Crash safety over concrete histories: after any sequence of trie commits, code inserts, commits,
   write errors and crashes/restarts, at EVERY crash point k of the next NodeDatabase.Commit (any put
   sequence the walk can produce) the disk is closed under the references decoded from the blobs, every
   root whose top node is on disk is fully resolvable, and every root resolvable before that commit
   still is, with the same nodes. *)
Theorem C03_concrete_crash_safe : ∀ H er ec U, collision_free H U → ∀ os root seq k,
  let s := foldl (cstep H er ec) cstore0 os in
  chist_ok H er ec U cstore0 os → run (cache s) root seq →
  closed (crash s seq k)
  ∧ (∀ y, is_Some (crash s seq k !! y) → resolvable (crash s seq k) y)
  ∧ (∀ y, resolvable (disk s) y →
       resolvable (crash s seq k) y ∧ ∀ h, reach (disk s) y h → crash s seq k !! h = disk s !! h).
Proof. exact c_history_crash_safe. Qed.
Print Assumptions C03_concrete_crash_safe.

Theorem C03_concrete_durable_forever : ∀ H er ec U, collision_free H U → ∀ os1 os2 root,
  let s1 := foldl (cstep H er ec) cstore0 os1 in
  let s2 := foldl (cstep H er ec) cstore0 (os1 ++ os2) in
  chist_ok H er ec U cstore0 (os1 ++ os2) → resolvable (disk s1) root →
  resolvable (disk s2) root
  ∧ (∀ h, reach (disk s1) root h → disk s2 !! h = disk s1 !! h)
  ∧ (∀ h, reach (disk s2) root h ↔ reach (disk s1) root h).
Proof. exact c_durable_forever. Qed.
Print Assumptions C03_concrete_durable_forever.

Theorem C03_concrete_committed_root_survives : ∀ H er ec U, collision_free H U → ∀ os1 root seq os2,
  let s := foldl (cstep H er ec) cstore0 os1 in
  let s2 := foldl (cstep H er ec) cstore0 (os1 ++ CCommit root seq :: os2) in
  chist_ok H er ec U cstore0 (os1 ++ CCommit root seq :: os2) → is_Some (view s !! root) →
  is_Some (disk s2 !! root) ∧ closed (disk s2) ∧ resolvable (disk s2) root
  ∧ (∀ h, reach (view s) root h → disk s2 !! h = view s !! h).
Proof. exact c_committed_root_survives. Qed.
Print Assumptions C03_concrete_committed_root_survives.

(* The general form: on ANY closed disk graph dk whose entries are blobs of the universe held by the
   blob store d, a trie (C02 model, minimal form) whose root node is on disk reopens from d alone to
   exactly itself.  With C03_concrete_crash_safe (the disk is closed at every crash point; a root whose
   top node is present ...) this is "every root whose top node is present on disk is fully readable
   with the committed values"; it applies to the account trie of a state root and, through the storage
   roots in its leaves (closedness puts them on disk), to every storage trie of that state. *)
Theorem C03_reopen_from_disk : ∀ (H : list N → list N), (∀ x, length (H x) = 32) →
  ∀ er ec U, collision_free H U → ∀ (dirty : C02.Model.node → bool) r, r ≠ RCode →
  ∀ (d : list N → option (list N)) (dk : gmap (list N) (list (list N))),
  (∀ h a, dk !! h = Some a → ∃ e r', U e r' ∧ H e = h ∧ d h = Some e ∧ a = blob_refs er ec r' e) →
  closed dk → ∀ t,
  (∀ c, C02.ProofsB.subnode c t → C02.Model.wfb c = true →
        C08.Model.item_ok (C02.Model.collapse H c) ∧ U (TrieLink.enc H c) r) →
  C02.Model.wf_trie t = true → t ≠ C02.Model.Empty →
  is_Some (dk !! H (TrieLink.enc H t)) → C02.Model.root_hash H t ≠ H [128%N] →
  C02.ModelB.reopen d (C02.Sem.size t) (H [128%N]) (C02.Model.root_hash H t) = Some t.
Proof. exact reopen_from_disk. Qed.
Print Assumptions C03_reopen_from_disk.

(* "Readable with the same value from the disk alone", as a theorem: after any concrete history, once
   NodeDatabase.Commit of the root of a trie t (C02 model, minimal form; known to the database at that
   moment) has run to the end, then after ANY continuation - further commits, write errors, crashes,
   restarts - a fresh reader that has nothing but the disk (the blob store d, holding under every hash
   on disk the blob of the universe with that hash) reopens the root (C02: decodeNode + resolveHash
   until every reference is resolved) to exactly t: every key reads the value it had before.
   Applies to a storage trie (r = RStorage) and to the account trie (r = RAccount). *)
Theorem C03_committed_trie_reopens : ∀ (H : list N → list N), (∀ x, length (H x) = 32) →
  ∀ er ec U, collision_free H U → ∀ (dirty : C02.Model.node → bool) r, r ≠ RCode →
  ∀ os1 seq os2 t (d : list N → option (list N)),
  let root := H (TrieLink.enc H t) in
  let s := foldl (cstep H er ec) cstore0 os1 in
  let s2 := foldl (cstep H er ec) cstore0 (os1 ++ CCommit root seq :: os2) in
  chist_ok H er ec U cstore0 (os1 ++ CCommit root seq :: os2) →
  is_Some (view s !! root) →
  C02.Model.wf_trie t = true → t ≠ C02.Model.Empty → C02.Model.root_hash H t ≠ H [128%N] →
  (∀ c, C02.ProofsB.subnode c t → C02.Model.wfb c = true →
        C08.Model.item_ok (C02.Model.collapse H c) ∧ U (TrieLink.enc H c) r) →
  (∀ h e r', is_Some (disk s2 !! h) → U e r' → H e = h → d h = Some e) →
  C02.ModelB.reopen d (C02.Sem.size t) (H [128%N]) (C02.Model.root_hash H t) = Some t.
Proof. exact committed_trie_reopens. Qed.
Print Assumptions C03_committed_trie_reopens.

(* Non-vacuity: with the identity as "hash", a one-leaf storage trie (key nibbles 0 1, value 05) is
   committed, its disk commit crashes before the put, the trie is committed again after the restart and
   the disk commit runs to the end - a well-formed concrete history; the leaf ends up on disk. *)
Example C03_concrete_example :
  let H := λ x : list N, x in
  let e : list N := [196; 130; 32; 1; 5]%N in
  let U := λ (b : list N) (r : role), b = e ∧ r = RStorage in
  let os := [CTrie RStorage (MNode e []); CCrash e [e] 0; CTrie RStorage (MNode e []); CCommit e [e]] in
  collision_free H U ∧ chist_ok H [] [] U cstore0 os
  ∧ is_Some (disk (foldl (cstep H [] []) cstore0 os) !! e).
Proof.
  intros H e U os. split; [|split].
  - intros a r a' r' [-> ->] [-> ->] _. done.
  - assert (∀ s : cstore, mtree_ok H [] [] U RStorage s (MNode e [])) as Hok.
    { intros s. constructor; [done|by vm_compute|constructor|constructor]. }
    unfold os. cbn [chist_ok cop_ok]. split; [split; [done|apply Hok]|].
    split; [|split; [split; [done|apply Hok]|split; [|done]]].
    + apply (C03_tree_check_sound (list N) _ (TNode e [])). by vm_compute.
    + apply (C03_tree_check_sound (list N) _ (TNode e [])). by vm_compute.
  - vm_compute. eauto.
Qed.

(* Non-vacuity of C03_committed_trie_reopens: a 32-byte toy hash, a one-leaf trie (C02: run [OUpdate 1234 -> 40 bytes]),
   committed by trie.Commit and NodeDatabase.Commit. *)
Example C03_committed_trie_reopens_hyps :
  let H := λ x : list N, take 32 (x ++ replicate 32 0%N) in
  let t := C02.Model.run [C02.Model.OUpdate [18; 52]%N (replicate 40 7%N)] in
  let root := H (TrieLink.enc H t) in
  let U := λ (e : list N) (r : role), e = TrieLink.enc H t ∧ r = RStorage in
  let os1 := [CTrie RStorage (TrieLink.mnode H (λ _, true) t)] in
  (∀ x, length (H x) = 32) ∧ collision_free H U
  ∧ chist_ok H [] [] U cstore0 (os1 ++ [CCommit root [root]])
  ∧ is_Some (view (foldl (cstep H [] []) cstore0 os1) !! root)
  ∧ C02.Model.wf_trie t = true ∧ t ≠ C02.Model.Empty ∧ C02.Model.root_hash H t ≠ H [128%N]
  ∧ (∀ c, C02.ProofsB.subnode c t → C02.Model.wfb c = true →
          C08.Model.item_ok (C02.Model.collapse H c) ∧ U (TrieLink.enc H c) RStorage).
Proof.
  intros H t root U os1.
  assert (∀ c, C02.ProofsB.subnode c t → C02.Model.wfb c = true → c = t) as Hsub.
  { intros c Hs Hw. vm_compute in Hs. inversion Hs as [|? ? ? Hs'|]; subst; [done|].
    inversion Hs'; subst. discriminate. }
  split; [|split; [|split; [|split; [|split; [|split; [|split]]]]]].
  - intros x. unfold H. rewrite take_length, app_length, replicate_length. lia.
  - intros a r a' r' [-> ->] [-> ->] _. done.
  - split; [|split; [|done]].
    + split; [done|]. unfold TrieLink.mnode.
      replace (TrieLink.msubs H (λ _, true) t) with (@nil mtree) by (by vm_compute).
      constructor; [done|by vm_compute|constructor|constructor].
    + apply (C03_tree_check_sound (list N) _ (TNode root [])). by vm_compute.
  - vm_compute. eauto.
  - by vm_compute.
  - by vm_compute.
  - by vm_compute.
  - intros c Hs Hw. rewrite (Hsub c Hs Hw). split; [|done].
    cbn. repeat split; try (apply bytes_okb_spec; vm_compute; reflexivity); vm_compute; reflexivity.
Qed.
