(* C03 — property theorems only (statements + [exact]); see Proofs.v for the proofs.
   Reading guide: a [store] is the trie node store (disk + dirty cache) as a reference graph;
   [run c r seq] says seq is a sequence of batch.Put calls NodeDatabase.commit(r) can issue on dirty
   cache c (any iteration order of childs() at every visit); [crash s seq k] is the disk after a crash
   that let exactly the first k puts through; batches are arbitrary segmentations of seq. *)
From stdpp Require Import gmap.
From V.C03 Require Import Model Proofs.

(* Children are written before parents: whatever prefix of the put sequence reaches the disk, every
   stored node's references are stored. *)
Theorem C03_prefix_closed : ∀ s r seq,
  run (cache s) r seq → cache_closed s → closed (disk s) → ∀ k, closed (crash s seq k).
Proof. exact prefix_closed. Qed.
Print Assumptions C03_prefix_closed.

(* The same at the granularity the disk really offers: for ANY split of the puts into atomically
   written batches, after any number of whole batches the disk is closed ... *)
Theorem C03_batch_boundary_closed : ∀ s r seq bs,
  run (cache s) r seq → cache_closed s → closed (disk s) → concat bs = seq →
  ∀ j, closed (put_all (cache s) (disk s) (concat (take j bs))).
Proof. exact batch_boundary_closed. Qed.
Print Assumptions C03_batch_boundary_closed.

(* ... in particular for the split commit() makes (Write when ValueSize >= limit, one final Write). *)
Theorem C03_code_batches_closed : ∀ s r seq limit size,
  run (cache s) r seq → cache_closed s → closed (disk s) →
  ∀ j, closed (put_all (cache s) (disk s) (concat (take j (batch_run limit size seq [] 0%N)))).
Proof. exact code_batches_closed. Qed.
Print Assumptions C03_code_batches_closed.

(* On a closed disk, a root whose top node is present is fully resolvable. *)
Theorem C03_top_implies_all : ∀ d r, closed d → is_Some (d !! r) → resolvable d r.
Proof. exact top_implies_all. Qed.
Print Assumptions C03_top_implies_all.

(* No deletes: whatever is put (any sequence, any crash point), a root that was resolvable before the
   commit stays resolvable, reaches exactly the same nodes, and they hold the same blobs.
   [consistent] = hash addressing (a hash names one blob). *)
Theorem C03_old_roots_kept : ∀ s r seq k,
  consistent s → resolvable (disk s) r →
  resolvable (crash s seq k) r
  ∧ (∀ h, reach (disk s) r h → crash s seq k !! h = disk s !! h)
  ∧ (∀ h, reach (crash s seq k) r h ↔ reach (disk s) r h).
Proof. exact old_roots_kept. Qed.
Print Assumptions C03_old_roots_kept.

(* After the whole sequence the committed root is on disk and resolvable from the disk alone, and
   every node the pre-commit view (dirty cache over disk) reached from it is on disk unchanged. *)
Theorem C03_commit_complete : ∀ s r seq,
  consistent s → cache_closed s → closed (disk s) → run (cache s) r seq → is_Some (view s !! r) →
  let d' := crash s seq (length seq) in
  is_Some (d' !! r) ∧ closed d' ∧ resolvable d' r ∧ (∀ h, reach (view s) r h → d' !! h = view s !! h).
Proof. exact commit_complete. Qed.
Print Assumptions C03_commit_complete.

(* The executable walk is one of the runs, and with no reference cycle among dirty nodes (hash
   addressing) it terminates within fuel = number of dirty nodes + 1. *)
Theorem C03_commit_seq_is_run : ∀ fuel c h seq, commit_seq fuel c h = Some seq → run c h seq.
Proof. exact commit_seq_run. Qed.
Print Assumptions C03_commit_seq_is_run.

Theorem C03_commit_terminates : ∀ c r, acyclic c → is_Some (commit_seq (S (size c)) c r).
Proof. exact commit_terminates. Qed.
Print Assumptions C03_commit_terminates.

(* The invariant (closed disk; every reference of a dirty blob on disk or a tracked dirty child; hash
   addressing) survives a commit followed by uncache. *)
Theorem C03_commit_preserves_inv : ∀ s r seq, inv s → run (cache s) r seq → inv (after_commit s seq).
Proof. exact commit_preserves_inv. Qed.
Print Assumptions C03_commit_preserves_inv.

(* Whole histories: starting from the empty store, after any sequence of dirty inserts (every blob
   reference on disk or a tracked dirty child; hash-addressed), late Reference calls, completed
   commits (each followed by uncache), commits interrupted by a Write error (cache kept) and commits
   interrupted by a crash (cache lost, restart on the disk as it is) - at every crash point k of the
   next commit the disk is closed, so every root whose top node is present is resolvable, and every
   root resolvable before that commit is still resolvable with the same nodes. *)
Theorem C03_history_crash_safe : ∀ ops r seq k,
  let s := foldl step (Store ∅ ∅) ops in
  hist_ok (Store ∅ ∅) ops → run (cache s) r seq →
  closed (crash s seq k)
  ∧ (∀ r', is_Some (crash s seq k !! r') → resolvable (crash s seq k) r')
  ∧ (∀ r', resolvable (disk s) r' →
       resolvable (crash s seq k) r' ∧ ∀ h, reach (disk s) r' h → crash s seq k !! h = disk s !! h).
Proof. exact history_crash_safe. Qed.
Print Assumptions C03_history_crash_safe.

(* "Never invalidates older roots", over whole histories: a root that is resolvable on disk at some
   point stays resolvable after ANY continuation (commits, failed writes, crashes, restarts), reaches
   exactly the same nodes and they hold the same blobs. *)
Theorem C03_durable_forever : ∀ ops1 ops2 r,
  let s1 := foldl step (Store ∅ ∅) ops1 in
  let s2 := foldl step (Store ∅ ∅) (ops1 ++ ops2) in
  hist_ok (Store ∅ ∅) (ops1 ++ ops2) → resolvable (disk s1) r →
  resolvable (disk s2) r
  ∧ (∀ h, reach (disk s1) r h → disk s2 !! h = disk s1 !! h)
  ∧ (∀ h, reach (disk s2) r h ↔ reach (disk s1) r h).
Proof. exact durable_forever. Qed.
Print Assumptions C03_durable_forever.

(* "Durable and complete", over whole histories: once Commit(r) has run to the end, then after ANY
   continuation r is on disk and resolvable from the disk alone, and every node the pre-commit view
   (dirty cache over disk) reached from r is on disk with the same blob. *)
Theorem C03_committed_root_survives : ∀ ops1 r seq ops2,
  let s := foldl step (Store ∅ ∅) ops1 in
  let s2 := foldl step (Store ∅ ∅) (ops1 ++ OCommit r seq :: ops2) in
  hist_ok (Store ∅ ∅) (ops1 ++ OCommit r seq :: ops2) → is_Some (view s !! r) →
  is_Some (disk s2 !! r) ∧ closed (disk s2) ∧ resolvable (disk s2) r
  ∧ (∀ h, reach (view s) r h → disk s2 !! h = view s !! h).
Proof. exact committed_root_survives. Qed.
Print Assumptions C03_committed_root_survives.

(* The boolean checks the correspondence run evaluates imply the hypotheses used above. *)
Theorem C03_tree_check_sound : ∀ c t, tree_okb c t = true → run c (troot t) (flatten t).
Proof. intros c t H. exists t. split; [by apply tree_okb_sound|done]. Qed.
Print Assumptions C03_tree_check_sound.

(* Non-vacuity: a store with a non-empty closed disk, a dirty cache with a shared subtree (node 4 is
   referenced twice and therefore put twice), an untracked reference to a node already on disk
   (3 -> 2) and a stale dirty node, satisfying every hypothesis;
   the walk's output; a mid-commit crash point. *)
Example C03_example :
  let s := Store {[ 1%N := []; 2%N := [1%N] ]}
                 {[ 3%N := DNode [4%N; 4%N] [2%N; 4%N; 4%N]; 4%N := DNode [] [1%N]; 5%N := DNode [] [] ]} in
  inv s ∧ commit_seq 4 (cache s) 3%N = Some [4%N; 4%N; 3%N]
  ∧ closed (crash s [4%N; 4%N; 3%N] 1) ∧ resolvable (disk s) 2%N ∧ is_Some (view s !! 3%N)
  ∧ acyclic (cache s).
Proof.
  intros s. split; [|split; [|split; [|split; [|split]]]].
  - split; [|split]; apply (bool_decide_unpack _); vm_compute; exact I.
  - vm_compute. reflexivity.
  - apply (bool_decide_unpack _). vm_compute. exact I.
  - apply top_implies_all; [apply (bool_decide_unpack _); vm_compute; exact I|]. vm_compute. eauto.
  - vm_compute. eauto.
  - exists (λ h, if (h =? 3)%N then 1 else 0). intros h cs x Hh Hx Hc.
    assert (map_Forall (λ h cs, Forall (λ x, is_Some (cache s !! x) →
              (if (x =? 3)%N then 1 else 0) < (if (h =? 3)%N then 1 else 0)) (tracked cs)) (cache s)) as H.
    { apply (bool_decide_unpack _). vm_compute. exact I. }
    specialize (H h cs Hh). rewrite Forall_forall in H. by apply H.
Qed.

(* Non-vacuity of the history hypotheses: leaf 1 and node 2 -> [1] become dirty; Commit(2) gets a
   Write error after one put (disk = {1}, cache kept); the retry dies after one put (cache lost);
   after the restart 2 is rebuilt (its child 1 is on disk now: listed by childs(), skipped by the
   walk), leaf 4 and node 3 -> [2; 4] become dirty, the leaf callback references 4 once more
   (childs() lists it twice, it is put twice), Commit(3) runs to the end. *)
Example C03_history_example :
  let ops := [ OInsert 1%N (DNode [] []); OInsert 2%N (DNode [1%N] [1%N]);
               OFail 2%N [1%N; 2%N] 1; OCrash 2%N [1%N; 2%N] 1;
               OInsert 2%N (DNode [1%N] [1%N]); OInsert 4%N (DNode [] []);
               OInsert 3%N (DNode [2%N; 4%N] [2%N; 4%N]); OReference true 4%N 3%N;
               OCommit 3%N [4%N; 2%N; 4%N; 3%N] ] in
  hist_ok (Store ∅ ∅) ops
  ∧ disk (foldl step (Store ∅ ∅) ops) = {[ 1%N := []; 2%N := [1%N]; 3%N := [2%N; 4%N]; 4%N := [] ]}
  ∧ cache (foldl step (Store ∅ ∅) ops) = ∅.
Proof.
  intros ops. split; [|split; apply (bool_decide_unpack _); vm_compute; exact I].
  unfold ops. cbn [hist_ok op_ok step].
  repeat match goal with
  | |- _ ∧ _ => split
  | |- insert_ok _ _ _ => apply insert_okb_sound; vm_compute; reflexivity
  | |- True => exact I
  end.
  - apply (C03_tree_check_sound _ (TNode 2%N [TNode 1%N []])). by vm_compute.
  - apply (C03_tree_check_sound _ (TNode 2%N [TNode 1%N []])). by vm_compute.
  - apply (C03_tree_check_sound _ (TNode 3%N [TNode 4%N []; TNode 2%N [TSkip 1%N]; TNode 4%N []])). by vm_compute.
Qed.
