(* C03 proofs: graph lemmas about the post-order commit walk, crash prefixes and monotone disks. *)
From stdpp Require Import gmap.
From V.C03 Require Import Model.

Section proofs.
Context {K : Type} `{!EqDecision K, !Countable K}.
Notation hash := K (only parsing).
Notation store0 := (@Store K _ _ ∅ ∅).
Implicit Types (d : gmap K (list K)) (c : gmap K (@dnode K)) (s : @store K _ _)
               (h x y r child parent : K) (seq a b cs : list K) (n : @dnode K)
               (t : @tree K) (kids : list (@tree K)) (o : @op K) (ops : list (@op K))
               (bs : list (list K)).

(* ---------- unfolding the predicates ---------- *)
Lemma closed_spec d :
  closed d ↔ ∀ h cs x, d !! h = Some cs → x ∈ cs → is_Some (d !! x).
Proof.
  unfold closed, map_Forall. split.
  - intros H h cs x Hh Hx. specialize (H h cs Hh). rewrite Forall_forall in H. auto.
  - intros H h cs Hh. apply Forall_forall. eauto.
Qed.

Lemma cache_closed_spec s :
  cache_closed s ↔ ∀ h n x, cache s !! h = Some n → x ∈ refs n →
                     is_Some (disk s !! x) ∨ (x ∈ tracked n ∧ is_Some (cache s !! x)).
Proof.
  unfold cache_closed, map_Forall. split.
  - intros H h n x Hh Hx. specialize (H h n Hh). rewrite Forall_forall in H. auto.
  - intros H h n Hh. apply Forall_forall. eauto.
Qed.

Lemma consistent_spec s :
  consistent s ↔ ∀ h a n, disk s !! h = Some a → cache s !! h = Some n → a = refs n.
Proof.
  unfold consistent, map_Forall. split.
  - intros H h a n Ha Hn. specialize (H h a Ha). rewrite Hn in H. done.
  - intros H h a Ha. destruct (cache s !! h) eqn:E; eauto.
Qed.

Lemma view_lookup s h :
  view s !! h = match cache s !! h with Some n => Some (refs n) | None => disk s !! h end.
Proof.
  unfold view. destruct (cache s !! h) as [n|] eqn:E.
  - apply lookup_union_Some_l. by rewrite lookup_fmap, E.
  - apply lookup_union_r. by rewrite lookup_fmap, E.
Qed.

(* ---------- put / put_all ---------- *)
Lemma put_all_cons c d h tl : put_all c d (h :: tl) = put_all c (put c d h) tl.
Proof. done. Qed.

Lemma put_all_app c d a b : put_all c d (a ++ b) = put_all c (put_all c d a) b.
Proof. unfold put_all. apply foldl_app. Qed.

Lemma put_is_Some c d h x : is_Some (d !! x) → is_Some (put c d h !! x).
Proof.
  unfold put. destruct (c !! h); [|done]. intros. rewrite lookup_insert_is_Some'. auto.
Qed.

Lemma put_all_is_Some c d seq x : is_Some (d !! x) → is_Some (put_all c d seq !! x).
Proof.
  revert d. induction seq as [|h tl IH]; intros d H; [done|].
  rewrite put_all_cons. apply IH. by apply put_is_Some.
Qed.

(* a put node holds exactly the cached node's references, whatever was there before *)
Lemma put_all_lookup_in c d seq x n :
  x ∈ seq → c !! x = Some n → put_all c d seq !! x = Some (refs n).
Proof.
  revert d. induction seq as [|h tl IH]; intros d Hin Hc; [by apply elem_of_nil in Hin|].
  rewrite put_all_cons. destruct (decide (x ∈ tl)) as [|Hn]; [by apply IH|].
  apply elem_of_cons in Hin as [->|]; [|done].
  clear IH. assert (put c d h !! h = Some (refs n)) as H0.
  { unfold put. rewrite Hc. apply lookup_insert. }
  revert H0. generalize (put c d h). induction tl as [|y tl IH]; intros d' H0; [done|].
  rewrite put_all_cons. apply IH.
  - intros ?. apply Hn. by right.
  - unfold put. destruct (c !! y) eqn:E; [|done].
    destruct (decide (y = h)) as [->|]; [|by rewrite lookup_insert_ne].
    rewrite lookup_insert. congruence.
Qed.

Lemma put_all_lookup_out c d seq x :
  x ∉ seq ∨ c !! x = None → put_all c d seq !! x = d !! x.
Proof.
  revert d. induction seq as [|h tl IH]; intros d H; [done|].
  rewrite put_all_cons, IH.
  - unfold put. destruct (c !! h) eqn:E; [|done].
    destruct (decide (x = h)) as [->|]; [|by rewrite lookup_insert_ne].
    destruct H as [H|H]; [|congruence]. exfalso. apply H. by left.
  - destruct H as [H|H]; [left|by right]. intros ?. apply H. by right.
Qed.

(* what a put sequence leaves on disk is the pre-commit view of that hash *)
Lemma put_all_view s seq h a :
  consistent s → put_all (cache s) (disk s) seq !! h = Some a → view s !! h = Some a.
Proof.
  intros Hc H. rewrite view_lookup. destruct (cache s !! h) as [n|] eqn:E.
  - destruct (decide (h ∈ seq)) as [Hin|Hn].
    + rewrite (put_all_lookup_in _ _ _ _ _ Hin E) in H. done.
    + rewrite put_all_lookup_out in H by auto.
      rewrite consistent_spec in Hc. f_equal. symmetry. eauto.
  - rewrite put_all_lookup_out in H by auto. done.
Qed.

(* puts never delete and, under hash addressing, never change a stored blob *)
Lemma put_all_mono s seq : consistent s → disk s ⊆ put_all (cache s) (disk s) seq.
Proof.
  intros Hc. apply map_subseteq_spec. intros h a Ha.
  destruct (cache s !! h) as [b|] eqn:E.
  - destruct (decide (h ∈ seq)) as [Hin|Hn].
    + rewrite (put_all_lookup_in _ _ _ _ _ Hin E).
      rewrite consistent_spec in Hc. f_equal. symmetry. eauto.
    + rewrite put_all_lookup_out; auto.
  - rewrite put_all_lookup_out; auto.
Qed.

(* ---------- closedness ---------- *)
Lemma closed_insert d h cs :
  closed d → Forall (λ x, is_Some (d !! x)) cs → closed (<[h := cs]> d).
Proof.
  rewrite !closed_spec. intros Hd Hcs h' cs' x Hh' Hx.
  rewrite lookup_insert_is_Some'. right.
  destruct (decide (h' = h)) as [->|Hne].
  - rewrite lookup_insert in Hh'. injection Hh' as <-. rewrite Forall_forall in Hcs. auto.
  - rewrite lookup_insert_ne in Hh' by done. eauto.
Qed.

Lemma ordered_app c d a b :
  ordered c d (a ++ b) ↔ ordered c d a ∧ ordered c (put_all c d a) b.
Proof.
  revert d. induction a as [|h tl IH]; intros d; [simpl; tauto|].
  cbn [app ordered]. rewrite IH, put_all_cons. tauto.
Qed.

Lemma ordered_closed c d seq :
  closed d → ordered c d seq → ∀ k, closed (put_all c d (take k seq)).
Proof.
  revert d. induction seq as [|h tl IH]; intros d Hd Ho k.
  - by rewrite take_nil.
  - destruct k as [|k]; [done|]. simpl take. rewrite put_all_cons.
    destruct Ho as [(n & Hc & Hcs) Ho]. apply IH; [|done].
    unfold put. rewrite Hc. by apply closed_insert.
Qed.

Lemma orderedb_sound c d seq : orderedb c d seq = true → ordered c d seq.
Proof.
  revert d. induction seq as [|h tl IH]; intros d; simpl; [done|].
  destruct (c !! h) as [n|]; [|done]. rewrite andb_true_iff. intros [H1 H2].
  split; [|by apply IH]. exists n. split; [done|].
  apply Forall_forall. intros x Hx. rewrite forallb_forall in H1.
  apply elem_of_list_In in Hx. specialize (H1 x Hx). by apply bool_decide_eq_true in H1.
Qed.

(* ---------- visit trees ---------- *)
Lemma elem_of_concat_map {A B} (f : A → list B) (l : list A) (x : B) :
  x ∈ concat (map f l) ↔ ∃ k, k ∈ l ∧ x ∈ f k.
Proof.
  induction l as [|a l IH]; simpl.
  - split; [by intros ?%elem_of_nil|]. by intros (k & ?%elem_of_nil & _).
  - rewrite elem_of_app, IH. split.
    + intros [H|(k & Hk & H)]; [exists a; split; [by left|done]|exists k; split; [by right|done]].
    + intros (k & Hk & H). apply elem_of_cons in Hk as [->|Hk]; [by left|right; eauto].
Qed.

Lemma tree_ind' (P : tree → Prop) :
  (∀ h, P (TSkip h)) → (∀ h kids, Forall P kids → P (TNode h kids)) → ∀ t, P t.
Proof.
  intros Hs Hn. fix IH 1. intros [h|h kids]; [apply Hs|]. apply Hn.
  induction kids as [|k kids IHk]; constructor; [apply IH|apply IHk].
Qed.

Lemma tree_okb_sound c t : tree_okb c t = true → tree_ok c t.
Proof.
  induction t as [h|h kids IH] using tree_ind'; simpl.
  - intros H. apply bool_decide_eq_true in H. by constructor.
  - destruct (c !! h) as [n|] eqn:E; [|done]. rewrite andb_true_iff. intros [H1 H2].
    apply bool_decide_eq_true in H1. econstructor; [done..|].
    rewrite forallb_forall in H2. rewrite Forall_forall in IH. apply Forall_forall.
    intros k Hk. apply IH; [done|]. apply H2. by apply elem_of_list_In.
Qed.

(* a cached root is the last put of its walk *)
Lemma flatten_root_in c t n : tree_ok c t → c !! troot t = Some n → troot t ∈ flatten t.
Proof.
  destruct 1 as [h Hn|h n' kids]; simpl; [congruence|]. intros _.
  apply elem_of_app. right. by left.
Qed.

Lemma flatten_all_cached c t x : tree_ok c t → x ∈ flatten t → is_Some (c !! x).
Proof.
  induction t as [h|h kids IH] using tree_ind'; simpl; [by intros _ ?%elem_of_nil|].
  inversion 1 as [|? n ? Hc Hp Hk]; subst. rewrite elem_of_app, elem_of_list_singleton.
  intros [Hx| ->]; [|eauto].
  apply elem_of_concat_map in Hx as (k & Hk' & Hxk).
  rewrite Forall_forall in IH, Hk. eauto.
Qed.

Section walk.
  Context (c : gmap K (@dnode K)).

  (* every reference of a dirty node is present in d or is a tracked dirty child *)
  Definition avail (d : gmap K (list K)) : Prop :=
    ∀ h n x, c !! h = Some n → x ∈ refs n → is_Some (d !! x) ∨ (x ∈ tracked n ∧ is_Some (c !! x)).

  Lemma avail_put_all d seq : avail d → avail (put_all c d seq).
  Proof.
    intros H h n x Hh Hx. destruct (H h n x Hh Hx); [left|by right]. by apply put_all_is_Some.
  Qed.

  Lemma kids_ordered kids :
    Forall (λ t, tree_ok c t → ∀ d, avail d → ordered c d (flatten t)) kids →
    Forall (tree_ok c) kids →
    ∀ d, avail d → ordered c d (concat (map flatten kids)).
  Proof.
    induction kids as [|k kids IH]; intros HP Hok d Hd; simpl; [done|].
    apply Forall_cons in HP as [HPk HP]. apply Forall_cons in Hok as [Hk Hok].
    apply ordered_app. split; [by apply HPk|].
    apply IH; [done..|]. by apply avail_put_all.
  Qed.

  (* children are put (or were on disk) before their parent *)
  Lemma tree_ordered t : tree_ok c t → ∀ d, avail d → ordered c d (flatten t).
  Proof.
    induction t as [h|h kids IH] using tree_ind'; intros Hok d Hd; simpl; [done|].
    inversion Hok as [|? n ? Hc Hp Hk]; subst.
    apply ordered_app. split; [by apply kids_ordered|].
    simpl. split; [|done]. exists n. split; [done|].
    apply Forall_forall. intros x Hx.
    destruct (Hd h n x Hc Hx) as [H|[Ht [nx Hnx]]]; [by apply put_all_is_Some|].
    assert (x ∈ map troot kids) as Hx' by (by rewrite Hp).
    apply elem_of_list_fmap in Hx' as (k & -> & Hkin).
    rewrite Forall_forall in Hk. specialize (Hk k Hkin).
    erewrite put_all_lookup_in; [done| |done].
    apply elem_of_concat_map. exists k. split; [done|]. by eapply flatten_root_in.
  Qed.
End walk.

Lemma run_ordered s r seq :
  cache_closed s → run (cache s) r seq → ordered (cache s) (disk s) seq.
Proof.
  intros Hcc (t & Hok & _ & <-). apply tree_ordered; [done|].
  rewrite cache_closed_spec in Hcc. exact Hcc.
Qed.

(* headline 1: every prefix of the put sequence leaves a closed disk *)
Lemma prefix_closed s r seq :
  run (cache s) r seq → cache_closed s → closed (disk s) → ∀ k, closed (crash s seq k).
Proof.
  intros Hr Hcc Hd k. unfold crash. apply ordered_closed; [done|]. by eapply run_ordered.
Qed.

(* batches: a prefix of any segmentation is a prefix of the put sequence *)
Lemma concat_take_prefix {A} (bs : list (list A)) j :
  concat (take j bs) = take (length (concat (take j bs))) (concat bs).
Proof.
  revert j. induction bs as [|b bs IH]; intros [|j]; simpl; try done.
  rewrite app_length, take_add_app by done. by rewrite <- IH.
Qed.

Lemma batch_boundary_closed s r seq bs :
  run (cache s) r seq → cache_closed s → closed (disk s) → concat bs = seq →
  ∀ j, closed (put_all (cache s) (disk s) (concat (take j bs))).
Proof.
  intros Hr Hcc Hd <- j. rewrite concat_take_prefix. by eapply prefix_closed.
Qed.

Lemma batch_run_concat limit size seq cur acc :
  concat (batch_run limit size seq cur acc) = cur ++ seq.
Proof.
  revert cur acc. induction seq as [|h tl IH]; intros cur acc; simpl.
  - by rewrite !app_nil_r.
  - destruct (limit <=? acc + size h)%N; simpl; rewrite IH; by rewrite <- ?app_assoc.
Qed.

Lemma code_batches_closed s r seq limit size :
  run (cache s) r seq → cache_closed s → closed (disk s) →
  ∀ j, closed (put_all (cache s) (disk s) (concat (take j (batch_run limit size seq [] 0%N)))).
Proof.
  intros Hr Hcc Hd. eapply batch_boundary_closed; [done..|]. apply batch_run_concat.
Qed.

(* ---------- the function is one schedule of the walk ---------- *)
Lemma commit_seq_run fuel c h seq : commit_seq fuel c h = Some seq → run c h seq.
Proof.
  revert h seq. induction fuel as [|f IH]; intros h seq; simpl.
  - destruct (c !! h) eqn:E; [done|]. intros [= <-]. exists (TSkip h). split; [by constructor|done].
  - destruct (c !! h) as [cs|] eqn:E.
    2:{ intros [= <-]. exists (TSkip h). split; [by constructor|done]. }
    destruct (commit_list (commit_seq f c) (tracked cs)) as [sub|] eqn:Es; [|done]. simpl. intros [= <-].
    assert (∃ kids, Forall (tree_ok c) kids ∧ map troot kids = tracked cs ∧ concat (map flatten kids) = sub)
      as (kids & Hk & Hr & Hf).
    { clear E. revert sub Es. generalize (tracked cs). intros l. induction l as [|x tl IHl]; simpl; intros sub.
      - intros [= <-]. by exists [].
      - destruct (commit_seq f c x) as [a|] eqn:Ea; [|done]. simpl.
        destruct (commit_list (commit_seq f c) tl) as [b|] eqn:Eb; [|done]. simpl. intros [= <-].
        destruct (IH _ _ Ea) as (t & Ht & Hrt & Hft). destruct (IHl _ eq_refl) as (kids & ? & ? & ?).
        exists (t :: kids). split; [by constructor|]. simpl. by subst. }
    exists (TNode h kids). split; [|split; [done|simpl; by rewrite Hf]].
    econstructor; [done| |done]. by rewrite Hr.
Qed.

Lemma commit_list_is_Some (rec : hash → option (list hash)) cs :
  Forall (λ x, is_Some (rec x)) cs → is_Some (commit_list rec cs).
Proof.
  induction 1 as [|x tl [a Ha] _ [b Hb]]; simpl; [done|]. rewrite Ha, Hb. done.
Qed.

Lemma commit_seq_uncached fuel c h : c !! h = None → commit_seq fuel c h = Some [].
Proof. intros H. destruct fuel; simpl; by rewrite H. Qed.

(* with no reference cycle among dirty nodes the walk never needs more depth than there are dirty nodes *)
Lemma commit_terminates c r : acyclic c → is_Some (commit_seq (S (size c)) c r).
Proof.
  intros (rank & Hrank).
  set (below h := filter (λ x, rank x < rank h) (dom c) : gset hash).
  assert (∀ (fu : nat) h, size (below h) < fu → is_Some (commit_seq fu c h)) as H.
  { induction fu as [|fu IH]; intros h Hn; [lia|]. simpl.
    destruct (c !! h) as [cs|] eqn:E; [|done].
    destruct (commit_list_is_Some (commit_seq fu c) (tracked cs)) as [sub Hs]; [|by rewrite Hs].
    apply Forall_forall. intros x Hx. destruct (c !! x) as [csx|] eqn:Ex.
    2:{ rewrite commit_seq_uncached; done. }
    assert (rank x < rank h) as Hlt by (eapply Hrank; eauto).
    apply IH. assert (below x ⊂ below h) as Hsub; [|apply subset_size in Hsub; lia].
    split.
    - intros y. unfold below. rewrite !elem_of_filter. intros [? ?]. split; [lia|done].
    - intros Hss. assert (x ∈ below x) as Hxx.
      { apply Hss. unfold below. apply elem_of_filter. split; [done|]. apply elem_of_dom. eauto. }
      unfold below in Hxx. apply elem_of_filter in Hxx as [? _]. lia. }
  apply H. rewrite <- size_dom. apply Nat.lt_succ_r, subseteq_size.
  intros y. unfold below. rewrite elem_of_filter. tauto.
Qed.

(* ---------- resolvability ---------- *)
(* headline 2: on a closed disk a present top node makes the whole root resolvable *)
Lemma top_implies_all d r : closed d → is_Some (d !! r) → resolvable d r.
Proof.
  rewrite closed_spec. intros Hd Hr h Hreach. induction Hreach as [r|r cs x h Hrc Hx _ IH]; [done|].
  apply IH. eauto.
Qed.

Lemma reach_weaken d d' r h : d ⊆ d' → reach d r h → reach d' r h.
Proof.
  intros Hsub. induction 1 as [r|r cs x h Hr Hx _ IH]; [constructor|].
  econstructor; [|done..]. by eapply lookup_weaken.
Qed.

Lemma reach_strengthen d d' r h : d ⊆ d' → resolvable d r → reach d' r h → reach d r h.
Proof.
  intros Hsub Hres Hreach. induction Hreach as [r|r cs x h Hr Hx _ IH]; [constructor|].
  destruct (Hres r (reach_here _ _)) as [cs0 Hr0].
  pose proof (lookup_weaken _ _ _ _ Hr0 Hsub) as Hr1. rewrite Hr in Hr1. injection Hr1 as ->.
  econstructor; [done..|]. apply IH. intros y Hy. apply Hres. by econstructor.
Qed.

(* headline 3: a disk that only grows keeps every resolvable root resolvable, with the same nodes *)
Lemma grow_keeps_root d d' r :
  d ⊆ d' → resolvable d r →
  resolvable d' r ∧ (∀ h, reach d r h → d' !! h = d !! h) ∧ (∀ h, reach d' r h ↔ reach d r h).
Proof.
  intros Hsub Hres.
  assert (∀ h, reach d r h → d' !! h = d !! h) as Hsame.
  { intros h Hh. destruct (Hres h Hh) as [cs Hcs]. rewrite Hcs. by eapply lookup_weaken. }
  split; [|split; [done|]].
  - intros h Hh. apply (reach_strengthen _ _ _ _ Hsub Hres) in Hh.
    rewrite Hsame by done. by apply Hres.
  - intros h. split; [by apply reach_strengthen|by apply reach_weaken].
Qed.

Lemma old_roots_kept s r seq k :
  consistent s → resolvable (disk s) r →
  resolvable (crash s seq k) r
  ∧ (∀ h, reach (disk s) r h → crash s seq k !! h = disk s !! h)
  ∧ (∀ h, reach (crash s seq k) r h ↔ reach (disk s) r h).
Proof. intros Hc Hr. apply grow_keeps_root; [|done]. by apply put_all_mono. Qed.

(* headline 4: after the whole sequence the root is on disk, resolvable, and everything the
   pre-commit view reached from it is on disk unchanged *)
Lemma commit_complete s r seq :
  consistent s → cache_closed s → closed (disk s) → run (cache s) r seq → is_Some (view s !! r) →
  let d' := crash s seq (length seq) in
  is_Some (d' !! r) ∧ closed d' ∧ resolvable d' r ∧ (∀ h, reach (view s) r h → d' !! h = view s !! h).
Proof.
  intros Hc Hcc Hd Hrun Hv d'.
  assert (closed d') as Hcl by (by eapply prefix_closed).
  assert (is_Some (d' !! r)) as Hr.
  { unfold d', crash. rewrite firstn_all. destruct Hrun as (t & Hok & <- & <-).
    destruct (cache s !! troot t) as [n|] eqn:E.
    - erewrite put_all_lookup_in; [done| |done]. by eapply flatten_root_in.
    - apply put_all_is_Some. rewrite view_lookup, E in Hv. done. }
  split; [done|]. split; [done|]. split; [by apply top_implies_all|].
  assert (∀ r0 h, reach (view s) r0 h → is_Some (d' !! r0) → d' !! h = view s !! h) as Hgen; [|eauto].
  clear Hrun Hv Hr r. intros r h Hreach. induction Hreach as [r|r cs x h Hrc Hx _ IH]; intros Hr.
  - destruct Hr as [a Ha]. rewrite Ha. symmetry. unfold d', crash in Ha. by eapply put_all_view.
  - apply IH. destruct Hr as [a Ha].
    assert (view s !! r = Some a) as Hva by (unfold d', crash in Ha; by eapply put_all_view).
    rewrite Hrc in Hva. injection Hva as ->. rewrite closed_spec in Hcl. eauto.
Qed.

(* ---------- invariant across commits ---------- *)
Lemma uncache_lookup c seq x :
  uncache c seq !! x = if decide (x ∈ seq) then None else c !! x.
Proof.
  induction seq as [|h tl IH]; simpl; [done|].
  destruct (decide (x = h)) as [->|Hne].
  - rewrite lookup_delete. rewrite decide_True; [done|by left].
  - rewrite lookup_delete_ne by done. rewrite IH.
    destruct (decide (x ∈ tl)); [rewrite decide_True; [done|by right]|].
    rewrite decide_False; [done|]. rewrite elem_of_cons. tauto.
Qed.

Lemma commit_preserves_inv s r seq :
  inv s → run (cache s) r seq → inv (after_commit s seq).
Proof.
  intros (Hd & Hcc & Hc) Hrun. unfold inv, after_commit. simpl. split; [|split].
  - pose proof (prefix_closed s r seq Hrun Hcc Hd (length seq)) as H.
    unfold crash in H. by rewrite firstn_all in H.
  - apply cache_closed_spec. simpl. intros h n x Hh Hx.
    rewrite uncache_lookup in Hh. destruct (decide (h ∈ seq)); [done|].
    rewrite cache_closed_spec in Hcc. rewrite uncache_lookup.
    destruct (decide (x ∈ seq)) as [Hin|Hn].
    + left. destruct Hrun as (t & Hok & _ & <-).
      destruct (flatten_all_cached _ _ _ Hok Hin) as [nx Hnx].
      erewrite put_all_lookup_in; done.
    + destruct (Hcc h n x Hh Hx) as [H|H]; [left|by right]. by apply put_all_is_Some.
  - apply consistent_spec. simpl. intros h a n Ha Hn.
    rewrite uncache_lookup in Hn. destruct (decide (h ∈ seq)); [done|].
    rewrite put_all_lookup_out in Ha by auto. rewrite consistent_spec in Hc. eauto.
Qed.

Lemma insert_okb_sound s h n : insert_okb s h n = true → insert_ok s h n.
Proof.
  unfold insert_okb, insert_ok. rewrite andb_true_iff. intros [H1 H2]. split.
  - apply Forall_forall. intros x Hx. rewrite forallb_forall in H1.
    apply elem_of_list_In in Hx. specialize (H1 x Hx).
    apply orb_true_iff in H1 as [H1|H1]; [left; by apply bool_decide_eq_true in H1|right].
    apply andb_true_iff in H1 as [Ha Hb]. split; by eapply bool_decide_eq_true.
  - intros a Ha. rewrite Ha in H2. by apply bool_decide_eq_true in H2.
Qed.

Lemma insert_preserves_inv s h n : inv s → insert_ok s h n → inv (cache_insert s h n).
Proof.
  intros (Hd & Hcc & Hc) [Hrefs Hsame]. unfold cache_insert.
  destruct (cache s !! h) as [n0|] eqn:E; [done|].
  unfold inv. simpl. split; [done|split].
  - apply cache_closed_spec. simpl. intros h' n' x Hh' Hx.
    destruct (decide (h' = h)) as [->|Hne].
    + rewrite lookup_insert in Hh'. injection Hh' as <-.
      rewrite Forall_forall in Hrefs. destruct (Hrefs x Hx) as [|[? ?]]; [by left|right].
      split; [done|]. rewrite lookup_insert_is_Some'. auto.
    + rewrite lookup_insert_ne in Hh' by done. rewrite cache_closed_spec in Hcc.
      destruct (Hcc h' n' x Hh' Hx) as [|[? ?]]; [by left|right].
      split; [done|]. rewrite lookup_insert_is_Some'. auto.
  - apply consistent_spec. simpl. intros h' a n' Ha Hn'.
    destruct (decide (h' = h)) as [->|Hne].
    + rewrite lookup_insert in Hn'. injection Hn' as <-. apply Hsame.
      rewrite view_lookup, E. done.
    + rewrite lookup_insert_ne in Hn' by done. rewrite consistent_spec in Hc. eauto.
Qed.

Lemma reference_preserves_inv s again child parent : inv s → inv (cache_reference s again child parent).
Proof.
  intros (Hd & Hcc & Hc). unfold cache_reference.
  destruct (cache s !! parent) as [n|] eqn:Ep; [|done].
  destruct (cache s !! child) as [nc|] eqn:Ec; [|done].
  destruct (again || bool_decide (child ∉ tracked n)); [|done].
  unfold inv. simpl. split; [done|split].
  - apply cache_closed_spec. simpl. intros h' n' x Hh' Hx.
    rewrite cache_closed_spec in Hcc.
    destruct (decide (h' = parent)) as [->|Hne].
    + rewrite lookup_insert in Hh'. injection Hh' as <-. simpl in *.
      destruct (Hcc parent n x Ep Hx) as [|[? ?]]; [by left|right].
      split; [by right|]. rewrite lookup_insert_is_Some'. auto.
    + rewrite lookup_insert_ne in Hh' by done.
      destruct (Hcc h' n' x Hh' Hx) as [|[? ?]]; [by left|right].
      split; [done|]. rewrite lookup_insert_is_Some'. auto.
  - apply consistent_spec. simpl. intros h' a n' Ha Hn'.
    rewrite consistent_spec in Hc.
    destruct (decide (h' = parent)) as [->|Hne].
    + rewrite lookup_insert in Hn'. injection Hn' as <-. simpl. eauto.
    + rewrite lookup_insert_ne in Hn' by done. eauto.
Qed.

(* a Write error in the middle of a commit: k puts are on disk, nothing was uncached *)
Lemma fail_preserves_inv s r seq k :
  inv s → run (cache s) r seq → inv (Store (crash s seq k) (cache s)).
Proof.
  intros (Hd & Hcc & Hc) Hrun. unfold inv. simpl. split; [by eapply prefix_closed|split].
  - apply cache_closed_spec. simpl. intros h n x Hh Hx. rewrite cache_closed_spec in Hcc.
    destruct (Hcc h n x Hh Hx) as [H|H]; [left|by right]. by apply put_all_is_Some.
  - apply consistent_spec. simpl. intros h a n Ha Hn.
    apply (put_all_view s) in Ha; [|done]. rewrite view_lookup, Hn in Ha. congruence.
Qed.

(* a crash in the middle of a commit: k puts are on disk, the dirty cache is lost *)
Lemma crash_preserves_inv s r seq k :
  inv s → run (cache s) r seq → inv (Store (crash s seq k) ∅).
Proof.
  intros (Hd & Hcc & Hc) Hrun. unfold inv. simpl. split; [by eapply prefix_closed|split].
  - apply cache_closed_spec. simpl. intros h n x Hh. by rewrite lookup_empty in Hh.
  - apply consistent_spec. simpl. intros h a n _ Hn. by rewrite lookup_empty in Hn.
Qed.

Lemma inv_empty : inv store0.
Proof.
  split; [|split].
  - apply closed_spec. simpl. intros h cs x H. by rewrite lookup_empty in H.
  - apply cache_closed_spec. simpl. intros h cs x H. by rewrite lookup_empty in H.
  - apply consistent_spec. simpl. intros h a b H. by rewrite lookup_empty in H.
Qed.

Lemma step_inv s o : inv s → op_ok s o → inv (step s o).
Proof.
  intros Hi Ho. destruct o; simpl in *.
  - by apply insert_preserves_inv.
  - by apply reference_preserves_inv.
  - by eapply commit_preserves_inv.
  - by eapply fail_preserves_inv.
  - by eapply crash_preserves_inv.
Qed.

Lemma hist_inv s ops : inv s → hist_ok s ops → inv (foldl step s ops).
Proof.
  revert s. induction ops as [|o tl IH]; intros s Hi Hok; [done|]. destruct Hok as [Ho Hok].
  simpl. apply IH; [|done]. by apply step_inv.
Qed.

Lemma hist_ok_app s ops ops' : hist_ok s (ops ++ ops') ↔ hist_ok s ops ∧ hist_ok (foldl step s ops) ops'.
Proof.
  revert s. induction ops as [|o ops IH]; intros s; simpl; [tauto|]. rewrite IH. tauto.
Qed.

(* the disk only grows, and never changes a stored blob, along any history *)
Lemma step_disk_mono s o : inv s → disk s ⊆ disk (step s o).
Proof.
  intros (Hd & Hcc & Hc). destruct o; simpl.
  - unfold cache_insert. by destruct (cache s !! h).
  - unfold cache_reference. destruct (cache s !! parent); [|done].
    destruct (cache s !! child); [|done]. by destruct (again || _).
  - by apply put_all_mono.
  - by apply put_all_mono.
  - by apply put_all_mono.
Qed.

Lemma hist_disk_mono s ops : inv s → hist_ok s ops → disk s ⊆ disk (foldl step s ops).
Proof.
  revert s. induction ops as [|o tl IH]; intros s Hi Hok; [done|]. destruct Hok as [Ho Hok].
  simpl. etrans; [by apply step_disk_mono|]. apply IH; [by apply step_inv|done].
Qed.

(* For every history, every commit in it, every crash point of that commit: the disk is closed,
   hence every root whose top node is present is resolvable, and every root resolvable before the
   commit is still resolvable with the same nodes. *)
Lemma history_crash_safe ops1 r seq k :
  let s := foldl step store0 ops1 in
  hist_ok store0 ops1 → run (cache s) r seq →
  closed (crash s seq k)
  ∧ (∀ r', is_Some (crash s seq k !! r') → resolvable (crash s seq k) r')
  ∧ (∀ r', resolvable (disk s) r' →
       resolvable (crash s seq k) r' ∧ ∀ h, reach (disk s) r' h → crash s seq k !! h = disk s !! h).
Proof.
  intros s Hok Hrun. destruct (hist_inv _ _ inv_empty Hok) as (Hd & Hcc & Hc). fold s in Hd, Hcc, Hc.
  assert (closed (crash s seq k)) as Hcl by (by eapply prefix_closed).
  split; [done|]. split.
  - intros r' Hr'. by apply top_implies_all.
  - intros r' Hr'. destruct (old_roots_kept s r' seq k Hc Hr') as (? & ? & _). done.
Qed.

(* A root that is resolvable on disk at some point of a history (in particular: was committed) is
   resolvable, with the same nodes holding the same blobs, after any continuation of the history -
   further commits, failed writes, crashes and restarts included. *)
Lemma durable_forever ops1 ops2 r :
  let s1 := foldl step store0 ops1 in
  let s2 := foldl step store0 (ops1 ++ ops2) in
  hist_ok store0 (ops1 ++ ops2) → resolvable (disk s1) r →
  resolvable (disk s2) r
  ∧ (∀ h, reach (disk s1) r h → disk s2 !! h = disk s1 !! h)
  ∧ (∀ h, reach (disk s2) r h ↔ reach (disk s1) r h).
Proof.
  intros s1 s2 Hok Hr. apply hist_ok_app in Hok as [Hok1 Hok2].
  apply grow_keeps_root; [|done]. unfold s2. rewrite foldl_app. fold s1.
  apply hist_disk_mono; [|done]. unfold s1. by apply hist_inv; [apply inv_empty|].
Qed.

(* Commit(r) ran to the end ("reported success") at some point of a history: whatever happens
   afterwards, r is on disk and resolvable from the disk alone, and every node the pre-commit view
   (dirty cache over disk) reached from r is on disk with the same blob. *)
Lemma committed_root_survives ops1 r seq ops2 :
  let s := foldl step store0 ops1 in
  let s2 := foldl step store0 (ops1 ++ OCommit r seq :: ops2) in
  hist_ok store0 (ops1 ++ OCommit r seq :: ops2) → is_Some (view s !! r) →
  is_Some (disk s2 !! r) ∧ closed (disk s2) ∧ resolvable (disk s2) r
  ∧ (∀ h, reach (view s) r h → disk s2 !! h = view s !! h).
Proof.
  intros s s2 Hok Hv.
  assert (hist_ok store0 ((ops1 ++ [OCommit r seq]) ++ ops2)) as Hok' by (by rewrite <- app_assoc).
  pose proof Hok' as Hok''. apply hist_ok_app in Hok'' as [Hok1 _].
  apply hist_ok_app in Hok1 as [Hok0 [Hrun _]]. fold s in Hrun. simpl in Hrun.
  destruct (hist_inv _ _ inv_empty Hok0) as (Hd & Hcc & Hc). fold s in Hd, Hcc, Hc.
  destruct (commit_complete s r seq Hc Hcc Hd Hrun Hv) as (Hr & Hcl & Hres & Hsame).
  assert (disk (foldl step store0 (ops1 ++ [OCommit r seq])) = crash s seq (length seq)) as Hd1.
  { rewrite foldl_app. fold s. simpl. unfold crash. by rewrite firstn_all. }
  destruct (durable_forever (ops1 ++ [OCommit r seq]) ops2 r Hok') as (Hres2 & Hsame2 & _).
  { by rewrite Hd1. }
  assert (foldl step store0 ((ops1 ++ [OCommit r seq]) ++ ops2) = s2) as Es2
    by (unfold s2; by rewrite <- app_assoc).
  rewrite Es2, Hd1 in *.
  destruct (hist_inv _ _ inv_empty Hok) as (Hd2 & _). fold s2 in Hd2.
  split; [by apply Hres2; constructor|]. split; [done|]. split; [done|].
  intros h Hh. rewrite <- Hsame by done. apply Hsame2.
  (* reach in the view from r = reach in the committed disk from r *)
  clear Hsame2 Hres2 Hd2 Es2 Hok Hok' Hok0 Hd1 s2.
  assert (∀ r0 h, reach (view s) r0 h → is_Some (crash s seq (length seq) !! r0) →
                  reach (crash s seq (length seq)) r0 h) as Hgen; [|eauto].
  clear Hh h Hr Hres Hv. intros r0 h Hreach. induction Hreach as [r0|r0 cs x h Hrc Hx _ IH]; intros Hr0.
  - constructor.
  - destruct Hr0 as [a Ha].
    assert (view s !! r0 = Some a) as Hva by (unfold crash in Ha; by eapply put_all_view).
    rewrite Hrc in Hva. injection Hva as ->.
    econstructor; [done..|]. apply IH. rewrite closed_spec in Hcl. eauto.
Qed.
End proofs.
