(* C03 model: the trie node store of src/storage/trie/database.go seen as a graph.

   A hash stands for the blob stored under it; the only thing the durability property needs to
   know about a blob is which other hashes it refers to (hash children inside a trie node, plus
   for an account leaf its storage root and its code hash - the edges AccountDB.Commit registers
   with TrieDB().Reference in its leaf callback).

     disk  : hash -> references of the blob on disk           (xdb.Database under NodeDatabase.diskdb)
     cache : hash -> dirty cached node                          (NodeDatabase.nodes), with
               tracked = childs(): the hash children gathered from the collapsed node plus the
                         external children registered by Reference (only registered when the child
                         is itself dirty at that moment: "node pulled from disk, skip"),
               refs    = the references of the blob node.rlp() that a Put writes.

   [commit_seq] is NodeDatabase.commit: a post-order walk over the dirty cache which skips hashes
   that are not cached ("previously committed node") and has NO visited set, so a shared subtree is
   put once per path that reaches it.  childs() ranges over a Go map for the external references,
   so the visiting order of children is not fixed: [run] is the set of all put sequences commit may
   produce (any order of the children at every visit), presented by a visit tree; [commit_seq] is
   the member of that set which visits children in list order.
   Batches are any segmentation of the put sequence ([batch_run] is the one the code produces:
   flush when ValueSize >= IdealBatchSize, one final Write); a crash leaves disk + a prefix. *)
From stdpp Require Import gmap.

(* A hash is any countable type: small numbers in the correspondence run (Harness.v), 32-byte strings
   in the concrete layer (Concrete.v). *)
Section model.
Context {K : Type} `{!EqDecision K, !Countable K}.
Notation hash := K (only parsing).
Notation nodes := (gmap hash (list hash)) (only parsing).

Record dnode := DNode { tracked : list hash; refs : list hash }.
Notation dirty := (gmap hash dnode) (only parsing).

Record store := Store { disk : nodes; cache : dirty }.

(* NodeDatabase.node(): dirty cache first, then disk *)
Definition view (s : store) : nodes := (refs <$> cache s) ∪ disk s.

(* ---------- NodeDatabase.commit ---------- *)
(* for _, child := range node.childs() { db.commit(child, batch) } *)
Fixpoint commit_list (rec : hash → option (list hash)) (cs : list hash) : option (list hash) :=
  match cs with
  | [] => Some []
  | x :: tl => a ← rec x; b ← commit_list rec tl; Some (a ++ b)
  end.

(* [None] = out of fuel (model artefact; excluded by the theorems, see commit_terminates). *)
Fixpoint commit_seq (fuel : nat) (c : dirty) (h : hash) : option (list hash) :=
  match c !! h with
  | None => Some []                       (* node, ok := db.nodes[hash]; if !ok { return nil } *)
  | Some n =>
    match fuel with
    | O => None
    | S f => sub ← commit_list (commit_seq f c) (tracked n); Some (sub ++ [h])   (* childs(), then batch.Put(hash) *)
    end
  end.

(* One batch.Put(h, node.rlp()): the blob of the cached node reaches the disk with its references. *)
Definition put (c : dirty) (d : nodes) (h : hash) : nodes :=
  match c !! h with Some n => <[h := refs n]> d | None => d end.
Definition put_all (c : dirty) (d : nodes) (seq : list hash) : nodes := foldl (put c) d seq.

(* The disk after a crash that let the first k puts through. *)
Definition crash (s : store) (seq : list hash) (k : nat) : nodes :=
  put_all (cache s) (disk s) (take k seq).

(* commit(): after every Put, if batch.ValueSize() >= IdealBatchSize { Write; Reset };
   Commit(): one final batch.Write() (possibly of an empty batch). *)
Fixpoint batch_run (limit : N) (size : hash → N) (seq cur : list hash) (acc : N) : list (list hash) :=
  match seq with
  | [] => [cur]
  | h :: tl =>
    let cur' := cur ++ [h] in
    let acc' := (acc + size h)%N in
    if (limit <=? acc')%N then cur' :: batch_run limit size tl [] 0%N
    else batch_run limit size tl cur' acc'
  end.

(* NodeDatabase.uncache after the last Write succeeded: the same walk, deleting what it visits. *)
Definition uncache (c : dirty) (seq : list hash) : dirty := foldr delete c seq.
Definition after_commit (s : store) (seq : list hash) : store :=
  Store (put_all (cache s) (disk s) seq) (uncache (cache s) seq).

(* ---------- visit trees: all schedules of the walk ---------- *)
Inductive tree := TSkip (h : hash) | TNode (h : hash) (kids : list tree).
Definition troot (t : tree) : hash := match t with TSkip h | TNode h _ => h end.
Fixpoint flatten (t : tree) : list hash :=
  match t with
  | TSkip _ => []
  | TNode h kids => concat (map flatten kids) ++ [h]
  end.

Inductive tree_ok (c : dirty) : tree → Prop :=
| ok_skip h : c !! h = None → tree_ok c (TSkip h)
| ok_node h n kids :
    c !! h = Some n → map troot kids ≡ₚ tracked n → Forall (tree_ok c) kids → tree_ok c (TNode h kids).

Fixpoint tree_okb (c : dirty) (t : tree) : bool :=
  match t with
  | TSkip h => bool_decide (c !! h = None)
  | TNode h kids =>
    match c !! h with
    | Some n => bool_decide (map troot kids ≡ₚ tracked n)
    | None => false
    end && forallb (tree_okb c) kids
  end.

(* seq is a put sequence that commit(r) can produce on dirty cache c *)
Definition run (c : dirty) (r : hash) (seq : list hash) : Prop :=
  ∃ t, tree_ok c t ∧ troot t = r ∧ flatten t = seq.

(* ---------- predicates of the property ---------- *)
(* every stored node's references are stored *)
Definition closed (d : nodes) : Prop :=
  map_Forall (λ _ cs, Forall (λ x, is_Some (d !! x)) cs) d.
Global Instance closed_dec d : Decision (closed d) := _.

(* every reference inside a dirty node's blob is already on disk, or is a tracked child that is
   itself dirty (so the walk will write it first) *)
Definition cache_closed (s : store) : Prop :=
  map_Forall (λ _ n, Forall (λ x, is_Some (disk s !! x) ∨ (x ∈ tracked n ∧ is_Some (cache s !! x))) (refs n))
             (cache s).
Global Instance cache_closed_dec s : Decision (cache_closed s) := _.

(* hash addressing: the same hash never names two different blobs *)
Definition consistent (s : store) : Prop :=
  map_Forall (λ h a, match cache s !! h with Some n => a = refs n | None => True end) (disk s).
Global Instance consistent_dec s : Decision (consistent s).
Proof. apply map_Forall_dec. intros h a. destruct (cache s !! h); apply _. Defined.

(* hash addressing also rules out reference cycles (a blob contains its children's hashes) *)
Definition acyclic (c : dirty) : Prop :=
  ∃ rank : hash → nat, ∀ h n x, c !! h = Some n → x ∈ tracked n → is_Some (c !! x) → rank x < rank h.

Inductive reach (d : nodes) : hash → hash → Prop :=
| reach_here r : reach d r r
| reach_step r cs x h : d !! r = Some cs → x ∈ cs → reach d x h → reach d r h.

(* opening r from d alone never meets a missing node *)
Definition resolvable (d : nodes) (r : hash) : Prop := ∀ h, reach d r h → is_Some (d !! h).

(* put sequence in which every node's references are present when it is put *)
Fixpoint ordered (c : dirty) (d : nodes) (seq : list hash) : Prop :=
  match seq with
  | [] => True
  | h :: tl => (∃ n, c !! h = Some n ∧ Forall (λ x, is_Some (d !! x)) (refs n)) ∧ ordered c (put c d h) tl
  end.

Fixpoint orderedb (c : dirty) (d : nodes) (seq : list hash) : bool :=
  match seq with
  | [] => true
  | h :: tl =>
    match c !! h with
    | Some n => forallb (λ x, bool_decide (is_Some (d !! x))) (refs n)
    | None => false
    end && orderedb c (put c d h) tl
  end.

Definition inv (s : store) : Prop := closed (disk s) ∧ cache_closed s ∧ consistent s.

(* ---------- histories of the node store ---------- *)
(* hasher.store -> NodeDatabase.insert (skipped when the hash is already dirty), immediately followed
   by the leaf callback's Reference calls for that node; InsertBlob for code.  The new dirty node's
   blob references must be on disk or tracked dirty children; hash addressing: if the hash is already
   known, it names the same blob. *)
Definition insert_ok (s : store) (h : hash) (n : dnode) : Prop :=
  Forall (λ x, is_Some (disk s !! x) ∨ (x ∈ tracked n ∧ is_Some (cache s !! x))) (refs n)
  ∧ (∀ a, view s !! h = Some a → a = refs n).
Definition insert_okb (s : store) (h : hash) (n : dnode) : bool :=
  forallb (λ x, bool_decide (is_Some (disk s !! x))
                || (bool_decide (x ∈ tracked n) && bool_decide (is_Some (cache s !! x)))) (refs n)
  && match view s !! h with Some a => bool_decide (a = refs n) | None => true end.
Definition cache_insert (s : store) (h : hash) (n : dnode) : store :=
  match cache s !! h with
  | Some _ => s                                             (* "If the node's already cached, skip" *)
  | None => Store (disk s) (<[h := n]> (cache s))
  end.

(* NodeDatabase.reference(child, parent) on a parent that is already dirty: a dirty child that is
   not yet an external child becomes tracked; anything else is skipped ("node pulled from disk").
   The code tests membership in the external-children map only, so a child that is also a hash
   child inside the node is added again and childs() lists it twice: [again] = true. *)
Definition cache_reference (s : store) (again : bool) (child parent : hash) : store :=
  match cache s !! parent, cache s !! child with
  | Some n, Some _ =>
    if again || bool_decide (child ∉ tracked n)
    then Store (disk s) (<[parent := DNode (child :: tracked n) (refs n)]> (cache s))
    else s
  | _, _ => s
  end.

(* What can happen to the store:
     OInsert / OReference  trie commits filling the dirty cache,
     OCommit r seq         NodeDatabase.Commit(r) ran to the end: all puts on disk, then uncache,
     OFail r seq k         a batch.Write returned an error after k puts had reached the disk:
                           Commit returns the error, nothing is uncached, the process goes on,
     OCrash r seq k        the process died after k puts had reached the disk: the dirty cache is
                           gone, the node restarts on the disk as it is. *)
Inductive op :=
| OInsert (h : hash) (n : dnode)
| OReference (again : bool) (child parent : hash)
| OCommit (r : hash) (seq : list hash)
| OFail (r : hash) (seq : list hash) (k : nat)
| OCrash (r : hash) (seq : list hash) (k : nat).
Definition op_ok (s : store) (o : op) : Prop :=
  match o with
  | OInsert h n => insert_ok s h n
  | OReference _ _ _ => True
  | OCommit r seq | OFail r seq _ | OCrash r seq _ => run (cache s) r seq
  end.
Definition step (s : store) (o : op) : store :=
  match o with
  | OInsert h n => cache_insert s h n
  | OReference again c p => cache_reference s again c p
  | OCommit r seq => after_commit s seq
  | OFail r seq k => Store (crash s seq k) (cache s)
  | OCrash r seq k => Store (crash s seq k) ∅
  end.
Fixpoint hist_ok (s : store) (ops : list op) : Prop :=
  match ops with [] => True | o :: tl => op_ok s o ∧ hist_ok (step s o) tl end.
End model.
