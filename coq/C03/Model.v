(* C03 model: the trie node store of src/storage/trie/database.go seen as a graph.

   A hash stands for the blob stored under it; the only thing the durability property needs to
   know about a blob is which other hashes it refers to (hash children inside a trie node, plus
   for an account leaf its storage root and its code hash - the edges AccountDB.Commit registers
   with TrieDB().Reference in its leaf callback).

     disk  : hash -> references of the blob on disk           (xdb.Database under NodeDatabase.diskdb)
     cache : hash -> childs() of the dirty cached node         (NodeDatabase.nodes)

   [commit_seq] is NodeDatabase.commit: a post-order walk over the dirty cache which skips hashes
   that are not cached ("previously committed node") and has NO visited set, so a shared subtree is
   put once per path that reaches it.  childs() ranges over a Go map for the external references,
   so the visiting order of children is not fixed: [run] is the set of all put sequences commit may
   produce (any order of the children at every visit), presented by a visit tree; [commit_seq] is
   the member of that set which visits children in list order.
   Batches are any segmentation of the put sequence ([batch_run] is the one the code produces:
   flush when ValueSize >= IdealBatchSize, one final Write); a crash leaves disk + a prefix. *)
From stdpp Require Import gmap.

Definition hash := N.
Definition nodes := gmap hash (list hash).

Record store := Store { disk : nodes; cache : nodes }.

(* NodeDatabase.node(): dirty cache first, then disk *)
Definition view (s : store) : nodes := cache s ∪ disk s.

(* ---------- NodeDatabase.commit ---------- *)
(* for _, child := range node.childs() { db.commit(child, batch) } *)
Fixpoint commit_list (rec : hash → option (list hash)) (cs : list hash) : option (list hash) :=
  match cs with
  | [] => Some []
  | x :: tl => a ← rec x; b ← commit_list rec tl; Some (a ++ b)
  end.

(* [None] = out of fuel (model artefact; excluded by the theorems, see commit_terminates). *)
Fixpoint commit_seq (fuel : nat) (c : nodes) (h : hash) : option (list hash) :=
  match c !! h with
  | None => Some []                       (* node, ok := db.nodes[hash]; if !ok { return nil } *)
  | Some cs =>
    match fuel with
    | O => None
    | S f => sub ← commit_list (commit_seq f c) cs; Some (sub ++ [h])   (* children, then batch.Put(hash) *)
    end
  end.

(* One batch.Put(h, node.rlp()): the blob of the cached node reaches the disk with its references. *)
Definition put (c d : nodes) (h : hash) : nodes :=
  match c !! h with Some cs => <[h := cs]> d | None => d end.
Definition put_all (c d : nodes) (seq : list hash) : nodes := foldl (put c) d seq.

(* The disk after a crash that let the first k puts through. *)
Definition crash (s : store) (seq : list hash) (k : nat) : nodes :=
  put_all (cache s) (disk s) (take k seq).

(* commit(): after every Put, if batch.ValueSize() >= IdealBatchSize { Write; Reset };
   Commit(): one final batch.Write() (possibly of an empty batch). *)
Fixpoint batch_run (limit : N) (size : hash → N) (seq cur : list hash) (acc : N) : list (list hash) :=
  match seq with
  | [] => [cur]
  | h :: tl =>
    let cur' := cur ++ [h] in
    let acc' := (acc + size h)%N in
    if (limit <=? acc')%N then cur' :: batch_run limit size tl [] 0%N
    else batch_run limit size tl cur' acc'
  end.

(* NodeDatabase.uncache after the last Write succeeded: the same walk, deleting what it visits. *)
Definition uncache (c : nodes) (seq : list hash) : nodes := foldr delete c seq.
Definition after_commit (s : store) (seq : list hash) : store :=
  Store (put_all (cache s) (disk s) seq) (uncache (cache s) seq).

(* ---------- visit trees: all schedules of the walk ---------- *)
Inductive tree := TSkip (h : hash) | TNode (h : hash) (kids : list tree).
Definition troot (t : tree) : hash := match t with TSkip h | TNode h _ => h end.
Fixpoint flatten (t : tree) : list hash :=
  match t with
  | TSkip _ => []
  | TNode h kids => concat (map flatten kids) ++ [h]
  end.

Inductive tree_ok (c : nodes) : tree → Prop :=
| ok_skip h : c !! h = None → tree_ok c (TSkip h)
| ok_node h cs kids :
    c !! h = Some cs → map troot kids ≡ₚ cs → Forall (tree_ok c) kids → tree_ok c (TNode h kids).

Fixpoint tree_okb (c : nodes) (t : tree) : bool :=
  match t with
  | TSkip h => bool_decide (c !! h = None)
  | TNode h kids =>
    match c !! h with
    | Some cs => bool_decide (map troot kids ≡ₚ cs)
    | None => false
    end && forallb (tree_okb c) kids
  end.

(* seq is a put sequence that commit(r) can produce on dirty cache c *)
Definition run (c : nodes) (r : hash) (seq : list hash) : Prop :=
  ∃ t, tree_ok c t ∧ troot t = r ∧ flatten t = seq.

(* ---------- predicates of the property ---------- *)
(* every stored node's references are stored *)
Definition closed (d : nodes) : Prop :=
  map_Forall (λ _ cs, Forall (λ x, is_Some (d !! x)) cs) d.
Global Instance closed_dec d : Decision (closed d) := _.

(* every reference of a dirty node is dirty or already on disk *)
Definition cache_closed (s : store) : Prop :=
  map_Forall (λ _ cs, Forall (λ x, is_Some (cache s !! x) ∨ is_Some (disk s !! x)) cs) (cache s).
Global Instance cache_closed_dec s : Decision (cache_closed s) := _.

(* hash addressing: the same hash never names two different blobs *)
Definition consistent (s : store) : Prop :=
  map_Forall (λ h a, match cache s !! h with Some b => a = b | None => True end) (disk s).
Global Instance consistent_dec s : Decision (consistent s).
Proof. apply map_Forall_dec. intros h a. destruct (cache s !! h); apply _. Defined.

(* hash addressing also rules out reference cycles (a blob contains its children's hashes) *)
Definition acyclic (c : nodes) : Prop :=
  ∃ rank : hash → nat, ∀ h cs x, c !! h = Some cs → x ∈ cs → is_Some (c !! x) → rank x < rank h.

Inductive reach (d : nodes) : hash → hash → Prop :=
| reach_here r : reach d r r
| reach_step r cs x h : d !! r = Some cs → x ∈ cs → reach d x h → reach d r h.

(* opening r from d alone never meets a missing node *)
Definition resolvable (d : nodes) (r : hash) : Prop := ∀ h, reach d r h → is_Some (d !! h).

(* put sequence in which every node's references are present when it is put *)
Fixpoint ordered (c d : nodes) (seq : list hash) : Prop :=
  match seq with
  | [] => True
  | h :: tl => (∃ cs, c !! h = Some cs ∧ Forall (λ x, is_Some (d !! x)) cs) ∧ ordered c (put c d h) tl
  end.

Fixpoint orderedb (c d : nodes) (seq : list hash) : bool :=
  match seq with
  | [] => true
  | h :: tl =>
    match c !! h with
    | Some cs => forallb (λ x, bool_decide (is_Some (d !! x))) cs
    | None => false
    end && orderedb c (put c d h) tl
  end.

Definition inv (s : store) : Prop := closed (disk s) ∧ cache_closed s ∧ consistent s.
