(* C03 model, concrete layer: how nodes get into the NodeDatabase.

   The graph model (Model.v) abstracts a blob to the list of hashes it refers to and takes the
   inserts as given (hypothesis insert_ok).  Here hashes are byte strings, blobs are the RLP node
   encodings, and the references of a node are COMPUTED from its encoding by decoding it the way
   node.go decodeNode / database.go gatherChildren do:

     blob_hkids  the 32-byte child references inside the node, embedded (< 32 byte) children
                 followed inline, the value slot of a branch and the value of a leaf never read as
                 a hash                                   (gatherChildren / decodeShort / decodeFull)
     blob_lrefs  what the leaf values inside the node refer to: nothing in a storage trie; in the
                 account trie the storage root and the code hash of the account RLP
                                         (the leaf callback of AccountDB.Commit: TrieDB().Reference)

   trie.Commit is hasher.hash/store: post-order over the dirty part of the trie, every stored node
   is handed to NodeDatabase.insert(hash, blob, node) after its children; clean sub-tries (hashNode or
   cached hash, flags.dirty = false) are not stored again.  [mtree] is exactly that recursion: the
   tree of the node encodings a commit stores, with the clean sub-tries as leaves.  The well-formedness
   [mtree_ok] says the tree is a Merkle tree (the child references decoded from a node's encoding
   are the hashes of its sub-trees), clean sub-tries and the things leaf values refer to are known
   to the database (dirty or on disk) when the commit starts, and every blob belongs to a universe
   [U] of (blob, role) pairs on which the hash function has no collision.

   A concrete history [cop] is any sequence of trie commits of arbitrary such trees, code blob
   inserts, completed NodeDatabase.Commit runs, runs ended by a Write error and runs ended by a crash.
   ConcreteProofs.v shows that every concrete history IS a history of the graph model whose inserts
   satisfy insert_ok - so the crash-safety theorems hold for it with no hypothesis about inserts. *)
From stdpp Require Import gmap.
From V.Base Require Import Hex.
From V.C08 Require Model.
From V.C02 Require Model.
From V.C03 Require Import Model.

Notation item := C08.Model.item.
Notation Str := C08.Model.Str.
Notation Lst := C08.Model.Lst.
Notation rlp := C08.Model.encode.
Notation hsh := (list N) (only parsing).
Notation cstore := (@store (list N) _ _) (only parsing).

(* ---------- references inside a node encoding ---------- *)
(* decodeRef: a 32-byte string is a hash reference, a list is an embedded node, anything else is nil *)
Fixpoint hkids (it : item) : list hsh :=
  match it with
  | Str _ => []
  | Lst l =>
    let ref r := match r with
                 | Str h => if (length h =? 32)%nat then [h] else []
                 | Lst _ => hkids r
                 end in
    match l with
    | [Str kb; v] =>
        if C02.Model.has_term (C02.Model.compact_to_hex kb) then [] (* leaf: the value is not a reference *)
        else ref v                                                   (* extension *)
    | _ =>
        if (length l =? 17)%nat then
          (fix go (i : nat) (l : list item) : list hsh :=
             match l with
             | [] => []
             | x :: tl => (if (i <? 16)%nat then ref x else []) ++ go (S i) tl
             end) 0%nat l
        else []
    end
  end.

(* the leaf values inside a node (its own, and those of embedded children) *)
Fixpoint lvals (it : item) : list (list N) :=
  match it with
  | Str _ => []
  | Lst l =>
    let sub r := match r with Str _ => [] | Lst _ => lvals r end in
    match l with
    | [Str kb; v] =>
        if C02.Model.has_term (C02.Model.compact_to_hex kb)
        then match v with Str val => [val] | Lst _ => [] end
        else sub v
    | _ =>
        if (length l =? 17)%nat then
          (fix go (i : nat) (l : list item) : list (list N) :=
             match l with
             | [] => []
             | x :: tl => (if (i <? 16)%nat then sub x
                           else match x with Str [] => [] | Str val => [val] | Lst _ => [] end) ++ go (S i) tl
             end) 0%nat l
        else []
    end
  end.

Definition blob_item (e : (list N)) : option item :=
  match C08.Model.decode_bytes e with C08.Model.Ok it => Some it | C08.Model.Err _ => None end.
Definition blob_hkids (e : (list N)) : list hsh := from_option hkids [] (blob_item e).
Definition blob_lvals (e : (list N)) : list (list N) := from_option lvals [] (blob_item e).

(* Account{Nonce, Root, NFTSetDefinitionHash} (kind is unexported, hence not encoded): what
   AccountDB.Commit's leaf callback references and what a reader of the account dereferences -
   the storage root unless it is the empty root, the code hash unless it is the empty-code hash *)
Definition acct_refs (empty_root empty_code : (list N)) (v : (list N)) : list hsh :=
  match blob_item v with
  | Some (Lst [Str _; Str root; Str code]) =>
      (if bool_decide (root = empty_root) then [] else [root])
      ++ (if bool_decide (code = empty_code) then [] else [code])
  | _ => []
  end.

Inductive role := RStorage | RAccount | RCode.
Global Instance role_eq_dec : EqDecision role.
Proof. solve_decision. Defined.

Section concrete.
  Variable H : (list N) → (list N).                       (* Keccak-256 *)
  Variables empty_root empty_code : (list N).

  (* the references of a blob stored in a given role *)
  Definition lrefs (r : role) (e : (list N)) : list hsh :=
    match r with
    | RAccount => concat (map (acct_refs empty_root empty_code) (blob_lvals e))
    | _ => []
    end.
  Definition hrefs (r : role) (e : (list N)) : list hsh :=
    match r with RCode => [] | _ => blob_hkids e end.    (* InsertBlob: rawNode, no children *)
  Definition blob_refs (r : role) (e : (list N)) : list hsh := hrefs r e ++ lrefs r e.

  (* NodeDatabase.insert(hash, blob, node) followed by the leaf callback's Reference calls for this
     node: childs() = the hash children gathered from the node + the referenced leaf targets that are
     dirty at that moment ("node pulled from disk, skip") *)
  Definition mk_dnode (s : cstore) (r : role) (e : (list N)) : dnode :=
    DNode (hrefs r e ++ filter (λ x, is_Some (cache s !! x)) (lrefs r e)) (blob_refs r e).
  Definition ins (s : cstore) (r : role) (e : (list N)) : cstore := cache_insert s (H e) (mk_dnode s r e).

  (* ---------- trie.Commit ---------- *)
  Inductive mtree :=
  | MClean (h : hsh)                           (* hashNode, or cached hash with flags.dirty = false *)
  | MNode (blob : (list N)) (subs : list mtree).  (* dirty node: its dirty/clean sub-tries, then store *)
  Definition mhash (t : mtree) : hsh := match t with MClean h => h | MNode e _ => H e end.

  Fixpoint tcommit (r : role) (t : mtree) (s : cstore) : cstore :=
    match t with
    | MClean _ => s
    | MNode e subs => ins (foldl (λ s c, tcommit r c s) s subs) r e
    end.

  (* universe of (blob, role) pairs in play; the only assumption about the hash function *)
  Variable U : (list N) → role → Prop.
  Definition collision_free : Prop :=
    ∀ e r e' r', U e r → U e' r' → H e = H e' → e = e' ∧ r = r'.

  Inductive mtree_ok (r : role) (s : cstore) : mtree → Prop :=
  | ok_clean h : is_Some (view s !! h) → mtree_ok r s (MClean h)
  | ok_node e subs :
      U e r →
      hrefs r e = map mhash subs →                                (* Merkle tree, by decoding e *)
      Forall (λ x, is_Some (view s !! x)) (lrefs r e) →            (* leaf targets already known *)
      Forall (mtree_ok r s) subs →
      mtree_ok r s (MNode e subs).

  (* ---------- concrete histories ---------- *)
  Inductive cop :=
  | CTrie (r : role) (t : mtree)                 (* trie.Commit (storage trie: no callback; account trie: leaf callback) *)
  | CBlob (code : (list N))                         (* TrieDB().InsertBlob(codeHash, code) *)
  | CCommit (root : hsh) (seq : list hsh)        (* NodeDatabase.Commit ran to the end *)
  | CFail (root : hsh) (seq : list hsh) (k : nat)    (* ... ended by a Write error after k puts *)
  | CCrash (root : hsh) (seq : list hsh) (k : nat).  (* ... ended by a crash after k puts *)

  Definition cstep (s : cstore) (o : cop) : cstore :=
    match o with
    | CTrie r t => tcommit r t s
    | CBlob e => ins s RCode e
    | CCommit _ seq => after_commit s seq
    | CFail _ seq k => Store (crash s seq k) (cache s)
    | CCrash _ seq k => Store (crash s seq k) ∅
    end.
  Definition cop_ok (s : cstore) (o : cop) : Prop :=
    match o with
    | CTrie r t => r ≠ RCode ∧ mtree_ok r s t
    | CBlob e => U e RCode
    | CCommit root seq | CFail root seq _ | CCrash root seq _ => run (cache s) root seq
    end.
  Fixpoint chist_ok (s : cstore) (os : list cop) : Prop :=
    match os with [] => True | o :: tl => cop_ok s o ∧ chist_ok (cstep s o) tl end.

  (* every node known to the store is a blob of the universe in its role *)
  Definition uinv (s : cstore) : Prop :=
    ∀ h a, view s !! h = Some a → ∃ e r, U e r ∧ H e = h ∧ a = blob_refs r e.
End concrete.
