(* Evaluation of the C03 model on harness-written cases (correspondence check).

   One case = one generated history of blocks.  For every disk commit (NodeDatabase.Commit) of the
   history the harness recorded, from the real implementation:
     - the dirty set (NodeDatabase.Nodes()) with, per node, the blob size, childs() (through the
       read-only hook VerifChilds) and the references decoded from the blob (hash children; storage
       root and code hash of account leaves),
     - the order of batch.Put calls and the contents of every batch.Write,
     - the dirty set after the commit,
   plus a visit tree it reconstructed from the put order.  Hashes travel as small numbers
   (index of first appearance in the history).  The model starts from the empty disk and replays
   the history; per commit it checks that
     1. the hypotheses of the theorems hold on the real data (cache_closed, consistent),
     2. the recorded put order is a run of the model's commit walk (tree_okb + flatten), and is
        the model function's own output (exactly if every visit used one child order, else as a
        multiset),
     3. the recorded batches are the model's batch_run of the recorded puts,
     4. every put finds its references on the disk-so-far (orderedb = every prefix closed),
     5. the dirty set after the commit is the model's uncache,
     6. if a first attempt was ended by an injected Write error: the puts it left on disk found their
        references on the disk-so-far, and the hypotheses still hold afterwards (the model's OFail);
   and at the end that the final disk is closed.
   Separately, sampled real blobs are decoded by the concrete model (Concrete.v) and the references
   it computes are compared with the ones the harness decoded (the edges used above). *)
From Coq Require Import String.
From stdpp Require Import gmap.
From V.Base Require Import Hex.
From V.C03 Require Import Model Concrete.

Definition K := @TSkip N.
Definition T := @TNode N.

Record commit := C {
  c_root : N;
  c_cache : list (N * (N * (list N * list N)));   (* hash, blob size, (tracked = childs(), refs of the blob) *)
  c_failed : list N;    (* puts that reached the disk in a first attempt ended by a Write error *)
  c_tree : @tree N;
  c_puts : list N;
  c_batches : list (list N);
  c_exact : bool;
  c_after : list N;
}.

Inductive c03case :=
| History (limit : N) (commits : list commit)
| Inventory (callers : list string)
(* a real blob in the role it was read (0 account trie node, 1 storage trie node, 2 code), the empty
   root and empty-code constants of the implementation, and the references the harness decoded from
   it: the concrete model's decoder (Concrete.blob_refs) must find the same list *)
| Blob (role : N) (empty_root empty_code blob : string) (refs : list string).

Definition check_commit (limit : N) (d : gmap N (list N)) (cm : commit) : bool * gmap N (list N) :=
  let c : gmap N dnode := list_to_map (map (λ e, (e.1, DNode e.2.2.1 e.2.2.2)) (c_cache cm)) in
  let sz : gmap N N := list_to_map (map (λ e, (e.1, e.2.1)) (c_cache cm)) in
  let bsize h := default 0%N (sz !! h) in
  let s0 := Store d c in
  let d := put_all c d (c_failed cm) in       (* OFail: the puts are on disk, nothing was uncached *)
  let s := Store d c in
  let puts := c_puts cm in
  let ok :=
    bool_decide (NoDup (map fst (c_cache cm)))
    && bool_decide (cache_closed s0) && bool_decide (consistent s0) && orderedb c (disk s0) (c_failed cm)
    && bool_decide (cache_closed s) && bool_decide (consistent s)
    && tree_okb c (c_tree cm) && bool_decide (troot (c_tree cm) = c_root cm)
    && bool_decide (flatten (c_tree cm) = puts)
    && match commit_seq (S (size c)) c (c_root cm) with
       | Some sq => if c_exact cm then bool_decide (sq = puts) else bool_decide (sq ≡ₚ puts)
       | None => false
       end
    && bool_decide (batch_run limit bsize puts [] 0%N = c_batches cm)
    && orderedb c d puts
    && bool_decide (dom (uncache c puts) = (list_to_set (c_after cm) : gset N)) in
  (ok, put_all c d puts).

Fixpoint check_commits (limit : N) (d : gmap N (list N)) (cs : list commit) : bool :=
  match cs with
  | [] => bool_decide (closed d)
  | cm :: tl => let '(ok, d') := check_commit limit d cm in ok && check_commits limit d' tl
  end.

Definition check (c : c03case) : bool :=
  match c with
  | History limit cs => check_commits limit ∅ cs
  | Inventory callers => match callers with [] => true | _ => false end
  | Blob r er ec e refs =>
      let role := match r with 0%N => RAccount | 1%N => RStorage | _ => RCode end in
      bool_decide (blob_refs (unhex er) (unhex ec) role (unhex e) = map unhex refs)
  end.
