(* C03 proofs: from "the root is on a closed disk" to "reopening the root from the disk alone yields the
   trie that was committed" - the graph-level durability theorems composed with the C02 reload theorem
   (node.go decodeNode / trie.go resolveHash invert the hasher's encoding). *)
From stdpp Require Import gmap.
From V.Base Require Import Hex.
From V.C08 Require Model Proofs.
From V.C02 Require Model Sem Spec ModelB ProofsB.
From V.C03 Require Import Model Proofs Concrete ConcreteProofs TrieLink TrieStore.

Section reopen.
  Variable H : list N → list N.
  Hypothesis H32 : ∀ x, length (H x) = 32.
  Variables empty_root empty_code : list N.
  Variable U : list N → role → Prop.
  Hypothesis Hcf : collision_free H U.
  Variable dirty : node → bool.
  Variable r : role.
  Hypothesis Hr : r ≠ RCode.

  (* the disk: the blobs [d] and the reference graph [dk] the theorems speak about *)
  Variable d : list N → option (list N).
  Variable dk : gmap (list N) (list (list N)).
  Hypothesis Hrepr : ∀ h a, dk !! h = Some a →
    ∃ e r', U e r' ∧ H e = h ∧ d h = Some e ∧ a = blob_refs empty_root empty_code r' e.
  Hypothesis Hclosed : closed dk.

  Notation enc := (TrieLink.enc H).
  Notation msubs := (TrieLink.msubs H dirty).
  Notation mref := (TrieLink.mref H dirty).
  Notation ondisk := (λ x : list N, is_Some (dk !! x)).

  Variable t : node.
  Hypothesis Hnodes : ∀ c, subnode c t → wfb c = true → C08.Model.item_ok (collapse H c) ∧ U (enc c) r.

  Lemma ondisk_blob c : subnode c t → wfb c = true → ondisk (H (enc c)) →
    d (H (enc c)) = Some (enc c) ∧ Forall ondisk (map (mhash H) (msubs c)).
  Proof.
    intros Hs Hw [a Ha]. destruct (Hnodes c Hs Hw) as [Hok HU].
    destruct (Hrepr _ _ Ha) as (e & r' & HU' & He & Hd & ->).
    destruct (Hcf e r' (enc c) r HU' HU He) as [-> ->]. split; [done|].
    rewrite closed_spec in Hclosed. apply Forall_forall. intros x Hx.
    apply (Hclosed _ _ x Ha). unfold Concrete.blob_refs. apply elem_of_app. left.
    unfold hrefs. replace (blob_hkids (enc c)) with (map (mhash H) (msubs c)); [by destruct r|].
    unfold TrieLink.enc. rewrite blob_hkids_encode by done. symmetry. by apply hkids_collapse.
  Qed.

  Definition R (c : node) : Prop :=
    Forall ondisk (map (mhash H) (msubs c)) ∧ ((32 ≤ length (enc c))%nat → ondisk (H (enc c))).

  Lemma R_slot c : subnode c t → wfb c = true → Forall ondisk (map (mhash H) (mref c)) → R c.
  Proof.
    intros Hs Hw Hm.
    assert (mref c = if (length (enc c) <? 32)%nat then msubs c
                     else [if dirty c then MNode (enc c) (msubs c) else MClean (H (enc c))]) as Em
      by (destruct c; try discriminate; reflexivity).
    rewrite Em in Hm. destruct (length (enc c) <? 32)%nat eqn:E.
    - split; [done|]. apply Nat.ltb_lt in E. lia.
    - assert (ondisk (H (enc c))) as Hon.
      { apply Forall_cons in Hm as [Hm _]. by destruct (dirty c). }
      split; [|done]. by apply ondisk_blob.
  Qed.

  Lemma R_down t' c : subnode c t' → subnode t' t → wfb t' = true → wfb c = true → R t' → R c.
  Proof.
    induction 1 as [n|n k c1 Hs IH|n cs x Hx Hs IH]; intros Hst Hwt Hwc HR; [done| |].
    - destruct (C02.Sem.wf_short_inv _ _ Hwt) as [(v & -> & _ & _)|(cs & -> & _ & _ & Hw1)].
      { inversion Hs; subst. discriminate. }
      assert (subnode (C02.Model.Full cs) t) as Hs1
        by (eapply C02.ProofsB.subnode_trans; [|done]; apply C02.ProofsB.sub_short, C02.ProofsB.sub_refl).
      apply IH; [done..|]. apply R_slot; [done..|]. destruct HR as [HR _].
      by rewrite TrieLink.msubs_short in HR.
    - pose proof Hwt as Hwt'. apply C02.Sem.wf_full in Hwt' as (Hl & Hsl & _ & _).
      destruct (Hsl x Hx) as [He|Hw1].
      { rewrite He in Hs. inversion Hs; subst. discriminate. }
      assert (subnode (C02.Model.child cs x) t) as Hs1
        by (eapply C02.ProofsB.subnode_trans; [|done]; eapply C02.ProofsB.sub_full; [done|apply C02.ProofsB.sub_refl]).
      apply IH; [done..|]. apply R_slot; [done..|]. destruct HR as [HR _].
      rewrite (TrieLink.msubs_full H dirty cs Hl) in HR.
      rewrite Forall_forall in HR. apply Forall_forall. intros y Hy. apply HR.
      apply elem_of_list_fmap in Hy as (m & -> & Hm). apply elem_of_list_fmap. exists m. split; [done|].
      apply elem_of_list_In, in_flat_map. exists x. split; [|by apply elem_of_list_In].
      unfold C02.Spec.nibbles16. clear -Hx.
      destruct x as [|p]; [by left|]. do 4 (destruct p as [p|p|]; try (cbn; tauto)); lia.
  Qed.

  (* The trie is in minimal form, its root node is on a closed disk: the database holds every node of
     the trie under its hash, and reopening the root from the disk alone (C02: node.go decodeNode +
     resolveHash until everything is resolved) yields exactly the trie that was committed - every key
     reads the same value. *)
  Theorem reopen_from_disk :
    C02.Model.wf_trie t = true → t ≠ C02.Model.Empty →
    ondisk (H (enc t)) → C02.Model.root_hash H t ≠ H [128%N] →
    C02.ModelB.reopen d (C02.Sem.size t) (H [128%N]) (C02.Model.root_hash H t) = Some t.
  Proof.
    intros Hwt Hne Hroot Hnr.
    assert (wfb t = true) as Hw.
    { apply C02.Proofs.wf_trie_slot in Hwt as [->|Hw]; done. }
    destruct (ondisk_blob t (C02.ProofsB.sub_refl t) Hw Hroot) as [Hdt Hsub].
    assert (R t) as HRt by (split; done).
    apply C02.ProofsB.reopen_roundtrip; [done|done| |].
    - intros c Hs Hwc. destruct (Hnodes c Hs Hwc) as [Hok _]. split; [done|]. intros Hlen.
      destruct (R_down t c Hs (C02.ProofsB.sub_refl t) Hw Hwc HRt) as [_ Hon].
      by apply ondisk_blob; [..|apply Hon].
    - intros _. split; [|done].
      replace (C02.Model.root_hash H t) with (H (enc t)) by (destruct t; done).
      done.
  Qed.
End reopen.

Section committed.
  Variable H : list N → list N.
  Hypothesis H32 : ∀ x, length (H x) = 32.
  Variables empty_root empty_code : list N.
  Variable U : list N → role → Prop.
  Hypothesis Hcf : collision_free H U.
  Variable dirty : node → bool.
  Variable r : role.
  Hypothesis Hr : r ≠ RCode.
  Notation enc := (TrieLink.enc H).
  Notation cstep := (cstep H empty_root empty_code).
  Notation cstore0 := (@Store (list N) _ _ ∅ ∅).

  (* After any concrete history, once NodeDatabase.Commit of the root of a trie t has run to the end
     (the trie being known to the database at that moment), then after ANY continuation - further
     commits, write errors, crashes, restarts - a fresh reader that has nothing but the disk (the blob
     store d, which holds under every hash on disk the blob with that hash) reopens the root to exactly
     t: every key of the trie reads the value it had before the commit. *)
  Theorem committed_trie_reopens os1 seq os2 t (d : list N → option (list N)) :
    let root := H (enc t) in
    let s := foldl cstep cstore0 os1 in
    let s2 := foldl cstep cstore0 (os1 ++ CCommit root seq :: os2) in
    chist_ok H empty_root empty_code U cstore0 (os1 ++ CCommit root seq :: os2) →
    is_Some (view s !! root) →
    C02.Model.wf_trie t = true → t ≠ C02.Model.Empty → C02.Model.root_hash H t ≠ H [128%N] →
    (∀ c, subnode c t → wfb c = true → C08.Model.item_ok (collapse H c) ∧ U (enc c) r) →
    (∀ h e r', is_Some (disk s2 !! h) → U e r' → H e = h → d h = Some e) →
    C02.ModelB.reopen d (C02.Sem.size t) (H [128%N]) (C02.Model.root_hash H t) = Some t.
  Proof.
    intros root s s2 Hok Hv Hwt Hne Hnr Hnodes Hd.
    destruct (c_committed_root_survives H empty_root empty_code U Hcf os1 root seq os2 Hok Hv)
      as (Hroot & Hcl & _ & _). fold s2 in Hroot, Hcl.
    destruct (chist_sim H empty_root empty_code U Hcf _ _ inv_empty (uinv_empty H empty_root empty_code U) Hok)
      as (ops & Hh & Hf & Hu). fold s2 in Hf, Hu.
    assert (inv s2) as (_ & _ & Hc) by (rewrite <- Hf; by apply hist_inv; [apply inv_empty|]).
    eapply (reopen_from_disk H H32 empty_root empty_code U Hcf dirty r Hr d (disk s2)); try done.
    intros h a Ha.
    assert (view s2 !! h = Some a) as Hva.
    { rewrite view_lookup. destruct (cache s2 !! h) as [n|] eqn:E; [|done].
      rewrite consistent_spec in Hc. f_equal. symmetry. eauto. }
    destruct (Hu _ _ Hva) as (e & r' & HU & He & ->). exists e, r'. split; [done|]. split; [done|].
    split; [|done]. apply (Hd h e r'); [by eexists|done..].
  Qed.
End committed.
