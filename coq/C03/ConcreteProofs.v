(* C03 proofs, concrete layer: every concrete history (trie commits of arbitrary Merkle trees of node
   encodings, code blobs, NodeDatabase commits / write errors / crashes) is a history of the graph
   model whose inserts satisfy insert_ok. *)
From stdpp Require Import gmap.
From V.Base Require Import Hex.
From V.C08 Require Model Proofs.
From V.C03 Require Import Model Proofs Concrete.

(* ---------- the decoder inverts the encoder ---------- *)
Lemma blob_item_encode it : C08.Model.item_ok it → blob_item (rlp it) = Some it.
Proof. intros Hok. unfold blob_item. by rewrite (C08.Proofs.decode_bytes_encode _ Hok). Qed.

Lemma blob_hkids_encode it : C08.Model.item_ok it → blob_hkids (rlp it) = hkids it.
Proof. intros Hok. unfold blob_hkids. by rewrite blob_item_encode. Qed.

Lemma blob_lvals_encode it : C08.Model.item_ok it → blob_lvals (rlp it) = lvals it.
Proof. intros Hok. unfold blob_lvals. by rewrite blob_item_encode. Qed.

Section cproofs.
  Variable H : (list N) → (list N).
  Variables empty_root empty_code : (list N).
  Variable U : (list N) → role → Prop.
  Hypothesis Hcf : collision_free H U.

  Notation lrefs := (lrefs empty_root empty_code).
  Notation blob_refs := (blob_refs empty_root empty_code).
  Notation mk_dnode := (mk_dnode empty_root empty_code).
  Notation ins := (ins H empty_root empty_code).
  Notation tcommit := (tcommit H empty_root empty_code).
  Notation mtree_ok := (mtree_ok H empty_root empty_code U).
  Notation cstep := (cstep H empty_root empty_code).
  Notation cop_ok := (cop_ok H empty_root empty_code U).
  Notation chist_ok := (chist_ok H empty_root empty_code U).
  Notation uinv := (uinv H empty_root empty_code U).
  Notation mhash := (mhash H).
  Implicit Types (s : cstore) (e : (list N)) (r : role) (t : mtree) (h x : list N).

  (* what the database knows (dirty or on disk) only grows while tries are committed *)
  Definition vle s s' : Prop := ∀ h, is_Some (view s !! h) → is_Some (view s' !! h).
  Lemma vle_refl s : vle s s. Proof. by intros h. Qed.
  Lemma vle_trans s1 s2 s3 : vle s1 s2 → vle s2 s3 → vle s1 s3.
  Proof. intros H1 H2 h Hh. by apply H2, H1. Qed.

  Lemma mtree_ind' (P : mtree → Prop) :
    (∀ h, P (MClean h)) → (∀ e subs, Forall P subs → P (MNode e subs)) → ∀ t, P t.
  Proof.
    intros Hc Hn. fix IH 1. intros [h|e subs]; [apply Hc|]. apply Hn.
    induction subs as [|c subs IHs]; constructor; [apply IH|apply IHs].
  Qed.

  Lemma mtree_ok_mono r s s' t : vle s s' → mtree_ok r s t → mtree_ok r s' t.
  Proof.
    intros Hle. induction t as [h|e subs IH] using mtree_ind'; inversion 1; subst.
    - constructor. by apply Hle.
    - constructor; [done..| |].
      + eapply Forall_impl; [done|]. intros x. apply Hle.
      + rewrite Forall_forall in IH. apply Forall_forall. intros c Hc.
        apply IH; [done|]. rewrite Forall_forall in *. eauto.
  Qed.

  (* one NodeDatabase.insert (+ the leaf callback's Reference calls for that node) *)
  Lemma ins_sim s r e :
    inv s → uinv s → U e r →
    Forall (λ x, is_Some (view s !! x)) (hrefs r e) →
    Forall (λ x, is_Some (view s !! x)) (lrefs r e) →
    insert_ok s (H e) (mk_dnode s r e) ∧ uinv (ins s r e) ∧ vle s (ins s r e)
    ∧ is_Some (view (ins s r e) !! H e).
  Proof.
    intros Hi Hu HU Hh Hl. split; [|split; [|split]].
    - split.
      + apply Forall_forall. intros x Hx. simpl in Hx. unfold Concrete.blob_refs in Hx.
        apply elem_of_app in Hx as [Hx|Hx].
        * rewrite Forall_forall in Hh. specialize (Hh x Hx). rewrite view_lookup in Hh.
          destruct (cache s !! x) eqn:E; [right|by left].
          split; [|by eexists]. simpl. apply elem_of_app. by left.
        * rewrite Forall_forall in Hl. specialize (Hl x Hx). rewrite view_lookup in Hl.
          destruct (cache s !! x) eqn:E; [right|by left].
          split; [|by eexists]. simpl. apply elem_of_app. right.
          apply elem_of_list_filter. split; [by eexists|done].
      + intros a Ha. destruct (Hu _ _ Ha) as (e' & r' & HU' & Hhe & ->).
        destruct (Hcf e' r' e r HU' HU Hhe) as [-> ->]. done.
    - intros h a Ha. unfold Concrete.ins, cache_insert in Ha.
      case_match; [by apply Hu|].
      rewrite view_lookup in Ha. simpl in Ha.
      destruct (decide (h = H e)) as [->|Hne].
      + rewrite lookup_insert in Ha. injection Ha as <-. exists e, r. done.
      + rewrite lookup_insert_ne in Ha by done. apply Hu. by rewrite view_lookup.
    - intros h Hh'. unfold Concrete.ins, cache_insert.
      case_match; [done|].
      rewrite view_lookup in *. simpl.
      destruct (decide (h = H e)) as [->|Hne]; [by rewrite lookup_insert|].
      by rewrite lookup_insert_ne.
    - unfold Concrete.ins, cache_insert. case_match.
      + rewrite view_lookup. case_match; [done|congruence].
      + rewrite view_lookup. simpl. rewrite lookup_insert. done.
  Qed.

  (* trie.Commit of a Merkle tree of encodings = a sequence of graph-model inserts that satisfy
     insert_ok; afterwards the root of the tree is known to the database *)
  Lemma tcommit_sim r t : r ≠ RCode → ∀ s0 s,
    inv s → uinv s → vle s0 s → mtree_ok r s0 t →
    ∃ ops, hist_ok s ops ∧ foldl step s ops = tcommit r t s
           ∧ uinv (tcommit r t s) ∧ vle s (tcommit r t s) ∧ is_Some (view (tcommit r t s) !! mhash t).
  Proof.
    intros Hr. induction t as [h|e subs IH] using mtree_ind'; intros s0 s Hi Hu Hle Hok.
    - inversion Hok; subst. exists []. simpl. repeat split; [done|apply vle_refl|by apply Hle].
    - inversion Hok as [|? ? HU Hm Hl Hsubs]; subst. simpl.
      (* the sub-tries, left to right *)
      assert (∃ ops, hist_ok s ops ∧ foldl step s ops = foldl (λ s c, tcommit r c s) s subs
                     ∧ uinv (foldl (λ s c, tcommit r c s) s subs)
                     ∧ vle s (foldl (λ s c, tcommit r c s) s subs)
                     ∧ Forall (λ c, is_Some (view (foldl (λ s c, tcommit r c s) s subs) !! mhash c)) subs)
        as (ops1 & Hh1 & Hf1 & Hu1 & Hle1 & Hall).
      { clear Hm Hok HU Hl. revert s Hi Hu Hle.
        induction subs as [|c subs IHs]; intros s Hi Hu Hle.
        - exists []. simpl. repeat split; [done|apply vle_refl|constructor].
        - apply Forall_cons in IH as [IHc IH]. apply Forall_cons in Hsubs as [Hc Hsubs].
          destruct (IHc s0 s Hi Hu Hle Hc) as (oc & Hhc & Hfc & Huc & Hlec & Hroot).
          assert (inv (tcommit r c s)) as Hic by (rewrite <- Hfc; by apply hist_inv).
          destruct (IHs IH Hsubs (tcommit r c s) Hic Huc (vle_trans _ _ _ Hle Hlec))
            as (os & Hhs & Hfs & Hus & Hles & Hroots).
          exists (oc ++ os). simpl. split; [|split; [|split; [|split]]].
          + apply hist_ok_app. rewrite Hfc. done.
          + rewrite foldl_app, Hfc. done.
          + done.
          + by eapply vle_trans.
          + constructor; [by apply Hles|done]. }
      set (s1 := foldl (λ s c, tcommit r c s) s subs) in *.
      assert (inv s1) as Hi1 by (rewrite <- Hf1; by apply hist_inv).
      destruct (ins_sim s1 r e Hi1 Hu1 HU) as (Hins & Hu2 & Hle2 & Hroot).
      { rewrite Hm. apply Forall_fmap. done. }
      { eapply Forall_impl; [done|]. intros x Hx. by apply Hle1, Hle. }
      exists (ops1 ++ [OInsert (H e) (mk_dnode s1 r e)]). split; [|split; [|split; [|split]]].
      + apply hist_ok_app. rewrite Hf1. simpl. done.
      + rewrite foldl_app, Hf1. done.
      + done.
      + by eapply vle_trans.
      + done.
  Qed.

  (* NodeDatabase.Commit / Write error / crash never teach the database a new node *)
  Lemma view_after_commit s seq h a :
    consistent s → view (after_commit s seq) !! h = Some a → view s !! h = Some a.
  Proof.
    intros Hc. rewrite !view_lookup. simpl. rewrite uncache_lookup.
    destruct (decide (h ∈ seq)) as [Hin|Hn].
    - intros Ha. apply (put_all_view s) in Ha; [|done]. by rewrite view_lookup in Ha.
    - destruct (cache s !! h) eqn:E; [done|]. intros Ha.
      apply (put_all_view s) in Ha; [|done]. by rewrite view_lookup, E in Ha.
  Qed.

  Lemma cstep_sim s o :
    inv s → uinv s → cop_ok s o →
    ∃ ops, hist_ok s ops ∧ foldl step s ops = cstep s o ∧ uinv (cstep s o).
  Proof.
    intros Hi Hu Hok. destruct o as [r t|e|root seq|root seq k|root seq k]; simpl in *.
    - destruct Hok as [Hr Hok].
      destruct (tcommit_sim r t Hr s s Hi Hu (vle_refl s) Hok) as (ops & ? & ? & ? & _). eauto.
    - destruct (ins_sim s RCode e Hi Hu Hok) as (Hins & Hu2 & _); [constructor..|].
      exists [OInsert (H e) (mk_dnode s RCode e)]. simpl. done.
    - exists [OCommit root seq]. simpl. split; [done|]. split; [done|].
      intros h a Ha. apply Hu. destruct Hi as (_ & _ & Hc). by eapply view_after_commit.
    - exists [OFail root seq k]. simpl. split; [done|]. split; [done|].
      intros h a Ha. apply Hu. destruct Hi as (_ & _ & Hc). rewrite view_lookup in Ha. simpl in Ha.
      rewrite view_lookup. destruct (cache s !! h) eqn:E; [done|].
      apply (put_all_view s) in Ha; [|done]. by rewrite view_lookup, E in Ha.
    - exists [OCrash root seq k]. simpl. split; [done|]. split; [done|].
      intros h a Ha. apply Hu. destruct Hi as (_ & _ & Hc). rewrite view_lookup in Ha. simpl in Ha.
      rewrite lookup_empty in Ha. by apply (put_all_view s) in Ha.
  Qed.

  Lemma chist_sim s os :
    inv s → uinv s → chist_ok s os →
    ∃ ops, hist_ok s ops ∧ foldl step s ops = foldl cstep s os ∧ uinv (foldl cstep s os).
  Proof.
    revert s. induction os as [|o os IH]; intros s Hi Hu Hok; [by exists []|].
    destruct Hok as [Ho Hok]. destruct (cstep_sim s o Hi Hu Ho) as (ops1 & Hh1 & Hf1 & Hu1).
    assert (inv (cstep s o)) as Hi1 by (rewrite <- Hf1; by apply hist_inv).
    destruct (IH _ Hi1 Hu1 Hok) as (ops2 & Hh2 & Hf2 & Hu2).
    exists (ops1 ++ ops2). split; [apply hist_ok_app; by rewrite Hf1|].
    simpl. by rewrite foldl_app, Hf1.
  Qed.

  Lemma chist_ok_app s os os' : chist_ok s (os ++ os') ↔ chist_ok s os ∧ chist_ok (foldl cstep s os) os'.
  Proof. revert s. induction os as [|o os IH]; intros s; simpl; [tauto|]. rewrite IH. tauto. Qed.

  Notation cstore0 := (@Store (list N) _ _ ∅ ∅).
  Lemma uinv_empty : uinv cstore0.
  Proof. intros h a Ha. rewrite view_lookup in Ha. simpl in Ha. by rewrite !lookup_empty in Ha. Qed.

  (* a concrete history and the graph-model history it is, with a split point *)
  Lemma chist_sim2 os1 os2 :
    chist_ok cstore0 (os1 ++ os2) →
    ∃ ops1 ops2, hist_ok cstore0 (ops1 ++ ops2)
      ∧ foldl step cstore0 ops1 = foldl cstep cstore0 os1
      ∧ foldl step cstore0 (ops1 ++ ops2) = foldl cstep cstore0 (os1 ++ os2).
  Proof.
    intros Hok. apply chist_ok_app in Hok as [Hok1 Hok2].
    destruct (chist_sim _ os1 inv_empty uinv_empty Hok1) as (ops1 & Hh1 & Hf1 & Hu1).
    assert (inv (foldl cstep cstore0 os1)) as Hi1 by (rewrite <- Hf1; by apply hist_inv; [apply inv_empty|]).
    destruct (chist_sim _ os2 Hi1 Hu1 Hok2) as (ops2 & Hh2 & Hf2 & _).
    exists ops1, ops2. split; [apply hist_ok_app; by rewrite Hf1|]. split; [done|].
    by rewrite !foldl_app, Hf1.
  Qed.

  (* ---------- the crash-safety theorems, for concrete histories ---------- *)
  Lemma c_history_crash_safe os root seq k :
    let s := foldl cstep cstore0 os in
    chist_ok cstore0 os → run (cache s) root seq →
    closed (crash s seq k)
    ∧ (∀ y, is_Some (crash s seq k !! y) → resolvable (crash s seq k) y)
    ∧ (∀ y, resolvable (disk s) y →
         resolvable (crash s seq k) y ∧ ∀ h, reach (disk s) y h → crash s seq k !! h = disk s !! h).
  Proof.
    intros s Hok Hrun. destruct (chist_sim _ os inv_empty uinv_empty Hok) as (ops & Hh & Hf & _).
    pose proof (history_crash_safe ops root seq k Hh) as Hs. simpl in Hs. rewrite Hf in Hs. by apply Hs.
  Qed.

  Lemma c_durable_forever os1 os2 root :
    let s1 := foldl cstep cstore0 os1 in
    let s2 := foldl cstep cstore0 (os1 ++ os2) in
    chist_ok cstore0 (os1 ++ os2) → resolvable (disk s1) root →
    resolvable (disk s2) root
    ∧ (∀ h, reach (disk s1) root h → disk s2 !! h = disk s1 !! h)
    ∧ (∀ h, reach (disk s2) root h ↔ reach (disk s1) root h).
  Proof.
    intros s1 s2 Hok Hres. destruct (chist_sim2 os1 os2 Hok) as (ops1 & ops2 & Hh & Hf1 & Hf2).
    pose proof (durable_forever ops1 ops2 root Hh) as Hd. simpl in Hd. rewrite Hf1, Hf2 in Hd. by apply Hd.
  Qed.

  Lemma c_committed_root_survives os1 root seq os2 :
    let s := foldl cstep cstore0 os1 in
    let s2 := foldl cstep cstore0 (os1 ++ CCommit root seq :: os2) in
    chist_ok cstore0 (os1 ++ CCommit root seq :: os2) → is_Some (view s !! root) →
    is_Some (disk s2 !! root) ∧ closed (disk s2) ∧ resolvable (disk s2) root
    ∧ (∀ h, reach (view s) root h → disk s2 !! h = view s !! h).
  Proof.
    intros s s2 Hok Hv.
    pose proof Hok as Hok'. apply chist_ok_app in Hok' as [Hok1 [Hrun Hok2]].
    destruct (chist_sim _ os1 inv_empty uinv_empty Hok1) as (ops1 & Hh1 & Hf1 & Hu1). fold s in Hf1, Hu1, Hrun.
    assert (inv s) as Hi1 by (rewrite <- Hf1; by apply hist_inv; [apply inv_empty|]).
    assert (inv (after_commit s seq)) as Hi2 by (by eapply commit_preserves_inv).
    assert (uinv (after_commit s seq)) as Hu2.
    { intros h a Ha. apply Hu1. destruct Hi1 as (_ & _ & Hc). by eapply view_after_commit. }
    destruct (chist_sim _ os2 Hi2 Hu2 Hok2) as (ops2 & Hh2 & Hf2 & _).
    pose proof (committed_root_survives ops1 root seq ops2) as Hs. simpl in Hs.
    rewrite Hf1 in Hs. rewrite foldl_app, Hf1 in Hs. simpl in Hs. rewrite Hf2 in Hs.
    unfold s2. rewrite foldl_app. simpl. fold s. apply Hs; [|done].
    apply hist_ok_app. split; [done|]. rewrite Hf1. simpl. done.
  Qed.
End cproofs.
