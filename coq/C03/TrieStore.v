(* C03 proofs: committing a trie of the C02 model, and AccountDB.Commit, are well-formed concrete
   operations - their inserts need no hypothesis about references. *)
From stdpp Require Import gmap.
From V.Base Require Import Hex.
From V.C08 Require Model Proofs.
From V.C02 Require Model Sem ModelB ProofsB.
From V.C03 Require Import Model Proofs Concrete ConcreteProofs TrieLink.

Notation node := C02.Model.node.
Notation wfb := C02.Model.wfb.
Notation collapse := C02.Model.collapse.
Notation subnode := C02.ProofsB.subnode.

Lemma Forall_flat_map_list {A B} (P : B → Prop) (f : A → list B) (l : list A) :
  Forall (λ x, Forall P (f x)) l → Forall P (flat_map f l).
Proof. induction 1; simpl; [constructor|]. by apply Forall_app. Qed.

Section trie.
  Variable H : list N → list N.
  Hypothesis H32 : ∀ x, length (H x) = 32.
  Variables empty_root empty_code : list N.
  Variable U : list N → role → Prop.
  Variable dirty : node → bool.
  Variable r : role.
  Hypothesis Hr : r ≠ RCode.
  Variable s : cstore.

  Notation enc := (TrieLink.enc H).
  Notation msubs := (TrieLink.msubs H dirty).
  Notation mref := (TrieLink.mref H dirty).
  Notation mnode := (TrieLink.mnode H dirty).
  Notation mtree_ok := (mtree_ok H empty_root empty_code U r s).
  Notation inview := (λ x : list N, is_Some (view s !! x)).

  (* what has to be known about a trie to commit it: every node is RLP-encodable (bytes < 256,
     sizes < 2^64) and belongs to the collision-free universe; what the leaf values of a node refer to
     is already known to the database; a clean node that is stored on its own is known to the database *)
  Definition trie_hyps (t : node) : Prop :=
    ∀ c, subnode c t → wfb c = true →
      C08.Model.item_ok (collapse H c) ∧ U (enc c) r
      ∧ Forall inview (lrefs empty_root empty_code r (enc c))
      ∧ (dirty c = false → inview (H (enc c))).

  Lemma trie_hyps_short k c : trie_hyps (C02.Model.Short k c) → trie_hyps c.
  Proof. intros Hh c' Hs. apply Hh. by apply C02.ProofsB.sub_short. Qed.

  Lemma trie_hyps_child cs x : (x < 16)%N → trie_hyps (C02.Model.Full cs) → trie_hyps (C02.Model.child cs x).
  Proof. intros Hx Hh c' Hs. apply Hh. by eapply C02.ProofsB.sub_full. Qed.

  Lemma stored_ok c : wfb c = true → trie_hyps c → Forall mtree_ok (msubs c) →
    mtree_ok (if dirty c then MNode (enc c) (msubs c) else MClean (H (enc c))).
  Proof.
    intros Hw Hh Hsub. destruct (Hh c (C02.ProofsB.sub_refl c) Hw) as (Hok & HU & Hl & Hcl).
    destruct (dirty c) eqn:Ed.
    - constructor; [done| |done|done].
      unfold hrefs. destruct r; [..|done];
        (unfold TrieLink.enc; rewrite blob_hkids_encode by done; by apply hkids_collapse).
    - constructor. by apply Hcl.
  Qed.

  Lemma mref_ok c : C02.Sem.slot_ok c → trie_hyps c → (wfb c = true → Forall mtree_ok (msubs c)) →
    Forall mtree_ok (mref c).
  Proof.
    intros [->|Hw] Hh IH; [constructor|]. specialize (IH Hw).
    assert (mref c = if (length (enc c) <? 32)%nat then msubs c
                     else [if dirty c then MNode (enc c) (msubs c) else MClean (H (enc c))]) as ->
      by (destruct c; try discriminate; reflexivity).
    destruct (length (enc c) <? 32)%nat; [done|]. constructor; [|constructor]. by apply stored_ok.
  Qed.

  Lemma msubs_ok t : wfb t = true → trie_hyps t → Forall mtree_ok (msubs t).
  Proof.
    induction t as [|v0|nk c IH|cs IH] using C02.Sem.node_ind'; intros Hw Hh; try discriminate.
    - rewrite TrieLink.msubs_short.
      destruct (C02.Sem.wf_short_inv _ _ Hw) as [(v & -> & _ & _)|(cs & -> & _ & _ & Hwc)]; [constructor|].
      apply mref_ok; [by right|by eapply trie_hyps_short|]. intros _. apply IH; [done|by eapply trie_hyps_short].
    - pose proof Hw as Hw'. apply C02.Sem.wf_full in Hw' as (Hl & Hsl & _ & _).
      rewrite (TrieLink.msubs_full H dirty cs Hl). apply Forall_flat_map_list.
      apply Forall_forall. intros x Hx.
      assert (x < 16)%N as Hx16.
      { unfold C02.Spec.nibbles16 in Hx. repeat (apply elem_of_cons in Hx as [->|Hx]; [done|]).
        by apply elem_of_nil in Hx. }
      apply mref_ok; [by apply Hsl|by apply trie_hyps_child|].
      intros Hwc. apply IH; [done|by apply trie_hyps_child].
  Qed.

  (* trie.Commit of any trie in minimal form is a well-formed concrete operation *)
  Theorem trie_commit_ok t : wfb t = true → trie_hyps t → dirty t = true →
    cop_ok H empty_root empty_code U s (CTrie r (mnode t)).
  Proof.
    intros Hw Hh Hd. split; [done|]. unfold TrieLink.mnode.
    pose proof (stored_ok t Hw Hh (msubs_ok t Hw Hh)) as Hs. by rewrite Hd in Hs.
  Qed.
End trie.

(* ---------- AccountDB.Commit ---------- *)
Section account.
  Variable H : list N → list N.
  Variables empty_root empty_code : list N.
  Variable U : list N → role → Prop.
  Hypothesis Hcf : collision_free H U.

  Notation mtree_ok := (mtree_ok H empty_root empty_code U).
  Notation cstep := (cstep H empty_root empty_code).
  Notation chist_ok := (chist_ok H empty_root empty_code U).
  Notation uinv := (uinv H empty_root empty_code U).
  Notation tcommit := (tcommit H empty_root empty_code).
  Notation ins := (ins H empty_root empty_code).
  Notation mhash := (mhash H).

  (* one dirty account object: InsertBlob(codeHash, code) when the code is dirty, then CommitTrie =
     trie.Commit(nil) of its storage trie (None: the storage trie is empty, nothing is stored) *)
  Record dacct := DAcct { d_code : option (list N); d_storage : option mtree }.
  Definition acct_ops (a : dacct) : list cop :=
    from_option (λ c, [CBlob c]) [] (d_code a) ++ from_option (λ st, [CTrie RStorage st]) [] (d_storage a).
  (* AccountDB.Commit(deleteEmptyObjects): the dirty objects in the order Range visits them, then
     trie.Commit of the account trie with the leaf callback *)
  Definition account_commit (ds : list dacct) (acct : mtree) : list cop :=
    flat_map acct_ops ds ++ [CTrie RAccount acct].

  Definition dacct_ok (s : cstore) (a : dacct) : Prop :=
    (∀ c, d_code a = Some c → U c RCode) ∧ (∀ st, d_storage a = Some st → mtree_ok RStorage s st).
  (* the storage roots and code hashes this commit makes known *)
  Definition known (ds : list dacct) (s : cstore) : Prop :=
    Forall (λ a, (∀ c, d_code a = Some c → is_Some (view s !! H c))
               ∧ (∀ st, d_storage a = Some st → is_Some (view s !! mhash st))) ds.

  Lemma ctrie_facts r t s : r ≠ RCode → inv s → uinv s → mtree_ok r s t →
    inv (tcommit r t s) ∧ uinv (tcommit r t s) ∧ vle s (tcommit r t s) ∧ is_Some (view (tcommit r t s) !! mhash t).
  Proof.
    intros Hr Hi Hu Hok.
    destruct (tcommit_sim H empty_root empty_code U Hcf r t Hr s s Hi Hu (vle_refl s) Hok)
      as (ops & Hh & Hf & Hu' & Hle & Hroot).
    split; [rewrite <- Hf; by apply hist_inv|done].
  Qed.

  Lemma cblob_facts e s : inv s → uinv s → U e RCode →
    inv (ins s RCode e) ∧ uinv (ins s RCode e) ∧ vle s (ins s RCode e) ∧ is_Some (view (ins s RCode e) !! H e).
  Proof.
    intros Hi Hu HU.
    destruct (ins_sim H empty_root empty_code U Hcf s RCode e Hi Hu HU) as (Hins & Hu' & Hle & Hroot);
      [constructor..|].
    split; [by apply insert_preserves_inv|done].
  Qed.

  Lemma objects_commit s0 ds : ∀ s,
    inv s → uinv s → vle s0 s → Forall (dacct_ok s0) ds →
    let s1 := foldl cstep s (flat_map acct_ops ds) in
    chist_ok s (flat_map acct_ops ds) ∧ inv s1 ∧ uinv s1 ∧ vle s s1 ∧ known ds s1.
  Proof.
    induction ds as [|a ds IH]; intros s Hi Hu Hle Hds; simpl.
    { split; [done|]. split; [done|]. split; [done|]. split; [apply vle_refl|constructor]. }
    apply Forall_cons in Hds as [[Hc Hst] Hds].
    (* this object *)
    assert (∃ sa, sa = foldl cstep s (acct_ops a) ∧ chist_ok s (acct_ops a) ∧ inv sa ∧ uinv sa ∧ vle s sa
                  ∧ (∀ c, d_code a = Some c → is_Some (view sa !! H c))
                  ∧ (∀ st, d_storage a = Some st → is_Some (view sa !! mhash st))) as (sa & Esa & Hoka & Hia & Hua & Hlea & Hkc & Hks).
    { unfold acct_ops. destruct (d_code a) as [c|], (d_storage a) as [st|]; simpl.
      - pose proof (Hc c eq_refl) as HUc.
        destruct (cblob_facts c s Hi Hu HUc) as (Hi1 & Hu1 & Hle1 & Hk1).
        assert (mtree_ok RStorage (ins s RCode c) st) as Hok1
          by (eapply mtree_ok_mono; [|by apply Hst]; by eapply vle_trans).
        destruct (ctrie_facts RStorage st _ ltac:(done) Hi1 Hu1 Hok1) as (Hi2 & Hu2 & Hle2 & Hk2).
        eexists. split; [done|]. split; [split; [done|]; split; [|done]; split; done|].
        split; [done|]. split; [done|].
        split; [by eapply vle_trans|]. split; [intros ? [= <-]; by apply Hle2|intros ? [= <-]; done].
      - pose proof (Hc c eq_refl) as HUc.
        destruct (cblob_facts c s Hi Hu HUc) as (Hi1 & Hu1 & Hle1 & Hk1).
        eexists. split; [done|]. split; [split; done|]. split; [done|]. split; [done|]. split; [done|].
        split; [intros ? [= <-]; done|intros ? [=]].
      - assert (mtree_ok RStorage s st) as Hok1 by (eapply mtree_ok_mono; [|by apply Hst]; done).
        destruct (ctrie_facts RStorage st _ ltac:(done) Hi Hu Hok1) as (Hi2 & Hu2 & Hle2 & Hk2).
        eexists. split; [done|]. split; [split; [|done]; split; done|]. split; [done|]. split; [done|]. split; [done|].
        split; [intros ? [=]|intros ? [= <-]; done].
      - exists s. split; [done|]. split; [done|]. split; [done|]. split; [done|]. split; [apply vle_refl|].
        split; intros ? [=]. }
    destruct (IH sa Hia Hua (vle_trans _ _ _ Hle Hlea) Hds) as (Hokd & Hi1 & Hu1 & Hle1 & Hk1).
    rewrite foldl_app, <- Esa. split; [|split; [done|split; [done|split]]].
    - apply chist_ok_app. rewrite <- Esa. done.
    - by eapply vle_trans.
    - constructor; [|done]. split; intros; apply Hle1; eauto.
  Qed.

  (* AccountDB.Commit is a well-formed concrete history whenever the dirty objects' storage tries are
     Merkle trees over known clean parts and the account trie is a Merkle tree whose leaves refer to
     storage roots / code hashes that are known ONCE THE OBJECTS HAVE BEEN COMMITTED: the order of
     operations inside AccountDB.Commit discharges "the leaf targets are known to the database". *)
  Theorem account_commit_ok s ds acct :
    inv s → uinv s → Forall (dacct_ok s) ds →
    (∀ s', vle s s' → known ds s' → mtree_ok RAccount s' acct) →
    chist_ok s (account_commit ds acct)
    ∧ is_Some (view (foldl cstep s (account_commit ds acct)) !! mhash acct).
  Proof.
    intros Hi Hu Hds Hacct. unfold account_commit.
    destruct (objects_commit s ds s Hi Hu (vle_refl s) Hds) as (Hok & Hi1 & Hu1 & Hle1 & Hk1).
    specialize (Hacct _ Hle1 Hk1).
    destruct (ctrie_facts RAccount acct _ ltac:(done) Hi1 Hu1 Hacct) as (_ & _ & _ & Hroot).
    split.
    - apply chist_ok_app. split; [done|]. simpl. done.
    - rewrite foldl_app. simpl. done.
  Qed.

  Notation cstore0 := (@Store (list N) _ _ ∅ ∅).

  (* "Durable and complete" for a whole state: after any history, AccountDB.Commit of a state followed
     by a NodeDatabase.Commit of its root that runs to the end leaves - after ANY continuation (further
     blocks, write errors, crashes, restarts) - the state root on disk, the disk closed, and every node
     the pre-commit view reached from the state root (account trie nodes; storage trie nodes through
     the storage roots decoded from the account leaves; code blobs through their code hashes) on disk
     with the same references. *)
  Theorem account_state_durable os1 ds acct seq os2 :
    let s := foldl cstep cstore0 os1 in
    let s1 := foldl cstep s (account_commit ds acct) in
    let s2 := foldl cstep cstore0 ((os1 ++ account_commit ds acct) ++ CCommit (mhash acct) seq :: os2) in
    chist_ok cstore0 os1 → Forall (dacct_ok s) ds →
    (∀ s', vle s s' → known ds s' → mtree_ok RAccount s' acct) →
    run (cache s1) (mhash acct) seq → chist_ok (after_commit s1 seq) os2 →
    is_Some (disk s2 !! mhash acct) ∧ closed (disk s2) ∧ resolvable (disk s2) (mhash acct)
    ∧ (∀ h, reach (view s1) (mhash acct) h → disk s2 !! h = view s1 !! h).
  Proof.
    intros s s1 s2 Hok1 Hds Hacct Hrun Hok2.
    destruct (chist_sim H empty_root empty_code U Hcf _ os1 inv_empty (uinv_empty H empty_root empty_code U) Hok1)
      as (ops1 & Hh1 & Hf1 & Hu). fold s in Hf1, Hu.
    assert (inv s) as Hi by (rewrite <- Hf1; by apply hist_inv; [apply inv_empty|]).
    destruct (account_commit_ok s ds acct Hi Hu Hds Hacct) as [Hokc Hroot]. fold s1 in Hroot.
    pose proof (c_committed_root_survives H empty_root empty_code U Hcf
                  (os1 ++ account_commit ds acct) (mhash acct) seq os2) as Hs.
    simpl in Hs. rewrite foldl_app in Hs. fold s s1 in Hs. apply Hs; [|done].
    apply chist_ok_app. split; [apply chist_ok_app; by split|].
    rewrite foldl_app. fold s s1. simpl. done.
  Qed.
End account.
