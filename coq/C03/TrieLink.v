(* C03, link to the C02 trie model: the Merkle tree of node encodings that committing a trie stores.

   For a trie [t] of the C02 model (layer A: fully resolved, minimal form) and a dirty predicate on its
   nodes (flags.dirty of the hasher), [mnode t] is the [Concrete.mtree] hasher.hash/store walks: every
   node whose RLP is >= 32 bytes (and the root) is stored after its children, nodes < 32 bytes are
   embedded in their parent, clean stored sub-tries are not stored again.  Its blobs are the C02 node
   encodings rlp (collapse H c).  [hkids_collapse]: the child references the concrete decoder finds in
   such an encoding are exactly the hashes of the stored sub-tries - the Merkle-tree condition of
   [Concrete.mtree_ok] holds for every trie, it is not an assumption. *)
From Coq Require Import List Arith NArith Lia Bool.
From V.Base Require Import Hex.
From V.C08 Require Model.
From V.C02 Require Import Model Sem Spec SpecProofs ModelB ProofsB.
From V.C03 Require Concrete.
Import ListNotations.
Local Open Scope N_scope.

Notation mtree := Concrete.mtree.
Notation MClean := Concrete.MClean.
Notation MNode := Concrete.MNode.
Notation hkids := Concrete.hkids.

Definition href (r : item) : list bytes :=
  match r with
  | C08.Model.Str h => if (length h =? 32)%nat then [h] else []
  | C08.Model.Lst _ => hkids r
  end.

Lemma hkids_short kb v :
  hkids (Lst [Str kb; v]) = if has_term (compact_to_hex kb) then [] else href v.
Proof. reflexivity. Qed.

Lemma hkids_full (g : N -> item) y :
  hkids (Lst (map g nibbles16 ++ [y])) = flat_map (fun x => href (g x)) nibbles16.
Proof. unfold nibbles16. cbn [map app flat_map]. destruct (g 0); reflexivity. Qed.

Section link.
  Variable H : bytes -> bytes.
  Hypothesis H32 : forall x, length (H x) = 32%nat.
  Variable dirty : node -> bool.

  Definition enc (n : node) : bytes := rlp (collapse H n).

  Fixpoint msubs (t : node) : list mtree :=
    let mref c := match c with
                  | Empty | Value _ => []
                  | _ => if (length (enc c) <? 32)%nat then msubs c
                         else [if dirty c then MNode (enc c) (msubs c) else MClean (H (enc c))]
                  end in
    match t with
    | Short k c => mref c
    | Full cs =>
        (fix go (i : nat) (l : list node) : list mtree :=
           match l with
           | [] => []
           | c :: tl => (if (i <? 16)%nat then mref c else []) ++ go (S i) tl
           end) 0%nat cs
    | _ => []
    end.

  Definition mref (c : node) : list mtree :=
    match c with
    | Empty | Value _ => []
    | _ => if (length (enc c) <? 32)%nat then msubs c
           else [if dirty c then MNode (enc c) (msubs c) else MClean (H (enc c))]
    end.

  (* trie.Commit stores the root whatever its size (hashRoot: force = true) *)
  Definition mnode (t : node) : mtree := MNode (enc t) (msubs t).

  Lemma msubs_short k c : msubs (Short k c) = mref c.
  Proof. reflexivity. Qed.

  Lemma msubs_full cs : length cs = 17%nat ->
    msubs (Full cs) = flat_map (fun x => mref (child cs x)) nibbles16.
  Proof.
    intros Hl. do 17 (destruct cs as [|? cs]; [discriminate|]). destruct cs; [|discriminate].
    cbn [msubs Nat.ltb Nat.leb flat_map nibbles16 child nth N.to_nat Pos.to_nat Pos.iter_op Nat.add].
    rewrite !app_nil_r. reflexivity.
  Qed.

  (* one child slot: what the decoder reads there is what the hasher stored for it *)
  Lemma href_slot c : slot_ok c ->
    (wfb c = true -> hkids (collapse H c) = map (Concrete.mhash H) (msubs c)) ->
    href (embed H (collapse H c)) = map (Concrete.mhash H) (mref c).
  Proof.
    intros [->|Hw] IH; [reflexivity|]. specialize (IH Hw).
    destruct (collapse_lst H c Hw) as (l & El).
    assert (Em : mref c = if (length (enc c) <? 32)%nat then msubs c
                          else [if dirty c then MNode (enc c) (msubs c) else MClean (H (enc c))])
      by (destruct c; try discriminate; reflexivity).
    rewrite Em. unfold enc. rewrite El. cbn [embed].
    destruct (length (rlp (Lst l)) <? 32)%nat eqn:E.
    - cbn [href]. rewrite <- El. exact IH.
    - cbn [href]. rewrite H32, Nat.eqb_refl. cbn [map]. destruct (dirty c); reflexivity.
  Qed.

  Lemma flat_map_pointwise (f : N -> list bytes) (g : N -> list mtree) l :
    (forall x, In x l -> f x = map (Concrete.mhash H) (g x)) ->
    flat_map f l = map (Concrete.mhash H) (flat_map g l).
  Proof.
    induction l as [|a l IH]; intros Hp; [reflexivity|]. cbn [flat_map]. rewrite map_app.
    rewrite (Hp a (or_introl eq_refl)), IH; [reflexivity|]. intros x Hx. apply Hp. right. exact Hx.
  Qed.

  (* decoding the encoding of a trie node yields the hashes of its stored sub-tries *)
  Theorem hkids_collapse t : wfb t = true ->
    hkids (collapse H t) = map (Concrete.mhash H) (msubs t).
  Proof.
    induction t as [|v0|nk c IH|cs IH] using node_ind'; intros Hw; try discriminate.
    - (* short node *)
      destruct (wf_short_inv _ _ Hw) as [(v & -> & Hvk & Hv)|(cs & -> & Hne & Hnb & Hwc)].
      + change (collapse H (Short nk (Value v))) with (Lst [Str (hex_to_compact nk); Str v]).
        rewrite hkids_short, compact_roundtrip by (right; exact Hvk).
        rewrite (has_term_valid nk Hvk). reflexivity.
      + change (collapse H (Short nk (Full cs)))
          with (Lst [Str (hex_to_compact nk); embed H (collapse H (Full cs))]).
        rewrite hkids_short, compact_roundtrip by (left; exact Hnb).
        rewrite (has_term_nibs nk Hnb), msubs_short.
        apply href_slot; [right; exact Hwc | exact IH].
    - (* full node *)
      pose proof Hw as Hw'. apply wf_full in Hw' as (Hl & Hsl & _ & _).
      rewrite collapse_full, (firstn16_children _ cs Hl), hkids_full, (msubs_full cs Hl).
      apply flat_map_pointwise. intros x Hx.
      assert (Hx16 : x < 16) by (unfold nibbles16 in Hx; cbn [In] in Hx; lia).
      apply href_slot; [apply Hsl; exact Hx16 | apply IH].
  Qed.
End link.
