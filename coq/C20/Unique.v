(* C20 proofs, part 2: what one transaction can do to the registry (shape), preservation of the
   well-formedness of the registry, and "an account controls at most one miner" - under the exact guard
   that excludes the two defects, with the refutation of the unguarded statement. *)
From Coq Require Import List ZArith NArith Lia Bool.
From V.C20 Require Import Model Proofs.
Import ListNotations.
Local Open Scope Z_scope.

Definition reg (c : regmap) (k i : N) : Prop := s_info (c k i) <> None.

(* no entry the iterator meets carries account a *)
Definition free (e : env) (c : regmap) (tr : N -> N -> option N) (a : N) : Prop :=
  forall k i, (k = 0%N \/ k = 1%N) -> In i (ids e) -> tr k i <> None -> s_acct (c k i) <> a.

Definition apply_id (t : tx) : option N :=
  match t with TApply _ _ _ id _ _ _ => Some id | _ => None end.
Definition opnode_target (t : tx) : option N :=
  match t with TOpNode _ (Some c) => Some c | _ => None end.

(* the registry after a transaction, relative to the registry c / trie tr before it *)
Inductive shape (e : env) (c : regmap) (tr : N -> N -> option N) (t : tx) : regmap -> Prop :=
| sh_same : shape e c tr t c
| sh_new : forall k i v, (k = 0%N \/ k = 1%N) -> apply_id t = Some i -> ~ reg c 0%N i -> ~ reg c 1%N i ->
    s_info v <> None -> free e c tr (s_acct v) -> shape e c tr t (updr c k i v)
| sh_keep : forall k i v, (k = 0%N \/ k = 1%N) -> reg c k i -> s_info v = s_info (c k i) ->
    s_acct v = s_acct (c k i) -> shape e c tr t (updr c k i v)
| sh_del : forall k i, reg c k i -> shape e c tr t (updr c k i slot0)
| sh_acct : forall k i v, (k = 0%N \/ k = 1%N) -> reg c k i -> s_info v = s_info (c k i) ->
    free e c tr (s_acct v) -> shape e c tr t (updr c k i v)
| sh_op : forall k i v, (k = 0%N \/ k = 1%N) -> reg c k i -> s_info v = s_info (c k i) ->
    opnode_target t = Some (s_acct v) -> shape e c tr t (updr c k i v).

Lemma by_account_free : forall e s a, by_account e s a = None -> free e (cur s) (trie s) a.
Proof. intros e s a H k i. apply by_account_none, H. Qed.

Lemma get_miner_reg : forall s i k sl, get_miner s i = Some (k, sl) ->
  (k = 0%N \/ k = 1%N) /\ reg (cur s) k i /\ sl = cur s k i.
Proof. intros. apply get_miner_some. assumption. Qed.

Lemma is_some_false : forall A (o : option A), is_some o = false -> o = None.
Proof. intros A [x|]; cbn; congruence. Qed.

(* ---- Execute: a successful transaction has one of the shapes and never touches the trie ---- *)
Lemma execute_shape : forall e h t s s' r, execute e h t s = (s', r) ->
  trie s' = trie s /\ (r <> ROk -> pend s' = pend s) /\ shape e (cur s) (trie s) t (cur s').
Proof.
  intros e h t s s' r. destruct t as [src jok typ id stake acct kok | src jok id delta | src jok amount id | src jok id acct | src evm];
    cbn [execute].
  - (* apply *)
    destruct jok; cbn [negb]; [|intros [= <- <-]; repeat split; constructor].
    destruct (N.eqb typ 0 || N.eqb typ 1)%bool eqn:Et; cbn [negb]; [|intros [= <- <-]; repeat split; constructor].
    destruct (stake <? min_stake typ)%N; [intros [= <- <-]; repeat split; constructor|].
    destruct kok; cbn [negb]; [|intros [= <- <-]; repeat split; constructor].
    destruct (bal s src <? tok stake); [intros [= <- <-]; repeat split; constructor|].
    destruct (is_some (get_miner s id)) eqn:Eg; [intros [= <- <-]; repeat split; constructor|].
    destruct (is_some (by_account e s (if N.eqb acct 0 then src else acct))) eqn:Ea; [intros [= <- <-]; repeat split; constructor|].
    intros [= <- <-]. cbn [trie cur set_cur set_bal pend]. split; [reflexivity|]. split; [congruence|].
    apply is_some_false in Eg. apply get_miner_none in Eg. destruct Eg as [H0 H1].
    apply is_some_false in Ea.
    apply sh_new; cbn [s_info s_acct]; try assumption; try discriminate; try reflexivity.
    + apply orb_true_iff in Et. destruct Et as [Et|Et]; apply N.eqb_eq in Et; auto.
    + apply by_account_free, Ea.
  - (* add *)
    destruct jok; cbn [negb]; [|intros [= <- <-]; repeat split; constructor].
    destruct (N.eqb delta 0); [intros [= <- <-]; repeat split; constructor|].
    destruct (bal s src <? tok delta); [intros [= <- <-]; repeat split; constructor|].
    destruct (get_miner s id) as [[k sl]|] eqn:Eg; [|intros [= <- <-]; repeat split; constructor].
    intros [= <- <-]. cbn [update_miner trie cur set_cur set_bal pend]. split; [reflexivity|]. split; [congruence|].
    apply get_miner_reg in Eg. destruct Eg as (Hk & Hr & ->).
    apply sh_keep; cbn [s_info s_acct]; auto.
  - (* refund *)
    destruct jok; cbn [negb]; [|intros [= <- <-]; repeat split; constructor].
    destruct amount as [money0|]; [|intros [= <- <-]; repeat split; constructor].
    destruct (get_miner s id) as [[k sl]|] eqn:Eg; [|intros [= <- <-]; repeat split; constructor].
    destruct (N.eqb src (s_acct sl)); cbn [negb]; [|intros [= <- <-]; repeat split; constructor].
    destruct (s_stake sl <? (if N.eqb money0 MAXU64 then s_stake sl else money0))%N; [intros [= <- <-]; repeat split; constructor|].
    apply get_miner_reg in Eg. destruct Eg as (Hk & Hr & ->).
    intros [= <- <-]. cbn [trie cur pend]. split; [|split; [congruence|]].
    + destruct (_ <? min_stake k)%N; [unfold remove_miner; destruct (_ && _)%bool|]; reflexivity.
    + destruct (_ <? min_stake k)%N.
      * unfold remove_miner. destruct (_ && _)%bool; cbn [cur set_cur].
        -- apply sh_del. assumption.
        -- apply sh_keep; cbn [s_info s_acct]; auto.
      * cbn [update_miner cur set_cur]. apply sh_keep; cbn [s_info s_acct]; auto.
  - (* change account *)
    destruct jok; cbn [negb]; [|intros [= <- <-]; repeat split; constructor].
    destruct (get_miner s id) as [[k sl]|] eqn:Eg; [|intros [= <- <-]; repeat split; constructor].
    destruct (N.eqb (s_acct sl) acct); [intros [= <- <-]; repeat split; constructor|].
    destruct (N.eqb (s_acct sl) src); cbn [negb]; [|intros [= <- <-]; repeat split; constructor].
    destruct (is_some (by_account e s acct)) eqn:Ea; [intros [= <- <-]; repeat split; constructor|].
    intros [= <- <-]. cbn [update_miner trie cur set_cur pend]. split; [reflexivity|]. split; [congruence|].
    apply get_miner_reg in Eg. destruct Eg as (Hk & Hr & ->). apply is_some_false in Ea.
    apply sh_acct; cbn [s_info s_acct]; auto. apply by_account_free, Ea.
  - (* operator node *)
    destruct (bal s src <? ten_tokens); [intros [= <- <-]; repeat split; constructor|].
    set (s1 := set_bal s (fst (sub_bal (bal s) src ten_tokens))).
    destruct (by_account e s1 src) as [id|]; [|intros [= <- <-]; repeat split; constructor].
    destruct (get_miner s1 id) as [[k sl]|] eqn:Eg; [|intros [= <- <-]; repeat split; constructor].
    destruct evm as [c|]; [|intros [= <- <-]; repeat split; constructor].
    intros [= <- <-]. cbn [update_miner trie cur set_cur set_bal pend s1]. split; [reflexivity|]. split; [congruence|].
    apply get_miner_reg in Eg. destruct Eg as (Hk & Hr & ->). cbn [s1 cur set_bal] in *.
    apply sh_op; cbn [s_info s_acct opnode_target]; auto.
Qed.

Lemma fee_step_cur : forall e s src, cur (fst (fee_step e s src)) = cur s /\ trie (fst (fee_step e s src)) = trie s /\
  pend (fst (fee_step e s src)) = pend s /\ esc (fst (fee_step e s src)) = esc s /\ burned (fst (fee_step e s src)) = burned s.
Proof. intros. unfold fee_step. destruct (bal s src <? tx_fee e); cbn; auto. Qed.

(* one loop iteration: same shapes, trie untouched *)
Lemma run_tx_shape : forall e h t s, let s' := fst (run_tx e h t s) in
  trie s' = trie s /\ shape e (cur s) (trie s) t (cur s').
Proof.
  intros e h t s. unfold run_tx. destruct (fee_step e s (tx_src t)) as [s1 ok] eqn:Ef.
  pose proof (fee_step_cur e s (tx_src t)) as (Hc & Ht & _). rewrite Ef in Hc, Ht. cbn [fst] in Hc, Ht.
  destruct ok; [|cbn; split; [reflexivity|constructor]].
  destruct (execute e h t s1) as [s2 r] eqn:Ee.
  apply execute_shape in Ee. destruct Ee as (Ht2 & _ & Hsh). rewrite Hc, Ht in Hsh.
  destruct r; cbn [fst trie cur]; try (split; [assumption|rewrite Hc; constructor]).
  split; [congruence|assumption].
Qed.

(* ---- well-formedness of the registry is preserved ---- *)
Definition tx_closed_ids (I : list N) (t : tx) : Prop :=
  match apply_id t with Some i => In i I | None => True end.

Lemma reg_updr : forall c k i v k' i', reg (updr c k i v) k' i' <->
  ((k' = k /\ i' = i /\ s_info v <> None) \/ ((k', i') <> (k, i) /\ reg c k' i')).
Proof.
  intros. unfold reg. destruct (updr_cases c k i v k' i') as [(-> & -> & ->)|(Hne & ->)].
  - split; [intros H; left; auto|intros [(_ & _ & H)|(Hne & _)]; [assumption|congruence]].
  - split; [intros H; right; auto|intros [(-> & -> & _)|(_ & H)]; [congruence|assumption]].
Qed.

Lemma reg_updr_keep : forall c k i v k' i', reg c k i -> s_info v = s_info (c k i) ->
  (reg (updr c k i v) k' i' <-> reg c k' i').
Proof.
  intros c k i v k' i' Hr Hinfo. unfold reg in *.
  destruct (updr_cases c k i v k' i') as [(-> & -> & ->)|(_ & ->)]; [rewrite Hinfo|]; reflexivity.
Qed.

Definition creg_wf (I : list N) (c : regmap) : Prop :=
  (forall k i, reg c k i -> (k = 0%N \/ k = 1%N) /\ In i I) /\
  (forall k i, s_info (c k i) = None -> c k i = slot0) /\
  (forall i, ~ (reg c 0%N i /\ reg c 1%N i)).

Lemma reg_wf_creg : forall I s, reg_wf I s <-> creg_wf I (cur s).
Proof. intros. reflexivity. Qed.

Lemma shape_wf : forall e I c tr t c', creg_wf I c -> tx_closed_ids I t -> shape e c tr t c' -> creg_wf I c'.
Proof.
  intros e I c tr t c' (Hk & Hcl & H1) Hid Hsh.
  assert (Hkeep : forall k i v, (k = 0%N \/ k = 1%N) -> reg c k i -> s_info v = s_info (c k i) -> creg_wf I (updr c k i v)).
  { intros k i v Hk01 Hr Hinfo. split; [|split].
    - intros k' i' Hr'. apply reg_updr in Hr'. destruct Hr' as [(-> & -> & _)|(_ & Hr')]; [apply Hk, Hr|apply Hk, Hr'].
    - intros k' i'. destruct (updr_cases c k i v k' i') as [(-> & -> & ->)|(_ & ->)]; [|apply Hcl].
      intros Hn. exfalso. apply Hr. unfold reg. congruence.
    - intros j [Ha Hb]. apply (H1 j). split.
      + apply (reg_updr_keep c k i v) in Ha; assumption.
      + apply (reg_updr_keep c k i v) in Hb; assumption. }
  destruct Hsh as [|k i v Hk01 Hap H0 H1' Hinfo _|k i v Hk01 Hr Hinfo _|k i Hr|k i v Hk01 Hr Hinfo _|k i v Hk01 Hr Hinfo _];
    try (apply Hkeep; assumption).
  - exact (conj Hk (conj Hcl H1)).
  - (* new *)
    unfold tx_closed_ids in Hid. rewrite Hap in Hid. split; [|split].
    + intros k' i' Hr'. apply reg_updr in Hr'. destruct Hr' as [(-> & -> & _)|(_ & Hr')]; [tauto|apply Hk, Hr'].
    + intros k' i'. destruct (updr_cases c k i v k' i') as [(-> & -> & ->)|(_ & ->)]; [congruence|apply Hcl].
    + intros j [Ha Hb]. apply reg_updr in Ha. apply reg_updr in Hb.
      destruct Ha as [(Hk0 & -> & _)|(_ & Ha)]; destruct Hb as [(Hk1 & Hj & _)|(_ & Hb)]; subst; try congruence; try tauto.
      apply (H1 j); tauto.
  - (* delete *)
    split; [|split].
    + intros k' i' Hr'. apply reg_updr in Hr'. destruct Hr' as [(_ & _ & Hx)|(_ & Hr')]; [cbn in Hx; congruence|apply Hk, Hr'].
    + intros k' i'. destruct (updr_cases c k i slot0 k' i') as [(-> & -> & ->)|(_ & ->)]; [reflexivity|apply Hcl].
    + intros j [Ha Hb]. apply reg_updr in Ha. apply reg_updr in Hb.
      destruct Ha as [(_ & _ & Hx)|(_ & Ha)]; [cbn in Hx; congruence|].
      destruct Hb as [(_ & _ & Hx)|(_ & Hb)]; [cbn in Hx; congruence|]. apply (H1 j); tauto.
Qed.

Theorem run_tx_reg_wf : forall e I h t s, reg_wf I s -> tx_closed_ids I t -> reg_wf I (fst (run_tx e h t s)).
Proof.
  intros e I h t s Hwf Hid. destruct (run_tx_shape e h t s) as (_ & Hsh).
  apply reg_wf_creg. eapply shape_wf; eauto.
Qed.

(* ---- an account controls at most one miner ---- *)
Definition cuniq (c : regmap) : Prop :=
  forall k i k' i', reg c k i -> reg c k' i' -> s_acct (c k i) = s_acct (c k' i') -> k = k' /\ i = i'.

(* the guard: the iterator meets every registered miner, and an operator-node target is carried by nobody *)
Definition ccovers (c : regmap) (tr : N -> N -> option N) : Prop := forall k i, reg c k i -> tr k i <> None.
Definition target_fresh (c : regmap) (t : tx) : Prop :=
  match opnode_target t with Some a => forall k i, reg c k i -> s_acct (c k i) <> a | None => True end.

Lemma free_covers : forall e c tr a, creg_wf (ids e) c -> ccovers c tr -> free e c tr a ->
  forall k i, reg c k i -> s_acct (c k i) <> a.
Proof. intros e c tr a (Hk & _) Hc Hf k i Hr. destruct (Hk k i Hr). apply Hf; auto. Qed.

Lemma uniq_set_acct : forall c k i v, cuniq c -> reg c k i -> s_info v = s_info (c k i) ->
  (forall k' i', reg c k' i' -> (k', i') <> (k, i) -> s_acct (c k' i') <> s_acct v) -> cuniq (updr c k i v).
Proof.
  intros c k i v Hu Hr Hinfo Hfresh ka ia kb ib Ha Hb.
  apply reg_updr in Ha. apply reg_updr in Hb.
  destruct (updr_cases c k i v ka ia) as [(-> & -> & ->)|(Hna & ->)];
  destruct (updr_cases c k i v kb ib) as [(-> & -> & ->)|(Hnb & ->)].
  - auto.
  - intros E. exfalso. destruct Hb as [(-> & -> & _)|(_ & Hb)]; [congruence|]. apply (Hfresh kb ib Hb Hnb). congruence.
  - intros E. exfalso. destruct Ha as [(-> & -> & _)|(_ & Ha)]; [congruence|]. apply (Hfresh ka ia Ha Hna). congruence.
  - destruct Ha as [(-> & -> & _)|(_ & Ha)]; [congruence|]. destruct Hb as [(-> & -> & _)|(_ & Hb)]; [congruence|].
    apply Hu; assumption.
Qed.

Lemma shape_uniq : forall e c tr t c', creg_wf (ids e) c -> ccovers c tr -> target_fresh c t -> cuniq c ->
  shape e c tr t c' -> cuniq c'.
Proof.
  intros e c tr t c' Hwf Hcov Hfr Hu Hsh.
  destruct Hsh as [|k i v Hk01 Hap H0 H1' Hinfo Hfree|k i v Hk01 Hr Hinfo Hacct|k i Hr|k i v Hk01 Hr Hinfo Hfree|k i v Hk01 Hr Hinfo Htgt].
  - assumption.
  - (* new *)
    pose proof (free_covers e c tr _ Hwf Hcov Hfree) as Hnone.
    intros ka ia kb ib Ha Hb. apply reg_updr in Ha. apply reg_updr in Hb.
    destruct (updr_cases c k i v ka ia) as [(-> & -> & ->)|(Hna & ->)];
    destruct (updr_cases c k i v kb ib) as [(-> & -> & ->)|(Hnb & ->)].
    + auto.
    + intros E. exfalso. destruct Hb as [(-> & -> & _)|(_ & Hb)]; [congruence|]. apply (Hnone kb ib Hb). congruence.
    + intros E. exfalso. destruct Ha as [(-> & -> & _)|(_ & Ha)]; [congruence|]. apply (Hnone ka ia Ha). congruence.
    + destruct Ha as [(-> & -> & _)|(_ & Ha)]; [congruence|]. destruct Hb as [(-> & -> & _)|(_ & Hb)]; [congruence|].
      apply Hu; assumption.
  - (* keep *)
    apply uniq_set_acct; try assumption. intros k' i' Hr' Hne E. rewrite Hacct in E.
    destruct (Hu k' i' k i Hr' Hr E). congruence.
  - (* delete *)
    intros ka ia kb ib Ha Hb. apply reg_updr in Ha. apply reg_updr in Hb.
    destruct Ha as [(_ & _ & Hx)|(Hna & Ha)]; [cbn in Hx; congruence|].
    destruct Hb as [(_ & _ & Hx)|(Hnb & Hb)]; [cbn in Hx; congruence|].
    rewrite !updr_other by assumption. apply Hu; assumption.
  - (* change account *)
    pose proof (free_covers e c tr _ Hwf Hcov Hfree) as Hnone.
    apply uniq_set_acct; try assumption. intros k' i' Hr' _. apply Hnone, Hr'.
  - (* operator node *)
    unfold target_fresh in Hfr. rewrite Htgt in Hfr.
    apply uniq_set_acct; try assumption. intros k' i' Hr' _. apply Hfr, Hr'.
Qed.

Definition guard (e : env) (t : tx) (s : st) : Prop := covers e s /\ target_fresh (cur s) t.

Theorem run_tx_unique : forall e h t s, reg_wf (ids e) s -> guard e t s -> acct_unique s ->
  acct_unique (fst (run_tx e h t s)).
Proof.
  intros e h t s Hwf [Hcov Hfr] Hu. destruct (run_tx_shape e h t s) as (_ & Hsh).
  exact (shape_uniq e (cur s) (trie s) t _ Hwf Hcov Hfr Hu Hsh).
Qed.

(* a block / a chain in which the guard holds whenever a transaction starts *)
Fixpoint guarded_txs (e : env) (h : N) (ts : list tx) (s : st) : Prop :=
  match ts with
  | [] => True
  | t :: r => guard e t s /\ guarded_txs e h r (fst (run_tx e h t s))
  end.

Fixpoint guarded_chain (e : env) (bs : list block) (s : st) : Prop :=
  match bs with
  | [] => True
  | (h, ts, rw) :: r => guarded_txs e h ts s /\ guarded_chain e r (fst (run_block e h ts rw s))
  end.

Definition block_txs (b : block) : list tx := snd (fst b).

Definition block_closed (I : list N) (ts : list tx) : Prop := Forall (tx_closed_ids I) ts.

Lemma run_txs_fst : forall e h ts s,
  fst (run_txs e h ts s) = fold_left (fun s t => fst (run_tx e h t s)) ts s.
Proof.
  intros e h ts. induction ts as [|t r IH]; intros s; [reflexivity|]. cbn [run_txs fold_left].
  destruct (run_tx e h t s) as [s1 x] eqn:E1. destruct (run_txs e h r s1) as [s2 xs] eqn:E2.
  cbn [fst]. rewrite <- IH, E2. reflexivity.
Qed.

Lemma run_txs_unique : forall e h ts s, reg_wf (ids e) s -> block_closed (ids e) ts -> guarded_txs e h ts s ->
  acct_unique s -> reg_wf (ids e) (fst (run_txs e h ts s)) /\ acct_unique (fst (run_txs e h ts s)).
Proof.
  intros e h ts. induction ts as [|t r IH]; intros s Hwf Hcl Hg Hu; [cbn; auto|].
  inversion Hcl as [|? ? Ht Hr]; subst. destruct Hg as [Hg Hgr].
  cbn [run_txs]. destruct (run_tx e h t s) as [s1 x] eqn:E1. destruct (run_txs e h r s1) as [s2 xs] eqn:E2.
  cbn [fst]. replace s1 with (fst (run_tx e h t s)) in * by (rewrite E1; reflexivity).
  specialize (IH (fst (run_tx e h t s))). rewrite E2 in IH. cbn [fst] in IH. apply IH; try assumption.
  - apply run_tx_reg_wf; assumption.
  - apply run_tx_unique; assumption.
Qed.

Lemma end_block_cur : forall h rw s, cur (end_block h rw s) = cur s.
Proof. intros. unfold end_block. destruct (credit_due h (pend s ++ rw ++ esc s) (bal s)). reflexivity. Qed.

Lemma end_block_boundary : forall h rw s, boundary (end_block h rw s).
Proof. intros h rw s k i. unfold end_block. destruct (credit_due h (pend s ++ rw ++ esc s) (bal s)). reflexivity. Qed.

Lemma run_block_fst : forall e h ts rw s, fst (run_block e h ts rw s) = end_block h rw (fst (run_txs e h ts s)).
Proof. intros. unfold run_block. destruct (run_txs e h ts s). reflexivity. Qed.

Theorem run_block_unique : forall e h ts rw s, reg_wf (ids e) s -> block_closed (ids e) ts -> guarded_txs e h ts s ->
  acct_unique s ->
  let s' := fst (run_block e h ts rw s) in reg_wf (ids e) s' /\ acct_unique s' /\ boundary s'.
Proof.
  intros e h ts rw s Hwf Hcl Hg Hu. cbv zeta. rewrite run_block_fst.
  destruct (run_txs_unique e h ts s Hwf Hcl Hg Hu) as [Hwf' Hu'].
  split; [|split; [|apply end_block_boundary]].
  - unfold reg_wf, registered in *. rewrite end_block_cur. exact Hwf'.
  - unfold acct_unique, registered in *. rewrite end_block_cur. exact Hu'.
Qed.

Theorem run_chain_unique : forall e bs s, reg_wf (ids e) s -> Forall (fun b => block_closed (ids e) (block_txs b)) bs ->
  guarded_chain e bs s -> acct_unique s ->
  reg_wf (ids e) (run_chain e bs s) /\ acct_unique (run_chain e bs s).
Proof.
  intros e bs. induction bs as [|[[h ts] rw] r IH]; intros s Hwf Hcl Hg Hu; [cbn; auto|].
  inversion Hcl as [|? ? Hb Hr]; subst. destruct Hg as [Hg Hgr]. cbn [run_chain block_txs fst snd] in *.
  destruct (run_block_unique e h ts rw s Hwf Hb Hg Hu) as (Hwf' & Hu' & _). apply IH; assumption.
Qed.

(* a transaction that starts at a block boundary and is not an operator-node call is always guarded:
   the first transaction of every block, hence every single-transaction block *)
Lemma guard_at_boundary : forall e t s, boundary s -> opnode_target t = None -> guard e t s.
Proof.
  intros e t s Hb Ht. split; [apply boundary_covers, Hb|]. unfold target_fresh. rewrite Ht. exact I.
Qed.

(* transactions other than a successful MinerApply keep the iterator complete *)
Lemma run_tx_covers : forall e h t s, apply_id t = None -> covers e s -> covers e (fst (run_tx e h t s)).
Proof.
  intros e h t s Hap Hc. destruct (run_tx_shape e h t s) as (Ht & Hsh). unfold covers, registered in *. rewrite Ht.
  destruct Hsh as [|k i v Hk01 Hap' _ _ _ _|k i v _ Hr Hinfo _|k i Hr|k i v _ Hr Hinfo _|k i v _ Hr Hinfo _];
    try congruence; try assumption;
    intros k' i' Hr'; apply reg_updr in Hr';
    (destruct Hr' as [(-> & -> & Hx)|(_ & Hr')]; [try (apply Hc; assumption); cbn in Hx; congruence|apply Hc, Hr']).
Qed.

(* ---- the unguarded statement is false: two MinerApply naming one account in one block ---- *)
Definition rich : bals := fun a => if N.eqb a 2 then tok 10000 else 0.
Definition env2 : env := {| ids := [1%N; 2%N]; contract := fun _ => false; gates := all_gates |}.
Definition two_applies : list tx :=
  [TApply 2 true 0 1 400 0 true; TApply 2 true 0 2 400 2 true].

Lemma empty_boundary : forall b, boundary (empty_state b).
Proof. intros b k i. reflexivity. Qed.

Lemma empty_reg_wf : forall I b, reg_wf I (empty_state b).
Proof.
  intros I b. unfold reg_wf, registered. cbn. split; [|split].
  - intros k i H. congruence.
  - reflexivity.
  - intros i [H _]. congruence.
Qed.

Lemma empty_unique : forall b, acct_unique (empty_state b).
Proof. intros b k i k' i' H. unfold registered in H. cbn in H. congruence. Qed.

Theorem account_unique_refuted :
  exists e h ts s, boundary s /\ reg_wf (ids e) s /\ acct_unique s /\ block_closed (ids e) ts /\
    snd (run_block e h ts [] s) = [ROk; ROk] /\ ~ acct_unique (fst (run_block e h ts [] s)).
Proof.
  exists env2, 100%N, two_applies, (empty_state rich).
  split; [apply empty_boundary|]. split; [apply empty_reg_wf|]. split; [apply empty_unique|].
  split; [repeat apply Forall_cons; try apply Forall_nil; cbn; tauto|]. split; [vm_compute; reflexivity|].
  intros Hu. specialize (Hu 0%N 1%N 0%N 2%N).
  assert (H : (0%N = 0%N) /\ (1%N = 2%N)).
  { apply Hu; unfold registered; vm_compute; congruence. }
  destruct H as [_ H]. discriminate.
Qed.

(* the same through the operator-node path: the reported address already carries a miner *)
Definition squat : list block :=
  [(100%N, [TApply 2 true 0 1 400 0 true], []);       (* S registers miner 1 under its own account 2 *)
   (101%N, [TApply 2 true 0 2 400 9 true], []);       (* somebody registers miner 2 under address 9 *)
   (102%N, [TOpNode 2 (Some 9%N)], [])].              (* S becomes operator node: the contract reports address 9 *)

Theorem account_unique_refuted_opnode :
  exists e bs s, boundary s /\ reg_wf (ids e) s /\ acct_unique s /\
    Forall (fun b => length (block_txs b) = 1%nat) bs /\ ~ acct_unique (run_chain e bs s).
Proof.
  exists env2, squat, (empty_state rich).
  split; [apply empty_boundary|]. split; [apply empty_reg_wf|]. split; [apply empty_unique|].
  split; [repeat constructor|].
  intros Hu. specialize (Hu 0%N 1%N 0%N 2%N).
  assert (H : (0%N = 0%N) /\ (1%N = 2%N)).
  { apply Hu; unfold registered; vm_compute; congruence. }
  destruct H as [_ H]. discriminate.
Qed.
