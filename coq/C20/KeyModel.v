(* C20 key-space model: the registry as the storage of the two system accounts keyed by BYTE STRINGS, with the
   key derivations of MinerManager.UpdateMiner / getMinerStake / getMinerAccount / GetMinerById / RemoveMiner:
       id bytes -> json record,  H(id) -> stake (8 bytes),  H(H(id)) -> account bytes,  H(H(H(id))) -> status byte
   all in ONE key space per registry account; H = common.Sha256 is a Section variable.
   A storage cell remembers what was written; a read through a slot of another type interprets the bytes the way
   the code does:
     - GetMinerById: json.Unmarshal of anything that is not a record fails -> "no miner" (although the key is used);
     - getMinerStake = ByteToUInt64: first 8 bytes big-endian; a json record starts with the 8 bytes {, quote, applyH (GetMinerInfo
       marshals a map, keys sorted) = 0x7b226170706c7948; fewer than 8 bytes -> 0;
     - getMinerAccount: the raw bytes, whatever they are (junk values are tagged numbers here);
     - status: only a 1-byte value counts, everything else leaves the json default 0.
   The transactions' control flow is [decide] (= Model.execute, proved in KeyProofs.execute_decide, returning the
   registry write as a command); the key-level state applies the command as the real sequence of SetData calls.
   Also here: the specification of RewardCalculator.calculateRewardPerBlock in exact arithmetic (after coq/C06/Model.v
   reward_weights, copied), with the inputs taken from the registry views of the model. *)
From Coq Require Import List ZArith NArith Lia Bool String.
From V.C20 Require Import Model.
Import ListNotations.
Local Open Scope Z_scope.

Definition key := N.   (* a storage key (byte string), as a number: any injective numbering of byte strings *)

Inductive cell :=
| CInfo (i ap : N)     (* json record of miner id i, applyHeight ap *)
| CStake (n : N)       (* UInt64ToByte n *)
| CAcct (a : N)        (* account bytes (index a) *)
| CStat (n : N)        (* one status byte *)
| CEmpty.              (* emptyValue written by RemoveMiner: reads as absent, deleted from the trie at the flush *)

Definition kstore := N -> key -> option cell.
Definition kupd (st : kstore) (k : N) (x : key) (c : cell) : kstore :=
  fun k' x' => if (N.eqb k' k && N.eqb x' x)%bool then Some c else st k' x'.

(* junk account values (bytes of another slot type read as an account) *)
Definition JSONPFX : N := 8872761351423686984%N.   (* 0x7b226170706c7948 *)
Definition junk_json (i : N) : N := (1000000 + i)%N.
Definition junk_stake (n : N) : N := (2000000 + n)%N.
Definition junk_stat (n : N) : N := (3000000 + n)%N.

(* ---- registry write commands ---- *)
Inductive wcmd :=
| WNone
| WNew (k i ap stake acct : N) (ws : bool)          (* UpdateMiner(isNew = true); ws: the status slot is written (proposal003) *)
| WUpd (k i stake acct : N) (stat : option N)       (* UpdateMiner(isNew = false); None: status slot not written *)
| WDel (k i : N)                      (* RemoveMiner, left = 0 and not a contract *)
| WAbort (k i lft : N).              (* RemoveMiner otherwise *)

Definition apply_w (c : regmap) (w : wcmd) : regmap :=
  match w with
  | WNone => c
  | WNew k i ap stake acct ws =>
    updr c k i {| s_info := Some ap; s_stake := stake; s_acct := acct; s_stat := if ws then 0%N else s_stat (c k i) |}
  | WUpd k i stake acct stat =>
    updr c k i {| s_info := s_info (c k i); s_stake := stake; s_acct := acct;
                  s_stat := match stat with Some x => x | None => s_stat (c k i) end |}
  | WDel k i => updr c k i slot0
  | WAbort k i lft => updr c k i {| s_info := s_info (c k i); s_stake := lft; s_acct := s_acct (c k i); s_stat := 1%N |}
  end.

Record outcome := { o_w : wcmd; o_bal : bals; o_pend : list (N * N * Z); o_burn : Z; o_res : res }.

Definition fail (s : st) (r : res) : outcome :=
  {| o_w := WNone; o_bal := bal s; o_pend := pend s; o_burn := burned s; o_res := r |}.

(* UpdateMiner writes the status slot from proposal003 on *)
Definition wst (e : env) (x : N) : option N := if g003 (gates e) then Some x else None.

(* the control flow of Model.execute, with the registry write as a command *)
Definition decide (e : env) (h : N) (t : tx) (s : st) : outcome :=
  match t with
  | TApply src json_ok typ id stake acct keys_ok =>
    if negb json_ok then fail s RJson else
    let acct' := if N.eqb acct 0%N then src else acct in
    if negb (N.eqb typ 0%N || N.eqb typ 1%N) then fail s RType else
    if (stake <? min_stake typ)%N then fail s RMinStake else
    if negb keys_ok then fail s RKeys else
    if bal s src <? tok stake then fail s RBalance else
    if is_some (get_miner s id) then fail s RIdExists else
    if is_some (by_account e s acct') then fail s RAcctExists else
    {| o_w := WNew typ id (h + height_after_stake)%N stake acct' (g003 (gates e)); o_bal := fst (sub_bal (bal s) src (tok stake));
       o_pend := pend s; o_burn := burned s; o_res := ROk |}
  | TAdd src json_ok id delta =>
    if negb json_ok then fail s RJson else
    if N.eqb delta 0%N then fail s ROk else
    if bal s src <? tok delta then fail s RBalance else
    match get_miner s id with
    | None => fail s RNoMiner
    | Some (k, sl) =>
      let stake' := ((s_stake sl + delta) mod U64)%N in
      let stat' := if (min_stake k <? stake')%N then 0%N else s_stat sl in
      {| o_w := WUpd k id stake' (s_acct sl) (wst e stat'); o_bal := fst (sub_bal (bal s) src (tok delta));
         o_pend := pend s; o_burn := burned s; o_res := ROk |}
    end
  | TRefund src json_ok amount id =>
    if negb json_ok then fail s RJson else
    match amount with
    | None => fail s RParse
    | Some money0 =>
      match get_miner s id with
      | None => fail s RNoMiner
      | Some (k, sl) =>
        if negb (N.eqb src (s_acct sl)) then fail s RAuth else
        let money := if N.eqb money0 MAXU64 then s_stake sl else money0 in
        if (s_stake sl <? money)%N then fail s RStake else
        let lft := (s_stake sl - money)%N in
        {| o_w := if (lft <? min_stake k)%N
                  then (if (N.eqb lft 0%N && negb (contract e src))%bool then WDel k id else WAbort k id lft)
                  else WUpd k id lft (s_acct sl) (wst e (s_stat sl));
           o_bal := bal s; o_pend := (refund_height e k h, s_acct sl, tok money) :: pend s;
           o_burn := burned s; o_res := ROk |}
      end
    end
  | TChange src json_ok id acct =>
    if negb json_ok then fail s RJson else
    match get_miner s id with
    | None => fail s RNoMiner
    | Some (k, sl) =>
      if N.eqb (s_acct sl) acct then fail s RSame else
      if negb (N.eqb (s_acct sl) src) then fail s RAuth else
      if is_some (by_account e s acct) then fail s RAcctExists else
      {| o_w := WUpd k id (s_stake sl) acct (wst e (s_stat sl)); o_bal := bal s; o_pend := pend s; o_burn := burned s; o_res := ROk |}
    end
  | TOpNode src evm =>
    if bal s src <? ten_tokens then fail s RBalance else
    let b1 := fst (sub_bal (bal s) src ten_tokens) in
    let s1 := set_bal s b1 in
    match by_account e s1 src with
    | None => fail s1 RNoMiner
    | Some id =>
      match get_miner s1 id with
      | None => fail s1 RNoMiner
      | Some (k, sl) =>
        match evm with
        | None => fail s1 REvm
        | Some c => {| o_w := WUpd k id (s_stake sl) c (wst e (s_stat sl)); o_bal := b1; o_pend := pend s;
                       o_burn := burned s + ten_tokens; o_res := ROk |}
        end
      end
    end
  end.

Section Keys.
Variable H : key -> key.       (* common.Sha256 on the key bytes *)
Variable idkey : N -> key.     (* the bytes of miner id i *)
Variable acct_u64 : N -> N.    (* ByteToUInt64 of the bytes of account a *)

Definition k0 (i : N) : key := idkey i.
Definition k1 (i : N) : key := H (idkey i).
Definition k2 (i : N) : key := H (H (idkey i)).
Definition k3 (i : N) : key := H (H (H (idkey i))).

Definition rd_info (c : option cell) : option N := match c with Some (CInfo _ ap) => Some ap | _ => None end.
Definition rd_stake (c : option cell) : N :=
  match c with Some (CStake n) => n | Some (CInfo _ _) => JSONPFX | Some (CAcct a) => acct_u64 a | _ => 0%N end.
Definition rd_acct (c : option cell) : N :=
  match c with Some (CAcct a) => a | Some (CInfo i _) => junk_json i | Some (CStake n) => junk_stake n
             | Some (CStat n) => junk_stat n | _ => 0%N end.
Definition rd_stat (c : option cell) : N := match c with Some (CStat n) => n | _ => 0%N end.

(* what GetData-based reads return for (kind, id): the slot view of the key-level storage *)
Definition view_cur (st : kstore) : regmap :=
  fun k i => {| s_info := rd_info (st k (k0 i)); s_stake := rd_stake (st k (k1 i));
                s_acct := rd_acct (st k (k2 i)); s_stat := rd_stat (st k (k3 i)) |}.

(* what the iterator accepts at key idkey i: a record stored under its own id (fix 40b39cf) *)
Definition view_trie (ts : kstore) : N -> N -> option N :=
  fun k i => match ts k (k0 i) with
             | Some (CInfo j ap) => if N.eqb (idkey j) (idkey i) then Some ap else None
             | _ => None
             end.

(* the SetData sequences *)
Definition k_apply_w (st : kstore) (w : wcmd) : kstore :=
  match w with
  | WNone => st
  | WNew k i ap stake acct ws =>
    let st3 := kupd (kupd (kupd st k (k0 i) (CInfo i ap)) k (k1 i) (CStake stake)) k (k2 i) (CAcct acct) in
    if ws then kupd st3 k (k3 i) (CStat 0) else st3
  | WUpd k i stake acct stat =>
    let st2 := kupd (kupd st k (k1 i) (CStake stake)) k (k2 i) (CAcct acct) in
    match stat with Some x => kupd st2 k (k3 i) (CStat x) | None => st2 end
  | WDel k i => kupd (kupd (kupd (kupd st k (k0 i) CEmpty) k (k1 i) CEmpty) k (k2 i) CEmpty) k (k3 i) CEmpty
  | WAbort k i lft => kupd (kupd st k (k1 i) (CStake lft)) k (k3 i) (CStat 1)
  end.

Record kst := { kcur : kstore;     (* GetData: cache over trie *)
                ktrie : kstore;    (* the storage trie as of the last flush *)
                kbal : bals; kpend : list (N * N * Z); kesc : list (N * N * Z); kburned : Z }.

Definition view (s : kst) : st :=
  {| cur := view_cur (kcur s); trie := view_trie (ktrie s); bal := kbal s; pend := kpend s; esc := kesc s;
     burned := kburned s |}.

Definition k_execute (e : env) (h : N) (t : tx) (s : kst) : kst * res :=
  let o := decide e h t (view s) in
  ({| kcur := k_apply_w (kcur s) (o_w o); ktrie := ktrie s; kbal := o_bal o; kpend := o_pend o; kesc := kesc s;
      kburned := o_burn o |}, o_res o).

Definition k_run_tx (e : env) (h : N) (t : tx) (s : kst) : kst * res :=
  if kbal s (tx_src t) <? tx_fee e then (s, REvict) else
  let s1 := {| kcur := kcur s; ktrie := ktrie s;
               kbal := add_bal (fst (sub_bal (kbal s) (tx_src t) (tx_fee e))) fee_account (tx_fee e);
               kpend := kpend s; kesc := kesc s; kburned := kburned s |} in
  match k_execute e h t s1 with
  | (s2, ROk) => (s2, ROk)
  | (s2, r) => ({| kcur := kcur s1; ktrie := ktrie s1; kbal := (if g002 (gates e) then kbal s1 else kbal s2); kpend := kpend s2; kesc := kesc s1;
                   kburned := kburned s1 |}, r)
  end.

(* the loop, keeping every intermediate state (the harness looks at the registry after every transaction) *)
Fixpoint k_run_txs (e : env) (h : N) (ts : list tx) (s : kst) : kst * list (res * kst) :=
  match ts with
  | [] => (s, [])
  | t :: r => let '(s1, x) := k_run_tx e h t s in
              let '(s2, xs) := k_run_txs e h r s1 in (s2, (x, s1) :: xs)
  end.

Definition flush (st : kstore) : kstore :=
  fun k x => match st k x with Some CEmpty => None | c => c end.

Definition k_end_block (h : N) (rw : list (N * N * Z)) (s : kst) : kst :=
  let '(b, l) := credit_due h (kpend s ++ rw ++ kesc s) (kbal s) in
  {| kcur := flush (kcur s); ktrie := flush (kcur s); kbal := b; kpend := []; kesc := l; kburned := kburned s |}.

(* every pair of the 4 keys of every id is distinct from every other *)
Fixpoint Hn (n : nat) (x : key) : key := match n with O => x | S m => H (Hn m x) end.
Definition keys_disjoint : Prop :=
  forall i j a b, (a <= 3)%nat -> (b <= 3)%nat -> Hn a (idkey i) = Hn b (idkey j) -> i = j /\ a = b.

End Keys.

(* ---- the block reward: RewardCalculator.calculateRewardPerBlock in exact arithmetic (copied from C06) ----
   per block T = 7350000 * (23/25)^epoch * (2/25) / blocksPerEpoch tokens; 3/14 to the account of the block's proposer,
   1/2 shared by the active proposers in proportion to their stakes (accumulated per account), 2/7 shared by the members
   of the verifying group in proportion to their stakes - ASSIGNED, replacing what the account gathered as a proposer.
   The code computes in float64 and truncates; the harness checks every amount within 2^-40 relative + 16 wei. *)
Definition reward_num (epoch : Z) : Z := 7350000 * 23 ^ epoch * 2 * 1000000000000000000.
Definition reward_den (epoch blocks_per_epoch : Z) : Z := 25 ^ (epoch + 1) * blocks_per_epoch.
Fixpoint sum_snd (l : list (N * Z)) : Z := match l with [] => 0 | (_, v) :: r => v + sum_snd r end.
Fixpoint acc_add (m : list (N * Z)) (a : N) (v : Z) : list (N * Z) :=
  match m with
  | [] => [(a, v)]
  | (x, y) :: r => if N.eqb x a then (x, y + v) :: r else (x, y) :: acc_add r a v
  end.
Definition nz1 (x : Z) : Z := if x =? 0 then 1 else x.
Definition reward_weights (castor : N) (proposers validators : list (N * Z)) : list (N * Z) :=
  let S := sum_snd proposers in let V := sum_snd validators in
  let base := fold_left (fun m p => acc_add m (fst p) (7 * snd p * nz1 V)) proposers [(castor, 3 * nz1 S * nz1 V)] in
  let kept := filter (fun p => negb (existsb (fun q => N.eqb (fst q) (fst p)) validators)) base in
  kept ++ map (fun q => (fst q, 4 * snd q * nz1 S)) validators.
Definition reward_weight_total (proposers validators : list (N * Z)) : Z :=
  14 * nz1 (sum_snd proposers) * nz1 (sum_snd validators).

(* the inputs of the formula as the after() phase reads them from the registry (all transactions executed, nothing
   flushed): getMinerAccount(castor) / GetProposerTotalStakeWithDetail(height) / GetValidatorsStake(group members);
   addr_of = common.BytesToAddress on account bytes *)
Definition reward_castor (addr_of : N -> N) (s : st) (castor : N) : N := addr_of (s_acct (cur s 1%N castor)).
Definition reward_proposers (addr_of : N -> N) (e : env) (s : st) (h : N) : list (N * Z) :=
  map (fun i => (addr_of (s_acct (cur s 1%N i)), Z.of_N (s_stake (cur s 1%N i)))) (proposer_members e s h).
Definition reward_validators (addr_of : N -> N) (s : st) (members : list N) : list (N * Z) :=
  fold_left (fun m i => let stake := s_stake (cur s 0%N i) in
                        if N.eqb stake 0 then m else acc_add m (addr_of (s_acct (cur s 0%N i))) (Z.of_N stake))
            members [].
