(* Evaluation of the C20 key-level model (KeyModel.v) on harness-written cases (correspondence check).
   One case = a state observed on the implementation at a block boundary and one or more blocks executed by the real
   VMExecutor loop (miner executors, MinerManager, RefundManager, RewardCalculator via the real after(), AccountDB):
     - the id universe in storage-trie order and the storage keys: the key of every id and the table of common.Sha256
       over the id bytes and their chains, with keys INTERNED by the harness (a small number per distinct real key byte
       string; the real bytes are in the case's JSON description, cases.jsonl) (so that keys of different ids that coincide in the implementation coincide in the model);
     - account universe (byte strings, some not 20 bytes), BytesToAddress on them, contract accounts, address universe
       for the balances, tracked escrow heights;
     - per block: height, transactions, and AFTER EVERY TRANSACTION (read by a probe transaction inside the running
       block): result class, every record GetMinerById finds, GetMinerIdByAccount for every account, the ids the
       iterator yields per kind, every balance; the rewards the after() phase scheduled with the inputs of the reward
       formula; the state after the boundary and the iterator-based entry points on it. *)
From Coq Require Import List ZArith NArith Bool String.
From V.C20 Require Import Model KeyModel.
Import ListNotations.
Local Open Scope Z_scope.

(* a miner record: kind, id, applyHeight, stake, account, status *)
Definition mrec := (N * N * N * N * N * N)%type.

Record ostate := { o_miners : list mrec;         (* kind 0 first, ids in universe order *)
                   o_bals : list (N * Z);        (* address, balance; every address of the universe *)
                   o_esc : list (N * N * Z) }.   (* height, address, amount; non-zero entries *)

Record txobs := { t_res : N; t_miners : list mrec; t_byacct : list (option N); t_it0 : list N; t_it1 : list N;
                  t_bal : list (N * Z);
                  t_gm : list N }.   (* the typeless MinerManager.GetMiner(id) per id: 0 nil, 1 validator, 2 proposer *)

Record oviews := { v_by_account : list (option N); v_iter0 : list N; v_iter1 : list N;
                   v_total : N; v_count : N; v_all0 : list (N * N); v_all1 : list (N * N); v_vstake : N }.

Record blk := { b_h : N; b_txs : list tx; b_obs : list txobs;
                b_rewards : list (N * N * Z);                  (* observed: height, address, amount *)
                b_rinfo : option (N * list N * Z);             (* castor id, group members, blocks per epoch *)
                b_post : ostate; b_qh : N; b_views : oviews }.

Record case := { c_gates : gate; c_ids : list N; c_idkeys : list (N * N); c_H : list (N * N);
                 c_au64 : list (N * N); c_addr : list (N * N);
                 c_contracts : list N; c_accts : list N; c_addrs : list N; c_heights : list N;
                 c_pre : ostate; c_blocks : list blk }.

Definition tblN {A} (t : list (N * A)) (d : N -> A) (i : N) : A :=
  match find (fun p => N.eqb (fst p) i) t with Some p => snd p | None => d i end.

Section Case.
Variable c : case.
Let H := tblN (c_H c) (fun x => (2 * x + 1)%N).
Let idkey := tblN (c_idkeys c) (fun _ => 0%N).
Let au64 := tblN (c_au64 c) (fun _ => 0%N).
Let addr_of := tblN (c_addr c) (fun a => a).
Let e : env := {| ids := c_ids c; contract := fun a => existsb (N.eqb a) (c_contracts c); gates := c_gates c |}.

Definition vw (s : kst) : st := view H idkey au64 s.

Definition load_store (ms : list mrec) : kstore :=
  fold_left (fun st (m : mrec) =>
    let '(k, i, ap, stk, ac, stt) := m in
    k_apply_w H idkey (k_apply_w H idkey st (WNew k i ap stk ac true)) (WUpd k i stk ac (Some stt))) ms (fun _ _ => None).

Definition load_bal (l : list (N * Z)) : bals := fold_right (fun p b => upd b (fst p) (snd p)) (fun _ => 0) l.

Definition load (o : ostate) : kst :=
  let st := load_store (o_miners o) in
  {| kcur := st; ktrie := st; kbal := load_bal (o_bals o); kpend := []; kesc := o_esc o; kburned := 0 |}.

Definition dump_miners (s : st) : list mrec :=
  flat_map (fun k => flat_map (fun i =>
     match by_id s k i with
     | Some sl => [(k, i, match s_info sl with Some a => a | None => 0%N end, s_stake sl, s_acct sl, s_stat sl)]
     | None => [] end) (c_ids c)) [0%N; 1%N].

Definition esc_at (l : list (N * N * Z)) (h a : N) : Z :=
  fold_right (fun (x : N * N * Z) acc => let '(h', a', v) := x in if (N.eqb h' h && N.eqb a' a)%bool then v + acc else acc) 0 l.

Definition dump_esc (s : st) : list (N * N * Z) :=
  flat_map (fun h => flat_map (fun a => let v := esc_at (esc s) h a in if v =? 0 then [] else [(h, a, v)]) (c_addrs c)) (c_heights c).

Definition mrec_eqb (x y : mrec) : bool :=
  let '(a1, a2, a3, a4, a5, a6) := x in let '(b1, b2, b3, b4, b5, b6) := y in
  (N.eqb a1 b1 && N.eqb a2 b2 && N.eqb a3 b3 && N.eqb a4 b4 && N.eqb a5 b5 && N.eqb a6 b6)%bool.

Fixpoint list_eqb {A} (eq : A -> A -> bool) (a b : list A) : bool :=
  match a, b with
  | [], [] => true
  | x :: a', y :: b' => eq x y && list_eqb eq a' b'
  | _, _ => false
  end.

Definition esc_eqb (x y : N * N * Z) : bool :=
  let '(a1, a2, a3) := x in let '(b1, b2, b3) := y in (N.eqb a1 b1 && N.eqb a2 b2 && (a3 =? b3))%bool.
Definition nz_eqb (x y : N * Z) : bool := (N.eqb (fst x) (fst y) && (snd x =? snd y))%bool.
Definition nn_eqb (x y : N * N) : bool := (N.eqb (fst x) (fst y) && N.eqb (snd x) (snd y))%bool.
Definition optn_eqb (x y : option N) : bool :=
  match x, y with Some a, Some b => N.eqb a b | None, None => true | _, _ => false end.

(* one transaction's observation against the model state after it *)
Definition txobs_ok (x : res * kst) (o : txobs) : bool :=
  let s := vw (snd x) in
  N.eqb (res_code (fst x)) (t_res o)
  && list_eqb mrec_eqb (dump_miners s) (t_miners o)
  && list_eqb optn_eqb (map (by_account e s) (0%N :: c_accts c)) (t_byacct o)
  && list_eqb N.eqb (iter_ids e s 0) (t_it0 o)
  && list_eqb N.eqb (iter_ids e s 1) (t_it1 o)
  && list_eqb nz_eqb (map (fun a => (a, bal s a)) (c_addrs c)) (t_bal o)
  && list_eqb N.eqb (map (fun i => match get_miner s i with None => 0%N | Some (k, _) => (k + 1)%N end) (c_ids c)) (t_gm o).

Fixpoint all2 {A B} (f : A -> B -> bool) (a : list A) (b : list B) : bool :=
  match a, b with
  | [], [] => true
  | x :: a', y :: b' => f x y && all2 f a' b'
  | _, _ => false
  end.

(* the reward amounts against the exact formula on the model's own registry views: relative 2^-40 plus 16 wei *)
Fixpoint lookup (m : list (N * Z)) (a : N) : Z :=
  match m with [] => 0 | (x, v) :: r => if N.eqb x a then v else lookup r a end.
Definition close (obs num den : Z) : bool :=
  Z.abs (obs * den - num) * 1099511627776 <=? num + 16 * den * 1099511627776.
Definition reward_ok (s : st) (h : N) (ri : option (N * list N * Z)) (rw : list (N * N * Z)) : bool :=
  match ri with
  | None => match rw with [] => true | _ => false end
  | Some (castor, members, bpe) =>
    let rs := map (fun x : N * N * Z => (snd (fst x), snd x)) rw in
    let ps := reward_proposers addr_of e s h in
    let vs := reward_validators addr_of s members in
    let epoch := Z.of_N h / bpe in
    let num := reward_num epoch in
    let den := reward_den epoch bpe * reward_weight_total ps vs in
    let ws := reward_weights (reward_castor addr_of s castor) ps vs in
    forallb (fun p => close (lookup rs (fst p)) (num * snd p) den) ws
    && forallb (fun p => close (snd p) (num * lookup ws (fst p)) den) rs
    && (sum_snd ws <=? reward_weight_total ps vs)
  end.

Definition block_ok (s0 : kst) (b : blk) : kst * bool :=
  let '(s1, xs) := k_run_txs H idkey au64 e (b_h b) (b_txs b) s0 in
  let s2 := k_end_block (b_h b) (b_rewards b) s1 in
  let s := vw s2 in
  let v := b_views b in
  (s2,
   all2 txobs_ok xs (b_obs b)
   && reward_ok (vw s1) (b_h b) (b_rinfo b) (b_rewards b)
   && list_eqb mrec_eqb (dump_miners s) (o_miners (b_post b))
   && list_eqb nz_eqb (map (fun a => (a, bal s a)) (c_addrs c)) (o_bals (b_post b))
   && list_eqb esc_eqb (dump_esc s) (o_esc (b_post b))
   && list_eqb optn_eqb (map (by_account e s) (0%N :: c_accts c)) (v_by_account v)
   && list_eqb N.eqb (iter_ids e s 0) (v_iter0 v)
   && list_eqb N.eqb (iter_ids e s 1) (v_iter1 v)
   && N.eqb (proposer_total e s (b_qh b)) (v_total v)
   && N.eqb (proposer_count e s (b_qh b)) (v_count v)
   && list_eqb nn_eqb (map (fun p => (fst p, addr_of (snd p))) (all_id_account e s 0 (b_qh b))) (v_all0 v)
   && list_eqb nn_eqb (map (fun p => (fst p, addr_of (snd p))) (all_id_account e s 1 (b_qh b))) (v_all1 v)
   && N.eqb (validators_stake s (c_ids c)) (v_vstake v)).

Definition check_blocks : bool :=
  snd (fold_left (fun (acc : kst * bool) b => let '(s, ok) := acc in let '(s', ok') := block_ok s b in (s', ok && ok'))
                 (c_blocks c) (load (c_pre c), true)).
End Case.

Definition check (c : case) : bool := check_blocks c.

(* short constructors for the case files *)
Definition OS (m : list mrec) (b : list (N * Z)) (e : list (N * N * Z)) : ostate :=
  {| o_miners := m; o_bals := b; o_esc := e |}.
Definition TO r m ba i0 i1 b gm : txobs :=
  {| t_res := r; t_miners := m; t_byacct := ba; t_it0 := i0; t_it1 := i1; t_bal := b; t_gm := gm |}.
Definition VW ba i0 i1 t c a0 a1 vs : oviews :=
  {| v_by_account := ba; v_iter0 := i0; v_iter1 := i1; v_total := t; v_count := c; v_all0 := a0; v_all1 := a1; v_vstake := vs |}.
Definition BK h txs obs rw ri post qh vw : blk :=
  {| b_h := h; b_txs := txs; b_obs := obs; b_rewards := rw; b_rinfo := ri; b_post := post; b_qh := qh; b_views := vw |}.
Definition GT a b c d f : gate := {| g002 := a; g003 := b; g004 := c; g012 := d; g026 := f |}.
Definition CS g i ik ht au ad ct ac aa hs pre bs : case :=
  {| c_gates := g; c_ids := i; c_idkeys := ik; c_H := ht; c_au64 := au; c_addr := ad; c_contracts := ct; c_accts := ac; c_addrs := aa;
     c_heights := hs; c_pre := pre; c_blocks := bs |}.

(* ---- literal key bytes: a case family in which H is the Gallina SHA-256 (C20/Sha256.v) on the REAL id bytes ----
   A key is the number 0x01 followed by its bytes (big-endian), so length and leading zeros are kept. The SHA-256
   chains of the ids are computed here, compared with the chains the node's common.Sha256 produced (l_chain), and
   used as the model's H: the storage-key derivations are confirmed end to end, including the aliasing scenarios
   where the second id IS the hash of the first. *)
From V.Base Require Import Hex.
From V.C20 Require Import Sha256.

Definition enc (b : bytes) : N := fold_left (fun acc x => (acc * 256 + x)%N) b 1%N.
Fixpoint dec_aux (fuel : nat) (n : N) (acc : bytes) : bytes :=
  match fuel with
  | O => acc
  | S f => if (n <=? 1)%N then acc else dec_aux f (n / 256)%N ((n mod 256)%N :: acc)
  end.
Definition dec (n : N) : bytes := dec_aux (N.to_nat (N.size n)) n [].
Definition Hs (x : N) : N := enc (sha256 (dec x)).

Definition chain7 (x0 : N) : list (N * N) :=
  let x1 := Hs x0 in let x2 := Hs x1 in let x3 := Hs x2 in let x4 := Hs x3 in let x5 := Hs x4 in let x6 := Hs x5 in
  let x7 := Hs x6 in [(x0, x1); (x1, x2); (x2, x3); (x3, x4); (x4, x5); (x5, x6); (x6, x7)].

Record lcase := { l_case : case; l_chain : list (N * N) }.

Definition check_lit (l : lcase) : bool :=
  let c := l_case l in
  let tbl := flat_map (fun p => chain7 (snd p)) (c_idkeys c) in
  list_eqb nn_eqb tbl (l_chain l)
  && check {| c_gates := c_gates c; c_ids := c_ids c; c_idkeys := c_idkeys c; c_H := tbl; c_au64 := c_au64 c; c_addr := c_addr c;
              c_contracts := c_contracts c; c_accts := c_accts c; c_addrs := c_addrs c; c_heights := c_heights c;
              c_pre := c_pre c; c_blocks := c_blocks c |}.

Definition CSL c ch : lcase := {| l_case := c; l_chain := ch |}.

Example enc_dec_example : dec (enc [0; 7; 255]%N) = [0; 7; 255]%N.
Proof. vm_compute. reflexivity. Qed.
