(* Evaluation of the C20 model on harness-written cases (correspondence check).
   One case = one block executed by the real VMExecutor loop (miner executors, MinerManager, RefundManager,
   AccountDB) on an in-memory state, between two block boundaries:
     - the id universe in storage-trie order, the contract accounts, the account universe, the tracked
       escrow heights;
     - the state observed on the implementation before the block (every registered record read through
       GetMinerById, balances, escrow);
     - the block (height, transactions as model terms);
     - observed: the result class of every transaction, the state after the boundary, and what the
       iterator-based entry points return on it. *)
From Coq Require Import List ZArith NArith Bool.
From V.C20 Require Import Model.
Import ListNotations.
Local Open Scope Z_scope.

(* a miner record: kind, id, applyHeight, stake, account, status *)
Definition mrec := (N * N * N * N * N * N)%type.

Record ostate := { o_miners : list mrec;         (* kind 0 first, ids in universe order *)
                   o_bal : list (N * Z);         (* account, balance; every account of the universe *)
                   o_esc : list (N * N * Z) }.   (* height, account, amount; non-zero entries *)

Definition load_cur (ms : list mrec) : regmap :=
  fold_right (fun (m : mrec) r =>
    let '(k, i, ap, stk, ac, stt) := m in
    updr r k i {| s_info := Some ap; s_stake := stk; s_acct := ac; s_stat := stt |}) (fun _ _ => slot0) ms.

Definition load_bal (l : list (N * Z)) : bals :=
  fold_right (fun p b => upd b (fst p) (snd p)) (fun _ => 0) l.

(* a state at a block boundary: the trie holds exactly the registered json entries *)
Definition load (o : ostate) : st :=
  let c := load_cur (o_miners o) in
  {| cur := c; trie := fun k i => s_info (c k i); bal := load_bal (o_bal o); pend := []; esc := o_esc o; burned := 0 |}.

Definition dump_miners (I : list N) (s : st) : list mrec :=
  flat_map (fun k => flat_map (fun i =>
     match by_id s k i with
     | Some sl => [(k, i, match s_info sl with Some a => a | None => 0%N end, s_stake sl, s_acct sl, s_stat sl)]
     | None => [] end) I) [0%N; 1%N].

Definition esc_at (l : list (N * N * Z)) (h a : N) : Z :=
  fold_right (fun (x : N * N * Z) acc => let '(h', a', v) := x in if (N.eqb h' h && N.eqb a' a)%bool then v + acc else acc) 0 l.

Definition dump_esc (H A : list N) (s : st) : list (N * N * Z) :=
  flat_map (fun h => flat_map (fun a => let v := esc_at (esc s) h a in if v =? 0 then [] else [(h, a, v)]) A) H.

Definition mrec_eqb (x y : mrec) : bool :=
  let '(a1, a2, a3, a4, a5, a6) := x in let '(b1, b2, b3, b4, b5, b6) := y in
  (N.eqb a1 b1 && N.eqb a2 b2 && N.eqb a3 b3 && N.eqb a4 b4 && N.eqb a5 b5 && N.eqb a6 b6)%bool.

Fixpoint list_eqb {A} (eq : A -> A -> bool) (a b : list A) : bool :=
  match a, b with
  | [], [] => true
  | x :: a', y :: b' => eq x y && list_eqb eq a' b'
  | _, _ => false
  end.

Definition esc_eqb (x y : N * N * Z) : bool :=
  let '(a1, a2, a3) := x in let '(b1, b2, b3) := y in (N.eqb a1 b1 && N.eqb a2 b2 && (a3 =? b3))%bool.
Definition nz_eqb (x y : N * Z) : bool := (N.eqb (fst x) (fst y) && (snd x =? snd y))%bool.
Definition nn_eqb (x y : N * N) : bool := (N.eqb (fst x) (fst y) && N.eqb (snd x) (snd y))%bool.
Definition optn_eqb (x y : option N) : bool :=
  match x, y with Some a, Some b => N.eqb a b | None, None => true | _, _ => false end.

(* what the iterator-based entry points returned on the state after the boundary *)
Record oviews := { v_by_account : list (option N);   (* GetMinerIdByAccount for every account of A (and the empty one first) *)
                   v_iter0 : list N; v_iter1 : list N; (* ids met by the iterator, per kind, in order *)
                   v_total : N; v_count : N;           (* GetProposerTotalStakeWithDetail(qh) *)
                   v_all0 : list (N * N); v_all1 : list (N * N); (* GetAllMinerIdAndAccount(qh), id order *)
                   v_vstake : N }.                     (* GetValidatorsStake(all ids) *)

Record case := { c_ids : list N; c_contracts : list N; c_accts : list N; c_heights : list N;
                 c_pre : ostate; c_h : N; c_txs : list tx;
                 c_res : list N; c_post : ostate; c_qh : N; c_views : oviews }.

Definition env_of (c : case) : env :=
  {| ids := c_ids c; contract := fun a => existsb (N.eqb a) (c_contracts c) |}.

Definition check (c : case) : bool :=
  let e := env_of c in
  let '(s, rs) := run_block e (c_h c) (c_txs c) (load (c_pre c)) in
  let v := c_views c in
  list_eqb N.eqb (map res_code rs) (c_res c)
  && list_eqb mrec_eqb (dump_miners (c_ids c) s) (o_miners (c_post c))
  && list_eqb nz_eqb (map (fun a => (a, bal s a)) (c_accts c)) (o_bal (c_post c))
  && list_eqb esc_eqb (dump_esc (c_heights c) (c_accts c) s) (o_esc (c_post c))
  && list_eqb optn_eqb (map (by_account e s) (0%N :: c_accts c)) (v_by_account v)
  && list_eqb N.eqb (iter_ids e s 0) (v_iter0 v)
  && list_eqb N.eqb (iter_ids e s 1) (v_iter1 v)
  && N.eqb (proposer_total e s (c_qh c)) (v_total v)
  && N.eqb (proposer_count e s (c_qh c)) (v_count v)
  && list_eqb nn_eqb (all_id_account e s 0 (c_qh c)) (v_all0 v)
  && list_eqb nn_eqb (all_id_account e s 1 (c_qh c)) (v_all1 v)
  && N.eqb (validators_stake s (c_ids c)) (v_vstake v).

(* short constructors for the case files *)
Definition OS (m : list mrec) (b : list (N * Z)) (e : list (N * N * Z)) : ostate :=
  {| o_miners := m; o_bal := b; o_esc := e |}.
Definition VW ba i0 i1 t c a0 a1 vs : oviews :=
  {| v_by_account := ba; v_iter0 := i0; v_iter1 := i1; v_total := t; v_count := c; v_all0 := a0; v_all1 := a1; v_vstake := vs |}.
Definition CS i ct ac hs pre h txs rs post qh vw : case :=
  {| c_ids := i; c_contracts := ct; c_accts := ac; c_heights := hs; c_pre := pre; c_h := h; c_txs := txs;
     c_res := rs; c_post := post; c_qh := qh; c_views := vw |}.
