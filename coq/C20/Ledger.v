(* C20 proofs, part 3: the stake ledger. liquid + locked + scheduled (+ the ghost of the operator-node charge)
   is constant across every miner transaction, successful or rejected, and across the end of the block; balances
   stay non-negative; stake arithmetic never wraps under the supply bound; per-miner stake accounting;
   a rejected transaction changes nothing but the fee.
   (The finite-sum lemmas follow coq/C06/Proofs.v.) *)
From Coq Require Import List ZArith NArith Lia Bool.
From V.C20 Require Import Model Proofs Unique.
Import ListNotations.
Local Open Scope Z_scope.

(* ---------- balances: pointwise update and finite sums ---------- *)
Lemma upd_same : forall b a v, upd b a v a = v.
Proof. intros. unfold upd. now rewrite N.eqb_refl. Qed.

Lemma upd_other : forall b a v x, x <> a -> upd b a v x = b x.
Proof. intros. unfold upd. destruct (N.eqb_spec x a); congruence. Qed.

Lemma sumU_upd_notin : forall U b a v, ~ In a U -> sumU U (upd b a v) = sumU U b.
Proof.
  induction U as [|x U IH]; intros b a v Hn; cbn [sumU]; [reflexivity|].
  rewrite upd_other by (intro; subst; apply Hn; now left).
  rewrite IH; [reflexivity|]. intro; apply Hn; now right.
Qed.

Lemma sumU_upd_in : forall U b a v, NoDup U -> In a U -> sumU U (upd b a v) = sumU U b - b a + v.
Proof.
  induction U as [|x U IH]; intros b a v Hnd Hin; [destruct Hin|].
  inversion Hnd as [|? ? Hx Hnd']; subst. cbn [sumU].
  destruct (N.eq_dec x a) as [->|Hne].
  - rewrite upd_same, sumU_upd_notin by assumption. lia.
  - rewrite upd_other by assumption. destruct Hin as [->|Hin]; [congruence|].
    rewrite IH by assumption. lia.
Qed.

Definition bnonneg (b : bals) : Prop := forall a, 0 <= b a.

Lemma sumU_nonneg : forall U b, bnonneg b -> 0 <= sumU U b.
Proof. induction U as [|x U IH]; intros b Hb; cbn [sumU]; [lia|]. pose proof (IH b Hb). specialize (Hb x). lia. Qed.

Lemma sumU_ge : forall U b a, bnonneg b -> In a U -> b a <= sumU U b.
Proof.
  induction U as [|x U IH]; intros b a Hb Hin; [destruct Hin|]. cbn [sumU].
  destruct Hin as [->|Hin].
  - pose proof (sumU_nonneg U b Hb). lia.
  - specialize (IH b a Hb Hin). specialize (Hb x). lia.
Qed.

Lemma upd_nonneg : forall b a v, bnonneg b -> 0 <= v -> bnonneg (upd b a v).
Proof. intros b a v Hb Hv x. unfold upd. destruct (N.eqb x a); auto. Qed.

Lemma add_bal_nonneg : forall b a v, bnonneg b -> bnonneg (add_bal b a v).
Proof. intros. unfold add_bal. apply upd_nonneg; [assumption|apply Z.abs_nonneg]. Qed.

Lemma sub_bal_nonneg : forall b a v, bnonneg b -> bnonneg (fst (sub_bal b a v)).
Proof.
  intros b a v Hb. unfold sub_bal. destruct (Z.ltb_spec (b a) v); cbn [fst]; [assumption|].
  apply upd_nonneg; [assumption|lia].
Qed.

Lemma add_bal_sum : forall U b a v, NoDup U -> In a U -> 0 <= b a + v ->
  sumU U (add_bal b a v) = sumU U b + v.
Proof. intros. unfold add_bal. rewrite sumU_upd_in by assumption. rewrite Z.abs_eq by assumption. lia. Qed.

Lemma sub_bal_sum_ok : forall U b a v, NoDup U -> In a U -> v <= b a ->
  sumU U (fst (sub_bal b a v)) = sumU U b - v.
Proof.
  intros. unfold sub_bal. destruct (Z.ltb_spec (b a) v); [lia|]. cbn [fst].
  rewrite sumU_upd_in by assumption. lia.
Qed.

Lemma move_sum : forall U b from to v, NoDup U -> In from U -> In to U -> bnonneg b ->
  0 <= v -> v <= b from ->
  sumU U (add_bal (fst (sub_bal b from v)) to v) = sumU U b.
Proof.
  intros U b from to v Hnd Hf Ht Hb Hv Hle.
  rewrite add_bal_sum; try assumption.
  - rewrite sub_bal_sum_ok by assumption. lia.
  - pose proof (sub_bal_nonneg b from v Hb to). lia.
Qed.

(* ---------- locked stake: finite sum over the id universe ---------- *)
Lemma tok_nonneg : forall n, 0 <= tok n.
Proof. intros. unfold tok, E18. lia. Qed.

Lemma tok_add : forall a b, tok (a + b) = tok a + tok b.
Proof. intros. unfold tok, E18. lia. Qed.

Lemma tok_sub : forall a b, (b <= a)%N -> tok (a - b) = tok a - tok b.
Proof. intros. unfold tok, E18. lia. Qed.

Lemma stake_at_updr_other : forall c k i v j, j <> i -> stake_at (updr c k i v) j = stake_at c j.
Proof. intros. unfold stake_at. rewrite !updr_other by congruence. reflexivity. Qed.

Lemma stake_at_updr_same : forall c k i v, (k = 0%N \/ k = 1%N) ->
  stake_at (updr c k i v) i = stake_at c i - tok (s_stake (c k i)) + tok (s_stake v).
Proof.
  intros c k i v [-> | ->]; unfold stake_at.
  - rewrite updr_same, updr_other by congruence. lia.
  - rewrite updr_same, updr_other by congruence. lia.
Qed.

Lemma locked_updr_notin : forall I c k i v, ~ In i I -> locked_sum I (updr c k i v) = locked_sum I c.
Proof.
  induction I as [|x I IH]; intros c k i v Hn; cbn [locked_sum]; [reflexivity|].
  rewrite stake_at_updr_other by (intro; subst; apply Hn; now left).
  rewrite IH; [reflexivity|]. intro; apply Hn; now right.
Qed.

Lemma locked_updr_in : forall I c k i v, NoDup I -> In i I -> (k = 0%N \/ k = 1%N) ->
  locked_sum I (updr c k i v) = locked_sum I c - tok (s_stake (c k i)) + tok (s_stake v).
Proof.
  induction I as [|x I IH]; intros c k i v Hnd Hin Hk; [destruct Hin|].
  inversion Hnd as [|? ? Hx Hnd']; subst. cbn [locked_sum].
  destruct (N.eq_dec x i) as [->|Hne].
  - rewrite stake_at_updr_same, locked_updr_notin by assumption. lia.
  - rewrite stake_at_updr_other by assumption. destruct Hin as [->|Hin]; [congruence|].
    rewrite IH by assumption. lia.
Qed.

Lemma stake_at_nonneg : forall c i, 0 <= stake_at c i.
Proof. intros. unfold stake_at. pose proof (tok_nonneg (s_stake (c 0%N i))). pose proof (tok_nonneg (s_stake (c 1%N i))). lia. Qed.

Lemma locked_nonneg : forall I c, 0 <= locked_sum I c.
Proof. induction I as [|x I IH]; intros c; cbn [locked_sum]; [lia|]. pose proof (stake_at_nonneg c x). specialize (IH c). lia. Qed.

Lemma locked_ge : forall I c k i, In i I -> (k = 0%N \/ k = 1%N) -> tok (s_stake (c k i)) <= locked_sum I c.
Proof.
  induction I as [|x I IH]; intros c k i Hin Hk; [destruct Hin|]. cbn [locked_sum].
  destruct Hin as [->|Hin].
  - pose proof (locked_nonneg I c). unfold stake_at.
    pose proof (tok_nonneg (s_stake (c 0%N i))). pose proof (tok_nonneg (s_stake (c 1%N i))).
    destruct Hk as [-> | ->]; lia.
  - specialize (IH c k i Hin Hk). pose proof (stake_at_nonneg c x). lia.
Qed.

(* ---------- escrow ---------- *)
Definition sched_ok (A : list N) (l : list (N * N * Z)) : Prop :=
  Forall (fun x => In (snd (fst x)) A /\ 0 <= snd x) l.

Lemma sched_total_nonneg : forall A l, sched_ok A l -> 0 <= sched_total l.
Proof.
  intros A l H. induction H as [|[[h a] v] r [_ Hv] _ IH]; cbn [sched_total]; [lia|]. cbn [snd] in Hv. lia.
Qed.

Lemma sched_total_app : forall a b, sched_total (a ++ b) = sched_total a + sched_total b.
Proof. induction a as [|[[h x] v] r IH]; intros b; cbn [sched_total app]; [lia|]. rewrite IH. lia. Qed.

Lemma credit_due_good : forall A h l b, NoDup A -> sched_ok A l -> bnonneg b ->
  bnonneg (fst (credit_due h l b)) /\ sched_ok A (snd (credit_due h l b)) /\
  sumU A (fst (credit_due h l b)) + sched_total (snd (credit_due h l b)) = sumU A b + sched_total l.
Proof.
  intros A h l. induction l as [|[[h' a] v] r IH]; intros b Hnd Hs Hb; cbn [credit_due sched_total].
  - cbn. repeat split; try assumption.
  - inversion Hs as [|? ? Hx Hr]; subst. cbn [fst snd] in Hx. destruct Hx as (Ha & Hv).
    destruct (IH b Hnd Hr Hb) as (H1 & H2 & H3).
    destruct (credit_due h r b) as [b' r']. cbn [fst snd] in *.
    destruct (N.eqb h' h); cbn [fst snd sched_total].
    + repeat split; try assumption.
      * apply add_bal_nonneg; assumption.
      * rewrite add_bal_sum; try assumption; [lia|]. specialize (H1 a). lia.
    + repeat split; try assumption; try lia. constructor; [split; assumption|assumption].
Qed.

(* ---------- the invariant ---------- *)
Definition led_inv (A I : list N) (W : Z) (s : st) : Prop :=
  creg_wf I (cur s) /\ bnonneg (bal s) /\ sched_ok A (pend s) /\ sched_ok A (esc s) /\ 0 <= burned s /\
  wealth A I s = W.

Definition universe (A I : list N) : Prop := NoDup A /\ NoDup I /\ In fee_account A.

Definition tx_closed (A I : list N) (t : tx) : Prop := In (tx_src t) A /\ tx_closed_ids I t.

(* total supply below 2^64 tokens: the uint64 stake arithmetic of AddStake cannot wrap.
   (Float64ToBigInt(float64(stake)) is exact below 2^53 tokens - that bound is an assumption of the model.) *)
Definition supply_bound (W : Z) : Prop := W < tok U64.

Ltac inv_split := split; [|split; [|split; [|split; [|split]]]].

Lemma tx_fee_pos : forall e, 0 <= tx_fee e.
Proof. intros e. unfold tx_fee. destruct (g026 (gates e)); lia. Qed.

Lemma fee_step_inv : forall A I W e s src, universe A I -> In src A -> led_inv A I W s ->
  led_inv A I W (fst (fee_step e s src)).
Proof.
  intros A I W e s src (HA & HI & Hfee) Hsrc (Hwf & Hb & Hp & He & Hbu & Hw). unfold fee_step.
  pose proof (tx_fee_pos e) as Hfp.
  destruct (Z.ltb_spec (bal s src) (tx_fee e)); cbn [fst]; [unfold led_inv; tauto|].
  unfold led_inv, wealth, set_bal in *; cbn [cur bal pend esc burned]. inv_split; try assumption.
  - apply add_bal_nonneg, sub_bal_nonneg, Hb.
  - rewrite move_sum; try assumption; lia.
Qed.

Lemma no_wrap : forall A I W s src k i delta, universe A I -> supply_bound W -> led_inv A I W s ->
  In src A -> reg (cur s) k i -> tok delta <= bal s src ->
  ((s_stake (cur s k i) + delta) mod U64 = s_stake (cur s k i) + delta)%N.
Proof.
  intros A I W s src k i delta (HA & HI & _) HW (Hwf & Hb & Hp & He & Hbu & Hw) Hsrc Hr Hle.
  destruct Hwf as (Hk & _). destruct (Hk k i Hr) as [Hk01 Hin].
  apply N.mod_small. unfold supply_bound, wealth in *.
  pose proof (locked_ge I (cur s) k i Hin Hk01). pose proof (sumU_ge A (bal s) src Hb Hsrc).
  pose proof (sched_total_nonneg A _ Hp). pose proof (sched_total_nonneg A _ He).
  assert (tok (s_stake (cur s k i) + delta) < tok U64) by (rewrite tok_add; lia).
  unfold tok, E18 in *. lia.
Qed.

(* Execute keeps the invariant: on success by the matching debit/credit, on failure the loop reverts *)
Lemma execute_inv : forall A I W e h t s s', universe A I -> supply_bound W -> tx_closed A I t -> led_inv A I W s ->
  execute e h t s = (s', ROk) -> led_inv A I W s'.
Proof.
  intros A I W e h t s s' HU HW [Hsrc Hid] Hinv Hex.
  assert (Hwf' : creg_wf I (cur s')).
  { destruct (execute_shape e h t s s' ROk Hex) as (_ & _ & Hsh). destruct Hinv as (Hwf & _).
    eapply shape_wf; eauto. }
  pose proof HU as (HA & HI & Hfee). pose proof Hinv as (Hwf & Hb & Hp & He & Hbu & Hw).
  pose proof Hwf as (Hk & Hcl & H1).
  destruct t as [src jok typ id stake acct kok | src jok id delta | src jok amount id | src jok id acct | src evm];
    cbn [execute tx_src] in *.
  - (* apply *)
    destruct jok; cbn [negb] in Hex; [|discriminate].
    destruct (N.eqb typ 0 || N.eqb typ 1)%bool eqn:Et; cbn [negb] in Hex; [|discriminate].
    destruct (stake <? min_stake typ)%N; [discriminate|].
    destruct kok; cbn [negb] in Hex; [|discriminate].
    destruct (Z.ltb_spec (bal s src) (tok stake)); [discriminate|].
    destruct (is_some (get_miner s id)) eqn:Eg; [discriminate|].
    destruct (is_some (by_account e s (if N.eqb acct 0 then src else acct))); [discriminate|].
    injection Hex as <-. apply is_some_false in Eg. apply get_miner_none in Eg. destruct Eg as [H0 H1'].
    assert (Hk01 : typ = 0%N \/ typ = 1%N) by (apply orb_true_iff in Et; destruct Et as [Et|Et]; apply N.eqb_eq in Et; auto).
    assert (Hz : s_stake (cur s typ id) = 0%N).
    { assert (Hn : s_info (cur s typ id) = None).
      { destruct Hk01 as [-> | ->]; unfold registered in *; [destruct (s_info (cur s 0%N id))|destruct (s_info (cur s 1%N id))];
          try reflexivity; exfalso; [apply H0|apply H1']; discriminate. }
      rewrite (Hcl _ _ Hn). reflexivity. }
    unfold tx_closed_ids in Hid. cbn [apply_id] in Hid.
    unfold led_inv, wealth in *; cbn [cur bal pend esc burned set_cur set_bal] in *.
    inv_split; try assumption; try exact Hwf'.
    + apply sub_bal_nonneg, Hb.
    + rewrite sub_bal_sum_ok by (try assumption; lia).
      rewrite locked_updr_in by assumption. cbn [s_stake]. rewrite Hz. unfold tok at 2. lia.
  - (* add *)
    destruct jok; cbn [negb] in Hex; [|discriminate].
    destruct (N.eqb delta 0); [injection Hex as <-; exact Hinv|].
    destruct (Z.ltb_spec (bal s src) (tok delta)); [discriminate|].
    destruct (get_miner s id) as [[k sl]|] eqn:Eg; [|discriminate].
    injection Hex as <-. apply get_miner_reg in Eg. destruct Eg as (Hk01 & Hr & ->).
    destruct (Hk k id Hr) as [_ Hin].
    pose proof (no_wrap A I W s src k id delta HU HW Hinv Hsrc Hr ltac:(lia)) as Hnw.
    unfold led_inv, wealth, update_miner in *; cbn [cur bal pend esc burned set_cur set_bal] in *.
    inv_split; try assumption; try exact Hwf'.
    + apply sub_bal_nonneg, Hb.
    + rewrite sub_bal_sum_ok by (try assumption; lia).
      rewrite locked_updr_in by assumption. cbn [s_stake]. rewrite Hnw, tok_add. lia.
  - (* refund *)
    destruct jok; cbn [negb] in Hex; [|discriminate].
    destruct amount as [money0|]; [|discriminate].
    destruct (get_miner s id) as [[k sl]|] eqn:Eg; [|discriminate].
    destruct (N.eqb_spec src (s_acct sl)) as [Hacct|]; cbn [negb] in Hex; [|discriminate].
    set (money := if N.eqb money0 MAXU64 then s_stake sl else money0) in *.
    destruct (N.ltb_spec (s_stake sl) money); [discriminate|].
    injection Hex as <-. apply get_miner_reg in Eg. destruct Eg as (Hk01 & Hr & ->).
    destruct (Hk k id Hr) as [_ Hin].
    unfold led_inv, wealth in *; cbn [cur bal pend esc burned] in *.
    set (s1 := if (s_stake (cur s k id) - money <? min_stake k)%N
               then remove_miner e s k id (cur s k id) src (s_stake (cur s k id) - money)
               else update_miner s k id (cur s k id) (s_stake (cur s k id) - money) (s_acct (cur s k id)) (s_stat (cur s k id))) in *.
    assert (Hcur : locked_sum I (cur s1) = locked_sum I (cur s) - tok money).
    { subst s1. destruct (_ <? min_stake k)%N.
      - unfold remove_miner. destruct (N.eqb_spec (s_stake (cur s k id) - money) 0) as [e0|]; cbn [andb].
        + destruct (negb (contract e src)); cbn [cur set_cur]; rewrite locked_updr_in by assumption; cbn [s_stake slot0].
          * rewrite <- e0, tok_sub by assumption. lia.
          * rewrite tok_sub by assumption. lia.
        + cbn [cur set_cur]. rewrite locked_updr_in by assumption. cbn [s_stake]. rewrite tok_sub by assumption. lia.
      - cbn [update_miner cur set_cur]. rewrite locked_updr_in by assumption. cbn [s_stake]. rewrite tok_sub by assumption. lia. }
    assert (Hrest : bal s1 = bal s /\ pend s1 = pend s /\ esc s1 = esc s /\ burned s1 = burned s).
    { subst s1. destruct (_ <? min_stake k)%N; [unfold remove_miner; destruct (_ && _)%bool|]; cbn; auto. }
    destruct Hrest as (Eb & Ep & Ee & Ebu). rewrite Eb, Ep, Ee, Ebu, Hcur.
    inv_split; try assumption; try exact Hwf'.
    + constructor; [|assumption]. cbn [fst snd]. split; [rewrite <- Hacct; assumption|apply tok_nonneg].
    + cbn [sched_total]. lia.
  - (* change account *)
    destruct jok; cbn [negb] in Hex; [|discriminate].
    destruct (get_miner s id) as [[k sl]|] eqn:Eg; [|discriminate].
    destruct (N.eqb (s_acct sl) acct); [discriminate|].
    destruct (N.eqb (s_acct sl) src); cbn [negb] in Hex; [|discriminate].
    destruct (is_some (by_account e s acct)); [discriminate|].
    injection Hex as <-. apply get_miner_reg in Eg. destruct Eg as (Hk01 & Hr & ->).
    destruct (Hk k id Hr) as [_ Hin].
    unfold led_inv, wealth, update_miner in *; cbn [cur bal pend esc burned set_cur] in *.
    inv_split; try assumption; try exact Hwf'.
    rewrite locked_updr_in by assumption. cbn [s_stake]. lia.
  - (* operator node *)
    destruct (Z.ltb_spec (bal s src) ten_tokens); [discriminate|].
    set (s1 := set_bal s (fst (sub_bal (bal s) src ten_tokens))) in *.
    destruct (by_account e s1 src) as [id|]; [|discriminate].
    destruct (get_miner s1 id) as [[k sl]|] eqn:Eg; [|discriminate].
    destruct evm as [c|]; [|discriminate].
    injection Hex as <-. apply get_miner_reg in Eg. destruct Eg as (Hk01 & Hr & ->).
    cbn [s1 cur set_bal] in Hr. destruct (Hk k id Hr) as [_ Hin].
    unfold led_inv, wealth, update_miner in *; cbn [s1 cur bal pend esc burned set_cur set_bal] in *.
    inv_split; try assumption; try exact Hwf'.
    + apply sub_bal_nonneg, Hb.
    + unfold ten_tokens. lia.
    + rewrite sub_bal_sum_ok by (try assumption; lia).
      rewrite locked_updr_in by assumption. cbn [s_stake]. lia.
Qed.

Theorem run_tx_inv : forall A I W e h t s, g002 (gates e) = true -> universe A I -> supply_bound W -> tx_closed A I t ->
  led_inv A I W s -> led_inv A I W (fst (run_tx e h t s)).
Proof.
  intros A I W e h t s G2 HU HW Hcl Hinv. unfold run_tx. rewrite G2.
  pose proof (fee_step_inv A I W e s (tx_src t) HU (proj1 Hcl) Hinv) as H1.
  destruct (fee_step e s (tx_src t)) as [s1 ok]. cbn [fst] in H1. destruct ok; [|exact Hinv].
  destruct (execute e h t s1) as [s2 r] eqn:Ee.
  destruct (execute_shape e h t s1 s2 r Ee) as (_ & Hpend & _).
  assert (Hfail : r <> ROk -> led_inv A I W {| cur := cur s1; trie := trie s1; bal := bal s1; pend := pend s2; esc := esc s1; burned := burned s1 |}).
  { intros Hr. rewrite (Hpend Hr). destruct s1; exact H1. }
  destruct r; cbn [fst]; try (apply Hfail; discriminate).
  eapply execute_inv; eauto.
Qed.

Lemma end_block_inv : forall A I W h rw s, universe A I -> sched_ok A rw -> led_inv A I W s ->
  led_inv A I (W + sched_total rw) (end_block h rw s).
Proof.
  intros A I W h rw s (HA & HI & _) Hrw (Hwf & Hb & Hp & He & Hbu & Hw). unfold end_block.
  assert (Hs : sched_ok A (pend s ++ rw ++ esc s)) by (repeat (apply Forall_app; split); assumption).
  destruct (credit_due_good A h (pend s ++ rw ++ esc s) (bal s) HA Hs Hb) as (H1 & H2 & H3).
  destruct (credit_due h (pend s ++ rw ++ esc s) (bal s)) as [b l]. cbn [fst snd] in *.
  unfold led_inv, wealth in *; cbn [cur bal pend esc burned]. inv_split; try assumption; try constructor.
  rewrite !sched_total_app in H3. cbn [sched_total]. lia.
Qed.

Definition txs_closed (A I : list N) (ts : list tx) : Prop := Forall (tx_closed A I) ts.

Lemma run_txs_inv : forall A I W e h ts s, g002 (gates e) = true -> universe A I -> supply_bound W -> txs_closed A I ts ->
  led_inv A I W s -> led_inv A I W (fst (run_txs e h ts s)).
Proof.
  intros A I W e h ts. induction ts as [|t r IH]; intros s G2 HU HW Hcl Hinv; [exact Hinv|].
  inversion Hcl as [|? ? Hct Hcr]; subst. cbn [run_txs].
  pose proof (run_tx_inv A I W e h t s G2 HU HW Hct Hinv) as Hstep.
  destruct (run_tx e h t s) as [s1 x]. cbn [fst] in Hstep.
  specialize (IH s1 G2 HU HW Hcr Hstep). destruct (run_txs e h r s1) as [s2 xs]. exact IH.
Qed.

(* a block mints exactly the rewards its after() phase schedules *)
Theorem run_block_inv : forall A I W e h ts rw s, g002 (gates e) = true -> universe A I -> supply_bound W -> txs_closed A I ts -> sched_ok A rw ->
  led_inv A I W s -> led_inv A I (W + sched_total rw) (fst (run_block e h ts rw s)).
Proof.
  intros. rewrite run_block_fst. apply end_block_inv; try assumption. apply run_txs_inv; assumption.
Qed.

Definition block_closed_led (A I : list N) (b : block) : Prop := txs_closed A I (block_txs b) /\ sched_ok A (snd b).

Fixpoint minted_chain (bs : list block) : Z :=
  match bs with [] => 0 | b :: r => sched_total (snd b) + minted_chain r end.

Lemma minted_nonneg : forall A I bs, Forall (block_closed_led A I) bs -> 0 <= minted_chain bs.
Proof.
  intros A I bs H. induction H as [|b r [_ Hb] _ IH]; cbn [minted_chain]; [lia|].
  pose proof (sched_total_nonneg A _ Hb). lia.
Qed.

(* every history: wealth = initial wealth + the rewards minted so far (the bound is on the final supply) *)
Theorem run_chain_inv : forall A I e bs W s, g002 (gates e) = true -> universe A I -> supply_bound (W + minted_chain bs) ->
  Forall (block_closed_led A I) bs -> led_inv A I W s -> led_inv A I (W + minted_chain bs) (run_chain e bs s).
Proof.
  intros A I e bs. induction bs as [|[[h ts] rw] r IH]; intros W s G2 HU HW Hcl Hinv; cbn [minted_chain run_chain snd] in *.
  - rewrite Z.add_0_r. exact Hinv.
  - inversion Hcl as [|? ? [Hcb Hrw] Hcr]; subst. cbn [block_txs fst snd] in *.
    pose proof (minted_nonneg A I r Hcr) as Hm. pose proof (sched_total_nonneg A rw Hrw) as Hr0.
    rewrite Z.add_assoc. apply IH; try assumption.
    + rewrite <- Z.add_assoc. exact HW.
    + apply run_block_inv; try assumption. unfold supply_bound in *. lia.
Qed.

(* ---------- a rejected transaction changes nothing but the fee ---------- *)
Definition same_but_bal (s s' : st) : Prop :=
  cur s' = cur s /\ trie s' = trie s /\ pend s' = pend s /\ esc s' = esc s /\ burned s' = burned s.

Theorem rejected_noop : forall e h t s s' r, g002 (gates e) = true -> run_tx e h t s = (s', r) -> r <> ROk ->
  (r = REvict /\ s' = s) \/
  (r <> REvict /\ tx_fee e <= bal s (tx_src t) /\ same_but_bal s s' /\
   bal s' = add_bal (fst (sub_bal (bal s) (tx_src t) (tx_fee e))) fee_account (tx_fee e)).
Proof.
  intros e h t s s' r G2. unfold run_tx, fee_step. rewrite G2.
  destruct (Z.ltb_spec (bal s (tx_src t)) (tx_fee e)).
  - intros [= <- <-] _. left. auto.
  - set (s1 := set_bal s _). destruct (execute e h t s1) as [s2 r2] eqn:Ee.
    destruct (execute_shape e h t s1 s2 r2 Ee) as (_ & Hpend & _).
    assert (Hne : r2 <> REvict).
    { clear Hpend. intros ->. revert Ee.
      destruct t; cbn [execute]; repeat (match goal with |- context [if ?c then _ else _] => destruct c
                                                     | |- context [match ?c with _ => _ end] => destruct c end);
        intros [= ]. }
    destruct r2; intros [= <- <-] Hr; try congruence; right;
      (split; [discriminate|split; [assumption|split; [|reflexivity]]]);
      unfold same_but_bal; cbn [cur trie pend esc burned]; rewrite Hpend by discriminate; cbn; auto.
Qed.

(* ---------- per-miner stake accounting: stake = applied + added - refunded ---------- *)
Definition stake_of (s : st) (i : N) : Z := Z.of_N (s_stake (cur s 0%N i)) + Z.of_N (s_stake (cur s 1%N i)).

(* what a transaction with result r books for miner i, given the state before it *)
Definition booked (t : tx) (r : res) (s : st) (i : N) : Z :=
  match r, t with
  | ROk, TApply _ _ _ id stake _ _ => if N.eqb id i then Z.of_N stake else 0
  | ROk, TAdd _ _ id delta => if N.eqb id i then Z.of_N delta else 0
  | ROk, TRefund _ _ (Some m) id => if N.eqb id i then - (if N.eqb m MAXU64 then stake_of s i else Z.of_N m) else 0
  | _, _ => 0
  end.

Lemma stake_of_updr_other : forall s c k i v j, j <> i -> cur s = updr c k i v ->
  Z.of_N (s_stake (cur s 0%N j)) + Z.of_N (s_stake (cur s 1%N j)) = Z.of_N (s_stake (c 0%N j)) + Z.of_N (s_stake (c 1%N j)).
Proof. intros s c k i v j Hne ->. rewrite !updr_other by congruence. reflexivity. Qed.

Lemma unreg_zero : forall I c k i, creg_wf I c -> ~ reg c k i -> s_stake (c k i) = 0%N.
Proof.
  intros I c k i (_ & Hcl & _) Hn. assert (H : s_info (c k i) = None).
  { unfold reg in Hn. destruct (s_info (c k i)); [exfalso; apply Hn; discriminate|reflexivity]. }
  rewrite (Hcl _ _ H). reflexivity.
Qed.

Lemma one_kind_zero : forall I c k i, creg_wf I c -> reg c k i -> (k = 0%N \/ k = 1%N) ->
  Z.of_N (s_stake (c 0%N i)) + Z.of_N (s_stake (c 1%N i)) = Z.of_N (s_stake (c k i)).
Proof.
  intros I c k i Hwf Hr [-> | ->]; pose proof Hwf as (_ & _ & H1).
  - rewrite (unreg_zero I c 1%N i Hwf); [lia|]. intros H. apply (H1 i). tauto.
  - rewrite (unreg_zero I c 0%N i Hwf); [lia|]. intros H. apply (H1 i). tauto.
Qed.

Lemma sum_updr_same : forall c k i v, (k = 0%N \/ k = 1%N) ->
  Z.of_N (s_stake (updr c k i v 0%N i)) + Z.of_N (s_stake (updr c k i v 1%N i)) =
  Z.of_N (s_stake (c 0%N i)) + Z.of_N (s_stake (c 1%N i)) - Z.of_N (s_stake (c k i)) + Z.of_N (s_stake v).
Proof.
  intros c k i v [-> | ->].
  - rewrite updr_same, updr_other by congruence. lia.
  - rewrite updr_same, updr_other by congruence. lia.
Qed.

Theorem execute_stake : forall A I W e h t s s' r i, universe A I -> supply_bound W -> tx_closed A I t ->
  led_inv A I W s -> execute e h t s = (s', r) -> r = ROk ->
  stake_of s' i = stake_of s i + booked t r s i.
Proof.
  intros A I W e h t s s' r i HU HW [Hsrc Hid] Hinv Hex ->.
  pose proof Hinv as (Hwf & Hb & _). pose proof Hwf as (Hk & Hcl & H1).
  unfold stake_of.
  destruct t as [src jok typ id stake acct kok | src jok id delta | src jok amount id | src jok id acct | src evm];
    cbn [execute tx_src booked] in *.
  - destruct jok; cbn [negb] in Hex; [|discriminate].
    destruct (N.eqb typ 0 || N.eqb typ 1)%bool eqn:Et; cbn [negb] in Hex; [|discriminate].
    destruct (stake <? min_stake typ)%N; [discriminate|].
    destruct kok; cbn [negb] in Hex; [|discriminate].
    destruct (bal s src <? tok stake); [discriminate|].
    destruct (is_some (get_miner s id)) eqn:Eg; [discriminate|].
    destruct (is_some (by_account e s (if N.eqb acct 0 then src else acct))); [discriminate|].
    injection Hex as <-. apply is_some_false in Eg. apply get_miner_none in Eg. destruct Eg as [H0 H1'].
    assert (Hk01 : typ = 0%N \/ typ = 1%N) by (apply orb_true_iff in Et; destruct Et as [Et|Et]; apply N.eqb_eq in Et; auto).
    cbn [cur set_cur set_bal]. destruct (N.eqb_spec id i) as [->|Hne].
    + rewrite sum_updr_same by assumption. cbn [s_stake].
      rewrite (unreg_zero I (cur s) 0%N i Hwf H0), (unreg_zero I (cur s) 1%N i Hwf H1').
      destruct Hk01 as [-> | ->]; [rewrite (unreg_zero I (cur s) 0%N i Hwf H0)|rewrite (unreg_zero I (cur s) 1%N i Hwf H1')]; lia.
    + rewrite !updr_other by congruence. lia.
  - destruct jok; cbn [negb] in Hex; [|discriminate].
    destruct (N.eqb_spec delta 0) as [->|Hd]; [injection Hex as <-; destruct (N.eqb id i); lia|].
    destruct (Z.ltb_spec (bal s src) (tok delta)); [discriminate|].
    destruct (get_miner s id) as [[k sl]|] eqn:Eg; [|discriminate].
    injection Hex as <-. apply get_miner_reg in Eg. destruct Eg as (Hk01 & Hr & ->).
    pose proof (no_wrap A I W s src k id delta HU HW Hinv Hsrc Hr ltac:(lia)) as Hnw.
    cbn [update_miner cur set_cur set_bal]. destruct (N.eqb_spec id i) as [->|Hne].
    + rewrite sum_updr_same by assumption. cbn [s_stake]. rewrite Hnw. lia.
    + rewrite !updr_other by congruence. lia.
  - destruct jok; cbn [negb] in Hex; [|discriminate].
    destruct amount as [money0|]; [|discriminate].
    destruct (get_miner s id) as [[k sl]|] eqn:Eg; [|discriminate].
    destruct (N.eqb src (s_acct sl)); cbn [negb] in Hex; [|discriminate].
    apply get_miner_reg in Eg. destruct Eg as (Hk01 & Hr & ->).
    assert (Hall : Z.of_N (s_stake (cur s k id)) = Z.of_N (s_stake (cur s 0%N id)) + Z.of_N (s_stake (cur s 1%N id)))
      by (symmetry; eapply one_kind_zero; eauto).
    destruct (N.ltb_spec (s_stake (cur s k id)) (if N.eqb money0 MAXU64 then s_stake (cur s k id) else money0)); [discriminate|].
    injection Hex as <-. cbn [cur]. unfold stake_of.
    destruct (N.eqb_spec id i) as [->|Hne].
    + destruct (_ <? min_stake k)%N.
      * unfold remove_miner. destruct (N.eqb_spec (s_stake (cur s k i) - (if N.eqb money0 MAXU64 then s_stake (cur s k i) else money0)) 0); cbn [andb].
        -- destruct (negb (contract e src)); cbn [cur set_cur]; rewrite sum_updr_same by assumption; cbn [s_stake slot0];
             destruct (N.eqb money0 MAXU64); lia.
        -- cbn [cur set_cur]. rewrite sum_updr_same by assumption. cbn [s_stake]. destruct (N.eqb money0 MAXU64); lia.
      * cbn [update_miner cur set_cur]. rewrite sum_updr_same by assumption. cbn [s_stake]. destruct (N.eqb money0 MAXU64); lia.
    + destruct (_ <? min_stake k)%N; [unfold remove_miner; destruct (_ && _)%bool|]; cbn [update_miner cur set_cur];
        rewrite !updr_other by congruence; lia.
  - destruct jok; cbn [negb] in Hex; [|discriminate].
    destruct (get_miner s id) as [[k sl]|] eqn:Eg; [|discriminate].
    destruct (N.eqb (s_acct sl) acct); [discriminate|].
    destruct (N.eqb (s_acct sl) src); cbn [negb] in Hex; [|discriminate].
    destruct (is_some (by_account e s acct)); [discriminate|].
    injection Hex as <-. apply get_miner_reg in Eg. destruct Eg as (Hk01 & Hr & ->).
    cbn [update_miner cur set_cur]. destruct (N.eq_dec id i) as [->|Hne].
    + rewrite sum_updr_same by assumption. cbn [s_stake]. lia.
    + rewrite !updr_other by congruence. lia.
  - destruct (bal s src <? ten_tokens); [discriminate|].
    set (s1 := set_bal s (fst (sub_bal (bal s) src ten_tokens))) in *.
    destruct (by_account e s1 src) as [id|]; [|discriminate].
    destruct (get_miner s1 id) as [[k sl]|] eqn:Eg; [|discriminate].
    destruct evm as [c|]; [|discriminate].
    injection Hex as <-. apply get_miner_reg in Eg. destruct Eg as (Hk01 & Hr & ->).
    cbn [s1 update_miner cur set_cur set_bal]. destruct (N.eq_dec id i) as [->|Hne].
    + rewrite sum_updr_same by assumption. cbn [s_stake]. lia.
    + rewrite !updr_other by congruence. lia.
Qed.

Theorem run_tx_stake : forall A I W e h t s i, universe A I -> supply_bound W -> tx_closed A I t -> led_inv A I W s ->
  stake_of (fst (run_tx e h t s)) i = stake_of s i + booked t (snd (run_tx e h t s)) s i.
Proof.
  intros A I W e h t s i HU HW Hcl Hinv. unfold run_tx.
  pose proof (fee_step_inv A I W e s (tx_src t) HU (proj1 Hcl) Hinv) as H1.
  pose proof (fee_step_cur e s (tx_src t)) as (Hc & _).
  destruct (fee_step e s (tx_src t)) as [s1 ok]. cbn [fst] in H1, Hc.
  destruct ok; [|cbn; lia].
  destruct (execute e h t s1) as [s2 r] eqn:Ee.
  assert (Hb : forall r', r' <> ROk -> booked t r' s i = 0) by (intros r' Hr; destruct r'; try reflexivity; congruence).
  assert (Hs1 : stake_of s1 i = stake_of s i) by (unfold stake_of; rewrite Hc; reflexivity).
  destruct r; cbn [fst snd]; try (rewrite Hb by discriminate; unfold stake_of in *; cbn [cur]; lia).
  rewrite (execute_stake A I W e h t s1 s2 ROk i HU HW Hcl H1 Ee eq_refl), Hs1.
  f_equal. unfold booked. destruct t; try reflexivity. destruct amount; [|reflexivity].
  destruct (N.eqb id i); [|reflexivity]. destruct (N.eqb n MAXU64); [|reflexivity]. unfold stake_of. rewrite Hc. reflexivity.
Qed.

(* the same over a whole block and over a whole chain: stake = initial + sum of what the transactions booked *)
Fixpoint booked_txs (e : env) (h : N) (ts : list tx) (s : st) (i : N) : Z :=
  match ts with
  | [] => 0
  | t :: r => booked t (snd (run_tx e h t s)) s i + booked_txs e h r (fst (run_tx e h t s)) i
  end.

Fixpoint booked_chain (e : env) (bs : list block) (s : st) (i : N) : Z :=
  match bs with
  | [] => 0
  | (h, ts, rw) :: r => booked_txs e h ts s i + booked_chain e r (fst (run_block e h ts rw s)) i
  end.

Lemma run_txs_stake : forall A I W e h ts s i, g002 (gates e) = true -> universe A I -> supply_bound W -> txs_closed A I ts ->
  led_inv A I W s -> stake_of (fst (run_txs e h ts s)) i = stake_of s i + booked_txs e h ts s i.
Proof.
  intros A I W e h ts. induction ts as [|t r IH]; intros s i G2 HU HW Hcl Hinv; [cbn; lia|].
  inversion Hcl as [|? ? Hct Hcr]; subst. cbn [run_txs booked_txs].
  pose proof (run_tx_stake A I W e h t s i HU HW Hct Hinv) as H1.
  pose proof (run_tx_inv A I W e h t s G2 HU HW Hct Hinv) as H2.
  destruct (run_tx e h t s) as [s1 x]. cbn [fst snd] in *.
  specialize (IH s1 i G2 HU HW Hcr H2). destruct (run_txs e h r s1) as [s2 xs]. cbn [fst] in *. lia.
Qed.

Theorem run_chain_stake : forall A I e bs W s i, g002 (gates e) = true -> universe A I -> supply_bound (W + minted_chain bs) ->
  Forall (block_closed_led A I) bs -> led_inv A I W s ->
  stake_of (run_chain e bs s) i = stake_of s i + booked_chain e bs s i.
Proof.
  intros A I e bs. induction bs as [|[[h ts] rw] r IH]; intros W s i G2 HU HW Hcl Hinv; [cbn; lia|].
  inversion Hcl as [|? ? [Hcb Hrw] Hcr]; subst. cbn [run_chain booked_chain minted_chain block_txs fst snd] in *.
  pose proof (minted_nonneg A I r Hcr) as Hm. pose proof (sched_total_nonneg A rw Hrw) as Hr0.
  assert (HW1 : supply_bound W) by (unfold supply_bound in *; lia).
  rewrite (IH (W + sched_total rw)); try assumption.
  - rewrite run_block_fst at 1. unfold stake_of at 1. rewrite end_block_cur.
    pose proof (run_txs_stake A I W e h ts s i G2 HU HW1 Hcb Hinv) as H1. unfold stake_of in H1 at 1. lia.
  - rewrite <- Z.add_assoc. exact HW.
  - apply run_block_inv; assumption.
Qed.

(* ---------- histories: every block ends at a boundary; the views agree after any guarded chain ---------- *)
Lemma run_chain_boundary : forall e bs s, boundary s -> boundary (run_chain e bs s).
Proof.
  intros e bs. induction bs as [|[[h ts] rw] r IH]; intros s Hb; [exact Hb|]. cbn [run_chain].
  apply IH. rewrite run_block_fst. apply end_block_boundary.
Qed.

Theorem history_views_agree : forall e bs s, boundary s -> reg_wf (ids e) s -> acct_unique s ->
  Forall (fun b => block_closed (ids e) (block_txs b)) bs -> guarded_chain e bs s ->
  let s' := run_chain e bs s in
  forall k i, registered s' k i ->
    get_miner s' i = Some (k, cur s' k i) /\ In i (iter_ids e s' k) /\ by_account e s' (s_acct (cur s' k i)) = Some i.
Proof.
  intros e bs s Hb Hwf Hu Hcl Hg s' k i Hr.
  destruct (run_chain_unique e bs s Hwf Hcl Hg Hu) as [Hwf' Hu'].
  apply views_agree; try assumption. apply run_chain_boundary, Hb.
Qed.

(* the hypotheses are satisfiable: an empty registry, one funded account, a block with one registration *)
Lemma example_universe : universe [1%N; 2%N] [1%N; 2%N].
Proof.
  unfold universe, fee_account. repeat split; try (left; reflexivity);
    repeat constructor; cbn; intuition discriminate.
Qed.

Lemma example_inv : led_inv [1%N; 2%N] [1%N; 2%N] (tok 10000) (empty_state rich).
Proof.
  unfold led_inv. split; [apply (empty_reg_wf [1%N; 2%N] rich)|].
  split; [intros a; unfold empty_state, rich; cbn; destruct (N.eqb a 2); unfold tok, E18; lia|].
  split; [constructor|]. split; [constructor|]. split; [cbn; lia|]. vm_compute. reflexivity.
Qed.

Lemma example_guarded : guarded_chain env2 [(100%N, [TApply 2 true 0 1 400 0 true], [])] (empty_state rich).
Proof.
  cbn [guarded_chain guarded_txs]. repeat split.
  - apply boundary_covers, empty_boundary.
Qed.

(* ---------- before proposal002 the guard g002 cannot be dropped: HEAD's historic behaviour ---------- *)
(* balance writes were not journalled: the 10-token charge of a REJECTED operator-node transaction survives the revert,
   so the transaction changes more than the fee and liquid + locked + scheduled drops *)
Definition env_pre002 : env :=
  {| ids := [1%N; 2%N]; contract := fun _ => false;
     gates := {| g002 := false; g003 := false; g004 := true; g012 := true; g026 := true |} |}.

Theorem rejected_noop_pre002_refuted :
  let s := empty_state rich in
  let r := run_tx env_pre002 100 (TOpNode 2 None) s in
  snd r = RNoMiner /\
  bal (fst r) 2%N = bal s 2%N - tx_fee env_pre002 - ten_tokens /\
  wealth [1%N; 2%N] [1%N; 2%N] (fst r) = wealth [1%N; 2%N] [1%N; 2%N] s - ten_tokens.
Proof. vm_compute. repeat split; reflexivity. Qed.

(* ---------- RemoveMiner's second branch: a contract-owned miner that takes everything out is KEPT, aborted, stake 0 ---------- *)
Theorem refund_all_contract_kept : forall e h s src id k sl,
  get_miner s id = Some (k, sl) -> s_acct sl = src -> contract e src = true ->
  let r := execute e h (TRefund src true (Some MAXU64) id) s in
  snd r = ROk /\
  cur (fst r) k id = {| s_info := s_info sl; s_stake := 0%N; s_acct := s_acct sl; s_stat := 1%N |} /\
  pend (fst r) = (refund_height e k h, src, tok (s_stake sl)) :: pend s.
Proof.
  intros e h s src id k sl Hg Ha Hc. cbn [execute negb]. rewrite Hg. rewrite <- Ha, N.eqb_refl. cbn [negb].
  rewrite N.eqb_refl. rewrite N.ltb_irrefl. rewrite N.sub_diag.
  assert (Hm : (0 <? min_stake k)%N = true) by (unfold min_stake, proposer_stake, validator_stake; destruct (N.eqb k 1); reflexivity).
  rewrite Hm. unfold remove_miner. rewrite N.eqb_refl, Ha, Hc. cbn [andb negb fst snd cur pend set_cur].
  rewrite updr_same. repeat split; reflexivity.
Qed.

(* a second "refund everything" on that record releases nothing *)
Corollary refund_all_again_books_zero : forall e h s src id k sl,
  get_miner s id = Some (k, sl) -> s_acct sl = src -> contract e src = true -> s_stake sl = 0%N ->
  pend (fst (execute e h (TRefund src true (Some MAXU64) id) s)) = (refund_height e k h, src, 0) :: pend s.
Proof.
  intros e h s src id k sl Hg Ha Hc Hz. destruct (refund_all_contract_kept e h s src id k sl Hg Ha Hc) as (_ & _ & Hp).
  rewrite Hp, Hz. reflexivity.
Qed.
