(* C20 proofs, part 1: the registry views (by id / by account / iterator), totals, account uniqueness. *)
From Coq Require Import List ZArith NArith Lia Bool.
From V.C20 Require Import Model.
Import ListNotations.
Local Open Scope Z_scope.

(* ---------- pointwise updates ---------- *)
Lemma updr_same : forall r k i v, updr r k i v k i = v.
Proof. intros. unfold updr. now rewrite !N.eqb_refl. Qed.

Lemma updr_other : forall r k i v k' i', (k', i') <> (k, i) -> updr r k i v k' i' = r k' i'.
Proof.
  intros. unfold updr. destruct (N.eqb_spec k' k); destruct (N.eqb_spec i' i); cbn; try reflexivity.
  subst. congruence.
Qed.

Lemma updr_cases : forall r k i v k' i',
  (k' = k /\ i' = i /\ updr r k i v k' i' = v) \/ ((k', i') <> (k, i) /\ updr r k i v k' i' = r k' i').
Proof.
  intros. destruct (N.eq_dec k' k) as [->|Hk]; [destruct (N.eq_dec i' i) as [->|Hi]|].
  - left. now rewrite updr_same.
  - right. split; [congruence|]. apply updr_other. congruence.
  - right. split; [congruence|]. apply updr_other. congruence.
Qed.

(* ---------- registry predicates ---------- *)
Definition registered (s : st) (k i : N) : Prop := s_info (cur s k i) <> None.

(* the trie holds exactly the registered json entries: true after every flush (block boundary) *)
Definition boundary (s : st) : Prop := forall k i, trie s k i = s_info (cur s k i).

(* the registry lives in the two system accounts and in the id universe; unregistered slots are empty *)
Definition reg_wf (I : list N) (s : st) : Prop :=
  (forall k i, registered s k i -> (k = 0%N \/ k = 1%N) /\ In i I) /\
  (forall k i, s_info (cur s k i) = None -> cur s k i = slot0) /\
  (forall i, ~ (registered s 0%N i /\ registered s 1%N i)).

(* an account controls at most one miner *)
Definition acct_unique (s : st) : Prop :=
  forall k i k' i', registered s k i -> registered s k' i' ->
    s_acct (cur s k i) = s_acct (cur s k' i') -> k = k' /\ i = i'.

(* the iterator meets every registered miner (fails inside a block after a registration) *)
Definition covers (e : env) (s : st) : Prop :=
  forall k i, registered s k i -> trie s k i <> None.

Lemma is_some_true : forall A (o : option A), is_some o = true <-> o <> None.
Proof. intros A [x|]; cbn; split; congruence. Qed.

Lemma by_id_some : forall s k i sl, by_id s k i = Some sl <-> registered s k i /\ sl = cur s k i.
Proof.
  intros. unfold by_id, registered. destruct (s_info (cur s k i)); split.
  - intros [= <-]. split; [discriminate|reflexivity].
  - intros [_ ->]. reflexivity.
  - discriminate.
  - intros [H _]. congruence.
Qed.

Lemma by_id_none : forall s k i, by_id s k i = None <-> ~ registered s k i.
Proof.
  intros. unfold by_id, registered. destruct (s_info (cur s k i)); split; try congruence.
  intros H. exfalso. apply H. discriminate.
Qed.

Lemma get_miner_some : forall s i k sl, get_miner s i = Some (k, sl) ->
  (k = 0%N \/ k = 1%N) /\ registered s k i /\ sl = cur s k i.
Proof.
  intros s i k sl. unfold get_miner.
  destruct (by_id s 1 i) eqn:E1.
  - intros [= <- <-]. apply by_id_some in E1. intuition.
  - destruct (by_id s 0 i) eqn:E0; [|discriminate].
    intros [= <- <-]. apply by_id_some in E0. intuition.
Qed.

Lemma get_miner_none : forall s i, get_miner s i = None -> ~ registered s 0%N i /\ ~ registered s 1%N i.
Proof.
  intros s i. unfold get_miner.
  destruct (by_id s 1 i) eqn:E1; [discriminate|].
  destruct (by_id s 0 i) eqn:E0; [discriminate|].
  intros _. split; now apply by_id_none.
Qed.

Lemma get_miner_of_registered : forall I s k i, reg_wf I s -> registered s k i ->
  get_miner s i = Some (k, cur s k i).
Proof.
  intros I s k i (Hk & _ & H1) Hr. destruct (Hk k i Hr) as [[->| ->] _]; unfold get_miner.
  - destruct (by_id s 1 i) eqn:E1.
    + apply by_id_some in E1. exfalso. apply (H1 i). tauto.
    + destruct (by_id s 0 i) eqn:E0.
      * apply by_id_some in E0. destruct E0 as [_ ->]. reflexivity.
      * apply by_id_none in E0. contradiction.
  - destruct (by_id s 1 i) eqn:E1.
    + apply by_id_some in E1. destruct E1 as [_ ->]. reflexivity.
    + apply by_id_none in E1. contradiction.
Qed.

(* ---------- the iterator ---------- *)
Lemma iter_ids_in : forall e s k i, In i (iter_ids e s k) <-> In i (ids e) /\ trie s k i <> None.
Proof. intros. unfold iter_ids. rewrite filter_In, is_some_true. reflexivity. Qed.

Lemma iter_ids_boundary : forall e s k i, boundary s ->
  (In i (iter_ids e s k) <-> In i (ids e) /\ registered s k i).
Proof. intros e s k i Hb. rewrite iter_ids_in, Hb. reflexivity. Qed.

Lemma find_some_iff : forall (f : N -> bool) l, (exists x, In x l /\ f x = true) <-> find f l <> None.
Proof.
  intros f l. split.
  - intros (x & Hin & Hf). destruct (find f l) eqn:E; [discriminate|].
    pose proof (find_none f l E x Hin). congruence.
  - destruct (find f l) eqn:E; [|congruence]. intros _. apply find_some in E. eauto.
Qed.

(* by_account: what it returns is an iterated entry carrying the account *)
Lemma by_account_sound : forall e s a i, by_account e s a = Some i ->
  exists k, (k = 0%N \/ k = 1%N) /\ In i (ids e) /\ trie s k i <> None /\ s_acct (cur s k i) = a.
Proof.
  intros e s a i. unfold by_account.
  destruct (find _ (iter_ids e s 0)) eqn:E0.
  - intros [= ->]. apply find_some in E0. destruct E0 as [Hin Hq]. apply iter_ids_in in Hin.
    exists 0%N. apply N.eqb_eq in Hq. intuition.
  - intros E1. apply find_some in E1. destruct E1 as [Hin Hq]. apply iter_ids_in in Hin.
    exists 1%N. apply N.eqb_eq in Hq. intuition.
Qed.

(* by_account: nil means that no iterated entry carries the account *)
Lemma by_account_none : forall e s a, by_account e s a = None ->
  forall k i, (k = 0%N \/ k = 1%N) -> In i (ids e) -> trie s k i <> None -> s_acct (cur s k i) <> a.
Proof.
  intros e s a. unfold by_account.
  destruct (find _ (iter_ids e s 0)) eqn:E0; [discriminate|]. intros E1 k i Hk Hin Ht Heq.
  destruct Hk as [-> | ->].
  - pose proof (find_none _ _ E0 i) as H. cbv beta in H. rewrite Heq, N.eqb_refl in H.
    assert (true = false) by (apply H; apply iter_ids_in; tauto). discriminate.
  - pose proof (find_none _ _ E1 i) as H. cbv beta in H. rewrite Heq, N.eqb_refl in H.
    assert (true = false) by (apply H; apply iter_ids_in; tauto). discriminate.
Qed.

(* when the iterator meets every registered miner, nil means the account is free *)
Lemma by_account_none_free : forall e s a, reg_wf (ids e) s -> covers e s -> by_account e s a = None ->
  forall k i, registered s k i -> s_acct (cur s k i) <> a.
Proof.
  intros e s a (Hk & _) Hc Hn k i Hr. destruct (Hk k i Hr) as [Hk01 Hin].
  apply (by_account_none e s a Hn k i Hk01 Hin). apply Hc, Hr.
Qed.

Lemma boundary_covers : forall e s, boundary s -> covers e s.
Proof. intros e s Hb k i Hr. rewrite Hb. exact Hr. Qed.

(* ---------- the three lookup paths agree at block boundaries ---------- *)
Theorem views_agree : forall e s k i, boundary s -> reg_wf (ids e) s -> acct_unique s -> registered s k i ->
  get_miner s i = Some (k, cur s k i) /\
  In i (iter_ids e s k) /\
  by_account e s (s_acct (cur s k i)) = Some i.
Proof.
  intros e s k i Hb Hwf Hu Hr. split; [eapply get_miner_of_registered; eassumption|].
  destruct Hwf as (Hk & Hcl & H1). destruct (Hk k i Hr) as [Hk01 Hin].
  split; [apply iter_ids_boundary; tauto|].
  destruct (by_account e s (s_acct (cur s k i))) as [j|] eqn:E.
  - apply by_account_sound in E. destruct E as (k' & Hk' & Hj & Ht & Ha).
    rewrite Hb in Ht. destruct (Hu k' j k i Ht Hr Ha) as [_ ->]. reflexivity.
  - exfalso. refine (by_account_none e s _ E k i Hk01 Hin _ eq_refl). rewrite Hb. exact Hr.
Qed.

Theorem by_account_is_holder : forall e s a i, boundary s -> reg_wf (ids e) s -> by_account e s a = Some i ->
  exists k, get_miner s i = Some (k, cur s k i) /\ s_acct (cur s k i) = a /\ In i (iter_ids e s k).
Proof.
  intros e s a i Hb Hwf E. apply by_account_sound in E. destruct E as (k & Hk & Hin & Ht & Ha).
  exists k. assert (Hr : registered s k i) by (unfold registered; rewrite <- Hb; exact Ht).
  split; [eapply get_miner_of_registered; eassumption|]. split; [assumption|].
  apply iter_ids_boundary; tauto.
Qed.

Theorem by_account_nil_is_free : forall e s a, boundary s -> reg_wf (ids e) s -> by_account e s a = None ->
  forall k i, registered s k i -> s_acct (cur s k i) <> a.
Proof. intros e s a Hb Hwf. apply by_account_none_free; [assumption|apply boundary_covers, Hb]. Qed.

(* ---------- totals used for leader election ---------- *)
Definition active_rec (s : st) (k h i : N) : bool :=
  match s_info (cur s k i) with
  | Some ap => N.eqb (s_stat (cur s k i)) 0 && (ap <=? h)%N
  | None => false
  end.

Fixpoint sum_active (s : st) (k h : N) (I : list N) : N :=
  match I with
  | [] => 0%N
  | i :: r => ((if active_rec s k h i then s_stake (cur s k i) else 0) + sum_active s k h r)%N
  end.

Fixpoint count_active (s : st) (k h : N) (I : list N) : N :=
  match I with
  | [] => 0%N
  | i :: r => ((if active_rec s k h i then 1 else 0) + count_active s k h r)%N
  end.

Lemma members_filter : forall s h I, boundary s ->
  filter (active_iter s 1 h) (filter (fun i => is_some (trie s 1%N i)) I) = filter (active_rec s 1 h) I.
Proof.
  intros s h I Hb. induction I as [|i r IH]; [reflexivity|]. cbn [filter].
  assert (Hact : is_some (trie s 1%N i) = true -> active_iter s 1 h i = active_rec s 1 h i).
  { unfold active_iter, active_rec, apply_of. rewrite Hb. destruct (s_info (cur s 1%N i)); [reflexivity|discriminate]. }
  assert (Hnone : is_some (trie s 1%N i) = false -> active_rec s 1 h i = false).
  { unfold active_rec. rewrite Hb. destruct (s_info (cur s 1%N i)); [discriminate|reflexivity]. }
  destruct (is_some (trie s 1%N i)) eqn:E.
  - cbn [filter]. rewrite (Hact eq_refl), IH. reflexivity.
  - rewrite (Hnone eq_refl), IH. reflexivity.
Qed.

Lemma sum_filter : forall s h I,
  fold_right (fun i acc => (s_stake (cur s 1%N i) + acc)%N) 0%N (filter (active_rec s 1 h) I) = sum_active s 1 h I.
Proof.
  intros s h I. induction I as [|i r IH]; [reflexivity|]. cbn [filter sum_active].
  destruct (active_rec s 1 h i); cbn [fold_right]; rewrite IH; lia.
Qed.

Lemma count_filter : forall s h I,
  N.of_nat (length (filter (active_rec s 1 h) I)) = count_active s 1 h I.
Proof.
  intros s h I. induction I as [|i r IH]; [reflexivity|]. cbn [filter count_active].
  destruct (active_rec s 1 h i); cbn [length]; lia.
Qed.

Theorem totals_agree : forall e s h, boundary s ->
  proposer_total e s h = sum_active s 1 h (ids e) /\ proposer_count e s h = count_active s 1 h (ids e).
Proof.
  intros e s h Hb. unfold proposer_total, proposer_count, proposer_members, iter_ids.
  rewrite members_filter by assumption. split; [apply sum_filter|apply count_filter].
Qed.
