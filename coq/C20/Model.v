(* C20 model: the miner registry, its two-level (flushed trie / dirty cache) storage view, and the
   stake ledger, as the node's executors drive them.

   Registry = storage of two system accounts (ValidatorDBAddress: kind 0, ProposerDBAddress: kind 1):
     id -> json{id,publicKey,vrfPublicKey,applyHeight,type}, H(id) -> stake (8 bytes),
     H(H(id)) -> account bytes, H(H(H(id))) -> status byte            [src/service/miner_manager.go UpdateMiner]
   Reads:  MinerManager.GetMinerById / getMinerStake / getMinerAccount go through AccountDB.GetData, i.e.
           accountObject.cachedStorage first (sees every write of the running block), then the storage trie;
           MinerManager.minerIterator walks accountObject.trie (trie.NewIterator(ao.trie.NodeIterator)), which
           receives the dirty writes only in updateTrie (Finalise / IntermediateRoot / Commit); for every
           json entry it meets, MinerIterator.Current re-reads stake/account/status through GetData.
   So:  [cur]  = what GetData returns (per kind, per id: the four slots);
        [trie] = the id->json entries of the storage trie as of the last flush (iterator membership and the
                 json the iterator parses).
   Modelled branch by branch:
     VMExecutor loop (BeforeExecute fee / snapshot / Execute / revert)          [src/core/vmexecutor.go]
     baseFeeExecutor.BeforeExecute -> TxPool.ProcessFee                        [src/service/transaction_pool.go]
     minerApplyExecutor / minerAddExecutor / minerRefundExecutor / minerChangeAccountExecutor
                                                                              [src/executor/miner_executor.go]
     minerNodeExecutor (operator node; the EVM call enters as its result)      [src/executor/miner_node_executor.go]
     MinerManager.AddMiner / AddStake / UpdateMiner / RemoveMiner / GetMiner / GetMinerIdByAccount /
       GetProposerTotalStakeWithDetail / GetAllMinerIdAndAccount / GetValidatorsStake
     RefundManager.GetRefundStake / getRefundHeight (Proposal012 branch) / Add / CheckAndMove
                                                                              [src/service/refund_manager.go]
     AccountDB.AddBalance / SubBalance (AddFT / SubFT, as in the C06 model)
   Abstractions (see props/C20.json trusted_base):
     - miner ids and account byte strings are indices (N); the four storage keys of an id are distinct
       slots, i.e. no SHA-256 relation between the ids of the universe; account 0 = the empty byte string;
     - the iteration order of the storage trie is the order of the id list [ids] of the environment
       (the harness passes the ids in the byte order of their keys);
     - Float64ToBigInt(float64(stake)) = stake * 10^18 (exact below 2^53 tokens);
     - the amounts of the block rewards enter as an input list of the block (the formula: KeyModel.v). *)
From Coq Require Import List ZArith NArith Lia Bool.
Import ListNotations.
Local Open Scope Z_scope.

Definition E18 : Z := 1000000000000000000.
Definition tok (n : N) : Z := Z.of_N n * E18.
Definition reward_blocks : N := 36000%N.              (* GetRewardBlocks *)
Definition refund_blocks : N := 50%N.                 (* GetRefundBlocks *)
Definition ten_tokens : Z := 10000000000000000000.   (* minerNodeExecutor charge *)
Definition U64 : N := 18446744073709551616%N.
Definition MAXU64 : N := 18446744073709551615%N.
Definition validator_stake : N := 400%N.
Definition proposer_stake : N := 2000%N.
Definition height_after_stake : N := 300%N.
Definition refund_delay : N := 36000%N.              (* refundHeight, Proposal012 branch *)
Definition fee_account : N := 1%N.

Definition min_stake (k : N) : N := if N.eqb k 1%N then proposer_stake else validator_stake.

(* ---- one miner's four storage slots as GetData sees them ---- *)
Record slot := { s_info : option N;   (* json entry present: Some applyHeight *)
                 s_stake : N;         (* ByteToUInt64 of the stake slot; absent/empty reads 0 *)
                 s_acct : N;          (* account bytes; absent/empty = 0 *)
                 s_stat : N }.        (* status byte; absent/empty -> json default 0 = normal, 1 = abort *)
Definition slot0 : slot := {| s_info := None; s_stake := 0%N; s_acct := 0%N; s_stat := 0%N |}.

Definition regmap := N -> N -> slot.
Definition updr (r : regmap) (k i : N) (v : slot) : regmap :=
  fun k' i' => if (N.eqb k' k && N.eqb i' i)%bool then v else r k' i'.

Definition bals := N -> Z.
Definition upd (f : bals) (a : N) (v : Z) : bals := fun x => if N.eqb x a then v else f x.
(* AddFT: the slot stores big.Int.Bytes() = magnitude *)
Definition add_bal (b : bals) (a : N) (v : Z) : bals := upd b a (Z.abs (b a + v)).
(* SubFT: no-op returning false when insufficient *)
Definition sub_bal (b : bals) (a : N) (v : Z) : bals * bool :=
  if b a <? v then (b, false) else (upd b a (b a - v), true).

Record st := { cur : regmap;
               trie : N -> N -> option N;
               bal : bals;
               pend : list (N * N * Z);   (* context["refund"]: height, account, amount - NOT under snapshot/revert *)
               esc : list (N * N * Z);    (* refund accounts "refund<height>": height, account, amount *)
               burned : Z }.              (* ghost: tokens destroyed by the operator-node charge *)

(* the proposal gates on the execution path (common.IsProposalNNN() at the block's height); the record of the
   current networks past their fork heights - and of the dev configuration - is all true *)
Record gate := { g002 : bool;   (* AddFT/SubFT journalled (SetData) - before: setData, NOT undone by RevertToSnapshot *)
                 g003 : bool;   (* UpdateMiner writes the status slot - before: never (RemoveMiner writes it always) *)
                 g004 : bool;   (* a refund height of 0 becomes now + 100 * refundBlocks *)
                 g012 : bool;   (* refund height = now + 36000 - before: the reward / group based heights *)
                 g026 : bool }. (* transaction fee 0.001 - before 0.0001 *)
Definition all_gates : gate := {| g002 := true; g003 := true; g004 := true; g012 := true; g026 := true |}.

Record env := { ids : list N;             (* id universe in storage-trie iteration order *)
                contract : N -> bool;     (* AccountDB.IsContract of an account *)
                gates : gate }.

(* ProcessFee: delta026 = 0.001 from proposal026 on, delta = 0.0001 before *)
Definition tx_fee (e : env) : Z := if g026 (gates e) then 1000000000000000 else 100000000000000.

(* RefundManager.getRefundHeight for a miner of kind k at height now (no dismissing group is known to the stub group
   chain, so the validator branch of the old rule yields 0; NextRewardHeight(now) = ceil(now / 36000) * 36000) *)
Definition refund_height (e : env) (k now : N) : N :=
  if g012 (gates e) then (now + refund_delay)%N else
  let base := if N.eqb k 0 then 0%N
              else (((now + reward_blocks - 1) / reward_blocks) * reward_blocks + refund_blocks)%N in
  if (g004 (gates e) && N.eqb base 0)%bool then (now + refund_blocks * 100)%N else base.

Definition is_some {A} (o : option A) : bool := match o with Some _ => true | None => false end.

(* ---- lookups ---- *)
(* GetMinerById(id, kind) *)
Definition by_id (s : st) (k i : N) : option slot :=
  match s_info (cur s k i) with Some _ => Some (cur s k i) | None => None end.
(* GetMiner: proposer first, then validator *)
Definition get_miner (s : st) (i : N) : option (N * slot) :=
  match by_id s 1%N i with
  | Some x => Some (1%N, x)
  | None => match by_id s 0%N i with Some x => Some (0%N, x) | None => None end
  end.
(* minerIterator(kind): ids whose json entry is in the flushed trie, in trie order *)
Definition iter_ids (e : env) (s : st) (k : N) : list N := filter (fun i => is_some (trie s k i)) (ids e).
(* GetMinerIdByAccount: validators first, then proposers; fields re-read through GetData *)
Definition by_account (e : env) (s : st) (a : N) : option N :=
  match find (fun i => N.eqb (s_acct (cur s 0%N i)) a) (iter_ids e s 0%N) with
  | Some i => Some i
  | None => find (fun i => N.eqb (s_acct (cur s 1%N i)) a) (iter_ids e s 1%N)
  end.

Definition apply_of (s : st) (k i : N) : N := match trie s k i with Some h => h | None => 0%N end.
(* the filter of GetProposerTotalStakeWithDetail / GetAllMinerIdAndAccount on an iterated record *)
Definition active_iter (s : st) (k h i : N) : bool :=
  N.eqb (s_stat (cur s k i)) 0%N && (apply_of s k i <=? h)%N.
(* GetProposerTotalStakeWithDetail(height): total and the detail map (its length is the proposer count) *)
Definition proposer_members (e : env) (s : st) (h : N) : list N := filter (active_iter s 1%N h) (iter_ids e s 1%N).
Definition proposer_total (e : env) (s : st) (h : N) : N :=
  fold_right (fun i acc => (s_stake (cur s 1%N i) + acc)%N) 0%N (proposer_members e s h).
Definition proposer_count (e : env) (s : st) (h : N) : N := N.of_nat (length (proposer_members e s h)).
(* GetAllMinerIdAndAccount(height) for one kind: id -> account *)
Definition all_id_account (e : env) (s : st) (k h : N) : list (N * N) :=
  map (fun i => (i, s_acct (cur s k i))) (filter (active_iter s k h) (iter_ids e s k)).
(* GetValidatorsStake(members): reads the stake slots directly, zero stakes skipped *)
Definition validators_stake (s : st) (members : list N) : N :=
  fold_right (fun i acc => (s_stake (cur s 0%N i) + acc)%N) 0%N members.

(* ---- results ---- *)
Inductive res := ROk | REvict | RJson | RType | RMinStake | RKeys | RBalance | RIdExists | RAcctExists
               | RNoMiner | RAuth | RStake | RSame | REvm | RParse.

Definition res_code (r : res) : N :=
  match r with ROk => 0 | REvict => 1 | RJson => 2 | RType => 3 | RMinStake => 4 | RKeys => 5 | RBalance => 6
             | RIdExists => 7 | RAcctExists => 8 | RNoMiner => 9 | RAuth => 10 | RStake => 11 | RSame => 12
             | REvm => 13 | RParse => 14 end%N.

(* ---- transactions ---- *)
Inductive tx :=
| TApply (src : N) (json_ok : bool) (typ id stake acct : N) (keys_ok : bool)
| TAdd (src : N) (json_ok : bool) (id delta : N)
| TRefund (src : N) (json_ok : bool) (amount : option N) (id : N)   (* None: strconv.ParseUint failed *)
| TChange (src : N) (json_ok : bool) (id acct : N)
| TOpNode (src : N) (evm : option N).   (* evm = contract address taken from the 4th log of the main-node call *)

Definition tx_src (t : tx) : N :=
  match t with TApply s _ _ _ _ _ _ => s | TAdd s _ _ _ => s | TRefund s _ _ _ => s | TChange s _ _ _ => s
             | TOpNode s _ => s end.

Definition set_cur (s : st) (r : regmap) : st :=
  {| cur := r; trie := trie s; bal := bal s; pend := pend s; esc := esc s; burned := burned s |}.
Definition set_bal (s : st) (b : bals) : st :=
  {| cur := cur s; trie := trie s; bal := b; pend := pend s; esc := esc s; burned := burned s |}.

(* UpdateMiner(miner, isNew=false): stake, account, status rewritten; the json entry untouched *)
Definition update_miner (s : st) (k i : N) (sl : slot) (stake acct stat : N) : st :=
  set_cur s (updr (cur s) k i {| s_info := s_info sl; s_stake := stake; s_acct := acct; s_stat := stat |}).

(* RemoveMiner(id, account, type, left) *)
Definition remove_miner (e : env) (s : st) (k i : N) (sl : slot) (acct left : N) : st :=
  if (N.eqb left 0%N && negb (contract e acct))%bool then set_cur s (updr (cur s) k i slot0)
  else set_cur s (updr (cur s) k i {| s_info := s_info sl; s_stake := left; s_acct := s_acct sl; s_stat := 1%N |}).

(* Execute of the five executors, on the state after the fee; (state, result); on a result other than ROk
   the loop reverts the state *)
Definition execute (e : env) (h : N) (t : tx) (s : st) : st * res :=
  match t with
  | TApply src json_ok typ id stake acct keys_ok =>
    if negb json_ok then (s, RJson) else
    let acct' := if N.eqb acct 0%N then src else acct in
    if negb (N.eqb typ 0%N || N.eqb typ 1%N) then (s, RType) else
    if (stake <? min_stake typ)%N then (s, RMinStake) else
    if negb keys_ok then (s, RKeys) else
    if bal s src <? tok stake then (s, RBalance) else
    if is_some (get_miner s id) then (s, RIdExists) else
    if is_some (by_account e s acct') then (s, RAcctExists) else
    let b := fst (sub_bal (bal s) src (tok stake)) in
    (set_cur (set_bal s b)
       (updr (cur s) typ id {| s_info := Some (h + height_after_stake)%N; s_stake := stake; s_acct := acct';
               s_stat := if g003 (gates e) then 0%N else s_stat (cur s typ id) |}),
     ROk)
  | TAdd src json_ok id delta =>
    if negb json_ok then (s, RJson) else
    if N.eqb delta 0%N then (s, ROk) else
    if bal s src <? tok delta then (s, RBalance) else
    match get_miner s id with
    | None => (s, RNoMiner)
    | Some (k, sl) =>
      let stake' := ((s_stake sl + delta) mod U64)%N in
      let stat' := if (g003 (gates e) && (min_stake k <? stake')%N)%bool then 0%N else s_stat sl in
      let b := fst (sub_bal (bal s) src (tok delta)) in
      (update_miner (set_bal s b) k id sl stake' (s_acct sl) stat', ROk)
    end
  | TRefund src json_ok amount id =>
    if negb json_ok then (s, RJson) else
    match amount with
    | None => (s, RParse)
    | Some money0 =>
      match get_miner s id with
      | None => (s, RNoMiner)
      | Some (k, sl) =>
        if negb (N.eqb src (s_acct sl)) then (s, RAuth) else
        let money := if N.eqb money0 MAXU64 then s_stake sl else money0 in
        if (s_stake sl <? money)%N then (s, RStake) else
        let left := (s_stake sl - money)%N in
        let s1 := if (left <? min_stake k)%N then remove_miner e s k id sl src left
                  else update_miner s k id sl left (s_acct sl) (s_stat sl) in
        ({| cur := cur s1; trie := trie s1; bal := bal s1;
            pend := (refund_height e k h, s_acct sl, tok money) :: pend s1; esc := esc s1; burned := burned s1 |},
         ROk)
      end
    end
  | TChange src json_ok id acct =>
    if negb json_ok then (s, RJson) else
    match get_miner s id with
    | None => (s, RNoMiner)
    | Some (k, sl) =>
      if N.eqb (s_acct sl) acct then (s, RSame) else
      if negb (N.eqb (s_acct sl) src) then (s, RAuth) else
      if is_some (by_account e s acct) then (s, RAcctExists) else
      (update_miner s k id sl (s_stake sl) acct (s_stat sl), ROk)
    end
  | TOpNode src evm =>
    if bal s src <? ten_tokens then (s, RBalance) else
    let s1 := set_bal s (fst (sub_bal (bal s) src ten_tokens)) in
    match by_account e s1 src with
    | None => (s1, RNoMiner)
    | Some id =>
      match get_miner s1 id with
      | None => (s1, RNoMiner)
      | Some (k, sl) =>
        match evm with
        | None => (s1, REvm)
        | Some c =>
          let s2 := update_miner s1 k id sl (s_stake sl) c (s_stat sl) in
          ({| cur := cur s2; trie := trie s2; bal := bal s2; pend := pend s2; esc := esc s2;
              burned := burned s2 + ten_tokens |}, ROk)
        end
      end
    end
  end.

(* ProcessFee *)
Definition fee_step (e : env) (s : st) (src : N) : st * bool :=
  if bal s src <? tx_fee e then (s, false)
  else (set_bal s (add_bal (fst (sub_bal (bal s) src (tx_fee e))) fee_account (tx_fee e)), true).

(* one iteration of the VMExecutor loop. RevertToSnapshot restores the AccountDB; the refund requests live in
   the executor context and are not under the snapshot *)
Definition run_tx (e : env) (h : N) (t : tx) (s : st) : st * res :=
  match fee_step e s (tx_src t) with
  | (_, false) => (s, REvict)
  | (s1, true) =>
    match execute e h t s1 with
    | (s2, ROk) => (s2, ROk)
    | (s2, r) => ({| cur := cur s1; trie := trie s1;
                     (* before proposal002 balance writes are not journalled: the operator-node charge survives the revert *)
                     bal := if g002 (gates e) then bal s1 else bal s2;
                     pend := pend s2; esc := esc s1; burned := burned s1 |}, r)
    end
  end.

Fixpoint run_txs (e : env) (h : N) (ts : list tx) (s : st) : st * list res :=
  match ts with
  | [] => (s, [])
  | t :: r => let '(s1, x) := run_tx e h t s in
              let '(s2, xs) := run_txs e h r s1 in (s2, x :: xs)
  end.

(* RefundManager.CheckAndMove(h): every entry of the height is credited and removed *)
Fixpoint credit_due (h : N) (l : list (N * N * Z)) (b : bals) : bals * list (N * N * Z) :=
  match l with
  | [] => (b, [])
  | (h', a, v) :: r =>
    let '(b', r') := credit_due h r b in
    if N.eqb h' h then (add_bal b' a v, r') else (b', (h', a, v) :: r')
  end.

(* VMExecutor.after(), then IntermediateRoot: RefundManager.Add(context refunds), RefundManager.Add(the block's
   rewards rw - what RewardCalculator.CalculateReward returned: height, beneficiary, amount; the reward formula is
   specified in KeyModel.v / checked by the harness), CheckAndMove(height), and the flush of the dirty storage
   into the trie *)
Definition end_block (h : N) (rw : list (N * N * Z)) (s : st) : st :=
  let '(b, l) := credit_due h (pend s ++ rw ++ esc s) (bal s) in
  {| cur := cur s; trie := fun k i => s_info (cur s k i); bal := b; pend := []; esc := l; burned := burned s |}.

Definition run_block (e : env) (h : N) (ts : list tx) (rw : list (N * N * Z)) (s : st) : st * list res :=
  let '(s1, rs) := run_txs e h ts s in (end_block h rw s1, rs).

(* a block: height, transactions, rewards scheduled by its after() phase *)
Definition block := (N * list tx * list (N * N * Z))%type.

Fixpoint run_chain (e : env) (bs : list block) (s : st) : st :=
  match bs with
  | [] => s
  | (h, ts, rw) :: r => run_chain e r (fst (run_block e h ts rw s))
  end.

(* ---- measures ---- *)
Fixpoint sumU (U : list N) (b : bals) : Z := match U with [] => 0 | a :: r => b a + sumU r b end.
Fixpoint sched_total (l : list (N * N * Z)) : Z := match l with [] => 0 | (_, _, v) :: r => v + sched_total r end.
Definition stake_at (r : regmap) (i : N) : Z := tok (s_stake (r 0%N i)) + tok (s_stake (r 1%N i)).
Fixpoint locked_sum (I : list N) (r : regmap) : Z := match I with [] => 0 | i :: t => stake_at r i + locked_sum t r end.

(* liquid + locked + scheduled (+ the ghost of what the operator-node charge destroyed) *)
Definition wealth (A I : list N) (s : st) : Z :=
  sumU A (bal s) + locked_sum I (cur s) + sched_total (pend s) + sched_total (esc s) + burned s.

Definition empty_state (b : bals) : st :=
  {| cur := fun _ _ => slot0; trie := fun _ _ => None; bal := b; pend := []; esc := []; burned := 0 |}.
