(* Copy of coq/C07/Sha256.v (copied, not imported: C20 does not depend on C07's cone).
   SHA-256 (FIPS 180-4) over 32-bit words held in [N]: executable specification used to instantiate the
   digest of Transaction.GenHash (common.Sha256 = crypto/sha256) when the model is run against the
   implementation. Validated by the vectors below and by every compared transaction hash. *)
From Coq Require Import String List NArith Bool.
From V.Base Require Import Hex BigEndian.
Import ListNotations.
Local Open Scope N_scope.

Definition m32 : N := 4294967295.
Definition add32 (a b : N) : N := N.land (a + b) m32.
Definition rotr (x n : N) : N := N.lor (N.shiftr x n) (N.land (N.shiftl x (32 - n)) m32).
Definition not32 (x : N) : N := N.lxor x m32.

Definition K256 : list N :=
  [ 0x428a2f98; 0x71374491; 0xb5c0fbcf; 0xe9b5dba5; 0x3956c25b; 0x59f111f1; 0x923f82a4; 0xab1c5ed5;
    0xd807aa98; 0x12835b01; 0x243185be; 0x550c7dc3; 0x72be5d74; 0x80deb1fe; 0x9bdc06a7; 0xc19bf174;
    0xe49b69c1; 0xefbe4786; 0x0fc19dc6; 0x240ca1cc; 0x2de92c6f; 0x4a7484aa; 0x5cb0a9dc; 0x76f988da;
    0x983e5152; 0xa831c66d; 0xb00327c8; 0xbf597fc7; 0xc6e00bf3; 0xd5a79147; 0x06ca6351; 0x14292967;
    0x27b70a85; 0x2e1b2138; 0x4d2c6dfc; 0x53380d13; 0x650a7354; 0x766a0abb; 0x81c2c92e; 0x92722c85;
    0xa2bfe8a1; 0xa81a664b; 0xc24b8b70; 0xc76c51a3; 0xd192e819; 0xd6990624; 0xf40e3585; 0x106aa070;
    0x19a4c116; 0x1e376c08; 0x2748774c; 0x34b0bcb5; 0x391c0cb3; 0x4ed8aa4a; 0x5b9cca4f; 0x682e6ff3;
    0x748f82ee; 0x78a5636f; 0x84c87814; 0x8cc70208; 0x90befffa; 0xa4506ceb; 0xbef9a3f7; 0xc67178f2 ].

Definition H0 : list N :=
  [ 0x6a09e667; 0xbb67ae85; 0x3c6ef372; 0xa54ff53a; 0x510e527f; 0x9b05688c; 0x1f83d9ab; 0x5be0cd19 ].

Definition ssig0 x := N.lxor (rotr x 7) (N.lxor (rotr x 18) (N.shiftr x 3)).
Definition ssig1 x := N.lxor (rotr x 17) (N.lxor (rotr x 19) (N.shiftr x 10)).
Definition bsig0 x := N.lxor (rotr x 2) (N.lxor (rotr x 13) (rotr x 22)).
Definition bsig1 x := N.lxor (rotr x 6) (N.lxor (rotr x 11) (rotr x 25)).
Definition ch x y z := N.lxor (N.land x y) (N.land (not32 x) z).
Definition maj x y z := N.lxor (N.land x y) (N.lxor (N.land x z) (N.land y z)).

(* message schedule kept newest-first: w = [W(t-1); W(t-2); ...] *)
Fixpoint extend (n : nat) (w : list N) : list N :=
  match n with
  | O => w
  | S k => let x := add32 (add32 (ssig1 (nth 1 w 0)) (nth 6 w 0)) (add32 (ssig0 (nth 14 w 0)) (nth 15 w 0)) in
           extend k (x :: w)
  end.

Fixpoint words_of (n : nat) (b : bytes) : list N :=
  match n with
  | O => []
  | S k => bev (firstn 4 b) :: words_of k (skipn 4 b)
  end.

Definition step (st : list N) (kw : N * N) : list N :=
  match st with
  | [a; b; c; d; e; f; g; h] =>
    let t1 := add32 (add32 (add32 h (bsig1 e)) (add32 (ch e f g) (fst kw))) (snd kw) in
    let t2 := add32 (bsig0 a) (maj a b c) in
    [add32 t1 t2; a; b; c; add32 d t1; e; f; g]
  | _ => st
  end.

Definition compress (hs : list N) (blk : bytes) : list N :=
  let w := rev (extend 48 (rev (words_of 16 blk))) in
  let st := fold_left step (combine K256 w) hs in
  map (fun p => add32 (fst p) (snd p)) (combine hs st).

Fixpoint blocks (fuel : nat) (hs : list N) (m : bytes) : list N :=
  match fuel with
  | O => hs
  | S f => match m with
           | [] => hs
           | _ => blocks f (compress hs (firstn 64 m)) (skipn 64 m)
           end
  end.

Definition word_bytes (x : N) : bytes :=
  [N.shiftr x 24; N.land (N.shiftr x 16) 255; N.land (N.shiftr x 8) 255; N.land x 255].

Definition len64 (n : N) : bytes := word_bytes (N.shiftr n 32) ++ word_bytes (N.land n m32).

Definition pad256 (m : bytes) : bytes :=
  let l := length m in
  let z := Nat.modulo (64 + 55 - Nat.modulo l 64) 64 in   (* zero bytes so that l + 1 + z + 8 = 0 mod 64 *)
  m ++ [128] ++ repeat 0 z ++ len64 (8 * N.of_nat l).

Definition sha256 (m : bytes) : bytes :=
  let p := pad256 m in
  concat (map word_bytes (blocks (S (Nat.div (length p) 64)) H0 p)).

Example sha256_empty :
  hex (sha256 []) = "e3b0c44298fc1c149afbf4c8996fb92427ae41e4649b934ca495991b7852b855"%string.
Proof. vm_compute. reflexivity. Qed.

Example sha256_abc :
  hex (sha256 [97; 98; 99]) = "ba7816bf8f01cfea414140de5dae2223b00361a396177a9cb410ff61f20015ad"%string.
Proof. vm_compute. reflexivity. Qed.

(* 56 bytes: padding spills into a second block *)
Example sha256_two_blocks :
  hex (sha256 (unhex "6162636462636465636465666465666765666768666768696768696a68696a6b696a6b6c6a6b6c6d6b6c6d6e6c6d6e6f6d6e6f706e6f7071"))
  = "248d6a61d20638b8e5c026930c3e6039a33ce45964ff2167f6ecedd419db06c1"%string.
Proof. vm_compute. reflexivity. Qed.
