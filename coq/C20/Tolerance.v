(* C20: the tolerance with which the harness compares a reward amount of the implementation with the exact
   specification (Harness.close: relative 2^-40 plus 16 wei) is a CONSEQUENCE of how the code computes:
     - every term of an account's reward is a float64 expression (stake / total * (T * share)), i.e. a rational x
       whose relative distance from the exact rational v is at most 2^-41 (a dozen float64 roundings of 2^-53 each and
       math.Pow stay far below that - this per-term bound is the assumption);
     - Float64ToBigInt truncates x * 10^18 to a whole number of wei (a <= x < a + 1);
     - addReward adds at most 16 such terms for one account.
   All quantities are numerators over one common positive denominator D. *)
From Coq Require Import List ZArith Lia.
Import ListNotations.
Local Open Scope Z_scope.

(* one term: truncated amount a, float value X / D, exact value V / D *)
Definition term_ok (D : Z) (t : Z * Z * Z) : Prop :=
  let '(a, X, V) := t in
  0 <= V /\ Z.abs (X - V) * 2199023255552 <= V /\ a * D <= X /\ X < (a + 1) * D.

Fixpoint sum_a (ts : list (Z * Z * Z)) : Z := match ts with [] => 0 | (a, _, _) :: r => a + sum_a r end.
Fixpoint sum_v (ts : list (Z * Z * Z)) : Z := match ts with [] => 0 | (_, _, V) :: r => V + sum_v r end.

Lemma terms_bound : forall D ts, 0 < D -> Forall (term_ok D) ts ->
  0 <= sum_v ts /\
  Z.abs (sum_a ts * D - sum_v ts) * 2199023255552 <= sum_v ts + Z.of_nat (length ts) * D * 2199023255552.
Proof.
  intros D ts HD H. induction H as [|[[a X] V] r (HV & HX & Hlo & Hhi) _ IH]; cbn [sum_a sum_v length]; [lia|].
  destruct IH as [IH0 IH]. split; [lia|].
  rewrite Nat2Z.inj_succ. lia.
Qed.

(* the comparison the harness makes (same formula as Harness.close) *)
Definition close (obs num den : Z) : bool :=
  Z.abs (obs * den - num) * 1099511627776 <=? num + 16 * den * 1099511627776.

Theorem tolerance_sound : forall D ts, 0 < D -> Forall (term_ok D) ts -> (length ts <= 16)%nat ->
  close (sum_a ts) (sum_v ts) D = true.
Proof.
  intros D ts HD H Hl. destruct (terms_bound D ts HD H) as [H0 Hb]. unfold close. apply Z.leb_le.
  assert (Z.of_nat (length ts) <= 16) by lia.
  assert (Z.of_nat (length ts) * D <= 16 * D) by nia. lia.
Qed.

(* the comparison does not depend on the denominator chosen for the exact value *)
Lemma close_scale : forall obs num den M, 0 < M -> close obs (num * M) (den * M) = close obs num den.
Proof.
  intros obs num den M HM. unfold close.
  replace (obs * (den * M) - num * M) with ((obs * den - num) * M) by ring.
  rewrite Z.abs_mul, (Z.abs_eq M) by lia.
  destruct (Z.leb_spec (Z.abs (obs * den - num) * 1099511627776) (num + 16 * den * 1099511627776));
  destruct (Z.leb_spec (Z.abs (obs * den - num) * M * 1099511627776) (num * M + 16 * (den * M) * 1099511627776)); try reflexivity; nia.
Qed.

Example tolerance_example : Forall (term_ok 7) [(3, 23, 23); (0, 5, 5)] /\ close (sum_a [(3, 23, 23); (0, 5, 5)]) (sum_v [(3, 23, 23); (0, 5, 5)]) 7 = true.
Proof. split; [repeat constructor; cbn; lia|reflexivity]. Qed.
